package main

// C09 — Compile and Run are pure and deterministic.
//
//   * every generated (source, option set) is compiled 5x in this process and once in each of 2
//     fresh child processes (`harness c09 -c09child`, which regenerates the same inputs from the
//     seed and writes one digest per case); Bytecode / Constants / Locations (cqProgram) or the
//     error text must agree everywhere                          -> C09-compile-nondeterministic
//   * deep snapshots (pointer-following, slice capacity tails s[:cap(s)], map contents, unexported
//     fields) of the environment, of the sample environment given to expr.Env(...) and of the
//     *vm.Program before and after every compile / run
//                                     -> C09-env-modified, C09-sample-modified, C09-program-modified
//   * every program is run twice on the same environment and once on an equal twin built from the
//     same seed; value (or error text) and call log must agree   -> C09-rerun-differs
//   * Config.Check with several faulty operators: which error is reported (recorded finding)
//                                                                  -> C09-check-error-order
//   * a sample of the runs is written as Coq cases for Corr/CorrCore.v (model compiler, model VM
//     and reference semantics evaluated on the same programs).

import (
	"crypto/sha1"
	"encoding/json"
	"flag"
	"fmt"
	"math"
	"math/rand"
	"os"
	"os/exec"
	"path/filepath"
	"reflect"
	"regexp"
	"sort"
	"strings"
	"sync"

	"github.com/antonmedv/expr"
	"github.com/antonmedv/expr/compiler"
	"github.com/antonmedv/expr/parser"
	"github.com/antonmedv/expr/vm"
)

var c09child = flag.Bool("c09child", false, "internal: a fresh-process compilation pass of `harness c09`")
var c09order = flag.Int("c09order", 0, "internal: order in which a fresh process compiles the cases (0 as generated, 1 reversed, 2 shuffled)")

func init() { commands["c09"] = runC09 }

// ---------------------------------------------------------------- deep snapshots
type snapper struct {
	b    strings.Builder
	seen map[uintptr]int
}

var reflectTypeIface = reflect.TypeOf((*reflect.Type)(nil)).Elem()
var regexpPtrType = reflect.TypeOf((*regexp.Regexp)(nil))

// deepSnapshot renders everything reachable from v: pointers are followed (shared / cyclic
// structure is rendered by traversal-order ids, never by address), slices are rendered over their
// whole capacity, maps with sorted keys, structs with all fields (exported or not).
func deepSnapshot(v interface{}) string {
	s := &snapper{seen: map[uintptr]int{}}
	s.val(reflect.ValueOf(v), 0)
	return s.b.String()
}

func (s *snapper) id(p uintptr) (int, bool) {
	if n, ok := s.seen[p]; ok {
		return n, true
	}
	n := len(s.seen) + 1
	s.seen[p] = n
	return n, false
}

func (s *snapper) val(v reflect.Value, depth int) {
	if !v.IsValid() {
		s.b.WriteString("nil")
		return
	}
	if depth > 60 {
		s.b.WriteString("<deep>")
		return
	}
	t := v.Type()
	if t.Implements(reflectTypeIface) && v.Kind() != reflect.Interface {
		if v.CanInterface() {
			fmt.Fprintf(&s.b, "type(%v)", v.Interface())
		} else {
			s.b.WriteString("type(?)")
		}
		return
	}
	switch v.Kind() {
	case reflect.Bool:
		fmt.Fprintf(&s.b, "%v", v.Bool())
	case reflect.Int, reflect.Int8, reflect.Int16, reflect.Int32, reflect.Int64:
		fmt.Fprintf(&s.b, "%s(%d)", t, v.Int())
	case reflect.Uint, reflect.Uint8, reflect.Uint16, reflect.Uint32, reflect.Uint64, reflect.Uintptr:
		fmt.Fprintf(&s.b, "%s(%d)", t, v.Uint())
	case reflect.Float32, reflect.Float64:
		fmt.Fprintf(&s.b, "%s(%x)", t, math.Float64bits(v.Float()))
	case reflect.Complex64, reflect.Complex128:
		fmt.Fprintf(&s.b, "%s(%v)", t, v.Complex())
	case reflect.String:
		fmt.Fprintf(&s.b, "%q", v.String())
	case reflect.Interface:
		if v.IsNil() {
			s.b.WriteString("iface(nil)")
			return
		}
		s.b.WriteString("iface(")
		s.val(v.Elem(), depth+1)
		s.b.WriteString(")")
	case reflect.Ptr:
		if v.IsNil() {
			fmt.Fprintf(&s.b, "(%s)(nil)", t)
			return
		}
		if t == regexpPtrType && v.CanInterface() {
			fmt.Fprintf(&s.b, "regexp(%q)", v.Interface().(*regexp.Regexp).String())
			return
		}
		n, old := s.id(v.Pointer())
		if old {
			fmt.Fprintf(&s.b, "@%d", n)
			return
		}
		fmt.Fprintf(&s.b, "&%d:", n)
		s.val(v.Elem(), depth+1)
	case reflect.Slice:
		if v.IsNil() {
			fmt.Fprintf(&s.b, "%s(nil)", t)
			return
		}
		fmt.Fprintf(&s.b, "%s{len %d cap %d", t, v.Len(), v.Cap())
		if v.Cap() > 0 {
			n, old := s.id(v.Slice(0, v.Cap()).Pointer())
			fmt.Fprintf(&s.b, " #%d", n)
			if old {
				s.b.WriteString(" shared")
			}
		}
		s.b.WriteString(":")
		full := v.Slice(0, v.Cap()) // the capacity tail too: an append by the library would land there
		for i := 0; i < full.Len(); i++ {
			if i == v.Len() {
				s.b.WriteString(" |tail|")
			}
			s.b.WriteString(" ")
			s.val(full.Index(i), depth+1)
		}
		s.b.WriteString("}")
	case reflect.Array:
		fmt.Fprintf(&s.b, "%s[", t)
		for i := 0; i < v.Len(); i++ {
			s.b.WriteString(" ")
			s.val(v.Index(i), depth+1)
		}
		s.b.WriteString("]")
	case reflect.Map:
		if v.IsNil() {
			fmt.Fprintf(&s.b, "%s(nil)", t)
			return
		}
		n, old := s.id(v.Pointer())
		if old {
			fmt.Fprintf(&s.b, "@%d", n)
			return
		}
		type kv struct{ k, v string }
		var items []kv
		it := v.MapRange()
		for it.Next() {
			ks := &snapper{seen: s.seen}
			ks.val(it.Key(), depth+1)
			vs := &snapper{seen: map[uintptr]int{}} // values rendered independently of iteration order
			vs.val(it.Value(), depth+1)
			items = append(items, kv{ks.b.String(), vs.b.String()})
		}
		sort.Slice(items, func(i, j int) bool { return items[i].k < items[j].k })
		fmt.Fprintf(&s.b, "%s&%d{", t, n)
		for _, it := range items {
			s.b.WriteString(it.k + ": " + it.v + ", ")
		}
		s.b.WriteString("}")
	case reflect.Struct:
		fmt.Fprintf(&s.b, "%s{", t)
		for i := 0; i < v.NumField(); i++ {
			s.b.WriteString(t.Field(i).Name + ": ")
			s.val(v.Field(i), depth+1)
			s.b.WriteString("; ")
		}
		s.b.WriteString("}")
	case reflect.Func:
		if v.IsNil() {
			s.b.WriteString("func(nil)")
		} else {
			s.b.WriteString("func")
		}
	case reflect.Chan:
		fmt.Fprintf(&s.b, "chan(len %d)", v.Len())
	default:
		fmt.Fprintf(&s.b, "<%s>", v.Kind())
	}
}

// the neighbourhood of the first difference of two snapshots
func snapDiff(a, b string) string {
	i := 0
	for i < len(a) && i < len(b) && a[i] == b[i] {
		i++
	}
	lo := i - 80
	if lo < 0 {
		lo = 0
	}
	cut := func(s string) string {
		hi := i + 80
		if hi > len(s) {
			hi = len(s)
		}
		if lo > len(s) {
			return ""
		}
		return s[lo:hi]
	}
	return fmt.Sprintf("before: ...%s... after: ...%s...", cut(a), cut(b))
}

func head(s string, n int) string {
	if len(s) <= n {
		return s
	}
	return s[:n] + "..."
}

// ---------------------------------------------------------------- inputs (a function of the seed)
type c09Case struct {
	Src string
	Opt string
}

var c09OptSets = []string{"untyped", "untyped+opt", "typed", "typed+opt", "typed+opt+int64", "typed+opt+bool", "mapenv+opt", "mapenv+undef", "typed+ops+constexpr", "typed-value", "typed-value+undef", "nilconfig"}

// c09Compile: expr.Compile with the option set, or - option set "nilconfig" - what expr.Eval does: parse and
// compile with a nil *conf.Config (no type information, no options object at all)
func c09Compile(c c09Case, sample *Env, menv map[string]interface{}) (*vm.Program, error) {
	if c.Opt == "nilconfig" {
		tree, err := parser.Parse(c.Src)
		if err != nil {
			return nil, err
		}
		return compiler.Compile(tree, nil)
	}
	return expr.Compile(c.Src, c09Options(c.Opt, sample, menv)...)
}

func c09Options(name string, sample *Env, menv map[string]interface{}) []expr.Option {
	switch name {
	case "untyped":
		return []expr.Option{expr.Optimize(false)}
	case "untyped+opt":
		return []expr.Option{expr.Optimize(true)}
	case "typed":
		return []expr.Option{expr.Env(sample), expr.Optimize(false)}
	case "typed+opt":
		return []expr.Option{expr.Env(sample), expr.Optimize(true)}
	case "typed+opt+int64":
		return []expr.Option{expr.Env(sample), expr.AsInt64()}
	case "typed+opt+bool":
		return []expr.Option{expr.Env(sample), expr.AsBool()}
	case "typed-value": // the struct VALUE as sample environment (pointer-receiver methods are not members)
		return []expr.Option{expr.Env(*sample)}
	case "typed-value+undef":
		return []expr.Option{expr.Env(*sample), expr.AllowUndefinedVariables()}
	case "mapenv+opt":
		return []expr.Option{expr.Env(menv)}
	case "mapenv+undef":
		return []expr.Option{expr.Env(menv), expr.AllowUndefinedVariables(), expr.Optimize(false)}
	case "typed+ops+constexpr":
		return []expr.Option{expr.Env(sample), expr.Operator("+", "Add", "Concat"), expr.Operator("-", "Add"),
			expr.ConstExpr("Inc"), expr.ConstExpr("Half")}
	}
	return nil
}

// scrambledEnv: deep structure in which an in-place library routine or an append is visible:
// unsorted slices with spare capacity (sentinels in the tail), maps with several entries, shared
// pointers.
func scrambledEnv() *Env {
	in := &Inner{X: 9, Y: "zz", Next: &Inner{X: -3, Y: "aa"}}
	ai := make([]int, 5, 9)
	copy(ai[:9], []int{3, 1, 2, -5, 1, 77, 78, 79, 80})
	as := make([]string, 4, 7)
	copy(as[:7], []string{"b", "a", "abc", "", "t1", "t2", "t3"})
	aa := make([]interface{}, 4, 6)
	copy(aa[:6], []interface{}{"x", 2, nil, 1.5, "tail", 99})
	af := make([]float64, 2, 4)
	copy(af[:4], []float64{1.5, 0.5, 7, 8})
	e := &Env{
		I: 2, I8: 5, I16: -7, I32: 11, I64: -13, U: 17, U8: 19, U16: 23, U32: 29, U64: 31, F32: 0.5, F64: -1.25, B: true, B2: true, S: "hello", S2: "x1",
		AI: ai, AS: as, AA: aa, AF: af, MI: map[string]int{"b": 2, "a": 1, "hello": 5, "": 0}, MA: map[string]interface{}{"s": "v", "k": []int{2, 1}, "n": nil, "p": in},
		St: Inner{X: 4, Y: "st", Next: in}, P: in, Any: []interface{}{3, "c", 1},
	}
	installFuncs(e)
	return e
}

// a map environment with the members of the struct universe (logging functions included)
func c09MapEnv(e *Env) map[string]interface{} {
	return map[string]interface{}{
		"I": e.I, "I8": e.I8, "U8": e.U8, "I16": e.I16, "I32": e.I32, "I64": e.I64, "U64": e.U64, "F32": e.F32, "F64": e.F64, "S": e.S, "S2": e.S2, "B": e.B, "B2": e.B2,
		"AI": e.AI, "AS": e.AS, "AA": e.AA, "AF": e.AF, "MI": e.MI, "MA": e.MA, "P": e.P, "St": e.St, "Any": e.Any,
		"Add": e.Add, "Inc": e.Inc, "Concat": e.Concat, "IsPos": e.IsPos, "Fast": e.Fast, "Sum": e.Sum, "Id": e.Id, "Half": e.Half, "Boom": e.Boom,
	}
}

func c09Cases(rng *rand.Rand) []c09Case {
	nRandom, nEx := 500, 300
	if *tier == "thorough" {
		nRandom, nEx = 4000, 1<<30
	}
	srcs := append([]string{}, c08Fixed...)
	srcs = append(srcs, `Inc(1) + Inc(2)`, `Half(3) * 2`, `I + 1`, `S + S2`, `1 + 2 - 3`, `(I - 1) + Inc(4)`, `Twice(I)`, `PtrM(2)`, `St.Get()`, `P.Get() + St.Next.Get()`,
		`MI["zz"] + 1`, `MA["nope"]`, `Undefined`, `Undefined?.x`, `{"a": 1}.b`, `AA[1:2]`, `AI[2:]`, `map(AA, {#})`, `filter(AA, {# != nil})[0]`)
	// membership in literal arrays with REPEATED elements, for operands of every static kind (what the optimizer builds from such an
	// array has to be the same constant in every compile)
	srcs = append(srcs, `I64 in [1, 2, 1, 3]`, `I64 not in [3, 3, 2, 1, 2]`, `Any in ["a", "b", "a", "c"]`, `F64 in [1, 2, 2, 3, 1]`, `Any in [1, "a", 1, "b", "a"]`, `I in [5, 4, 5, 3, 4, 2, 3, 1]`,
		`S in ["x", "y", "x", "z", "y", "abc"]`, `U8 in [1, 2, 1, 3]`, `AA[0] in [3, 1, 3, 2, 1]`, `Id(S) in ["b", "a", "b", "abc"]`, `all(AI, {# in [4, 1, 4, 2, 3, 2]})`, `[1, 2, 1, 3][I % 4] in [9, 8, 9, 1]`)
	// runs that FAIL while looking a member up on a pointer / a map that holds pointers: the error returned on an equal, separately
	// allocated environment has to be the same text (nothing address-like may reach it)
	srcs = append(srcs, `P.Zz`, `P.Zz()`, `P.Next.Zz`, `St.Next.Zz()`, `P.Next.Zz + 1`, `MA.Zz()`, `MA.k.z`, `Any.zz`, `[P][0].Zz`, `{"p": P}.p.Zz`, `{"p": P}.Zz()`, `{"p": P, "q": St.Next}.zz.y`,
		`[P, St.Next][1].Zz()`, `map([P], {#.Zz})`, `filter([P, P.Next], {#.Zz > 1})`, `{"m": {"p": P}}.m.Zz()`, `P.X.Zz`, `St.Zz`, `St.Zz()`, `(B ? P : St.Next).Zz`)
	ex := exhaustiveExprs(1)
	rng.Shuffle(len(ex), func(i, j int) { ex[i], ex[j] = ex[j], ex[i] })
	if len(ex) > nEx {
		ex = ex[:nEx]
	}
	srcs = append(srcs, ex...)
	g := &egen{rng: rng, wrong: 15}
	for i := 0; i < nRandom; i++ {
		t := []gtype{tBool, tInt, tNum, tStr, tArrInt, tArrAny, tAny, tMapA}[rng.Intn(8)]
		srcs = append(srcs, g.expr(t, 2+rng.Intn(3)))
	}
	var cases []c09Case
	for i, s := range srcs {
		for j, o := range c09OptSets {
			// every source in the four basic modes; the other option sets on a rotating third
			if j < 4 || (i+j)%3 == 0 || o == "nilconfig" && i%2 == 0 || strings.Contains(s, "PtrM") || strings.Contains(s, "Twice") || strings.Contains(s, "Get()") {
				cases = append(cases, c09Case{s, o})
			}
		}
	}
	return cases
}

func c09Digest(p *vm.Program, err error) string {
	if err != nil {
		return "ERR " + err.Error()
	}
	return fmt.Sprintf("OK %x", sha1.Sum([]byte(cqProgram(p))))
}

// a fresh process: compile every case once, write the digests
func c09Child() {
	rng := rand.New(rand.NewSource(*seed))
	cases := c09Cases(rng)
	sample := baseEnv()
	menv := c09MapEnv(baseEnv())
	ds := make([]string, len(cases))
	// the order of compilation must not matter (no state may survive a Compile call): each fresh process
	// uses another order than the parent
	order := make([]int, len(cases))
	for i := range order {
		order[i] = i
	}
	switch *c09order {
	case 1:
		for i := range order {
			order[i] = len(cases) - 1 - i
		}
	case 2:
		// shuffled, but every case with the struct VALUE as sample environment before any other: in this process
		// they are compiled before the pointer type has ever been seen
		rand.New(rand.NewSource(*seed+77)).Shuffle(len(order), func(i, j int) { order[i], order[j] = order[j], order[i] })
		sort.SliceStable(order, func(a, b int) bool {
			return strings.HasPrefix(cases[order[a]].Opt, "typed-value") && !strings.HasPrefix(cases[order[b]].Opt, "typed-value")
		})
	}
	for _, i := range order {
		c := cases[i]
		p, err := c09Compile(c, sample, menv)
		ds[i] = c09Digest(p, err)
	}
	b, _ := json.Marshal(ds)
	if err := os.WriteFile(filepath.Join(*outDir, "digests.json"), b, 0644); err != nil {
		panic(err)
	}
}

var c09OpErr = regexp.MustCompile(`^function \S+ for \S+ operator |^const expression "`)

func runC09() {
	if *c09child {
		c09Child()
		return
	}
	rep := newReport("C09")
	rng := rand.New(rand.NewSource(*seed))
	cases := c09Cases(rng)
	if *replay != "" {
		// one (source, option set) through the in-process part of the check
		var in struct{ Src, Opt, What string }
		if err := json.Unmarshal([]byte(*replay), &in); err != nil {
			fmt.Println("bad replay argument:", err)
			return
		}
		cases = nil
		if in.Src != "" {
			cases = []c09Case{{in.Src, in.Opt}}
		}
		defer func() {
			for _, f := range rep.Failures {
				fmt.Printf("%s: %s\n  input: %v\n  want: %s\n  got: %s\n", f.Key, f.What, f.Input, f.Want, f.Got)
			}
			fmt.Printf("replay: %d failure(s)\n", len(rep.Failures))
		}()
	}
	sample := baseEnv()
	menv := c09MapEnv(baseEnv())
	sampleSnap, menvSnap := deepSnapshot(sample), deepSnapshot(menv)
	replayOf := func(c c09Case, extra string) string {
		b, _ := json.Marshal(map[string]string{"src": c.Src, "opt": c.Opt, "what": extra})
		return string(b)
	}

	// ---- fresh processes first (they run while this process works)
	exe, _ := os.Executable()
	type childRun struct {
		cmd *exec.Cmd
		dir string
	}
	var children []childRun
	for k := 0; k < 2 && *replay == ""; k++ {
		dir := filepath.Join(*outDir, fmt.Sprintf("child%d", k))
		os.MkdirAll(dir, 0755)
		os.Remove(filepath.Join(dir, "digests.json"))
		cmd := exec.Command(exe, "c09", "-c09child", "-c09order", fmt.Sprint(k+1), "-out", dir, "-seed", fmt.Sprint(*seed), "-tier", *tier)
		cmd.Stdout, cmd.Stderr = os.Stderr, os.Stderr
		if err := cmd.Start(); err == nil {
			children = append(children, childRun{cmd, dir})
		} else {
			rep.fail(Failure{Key: "C09-child-process", What: "cannot start a fresh process", Got: err.Error()})
		}
	}

	// ---- (1) repeated compilation in this process
	progs := make([]*vm.Program, len(cases))
	digests := make([]string, len(cases))
	compiledOK := 0
	for i, c := range cases {
		var first string
		for k := 0; k < 5; k++ {
			p, err := c09Compile(c, sample, menv)
			rep.Evaluations++
			d := c09Digest(p, err)
			if k == 0 {
				first, progs[i], digests[i] = d, p, d
				if err == nil {
					compiledOK++
					rep.hist("compiled " + c.Opt)
				} else {
					rep.hist("rejected " + c.Opt)
				}
			} else if d != first {
				key := "C09-compile-nondeterministic"
				if c09OpErr.MatchString(strings.TrimPrefix(first, "ERR ")) && c09OpErr.MatchString(strings.TrimPrefix(d, "ERR ")) {
					key = "C09-check-error-order"
				}
				rep.fail(Failure{Key: key, What: "compiling the same source with the same options twice in one process gives different results",
					Input: c, Want: head(first, 400), Got: head(d, 400), Replay: replayOf(c, "compile")})
				break
			}
		}
		if s := deepSnapshot(sample); s != sampleSnap {
			rep.fail(Failure{Key: "C09-sample-modified", What: "expr.Compile modified the sample environment given to expr.Env", Input: c,
				Got: snapDiff(sampleSnap, s), Replay: replayOf(c, "compile")})
			sampleSnap = s
		}
		if strings.HasPrefix(c.Opt, "mapenv") {
			if s := deepSnapshot(menv); s != menvSnap {
				rep.fail(Failure{Key: "C09-sample-modified", What: "expr.Compile modified the map environment given to expr.Env", Input: c,
					Got: snapDiff(menvSnap, s), Replay: replayOf(c, "compile")})
				menvSnap = s
			}
		}
	}

	// ---- (2) runs with snapshots; twins built from the same generator state
	nEnvs := 5
	if *tier == "thorough" {
		nEnvs = 8
	}
	envsA := append([]*Env{scrambledEnv()}, standardEnvs(rand.New(rand.NewSource(*seed+1)), nEnvs-1)...)
	envsB := append([]*Env{scrambledEnv()}, standardEnvs(rand.New(rand.NewSource(*seed+1)), nEnvs-1)...)
	menvA, menvB := make([]map[string]interface{}, nEnvs), make([]map[string]interface{}, nEnvs)
	snapA, snapMA := make([]string, nEnvs), make([]string, nEnvs)
	for i := range envsA {
		menvA[i], menvB[i] = c09MapEnv(envsA[i]), c09MapEnv(envsB[i])
		snapA[i], snapMA[i] = deepSnapshot(envsA[i]), deepSnapshot(menvA[i])
		if snapA[i] != deepSnapshot(envsB[i]) {
			rep.fail(Failure{Key: "C09-harness-twins", What: "harness: twin environments differ", Got: snapDiff(snapA[i], deepSnapshot(envsB[i]))})
		}
	}
	show := func(r coreRun) string {
		s := c08Result(r.out, r.err)
		if len(r.log) > 0 {
			s += " calls " + cqTrace(r.log)
		}
		return s
	}
	distinct := map[string]bool{}
	runs := 0
	seenProg := map[string]bool{}
	for i, c := range cases {
		p := progs[i]
		if p == nil {
			continue
		}
		// one option set per distinct program text is enough for the run part
		key := c.Src + "|" + digests[i] + "|" + fmt.Sprint(strings.HasPrefix(c.Opt, "mapenv"))
		if seenProg[key] {
			continue
		}
		seenProg[key] = true
		isMap := strings.HasPrefix(c.Opt, "mapenv")
		progSnap := deepSnapshot(p)
		for ei := 0; ei < nEnvs; ei++ {
			var envA, envB interface{} = envsA[ei], envsB[ei]
			before := snapA[ei]
			if isMap {
				envA, envB, before = menvA[ei], menvB[ei], snapMA[ei]
			}
			r1 := runProgram(p, envA)
			after := deepSnapshot(envA)
			runs++
			rep.Evaluations++
			in := map[string]interface{}{"src": c.Src, "opt": c.Opt, "env": ei}
			if after != before {
				rep.fail(Failure{Key: "C09-env-modified", What: "vm.Run modified the environment value", Input: in,
					Want: "environment unchanged (deep snapshot incl. slice capacity tails and map contents)", Got: snapDiff(before, after), Replay: replayOf(c, fmt.Sprint("env ", ei))})
				if isMap {
					snapMA[ei] = after
				} else {
					snapA[ei] = after
				}
			}
			if s := deepSnapshot(p); s != progSnap {
				rep.fail(Failure{Key: "C09-program-modified", What: "vm.Run modified the program", Input: in, Got: snapDiff(progSnap, s), Replay: replayOf(c, fmt.Sprint("env ", ei))})
				progSnap = s
			}
			r2 := runProgram(p, envA)
			r3 := runProgram(p, envB)
			rep.Evaluations += 2
			if show(r1) != show(r2) || show(r1) != show(r3) {
				got := show(r2)
				if show(r1) == show(r2) {
					got = "on the twin environment: " + show(r3)
				}
				rep.fail(Failure{Key: "C09-rerun-differs", What: "running the program again on the same / an equal environment gives a different result", Input: in,
					Want: head(show(r1), 500), Got: head(got, 500), Replay: replayOf(c, fmt.Sprint("env ", ei))})
			}
			// the re-runs must not have modified anything either
			if s := deepSnapshot(envA); s != after {
				rep.fail(Failure{Key: "C09-env-modified", What: "the second vm.Run modified the environment value", Input: in, Got: snapDiff(after, s), Replay: replayOf(c, fmt.Sprint("env ", ei))})
				if isMap {
					snapMA[ei] = s
				} else {
					snapA[ei] = s
				}
			}
			if r1.err == nil {
				rep.hist(fmt.Sprintf("run ok -> %T", r1.out))
			} else {
				rep.hist("run fails " + cqErrClass(r1.err.Error()))
			}
			distinct[fmt.Sprintf("%d|%d", i, ei)] = true
		}
		if s := deepSnapshot(sample); s != sampleSnap {
			rep.fail(Failure{Key: "C09-sample-modified", What: "running a program modified the sample environment given to expr.Env at compile time", Input: c,
				Got: snapDiff(sampleSnap, s), Replay: replayOf(c, "run")})
			sampleSnap = s
		}
	}
	rep.Histogram["runs"] = runs * 3
	rep.Histogram["distinct programs run"] = len(seenProg)

	// ---- (3) Config.Check with several faulty operators: which error is reported?
	{
		msgs := map[string]int{}
		for k := 0; k < 40; k++ {
			_, err := expr.Compile("1 + 1", expr.Env(sample), expr.Operator("+", "NoSuchA"), expr.Operator("-", "NoSuchB"), expr.Operator("*", "NoSuchC"),
				expr.Operator("/", "NoSuchD"), expr.Operator("%", "NoSuchE"), expr.Operator("<", "NoSuchF"))
			rep.Evaluations++
			if err == nil {
				msgs["<nil>"]++
			} else {
				msgs[err.Error()]++
			}
		}
		if len(msgs) > 1 {
			var ms []string
			for m := range msgs {
				ms = append(ms, m)
			}
			sort.Strings(ms)
			rep.fail(Failure{Key: "C09-check-error-order", What: "Config.Check ranges over the Operators map and returns the first error it meets: the reported error differs between identical Compile calls",
				Input: `expr.Compile("1 + 1", Env(sample), Operator("+","NoSuchA"), Operator("-","NoSuchB"), ... six missing functions) x 40`,
				Want:  "the same error on every call", Got: fmt.Sprintf("%d different messages, e.g. %q and %q", len(ms), ms[0], ms[1]),
				Replay: `{"what": "check-error-order"}`})
		}
	}

	// ---- (4) an operator with SEVERAL candidate functions that all fit the operands through interface-typed parameters:
	//      identical Compile calls choose the same one (and produce the same program and result)
	{
		env := C09OpEnv{A: C09Str("a"), B: C09Str("b")}
		for _, fns := range [][]string{{"JoinA", "JoinB", "JoinC", "JoinD"}, {"JoinD", "JoinC", "JoinB", "JoinA"}, {"JoinB", "JoinD"}} {
			seen := map[string]int{}
			for k := 0; k < 60; k++ {
				rep.Evaluations++
				rep.hist("operator with several fitting candidates")
				out := "?"
				func() {
					defer func() {
						if r := recover(); r != nil {
							out = fmt.Sprintf("panic: %v", r)
						}
					}()
					p, err := expr.Compile("[A + B, A + A, B + A]", expr.Env(env), expr.Operator("+", fns...))
					if err != nil {
						out = "compile error: " + err.Error()
						return
					}
					v, err := expr.Run(p, env)
					out = fmt.Sprintf("%s => %v / %v", cqProgram(p), v, err)
				}()
				seen[out]++
			}
			if len(seen) > 1 {
				var ms []string
				for m := range seen {
					ms = append(ms, m)
				}
				sort.Strings(ms)
				rep.fail(Failure{Key: "C09-compile-nondeterministic", What: "identical Compile calls with an operator that has several fitting candidate functions choose different functions",
					Input: map[string]interface{}{"src": "[A + B, A + A, B + A]", "operator": "+", "functions": fns, "env": "C09OpEnv"},
					Want:  "one program and one result", Got: clip(fmt.Sprintf("%d different outcomes, e.g. %s AND %s", len(ms), ms[0], ms[1])), Replay: `{"what": "operator-candidates"}`})
			}
		}
	}

	// ---- (5) "running it again on an equal environment yields an equal result" also on ONE reused vm.VM, whatever the
	//      earlier runs allocated in total (15 runs of ~120 000 elements each: more than the default budget together)
	{
		env := baseEnv()
		for _, src := range []string{"len((I - I)..(I - I + 120000)) + len(filter([I, I + 1], {# > 0}))", "len(map(1..(I - I + 90000), {#})) + len([I, S, nil])"} {
			p, err := expr.Compile(src, expr.Env(env))
			if err != nil {
				rep.fail(Failure{Key: "C09-run-nondeterministic", What: "the reused-VM program does not compile", Input: src, Got: err.Error()})
				continue
			}
			machine := &vm.VM{}
			first := ""
			for k := 0; k < 15; k++ {
				rep.Evaluations++
				rep.hist("reused-VM repeat run")
				out, rerr := func() (o interface{}, e error) {
					defer func() {
						if r := recover(); r != nil {
							e = fmt.Errorf("panic: %v", r)
						}
					}()
					return machine.Run(p, env)
				}()
				got := fmt.Sprintf("%v / %v", out, rerr)
				if k == 0 {
					first = got
				} else if got != first {
					rep.fail(Failure{Key: "C09-run-nondeterministic", What: fmt.Sprintf("run %d of the same program on an equal environment (one reused vm.VM) differs from run 1", k+1),
						Input: map[string]interface{}{"src": src, "reused_vm_run": k + 1}, Want: first, Got: clip(got), Replay: `{"what": "reused-vm-repeat"}`})
					break
				}
			}
		}
	}

	// ---- (6) SEVERAL programs interleaved on one reused vm.VM over one environment value: the result of a program is a function of
	//      (program, environment) - not of which other programs the machine ran in between (their constant pools, member
	//      names and call sites are numbered independently)
	{
		env := baseEnv()
		srcs := []string{"S", "S2", "I", "I8", "St.X", "St.Y", "P?.X", "S + S2", "I + I8", "Inc(I)", "Add(I, I8 > 0 ? 1 : 2)", "[S, I]", "{a: S2, b: I}", "St.Get()", "len(AI) + I", "AI[0]", "MI.a", "Any"}
		type prog struct {
			src   string
			p     *vm.Program
			first string
		}
		var ps []prog
		for _, src := range srcs {
			p, err := expr.Compile(src, expr.Env(env))
			if err != nil {
				continue
			}
			out, rerr := vm.Run(p, env)
			ps = append(ps, prog{src, p, fmt.Sprintf("%#v / %v", out, rerr)})
		}
		machine := &vm.VM{}
		for k := 0; k < 4*len(ps) && len(ps) > 0; k++ {
			x := ps[(k*5+k/len(ps))%len(ps)]
			rep.Evaluations++
			rep.hist("several programs interleaved on one VM")
			out, rerr := func() (o interface{}, e error) {
				defer func() {
					if r := recover(); r != nil {
						e = fmt.Errorf("panic: %v", r)
					}
				}()
				return machine.Run(x.p, env)
			}()
			if got := fmt.Sprintf("%#v / %v", out, rerr); got != x.first {
				rep.fail(Failure{Key: "C09-run-nondeterministic", What: "a program run on a vm.VM that ran OTHER programs over the same environment before returns another result than its run on a fresh VM",
					Input: map[string]interface{}{"src": x.src, "step": k + 1, "programs": srcs}, Want: x.first, Got: clip(got), Replay: `{"what": "reused-vm-interleaved"}`})
				break
			}
		}
	}

	// ---- (7) the same (source, options) compiled while OTHER compilations are in flight: identical constants and bytecode as
	//      the sequential compilation (string literals with escapes, long literals, numbers, identifiers: everything the front
	//      end builds in working buffers)
	{
		env := baseEnv()
		var srcs, want []string
		for g := 0; g < 8; g++ {
			var b strings.Builder
			for i := 0; i < 160; i++ {
				fmt.Fprintf(&b, "\\t%c%d\\n\\u00e9\\\\", 'a'+g, i)
			}
			lit := b.String()
			srcs = append(srcs, fmt.Sprintf(`S + "%s" + '%s' + "plain%d" + S2`, lit, strings.ReplaceAll(lit, "\\u00e9", "\\x41"), g),
				fmt.Sprintf(`[%d.5e2, 0x%x, %d][I - I] > 0 and S != "\t%d\\ \u00e9" + '%s'`, g+1, 255+g, 1000+g, g, lit[:60]))
		}
		digest := func(p *vm.Program) string { return fmt.Sprintf("%v|%#v", p.Bytecode, p.Constants) }
		ok := true
		for _, src := range srcs {
			p, err := expr.Compile(src, expr.Env(env))
			if err != nil {
				ok = false
				rep.hist("concurrent-compile source rejected: " + firstWords(err.Error()))
				rep.fail(Failure{Key: "C09-campaign-source-rejected", What: "a fixed, well-formed source of the concurrent-compile campaign is rejected by expr.Compile (the campaign cannot run)",
					Input: clip(src), Want: "a program", Got: firstLineOf(err.Error())})
				break
			}
			want = append(want, digest(p))
		}
		if ok {
			var wg sync.WaitGroup
			var mu sync.Mutex
			bad := ""
			for g := range srcs {
				wg.Add(1)
				go func(g int) {
					defer wg.Done()
					for it := 0; it < 150; it++ {
						p, err := expr.Compile(srcs[g], expr.Env(env))
						got := ""
						if err != nil {
							got = "error: " + err.Error()
						} else {
							got = digest(p)
						}
						if got != want[g] {
							mu.Lock()
							if bad == "" {
								bad = fmt.Sprintf("source %d, iteration %d: %s", g, it, clip(got))
							}
							mu.Unlock()
							return
						}
					}
				}(g)
			}
			wg.Wait()
			rep.Evaluations += 150 * len(srcs)
			rep.hist("compilations while other compilations are in flight")
			if bad != "" {
				rep.fail(Failure{Key: "C09-compile-nondeterministic", What: "a source compiled while other compilations are in flight gives another program than its sequential compilation",
					Input: map[string]interface{}{"sources": "16 sources with ~2 KB escaped string literals / numeric literals, 16 goroutines x 150 compilations", "first": clip(srcs[0])},
					Want:  "the program of the sequential compilation", Got: bad, Replay: `{"what": "concurrent-compile"}`})
			}
		}
	}

	// ---- (1b) the fresh processes
	for k, ch := range children {
		err := ch.cmd.Wait()
		var ds []string
		if b, rerr := os.ReadFile(filepath.Join(ch.dir, "digests.json")); rerr == nil {
			json.Unmarshal(b, &ds)
		}
		if err != nil || len(ds) != len(cases) {
			rep.fail(Failure{Key: "C09-child-process", What: "a fresh-process compilation pass failed or produced a different number of cases (generator not a function of the seed?)",
				Got: fmt.Sprintf("child %d: %v, %d digests for %d cases", k, err, len(ds), len(cases))})
			continue
		}
		rep.Evaluations += len(ds)
		for i, d := range ds {
			if d != digests[i] {
				key := "C09-compile-nondeterministic"
				if c09OpErr.MatchString(strings.TrimPrefix(d, "ERR ")) && c09OpErr.MatchString(strings.TrimPrefix(digests[i], "ERR ")) {
					key = "C09-check-error-order"
				}
				rep.fail(Failure{Key: key, What: "a fresh process compiles the same source with the same options to a different result", Input: cases[i],
					Want: head(digests[i], 400), Got: head(d, 400), Replay: replayOf(cases[i], "cross-process")})
			}
		}
	}
	rep.Histogram["cases (source, option set)"] = len(cases)
	rep.Histogram["compiled"] = compiledOK

	// ---- (4) Coq cases: the same kind of runs in the model (compiler, VM, reference semantics)
	{
		nCoq := 320
		if *tier == "thorough" {
			nCoq = 3000
		}
		crng := rand.New(rand.NewSource(*seed + 2))
		cenvs := standardEnvs(rand.New(rand.NewSource(*seed+3)), 4)
		var coq []string
		modes := []coreMode{modeUntyped, modeTyped, modeTypedOpt}
		for tries := 0; len(coq) < nCoq && tries < nCoq*6 && len(cases) > 0; tries++ {
			c := cases[crng.Intn(len(cases))]
			m := modes[crng.Intn(3)]
			tree, prog, _, err := pipeline(c.Src, m.options(cenvs[0]))
			if err != nil {
				continue
			}
			ei := crng.Intn(len(cenvs))
			r := runProgram(prog, cenvs[ei])
			coq = append(coq, coreCase(false, m.Cast, vm.MemoryBudget, ei, tree, prog, r))
		}
		rep.writeShards("cases_c09", coreHeader(cenvs), "ccase", "core_mismatches fe", coq)
	}

	rep.Distinct = compiledOK + len(distinct)
	for i := 0; i < 6 && i < len(cases); i++ {
		rep.Samples = append(rep.Samples, cases[(i*7919+13)%len(cases)])
	}
	rep.Rule = "cases = (fixed sources covering every constant kind and every allocating opcode + a shuffled sample (quick) / all (thorough) of the exhaustive shape family + type-directed random expressions) x option sets {untyped, untyped+opt, typed, typed+opt on every source; AsInt64, AsBool, map environment, map environment + AllowUndefinedVariables, operator overloading + ConstExpr, the struct VALUE as sample environment with and without AllowUndefinedVariables on a rotating third and on every source that calls a method}; each compiled 5x in-process and once in each of 2 fresh processes that compile the cases in REVERSED order and in SHUFFLED order with the value-environment cases first (digest of Bytecode+Constants+Locations or the error text); every distinct program run on 5 (quick) / 8 (thorough) environments with deep structure (one with unsorted slices that have spare capacity, multi-entry maps, shared pointers), twice on the same value and once on an equal twin, with deep snapshots of environment, sample environment and program around every run; distinct_nontrivial = successfully compiled (source, option set) pairs + distinct (program, environment) pairs run"
	rep.write()
}

// an environment whose operator candidates fit only through interface-typed parameters
type C09Str string

func (s C09Str) String() string { return string(s) }

type C09OpEnv struct{ A, B C09Str }

func (C09OpEnv) JoinA(a, b fmt.Stringer) string             { return "A:" + a.String() + b.String() }
func (C09OpEnv) JoinB(a, b interface{}) string              { return fmt.Sprintf("B:%v%v", a, b) }
func (C09OpEnv) JoinC(a fmt.Stringer, b interface{}) string { return fmt.Sprintf("C:%v%v", a, b) }
func (C09OpEnv) JoinD(a interface{}, b fmt.Stringer) string { return fmt.Sprintf("D:%v%v", a, b) }

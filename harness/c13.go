package main

// C13 — errors point at the offending source position.
//
// Generators (one PRNG, *seed): type-directed expression trees over the environment universe
// (plus fields with non-ASCII names), printed as token lists whose anchor tokens are known, laid
// out over several lines with random white space, tabs and multi-byte runes; then ONE fault is
// injected at a known token:
//   (i)   an unknown identifier / function / field / method name,
//   (ii)  a type mismatch at one chosen operator (or builtin, index, argument, condition, closure),
//   (iii) a syntax error at one token (stray closer, missing operand, invalid number literal, bad
//         regular expression, unrecognised character, unterminated string, malformed number),
//   (iv)  run time: programs with exactly one failing operation among guarded decoys.
// Oracle (implementation level): the *file.Error's Line/Column must equal the position of that
// token computed from the layout in runes; 1 <= Line <= number of lines, 0 <= Column <= length of
// the line; Snippet must be "\n | " + the named source line (tabs shown as blanks) + the
// indicator line demanded by Error.Bind (dropped after a multi-byte rune: documented rendering);
// Error() must be Message + " (line:column+1)" + Snippet.
// Correspondence: every error and every Source.Snippet call is also written as a Coq case for
// coq/Corr/CorrC13.v; samples of the sources go to the lexer / parser correspondences
// (CorrC12 / CorrC11 evaluators) so that the models used by the C13 theorems are tied to the code
// on multi-line, multi-byte, fault-injected inputs as well.

import (
	"encoding/json"
	"fmt"
	"math/rand"
	"os"
	"regexp"
	"sort"
	"strconv"
	"strings"
	"unicode/utf8"

	"github.com/antonmedv/expr"
	"github.com/antonmedv/expr/file"
	"github.com/antonmedv/expr/vm"
)

func init() { commands["c13"] = runC13 }

// ---------------------------------------------------------------- environment
type C13Env struct {
	Env
	Über   int
	Ñame   string
	Größen []int
	AnyS   interface{}
	AnyI   interface{}
	AnyN   interface{}
	Zero   int
	NilP   *Inner
	// evaluates ANOTHER expression and re-panics with that evaluation's own error value (a *file.Error of another source)
	Rethrow func(src string) int
}

func c13Env() C13Env {
	b := baseEnv()
	e := C13Env{Env: *b, Über: 11, Ñame: "ñandú", Größen: []int{5, 6, 7}, AnyS: "str", AnyI: 42, AnyN: nil, Zero: 0, NilP: nil}
	e.St.Next = nil
	e.Rethrow = func(src string) int {
		_, err := expr.Eval(src, nil)
		if err != nil {
			panic(err)
		}
		return 0
	}
	return e
}

// ---------------------------------------------------------------- trees with known anchor tokens
type c13n struct {
	kind  string // ident int float str bool nil unary binary matches prop method func builtin index slice cond closure pointer array map pair
	typ   string // int float bool str arrint arrstr arrany inner map any
	op    string
	parts []c13part
}

type c13part struct {
	tok    string
	anchor bool
	child  *c13n
	opnd   bool // operand position: a composite child is printed in parentheses
}

type c13tok struct {
	text string
	node *c13n // the node this token anchors (nil for punctuation)
}

func tk(s string) c13part     { return c13part{tok: s} }
func anchor(s string) c13part { return c13part{tok: s, anchor: true} }
func kid(n *c13n) c13part     { return c13part{child: n} }
func c13leaf(kind, typ, text string) *c13n {
	return &c13n{kind: kind, typ: typ, parts: []c13part{anchor(text)}}
}

func (n *c13n) composite() bool {
	switch n.kind {
	case "unary", "binary", "matches", "cond":
		return true
	}
	return false
}

// operand position: composite operands are parenthesised when printed (precedence never matters)
func opnd(n *c13n) []c13part {
	return []c13part{{child: n, opnd: true}}
}

func c13un(op string, x *c13n, typ string) *c13n {
	return &c13n{kind: "unary", typ: typ, op: op, parts: append([]c13part{anchor(op)}, opnd(x)...)}
}

func c13bin(op string, l, r *c13n, typ string) *c13n {
	kind := "binary"
	if op == "matches" {
		kind = "matches"
	}
	p := append([]c13part{}, opnd(l)...)
	p = append(p, anchor(op))
	p = append(p, opnd(r)...)
	return &c13n{kind: kind, typ: typ, op: op, parts: p}
}

func c13cond(c, a, b *c13n) *c13n {
	p := append([]c13part{}, opnd(c)...)
	p = append(p, anchor("?")) // the anchor the property demands (DESIGN: `?` for the conditional)
	p = append(p, opnd(a)...)
	p = append(p, tk(":"))
	p = append(p, opnd(b)...)
	return &c13n{kind: "cond", typ: a.typ, parts: p}
}

func c13prop(x *c13n, name string, ns bool, typ string) *c13n {
	dot := "."
	if ns {
		dot = "?."
	}
	p := append([]c13part{}, opnd(x)...)
	p = append(p, tk(dot), anchor(name))
	return &c13n{kind: "prop", typ: typ, parts: p}
}

func c13method(x *c13n, name string, typ string, args ...*c13n) *c13n {
	p := append([]c13part{}, opnd(x)...)
	p = append(p, tk("."), anchor(name), tk("("))
	for i, a := range args {
		if i > 0 {
			p = append(p, tk(","))
		}
		p = append(p, kid(a))
	}
	p = append(p, tk(")"))
	return &c13n{kind: "method", typ: typ, parts: p}
}

func c13call(kind, name, typ string, args ...*c13n) *c13n {
	p := []c13part{anchor(name), tk("(")}
	for i, a := range args {
		if i > 0 {
			p = append(p, tk(","))
		}
		p = append(p, kid(a))
	}
	p = append(p, tk(")"))
	return &c13n{kind: kind, typ: typ, op: name, parts: p}
}

func c13closure(body *c13n) *c13n {
	return &c13n{kind: "closure", typ: body.typ, parts: []c13part{anchor("{"), kid(body), tk("}")}}
}

func c13index(x, i *c13n, typ string) *c13n {
	p := append([]c13part{}, opnd(x)...)
	p = append(p, anchor("["), kid(i), tk("]"))
	return &c13n{kind: "index", typ: typ, parts: p}
}

func c13slice(x, from, to *c13n, typ string) *c13n {
	p := append([]c13part{}, opnd(x)...)
	p = append(p, anchor("["))
	if from != nil {
		p = append(p, kid(from))
	}
	p = append(p, tk(":"))
	if to != nil {
		p = append(p, kid(to))
	}
	p = append(p, tk("]"))
	return &c13n{kind: "slice", typ: typ, parts: p}
}

func c13array(typ string, es ...*c13n) *c13n {
	p := []c13part{anchor("[")}
	for i, a := range es {
		if i > 0 {
			p = append(p, tk(","))
		}
		p = append(p, kid(a))
	}
	p = append(p, tk("]"))
	return &c13n{kind: "array", typ: typ, parts: p}
}

func c13map(keys []string, vals []*c13n) *c13n {
	p := []c13part{anchor("{")}
	for i := range keys {
		if i > 0 {
			p = append(p, tk(","))
		}
		p = append(p, tk(keys[i]), tk(":"), kid(vals[i]))
	}
	p = append(p, tk("}"))
	return &c13n{kind: "map", typ: "map", parts: p}
}

func (n *c13n) flatten(out *[]c13tok) {
	for _, p := range n.parts {
		switch {
		case p.child != nil && p.opnd && p.child.composite():
			*out = append(*out, c13tok{"(", nil})
			p.child.flatten(out)
			*out = append(*out, c13tok{")", nil})
		case p.child != nil:
			p.child.flatten(out)
		case p.anchor:
			*out = append(*out, c13tok{p.tok, n})
		default:
			*out = append(*out, c13tok{p.tok, nil})
		}
	}
}

func (n *c13n) tokens() []c13tok {
	var out []c13tok
	n.flatten(&out)
	return out
}

type c13slot struct {
	parent *c13n
	idx    int // index into parent.parts of the child
}

func (n *c13n) walk(f func(n *c13n, parent *c13n, idx int)) {
	var rec func(x *c13n, parent *c13n, idx int)
	rec = func(x *c13n, parent *c13n, idx int) {
		f(x, parent, idx)
		for i, p := range x.parts {
			if p.child != nil {
				rec(p.child, x, i)
			}
		}
	}
	rec(n, nil, -1)
}

func (n *c13n) children() []*c13n {
	var out []*c13n
	for _, p := range n.parts {
		if p.child != nil {
			out = append(out, p.child)
		}
	}
	return out
}

func (n *c13n) clone() *c13n {
	m := &c13n{kind: n.kind, typ: n.typ, op: n.op, parts: make([]c13part, len(n.parts))}
	for i, p := range n.parts {
		m.parts[i] = p
		if p.child != nil {
			m.parts[i].child = p.child.clone()
		}
	}
	return m
}

func (n *c13n) anchorIdx() int {
	for i, p := range n.parts {
		if p.anchor {
			return i
		}
	}
	return -1
}

// ---------------------------------------------------------------- generator (well-typed in strict mode)
type c13gen struct {
	rng   *rand.Rand
	elems []string // element types of the enclosing closures
	hist  map[string]int
}

func (g *c13gen) pick(xs ...string) string { return xs[g.rng.Intn(len(xs))] }
func (g *c13gen) note(k string) {
	if g.hist != nil {
		g.hist["gen "+k]++
	}
}

var c13strLits = []string{`"a"`, `'b'`, `"héllo"`, `'日本語'`, `"a\tb"`, `"q\"uote"`, `"ünï çödé"`, `"x😀y"`, `""`, `"abc"`}

func (g *c13gen) intLeaf() *c13n {
	if len(g.elems) > 0 && g.elems[len(g.elems)-1] == "int" && g.rng.Intn(2) == 0 {
		return c13leaf("pointer", "int", "#")
	}
	if g.rng.Intn(3) == 0 {
		return c13leaf("int", "int", g.pick("1", "2", "3", "7", "42", "1_000", "0x1F"))
	}
	return c13leaf("ident", "int", g.pick("I", "Über", "Zero", "I"))
}
func (g *c13gen) boolLeaf() *c13n {
	if g.rng.Intn(2) == 0 {
		return c13leaf("bool", "bool", g.pick("true", "false"))
	}
	return c13leaf("ident", "bool", g.pick("B", "B2"))
}
func (g *c13gen) strLeaf() *c13n {
	if len(g.elems) > 0 && g.elems[len(g.elems)-1] == "str" && g.rng.Intn(2) == 0 {
		return c13leaf("pointer", "str", "#")
	}
	if g.rng.Intn(2) == 0 {
		return c13leaf("str", "str", c13strLits[g.rng.Intn(len(c13strLits))])
	}
	return c13leaf("ident", "str", g.pick("S", "S2", "Ñame"))
}

func (g *c13gen) gen(typ string, d int) *c13n {
	switch typ {
	case "int":
		return g.genInt(d)
	case "bool":
		return g.genBool(d)
	case "str":
		return g.genStr(d)
	case "arrint":
		return g.genArrInt(d)
	case "arrstr":
		return c13leaf("ident", "arrstr", "AS")
	case "float":
		if d > 0 && g.rng.Intn(2) == 0 {
			return c13bin(g.pick("*", "+", "-", "**"), g.gen("float", d-1), g.gen("int", d-1), "float")
		}
		if g.rng.Intn(2) == 0 {
			return c13leaf("float", "float", g.pick("1.5", "0.25", "2e3", ".5"))
		}
		return c13leaf("ident", "float", "F64")
	}
	panic("c13gen: type " + typ)
}

func (g *c13gen) inner() *c13n {
	return c13leaf("ident", "inner", g.pick("St", "P"))
}

func (g *c13gen) withElem(t string, f func() *c13n) *c13n {
	g.elems = append(g.elems, t)
	defer func() { g.elems = g.elems[:len(g.elems)-1] }()
	return f()
}

func (g *c13gen) genInt(d int) *c13n {
	if d <= 0 {
		return g.intLeaf()
	}
	switch g.rng.Intn(14) {
	case 0:
		return g.intLeaf()
	case 1, 2:
		g.note("binary arith")
		return c13bin(g.pick("+", "-", "*", "%"), g.genInt(d-1), g.genInt(d-1), "int")
	case 3:
		g.note("binary arith")
		return c13bin("/", g.genInt(d-1), c13leaf("int", "int", g.pick("2", "3", "7")), "int")
	case 4:
		g.note("unary")
		return c13un(g.pick("-", "+"), g.genInt(d-1), "int")
	case 5:
		g.note("conditional")
		return c13cond(g.genBool(d-1), g.genInt(d-1), g.genInt(d-1))
	case 6:
		g.note("index")
		return c13index(g.genArrInt(d-1), g.genInt(d-1), "int")
	case 7:
		g.note("property")
		return c13prop(g.inner(), "X", false, "int")
	case 8:
		g.note("function")
		return c13call("func", "Add", "int", g.genInt(d-1), g.genInt(d-1))
	case 9:
		g.note("function")
		return c13call("func", g.pick("Inc", "Twice"), "int", g.genInt(d-1))
	case 10:
		g.note("method")
		return c13method(g.inner(), "Get", "int")
	case 11:
		g.note("builtin len")
		if g.rng.Intn(2) == 0 {
			return c13call("builtin", "len", "int", g.genStr(d-1))
		}
		return c13call("builtin", "len", "int", g.genArrInt(d-1))
	case 12:
		g.note("builtin count")
		arr := g.genArrInt(d - 1)
		cl := g.withElem("int", func() *c13n { return c13closure(g.genBool(d - 1)) })
		return c13call("builtin", "count", "int", arr, cl)
	}
	g.note("function")
	return c13call("func", "Sum", "int", g.genInt(d-1), g.genInt(d-1), g.genInt(d-1))
}

func (g *c13gen) genBool(d int) *c13n {
	if d <= 0 {
		return g.boolLeaf()
	}
	switch g.rng.Intn(13) {
	case 0:
		return g.boolLeaf()
	case 1:
		g.note("unary")
		return c13un(g.pick("not", "!"), g.genBool(d-1), "bool")
	case 2, 3:
		g.note("binary logical")
		return c13bin(g.pick("and", "or", "&&", "||"), g.genBool(d-1), g.genBool(d-1), "bool")
	case 4, 5:
		g.note("binary comparison")
		return c13bin(g.pick("<", ">", "<=", ">=", "==", "!="), g.genInt(d-1), g.genInt(d-1), "bool")
	case 6:
		g.note("binary string")
		return c13bin(g.pick("contains", "startsWith", "endsWith", "=="), g.genStr(d-1), g.genStr(d-1), "bool")
	case 7:
		g.note("matches")
		return c13bin("matches", g.genStr(d-1), c13leaf("str", "str", g.pick(`"^a"`, `"b$"`, `"h.*o"`, `'[0-9]+'`, `"é+"`)), "bool")
	case 8:
		g.note("in")
		return c13bin(g.pick("in", "not in"), g.genInt(d-1), g.genArrInt(d-1), "bool")
	case 9:
		g.note("builtin predicate")
		arr := g.genArrInt(d - 1)
		cl := g.withElem("int", func() *c13n { return c13closure(g.genBool(d - 1)) })
		return c13call("builtin", g.pick("all", "none", "any", "one"), "bool", arr, cl)
	case 10:
		g.note("conditional")
		return c13cond(g.genBool(d-1), g.genBool(d-1), g.genBool(d-1))
	case 11:
		g.note("nil comparison")
		return c13bin(g.pick("==", "!="), c13leaf("ident", "inner", "P"), c13leaf("nil", "any", "nil"), "bool")
	}
	g.note("function")
	return c13call("func", "IsPos", "bool", g.genInt(d-1))
}

func (g *c13gen) genStr(d int) *c13n {
	if d <= 0 {
		return g.strLeaf()
	}
	switch g.rng.Intn(9) {
	case 0, 1:
		return g.strLeaf()
	case 2:
		g.note("binary string")
		return c13bin("+", g.genStr(d-1), g.genStr(d-1), "str")
	case 3:
		g.note("conditional")
		return c13cond(g.genBool(d-1), g.genStr(d-1), g.genStr(d-1))
	case 4:
		g.note("property")
		return c13prop(g.inner(), "Y", false, "str")
	case 5:
		g.note("index")
		return c13index(c13leaf("ident", "arrstr", "AS"), g.genInt(d-1), "str")
	case 6:
		g.note("function")
		return c13call("func", "Concat", "str", g.genStr(d-1), g.genStr(d-1))
	case 7:
		g.note("slice")
		return c13slice(c13leaf("ident", "str", g.pick("S", "S2", "Ñame")), g.genInt(d-1), g.genInt(d-1), "str")
	}
	g.note("property")
	return c13prop(c13prop(c13leaf("ident", "inner", "St"), "Next", false, "inner"), "Y", g.rng.Intn(2) == 0, "str")
}

func (g *c13gen) genArrInt(d int) *c13n {
	if d <= 0 {
		return c13leaf("ident", "arrint", g.pick("AI", "Größen"))
	}
	switch g.rng.Intn(7) {
	case 0, 1:
		return c13leaf("ident", "arrint", g.pick("AI", "Größen"))
	case 2:
		g.note("range")
		return c13bin("..", g.genInt(d-1), g.genInt(d-1), "arrint")
	case 3:
		g.note("builtin filter")
		arr := g.genArrInt(d - 1)
		cl := g.withElem("int", func() *c13n { return c13closure(g.genBool(d - 1)) })
		return c13call("builtin", "filter", "arrint", arr, cl)
	case 4:
		g.note("builtin map")
		arr := g.genArrInt(d - 1)
		cl := g.withElem("int", func() *c13n { return c13closure(g.genInt(d - 1)) })
		return c13call("builtin", "map", "arrint", arr, cl)
	case 5:
		g.note("slice")
		if g.rng.Intn(2) == 0 {
			return c13slice(g.genArrInt(d-1), g.genInt(d-1), nil, "arrint")
		}
		return c13slice(g.genArrInt(d-1), nil, g.genInt(d-1), "arrint")
	}
	g.note("conditional")
	return c13cond(g.genBool(d-1), g.genArrInt(d-1), g.genArrInt(d-1))
}

// top level: sometimes an array or map literal around several expressions
func (g *c13gen) top(d int) *c13n {
	switch g.rng.Intn(8) {
	case 0:
		g.note("array literal")
		return c13array("arrany", g.gen("int", d-1), g.gen("str", d-1), g.gen("bool", d-1))
	case 1:
		g.note("map literal")
		return c13map([]string{g.pick("a", `"k"`, "ключ"), g.pick("b", "'é'", "x1")}, []*c13n{g.gen("int", d-1), g.gen("bool", d-1)})
	}
	return g.gen([]string{"int", "bool", "str", "arrint", "float"}[g.rng.Intn(5)], d)
}

// ---------------------------------------------------------------- layout
type c13pos struct{ line, col int }

func c13gluable(s string) bool {
	switch s {
	case "(", ")", "[", "]", "{", "}", ",":
		return true
	}
	return false
}

// (a lone carriage return is white space that does NOT start a line - neither for the lexer nor for file.Source)
var c13seps = []string{" ", " ", " ", " ", "  ", "\t", "\t ", "\n", "\n  ", " \n\t ", "\n\n", "\r\n", " \t", "\r", " \r ", "\r\r\n"}

// lay the tokens out; returns the text and the rune position (line 1-based, column 0-based) of
// the first rune of every token
func c13layout(rng *rand.Rand, toks []string, multiline bool) (string, []c13pos) {
	var b strings.Builder
	starts := make([]int, len(toks)) // rune offsets
	n := 0
	write := func(s string) {
		b.WriteString(s)
		n += utf8.RuneCountInString(s)
	}
	sep := func() string {
		s := c13seps[rng.Intn(len(c13seps))]
		if !multiline && strings.ContainsAny(s, "\n") {
			return " "
		}
		return s
	}
	if rng.Intn(4) == 0 {
		write(sep())
	}
	for i, t := range toks {
		if i > 0 {
			prev := toks[i-1]
			if (c13gluable(prev) || c13gluable(t)) && prev != "not in" && rng.Intn(2) == 0 {
				// no separator
			} else if prev == "not in" {
				write(" ") // the lexer accepts `not in` only when a blank or EOF follows (known finding C11-notin-spacing)
			} else {
				write(sep())
			}
		}
		starts[i] = n
		write(t)
	}
	if rng.Intn(4) == 0 {
		write(sep())
	}
	src := b.String()
	return src, c13positions(src, starts)
}

func c13positions(src string, starts []int) []c13pos {
	// position of every rune offset
	var at []c13pos
	line, col := 1, 0
	for _, r := range src {
		at = append(at, c13pos{line, col})
		if r == '\n' {
			line++
			col = 0
		} else {
			col++
		}
	}
	at = append(at, c13pos{line, col}) // end of text
	out := make([]c13pos, len(starts))
	for i, s := range starts {
		out[i] = at[s]
	}
	return out
}

func c13posAt(src string, runeOffset int) c13pos {
	return c13positions(src, []int{runeOffset})[0]
}

func c13texts(toks []c13tok) []string {
	out := make([]string, len(toks))
	for i, t := range toks {
		out[i] = t.text
	}
	return out
}

// ---------------------------------------------------------------- the oracle
type c13case struct {
	Stream string `json:"stream"` // unknown-name | type-mismatch | syntax | run
	Fault  string `json:"fault"`  // what was injected
	Src    string `json:"src"`
	Typed  bool   `json:"typed"`
	Opt    bool   `json:"opt"`
	Line   int    `json:"line"` // expected
	Col    int    `json:"col"`
	Hint   string `json:"hint,omitempty"` // conditional | in-range | literal | regexp | expected-name
}

type c13ctx struct {
	rep      *Report
	rng      *rand.Rand
	env      C13Env
	errCases []string // Coq CErr cases
	snipCase []string // Coq CSnip cases
	lexSrcs  []string
	parseSrc []string
	distinct map[string]bool
	seenErr  map[string]bool
}

// a rune list as `(hx "...")`: the hexadecimal digits of the UTF-8 bytes (decoded by Corr/CorrC13.v)
func c13runes(s string) string {
	if !utf8.ValidString(s) {
		panic("c13runes: invalid UTF-8")
	}
	return fmt.Sprintf("(hx \"%x\")", s)
}

func (c *c13ctx) replayArg(k c13case) string {
	b, _ := json.Marshal(k)
	return string(b)
}

func c13lines(src string) []string { return strings.Split(src, "\n") }

// what Error.Bind must render for (line, col) in src; ok=false when the line does not exist
func c13expectSnippet(src string, line, col int) (string, bool) {
	ls := c13lines(src)
	if line < 1 || line > len(ls) || src == "" {
		return "", false
	}
	text := strings.Replace(ls[line-1], "\t", " ", -1)
	rs := []rune(text)
	out := "\n | " + text
	ind := "\n | "
	for i := 0; i < col && i < len(rs); i++ {
		if rs[i] >= 128 {
			return out, true
		}
		ind += "."
	}
	if col >= 0 && col < len(rs) && rs[col] >= 128 {
		return out, true
	}
	return out + ind + "^", true
}

// judge one returned error against the expected position
func (c *c13ctx) judge(k c13case, err error) {
	rep := c.rep
	rep.Evaluations++
	in := k
	fail := func(key, what, want, got string) {
		rep.fail(Failure{Key: key, What: what, Input: in, Want: want, Got: got, Replay: c.replayArg(k)})
	}
	want := fmt.Sprintf("error located at line %d column %d (0-based)", k.Line, k.Col)
	if err == nil {
		fail("C13-no-error", "the injected fault produced no error", want, "no error")
		return
	}
	fe, ok := err.(*file.Error)
	if !ok {
		key := "C13-error-without-position"
		if k.Hint == "expect-kind" {
			key = "C13-expect-kind-hides-position"
		}
		fail(key, "the error is not a *file.Error: it carries no position", want, fmt.Sprintf("%T: %v", err, err))
		return
	}
	rep.hist("errors judged (" + k.Stream + ")")
	// (2) inside the source
	ls := c13lines(k.Src)
	hasLoc := !(fe.Line == 0 && fe.Column == 0)
	if hasLoc {
		if fe.Line < 1 || fe.Line > len(ls) || fe.Column < 0 || fe.Column > utf8.RuneCountInString(ls[fe.Line-1]) {
			fail("C13-outside-source", "reported location lies outside the source", "1 <= line <= number of lines, 0 <= column <= length of the line", fmt.Sprintf("line %d column %d", fe.Line, fe.Column))
		}
	}
	// (1) the position
	if fe.Line != k.Line || fe.Column != k.Col {
		key := "C13-wrong-position"
		switch {
		case !hasLoc && k.Hint == "conditional":
			key = "C13-conditional-no-location"
		case !hasLoc && k.Hint == "in-range":
			key = "C13-in-range-no-location"
		case !hasLoc:
			key = "C13-no-location"
		case k.Hint == "literal" || k.Hint == "expected-name":
			key = "C13-parse-error-at-next-token"
		case k.Hint == "regexp":
			key = "C13-regexp-error-after-pattern"
		case c13NotInSpacing(k.Src) && strings.Contains(fe.Message, `Operator("not")`):
			key = "C13-notin-spacing" // finding C11-notin-spacing seen from C13: the error points at `not`
		}
		fail(key, "reported position is not the position of the injected fault ("+k.Fault+")", want, fmt.Sprintf("line %d column %d: %s", fe.Line, fe.Column, fe.Message))
	} else {
		rep.hist("position exact (" + k.Stream + ")")
	}
	// (3) snippet and indicator for the REPORTED location
	c.judgeRender(k, fe)
}

func (c *c13ctx) judgeRender(k c13case, fe *file.Error) {
	rep := c.rep
	wantSnip, found := "", false
	if !(fe.Line == 0 && fe.Column == 0) || true {
		wantSnip, found = c13expectSnippet(k.Src, fe.Line, fe.Column)
	}
	if !found {
		wantSnip = ""
	}
	if fe.Snippet != wantSnip {
		rep.fail(Failure{Key: "C13-snippet", What: "rendered snippet is not the named source line with the indicator Error.Bind documents", Input: k,
			Want: fmt.Sprintf("%q", wantSnip), Got: fmt.Sprintf("%q", fe.Snippet), Replay: c.replayArg(k)})
	}
	wantText := fe.Message
	if !(fe.Line == 0 && fe.Column == 0) {
		wantText = fmt.Sprintf("%s (%d:%d)%s", fe.Message, fe.Line, fe.Column+1, fe.Snippet)
	}
	if fe.Error() != wantText {
		rep.fail(Failure{Key: "C13-format", What: "Error() is not message (line:column+1) snippet", Input: k, Want: fmt.Sprintf("%q", wantText), Got: fmt.Sprintf("%q", fe.Error()), Replay: c.replayArg(k)})
	}
	// Coq case: the model renders from (source, line, column) alone
	if utf8.ValidString(k.Src) && utf8.ValidString(fe.Error()) && utf8.RuneCountInString(k.Src) <= 120 {
		key := fmt.Sprintf("%s|%d|%d", k.Src, fe.Line, fe.Column)
		if !c.seenErr[key] {
			c.seenErr[key] = true
			position := strings.TrimSuffix(strings.TrimPrefix(fe.Error(), fe.Message), fe.Snippet)
			c.errCases = append(c.errCases, fmt.Sprintf("CErr %s (%d) (%d) %s %s", c13runes(k.Src), fe.Line, fe.Column, c13runes(fe.Snippet), c13runes(position)))
		}
	}
}

func (c *c13ctx) countDistinct(k c13case) {
	ls := c13lines(k.Src)
	nontrivial := len(ls) > 1
	if k.Line >= 1 && k.Line <= len(ls) {
		rs := []rune(ls[k.Line-1])
		for i := 0; i < k.Col && i < len(rs); i++ {
			if rs[i] >= 128 || rs[i] == '\t' {
				nontrivial = true
			}
		}
	}
	if nontrivial {
		c.distinct[fmt.Sprintf("%s|%s|%v|%v", k.Stream, k.Src, k.Typed, k.Opt)] = true
		c.rep.hist("nontrivial layout (multi-line or multi-byte/tab before the fault)")
	} else {
		c.rep.hist("single-line ASCII layout")
	}
}

func (c *c13ctx) compile(src string, typed, opt bool, extra ...expr.Option) (p *vm.Program, err error) {
	defer func() {
		if r := recover(); r != nil {
			err = fmt.Errorf("panic: %v", r)
		}
	}()
	var ops []expr.Option
	if typed {
		ops = append(ops, expr.Env(c.env))
	}
	ops = append(ops, expr.Optimize(opt))
	ops = append(ops, extra...)
	return expr.Compile(src, ops...)
}

// ---------------------------------------------------------------- (i) + (ii): compile-time faults on trees
type c13fault struct {
	name   string
	stream string
	hint   string
	apply  func() *c13n // mutates the (cloned) tree, returns the node whose anchor is the expected position
}

var c13unknownNames = []string{"nope", "Unknown", "ünknown", "名前", "x_1", "Zz"}

func (c *c13ctx) treeFaults(root *c13n) []c13fault {
	var fs []c13fault
	rng := c.rng
	strLeaf := func() *c13n { return c13leaf("ident", "str", []string{"S", "Ñame", `"é"`, `'x'`}[rng.Intn(4)]) }
	intLeaf := func() *c13n { return c13leaf("ident", "int", []string{"I", "Über", "7"}[rng.Intn(3)]) }
	boolLeaf := func() *c13n { return c13leaf("ident", "bool", []string{"B", "true"}[rng.Intn(2)]) }
	replace := func(n *c13n, childNo int, by *c13n) *c13n {
		k := 0
		for i, p := range n.parts {
			if p.child != nil {
				if k == childNo {
					n.parts[i].child = by
					return by
				}
				k++
			}
		}
		panic("c13: no such child")
	}
	root.walk(func(n *c13n, parent *c13n, idx int) {
		ch := n.children()
		switch n.kind {
		case "ident":
			// not in front of `?.` (a nil-safe unknown name is accepted by design)
			if parent != nil && idx+1 < len(parent.parts) && parent.parts[idx+1].tok == "?." {
				return
			}
			fs = append(fs, c13fault{"unknown identifier", "unknown-name", "", func() *c13n {
				n.parts[0].tok = c13unknownNames[rng.Intn(len(c13unknownNames))]
				return n
			}})
		case "func":
			fs = append(fs, c13fault{"unknown function", "unknown-name", "", func() *c13n {
				n.parts[0].tok = c13unknownNames[rng.Intn(len(c13unknownNames))]
				return n
			}})
			for ai := range ch {
				// every argument position, also the later ones of a variadic call (Sum): the error names THAT argument
				if ch[ai].typ == "int" {
					ai := ai
					fs = append(fs, c13fault{fmt.Sprintf("string argument %d for an int parameter", ai+1), "type-mismatch", "", func() *c13n { return replace(n, ai, strLeaf()) }})
				}
			}
		case "prop", "method":
			if ai := n.anchorIdx(); ai > 0 && n.parts[ai-1].tok == "?." {
				return // a nil-safe member that does not exist is accepted by design
			}
			fs = append(fs, c13fault{"unknown " + map[string]string{"prop": "field", "method": "method"}[n.kind], "unknown-name", "", func() *c13n {
				n.parts[n.anchorIdx()].tok = []string{"Nope", "Nøpe", "zz"}[rng.Intn(3)]
				return n
			}})
		case "unary":
			if n.op == "-" || n.op == "+" {
				fs = append(fs, c13fault{"unary " + n.op + " on a string", "type-mismatch", "", func() *c13n { replace(n, 0, strLeaf()); return n }})
			} else {
				fs = append(fs, c13fault{"unary " + n.op + " on an int", "type-mismatch", "", func() *c13n { replace(n, 0, intLeaf()); return n }})
			}
		case "binary", "matches":
			l, r := ch[0], ch[1]
			side := rng.Intn(2)
			switch n.op {
			case "+", "-", "*", "/", "%", "**", "<", ">", "<=", ">=", "..":
				if (l.typ == "int" || l.typ == "float") && (r.typ == "int" || r.typ == "float") {
					fs = append(fs, c13fault{"string operand of " + n.op, "type-mismatch", "", func() *c13n { replace(n, side, strLeaf()); return n }})
				} else if l.typ == "str" && r.typ == "str" {
					fs = append(fs, c13fault{"int operand of string " + n.op, "type-mismatch", "", func() *c13n { replace(n, side, intLeaf()); return n }})
				}
			case "==", "!=":
				if l.typ == "int" && r.typ == "int" {
					fs = append(fs, c13fault{"string operand of " + n.op, "type-mismatch", "", func() *c13n { replace(n, side, strLeaf()); return n }})
				}
			case "and", "or", "&&", "||":
				fs = append(fs, c13fault{"int operand of " + n.op, "type-mismatch", "", func() *c13n { replace(n, side, intLeaf()); return n }})
			case "contains", "startsWith", "endsWith", "matches":
				fs = append(fs, c13fault{"int operand of " + n.op, "type-mismatch", "", func() *c13n { replace(n, 0, intLeaf()); return n }})
			}
		case "builtin":
			if n.op == "len" {
				fs = append(fs, c13fault{"len of an int", "type-mismatch", "", func() *c13n { replace(n, 0, intLeaf()); return n }})
			} else {
				fs = append(fs, c13fault{"builtin over an int", "type-mismatch", "", func() *c13n { return replace(n, 0, intLeaf()) }})
				if n.op != "map" {
					fs = append(fs, c13fault{"closure that does not return bool", "type-mismatch", "", func() *c13n {
						cl := ch[1]
						replace(cl, 0, c13leaf("int", "int", "1"))
						return cl
					}})
				}
			}
		case "index":
			fs = append(fs, c13fault{"bool index", "type-mismatch", "", func() *c13n { replace(n, 1, boolLeaf()); return n }})
		case "slice":
			if len(ch) > 1 {
				fs = append(fs, c13fault{"bool slice bound", "type-mismatch", "", func() *c13n { return replace(n, 1, boolLeaf()) }})
			}
		case "cond":
			fs = append(fs, c13fault{"int used as condition", "type-mismatch", "", func() *c13n { return replace(n, 0, intLeaf()) }})
			fs = append(fs, c13fault{"conditional of ints used as condition", "type-mismatch", "conditional", func() *c13n {
				return replace(n, 0, c13cond(boolLeaf(), c13leaf("int", "int", "1"), c13leaf("int", "int", "2")))
			}})
		}
	})
	return fs
}

// index of a node's anchor token in the flattened token list
func c13anchorOf(toks []c13tok, n *c13n) int {
	for i, t := range toks {
		if t.node == n {
			return i
		}
	}
	return -1
}

func (c *c13ctx) compileFaults(nTrees int) {
	g := &c13gen{rng: c.rng, hist: c.rep.Histogram}
	for t := 0; t < nTrees; t++ {
		root := g.top(2 + c.rng.Intn(3))
		base := c13texts(root.tokens())
		baseSrc, _ := c13layout(c.rng, base, true)
		if _, err := c.compile(baseSrc, true, true); err != nil {
			c.rep.hist("generated tree rejected before fault injection")
			continue
		}
		if len(c.parseSrc) < 120 && t%3 == 0 {
			c.parseSrc = append(c.parseSrc, baseSrc)
		}
		if len(c.lexSrcs) < 150 && t%2 == 0 {
			c.lexSrcs = append(c.lexSrcs, baseSrc)
		}
		// up to three different faults per tree, each on a fresh clone
		probe := root.clone()
		nf := len(c.treeFaults(probe))
		if nf == 0 {
			continue
		}
		perm := c.rng.Perm(nf)
		for j := 0; j < 3 && j < nf; j++ {
			cl := root.clone()
			fs := c.treeFaults(cl)
			f := fs[perm[j]]
			at := f.apply()
			toks := cl.tokens()
			ai := c13anchorOf(toks, at)
			if ai < 0 {
				panic("c13: anchor of the fault not found")
			}
			src, pos := c13layout(c.rng, c13texts(toks), c.rng.Intn(5) > 0)
			opt := c.rng.Intn(2) == 0
			k := c13case{Stream: f.stream, Fault: f.name, Src: src, Typed: true, Opt: opt, Line: pos[ai].line, Col: pos[ai].col, Hint: f.hint}
			_, err := c.compile(src, true, opt)
			c.rep.hist("fault " + f.stream + ": " + f.name)
			c.judge(k, err)
			c.countDistinct(k)
			if len(c.rep.Samples) < 4 && j == 0 && t%97 == 5 {
				c.rep.Samples = append(c.rep.Samples, k)
			}
		}
	}
	// unary `not` in front of a word that merely BEGINS with "in" (the lexer tries the two-word operator `not in` first
	// and has to back out completely): the unknown word, and a later unknown name on the same line, keep their columns
	for _, w := range []string{"inStock", "index", "info", "in_var", "inn", "in9", "inÜ", "int"} {
		for _, tmpl := range []string{"not %s", "not  %s", "B and not %s", "B or\n  not   %s", "not %s.Foo", "not(%s)", "[not %s]", "not B and not    %s",
			"not %s and zzz", "S + \"ü\" == S or not  %s"} {
			src := fmt.Sprintf(tmpl, w)
			idx := strings.Index(src, w)
			p := c13posAt(src, utf8.RuneCountInString(src[:idx]))
			k := c13case{Stream: "unknown-name", Fault: "unknown identifier beginning with `in` after unary not", Src: src, Typed: true, Opt: true, Line: p.line, Col: p.col, Hint: ""}
			_, err := c.compile(src, true, true)
			c.rep.hist("fault unknown-name: word beginning with in after not")
			c.judge(k, err)
			c.countDistinct(k)
		}
		// the word is known to a map environment; the fault is a later unknown name on the same line
		for _, tmpl := range []string{"not %s and zzz", "not   %s or zzz", "true and\n not  %s and (zzz)", "not %s ? zzz : 1"} {
			src := fmt.Sprintf(tmpl, w)
			idx := strings.Index(src, "zzz")
			p := c13posAt(src, utf8.RuneCountInString(src[:idx]))
			k := c13case{Stream: "unknown-name", Fault: "unknown identifier after `not <word beginning with in>`", Src: src, Typed: true, Opt: true, Line: p.line, Col: p.col, Hint: ""}
			var err error
			func() {
				defer func() {
					if r := recover(); r != nil {
						err = fmt.Errorf("panic: %v", r)
					}
				}()
				_, err = expr.Compile(src, expr.Env(map[string]interface{}{w: true}))
			}()
			c.rep.hist("fault unknown-name: after not + word beginning with in")
			c.judge(k, err)
			c.countDistinct(k)
		}
	}
	// a wrongly typed argument at EVERY position of a variadic call: the error is located at that argument
	for _, vc := range []struct{ src, bad string }{
		{"Sum(I, I, S)", "S)"}, {"Sum(I, S, I)", "S,"}, {"Sum(S, I, I)", "S,"}, {"Sum('żółw' == S ? 1 : 2, Über, 2,\n  Ñame, 4) + 1", "Ñame"},
		{"Sum(1, 2, 3, 4, B)", "B)"}, {"1 + Sum(I,\n\tI,\n\tS2,\n\tI)", "S2"}, {"Sum(I, Sum(I, I, S), I)", "S)"}, {"[Sum(I, I), Sum(I, I, I, S)]", "S)"},
	} {
		idx := strings.Index(vc.src, vc.bad)
		p := c13posAt(vc.src, utf8.RuneCountInString(vc.src[:idx]))
		k := c13case{Stream: "type-mismatch", Fault: "wrongly typed variadic argument", Src: vc.src, Typed: true, Opt: true, Line: p.line, Col: p.col, Hint: ""}
		_, err := c.compile(vc.src, true, true)
		c.rep.hist("fault type-mismatch: variadic argument (directed)")
		c.judge(k, err)
		c.countDistinct(k)
	}
	// the result directive must not hide the position of the first error (finding: checker.Check tests `expect` first)
	for _, src := range []string{"unknown + 1", "I +\n  ünknown", "[1, 2][nope]", "not\tnope"} {
		idx := -1
		for _, nm := range []string{"unknown", "ünknown", "nope"} {
			if i := strings.Index(src, nm); i >= 0 && idx < 0 {
				idx = i
			}
		}
		p := c13posAt(src, utf8.RuneCountInString(src[:idx]))
		k := c13case{Stream: "unknown-name", Fault: "unknown identifier under AsBool()", Src: src, Typed: true, Opt: true, Line: p.line, Col: p.col, Hint: "expect-kind"}
		_, err := c.compile(src, true, true, expr.AsBool())
		c.judge(k, err)
	}
}

// ---------------------------------------------------------------- (iii) syntax faults on token lists
var c13binaryOnly = map[string]bool{"*": true, "/": true, "%": true, "**": true, "==": true, "!=": true, "<": true, ">": true, "<=": true, ">=": true,
	"and": true, "or": true, "&&": true, "||": true, "in": true, "not in": true, "contains": true, "startsWith": true, "endsWith": true, "matches": true, "..": true,
	"?": true, ":": true, ",": true, ")": true, "]": true, "}": true}
var c13operandWanted = map[string]bool{"+": true, "-": true, "*": true, "/": true, "%": true, "**": true, "==": true, "!=": true, "<": true, ">": true, "<=": true, ">=": true,
	"and": true, "or": true, "&&": true, "||": true, "in": true, "not in": true, "contains": true, "startsWith": true, "endsWith": true, "matches": true, "..": true, "not": true, "!": true}

func c13isOperandTok(t c13tok) bool {
	if t.node == nil {
		return false
	}
	switch t.node.kind {
	case "ident", "int", "float", "str", "bool", "nil":
		return len(t.node.parts) == 1
	}
	return false
}

func (c *c13ctx) syntaxFaults(nTrees int) {
	g := &c13gen{rng: c.rng, hist: c.rep.Histogram}
	rng := c.rng
	for t := 0; t < nTrees; t++ {
		root := g.top(2 + rng.Intn(3))
		toks := root.tokens()
		texts := c13texts(toks)
		multiline := rng.Intn(5) > 0
		if baseSrc, _ := c13layout(rng, texts, multiline); true {
			if _, err := c.compile(baseSrc, true, true); err != nil {
				c.rep.hist("generated tree rejected before fault injection")
				continue
			}
		}
		type synFault struct {
			name, hint string
			toks       []string
			at         int // index of the token at which the error is expected
			delta      int // columns to add (lexer errors: one past the offending rune)
			special    string
		}
		var fs []synFault
		// stray closer: any closer that does not match the innermost open bracket (any closer at depth 0)
		{
			i := rng.Intn(len(texts) + 1)
			var stack []string
			for _, s := range texts[:i] {
				switch s {
				case "(", "[", "{":
					stack = append(stack, s)
				case ")", "]", "}":
					if len(stack) > 0 {
						stack = stack[:len(stack)-1]
					}
				}
			}
			closers := []string{")", "]", "}"}
			if len(stack) > 0 {
				match := map[string]string{"(": ")", "[": "]", "{": "}"}[stack[len(stack)-1]]
				var cs []string
				for _, x := range closers {
					if x != match {
						cs = append(cs, x)
					}
				}
				closers = cs
			}
			cl := closers[rng.Intn(len(closers))]
			nt := append(append(append([]string{}, texts[:i]...), cl), texts[i:]...)
			hint := ""
			if i > 0 && (texts[i-1] == "." || texts[i-1] == "?.") {
				hint = "expected-name"
			}
			fs = append(fs, synFault{name: "stray " + cl, hint: hint, toks: nt, at: i})
		}
		// missing operand: a leaf operand after an operator is dropped and the next token cannot start an expression
		{
			var cands []int
			for i := 1; i < len(toks); i++ {
				if c13isOperandTok(toks[i]) && c13operandWanted[texts[i-1]] && (i+1 == len(toks) || c13binaryOnly[texts[i+1]]) {
					cands = append(cands, i)
				}
			}
			if len(cands) > 0 {
				i := cands[rng.Intn(len(cands))]
				nt := append(append([]string{}, texts[:i]...), texts[i+1:]...)
				if i == len(texts)-1 {
					fs = append(fs, synFault{name: "missing operand at the end", toks: nt, at: -1, special: "eof"})
				} else {
					fs = append(fs, synFault{name: "missing operand", toks: nt, at: i})
				}
			}
		}
		// invalid literals and lexical faults at an operand
		{
			var cands []int
			for i := range toks {
				if c13isOperandTok(toks[i]) && (toks[i].node.kind == "int" || toks[i].node.kind == "ident" && toks[i].node.typ == "int") {
					if i > 0 && (texts[i-1] == "." || texts[i-1] == "?.") {
						continue
					}
					cands = append(cands, i)
				}
			}
			if len(cands) > 0 {
				i := cands[rng.Intn(len(cands))]
				with := func(s string) []string {
					nt := append([]string{}, texts...)
					nt[i] = s
					return nt
				}
				switch rng.Intn(5) {
				case 0:
					fs = append(fs, synFault{name: "integer literal out of range", hint: "literal", toks: with("99999999999999999999"), at: i})
				case 1:
					fs = append(fs, synFault{name: "float literal out of range", hint: "literal", toks: with("1e999"), at: i})
				case 2:
					fs = append(fs, synFault{name: "hex literal without digits", hint: "literal", toks: with("0x"), at: i})
				case 3:
					bad := []string{"12ab", "7up", "3é", "0b12z"}[rng.Intn(4)]
					// the lexer reports the position after the first rune that cannot continue the number
					off := map[string]int{"12ab": 3, "7up": 2, "3é": 2, "0b12z": 4}[bad]
					fs = append(fs, synFault{name: "malformed number " + bad, toks: with(bad), at: i, delta: off, special: "lex"})
				case 4:
					ch := []string{"@", "♥", "§", "\\"}[rng.Intn(4)]
					fs = append(fs, synFault{name: "unrecognised character " + ch, toks: with(ch), at: i, delta: 1, special: "lex"})
				}
			}
		}
		// bad regular expression
		for i := range toks {
			if toks[i].node != nil && toks[i].node.kind == "matches" && i+1 < len(toks) && toks[i+1].node != nil && toks[i+1].node.kind == "str" {
				nt := append([]string{}, texts...)
				nt[i+1] = []string{`"[a"`, `"a(b"`, `'é**'`}[rng.Intn(3)]
				fs = append(fs, synFault{name: "bad regular expression", hint: "regexp", toks: nt, at: i + 1})
				break
			}
		}
		// unterminated string
		for i := range toks {
			if toks[i].node != nil && toks[i].node.kind == "str" && strings.HasPrefix(texts[i], `"`) && len(texts[i]) > 2 && rng.Intn(3) == 0 {
				nt := append([]string{}, texts...)
				nt[i] = strings.TrimSuffix(texts[i], `"`)
				fs = append(fs, synFault{name: "unterminated string", toks: nt, at: i, special: "unterminated"})
				break
			}
		}
		for _, f := range fs {
			src, pos := c13layout(rng, f.toks, multiline)
			var p c13pos
			switch f.special {
			case "eof":
				// the EOF token is located at the last rune of the text (lexer.go emitEOF, C12)
				n := utf8.RuneCountInString(src)
				if n == 0 {
					p = c13pos{1, 0}
				} else {
					p = c13posAt(src, n-1)
				}
			case "lex":
				p = c13pos{pos[f.at].line, pos[f.at].col + f.delta}
			case "unterminated":
				// the lexer reports where the literal breaks off: after the line feed that ends it, or at the end of the text
				start := 0
				{
					// rune offset of the token
					line, col := 1, 0
					for off, r := range []rune(src) {
						if line == pos[f.at].line && col == pos[f.at].col {
							start = off
							break
						}
						if r == '\n' {
							line++
							col = 0
						} else {
							col++
						}
					}
				}
				rs := []rune(src)
				end := len(rs)
				// skip escaped characters exactly as scanString does
				for j := start + 1; j < len(rs); j++ {
					if rs[j] == '\\' {
						j++
						continue
					}
					if rs[j] == '\n' {
						end = j + 1
						break
					}
					if rs[j] == '"' {
						end = -1 // the quote of a later literal closes it: not a clean single fault
						break
					}
				}
				if end < 0 {
					continue
				}
				p = c13posAt(src, end)
			default:
				p = pos[f.at]
			}
			k := c13case{Stream: "syntax", Fault: f.name, Src: src, Typed: true, Opt: true, Line: p.line, Col: p.col, Hint: f.hint}
			_, err := c.compile(src, true, true)
			c.rep.hist("fault syntax: " + strings.SplitN(f.name, " ", 3)[0] + " " + strings.SplitN(f.name+" ", " ", 3)[1])
			c.judge(k, err)
			c.countDistinct(k)
			if len(c.parseSrc) < 260 && f.special == "" {
				c.parseSrc = append(c.parseSrc, src)
			}
			if len(c.lexSrcs) < 300 {
				c.lexSrcs = append(c.lexSrcs, src)
			}
			if len(c.rep.Samples) < 6 && t%89 == 3 {
				c.rep.Samples = append(c.rep.Samples, k)
			}
		}
	}
}

// ---------------------------------------------------------------- (iv) run-time failures
type c13rt struct {
	n    *c13n  // the failing expression
	at   *c13n  // the node whose operation fails
	hint string // conditional | in-range
	mode string // "" any, "untyped" only without Env, "opt-untyped": fails only optimized + untyped
}

func ident(name, typ string) *c13n { return c13leaf("ident", typ, name) }
func lit(kind, typ, text string) *c13n {
	return c13leaf(kind, typ, text)
}

func (c *c13ctx) okInt() *c13n {
	rng := c.rng
	switch rng.Intn(8) {
	case 0:
		return lit("int", "int", "1")
	case 1:
		return c13bin("+", ident("I", "int"), lit("int", "int", "1"), "int")
	case 2:
		return c13call("builtin", "len", "int", ident("AI", "arrint"))
	case 3:
		return c13index(ident("AI", "arrint"), lit("int", "int", "0"), "int")
	case 4:
		return c13prop(ident("St", "inner"), "X", false, "int")
	case 5:
		return c13call("func", "Inc", "int", lit("int", "int", "2"))
	case 6:
		return c13bin("*", ident("Über", "int"), lit("int", "int", "2"), "int")
	}
	return c13index(ident("Größen", "arrint"), lit("int", "int", "1"), "int")
}

func (c *c13ctx) okTrue() *c13n {
	switch c.rng.Intn(5) {
	case 0:
		return lit("bool", "bool", "true")
	case 1:
		return ident("B", "bool")
	case 2:
		return c13bin("<", lit("int", "int", "1"), lit("int", "int", "2"), "bool")
	case 3:
		return c13un("not", lit("bool", "bool", "false"), "bool")
	}
	return c13bin("==", ident("S", "str"), lit("str", "str", `"abc"`), "bool")
}

func (c *c13ctx) okFalse() *c13n {
	switch c.rng.Intn(4) {
	case 0:
		return lit("bool", "bool", "false")
	case 1:
		return ident("B2", "bool")
	case 2:
		return c13bin(">", lit("int", "int", "1"), lit("int", "int", "2"), "bool")
	}
	return c13bin("contains", lit("str", "str", `"héllo"`), lit("str", "str", `'日'`), "bool")
}

// one failing operation; typ is the static type in strict mode
func (c *c13ctx) failing() c13rt {
	rng := c.rng
	mk := func(n, at *c13n) c13rt { return c13rt{n: n, at: at} }
	switch rng.Intn(25) {
	case 22:
		// a connective whose LEFT operand is dynamically not a bool: the conditional jump itself fails
		n := c13bin([]string{"and", "&&", "or", "||"}[rng.Intn(4)], ident([]string{"AnyI", "AnyS"}[rng.Intn(2)], "any"), c.okTrue(), "bool")
		return mk(n, n)
	case 23:
		// a predicate that is dynamically not a bool: the loop's conditional jump / negation fails (at the builtin)
		cl := c13closure(lit("pointer", "any", "#"))
		n := c13call("builtin", []string{"all", "any", "none", "one", "filter", "count"}[rng.Intn(6)], "any", c13array("arrany", c.okInt(), c.okInt()), cl)
		return mk(n, n)
	case 24:
		// right operand of a connective evaluated and not a bool is returned as is; the enclosing `not` fails
		n := c13un("not", c13bin("and", c.okTrue(), ident("AnyI", "any"), "any"), "bool")
		return mk(n, n)
	case 0:
		n := c13index(ident("AI", "arrint"), lit("int", "int", "99"), "int")
		return mk(n, n)
	case 1:
		n := c13index(ident("Größen", "arrint"), c13call("builtin", "len", "int", ident("Größen", "arrint")), "int")
		return mk(n, n)
	case 2:
		n := c13bin("/", lit("int", "int", "7"), ident("Zero", "int"), "int")
		return mk(n, n)
	case 3:
		n := c13bin("%", c.okInt(), c13bin("-", ident("I", "int"), ident("I", "int"), "int"), "int")
		return mk(n, n)
	case 4:
		n := c13prop(ident("NilP", "inner"), "X", false, "int")
		return mk(n, n)
	case 5:
		n := c13prop(ident("AnyN", "any"), "Foo", false, "any")
		return mk(n, n)
	case 6:
		n := c13prop(c13prop(ident("St", "inner"), "Next", false, "inner"), "Y", false, "str")
		return mk(n, n)
	case 7:
		n := c13call("func", "Boom", "int", lit("int", "int", "1"))
		return mk(n, n)
	case 8:
		n := c13un("not", ident("AnyI", "any"), "bool")
		return mk(n, n)
	case 9:
		n := c13un("-", ident("AnyS", "any"), "any")
		return mk(n, n)
	case 10, 11:
		n := c13bin([]string{"+", "-", "*", "<", ">="}[rng.Intn(5)], ident("AnyS", "any"), lit("int", "int", "1"), "any")
		return mk(n, n)
	case 12:
		n := c13cond(ident("AnyI", "any"), lit("int", "int", "1"), lit("int", "int", "2"))
		r := mk(n, n)
		r.hint = "conditional"
		return r
	case 13:
		// without Env() the checker does not visit the arguments of a function it does not know: the
		// operand has no type, and the optimizer rewrites `x in a..b` into `x >= a and x <= b`
		in := c13bin([]string{"in", "not in"}[rng.Intn(2)], ident("AnyS", "any"), c13bin("..", lit("int", "int", "1"), lit("int", "int", "3"), "arrint"), "bool")
		n := c13call("func", "Id", "any", in)
		r := mk(n, in)
		r.hint = "in-range"
		r.mode = "opt-untyped"
		return r
	case 14:
		n := c13call("builtin", "len", "int", ident("AnyI", "any"))
		return mk(n, n)
	case 15:
		n := c13bin("matches", ident("AnyI", "any"), lit("str", "str", `"^a"`), "bool")
		return mk(n, n)
	case 16:
		n := c13slice(ident("AnyI", "any"), lit("int", "int", "1"), lit("int", "int", "2"), "any")
		return mk(n, n)
	case 17:
		n := c13bin("..", lit("int", "int", "1"), ident("AnyS", "any"), "arrint")
		return mk(n, n)
	case 18:
		n := c13method(ident("NilP", "inner"), "Get", "int")
		return mk(n, n)
	case 19:
		cl := c13closure(c13bin(">", lit("pointer", "int", "#"), lit("int", "int", "0"), "bool"))
		n := c13call("builtin", []string{"all", "any", "none", "one", "filter", "map", "count"}[rng.Intn(7)], "any", ident("AnyI", "any"), cl)
		return mk(n, n)
	case 20:
		div := c13bin("/", lit("pointer", "int", "#"), ident("Zero", "int"), "int")
		cl := c13closure(c13bin(">", div, lit("int", "int", "0"), "bool"))
		n := c13call("builtin", []string{"all", "any", "none", "one", "filter", "count"}[rng.Intn(6)], "any", ident("AI", "arrint"), cl)
		return mk(n, div)
	}
	n := c13index(ident("AI", "arrint"), lit("str", "str", `"é"`), "int")
	return mk(n, n)
}

func asBool(n *c13n) *c13n {
	if n.typ == "bool" {
		return n
	}
	return c13bin("!=", n, lit("nil", "any", "nil"), "bool")
}

// wrap: the failing expression stays the first failing operation that is evaluated; decoys are
// other failing operations placed where they are never evaluated
func (c *c13ctx) guard(f *c13n, depth int) *c13n {
	rng := c.rng
	cur := f
	for i := 0; i < depth; i++ {
		decoy := c.failing().n
		switch rng.Intn(12) {
		case 0:
			cur = c13cond(c.okTrue(), cur, decoy)
		case 1:
			cur = c13cond(c.okFalse(), decoy, cur)
		case 2:
			cur = c13bin([]string{"or", "||"}[rng.Intn(2)], c.okFalse(), asBool(cur), "bool")
		case 3:
			cur = c13bin([]string{"and", "&&"}[rng.Intn(2)], c.okTrue(), asBool(cur), "bool")
		case 4:
			cur = c13bin("and", c13bin("or", c.okTrue(), asBool(decoy), "bool"), asBool(cur), "bool")
		case 5:
			cur = c13bin("or", c13bin("and", c.okFalse(), asBool(decoy), "bool"), asBool(cur), "bool")
		case 6:
			cur = c13array("arrany", c.okInt(), cur, lit("str", "str", c13strLits[rng.Intn(len(c13strLits))]))
		case 7:
			cur = c13call("func", "Id", "any", cur)
		case 8:
			cl := c13closure(asBool(cur))
			cur = c13call("builtin", []string{"all", "any", "none", "one", "filter", "count"}[rng.Intn(6)], "any", ident("AI", "arrint"), cl)
		case 9:
			cur = c13call("builtin", "map", "arrany", ident("Größen", "arrint"), c13closure(cur))
		case 10:
			cur = c13map([]string{"a", `"é"`}, []*c13n{c.okInt(), cur})
		case 11:
			cur = c13bin("==", c13array("arrany", c.okInt(), lit("str", "str", `'日本'`)), c13array("arrany", cur), "bool")
		}
	}
	return cur
}

// numeric failing operations directly below a unary plus / minus (the optimizer touches unary nodes: the location
// of the operand must stay its own) - the failing node is still the operand's
func (c *c13ctx) underUnary(f c13rt) c13rt {
	if f.n != f.at || (f.n.typ != "int" && f.n.typ != "any") || f.hint != "" || f.mode != "" {
		return f
	}
	switch f.n.kind {
	case "binary", "index", "func":
	default:
		return f
	}
	op := []string{"+", "-", "+"}[c.rng.Intn(3)]
	return c13rt{n: c13un(op, f.n, f.n.typ), at: f.at}
}

// a function of the environment that fails with the error VALUE of a nested evaluation of another source: the outer
// error is located at the call in the OUTER source (and inside it), not where the inner source failed
func (c *c13ctx) nestedEvalFaults() {
	inner := []string{"1 +\n\n          nope()", "[1, 2][7]", "\n\n\n      1 / zero", "1 % 0"}
	outer := []string{"Rethrow(%s)", "I > 100 ? 0 :\n  (B ? Rethrow(%s) : I / 0)", "\"ñ\" + S == S or Rethrow(%s) > 0", "[1, Rethrow(%s)][1]", "map(1..2, {Rethrow(%s)})"}
	for _, in := range inner {
		for _, o := range outer {
			src := fmt.Sprintf(o, strconv.Quote(in))
			idx := strings.Index(src, "Rethrow")
			p := c13posAt(src, utf8.RuneCountInString(src[:idx]))
			for _, m := range []struct{ typed, opt bool }{{true, true}, {false, false}} {
				prog, err := c.compile(src, m.typed, m.opt)
				if err != nil {
					c.rep.hist("nested-evaluation program rejected at compile time")
					continue
				}
				r, pan := c13safeRun(prog, c.env)
				if pan != nil {
					r.err = fmt.Errorf("vm.Run panicked: %v", pan)
				}
				if r.err == nil {
					c.rep.hist("run-time program did not fail")
					continue
				}
				k := c13case{Stream: "run", Fault: "function re-panicking with the error of a nested evaluation", Src: src, Typed: m.typed, Opt: m.opt, Line: p.line, Col: p.col, Hint: ""}
				c.rep.hist("fault run: nested evaluation")
				c.judge(k, r.err)
				c.countDistinct(k)
			}
		}
	}
}

// a failing membership test under a PREFIX negation (`not (x in y)`, `!(x in y)`): the error is located at the `in`, the
// operation that fails, not at the negation - with the optimizer on and off
func (c *c13ctx) negatedInFaults() {
	for _, src := range []string{"not (I in AnyI)", "!(I in AnyI)", "B or\n  not (\n    I in AnyI)", "not (S in AnyI) and B", "\"ñ\" == S or !(Über in AnyI)", "not (I not in AnyI)",
		"[1, not (I in AnyI)][1]", "not (I in AnyI) ? 1 : 2", "map(1..2, {not (# in AnyI)})"} {
		idx := strings.Index(src, " in AnyI")
		p := c13posAt(src, utf8.RuneCountInString(src[:idx+1]))
		if j := strings.Index(src, "not in AnyI"); j >= 0 {
			p = c13posAt(src, utf8.RuneCountInString(src[:j]))
		}
		for _, m := range []struct{ typed, opt bool }{{true, true}, {true, false}, {false, true}, {false, false}} {
			prog, err := c.compile(src, m.typed, m.opt)
			if err != nil {
				c.rep.hist("negated-membership program rejected at compile time")
				continue
			}
			r, pan := c13safeRun(prog, c.env)
			if pan != nil {
				r.err = fmt.Errorf("vm.Run panicked: %v", pan)
			}
			if r.err == nil {
				c.rep.hist("run-time program did not fail")
				continue
			}
			k := c13case{Stream: "run", Fault: "failing membership test under a prefix negation", Src: src, Typed: m.typed, Opt: m.opt, Line: p.line, Col: p.col, Hint: ""}
			c.rep.hist("fault run: negated membership")
			c.judge(k, r.err)
			c.countDistinct(k)
		}
	}
}

// longLineFaults: the fault stands FAR to the right on its line (machine-generated one-line rules: columns beyond 2^12 and 2^16) or
// far down (lines beyond 2^8), in every stream: a position is a pair of integers, whatever its size.
func (c *c13ctx) longLineFaults() {
	pad := func(n int) string { return "(I in [" + strings.Repeat("1, ", n) + "1]) or " }
	for _, pre := range []string{pad(1400), pad(23000), "B or\n" + pad(1500), strings.Repeat("\n", 300) + "B or " + pad(100), "\"ñ\" == S or " + pad(1366)} {
		for _, f := range []struct{ stream, fault, text, at string }{
			{"unknown-name", "unknown name far to the right", "Zzz > 1", "Zzz"},
			{"type-mismatch", "mismatched operands far to the right", "(I + \"a\") == 1", "+"},
			{"syntax", "unexpected token far to the right", "I + * 2", "*"},
			{"run", "failing membership test far to the right", "(I in AnyI)", "in"},
			{"run", "failing index far to the right", "AI[I + 100] > 0", "["},
		} {
			src := pre + f.text
			off := len(pre) + strings.Index(f.text, f.at)
			p := c13posAt(src, utf8.RuneCountInString(src[:off]))
			for _, m := range []struct{ typed, opt bool }{{true, true}, {true, false}} {
				k := c13case{Stream: f.stream, Fault: f.fault, Src: src, Typed: m.typed, Opt: m.opt, Line: p.line, Col: p.col}
				prog, err := c.compile(src, m.typed, m.opt)
				c.rep.hist("fault far to the right / far down (" + f.stream + ")")
				if f.stream != "run" {
					if err == nil {
						c.rep.hist("far fault: not rejected")
						continue
					}
					k.Src = clip(src) // the failure record keeps the head of the source; the judgement below uses the whole text
					kk := k
					kk.Src = src
					c.judgeQuiet(kk, k, err)
					continue
				}
				if err != nil {
					c.rep.hist("far run-time fault rejected at compile time")
					continue
				}
				r, pan := c13safeRun(prog, c.env)
				if pan != nil {
					r.err = fmt.Errorf("vm.Run panicked: %v", pan)
				}
				if r.err == nil {
					c.rep.hist("run-time program did not fail")
					continue
				}
				kk := k
				k.Src = clip(src)
				c.judgeQuiet(kk, k, r.err)
			}
		}
	}
}

// judgeQuiet judges with the full case and reports with the clipped one (sources of tens of kilobytes stay out of the report).
func (c *c13ctx) judgeQuiet(full, shown c13case, err error) {
	before := len(c.rep.Failures)
	c.judge(full, err)
	for i := before; i < len(c.rep.Failures); i++ {
		c.rep.Failures[i].Input = shown
		c.rep.Failures[i].Replay = ""
	}
}

func (c *c13ctx) runFaults(n int) {
	// programs kept to be run AGAIN after all the later compilations (an application compiles its rule set first and
	// evaluates later): the position a program reports does not depend on what was compiled after it
	type kept struct {
		k    c13case
		prog *vm.Program
		text string
	}
	var later []kept
	defer func() {
		for _, kp := range later {
			r, pan := c13safeRun(kp.prog, c.env)
			if pan != nil {
				r.err = fmt.Errorf("vm.Run panicked: %v", pan)
			}
			c.rep.hist("fault run repeated after later compilations")
			k := kp.k
			k.Fault += " (run again after later compilations)"
			if r.err == nil || r.err.Error() != kp.text {
				got := "no error"
				if r.err != nil {
					got = r.err.Error()
				}
				c.rep.Evaluations++
				c.rep.fail(Failure{Key: "C13-wrong-position", What: "a program reports another error when it is run again after other expressions were compiled", Input: k,
					Want: kp.text, Got: got, Replay: c.replayArg(k)})
				continue
			}
			c.judge(k, r.err)
		}
	}()
	for t := 0; t < n; t++ {
		f := c.failing()
		if c.rng.Intn(4) == 0 {
			f = c.underUnary(f)
		}
		root := c.guard(f.n, c.rng.Intn(4))
		toks := root.tokens()
		ai := c13anchorOf(toks, f.at)
		src, pos := c13layout(c.rng, c13texts(toks), c.rng.Intn(5) > 0)
		for _, m := range []struct{ typed, opt bool }{{true, true}, {true, false}, {false, true}, {false, false}} {
			if f.mode == "opt-untyped" && !(m.opt && !m.typed) {
				continue
			}
			prog, err := c.compile(src, m.typed, m.opt)
			if err != nil {
				c.rep.hist("run-time program rejected at compile time")
				continue
			}
			r, pan := c13safeRun(prog, c.env)
			if pan != nil {
				r.err = fmt.Errorf("vm.Run panicked: %v", pan)
			}
			if r.err == nil {
				c.rep.hist("run-time program did not fail")
				if os.Getenv("C13_DEBUG") != "" {
					fmt.Fprintf(os.Stderr, "did not fail (typed=%v opt=%v): %q\n", m.typed, m.opt, src)
				}
				continue
			}
			k := c13case{Stream: "run", Fault: "failing " + f.at.kind + " " + f.at.op, Src: src, Typed: m.typed, Opt: m.opt, Line: pos[ai].line, Col: pos[ai].col, Hint: f.hint}
			c.rep.hist("fault run: " + f.at.kind)
			c.judge(k, r.err)
			c.countDistinct(k)
			if len(later) < 200 && t%3 == 0 {
				later = append(later, kept{k, prog, r.err.Error()})
			}
			if len(c.rep.Samples) < 8 && t%131 == 7 && m.typed && m.opt {
				c.rep.Samples = append(c.rep.Samples, k)
			}
		}
	}
}

// ---------------------------------------------------------------- panics are failures with an input, never a crash of the harness
func c13safeSnippet(s *file.Source, line int) (text string, found bool, panicked interface{}) {
	defer func() {
		if r := recover(); r != nil {
			panicked = r
		}
	}()
	text, found = s.Snippet(line)
	return
}

func c13safeBind(s *file.Source, line, col int) (e *file.Error, panicked interface{}) {
	defer func() {
		if r := recover(); r != nil {
			panicked = r
		}
	}()
	e = (&file.Error{Location: file.Location{Line: line, Column: col}, Message: "m"}).Bind(s)
	return
}

func c13safeRun(p *vm.Program, env interface{}) (r coreRun, panicked interface{}) {
	defer func() {
		if x := recover(); x != nil {
			panicked = x
		}
	}()
	r = runProgram(p, env)
	return
}

func c13safeParseCase(src string) (line string, ok bool, panicked interface{}) {
	defer func() {
		if x := recover(); x != nil {
			panicked = x
		}
	}()
	line, ok = c11CoqCase(src)
	return
}

// ---------------------------------------------------------------- Source.Snippet directly
var c13snipFixed = []string{"", "\n", "a", "a\n", "\na", "a\nb", "a\n\nb\n", "é\n日本\n\t😀", "\n\n\n", "x\r\ny", "line one\nline two\nline three", "tab\there\n\tindented", "😀"}

func (c *c13ctx) snippets(n int) {
	pieces := []string{"a", "bc", " ", "\t", "é", "日本", "😀", "x + y", "\"s\"", "", "(", "\r"}
	var srcs []string
	srcs = append(srcs, c13snipFixed...)
	for i := 0; i < n; i++ {
		var b strings.Builder
		for j := c.rng.Intn(7); j > 0; j-- {
			for k := c.rng.Intn(4); k > 0; k-- {
				b.WriteString(pieces[c.rng.Intn(len(pieces))])
			}
			if c.rng.Intn(3) > 0 {
				b.WriteString("\n")
			}
		}
		srcs = append(srcs, b.String())
	}
	for _, src := range srcs {
		s := file.NewSource(src)
		ls := c13lines(src)
		for line := -1; line <= len(ls)+2; line++ {
			got, found, pan := c13safeSnippet(s, line)
			c.rep.Evaluations++
			if pan != nil {
				c.rep.fail(Failure{Key: "C13-snippet-panic", What: "Source.Snippet panics", Input: map[string]interface{}{"src": src, "line": line},
					Want: "the line or not found", Got: fmt.Sprint(pan), Replay: c.replayArg(c13case{Stream: "snippet", Src: src, Line: line})})
				continue
			}
			wantFound := line >= 1 && line <= len(ls) && src != ""
			want := ""
			if wantFound {
				want = ls[line-1]
			}
			if found != wantFound || got != want {
				c.rep.fail(Failure{Key: "C13-snippet", What: "Source.Snippet(line) is not the line-th line of the source", Input: map[string]interface{}{"src": src, "line": line},
					Want: fmt.Sprintf("%q found=%v", want, wantFound), Got: fmt.Sprintf("%q found=%v", got, found),
					Replay: c.replayArg(c13case{Stream: "snippet", Src: src, Line: line})})
			}
			c.rep.hist("Source.Snippet calls")
			c.snipCase = append(c.snipCase, fmt.Sprintf("CSnip %s (%d) %s %s", c13runes(src), line, c12Bool(found), c13runes(got)))
		}
		// Bind at every column of every line, beyond the end as well: the indicator line
		for line := 1; line <= len(ls); line++ {
			n := utf8.RuneCountInString(ls[line-1])
			for _, col := range []int{0, 1, n / 2, n, n + 1} {
				e, pan := c13safeBind(s, line, col)
				if pan != nil {
					c.rep.fail(Failure{Key: "C13-snippet-panic", What: "Error.Bind panics", Input: map[string]interface{}{"src": src, "line": line, "col": col},
						Want: "the rendered line", Got: fmt.Sprint(pan), Replay: c.replayArg(c13case{Stream: "snippet", Src: src, Line: line, Col: col})})
					continue
				}
				want, found := c13expectSnippet(src, line, col)
				if !found {
					want = ""
				}
				c.rep.Evaluations++
				if e.Snippet != want {
					c.rep.fail(Failure{Key: "C13-snippet", What: "Error.Bind does not render the named line and its indicator", Input: map[string]interface{}{"src": src, "line": line, "col": col},
						Want: fmt.Sprintf("%q", want), Got: fmt.Sprintf("%q", e.Snippet), Replay: c.replayArg(c13case{Stream: "snippet", Src: src, Line: line, Col: col})})
				}
				key := fmt.Sprintf("%s|%d|%d", src, line, col)
				if !c.seenErr[key] && len(src) < 80 {
					c.seenErr[key] = true
					c.errCases = append(c.errCases, fmt.Sprintf("CErr %s (%d) (%d) %s %s", c13runes(src), line, col, c13runes(e.Snippet), c13runes(strings.TrimSuffix(strings.TrimPrefix(e.Error(), "m"), e.Snippet))))
				}
			}
		}
	}
}

// ---------------------------------------------------------------- replay
func c13Replay(arg string) {
	var k c13case
	if err := json.Unmarshal([]byte(arg), &k); err != nil {
		fmt.Println("bad replay argument:", err)
		os.Exit(2)
	}
	c := &c13ctx{rep: newReport("C13"), rng: rand.New(rand.NewSource(1)), env: c13Env(), distinct: map[string]bool{}, seenErr: map[string]bool{}}
	fmt.Printf("source:\n%s\n", k.Src)
	switch k.Stream {
	case "snippet":
		got, found, pan := c13safeSnippet(file.NewSource(k.Src), k.Line)
		fmt.Printf("Snippet(%d) = %q, %v (panic: %v)\n", k.Line, got, found, pan)
		if pan != nil {
			os.Exit(1)
		}
		return
	case "run":
		prog, err := c.compile(k.Src, k.Typed, k.Opt)
		if err != nil {
			fmt.Println("compile error:", err)
			return
		}
		r := runProgram(prog, c.env)
		fmt.Printf("expected position: line %d column %d\nrun error: %v\n", k.Line, k.Col, r.err)
		c.judge(k, r.err)
	default:
		var extra []expr.Option
		if k.Hint == "expect-kind" {
			extra = append(extra, expr.AsBool())
		}
		_, err := c.compile(k.Src, k.Typed, k.Opt, extra...)
		fmt.Printf("expected position: line %d column %d\ncompile error: %v\n", k.Line, k.Col, err)
		c.judge(k, err)
	}
	for _, f := range c.rep.Failures {
		fmt.Printf("FAIL %s: %s\n  want %s\n  got  %s\n", f.Key, f.What, f.Want, f.Got)
	}
	if len(c.rep.Failures) > 0 {
		os.Exit(1)
	}
	fmt.Println("ok")
}

// ---------------------------------------------------------------- main
func runC13() {
	if *replay != "" {
		c13Replay(*replay)
		return
	}
	rep := newReport("C13")
	rng := rand.New(rand.NewSource(*seed))
	c := &c13ctx{rep: rep, rng: rng, env: c13Env(), distinct: map[string]bool{}, seenErr: map[string]bool{}}
	nTrees, nSyn, nRun, nSnip := 700, 600, 500, 60
	if *tier == "thorough" {
		nTrees, nSyn, nRun, nSnip = 12000, 10000, 8000, 600
	}
	c.compileFaults(nTrees)
	c.syntaxFaults(nSyn)
	c.runFaults(nRun)
	c.nestedEvalFaults()
	c.negatedInFaults()
	c.longLineFaults()
	c.snippets(nSnip)

	rep.Distinct = len(c.distinct)
	rep.Rule = "type-directed expression trees (depth 2-4) over the environment universe plus non-ASCII field names, every node kind, printed with known anchor tokens and laid out with random blanks, tabs, CR LF and line feeds, multi-byte runes in string literals and identifiers; exactly one fault injected per case: unknown identifier/function/field/method; type mismatch at one operator/builtin/index/argument/condition/closure; syntax fault at one token (stray closer, missing operand, invalid or malformed number, bad regexp, unrecognised character, unterminated string); run time: one failing operation (index, division, nil member, panicking function, dynamic type errors, closures) wrapped in up to three guards with never-evaluated failing decoys, compiled typed/untyped x optimized/unoptimized and run; plus Source.Snippet / Error.Bind on generated multi-line texts at every line and at columns 0, 1, middle, end, beyond. distinct_nontrivial counts distinct (stream, source, mode) whose source has several lines or a multi-byte rune or tab before the fault on its line"
	max := 700
	if *tier == "thorough" {
		max = 8000
	}
	sample := func(xs []string, n int) []string {
		if len(xs) <= n {
			return xs
		}
		rng.Shuffle(len(xs), func(i, j int) { xs[i], xs[j] = xs[j], xs[i] })
		ys := xs[:n]
		sort.Strings(ys)
		return ys
	}
	srcCases := append(sample(c.errCases, max), sample(c.snipCase, max/2)...)
	saved := *shards
	if *tier != "thorough" {
		*shards = 4
	}
	rep.writeShards("cases_c13", "From Coq Require Import ZArith List String.\nRequire Import X.Base.Value X.File.Source X.Corr.CorrC13.\nImport ListNotations.\nOpen Scope Z_scope.\nOpen Scope string_scope.\n", "c13case", "c13_mismatches", srcCases)
	// lexer model on the same sources: token kinds, values, locations, lexer-error locations
	var lexCases []string
	for _, src := range sample(c.lexSrcs, 140) {
		toks, err, p := c12SafeLex(src)
		if p != nil {
			continue
		}
		if obs, ok := coqLexObs(toks, err); ok {
			lexCases = append(lexCases, fmt.Sprintf("CLex %s %s %s", c12Runes(src), coqClasses(src), obs))
		}
	}
	if *tier != "thorough" {
		*shards = 3
	}
	rep.writeShards("cases_c13_lex", "From Coq Require Import ZArith List String Floats.\nRequire Import X.Base.Value X.Syn.Tok X.Lex.Lexer X.Corr.CorrC12.\nImport ListNotations.\nOpen Scope Z_scope.\n", "c12case", "c12_mismatches", lexCases)
	// parser model: trees with every node location, parser-error locations
	var parseCases []string
	for _, src := range sample(c.parseSrc, 110) {
		line, ok, pan := c13safeParseCase(src)
		if pan != nil {
			rep.fail(Failure{Key: "C13-parser-panic", What: "parser.Parse panics", Input: map[string]string{"src": src}, Want: "a tree or a located error", Got: fmt.Sprint(pan),
				Replay: c.replayArg(c13case{Stream: "syntax", Src: src, Typed: true, Opt: true})})
			continue
		}
		if ok {
			parseCases = append(parseCases, line)
		}
	}
	rep.writeShards("cases_c13_parse", "From Coq Require Import ZArith List String Ascii Floats.\nRequire Import X.Base.Num X.Base.Value X.Syn.Ast X.Syn.Tok X.Parse.Parser X.Corr.CorrC11.\nImport ListNotations.\nOpen Scope Z_scope.\nOpen Scope string_scope.\n",
		"c11case", "c11_mismatches", parseCases)
	*shards = saved
	rep.Extra["coq_cases_render"] = len(srcCases)
	rep.Extra["coq_cases_lexer"] = len(lexCases)
	rep.Extra["coq_cases_parser"] = len(parseCases)
	rep.write()
}

// c13NotInSpacing: the source holds `not in` laid out in a way the lexer does not recognise as ONE operator (finding
// C11-notin-spacing): the words separated by anything but U+0020 spaces, or `in` followed by something other than a
// space or the end of the input.  The parser then reports "unexpected token Operator("not")" at `not`.
var c13NotInRe = regexp.MustCompile(`(^|[^A-Za-z0-9_])not([ \t\r\n]+)in($|[^A-Za-z0-9_])`)

func c13NotInSpacing(src string) bool {
	for _, m := range c13NotInRe.FindAllStringSubmatchIndex(src, -1) {
		sep := src[m[4]:m[5]]
		after := ""
		if m[6] < m[7] {
			after = src[m[6]:m[7]]
		}
		if strings.Trim(sep, " ") != "" || (after != "" && after != " ") {
			return true
		}
	}
	return false
}

package main

// C11 — "Parsing follows the documented precedence and associativity".
//
// Oracle (a): trees are built in Go, printed with a printer that implements the reference
// parenthesisation rules (written from the property, not from the parser's tables), parsed with the
// REAL parser.Parse and compared with the tree that was built; all token sequences up to a length
// over a 20-symbol alphabet are parsed with the real parser and with a reference parser.
// Oracle (b): tokens + observed tree / error location are written as Coq cases for Corr/CorrC11.v.

import (
	"encoding/json"
	"fmt"
	"math"
	"math/rand"
	"os"
	"reflect"
	"regexp"
	"runtime"
	"sort"
	"strconv"
	"strings"
	"sync"
	"sync/atomic"
	"unicode/utf8"

	"github.com/antonmedv/expr/ast"
	"github.com/antonmedv/expr/file"
	"github.com/antonmedv/expr/parser"
	"github.com/antonmedv/expr/parser/lexer"
)

func init() { commands["c11"] = runC11 }

// ---------------------------------------------------------------- tuning constants
const (
	c11Depth3SampleQuick = 20000 // trees of the depth<=3 enumeration that are run in tier quick
	c11RandomQuick       = 3000  // random deeper trees
	c11RandomThorough    = 50000
	c11CoqPairsQuick     = 3000 // texts of the PAIRS family that become Coq cases in tier quick (thorough: all)
	c11CoqSeq3RejQuick   = 1500 // rejected length-3 sequences -> Coq in tier quick (thorough: all)
	c11CoqTreeTextsQuick = 2000 // texts of depth<=3 / random trees that become Coq cases
	c11CoqTreeTextsThor  = 12000
	c11CoqSeqAccQuick    = 2000  // accepted length-5 sequences -> Coq
	c11CoqSeqRejQuick    = 1000  // rejected sequences per length (4, 5) -> Coq
	c11CoqSeqAccThor     = 10000 // per length (5, 6)
	c11CoqSeqRejThor     = 6500  // per length (4, 5, 6)
	c11Depth3Cap         = 400000
	c11DropParenPerTree  = 3 // required-parenthesis removals tried per tree
)

// ---------------------------------------------------------------- reference grammar
type c11op struct {
	prec  int
	right bool
}

var c11Binary = map[string]c11op{
	"or": {10, false}, "||": {10, false}, "and": {15, false}, "&&": {15, false},
	"==": {20, false}, "!=": {20, false}, "<": {20, false}, ">": {20, false}, "<=": {20, false}, ">=": {20, false},
	"in": {20, false}, "not in": {20, false}, "matches": {20, false}, "contains": {20, false},
	"startsWith": {20, false}, "endsWith": {20, false},
	"..": {25, false}, "+": {30, false}, "-": {30, false}, "*": {60, false}, "/": {60, false}, "%": {60, false},
	"**": {70, true},
}

// fixed order (maps have none)
var c11BinOps = []string{"or", "||", "and", "&&", "==", "!=", "<", ">", "<=", ">=", "in", "not in", "matches", "contains",
	"startsWith", "endsWith", "..", "+", "-", "*", "/", "%", "**"}

var c11Unary = map[string]int{"not": 50, "!": 50, "-": 500, "+": 500}
var c11UnOps = []string{"not", "!", "-", "+"}

var c11Builtins = map[string]int{"len": 1, "all": 2, "none": 2, "any": 2, "one": 2, "filter": 2, "map": 2, "count": 2}
var c11Builtin2 = []string{"all", "none", "any", "one", "filter", "map", "count"}

func c11q(o string) int {
	op := c11Binary[o]
	if op.right {
		return op.prec
	}
	return op.prec + 1
}

// ---------------------------------------------------------------- node constructors
func nId(s string) ast.Node              { return &ast.IdentifierNode{Value: s} }
func nIdNS(s string) ast.Node            { return &ast.IdentifierNode{Value: s, NilSafe: true} }
func nInt(i int) ast.Node                { return &ast.IntegerNode{Value: i} }
func nFloat(f float64) ast.Node          { return &ast.FloatNode{Value: f} }
func nStr(s string) ast.Node             { return &ast.StringNode{Value: s} }
func nBool(b bool) ast.Node              { return &ast.BoolNode{Value: b} }
func nNil() ast.Node                     { return &ast.NilNode{} }
func nUn(op string, x ast.Node) ast.Node { return &ast.UnaryNode{Operator: op, Node: x} }
func nCond(c, a, b ast.Node) ast.Node    { return &ast.ConditionalNode{Cond: c, Exp1: a, Exp2: b} }
func nElvis(c, b ast.Node) ast.Node      { return &ast.ConditionalNode{Cond: c, Exp1: c, Exp2: b} }
func nIndex(x, i ast.Node) ast.Node      { return &ast.IndexNode{Node: x, Index: i} }
func nCall(f string, a ...ast.Node) ast.Node {
	return &ast.FunctionNode{Name: f, Arguments: c11args(a)}
}
func nClosure(b ast.Node) ast.Node { return &ast.ClosureNode{Node: b} }
func nPtr() ast.Node               { return &ast.PointerNode{} }
func nArr(es ...ast.Node) ast.Node { return &ast.ArrayNode{Nodes: c11args(es)} }
func nPair(k, v ast.Node) ast.Node { return &ast.PairNode{Key: k, Value: v} }
func nMap(ps ...ast.Node) ast.Node { return &ast.MapNode{Pairs: c11args(ps)} }

func c11args(a []ast.Node) []ast.Node {
	if a == nil {
		return []ast.Node{}
	}
	return a
}

// nBin builds a BinaryNode, or a MatchesNode for "matches" (pattern pre-compiled when the right
// operand is a string literal; ok=false when that pattern is invalid: the input must be rejected).
func nBinOK(op string, l, r ast.Node) (ast.Node, bool) {
	if op == "matches" {
		m := &ast.MatchesNode{Left: l, Right: r}
		if s, ok := r.(*ast.StringNode); ok {
			re, err := regexp.Compile(s.Value)
			if err != nil {
				return m, false
			}
			m.Regexp = re
		}
		return m, true
	}
	return &ast.BinaryNode{Operator: op, Left: l, Right: r}, true
}

func nBin(op string, l, r ast.Node) ast.Node {
	n, ok := nBinOK(op, l, r)
	if !ok {
		panic("nBin: invalid pattern")
	}
	return n
}

func nSlice(x, from, to ast.Node) ast.Node {
	s := &ast.SliceNode{Node: x}
	if !c11isNil(from) {
		s.From = from
	}
	if !c11isNil(to) {
		s.To = to
	}
	return s
}

// property / method as written WITHOUT parentheses around the base: an identifier base directly
// followed by `?.` carries NilSafe itself.
func nProp(x ast.Node, name string, ns bool) ast.Node {
	if id, ok := x.(*ast.IdentifierNode); ok && ns {
		x = nIdNS(id.Value)
	}
	return &ast.PropertyNode{Node: x, Property: name, NilSafe: ns}
}

func nMethod(x ast.Node, name string, ns bool, a ...ast.Node) ast.Node {
	if id, ok := x.(*ast.IdentifierNode); ok && ns {
		x = nIdNS(id.Value)
	}
	return &ast.MethodNode{Node: x, Method: name, Arguments: c11args(a), NilSafe: ns}
}

// the same with the base kept as it is (spelled `(a)?.b` for an identifier base)
func nPropRaw(x ast.Node, name string, ns bool) ast.Node {
	return &ast.PropertyNode{Node: x, Property: name, NilSafe: ns}
}

func nBuiltin(name string, a ...ast.Node) ast.Node {
	return &ast.BuiltinNode{Name: name, Arguments: c11args(a)}
}

func c11isNil(n ast.Node) bool {
	if n == nil {
		return true
	}
	rv := reflect.ValueOf(n)
	return rv.Kind() == reflect.Ptr && rv.IsNil()
}

// ---------------------------------------------------------------- S-expression dump
func dumpSexpr(n ast.Node) string {
	var b strings.Builder
	c11dump(&b, n)
	return b.String()
}

func c11dumpList(b *strings.Builder, ns []ast.Node) {
	for _, x := range ns {
		b.WriteByte(' ')
		c11dump(b, x)
	}
}

func c11dump(b *strings.Builder, node ast.Node) {
	if c11isNil(node) {
		b.WriteString("_")
		return
	}
	ns := func(f bool) string {
		if f {
			return "?"
		}
		return ""
	}
	switch n := node.(type) {
	case *ast.NilNode:
		b.WriteString("nil")
	case *ast.IdentifierNode:
		b.WriteString("(id" + ns(n.NilSafe) + " " + n.Value + ")")
	case *ast.IntegerNode:
		b.WriteString("(int " + strconv.Itoa(n.Value) + ")")
	case *ast.FloatNode:
		b.WriteString("(float 0x" + strconv.FormatUint(math.Float64bits(n.Value), 16) + ")")
	case *ast.BoolNode:
		b.WriteString("(bool " + strconv.FormatBool(n.Value) + ")")
	case *ast.StringNode:
		b.WriteString("(str " + strconv.Quote(n.Value) + ")")
	case *ast.ConstantNode:
		b.WriteString(fmt.Sprintf("(const %T %v)", n.Value, n.Value))
	case *ast.UnaryNode:
		b.WriteString("(un " + strconv.Quote(n.Operator) + " ")
		c11dump(b, n.Node)
		b.WriteString(")")
	case *ast.BinaryNode:
		b.WriteString("(bin " + strconv.Quote(n.Operator) + " ")
		c11dump(b, n.Left)
		b.WriteString(" ")
		c11dump(b, n.Right)
		b.WriteString(")")
	case *ast.MatchesNode:
		if n.Regexp != nil {
			b.WriteString("(matches re=" + strconv.Quote(n.Regexp.String()) + " ")
		} else {
			b.WriteString("(matches nore ")
		}
		c11dump(b, n.Left)
		b.WriteString(" ")
		c11dump(b, n.Right)
		b.WriteString(")")
	case *ast.PropertyNode:
		b.WriteString("(prop" + ns(n.NilSafe) + " ")
		c11dump(b, n.Node)
		b.WriteString(" " + n.Property + ")")
	case *ast.IndexNode:
		b.WriteString("(index ")
		c11dump(b, n.Node)
		b.WriteString(" ")
		c11dump(b, n.Index)
		b.WriteString(")")
	case *ast.SliceNode:
		b.WriteString("(slice ")
		c11dump(b, n.Node)
		b.WriteString(" ")
		c11dump(b, n.From)
		b.WriteString(" ")
		c11dump(b, n.To)
		b.WriteString(")")
	case *ast.MethodNode:
		b.WriteString("(method" + ns(n.NilSafe) + " ")
		c11dump(b, n.Node)
		b.WriteString(" " + n.Method + " [")
		c11dumpList(b, n.Arguments)
		b.WriteString("])")
	case *ast.FunctionNode:
		b.WriteString("(call " + n.Name + " [")
		c11dumpList(b, n.Arguments)
		b.WriteString("])")
	case *ast.BuiltinNode:
		b.WriteString("(builtin " + n.Name + " [")
		c11dumpList(b, n.Arguments)
		b.WriteString("])")
	case *ast.ClosureNode:
		b.WriteString("(closure ")
		c11dump(b, n.Node)
		b.WriteString(")")
	case *ast.PointerNode:
		b.WriteString("#")
	case *ast.ConditionalNode:
		b.WriteString("(cond ")
		c11dump(b, n.Cond)
		b.WriteString(" ")
		c11dump(b, n.Exp1)
		b.WriteString(" ")
		c11dump(b, n.Exp2)
		b.WriteString(")")
	case *ast.ArrayNode:
		b.WriteString("(array")
		c11dumpList(b, n.Nodes)
		b.WriteString(")")
	case *ast.MapNode:
		b.WriteString("(map")
		c11dumpList(b, n.Pairs)
		b.WriteString(")")
	case *ast.PairNode:
		b.WriteString("(pair ")
		c11dump(b, n.Key)
		b.WriteString(" ")
		c11dump(b, n.Value)
		b.WriteString(")")
	default:
		b.WriteString(fmt.Sprintf("(unknown %T)", node))
	}
}

// ---------------------------------------------------------------- tree statistics
var c11KindNames = []string{"Nil", "Identifier", "Integer", "Float", "Bool", "String", "Constant", "Unary", "Binary", "Matches",
	"Property", "Index", "Slice", "Method", "Function", "Builtin", "Closure", "Pointer", "Conditional", "Array", "Map", "Pair"}

func c11kindIdx(node ast.Node) int {
	switch node.(type) {
	case *ast.NilNode:
		return 0
	case *ast.IdentifierNode:
		return 1
	case *ast.IntegerNode:
		return 2
	case *ast.FloatNode:
		return 3
	case *ast.BoolNode:
		return 4
	case *ast.StringNode:
		return 5
	case *ast.ConstantNode:
		return 6
	case *ast.UnaryNode:
		return 7
	case *ast.BinaryNode:
		return 8
	case *ast.MatchesNode:
		return 9
	case *ast.PropertyNode:
		return 10
	case *ast.IndexNode:
		return 11
	case *ast.SliceNode:
		return 12
	case *ast.MethodNode:
		return 13
	case *ast.FunctionNode:
		return 14
	case *ast.BuiltinNode:
		return 15
	case *ast.ClosureNode:
		return 16
	case *ast.PointerNode:
		return 17
	case *ast.ConditionalNode:
		return 18
	case *ast.ArrayNode:
		return 19
	case *ast.MapNode:
		return 20
	case *ast.PairNode:
		return 21
	}
	return 6
}

func c11children(node ast.Node) []ast.Node {
	var out []ast.Node
	add := func(x ast.Node) {
		if !c11isNil(x) {
			out = append(out, x)
		}
	}
	switch n := node.(type) {
	case *ast.UnaryNode:
		add(n.Node)
	case *ast.BinaryNode:
		add(n.Left)
		add(n.Right)
	case *ast.MatchesNode:
		add(n.Left)
		add(n.Right)
	case *ast.PropertyNode:
		add(n.Node)
	case *ast.IndexNode:
		add(n.Node)
		add(n.Index)
	case *ast.SliceNode:
		add(n.Node)
		add(n.From)
		add(n.To)
	case *ast.MethodNode:
		add(n.Node)
		out = append(out, n.Arguments...)
	case *ast.FunctionNode:
		out = append(out, n.Arguments...)
	case *ast.BuiltinNode:
		out = append(out, n.Arguments...)
	case *ast.ClosureNode:
		add(n.Node)
	case *ast.ConditionalNode:
		add(n.Cond)
		add(n.Exp1)
		add(n.Exp2)
	case *ast.ArrayNode:
		out = append(out, n.Nodes...)
	case *ast.MapNode:
		out = append(out, n.Pairs...)
	case *ast.PairNode:
		add(n.Key)
		add(n.Value)
	}
	return out
}

// operand slots: where precedence / associativity / chain nesting decides the shape
func c11operands(node ast.Node) []ast.Node {
	switch n := node.(type) {
	case *ast.UnaryNode:
		return []ast.Node{n.Node}
	case *ast.BinaryNode:
		return []ast.Node{n.Left, n.Right}
	case *ast.MatchesNode:
		return []ast.Node{n.Left, n.Right}
	case *ast.ConditionalNode:
		return []ast.Node{n.Cond, n.Exp1, n.Exp2}
	case *ast.PropertyNode:
		return []ast.Node{n.Node}
	case *ast.MethodNode:
		return []ast.Node{n.Node}
	case *ast.IndexNode:
		return []ast.Node{n.Node}
	case *ast.SliceNode:
		return []ast.Node{n.Node}
	}
	return nil
}

func c11isOpNode(n ast.Node) bool { return c11operands(n) != nil }

// non-trivial: some operator node has an operand that is an operator node
func c11nontrivial(node ast.Node) bool {
	if c11isNil(node) {
		return false
	}
	for _, o := range c11operands(node) {
		if !c11isNil(o) && c11isOpNode(o) {
			return true
		}
	}
	for _, c := range c11children(node) {
		if c11nontrivial(c) {
			return true
		}
	}
	return false
}

// kinds histogram and depth of a tree
func c11stats(node ast.Node, kinds *[22]int) int {
	if c11isNil(node) {
		return 0
	}
	kinds[c11kindIdx(node)]++
	d := 0
	for _, c := range c11children(node) {
		if x := c11stats(c, kinds); x > d {
			d = x
		}
	}
	return d + 1
}

// ---------------------------------------------------------------- reference parser
// Written from the property's grammar description over the tokens of lexer.Lex; it rejects at the
// first violation.  It does not use the parser's tables.
type c11ref struct {
	toks  []lexer.Token
	pos   int
	depth int
	bad   bool
}

func (p *c11ref) cur() lexer.Token { return p.toks[p.pos] }

func (p *c11ref) is(k lexer.Kind, v string) bool {
	t := p.toks[p.pos]
	return t.Kind == k && t.Value == v
}

func (p *c11ref) consume() {
	if p.pos+1 >= len(p.toks) {
		p.bad = true
		return
	}
	p.pos++
}

func (p *c11ref) expect(k lexer.Kind, v string) {
	if p.bad {
		return
	}
	if p.is(k, v) {
		p.consume()
		return
	}
	p.bad = true
}

func c11validIdent(s string) bool {
	if s == "" {
		return false
	}
	for i := 0; i < len(s); i++ {
		c := s[i]
		alpha := c == '_' || c == '$' || (c >= 'a' && c <= 'z') || (c >= 'A' && c <= 'Z')
		if i == 0 && !alpha {
			return false
		}
		if !alpha && !(c >= '0' && c <= '9') {
			return false
		}
	}
	return true
}

func (p *c11ref) expr(prec int) ast.Node {
	x := p.primary()
	for !p.bad {
		t := p.cur()
		if t.Kind != lexer.Operator {
			break
		}
		op, ok := c11Binary[t.Value]
		if !ok || op.prec < prec {
			break
		}
		p.consume()
		if p.bad {
			return nil
		}
		var r ast.Node
		if op.right {
			r = p.expr(op.prec)
		} else {
			r = p.expr(op.prec + 1)
		}
		if p.bad {
			return nil
		}
		n, ok := nBinOK(t.Value, x, r)
		if !ok {
			p.bad = true
			return nil
		}
		x = n
	}
	if prec == 0 {
		for !p.bad && p.is(lexer.Operator, "?") {
			p.consume()
			if p.bad {
				return nil
			}
			if p.is(lexer.Operator, ":") {
				p.consume()
				e2 := p.expr(0)
				x = nElvis(x, e2)
			} else {
				e1 := p.expr(0)
				p.expect(lexer.Operator, ":")
				if p.bad {
					return nil
				}
				e2 := p.expr(0)
				x = nCond(x, e1, e2)
			}
		}
	}
	if p.bad {
		return nil
	}
	return x
}

func (p *c11ref) primary() ast.Node {
	if p.bad {
		return nil
	}
	t := p.cur()
	if t.Kind == lexer.Operator {
		if u, ok := c11Unary[t.Value]; ok {
			p.consume()
			if p.bad {
				return nil
			}
			e := p.expr(u)
			if p.bad {
				return nil
			}
			return p.postfix(nUn(t.Value, e))
		}
	}
	if p.is(lexer.Bracket, "(") {
		p.consume()
		if p.bad {
			return nil
		}
		e := p.expr(0)
		p.expect(lexer.Bracket, ")")
		if p.bad {
			return nil
		}
		return p.postfix(e)
	}
	if p.is(lexer.Operator, "#") || p.is(lexer.Operator, ".") {
		if p.depth == 0 {
			p.bad = true
			return nil
		}
		if p.is(lexer.Operator, "#") {
			p.consume()
			if p.bad {
				return nil
			}
		}
		return p.postfix(nPtr())
	}
	switch t.Kind {
	case lexer.Identifier:
		p.consume()
		if p.bad {
			return nil
		}
		switch t.Value {
		case "true":
			return nBool(true)
		case "false":
			return nBool(false)
		case "nil":
			return nNil()
		}
		var node ast.Node
		if p.is(lexer.Bracket, "(") {
			if arity, ok := c11Builtins[t.Value]; ok {
				p.expect(lexer.Bracket, "(")
				var args []ast.Node
				if arity == 1 {
					args = []ast.Node{p.expr(0)}
				} else {
					a0 := p.expr(0)
					p.expect(lexer.Operator, ",")
					if p.bad {
						return nil
					}
					args = []ast.Node{a0, p.closure()}
				}
				p.expect(lexer.Bracket, ")")
				if p.bad {
					return nil
				}
				node = nBuiltin(t.Value, args...)
			} else {
				args := p.arguments()
				if p.bad {
					return nil
				}
				node = nCall(t.Value, args...)
			}
		} else {
			node = &ast.IdentifierNode{Value: t.Value, NilSafe: p.cur().Value == "?."}
		}
		return p.postfix(node)
	case lexer.Number:
		p.consume()
		if p.bad {
			return nil
		}
		v := strings.Replace(t.Value, "_", "", -1)
		switch {
		case strings.ContainsAny(v, "xX"):
			i, err := strconv.ParseInt(v, 0, 64)
			if err != nil {
				p.bad = true
				return nil
			}
			return nInt(int(i))
		case strings.ContainsAny(v, ".eE"):
			f, err := strconv.ParseFloat(v, 64)
			if err != nil {
				p.bad = true
				return nil
			}
			return nFloat(f)
		}
		i, err := strconv.ParseInt(v, 10, 64)
		if err != nil {
			p.bad = true
			return nil
		}
		return nInt(int(i))
	case lexer.String:
		p.consume()
		if p.bad {
			return nil
		}
		return nStr(t.Value)
	}
	if p.is(lexer.Bracket, "[") {
		p.consume()
		els := []ast.Node{}
		for !p.bad && !p.is(lexer.Bracket, "]") {
			if len(els) > 0 {
				p.expect(lexer.Operator, ",")
				if p.bad || p.is(lexer.Bracket, "]") {
					break
				}
			}
			els = append(els, p.expr(0))
		}
		p.expect(lexer.Bracket, "]")
		if p.bad {
			return nil
		}
		return p.postfix(nArr(els...))
	}
	if p.is(lexer.Bracket, "{") {
		p.consume()
		pairs := []ast.Node{}
		for !p.bad && !p.is(lexer.Bracket, "}") {
			if len(pairs) > 0 {
				p.expect(lexer.Operator, ",")
				if p.bad || p.is(lexer.Bracket, "}") {
					break
				}
				if p.is(lexer.Operator, ",") {
					p.bad = true
					break
				}
			}
			var key ast.Node
			k := p.cur()
			if k.Kind == lexer.Number || k.Kind == lexer.String || k.Kind == lexer.Identifier {
				key = nStr(k.Value)
				p.consume()
			} else if p.is(lexer.Bracket, "(") {
				key = p.expr(0)
			} else {
				p.bad = true
				break
			}
			p.expect(lexer.Operator, ":")
			if p.bad {
				break
			}
			v := p.expr(0)
			pairs = append(pairs, nPair(key, v))
		}
		p.expect(lexer.Bracket, "}")
		if p.bad {
			return nil
		}
		return p.postfix(nMap(pairs...))
	}
	p.bad = true
	return nil
}

func (p *c11ref) closure() ast.Node {
	p.expect(lexer.Bracket, "{")
	if p.bad {
		return nil
	}
	p.depth++
	e := p.expr(0)
	p.depth--
	p.expect(lexer.Bracket, "}")
	if p.bad {
		return nil
	}
	return nClosure(e)
}

func (p *c11ref) arguments() []ast.Node {
	p.expect(lexer.Bracket, "(")
	args := []ast.Node{}
	for !p.bad && !p.is(lexer.Bracket, ")") {
		if len(args) > 0 {
			p.expect(lexer.Operator, ",")
			if p.bad {
				break
			}
		}
		args = append(args, p.expr(0))
	}
	p.expect(lexer.Bracket, ")")
	return args
}

func (p *c11ref) postfix(node ast.Node) ast.Node {
	nilsafe := false
	for !p.bad {
		t := p.cur()
		if t.Kind != lexer.Operator && t.Kind != lexer.Bracket {
			break
		}
		if t.Value == "." || t.Value == "?." {
			if t.Value == "?." {
				nilsafe = true
			}
			p.consume()
			if p.bad {
				return nil
			}
			name := p.cur()
			p.consume()
			if p.bad {
				return nil
			}
			if name.Kind != lexer.Identifier && !(name.Kind == lexer.Operator && c11validIdent(name.Value)) {
				p.bad = true
				return nil
			}
			if p.is(lexer.Bracket, "(") {
				args := p.arguments()
				if p.bad {
					return nil
				}
				node = &ast.MethodNode{Node: node, Method: name.Value, Arguments: args, NilSafe: nilsafe}
			} else {
				node = &ast.PropertyNode{Node: node, Property: name.Value, NilSafe: nilsafe}
			}
		} else if t.Value == "[" {
			p.consume()
			if p.bad {
				return nil
			}
			var from, to ast.Node
			if p.is(lexer.Operator, ":") {
				p.consume()
				if p.bad {
					return nil
				}
				if !p.is(lexer.Bracket, "]") {
					to = p.expr(0)
				}
				node = nSlice(node, nil, to)
				p.expect(lexer.Bracket, "]")
			} else {
				from = p.expr(0)
				if p.bad {
					return nil
				}
				if p.is(lexer.Operator, ":") {
					p.consume()
					if p.bad {
						return nil
					}
					if !p.is(lexer.Bracket, "]") {
						to = p.expr(0)
					}
					node = nSlice(node, from, to)
					p.expect(lexer.Bracket, "]")
				} else {
					node = nIndex(node, from)
					p.expect(lexer.Bracket, "]")
				}
			}
		} else {
			break
		}
	}
	if p.bad {
		return nil
	}
	return node
}

// c11RefParse: the reference tree, or ok=false for "reject"
func c11RefParse(toks []lexer.Token) (ast.Node, bool) {
	if len(toks) == 0 {
		return nil, false
	}
	p := &c11ref{toks: toks}
	n := p.expr(0)
	if p.bad || p.cur().Kind != lexer.EOF {
		return nil, false
	}
	return n, true
}

// ---------------------------------------------------------------- printer
// pr(top, p, f, t): p = level of the enclosing operator loop, f = precedence of the binary operator
// that follows the sub-expression (0 = none).  rng == nil: minimal parentheses, canonical spellings.
type c11printer struct {
	rng         *rand.Rand
	extras      bool // print_any: redundant parentheses
	alt         bool // alternative spellings of the same tree (`.x` for `#.x`, trailing commas, bare map keys, `.` after a sticky `?.`)
	dropReq     int  // index of the REQUIRED precedence parenthesis to leave out (-1: none)
	reqCount    int  // required precedence parentheses met so far
	wrapNSIdent bool // wrap identifiers that carry NilSafe in redundant parentheses (known finding family)
	wrapped     int  // how many such identifiers were wrapped
}

var c11numSpelling = map[ast.Node]string{} // literal nodes with a non-canonical spelling

func c11quote(s string) string {
	var b strings.Builder
	b.WriteByte('"')
	for _, r := range s {
		switch r {
		case '\\':
			b.WriteString(`\\`)
		case '"':
			b.WriteString(`\"`)
		case '\n':
			b.WriteString(`\n`)
		case '\r':
			b.WriteString(`\r`)
		case '\t':
			b.WriteString(`\t`)
		default:
			b.WriteRune(r)
		}
	}
	b.WriteByte('"')
	return b.String()
}

func c11floatText(f float64) string {
	s := strconv.FormatFloat(f, 'g', -1, 64)
	if !strings.ContainsAny(s, ".e") {
		s += ".0"
	}
	return s
}

func c11wrap(k int, inner []string) []string {
	out := make([]string, 0, len(inner)+2*k)
	for i := 0; i < k; i++ {
		out = append(out, "(")
	}
	out = append(out, inner...)
	for i := 0; i < k; i++ {
		out = append(out, ")")
	}
	return out
}

func (pp *c11printer) coin(n int) bool { return pp.rng != nil && pp.alt && pp.rng.Intn(n) == 0 }

func (pp *c11printer) extra(n ast.Node) int {
	if pp.rng == nil || !pp.extras {
		return 0
	}
	switch x := n.(type) {
	case *ast.IdentifierNode:
		if x.NilSafe {
			return 0
		}
	case *ast.ClosureNode, *ast.PairNode:
		return 0
	}
	switch r := pp.rng.Intn(12); {
	case r < 9:
		return 0
	case r < 11:
		return 1
	}
	return 2
}

func (pp *c11printer) pr(top bool, p, f int, n ast.Node) []string {
	if k := pp.extra(n); k > 0 {
		return c11wrap(k, pp.core(true, 0, 0, n))
	}
	return pp.core(top, p, f, n)
}

// a REQUIRED precedence parenthesis around body (printed in the fresh context)
func (pp *c11printer) req(body func() []string) []string {
	idx := pp.reqCount
	pp.reqCount++
	inner := body()
	if idx == pp.dropReq {
		return inner
	}
	return c11wrap(1, inner)
}

func (pp *c11printer) list(ns []ast.Node, trailing bool) []string {
	var out []string
	for i, a := range ns {
		if i > 0 {
			out = append(out, ",")
		}
		out = append(out, pp.pr(true, 0, 0, a)...)
	}
	if trailing && len(ns) > 0 && pp.coin(4) {
		out = append(out, ",")
	}
	return out
}

func (pp *c11printer) binary(o string, l, r ast.Node, p, f int) []string {
	prec := c11Binary[o].prec
	body := func(p, f int) []string {
		out := pp.pr(false, p, prec, l)
		out = append(out, o)
		return append(out, pp.pr(false, c11q(o), f, r)...)
	}
	if prec < p || (f != 0 && f >= c11q(o)) {
		return pp.req(func() []string { return body(0, 0) })
	}
	return body(p, f)
}

var c11bareKey = regexp.MustCompile(`^([A-Za-z_$][A-Za-z0-9_$]*|[1-9][0-9]*|0)$`)
var c11opWords = map[string]bool{"in": true, "or": true, "and": true, "not": true, "matches": true, "contains": true,
	"startsWith": true, "endsWith": true}

func (pp *c11printer) core(top bool, p, f int, node ast.Node) []string {
	switch n := node.(type) {
	case *ast.NilNode:
		return []string{"nil"}
	case *ast.BoolNode:
		return []string{strconv.FormatBool(n.Value)}
	case *ast.IntegerNode:
		if s, ok := c11numSpelling[node]; ok {
			return []string{s}
		}
		return []string{strconv.Itoa(n.Value)}
	case *ast.FloatNode:
		if s, ok := c11numSpelling[node]; ok {
			return []string{s}
		}
		return []string{c11floatText(n.Value)}
	case *ast.StringNode:
		return []string{c11quote(n.Value)}
	case *ast.IdentifierNode:
		if n.NilSafe {
			panic("c11 printer: identifier with NilSafe that is not the bare base of a `?.` step: " + n.Value)
		}
		return []string{n.Value}
	case *ast.PointerNode:
		return []string{"#"}
	case *ast.UnaryNode:
		u := c11Unary[n.Operator]
		body := func(f int) []string { return append([]string{n.Operator}, pp.pr(false, u, f, n.Node)...) }
		if f != 0 && f >= u {
			return pp.req(func() []string { return body(0) })
		}
		return body(f)
	case *ast.BinaryNode:
		return pp.binary(n.Operator, n.Left, n.Right, p, f)
	case *ast.MatchesNode:
		return pp.binary("matches", n.Left, n.Right, p, f)
	case *ast.ConditionalNode:
		body := func() []string {
			out := pp.pr(false, 0, 0, n.Cond)
			out = append(out, "?")
			if n.Exp1 == n.Cond && !pp.coin(4) {
				out = append(out, ":") // the `a ?: b` form
			} else {
				out = append(out, pp.pr(true, 0, 0, n.Exp1)...)
				out = append(out, ":")
			}
			return append(out, pp.pr(true, 0, 0, n.Exp2)...)
		}
		if !top {
			return pp.req(body)
		}
		return body()
	case *ast.PropertyNode, *ast.MethodNode, *ast.IndexNode, *ast.SliceNode:
		toks, _ := pp.postfix(node)
		return toks
	case *ast.FunctionNode:
		out := []string{n.Name, "("}
		out = append(out, pp.list(n.Arguments, false)...)
		return append(out, ")")
	case *ast.BuiltinNode:
		out := []string{n.Name, "("}
		out = append(out, pp.list(n.Arguments, false)...)
		return append(out, ")")
	case *ast.ClosureNode:
		out := []string{"{"}
		out = append(out, pp.pr(true, 0, 0, n.Node)...)
		return append(out, "}")
	case *ast.ArrayNode:
		out := []string{"["}
		out = append(out, pp.list(n.Nodes, true)...)
		return append(out, "]")
	case *ast.MapNode:
		out := []string{"{"}
		for i, pn := range n.Pairs {
			pair := pn.(*ast.PairNode)
			if i > 0 {
				out = append(out, ",")
			}
			if s, ok := pair.Key.(*ast.StringNode); ok && pp.extra(s) == 0 {
				if c11bareKey.MatchString(s.Value) && !c11opWords[s.Value] && pp.coin(2) {
					out = append(out, s.Value) // {foo: 1}, {1: 2}
				} else {
					out = append(out, c11quote(s.Value))
				}
			} else {
				out = append(out, "(")
				out = append(out, pp.pr(true, 0, 0, pair.Key)...)
				out = append(out, ")")
			}
			out = append(out, ":")
			out = append(out, pp.pr(true, 0, 0, pair.Value)...)
		}
		if len(n.Pairs) > 0 && pp.coin(4) {
			out = append(out, ",")
		}
		return append(out, "}")
	}
	panic(fmt.Sprintf("c11 printer: cannot print %T", node))
}

// base of a postfix step.  Returns the tokens and whether the parser's sticky `nilsafe` variable
// is true after them (only an unparenthesised chain can leave it true).
func (pp *c11printer) base(b ast.Node, needNonSticky bool) ([]string, bool) {
	if k := pp.extra(b); k > 0 {
		return c11wrap(k, pp.core(true, 0, 0, b)), false
	}
	switch b.(type) {
	case *ast.NilNode, *ast.BoolNode, *ast.IntegerNode, *ast.FloatNode, *ast.StringNode,
		*ast.UnaryNode, *ast.BinaryNode, *ast.MatchesNode, *ast.ConditionalNode:
		return c11wrap(1, pp.core(true, 0, 0, b)), false
	case *ast.PropertyNode, *ast.MethodNode, *ast.IndexNode, *ast.SliceNode:
		toks, st := pp.postfix(b)
		if st && needNonSticky {
			return c11wrap(1, toks), false // (a?.b).c : required to restart the chain
		}
		return toks, st
	}
	return pp.core(true, 0, 0, b), false
}

func (pp *c11printer) postfix(node ast.Node) ([]string, bool) {
	named := func(b ast.Node, name string, ns bool, args []ast.Node, isMethod bool) ([]string, bool) {
		var toks []string
		st := false
		if id, ok := b.(*ast.IdentifierNode); ok {
			switch {
			case id.NilSafe && !ns:
				panic("c11 printer: NilSafe identifier under a plain `.` step")
			case id.NilSafe && pp.wrapNSIdent:
				toks = []string{"(", id.Value, ")"}
				pp.wrapped++
			case id.NilSafe:
				toks = []string{id.Value}
			case ns:
				toks = []string{"(", id.Value, ")"} // (a)?.b : the identifier itself is not nil-safe
			default:
				toks, _ = pp.base(b, false)
			}
		} else if _, ok := b.(*ast.PointerNode); ok && !ns && pp.extra(b) == 0 && pp.coin(2) {
			toks = nil // `.x` is `#.x`
		} else {
			toks, st = pp.base(b, !ns)
		}
		dot := "."
		if ns && !(st && pp.coin(3)) {
			dot = "?."
		}
		toks = append(toks, dot, name)
		if isMethod {
			toks = append(toks, "(")
			toks = append(toks, pp.list(args, false)...)
			toks = append(toks, ")")
		}
		return toks, ns
	}
	plainBase := func(b ast.Node) ([]string, bool) {
		if id, ok := b.(*ast.IdentifierNode); ok && id.NilSafe {
			panic("c11 printer: NilSafe identifier under [ ]")
		}
		return pp.base(b, false)
	}
	switch n := node.(type) {
	case *ast.PropertyNode:
		return named(n.Node, n.Property, n.NilSafe, nil, false)
	case *ast.MethodNode:
		return named(n.Node, n.Method, n.NilSafe, n.Arguments, true)
	case *ast.IndexNode:
		toks, st := plainBase(n.Node)
		toks = append(toks, "[")
		toks = append(toks, pp.pr(true, 0, 0, n.Index)...)
		return append(toks, "]"), st
	case *ast.SliceNode:
		toks, st := plainBase(n.Node)
		toks = append(toks, "[")
		if !c11isNil(n.From) {
			toks = append(toks, pp.pr(true, 0, 0, n.From)...)
		}
		toks = append(toks, ":")
		if !c11isNil(n.To) {
			toks = append(toks, pp.pr(true, 0, 0, n.To)...)
		}
		return append(toks, "]"), st
	}
	panic("c11 printer: not a postfix node")
}

func c11printMin(t ast.Node) []string {
	pp := &c11printer{dropReq: -1}
	return pp.pr(true, 0, 0, t)
}

// ---------------------------------------------------------------- text assembly
func c11isBracketTok(s string) bool {
	switch s {
	case "(", ")", "[", "]", "{", "}", ",":
		return true
	}
	return false
}

func c11join(toks []string) string { return strings.Join(toks, " ") }

var c11seps = []string{" ", "  ", "\t", "\n", " \n\t "}
var c11sepsAfterNotIn = []string{" ", "  ", " \n\t "}

// whitespace variant: never creates or destroys a token
func c11joinWS(toks []string, rng *rand.Rand) string {
	var b strings.Builder
	if rng.Intn(4) == 0 {
		b.WriteString(c11seps[rng.Intn(len(c11seps))])
	}
	for i, t := range toks {
		b.WriteString(t)
		if i+1 == len(toks) {
			break
		}
		if t == "not in" {
			b.WriteString(c11sepsAfterNotIn[rng.Intn(len(c11sepsAfterNotIn))])
			continue
		}
		if (c11isBracketTok(t) || c11isBracketTok(toks[i+1])) && rng.Intn(2) == 0 {
			continue
		}
		b.WriteString(c11seps[rng.Intn(len(c11seps))])
	}
	if rng.Intn(4) == 0 {
		b.WriteString(c11seps[rng.Intn(len(c11seps))])
	}
	return b.String()
}

// non-standard spacing of the two-word operator `not in` (known finding): mode 0 tab between the
// words, 1 newline between the words, 2 no space before a following bracket (tab otherwise), 3 tab after
func c11joinNotIn(toks []string, mode int) string {
	var b strings.Builder
	for i, t := range toks {
		last := i+1 == len(toks)
		if t != "not in" {
			b.WriteString(t)
			if !last {
				b.WriteByte(' ')
			}
			continue
		}
		switch mode {
		case 0:
			b.WriteString("not\tin ")
		case 1:
			b.WriteString("not\nin ")
		case 2:
			if !last && c11isBracketTok(toks[i+1]) {
				b.WriteString("not in")
			} else {
				b.WriteString("not in\t")
			}
		default:
			b.WriteString("not in\t")
		}
	}
	return b.String()
}

var c11reNotIn1 = regexp.MustCompile(`(^|[^A-Za-z0-9_$])not[ \t\n\r]*[\t\n\r][ \t\n\r]*in([^A-Za-z0-9_$]|$)`)
var c11reNotIn2 = regexp.MustCompile(`(^|[^A-Za-z0-9_$])not +in[^ A-Za-z0-9_$]`)

func c11nonStdNotIn(text string) bool {
	return c11reNotIn1.MatchString(text) || c11reNotIn2.MatchString(text)
}

func c11hasNotIn(toks []string) bool {
	for _, t := range toks {
		if t == "not in" {
			return true
		}
	}
	return false
}

// ---------------------------------------------------------------- generators
type c11tree struct {
	t      ast.Node
	reject bool // the reference grammar rejects this input (invalid pattern of a literal `matches` operand)
}

// (1) PAIRS: every interaction of two operators
func c11genPairs() []c11tree {
	var out []c11tree
	add := func(t ast.Node) { out = append(out, c11tree{t: t}) }
	a, b, c, d, e := nId("a"), nId("b"), nId("c"), nId("d"), nId("e")
	for _, o1 := range c11BinOps {
		for _, o2 := range c11BinOps {
			add(nBin(o2, nBin(o1, a, b), c))
			add(nBin(o1, a, nBin(o2, b, c)))
		}
	}
	for _, o := range c11BinOps { // matches with a literal pattern
		add(nBin(o, nBin("matches", a, nStr("^b")), c))
		add(nBin("matches", a, nBin(o, nStr("^b"), c)))
		add(nBin(o, c, nBin("matches", a, nStr("^b"))))
		add(nBin("matches", nBin(o, c, a), nStr("^b")))
	}
	for _, u := range c11UnOps {
		for _, o := range c11BinOps {
			add(nUn(u, nBin(o, a, b)))
			add(nBin(o, nUn(u, a), b))
			add(nBin(o, a, nUn(u, b)))
		}
		for _, u2 := range c11UnOps {
			add(nUn(u, nUn(u2, a)))
		}
		add(nUn(u, nCond(a, b, c)))
		add(nCond(nUn(u, a), b, c))
		add(nCond(a, nUn(u, b), c))
		add(nCond(a, b, nUn(u, c)))
		add(nUn(u, nElvis(a, b)))
		add(nElvis(nUn(u, a), b))
		// postfix against unary
		add(nUn(u, nProp(a, "p", false)))
		add(nPropRaw(nUn(u, a), "p", false))
		add(nUn(u, nIndex(a, b)))
		add(nIndex(nUn(u, a), b))
		add(nUn(u, nMethod(a, "m", false, b)))
		add(nMethod(nUn(u, a), "m", false, b))
		add(nUn(u, nSlice(a, b, c)))
		add(nSlice(nUn(u, a), b, c))
		add(nPropRaw(nUn(u, nInt(1)), "p", false)) // (-1).p, also spelled -1 .p
	}
	for _, o := range c11BinOps {
		add(nBin(o, nCond(a, b, c), d))
		add(nBin(o, a, nCond(b, c, d)))
		add(nCond(nBin(o, a, b), c, d))
		add(nCond(a, nBin(o, b, c), d))
		add(nCond(a, b, nBin(o, c, d)))
		add(nBin(o, nElvis(a, b), c))
		add(nBin(o, a, nElvis(b, c)))
		add(nElvis(nBin(o, a, b), c))
		add(nElvis(a, nBin(o, b, c)))
		// postfix against binary
		add(nBin(o, a, nProp(b, "p", false)))
		add(nPropRaw(nBin(o, a, b), "p", false))
		add(nBin(o, nIndex(a, b), c))
		add(nIndex(nBin(o, a, b), c))
		add(nIndex(a, nBin(o, b, c)))
		add(nSlice(a, nBin(o, b, c), nBin(o, d, e)))
		add(nMethod(nBin(o, a, b), "m", false))
		add(nBin(o, nCall("f", a), nBuiltin("len", b)))
	}
	add(nCond(nCond(a, b, c), d, e))
	add(nCond(a, nCond(b, c, d), e))
	add(nCond(a, b, nCond(c, d, e)))
	add(nElvis(nElvis(a, b), c))
	add(nElvis(a, nElvis(b, c)))
	add(nCond(nElvis(a, b), c, d))
	add(nCond(a, nElvis(b, c), d))
	add(nCond(a, b, nElvis(c, d)))
	add(nElvis(nCond(a, b, c), d))
	add(nElvis(a, nCond(b, c, d)))
	add(nPropRaw(nCond(a, b, c), "p", false))
	add(nIndex(nCond(a, b, c), d))
	add(nIndex(a, nCond(b, c, d)))
	add(nSlice(a, nCond(b, c, d), nCond(c, d, e)))
	// nil-safe chains
	add(nProp(a, "b", true))
	add(nPropRaw(a, "b", true)) // (a)?.b
	add(nProp(nProp(a, "b", true), "c", true))
	add(nPropRaw(nProp(a, "b", true), "c", false)) // (a?.b).c
	add(nProp(nProp(a, "b", false), "c", true))
	add(nPropRaw(nIndex(nProp(a, "b", true), nInt(0)), "c", false)) // (a?.b[0]).c
	add(nProp(nIndex(nProp(a, "b", true), nInt(0)), "c", true))
	add(nMethod(nMethod(a, "m", true), "k", true, b))
	add(&ast.MethodNode{Node: nMethod(a, "m", true), Method: "k", Arguments: []ast.Node{b}})
	add(nSlice(nSlice(nSlice(a, nInt(1), nil), nil, nInt(2)), nil, nil))
	return out
}

// inputs that the grammar rejects because a literal pattern does not compile
func c11genBadRe() []c11tree {
	var out []c11tree
	add := func(t ast.Node) { out = append(out, c11tree{t: t, reject: true}) }
	a, b := nId("a"), nId("b")
	for _, pat := range []string{"[a", "(", "a)", "*", "a{2,1}", "\\"} {
		m, ok := nBinOK("matches", a, nStr(pat))
		if ok {
			panic("pattern compiles: " + pat)
		}
		add(m)
		add(nUn("not", m))
		add(nBin("and", m, b))
		add(nBin("or", b, m))
		add(nCond(m, a, b))
		add(nArr(m))
		add(nCall("f", m))
	}
	return out
}

// (2) all trees up to depth 3 over a reduced alphabet.  W = the trees one level down, N = atoms;
// where the full product would be cubic, at most one child is taken from W and the others from N.
func c11forms(W, N []ast.Node, closureBodies []ast.Node) []ast.Node {
	var out []ast.Node
	add := func(t ast.Node) { out = append(out, t) }
	optN := append([]ast.Node{nil}, N...)
	inN := map[ast.Node]bool{}
	for _, x := range N {
		inN[x] = true
	}
	var Wonly []ast.Node // W \ N
	for _, x := range W {
		if !inN[x] {
			Wonly = append(Wonly, x)
		}
	}
	for _, x := range W {
		add(nUn("not", x))
		add(nUn("-", x))
		for _, o := range []string{"or", "and", "==", "..", "+", "*", "**"} {
			for _, y := range W {
				add(nBin(o, x, y))
			}
		}
		add(nProp(x, "p", false))
		add(nProp(x, "p", true))
		if _, ok := x.(*ast.IdentifierNode); ok {
			add(nPropRaw(x, "p", true)) // (a)?.p
		}
		for _, y := range W {
			add(nIndex(x, y))
		}
		add(nMethod(x, "m", false))
		add(nMethod(x, "m", true))
		add(nCall("f", x))
		add(nBuiltin("len", x))
		add(nBuiltin("all", x, nClosure(nPtr())))
		add(nBuiltin("all", x, nClosure(nProp(nPtr(), "p", false))))
		add(nArr(x))
		add(nMap(nPair(nStr("k"), x)))
		for _, y := range N {
			add(nMethod(x, "m", false, y))
		}
	}
	add(nCall("f"))
	add(nArr())
	add(nMap())
	// ternary / binary-width forms: all-N combinations, and one wide child
	for _, x := range N {
		for _, y := range N {
			for _, z := range N {
				add(nCond(x, y, z))
			}
			add(nCall("f", x, y))
			add(nArr(x, y))
			add(nMap(nPair(nStr("k"), x), nPair(nStr("j"), y)))
		}
		for _, f := range optN {
			for _, t := range optN {
				add(nSlice(x, f, t))
			}
		}
		for _, cb := range closureBodies {
			add(nBuiltin("all", x, nClosure(cb)))
		}
	}
	for _, w := range Wonly {
		for _, y := range N {
			for _, z := range N {
				add(nCond(w, y, z))
				add(nCond(y, w, z))
				add(nCond(y, z, w))
			}
			add(nCall("f", w, y))
			add(nCall("f", y, w))
			add(nArr(w, y))
			add(nArr(y, w))
			add(nMap(nPair(nStr("k"), w), nPair(nStr("j"), y)))
			add(nMap(nPair(nStr("k"), y), nPair(nStr("j"), w)))
			add(nMethod(y, "m", false, w))
			for _, t := range optN {
				add(nSlice(y, w, t))
				add(nSlice(y, t, w))
			}
		}
		for _, f := range optN {
			for _, t := range optN {
				add(nSlice(w, f, t))
			}
		}
	}
	return out
}

func c11dedupe(ts []ast.Node) []ast.Node {
	seen := map[string]bool{}
	var out []ast.Node
	for _, t := range ts {
		k := dumpSexpr(t)
		if !seen[k] {
			seen[k] = true
			out = append(out, t)
		}
	}
	return out
}

// returns the trees of depth <= 2 and the trees of depth exactly 3 (capped widths)
func c11genDepth3() (small, deep []ast.Node) {
	N := []ast.Node{nId("a"), nInt(1)}
	T2 := c11dedupe(append(append([]ast.Node{}, N...), c11forms(N, N, nil)...))
	// closure bodies of depth 2 over the atoms # and 1
	CN := []ast.Node{nPtr(), nInt(1)}
	var bodies []ast.Node
	for _, b := range c11dedupe(c11forms(CN, CN, nil)) {
		bodies = append(bodies, b)
	}
	seen := map[string]bool{}
	for _, t := range T2 {
		seen[dumpSexpr(t)] = true
	}
	for _, t := range c11forms(T2, N, bodies) {
		k := dumpSexpr(t)
		if !seen[k] {
			seen[k] = true
			deep = append(deep, t)
		}
	}
	return T2, deep
}

// (3) random deeper trees over all forms and spellings
type c11gen struct {
	rng *rand.Rand
}

var c11idents = []string{"a", "b", "c", "x", "foo", "Bar", "_t", "$v", "x1", "len", "map", "één", "in2", "nota"}
var c11funcs = []string{"f", "g", "fn", "Call", "upper", "über"}
var c11props = []string{"p", "q", "name", "Field", "in", "or", "and", "matches", "contains", "startsWith", "endsWith", "true", "nil", "len", "_x", "$"}
var c11strings = []string{"", "a", "hello world", "q\"uote", "back\\slash", "tab\there", "new\nline", "ünï", "日本", "'single'", "a b", "#", "?.", "1", "foo", "[a", "(", "\\d+"}
var c11patterns = []string{"^a", "b$", "a.c", "[0-9]+", "", "\\d+", "(x|y)*", "ü"}
var c11floats = []float64{0.5, 1.5, 2.0, 1e21, 1e-7, 3.141592653589793, 1e100, 0.1, 123456.789, math.MaxFloat64, 5e-324}

func (g *c11gen) pick(xs []string) string { return xs[g.rng.Intn(len(xs))] }

func (g *c11gen) atom(cl bool) ast.Node {
	switch r := g.rng.Intn(20); {
	case r < 8:
		return nId(g.pick(c11idents))
	case r < 12:
		if g.rng.Intn(4) == 0 {
			return nInt(int(g.rng.Int63n(math.MaxInt64)))
		}
		return nInt(g.rng.Intn(100))
	case r < 14:
		if g.rng.Intn(3) == 0 {
			f := math.Float64frombits(g.rng.Uint64() & 0x7fffffffffffffff)
			if f == f && !math.IsInf(f, 0) && f > 0 {
				return nFloat(f)
			}
		}
		return nFloat(c11floats[g.rng.Intn(len(c11floats))])
	case r < 16:
		return nStr(g.pick(c11strings))
	case r < 17:
		return nBool(g.rng.Intn(2) == 0)
	case r < 18:
		return nNil()
	}
	if cl {
		return nPtr()
	}
	return nId(g.pick(c11idents))
}

func (g *c11gen) sub(d int, cl bool) ast.Node {
	if d <= 1 {
		return g.atom(cl)
	}
	return g.tree(1+g.rng.Intn(d), cl)
}

func (g *c11gen) subs(n, d int, cl bool) []ast.Node {
	out := []ast.Node{}
	for i := 0; i < n; i++ {
		out = append(out, g.sub(d, cl))
	}
	return out
}

func (g *c11gen) tree(d int, cl bool) ast.Node {
	if d <= 1 {
		return g.atom(cl)
	}
	switch r := g.rng.Intn(100); {
	case r < 14:
		return nUn(g.pick(c11UnOps), g.tree(d-1, cl))
	case r < 50:
		o := g.pick(c11BinOps)
		l, rr := g.tree(d-1, cl), g.sub(d-1, cl)
		if g.rng.Intn(2) == 0 {
			l, rr = rr, l
		}
		if o == "matches" {
			if g.rng.Intn(2) == 0 {
				rr = nStr(g.pick(c11patterns))
			} else if s, ok := rr.(*ast.StringNode); ok {
				if _, err := regexp.Compile(s.Value); err != nil {
					rr = nStr(g.pick(c11patterns))
				}
			}
		}
		return nBin(o, l, rr)
	case r < 58:
		if g.rng.Intn(5) == 0 {
			return nElvis(g.tree(d-1, cl), g.sub(d-1, cl))
		}
		ch := []ast.Node{g.tree(d-1, cl), g.sub(d-1, cl), g.sub(d-1, cl)}
		g.rng.Shuffle(3, func(i, j int) { ch[i], ch[j] = ch[j], ch[i] })
		return nCond(ch[0], ch[1], ch[2])
	case r < 78:
		return g.chain(d, cl)
	case r < 83:
		return nCall(g.pick(c11funcs), g.subs(g.rng.Intn(4), d-1, cl)...)
	case r < 86:
		return nBuiltin("len", g.tree(d-1, cl))
	case r < 91:
		return nBuiltin(g.pick(c11Builtin2), g.sub(d-1, cl), nClosure(g.tree(d-1, true)))
	case r < 96:
		return nArr(g.subs(g.rng.Intn(4), d-1, cl)...)
	}
	n := g.rng.Intn(3)
	pairs := []ast.Node{}
	for i := 0; i < n; i++ {
		var k ast.Node
		switch g.rng.Intn(4) {
		case 0:
			k = g.sub(d-1, cl) // (expr) key
		case 1:
			k = nStr(strconv.Itoa(g.rng.Intn(50)))
		default:
			k = nStr(g.pick(append(c11strings, c11idents...)))
		}
		pairs = append(pairs, nPair(k, g.sub(d-1, cl)))
	}
	return nMap(pairs...)
}

// a postfix chain: base + steps, NilSafe flags derived from the intended text with the sticky rule
func (g *c11gen) chain(d int, cl bool) ast.Node {
	var node ast.Node
	bareIdent := false
	switch r := g.rng.Intn(10); {
	case r < 4:
		node = nId(g.pick(c11idents))
		bareIdent = true
	case r < 5 && cl:
		node = nPtr()
	default:
		node = g.tree(d-1, cl) // the printer parenthesises it when the grammar needs that
	}
	// a NilSafe identifier produced by a nested chain stays where it is: only OUR base is rewritten
	sticky := false
	steps := 1 + g.rng.Intn(4)
	for i := 0; i < steps; i++ {
		switch r := g.rng.Intn(12); {
		case r < 6: // .name ?.name .m() ?.m()
			q := g.rng.Intn(3) == 0
			if q {
				sticky = true
			}
			if bareIdent && q {
				node = nIdNS(node.(*ast.IdentifierNode).Value)
			}
			if r < 4 {
				node = &ast.PropertyNode{Node: node, Property: g.pick(c11props), NilSafe: sticky}
			} else {
				node = &ast.MethodNode{Node: node, Method: g.pick(c11props), Arguments: g.subs(g.rng.Intn(3), d-2, cl), NilSafe: sticky}
			}
		case r < 8:
			node = nIndex(node, g.sub(d-1, cl))
		case r < 11:
			var from, to ast.Node
			if g.rng.Intn(3) > 0 {
				from = g.sub(d-2, cl)
			}
			if g.rng.Intn(3) > 0 {
				to = g.sub(d-2, cl)
			}
			node = nSlice(node, from, to)
		default: // parenthesise the chain so far: stickiness restarts
			sticky = false
		}
		bareIdent = false
	}
	if _, ok := node.(*ast.IdentifierNode); ok { // only restarts were drawn
		return nProp(node, g.pick(c11props), false)
	}
	return node
}

func c11hasNSIdent(n ast.Node) bool {
	if id, ok := n.(*ast.IdentifierNode); ok && id.NilSafe {
		return true
	}
	for _, c := range c11children(n) {
		if c11hasNSIdent(c) {
			return true
		}
	}
	return false
}

// ---------------------------------------------------------------- running the real parser
var c11evals int64

func c11Parse(text string) (*parser.Tree, error) {
	atomic.AddInt64(&c11evals, 1)
	return parser.Parse(text)
}

func c11Lex(text string) ([]lexer.Token, error) { return lexer.Lex(file.NewSource(text)) }

func c11replayArg(text string) string {
	b, _ := json.Marshal(map[string]string{"text": text})
	return string(b)
}

type c11ctx struct {
	rep      *Report
	rng      *rand.Rand
	distinct map[string]bool // non-trivial texts of the tree families
	kinds    [22]int
	maxDepth int
	maxSeq   int
	coq      map[string]string // text -> family, inputs that become Coq cases
	coqOrder []string
	samples  map[string][]string
}

func (c *c11ctx) toCoq(family, text string) {
	if _, ok := c.coq[text]; !ok {
		c.coq[text] = family
		c.coqOrder = append(c.coqOrder, text)
	}
}

// a text of the sequence sweep?  (those are counted there)
func (c *c11ctx) isSeqText(text string) bool {
	parts := strings.Split(text, " ")
	if len(parts) > c.maxSeq {
		return false
	}
	for _, p := range parts {
		if _, ok := c11symIndex[p]; !ok {
			return false
		}
	}
	return true
}

// checkText: run the real parser on one spelling of tree t and judge it against t itself.
func (c *c11ctx) checkText(family, key, text string, tr c11tree, want string) bool {
	c.rep.hist("texts " + family)
	tree, err := c11Parse(text)
	got := ""
	ok := false
	if err != nil {
		got = "error: " + strings.SplitN(err.Error(), "\n", 2)[0]
		ok = tr.reject
	} else {
		got = dumpSexpr(tree.Node)
		ok = !tr.reject && got == want
		if d := c11stats(tree.Node, &c.kinds); d > c.maxDepth {
			c.maxDepth = d
		}
	}
	if !ok {
		if c11nonStdNotIn(text) {
			key = "C11-notin-spacing"
		}
		c.rep.fail(Failure{Key: key, What: "the real parser's tree differs from the tree this text was printed from (" + family + ")",
			Input: text, Want: want, Got: got, Replay: c11replayArg(text)})
	}
	// the reference parser must agree with the real one on every text
	toks, lerr := c11Lex(text)
	if lerr != nil {
		c.rep.hist("lexer_rejected")
	} else {
		ref, rok := c11RefParse(toks)
		rdump := "reject"
		if rok {
			rdump = dumpSexpr(ref)
		}
		real := "reject"
		if err == nil {
			real = got
		}
		if rdump != real {
			c.rep.fail(Failure{Key: "C11-ref-tree", What: "real parser and reference parser disagree (" + family + ")",
				Input: text, Want: rdump, Got: got, Replay: c11replayArg(text)})
		}
	}
	if !tr.reject && c11nontrivial(tr.t) && !c.isSeqText(text) {
		c.distinct[text] = true
	}
	if len(c.samples[family]) < 2 && len(text) < 60 && c11nontrivial(tr.t) && c.rep.Histogram["texts "+family]%7 == 3 {
		dup := false
		for _, s := range c.samples[family] {
			dup = dup || s == text
		}
		if !dup {
			c.samples[family] = append(c.samples[family], text)
		}
	}
	return ok
}

// runTree: all spellings of one tree.  Returns the texts.
func (c *c11ctx) runTree(family string, tr c11tree, dropCheck bool) []string {
	c.rep.hist("trees " + family)
	want := "reject"
	if !tr.reject {
		want = dumpSexpr(tr.t)
	}
	var texts []string
	minp := &c11printer{dropReq: -1}
	minToks := minp.pr(true, 0, 0, tr.t)
	sMin := c11join(minToks)
	texts = append(texts, sMin)
	c.checkText(family, "C11-roundtrip-min", sMin, tr, want)
	var anyToks [][]string
	for i := 0; i < 2; i++ {
		pp := &c11printer{rng: c.rng, extras: true, alt: true, dropReq: -1}
		toks := pp.pr(true, 0, 0, tr.t)
		anyToks = append(anyToks, toks)
		s := c11join(toks)
		texts = append(texts, s)
		c.checkText(family, "C11-roundtrip-parens", s, tr, want)
	}
	for _, toks := range [][]string{minToks, anyToks[c.rng.Intn(2)]} {
		s := c11joinWS(toks, c.rng)
		texts = append(texts, s)
		c.checkText(family, "C11-whitespace", s, tr, want)
	}
	if c11hasNotIn(minToks) && (family == "pairs" || c.rng.Intn(4) == 0) {
		for _, mode := range []int{c.rng.Intn(2), 2 + c.rng.Intn(2)} {
			s := c11joinNotIn(minToks, mode)
			c.checkText("notin-spacing", "C11-notin-spacing", s, tr, want)
			c.toCoq("notin-spacing", s)
		}
	}
	// a REQUIRED pair of parentheses must be required: leaving it out changes the tree
	if dropCheck && !tr.reject {
		for i := 0; i < minp.reqCount && i < c11DropParenPerTree; i++ {
			pp := &c11printer{dropReq: i}
			s := c11join(pp.pr(true, 0, 0, tr.t))
			c.rep.hist("required_paren_checked")
			tree, err := c11Parse(s)
			if err == nil && dumpSexpr(tree.Node) == want {
				c.rep.fail(Failure{Key: "C11-paren-not-required", What: "a parenthesis the rules call required can be left out without changing the tree",
					Input: s, Want: "a tree different from " + want + " (or rejection)", Got: want, Replay: c11replayArg(s)})
			}
		}
	}
	return texts
}

// ---------------------------------------------------------------- token sequences
var c11symbols = []string{"a", "1", "or", "==", "+", "*", "**", "not", "-", "(", ")", "[", "]", "{", "}", "?", ":", ",", ".", "?."}
var c11symIndex = func() map[string]int {
	m := map[string]int{}
	for i, s := range c11symbols {
		m[s] = i
	}
	return m
}()

func c11seqText(n int, idx int64) string {
	var d [8]int
	for i := n - 1; i >= 0; i-- {
		d[i] = int(idx % 20)
		idx /= 20
	}
	var b strings.Builder
	for i := 0; i < n; i++ {
		if i > 0 {
			b.WriteByte(' ')
		}
		b.WriteString(c11symbols[d[i]])
	}
	return b.String()
}

type c11chunk struct {
	accepted, rejected, nontrivial, lexRejected int
	kinds                                       [22]int
	maxDepth                                    int
	acc                                         []uint32 // accepted indices
	fails                                       []Failure
	failCount                                   map[string]int
}

// one sequence: real parser vs reference parser
func c11seqOne(n int, idx int64, ch *c11chunk) {
	text := c11seqText(n, idx)
	tree, err := c11Parse(text)
	toks, lerr := c11Lex(text)
	if lerr != nil {
		ch.lexRejected++
		if err == nil {
			panic("parser accepts what the lexer rejects: " + text)
		}
		ch.rejected++
		return
	}
	ref, rok := c11RefParse(toks)
	fail := func(key, what, want, got string) {
		ch.failCount[key]++
		if ch.failCount[key] <= 5 {
			ch.fails = append(ch.fails, Failure{Key: key, What: what, Input: text, Want: want, Got: got, Replay: c11replayArg(text)})
		}
	}
	if err != nil {
		ch.rejected++
		if rok {
			fail("C11-seq-rejects", "the real parser rejects a token sequence of the reference grammar", dumpSexpr(ref),
				"error: "+strings.SplitN(err.Error(), "\n", 2)[0])
		}
		return
	}
	ch.accepted++
	if n >= 4 {
		ch.acc = append(ch.acc, uint32(idx))
	}
	if d := c11stats(tree.Node, &ch.kinds); d > ch.maxDepth {
		ch.maxDepth = d
	}
	got := dumpSexpr(tree.Node)
	if !rok {
		fail("C11-seq-accepts", "the real parser accepts a token sequence that the reference grammar rejects", "reject", got)
		return
	}
	if want := dumpSexpr(ref); want != got {
		fail("C11-seq-tree", "real parser and reference parser build different trees", want, got)
	}
	if c11nontrivial(ref) {
		ch.nontrivial++
	}
}

func c11pow20(n int) int64 {
	r := int64(1)
	for i := 0; i < n; i++ {
		r *= 20
	}
	return r
}

// sweep all sequences of length n on all CPUs; chunks are merged in index order
func c11sweep(n int) []*c11chunk {
	total := c11pow20(n)
	const chunkSize = 160000
	nch := int((total + chunkSize - 1) / chunkSize)
	res := make([]*c11chunk, nch)
	var wg sync.WaitGroup
	jobs := make(chan int, nch)
	for i := 0; i < nch; i++ {
		jobs <- i
	}
	close(jobs)
	for w := 0; w < runtime.NumCPU(); w++ {
		wg.Add(1)
		go func() {
			defer wg.Done()
			for j := range jobs {
				ch := &c11chunk{failCount: map[string]int{}}
				lo, hi := int64(j)*chunkSize, int64(j+1)*chunkSize
				if hi > total {
					hi = total
				}
				for idx := lo; idx < hi; idx++ {
					c11seqOne(n, idx, ch)
				}
				res[j] = ch
			}
		}()
	}
	wg.Wait()
	return res
}

// ---------------------------------------------------------------- Coq cases
// mkCase <tokens> <floats> <badre> <obs>; ok=false when the LEXER rejects the text
func c11CoqCase(text string) (string, bool) {
	toks, lerr := c11Lex(text)
	if lerr != nil {
		return "", false
	}
	var floats, badre []string
	seenF, seenR := map[string]bool{}, map[string]bool{}
	for _, t := range toks {
		switch t.Kind {
		case lexer.Number:
			v := strings.Replace(t.Value, "_", "", -1)
			if strings.ContainsAny(v, "xX") || !strings.ContainsAny(v, ".eE") || seenF[v] {
				continue
			}
			if f, err := strconv.ParseFloat(v, 64); err == nil {
				seenF[v] = true
				floats = append(floats, "("+cqStr(v)+", "+coqFloat(f)+")")
			}
		case lexer.String:
			if seenR[t.Value] {
				continue
			}
			if _, err := regexp.Compile(t.Value); err != nil {
				seenR[t.Value] = true
				badre = append(badre, cqStr(t.Value))
			}
		}
	}
	tree, err := c11Parse(text)
	obs := ""
	if err != nil {
		fe, ok := err.(*file.Error)
		if !ok {
			panic(fmt.Sprintf("parser.Parse returned a %T, not a *file.Error, for %q", err, text))
		}
		obs = "(OErr " + coqLoc(fe.Location) + ")"
	} else {
		obs = "(OTree " + cqExpr(tree.Node) + ")"
	}
	line := "mkCase " + coqTokensShort(toks) + " [" + strings.Join(floats, "; ") + "] [" + strings.Join(badre, "; ") + "] " + obs
	if strings.ContainsAny(line, "\n\r") {
		panic("newline in a case line")
	}
	return line, true
}

var c11fixedInputs = []string{"1 +", "(1", "a.", "a ? b", "[1,,2]", "{a:1,,}", "f(1,)", `"a" matches "[a"`, "0x", "1e", "#", ".a",
	"all(a, {#}) + #", "nil.a", `"s"[0]`, "-1 .a", "1 .a", "{(a).b: 1}", "a ?: b", "a?.b.c", "(a?.b).c", "a[1:][:2][:]",
	"not a in b", "a not in b", "- - a", "2 ** 3 ** 4", "-2 ** 2", "not a == b", "a ? b : c ? d : e", "a ? b ? c : d : e",
	"a?.b[0].c", "a?.b.c?.d.e", "(a?.b[0]).c", "a?.b.m().c", "a?.b", "(a)?.b", "a ?.b", "a?.b?.c", "all(a, {.x})", "all(a, {#.x})",
	"all(a, {all(#, {.y + #})})", "a.not", "a.in", "a.not in b", "{in: 1}", "{1: 2, foo: 3, \"k\": 4,}", "[1, 2,]", "[,]", "{,}",
	"f(, 1)", "len(a, b)", "len()", "all(a)", "all(a, b)", "all(a, {#},)", "true.a", "true(1)", "a b", "a ? : b", "a ? b :",
	"a matches b matches c", `a matches "x" + "y"`, `a matches ("[a")`, "1..2", "1 .. 2", "1e3 + .5", "1_000.5", "0x1F", "0X1f", "0x1e",
	"9223372036854775807", "9223372036854775808", "0x8000000000000000", "1e999", "0b11", "0o17", "017", "1__0", "a[", "a[:", "a[1", "a[1:",
	"a[]", "a[:]", "a.b(", "a.1", "a.(b)", "a?.", "a ?. b . c", "a\n+\nb", "a +\n", "\"ü\" + ü", "{\"a\": 1}.a", "[1][0]", "(1).a", "f()()", "f().a()[1]",
	"1 not\tin [1]", "1 not in[1]", "1 not in [1]", "1 not  in [1]", "not not a", "not in", "a in in", "! a", "!a", "!!a", "a ** -b", "a ** - b ** c",
	"-a ** b", "not a ** b", "not a * b", "not a + b", "- a . b", "-a.b", "- a [ 1 ]", "+ - + a",
	// word operators where a member NAME is expected (a name is an identifier token; the two-word operator is one operator token)
	"a.not in", "a.not in (b)", "a?.not in", "a.not  in", "a.not in == 1", "a.not in.b", "a.not in [1]", "a.in (b)", "a.not (b)", "a.matches", "a.contains (b)", "a.and", "a?.or (1)",
	"a.not in ? 1 : 2", "f(a.not in)", "[a.not in]", "{k: a.not in}", "all(a, {.not in})", "a.not\tin", "a . not in"}

// ---------------------------------------------------------------- replay
func c11Replay(arg string) {
	var in struct {
		Text string `json:"text"`
	}
	if err := json.Unmarshal([]byte(arg), &in); err != nil {
		fmt.Fprintln(os.Stderr, "replay: expected {\"text\": \"...\"}:", err)
		os.Exit(2)
	}
	fmt.Printf("text: %q\n", in.Text)
	tree, err := parser.Parse(in.Text)
	real := "reject"
	if err != nil {
		fmt.Println("real parser: error:", strings.SplitN(err.Error(), "\n", 2)[0])
	} else {
		real = dumpSexpr(tree.Node)
		fmt.Println("real parser:", real)
	}
	ref := "reject"
	toks, lerr := c11Lex(in.Text)
	if lerr != nil {
		fmt.Println("lexer: error:", strings.SplitN(lerr.Error(), "\n", 2)[0])
	} else {
		var ts []string
		for _, t := range toks {
			ts = append(ts, t.String())
		}
		fmt.Println("tokens:", strings.Join(ts, " "))
		if n, ok := c11RefParse(toks); ok {
			ref = dumpSexpr(n)
		}
	}
	fmt.Println("reference parser:", ref)
	if real != ref {
		fmt.Println("verdict: DISAGREE")
		os.Exit(1)
	}
	fmt.Println("verdict: agree")
}

// ---------------------------------------------------------------- number spellings
func c11genNumSpellings() []c11tree {
	type sp struct {
		text string
		mk   func() ast.Node
	}
	f := func(v float64) func() ast.Node { return func() ast.Node { return nFloat(v) } }
	i := func(v int) func() ast.Node { return func() ast.Node { return nInt(v) } }
	sps := []sp{{"1e3", f(1000)}, {".5", f(0.5)}, {"1_000.5", f(1000.5)}, {"0x1F", i(31)}, {"0X1f", i(31)}, {"0x1e", i(30)},
		{"1_000", i(1000)}, {"1E3", f(1000)}, {"1e+3", f(1000)}, {"1.5e-3", f(0.0015)}, {"0.5", f(0.5)}, {"1.0", f(1)},
		{"0xe", i(14)}, {"0xE1", i(225)}, {"1_0e1_0", f(1e11)}, {"007", i(7)}}
	var out []c11tree
	for _, s := range sps {
		lit := func() ast.Node {
			n := s.mk()
			c11numSpelling[n] = s.text
			return n
		}
		for _, t := range []ast.Node{lit(), nBin("+", lit(), nInt(1)), nUn("-", lit()), nArr(lit(), lit()), nBin("**", lit(), lit()),
			nBin("..", lit(), nInt(2)), nIndex(nId("a"), lit()), nBin("*", nBin("-", lit(), lit()), lit())} {
			out = append(out, c11tree{t: t})
		}
	}
	return out
}

// ---------------------------------------------------------------- the command
func runC11() {
	if *replay != "" {
		c11Replay(*replay)
		return
	}
	rep := newReport("C11")
	rng := rand.New(rand.NewSource(*seed))
	thorough := *tier == "thorough"
	c := &c11ctx{rep: rep, rng: rng, distinct: map[string]bool{}, coq: map[string]string{}, samples: map[string][]string{}}
	c.maxSeq = 5
	if thorough {
		c.maxSeq = 6
	}

	// ---- (i) trees
	var pairTexts []string
	for _, tr := range c11genPairs() {
		pairTexts = append(pairTexts, c.runTree("pairs", tr, true)...)
	}
	if thorough || len(pairTexts) <= c11CoqPairsQuick {
		for _, s := range pairTexts {
			c.toCoq("pairs", s)
		}
	} else {
		for _, i := range rng.Perm(len(pairTexts))[:c11CoqPairsQuick] {
			c.toCoq("pairs", pairTexts[i])
		}
	}
	for _, tr := range c11genBadRe() {
		for _, s := range c.runTree("bad-pattern", tr, false) {
			c.toCoq("bad-pattern", s)
		}
	}
	for _, tr := range c11genNumSpellings() {
		for _, s := range c.runTree("number-spelling", tr, false) {
			c.toCoq("number-spelling", s)
		}
	}
	// the known finding is reproduced on every run
	notin := c11tree{t: nBin("not in", nInt(1), nArr(nInt(1)))}
	for _, s := range []string{"1 not\tin [1]", "1 not in[1]", "1 not\nin [1]", "1 not in\t[1]"} {
		c.checkText("notin-spacing", "C11-notin-spacing", s, notin, dumpSexpr(notin.t))
		c.toCoq("notin-spacing", s)
	}
	var pool []string // texts of the big families, sampled for Coq
	small, deep := c11genDepth3()
	rep.Histogram["depth3 enumeration size"] = len(small) + len(deep)
	if len(small)+len(deep) > c11Depth3Cap {
		panic("depth<=3 enumeration exceeds the cap")
	}
	for _, t := range small {
		pool = append(pool, c.runTree("depth<=3", c11tree{t: t}, true)...)
	}
	if thorough || len(deep) <= c11Depth3SampleQuick {
		for _, t := range deep {
			pool = append(pool, c.runTree("depth<=3", c11tree{t: t}, true)...)
		}
	} else {
		for _, i := range rng.Perm(len(deep))[:c11Depth3SampleQuick] {
			pool = append(pool, c.runTree("depth<=3", c11tree{t: deep[i]}, true)...)
		}
	}
	nrand := c11RandomQuick
	if thorough {
		nrand = c11RandomThorough
	}
	g := &c11gen{rng: rng}
	var nsTrees []ast.Node
	for i := 0; i < nrand; i++ {
		t := g.tree(4+rng.Intn(4), false)
		pool = append(pool, c.runTree("random", c11tree{t: t}, true)...)
		if len(nsTrees) < 60 && c11hasNSIdent(t) && len(c11printMin(t)) < 40 {
			nsTrees = append(nsTrees, t)
		}
	}
	// redundant parentheses around an identifier that is directly followed by `?.` (known finding:
	// IdentifierNode.NilSafe depends on the next TOKEN)
	nsTrees = append([]ast.Node{nProp(nId("a"), "b", true), nMethod(nId("a"), "m", true), nBin("+", nProp(nId("a"), "b", true), nInt(1))}, nsTrees...)
	for _, t := range nsTrees {
		pp := &c11printer{dropReq: -1, wrapNSIdent: true}
		s := c11join(pp.pr(true, 0, 0, t))
		rep.hist("trees paren-nilsafe-ident")
		c.checkText("paren-nilsafe-ident", "C11-paren-nilsafe-ident", s, c11tree{t: t}, dumpSexpr(t))
		c.toCoq("paren-nilsafe-ident", s)
		c.toCoq("paren-nilsafe-ident", c11join(c11printMin(t)))
	}
	ncoq := c11CoqTreeTextsQuick
	if thorough {
		ncoq = c11CoqTreeTextsThor
	}
	for i := 0; i < ncoq && len(pool) > 0; i++ {
		c.toCoq("trees-sample", pool[rng.Intn(len(pool))])
	}
	for _, s := range c11fixedInputs {
		c.toCoq("fixed", s)
	}
	// the hand-written probes are also judged like the swept sequences: real parser against the reference grammar on the tokens
	// the real lexer produces (acceptance and tree)
	for _, text := range c11fixedInputs {
		tree, err := c11Parse(text)
		toks, lerr := c11Lex(text)
		rep.Evaluations++
		rep.hist("hand-written probe judged against the reference grammar")
		if lerr != nil {
			continue
		}
		ref, rok := c11RefParse(toks)
		switch {
		case err != nil && rok:
			if !c13NotInSpacing(text) {
				rep.fail(Failure{Key: "C11-seq-rejects", What: "the real parser rejects a probe of the reference grammar", Input: text, Want: dumpSexpr(ref), Got: "error: " + strings.SplitN(err.Error(), "\n", 2)[0], Replay: c11replayArg(text)})
			}
		case err == nil && !rok:
			key := "C11-seq-accepts"
			switch {
			case strings.Contains(text, "?:"):
				key = "C11-elvis-undocumented"
			case strings.Contains(text, "{("):
				key = "C11-open-paren-key"
			case text == "-1 .a" || text == "-1 .x" || strings.HasPrefix(text, "- \"a\"") || text == "not a * 1 .b":
				key = "C11-literal-postfix-after-unary"
			}
			rep.fail(Failure{Key: key, What: "the real parser accepts a probe that the reference grammar rejects", Input: text, Want: "reject", Got: dumpSexpr(tree.Node), Replay: c11replayArg(text)})
		case err == nil && rok && dumpSexpr(ref) != dumpSexpr(tree.Node):
			if !strings.Contains(text, "?.") {
				rep.fail(Failure{Key: "C11-seq-tree", What: "real parser and reference parser build different trees for a probe", Input: text, Want: dumpSexpr(ref), Got: dumpSexpr(tree.Node), Replay: c11replayArg(text)})
			}
		}
	}

	// ---- (ii) token sequences
	accByLen := map[int][]uint32{}
	seqNontrivial := 0
	for n := 1; n <= c.maxSeq; n++ {
		acc, rej := 0, 0
		for _, ch := range c11sweep(n) {
			acc += ch.accepted
			rej += ch.rejected
			seqNontrivial += ch.nontrivial
			rep.Histogram["lexer_rejected"] += ch.lexRejected
			for i, k := range ch.kinds {
				c.kinds[i] += k
			}
			if ch.maxDepth > c.maxDepth {
				c.maxDepth = ch.maxDepth
			}
			accByLen[n] = append(accByLen[n], ch.acc...)
			keys := make([]string, 0, len(ch.failCount))
			for k := range ch.failCount {
				keys = append(keys, k)
			}
			sort.Strings(keys)
			for _, f := range ch.fails {
				rep.fail(f)
			}
			for _, k := range keys { // failures beyond the recorded ones are still counted
				extra := ch.failCount[k]
				for _, f := range ch.fails {
					if f.Key == k {
						extra--
					}
				}
				rep.Histogram["oracle_failures"] += extra
				rep.Histogram["fail "+k] += extra
			}
		}
		rep.Histogram[fmt.Sprintf("seq len %d accepted", n)] = acc
		rep.Histogram[fmt.Sprintf("seq len %d rejected", n)] = rej
	}
	for n := 1; n <= 2; n++ {
		for idx := int64(0); idx < c11pow20(n); idx++ {
			c.toCoq("seq<=2", c11seqText(n, idx))
		}
	}
	if thorough {
		for idx := int64(0); idx < c11pow20(3); idx++ {
			c.toCoq("seq3", c11seqText(3, idx))
		}
	} else {
		acc3 := map[uint32]bool{}
		for _, idx := range accByLen[3] {
			acc3[idx] = true
			c.toCoq("seq3-accepted", c11seqText(3, int64(idx)))
		}
		for got, tries := 0, 0; got < c11CoqSeq3RejQuick && tries < 50*c11CoqSeq3RejQuick; tries++ {
			idx := rng.Int63n(c11pow20(3))
			if !acc3[uint32(idx)] {
				c.toCoq("seq3-rejected", c11seqText(3, idx))
				got++
			}
		}
	}
	for _, idx := range accByLen[4] {
		c.toCoq("seq4-accepted", c11seqText(4, int64(idx)))
	}
	nAcc, nRej := c11CoqSeqAccQuick, c11CoqSeqRejQuick
	if thorough {
		nAcc, nRej = c11CoqSeqAccThor, c11CoqSeqRejThor
	}
	for n := 5; n <= c.maxSeq; n++ {
		a := accByLen[n]
		if len(a) <= nAcc {
			for _, idx := range a {
				c.toCoq(fmt.Sprintf("seq%d-accepted", n), c11seqText(n, int64(idx)))
			}
		} else {
			for _, i := range rng.Perm(len(a))[:nAcc] {
				c.toCoq(fmt.Sprintf("seq%d-accepted", n), c11seqText(n, int64(a[i])))
			}
		}
	}
	for n := 4; n <= c.maxSeq; n++ {
		accSet := map[uint32]bool{}
		for _, idx := range accByLen[n] {
			accSet[idx] = true
		}
		total := c11pow20(n)
		for got, tries := 0, 0; got < nRej && tries < 50*nRej; tries++ {
			idx := rng.Int63n(total)
			if !accSet[uint32(idx)] {
				c.toCoq(fmt.Sprintf("seq%d-rejected", n), c11seqText(n, idx))
				got++
			}
		}
	}

	// ---- (b) Coq cases
	var cases []string
	for _, text := range c.coqOrder {
		line, ok := c11CoqCase(text)
		if !ok {
			rep.hist("coq skipped (lexer rejects)")
			continue
		}
		rep.hist("coq " + c.coq[text])
		cases = append(cases, line)
	}

	// ---- report
	rep.Evaluations = int(atomic.LoadInt64(&c11evals))
	rep.Distinct = len(c.distinct) + seqNontrivial
	rep.Histogram["nontrivial tree-family texts"] = len(c.distinct)
	rep.Histogram["nontrivial sequences"] = seqNontrivial
	rep.Histogram["max depth of a parsed tree"] = c.maxDepth
	for i, k := range c.kinds {
		rep.Histogram["node "+c11KindNames[i]] = k
	}
	rep.Exhaustive = true
	rep.Rule = fmt.Sprintf("EXHAUSTIVE: (1) every token sequence of length 1..%d over the 20 symbols `a 1 or == + * ** not - ( ) [ ] { } ? : , . ?.` "+
		"(real parser vs a reference parser written from the property's grammar: both reject or equal trees); (2) the PAIRS family: every ordered pair of the 23 binary "+
		"operators in both nestings, every unary x binary / unary x unary / operator x conditional / conditional x conditional / operator x postfix nesting. "+
		"%s: all trees of depth <= 3 over a reduced alphabet (atoms a 1; not -; or and == .. + * **; conditional; .p ?.p; [ ]; [ : ]; .m( ); f( ) with 0..2 args; len; all(x,{..}); "+
		"arrays and maps of 0..2), where a node with three children or two list elements takes at most ONE child of depth 2 and atoms otherwise (%d trees, cap %d). "+
		"SAMPLED (seeded): %d random trees of depth 4..7 over all node kinds, operator spellings, literal kinds and nil-safe chains; whitespace and redundant-parenthesis variants. "+
		"Every tree is printed minimally, twice with redundant parentheses / alternative spellings and twice with random whitespace, parsed by the real parser and compared with the "+
		"tree it was printed from; every parenthesis the rules call required is also left out once (the tree must change). "+
		"distinct_nontrivial counts distinct input texts whose expected (reference) tree has an operator node (unary, binary, matches, conditional, property, method, index, slice) "+
		"with an OPERAND (operand, condition/branch, or chain base; not bracketed arguments) that is itself such a node; rejected inputs and single-operator inputs are not counted. "+
		"Coq cases: all sequences of length <= 2, all accepted sequences of length 3 and 4, seeded samples of the PAIRS texts and of the rest (tier thorough: all PAIRS texts and all sequences of length <= 3).",
		c.maxSeq, map[bool]string{true: "EXHAUSTIVE", false: fmt.Sprintf("SAMPLED in tier quick (%d by seeded index; exhaustive in tier thorough)", c11Depth3SampleQuick)}[thorough || len(deep) <= c11Depth3SampleQuick],
		len(small)+len(deep), c11Depth3Cap, nrand)
	fams := make([]string, 0, len(c.samples))
	for f := range c.samples {
		fams = append(fams, f)
	}
	sort.Strings(fams)
	for _, f := range fams {
		for _, s := range c.samples[f] {
			if len(rep.Samples) < 10 {
				rep.Samples = append(rep.Samples, s)
			}
		}
	}
	rep.writeShards("cases_c11", "From Coq Require Import ZArith List String Ascii Floats.\nRequire Import X.Base.Num X.Base.Value X.Syn.Ast X.Syn.Tok X.Parse.Parser X.Corr.CorrC11.\nImport ListNotations.\nOpen Scope Z_scope.\nOpen Scope string_scope.\n",
		"c11case", "c11_mismatches", cases)
	// the verdict of parser.Parse must not depend on what was parsed before: inputs that fail INSIDE a construct
	// (an open closure, call, index, map ...) followed by inputs that are only valid inside that construct
	{
		poison := []string{"all(a, {1)", "filter(a, {# > 1", "map(a, {.x]", "count(a, {#", "f(1, ", "a[1", "{a: 1", "[1, 2", "(1 + ", "a ? b", "all(a, {any(b, {#)})", "none(a, {#}", `"abc`}
		probes := []string{"# > 1", ".x", "#", "all(a, {#}) and #", "# + .y", "1 + #", "[#]", "{a: #}", "f(#)", "a[#]", "# ? 1 : 2"}
		for _, po := range poison {
			for _, pr := range probes {
				rep.Evaluations += 2
				_, _ = parser.Parse(po)
				if _, err := parser.Parse(pr); err == nil {
					rep.fail(Failure{Key: "C11-history-dependent", What: "a pointer (#, .name) outside every closure is accepted after an earlier, failed parse of another input",
						Input: map[string]string{"parsed before": po, "input": pr}, Want: "rejected (as in a fresh process)", Got: "accepted"})
				}
			}
		}
		for _, ok := range []string{"all(a, {# > 1})", "1 + 2", "a ? b : c", "f(1)[2].x"} {
			for _, po := range poison {
				_, _ = parser.Parse(po)
				if _, err := parser.Parse(ok); err != nil {
					rep.fail(Failure{Key: "C11-history-dependent", What: "a valid input is rejected after an earlier, failed parse of another input",
						Input: map[string]string{"parsed before": po, "input": ok}, Want: "accepted", Got: err.Error()})
				}
			}
		}
	}
	// token sequences the pinned parser accepts although no tree of the documented grammar prints to them (found by the
	// proof of C11_parse_sound: they are exactly the `poison` shapes its scope predicate excludes)
	for _, f := range []struct{ key, src, why string }{
		{"C11-literal-postfix-after-unary", `- "a" . b`, "a postfix chain after a LITERAL operand of a unary operator is applied to the unary node: (-\"a\").b, while `- a . b` is -(a.b)"},
		{"C11-literal-postfix-after-unary", "not a * 1 .b", "the postfix chain after the literal 1 is applied to the whole `not a * 1`"},
		{"C11-literal-postfix-after-unary", "-1 .x", "(-1).x"},
		{"C11-elvis-undocumented", "a ?: b", "the conditional with omitted middle operand is accepted (tree: a ? a : b, a is compiled twice); docs/Language-Definition.md has no such form"},
		{"C11-open-paren-key", "{(a).b: 1}", "a map key that STARTS with ( is parsed as an arbitrary expression, not as one parenthesised expression"},
		{"C11-open-paren-key", "{(a)+1: 1}", "same"},
	} {
		rep.Evaluations++
		if _, err := parser.Parse(f.src); err == nil {
			rep.fail(Failure{Key: f.key, What: "accepted although the reference grammar (the image of the printer) assigns no tree: " + f.why, Input: f.src,
				Want: "rejected, or the tree of a printing", Got: "accepted"})
		}
	}
	rep.write()
}

var _ = utf8.RuneError

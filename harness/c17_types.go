package main

// Environment universe of C17 (operator overloading): value types with overload functions, given
// as struct fields, as members of a map environment and as methods of the environment (whose
// reflect type has the receiver as first input).  Every function logs its call (callLog of
// universe.go); the log is an observable.  Also here: Go type -> Coq `ty` for this universe
// (an interface type with methods is `TNamed name TIface`, kind Interface).

import (
	"fmt"
	"math/rand"
	"reflect"
	"sort"
	"strings"
)

type Money struct{ V int }

func (m Money) String() string { return fmt.Sprintf("$%d", m.V) }

// Plus is a method of the VALUE type (a method-call position for arguments), not an operator function.
func (m Money) Plus(b Money) Money { logCall("Money.Plus", m, b); return Money{m.V + b.V} }

type Dur int64

func (d Dur) String() string { return fmt.Sprintf("%dns", int64(d)) }

type C17Label string // implements nothing

// two embedded structs providing the same member: conf.FieldsFromStruct marks it ambiguous
type C17AmbA struct{ Amb func(a, b Money) Money }
type C17AmbB struct{ Amb func(a, b Money) Money }

type C17Env struct {
	C17AmbA
	C17AmbB

	A, B, C Money
	D, E    Dur
	L       C17Label
	I, J    int
	S, T    string
	Ok, No  bool
	Ms, Ns  []Money
	Ds      []Dur
	Xs, Ys  []int
	MM      map[string]Money
	St      fmt.Stringer // static type is the interface itself

	// operator functions: struct fields
	Add     func(a, b Money) Money
	AddInt  func(a Money, b int) Money
	IntAdd  func(a int, b Money) Money
	AddDur  func(a, b Dur) Dur
	AddSM   func(a fmt.Stringer, b Money) Money
	AddAny  func(a, b interface{}) interface{}
	Sub     func(a, b Money) Money
	Mul     func(a Money, b int) Money
	Concat  func(a, b []int) []int
	Join    func(a, b []Money) []Money
	StrCat  func(a, b string) string
	IntPlus func(a, b int) int
	Eq      func(a, b fmt.Stringer) bool
	EqMD    func(a Money, b Dur) bool
	EqMM    func(a, b Money) bool
	Ne      func(a, b fmt.Stringer) bool
	Less    func(a, b Money) bool
	LessS   func(a, b fmt.Stringer) bool
	Has     func(a Money, b []Money) bool
	Boom    func(a, b Money) Money

	// helpers the expressions call explicitly
	Id    func(a Money) Money
	Val   func(a Money) int
	Mk    func(v int) Money
	First func(xs []Money) Money
	Two   func(a, b Money) []Money
	Show  func(a fmt.Stringer) string
	Pack  func(xs ...interface{}) interface{} // the "fast" call shape: arguments are not checked against parameter types

	// ill-shaped operator targets
	NotFunc   int
	OneArg    func(a Money) Money
	ThreeArgs func(a, b, c Money) Money
	TwoOut    func(a, b Money) (Money, bool)
	NoOut     func(a, b Money)
}

// methods of the environment: reflect lists them with the receiver as first input
func (e C17Env) MAdd(a, b Money) Money { logCall("MAdd", a, b); return Money{a.V + b.V} }
func (e C17Env) MEq(a, b fmt.Stringer) bool {
	logCall("MEq", a, b)
	return a.String() == b.String()
}
func (e *C17Env) PSub(a, b Money) Money           { logCall("PSub", a, b); return Money{a.V - b.V} }
func (e C17Env) MOne(a Money) Money               { logCall("MOne", a); return a }         // NumIn == 2 with the receiver
func (e C17Env) MThree(a, b, c Money) Money       { logCall("MThree", a, b, c); return a } // NumIn == 4
func (e C17Env) MTwoOut(a, b Money) (Money, bool) { logCall("MTwoOut", a, b); return a, true }

func c17Install(e *C17Env) {
	e.C17AmbA.Amb = func(a, b Money) Money { return a }
	e.C17AmbB.Amb = func(a, b Money) Money { return b }
	e.Add = func(a, b Money) Money { logCall("Add", a, b); return Money{a.V + b.V} }
	e.AddInt = func(a Money, b int) Money { logCall("AddInt", a, b); return Money{a.V + b} }
	e.IntAdd = func(a int, b Money) Money { logCall("IntAdd", a, b); return Money{a + b.V} }
	e.AddDur = func(a, b Dur) Dur { logCall("AddDur", a, b); return a + b }
	e.AddSM = func(a fmt.Stringer, b Money) Money { logCall("AddSM", a, b); return Money{len(a.String()) + b.V} }
	e.AddAny = func(a, b interface{}) interface{} { logCall("AddAny", a, b); return fmt.Sprint(a, "+", b) }
	e.Sub = func(a, b Money) Money { logCall("Sub", a, b); return Money{a.V - b.V} }
	e.Mul = func(a Money, b int) Money { logCall("Mul", a, b); return Money{a.V * b} }
	e.Concat = func(a, b []int) []int { logCall("Concat", a, b); return append(append([]int{}, a...), b...) }
	e.Join = func(a, b []Money) []Money { logCall("Join", a, b); return append(append([]Money{}, a...), b...) }
	e.StrCat = func(a, b string) string { logCall("StrCat", a, b); return a + "|" + b }
	e.IntPlus = func(a, b int) int { logCall("IntPlus", a, b); return a + b + 1000 }
	e.Eq = func(a, b fmt.Stringer) bool { logCall("Eq", a, b); return a.String() == b.String() }
	e.EqMD = func(a Money, b Dur) bool { logCall("EqMD", a, b); return int64(a.V) == int64(b) }
	e.EqMM = func(a, b Money) bool { logCall("EqMM", a, b); return a.V == b.V }
	e.Ne = func(a, b fmt.Stringer) bool { logCall("Ne", a, b); return a.String() != b.String() }
	e.Less = func(a, b Money) bool { logCall("Less", a, b); return a.V < b.V }
	e.LessS = func(a, b fmt.Stringer) bool { logCall("LessS", a, b); return a.String() < b.String() }
	e.Has = func(a Money, b []Money) bool {
		logCall("Has", a, b)
		for _, x := range b {
			if x == a {
				return true
			}
		}
		return false
	}
	e.Boom = func(a, b Money) Money { logCall("Boom", a, b); panic("boom") }
	e.Id = func(a Money) Money { logCall("Id", a); return a }
	e.Val = func(a Money) int { logCall("Val", a); return a.V }
	e.Mk = func(v int) Money { logCall("Mk", v); return Money{v} }
	e.First = func(xs []Money) Money {
		logCall("First", xs)
		if len(xs) == 0 {
			return Money{}
		}
		return xs[0]
	}
	e.Two = func(a, b Money) []Money { logCall("Two", a, b); return []Money{a, b} }
	e.Pack = func(xs ...interface{}) interface{} { logCall("Pack", xs...); return append([]interface{}{}, xs...) }
	e.Show = func(a fmt.Stringer) string { logCall("Show", a); return a.String() }
	e.OneArg = func(a Money) Money { return a }
	e.ThreeArgs = func(a, b, c Money) Money { return a }
	e.TwoOut = func(a, b Money) (Money, bool) { return a, true }
	e.NoOut = func(a, b Money) {}
}

func c17BaseEnv() *C17Env {
	e := &C17Env{
		A: Money{1}, B: Money{2}, C: Money{5}, D: Dur(2), E: Dur(40), L: "lbl", I: 3, J: -1, S: "ab", T: "c", Ok: true, No: false,
		Ms: []Money{{1}, {2}, {7}}, Ns: []Money{{4}, {1}}, Ds: []Dur{1, 2}, Xs: []int{1, 2, 3}, Ys: []int{9, 8},
		MM: map[string]Money{"k": {11}, "z": {0}}, St: Dur(7),
	}
	c17Install(e)
	return e
}

func c17RandomEnv(rng *rand.Rand) *C17Env {
	m := func() Money { return Money{rng.Intn(7) - 2} }
	e := &C17Env{A: m(), B: m(), C: m(), D: Dur(rng.Intn(5)), E: Dur(rng.Intn(50)), L: C17Label(strPool[rng.Intn(len(strPool))]),
		I: rng.Intn(6) - 1, J: rng.Intn(4), S: strPool[rng.Intn(len(strPool))], T: strPool[rng.Intn(len(strPool))],
		Ok: rng.Intn(2) == 0, No: rng.Intn(2) == 0, MM: map[string]Money{"k": m()}}
	for i := rng.Intn(4); i >= 0; i-- {
		e.Ms = append(e.Ms, m())
	}
	for i := rng.Intn(3); i >= 0; i-- {
		e.Ns = append(e.Ns, m())
	}
	for i := rng.Intn(3); i > 0; i-- {
		e.Ds = append(e.Ds, Dur(rng.Intn(9)))
	}
	for i := rng.Intn(4); i >= 0; i-- {
		e.Xs = append(e.Xs, rng.Intn(9))
	}
	for i := rng.Intn(3); i > 0; i-- {
		e.Ys = append(e.Ys, rng.Intn(9))
	}
	if rng.Intn(3) > 0 {
		e.St = m()
	}
	c17Install(e)
	return e
}

// the environment in its three shapes: struct value, pointer to the struct (pointer-receiver
// methods become members), map[string]interface{} with the exported fields as members
func c17EnvAs(e *C17Env, kind string) interface{} {
	switch kind {
	case "struct":
		return *e
	case "ptr":
		return e
	}
	m := map[string]interface{}{}
	v := reflect.ValueOf(*e)
	t := v.Type()
	for i := 0; i < t.NumField(); i++ {
		f := t.Field(i)
		if f.Anonymous {
			continue
		}
		if f.Type.Kind() == reflect.Interface && v.Field(i).IsNil() {
			continue // a nil member has no type in a map environment
		}
		m[f.Name] = v.Field(i).Interface()
	}
	return m
}

var c17EnvKinds = []string{"struct", "ptr", "map"}

// ---------------- Go type -> Coq ty ----------------
func c17Ty(t reflect.Type) string {
	if t == nil {
		return "TNilT"
	}
	if t.Kind() == reflect.Interface {
		if t.NumMethod() == 0 && t.Name() == "" {
			return "TIface"
		}
		return "(TNamed " + cqStr(t.String()) + " TIface)"
	}
	if t.Name() != "" && t.PkgPath() != "" && t.Kind() != reflect.Struct {
		return fmt.Sprintf("(TNamed %s %s)", cqStr(t.String()), c17Under(t))
	}
	return c17Under(t)
}

func c17Under(t reflect.Type) string {
	switch t.Kind() {
	case reflect.Bool:
		return "TBool"
	case reflect.String:
		return "TString"
	case reflect.Slice:
		return "(TSlice " + c17Ty(t.Elem()) + ")"
	case reflect.Map:
		return "(TMap " + c17Ty(t.Key()) + " " + c17Ty(t.Elem()) + ")"
	case reflect.Ptr:
		return "(TPtr " + c17Ty(t.Elem()) + ")"
	case reflect.Struct:
		return "(TStruct " + cqStr(t.String()) + ")"
	case reflect.Func:
		var ins, outs []string
		for i := 0; i < t.NumIn(); i++ {
			ins = append(ins, c17Ty(t.In(i)))
		}
		for i := 0; i < t.NumOut(); i++ {
			outs = append(outs, c17Ty(t.Out(i)))
		}
		return fmt.Sprintf("(TFunc [%s] %s [%s])", strings.Join(ins, "; "), cqBool(t.IsVariadic()), strings.Join(outs, "; "))
	}
	if k, ok := numKindCoq[t.Kind()]; ok {
		return "(TNum " + k + ")"
	}
	return "(TOpaque " + cqStr(t.String()) + ")"
}

func c17SortedKeys(m map[string]bool) []string {
	ks := make([]string, 0, len(m))
	for k := range m {
		ks = append(ks, k)
	}
	sort.Strings(ks)
	return ks
}

package main

// Core correspondence: the compile pipeline of expr.Compile replicated step by step (so that the
// tree the compiler actually compiles can be serialised), vm.Run on the environment universe,
// and the case files for coq/Corr/CorrCore.v.

import (
	"fmt"
	"math"
	"math/rand"
	"reflect"
	"regexp"
	"sort"
	"strings"
	"time"

	"github.com/antonmedv/expr"
	"github.com/antonmedv/expr/ast"
	"github.com/antonmedv/expr/checker"
	"github.com/antonmedv/expr/compiler"
	"github.com/antonmedv/expr/conf"
	"github.com/antonmedv/expr/file"
	"github.com/antonmedv/expr/optimizer"
	"github.com/antonmedv/expr/parser"
	"github.com/antonmedv/expr/vm"
)

type coreMode struct {
	Name     string
	Typed    bool // expr.Env(sample)
	Optimize bool
	Cast     string // "", "int64", "float64", "bool"
}

var modeUntyped = coreMode{"untyped", false, false, ""}
var modeTyped = coreMode{"typed", true, false, ""}
var modeTypedOpt = coreMode{"typed+opt", true, true, ""}
var modeUntypedOpt = coreMode{"untyped+opt", false, true, ""}

func (m coreMode) options(sample interface{}) []expr.Option {
	var ops []expr.Option
	if m.Typed {
		ops = append(ops, expr.Env(sample))
	}
	ops = append(ops, expr.Optimize(m.Optimize))
	switch m.Cast {
	case "int64":
		ops = append(ops, expr.AsInt64())
	case "float64":
		ops = append(ops, expr.AsFloat64())
	case "bool":
		ops = append(ops, expr.AsBool())
	}
	return ops
}

// pipeline replicates expr.Compile with the same packages, keeping the final tree.
func pipeline(src string, ops []expr.Option) (tree *parser.Tree, prog *vm.Program, config *conf.Config, err error) {
	defer func() {
		if r := recover(); r != nil {
			err = fmt.Errorf("panic: %v", r)
		}
	}()
	config = &conf.Config{Operators: make(map[string][]string), ConstExprFns: make(map[string]reflect.Value), Optimize: true}
	for _, op := range ops {
		op(config)
	}
	if err = config.Check(); err != nil {
		return
	}
	tree, err = parser.Parse(src)
	if err != nil {
		return
	}
	_, err = checker.Check(tree, config)
	if err != nil && len(config.Visitors) == 0 {
		return
	}
	compiler.PatchOperators(&tree.Node, config)
	for _, v := range config.Visitors {
		ast.Walk(&tree.Node, v)
	}
	_, err = checker.Check(tree, config)
	if err != nil {
		return
	}
	if config.Optimize {
		err = optimizer.Optimize(&tree.Node, config)
		if err != nil {
			return
		}
	}
	prog, err = compiler.Compile(tree, config)
	return
}

func castCoq(c string) string {
	switch c {
	case "int64":
		return "CastInt64"
	case "float64":
		return "CastFloat64"
	}
	return "CastNone"
}

// one observed run
type coreRun struct {
	out interface{}
	err error
	log []callEvent
}

func runProgram(p *vm.Program, env interface{}) coreRun {
	callLog = nil
	var out interface{}
	var err error
	guarded(30*time.Second, func() interface{} {
		src := ""
		if p != nil && p.Source != nil {
			src = p.Source.Content()
		}
		return map[string]interface{}{"src": src, "what": "vm.Run of the compiled program"}
	}, func() { out, err = vm.Run(p, env) })
	return coreRun{out, err, callLog}
}

func errInfo(err error) (cls string, line, col int) {
	if err == nil {
		return "", 0, 0
	}
	msg := err.Error()
	if fe, ok := err.(*file.Error); ok {
		msg, line, col = fe.Message, fe.Line, fe.Column
	}
	return cqErrClass(msg), line, col
}

// coreHeader: Require lines, environments, oracle tables, the fenv.
func coreHeader(envs []*Env) string {
	var b strings.Builder
	b.WriteString("From Coq Require Import ZArith List String Floats.\n")
	b.WriteString("Require Import X.Base.Num X.Base.Value X.Syn.Ast X.Sem.Prim X.Sem.Sem X.BC.Instr X.BC.Decode X.Corr.Universe X.Corr.CorrCore.\n")
	b.WriteString("Import ListNotations.\nOpen Scope string_scope.\nOpen Scope Z_scope.\n\n")
	for i, e := range envs {
		fmt.Fprintf(&b, "Definition env%d : value := %s.\n", i, cqValue(e))
	}
	// regexp oracle table
	pats := append(append([]string{}, rePool...), strPool...)
	subj := append([]string{}, strPool...)
	// subjects built at run time by one concatenation (`# + "b"`, `S + S2`) are in the table too
	for _, a := range strPool {
		for _, c := range strPool {
			subj = append(subj, a+c)
		}
	}
	b.WriteString("Definition re_tbl : list (string * string * option bool) := [\n")
	first := true
	seen := map[string]bool{}
	for _, p := range pats {
		for _, s := range subj {
			if seen[p+"\x00"+s] {
				continue
			}
			seen[p+"\x00"+s] = true
			r := "None"
			if m, err := regexp.MatchString(p, s); err == nil {
				r = "(Some " + cqBool(m) + ")"
			}
			if !first {
				b.WriteString(";\n")
			}
			first = false
			fmt.Fprintf(&b, "  (%s, %s, %s)", cqStr(p), cqStr(s), r)
		}
	}
	b.WriteString("\n].\n")
	// pow oracle table: a base grid (small integers, the numeric members of the environments and their negations,
	// elements of their numeric slices) plus, for every serialised case whose source has `**`, the operand values of
	// each `**` node whose operands do not depend on a closure element (evaluated on the case's environment)
	vals := map[uint64]float64{}
	addF := func(f float64) { vals[math.Float64bits(f)] = f }
	for _, f := range []float64{0.5, 1.5, 2.5, -0.5, 10} {
		addF(f)
	}
	for i := -4; i <= 9; i++ {
		addF(float64(i))
	}
	for _, e := range envs {
		for _, f := range []float64{float64(e.I), e.F64, float64(e.U8), float64(e.I8), float64(e.F32), float64(e.St.X), float64(len(e.AI))} {
			addF(f)
			addF(-f)
		}
		for _, x := range e.AI {
			addF(float64(x))
		}
		for _, x := range e.AF {
			addF(x)
		}
	}
	type pair struct{ x, y float64 }
	extra := map[[2]uint64]pair{}
	for _, ps := range powSites {
		if ps.env < 0 || ps.env >= len(envs) {
			continue
		}
		for _, q := range powOperands(ps.tree, envs[ps.env]) {
			extra[[2]uint64{math.Float64bits(q[0]), math.Float64bits(q[1])}] = pair{q[0], q[1]}
		}
	}
	keys := make([]uint64, 0, len(vals))
	for k := range vals {
		keys = append(keys, k)
	}
	sort.Slice(keys, func(i, j int) bool { return keys[i] < keys[j] })
	b.WriteString("Definition pow_tbl : list (float * float * float) := [\n")
	first = true
	for _, kx := range keys {
		for _, ky := range keys {
			if !first {
				b.WriteString(";\n")
			}
			first = false
			fmt.Fprintf(&b, "  (%s, %s, %s)", coqFloat(vals[kx]), coqFloat(vals[ky]), coqFloat(math.Pow(vals[kx], vals[ky])))
		}
	}
	ekeys := make([][2]uint64, 0, len(extra))
	for k := range extra {
		if _, a := vals[k[0]]; a {
			if _, c := vals[k[1]]; c {
				continue // already in the grid
			}
		}
		ekeys = append(ekeys, k)
	}
	sort.Slice(ekeys, func(i, j int) bool {
		return ekeys[i][0] < ekeys[j][0] || (ekeys[i][0] == ekeys[j][0] && ekeys[i][1] < ekeys[j][1])
	})
	for _, k := range ekeys {
		q := extra[k]
		if !first {
			b.WriteString(";\n")
		}
		first = false
		fmt.Fprintf(&b, "  (%s, %s, %s)", coqFloat(q.x), coqFloat(q.y), coqFloat(math.Pow(q.x, q.y)))
	}
	b.WriteString("\n].\nDefinition fe := u_fenv re_tbl pow_tbl.\n")
	return b.String()
}

// `**` sites of the serialised cases: their operand values go into the math.Pow oracle table of the header
type powSite struct {
	env  int
	tree *parser.Tree
}

var powSites []powSite

// powOperands: (x, y) as float64 of every `**` node of the tree whose operands contain no closure element,
// evaluated on env (failures and non-numeric operands are skipped: the model then fails before it asks the oracle)
func powOperands(tree *parser.Tree, env *Env) [][2]float64 {
	var out [][2]float64
	saved := callLog
	defer func() { callLog = saved }()
	closed := func(n ast.Node) bool {
		ok := true
		ast.Walk(&n, visitFn(func(m *ast.Node) {
			if _, p := (*m).(*ast.PointerNode); p {
				ok = false
			}
		}))
		return ok
	}
	val := func(n ast.Node) (f float64, ok bool) {
		defer func() {
			if recover() != nil {
				ok = false
			}
		}()
		p, err := compiler.Compile(&parser.Tree{Node: n, Source: tree.Source}, nil)
		if err != nil {
			return 0, false
		}
		out, err := vm.Run(p, env)
		if err != nil {
			return 0, false
		}
		rv := reflect.ValueOf(out)
		switch rv.Kind() {
		case reflect.Int, reflect.Int8, reflect.Int16, reflect.Int32, reflect.Int64:
			return float64(rv.Int()), true
		case reflect.Uint, reflect.Uint8, reflect.Uint16, reflect.Uint32, reflect.Uint64:
			return float64(rv.Uint()), true
		case reflect.Float32, reflect.Float64:
			return rv.Float(), true
		}
		return 0, false
	}
	root := tree.Node
	ast.Walk(&root, visitFn(func(m *ast.Node) {
		if b, ok := (*m).(*ast.BinaryNode); ok && b.Operator == "**" && closed(b.Left) && closed(b.Right) {
			x, ok1 := val(b.Left)
			y, ok2 := val(b.Right)
			if ok1 && ok2 {
				out = append(out, [2]float64{x, y})
			}
		}
	}))
	return out
}

func coreCase(mapenv bool, cast string, limit int, envIdx int, tree *parser.Tree, prog *vm.Program, r coreRun) string {
	if strings.Contains(tree.Source.Content(), "**") && len(powSites) < 20000 {
		powSites = append(powSites, powSite{envIdx, tree})
	}
	note := strings.ReplaceAll(strings.ReplaceAll(tree.Source.Content(), "*)", "* )"), "(*", "( *")
	note = strings.ReplaceAll(strings.ReplaceAll(note, "\n", " "), "\"", "'")
	return fmt.Sprintf("mkCase %s %s %d env%d %s %s %s (* %s *)", cqBool(mapenv), castCoq(cast), limit, envIdx,
		cqExpr(tree.Node), cqProgram(prog), cqObserved(r.out, r.err, r.log), note)
}

func sameProgram(a, b *vm.Program) bool {
	return a != nil && b != nil && cqProgram(a) == cqProgram(b)
}

func init() { commands["c01"] = runC01 }

func standardEnvs(rng *rand.Rand, n int) []*Env {
	envs := []*Env{baseEnv(), zeroEnv(), boundaryEnv()}
	if n >= 4 {
		envs = append(envs, floatEnv())
	}
	if n >= 5 {
		envs = append(envs, wrapEnv())
	}
	for len(envs) < n {
		envs = append(envs, randomEnv(rng))
	}
	return envs
}

func runC01() {
	rep := newReport("C01")
	rng := rand.New(rand.NewSource(*seed))
	nRandom, nEnvs, exLevel, exSample := 700, 5, 1, 700
	if *tier == "thorough" {
		nRandom, nEnvs, exLevel, exSample = 6000, 8, 2, 1<<30
	}
	envs := standardEnvs(rng, nEnvs)
	// one more environment whose map members hold nil / non-callable entries, and the method calls that meet them: run on
	// EVERY environment (FetchFn / FetchFnNil on maps)
	envs = append(envs, nilFnEnv())
	nilFn := map[string]bool{}
	for _, s := range nilFnSources() {
		nilFn[s] = true
	}
	var srcs []string
	ex := exhaustiveExprs(exLevel)
	rep.Extra["exhaustive_family_size"] = len(ex)
	if len(ex) > exSample {
		rng.Shuffle(len(ex), func(i, j int) { ex[i], ex[j] = ex[j], ex[i] })
		ex = ex[:exSample]
	} else {
		rep.Exhaustive = false
	}
	srcs = append(srcs, ex...)
	srcs = append(srcs, nestedSources()...)
	srcs = append(srcs, shapeSources()...)
	srcs = append(srcs, nilFnSources()...)
	g := &egen{rng: rng, wrong: 15, hist: rep.Histogram}
	for i := 0; i < nRandom; i++ {
		t := []gtype{tBool, tInt, tNum, tStr, tArrInt, tArrAny, tAny}[rng.Intn(7)]
		srcs = append(srcs, g.expr(t, 2+rng.Intn(3)))
	}
	modes := []coreMode{modeUntyped, modeTyped, modeTypedOpt}
	var cases, byteCases []string
	distinct := map[string]bool{}
	for _, src := range srcs {
		// results of the untyped compile per environment: a typed compile of an accepted expression must not FAIL for a
		// type reason where the untyped one returns a value (the language definition assigns that value)
		untypedOK := map[int]bool{}
		// results of the typed, UNOPTIMIZED compile per environment: the optimized program has to answer alike (what the
		// optimizer may change is C02's subject; a disagreement outside the recorded optimizer findings is a wrong value here too)
		typedRun := map[int]coreRun{}
		var typedFeat c02Feat
		for _, m := range modes {
			tree, prog, _, err := pipeline(src, m.options(envs[0]))
			if err != nil {
				rep.hist("rejected at compile time (" + m.Name + ")")
				continue
			}
			// fidelity of the replicated pipeline: the real expr.Compile must give the same program
			real, rerr := expr.Compile(src, m.options(envs[0])...)
			if rerr != nil || !sameProgram(real, prog) {
				rep.fail(Failure{Key: "C01-pipeline-replica", What: "harness pipeline replica differs from expr.Compile", Input: map[string]string{"src": src, "mode": m.Name}, Got: fmt.Sprint(rerr)})
				continue
			}
			nontrivial := strings.ContainsAny(src, "{?") || strings.Contains(src, " and ") || strings.Contains(src, " or ") || strings.Contains(src, "(")
			for ei, e := range envs {
				if ei >= 2 && !nilFn[src] && rng.Intn(2) == 0 && *tier != "thorough" {
					continue
				}
				r := runProgram(prog, e)
				rep.Evaluations++
				cls, _, _ := errInfo(r.err)
				if nilFn[src] {
					if cls == "" && r.out == nil {
						rep.hist("method call on a map member / nil receiver: nil")
					} else if cls == "" {
						rep.hist("method call on a map member / nil receiver: value")
					} else {
						rep.hist("method call on a map member / nil receiver: fails " + cls)
					}
				}
				if cls == "" {
					rep.hist("run ok")
				} else {
					rep.hist("run fails " + cls)
				}
				if m.Name == modeTyped.Name {
					if len(typedRun) == 0 {
						typedFeat = c02Features(tree.Node, nil)
					}
					typedRun[ei] = r
				}
				if t0, ok := typedRun[ei]; ok && m.Name == modeTypedOpt.Name {
					same := (t0.err != nil && r.err != nil) || (t0.err == nil && r.err == nil && simEqual(t0.out, r.out) && simLog(t0.log, r.log, map[string]bool{}))
					if !same {
						if key := c02Classify(typedFeat, t0, r, map[string]bool{}); key == "C02-mismatch" {
							rep.fail(Failure{Key: "C01-optimized-differs", What: "the optimized compile of an expression does not answer like the unoptimized one (outside the recorded optimizer findings)",
								Input: map[string]interface{}{"src": src, "env": ei}, Want: "unoptimized: " + c02Show(t0), Got: "optimized: " + c02Show(r)})
						} else {
							rep.hist("optimized run differs: recorded optimizer finding " + key)
						}
					}
				}
				if m.Name == modeUntyped.Name {
					untypedOK[ei] = r.err == nil
				} else if untypedOK[ei] && (cls == "EIfaceConv" || cls == "EReflect") && !strings.Contains(r.err.Error(), "nil") {
					// (a nil reached through a nil-safe chain where the static type promises a value is a VALUE reason, as in C03)
					rep.fail(Failure{Key: "C01-typed-run-type-failure", What: "an expression the checker accepts fails at run time with a dynamic type error in the typed compile although the untyped compile of the same source returns a value on the same environment",
						Input: map[string]interface{}{"src": src, "mode": m.Name, "env": ei}, Want: "the value of the untyped run", Got: clip(r.err.Error())})
				}
				cs := coreCase(false, m.Cast, vm.MemoryBudget, ei, tree, prog, r)
				cases = append(cases, cs)
				if ei == 0 {
					byteCases = append(byteCases, cs)
				}
				if nontrivial {
					distinct[fmt.Sprintf("%s|%s|%d", src, m.Name, ei)] = true
				}
			}
		}
	}
	// values written down by hand (base environment: S = "abc", S2 = "b", AS = ["a", "b", "abc"], B = true): string literals that
	// spell a punctuation token or an operator are values like any other - from the SOURCE TEXT to the result, through the real
	// lexer and parser (the comparisons above start from the tree the parser returned)
	for _, c := range []struct {
		src  string
		want interface{}
	}{
		{`count(AS, {# == "#"})`, 0}, {`map(AS, {# + "#"})`, []interface{}{"a#", "b#", "abc#"}}, {`S contains "."`, false}, {`S == "("`, false}, {`len([")", "]"])`, 2},
		{`[":", ","][0]`, ":"}, {`S + ":" + S2`, "abc:b"}, {`{"a": ":"}.a`, ":"}, {`B ? "?" : ":"`, "?"}, {`"." + "."`, ".."}, {`filter(AS, {# != "."})`, []interface{}{"a", "b", "abc"}},
		{`S in ["(", ")", "#"]`, false}, {`"in" in ["in", "and", "or"]`, true}, {`"not" == "not"`, true}, {`all(AS, {# != "{" and # != "}"})`, true}, {`AS[0] == "["`, false},
		{`["#", ".", "?.", "..", "**"][4]`, "**"}, {`len("?:") + len("#")`, 3}, {`map(["#"], {#})[0]`, "#"},
		// a map literal naming one key twice keeps the FIRST pair's value (every value expression is still evaluated once, in order)
		{`{a: 1, a: 2}.a`, 1}, {`len({a: 1, a: 2, b: 3})`, 2}, {`{"k": "x", "k": "y"}.k`, "x"}, {`{(S2): 1, b: 2}.b`, 1}, {`{b: 1, (S2): 2}["b"]`, 1},
		// decimal literals with redundant leading zeros are decimal
		{`010`, 10}, {`0100 + 1`, 101}, {`08`, 8}, {`019 - 9`, 10}, {`007`, 7}, {`00`, 0}, {`[010, 08][1]`, 8}, {`010 == 10`, true}, {`010.5`, 10.5}, {`1..010`, []interface{}{1, 2, 3, 4, 5, 6, 7, 8, 9, 10}},
	} {
		for _, m := range modes {
			rep.Evaluations++
			rep.hist("hand-written value (literals from the source text)")
			var got interface{}
			var err error
			func() {
				defer func() {
					if r := recover(); r != nil {
						err = fmt.Errorf("panic: %v", r)
					}
				}()
				var p *vm.Program
				if p, err = expr.Compile(c.src, m.options(envs[0])...); err == nil {
					got, err = expr.Run(p, envs[0])
				}
			}()
			if err != nil || cqValue(normSeq(got)) != cqValue(normSeq(c.want)) {
				rep.fail(Failure{Key: "C01-literal-value", What: "an expression over string literals that spell tokens does not return the value the language definition assigns",
					Input: map[string]interface{}{"src": c.src, "mode": m.Name, "env": 0}, Want: fmt.Sprintf("%#v", c.want), Got: fmt.Sprintf("%#v / %v", got, err)})
			}
		}
	}
	rep.Distinct = len(distinct)
	rep.Rule = "sources = a shuffled sample (quick) or all (thorough) of an exhaustive family of leaf/unary/binary/ternary/postfix/call/builtin shapes over 9 leaves, plus type-directed random expressions of depth 2-4 over the environment universe with forced closures/conditionals/short-circuits and 1.5% deliberately ill-typed operands; each compiled untyped, typed and typed+optimized through the replicated expr.Compile pipeline (checked equal to expr.Compile) and run on base/zero/boundary/random environments; distinct_nontrivial counts distinct (source, mode, environment) whose source contains a closure, conditional, connective or call"
	for i := 0; i < 5 && i < len(srcs); i++ {
		rep.Samples = append(rep.Samples, srcs[(i*7919+13)%len(srcs)])
	}
	rep.writeShards("cases_c01", coreHeader(envs), "ccase", "core_mismatches fe", cases)
	// every (source, mode) once more against the BYTE-level model of the compiler (BC/Assemble.v)
	rep.writeShards("cases_c01b", strings.Replace(coreHeader(envs), "X.Corr.CorrCore.", "X.Corr.CorrCore X.Corr.CorrC05b.", 1), "ccase", "c05b_mismatches", byteCases)
	rep.write()
}

package main

// The fixed environment universe of the correspondence checks: one struct type with every
// numeric kind, strings, bools, slices, maps, nested structs, pointers, function members and
// methods.  coq/Corr/Universe.v mirrors the functions' behaviour.

import (
	"math"
	"math/rand"
)

var callLog []callEvent

type callEvent struct {
	Name string
	Args []interface{}
}

func logCall(name string, args ...interface{}) {
	callLog = append(callLog, callEvent{name, args})
}

type Inner struct {
	X    int
	Y    string
	Next *Inner
}

func (i Inner) Get() int { logCall("Inner.Get"); return i.X }

type Env struct {
	I   int
	I8  int8
	I16 int16
	I32 int32
	I64 int64
	U   uint
	U8  uint8
	U16 uint16
	U32 uint32
	U64 uint64
	F32 float32
	F64 float64
	B   bool
	B2  bool
	S   string
	S2  string
	AI  []int
	AS  []string
	AA  []interface{}
	AF  []float64
	MI  map[string]int
	MA  map[string]interface{}
	St  Inner
	P   *Inner
	Any interface{}

	Add    func(a, b int) int
	Inc    func(a int) int
	Concat func(a, b string) string
	IsPos  func(a int) bool
	Fast   func(args ...interface{}) interface{}
	Sum    func(xs ...int) int
	Boom   func(a int) int
	Id     func(x interface{}) interface{}
	Half   func(x float64) float64
}

func (e Env) Twice(a int) int { logCall("Env.Twice", a); return 2 * a }

func (e *Env) PtrM(a int) int { logCall("Env.PtrM", a); return a + 1 }

func installFuncs(e *Env) {
	e.Add = func(a, b int) int { logCall("Add", a, b); return a + b }
	e.Inc = func(a int) int { logCall("Inc", a); return a + 1 }
	e.Concat = func(a, b string) string { logCall("Concat", a, b); return a + b }
	e.IsPos = func(a int) bool { logCall("IsPos", a); return a > 0 }
	e.Fast = func(args ...interface{}) interface{} { logCall("Fast", args...); return len(args) }
	e.Sum = func(xs ...int) int {
		as := make([]interface{}, len(xs))
		s := 0
		for i, x := range xs {
			as[i] = x
			s += x
		}
		logCall("Sum", as...)
		return s
	}
	e.Boom = func(a int) int { logCall("Boom", a); panic("boom") }
	e.Id = func(x interface{}) interface{} { logCall("Id", x); return x }
	e.Half = func(x float64) float64 { logCall("Half", x); return x / 2 }
}

var strPool = []string{"", "a", "ab", "abc", "b", "hello", "x1", "A"}
var rePool = []string{"^a", "b$", "a.c", "[0-9]", "^$", "(", "h.*o"}

func zeroEnv() *Env {
	e := &Env{}
	installFuncs(e)
	return e
}

func baseEnv() *Env {
	in := &Inner{X: 7, Y: "in", Next: &Inner{X: 8, Y: "nx"}}
	e := &Env{
		I: 3, I8: -4, I16: 300, I32: -70000, I64: 1 << 40, U: 5, U8: 200, U16: 65535, U32: 1 << 31, U64: 1<<63 + 5,
		F32: 1.5, F64: 2.25, B: true, B2: false, S: "abc", S2: "b",
		AI: []int{1, 2, 3, 4}, AS: []string{"a", "b", "abc"}, AA: []interface{}{1, "a", nil, 2.5, true},
		AF: []float64{0.5, 1.5}, MI: map[string]int{"a": 1, "b": 2}, MA: map[string]interface{}{"k": 1, "s": "v", "n": nil},
		St: Inner{X: 1, Y: "st", Next: in}, P: in, Any: 42,
	}
	installFuncs(e)
	return e
}

func boundaryEnv() *Env {
	e := &Env{
		I: math.MaxInt64, I8: math.MinInt8, I16: math.MaxInt16, I32: math.MinInt32, I64: math.MinInt64,
		U: math.MaxUint64, U8: math.MaxUint8, U16: 0, U32: math.MaxUint32, U64: math.MaxUint64,
		F32: math.MaxFloat32, F64: -0.0, B: false, B2: true, S: "", S2: "abc",
		AI: []int{}, AS: []string{}, AA: []interface{}{}, AF: []float64{}, MI: map[string]int{}, MA: map[string]interface{}{},
		St: Inner{}, P: nil, Any: nil,
	}
	installFuncs(e)
	return e
}

// floatEnv: the special float values - NaN (unordered: every comparison with it is false), infinities, negative zero
func floatEnv() *Env {
	e := baseEnv()
	e.F64, e.F32 = math.NaN(), float32(math.Inf(1))
	e.AF = []float64{math.NaN(), math.Copysign(0, -1), math.Inf(-1), 1.5}
	e.AA = []interface{}{math.NaN(), 1, math.Inf(1), "a", math.Copysign(0, -1)}
	e.Any = math.NaN()
	e.MA = map[string]interface{}{"k": math.NaN(), "z": math.Copysign(0, -1)}
	return e
}

// wrapEnv: integer members whose values coincide with other literals / members only after narrowing or a sign change
// (148 = 404 mod 256, 4464 = 70000 mod 65536, 44 = 300 mod 256 = 65580 mod 65536)
func wrapEnv() *Env {
	e := baseEnv()
	e.U8, e.U16, e.I8, e.I16, e.I, e.U, e.I32, e.I64, e.U32, e.U64 = 148, 4464, 44, 44, 300, 200, 0, 1<<32, 0, 1<<32
	e.AI = []int{300, 404, 556, 660} // 300 = 556 = 44 and 404 = 660 = 148 modulo 256; small enough for `1..#` loops in the model
	e.F64 = 2.5
	// floats at the edge of exact integer representation: two roundings of `x + 1 + 1` differ from one of `x + 2`
	e.F32 = 16777216
	e.Any = 1e16
	e.AF = []float64{9007199254740992, 1e16, 0.1}
	return e
}

// nilFnEnv: the entries FetchFn / FetchFnNil meet in a map (vm/runtime.go): a nil interface, a typed nil pointer and a
// nil func held in an interface-typed map, a callable, a non-callable, and - behind Any - a pointer-typed map with a
// nil pointer entry.  `m?.f()` answers nil exactly where FetchFn returns the zero reflect.Value (nil interface entry of
// an interface-typed map, nil pointer entry of a pointer-typed map); everything else that is not callable is an error
// for `m.f()` and `m?.f()` alike (coq/Sem/Prim.v fetch_fn_zero).
func nilFnEnv() *Env {
	e := baseEnv()
	var np *Inner
	var nf func(a int) int
	e.MA = map[string]interface{}{"n": nil, "np": np, "nf": nf, "k": 1, "p": &Inner{X: 5, Y: "p"}, "Inc": e.Inc, "s": "v"}
	e.Any = map[string]*Inner{"np": nil, "p": {X: 6, Y: "q"}}
	return e
}

// nilFnSources: plain and nil-safe method calls on map members for every kind of entry (and on a nil receiver)
func nilFnSources() []string {
	var out []string
	for _, recv := range []string{"MA", "Any", "MI", "P", "St.Next"} {
		for _, name := range []string{"n", "np", "nf", "k", "p", "Inc", "missing", "a", "Get"} {
			for _, dot := range []string{".", "?."} {
				arg := ""
				if name == "Inc" || name == "nf" {
					arg = "2"
				}
				out = append(out, recv+dot+name+"("+arg+")")
			}
		}
	}
	out = append(out,
		"MA?.n(Inc(1))", "MA.n(Inc(1))", "Any?.np(Inc(1), Twice(2))", "MA?.n() == nil", "MA?.np() == nil", "Any?.np() == nil",
		"MA?.n()?.x", "[MA?.n(), MA?.Inc(1), Any?.np()]", "MA?.n() == nil ? Inc(1) : Inc(2)",
		"(B ? MA : Any)?.np()", "(B2 ? MA : Any)?.np()", "{\"n\": nil}?.n()", "{\"n\": nil}.n()", "{\"n\": Any}?.n()",
		"map(1..2, {MA?.n()})", "count(AS, {MA?.n(#) == nil})", "MA?.n().Get()", "MA?.n()?.Get()", "MA?.Inc(MA?.Inc(1))")
	return out
}

func randomEnv(rng *rand.Rand) *Env {
	pickS := func() string { return strPool[rng.Intn(len(strPool))] }
	smallInt := func() int { return rng.Intn(9) - 2 }
	e := &Env{
		I: smallInt(), I8: int8(rng.Intn(256) - 128), I16: int16(rng.Intn(65536) - 32768), I32: int32(rng.Uint32()), I64: int64(rng.Uint64()),
		U: uint(rng.Intn(10)), U8: uint8(rng.Intn(256)), U16: uint16(rng.Intn(65536)), U32: rng.Uint32(), U64: rng.Uint64(),
		F32: float32(rng.Intn(9)) / 2, F64: float64(rng.Intn(17)-8) / 4, B: rng.Intn(2) == 0, B2: rng.Intn(2) == 0, S: pickS(), S2: pickS(),
	}
	n := rng.Intn(5)
	e.AI = make([]int, n)
	for i := range e.AI {
		e.AI[i] = smallInt()
	}
	n = rng.Intn(4)
	e.AS = make([]string, n)
	for i := range e.AS {
		e.AS[i] = pickS()
	}
	anyVals := []interface{}{1, 2, "a", "ab", nil, 2.5, true, false, int8(3), uint16(9)}
	n = rng.Intn(5)
	e.AA = make([]interface{}, n)
	for i := range e.AA {
		e.AA[i] = anyVals[rng.Intn(len(anyVals))]
	}
	n = rng.Intn(3)
	e.AF = make([]float64, n)
	for i := range e.AF {
		e.AF[i] = float64(rng.Intn(9)) / 2
	}
	e.MI = map[string]int{}
	for i := rng.Intn(3); i > 0; i-- {
		e.MI[pickS()] = smallInt()
	}
	e.MA = map[string]interface{}{}
	for i := rng.Intn(3); i > 0; i-- {
		e.MA[pickS()] = anyVals[rng.Intn(len(anyVals))]
	}
	e.St = Inner{X: smallInt(), Y: pickS()}
	if rng.Intn(3) > 0 {
		e.P = &Inner{X: smallInt(), Y: pickS()}
		if rng.Intn(2) == 0 {
			e.P.Next = &Inner{X: smallInt(), Y: pickS()}
		}
	}
	if rng.Intn(2) == 0 {
		e.St.Next = &Inner{X: smallInt(), Y: pickS()}
	}
	e.Any = anyVals[rng.Intn(len(anyVals))]
	installFuncs(e)
	return e
}

module verifharness

go 1.13

require github.com/antonmedv/expr v0.0.0

replace github.com/antonmedv/expr => /repo

(* Syn/Ast.v — the 22 node kinds of ast/node.go, with location and the reflect.Kind of the
   type annotation (what compiler and optimizer read of node.Type()).  Reference `children`. *)
From Coq Require Import ZArith Bool List String Floats.
Require Import X.Base.Num X.Base.Value.
Import ListNotations.
Open Scope Z_scope.

Record ann := mkAnn { aloc : loc; akind : rkind }.
Definition ann0 : ann := mkAnn noloc RKInvalid.
Definition at_loc (l : loc) : ann := mkAnn l RKInvalid.

(* distinct spellings are distinct constructors (the AST stores the operator string) *)
Inductive unop := UNotBang | UNotWord | UPlus | UMinus | UUnknown (s : string).

Inductive binop :=
| BOrWord | BOrOr | BAndWord | BAndAnd
| BEq | BNe | BLt | BGt | BGe | BLe | BNotIn | BIn
| BContains | BStartsWith | BEndsWith
| BRange | BAdd | BSub | BMul | BDiv | BMod | BPow
| BUnknown (s : string).

Inductive builtin := BiLen | BiAll | BiNone | BiAny | BiOne | BiFilter | BiMap | BiCount | BiUnknown (s : string).

Inductive expr :=
| ENil (a : ann)
| EIdent (a : ann) (name : string) (nilsafe : bool)
| EInt (a : ann) (z : Z)
| EFloat (a : ann) (f : float)
| EBool (a : ann) (b : bool)
| EStr (a : ann) (s : string)
| EConst (a : ann) (v : value)
| EUnary (a : ann) (op : unop) (e : expr)
| EBinary (a : ann) (op : binop) (l r : expr)
| EMatches (a : ann) (re : option string) (l r : expr)   (* re = Some pattern: pre-compiled Regexp field *)
| EProperty (a : ann) (e : expr) (name : string) (nilsafe : bool)
| EIndex (a : ann) (e i : expr)
| ESlice (a : ann) (e : expr) (from to : option expr)
| EMethod (a : ann) (e : expr) (name : string) (args : list expr) (nilsafe : bool)
| EFunction (a : ann) (name : string) (args : list expr) (fast : bool)
| EBuiltin (a : ann) (b : builtin) (args : list expr)
| EClosure (a : ann) (e : expr)
| EPointer (a : ann)
| ECond (a : ann) (c e1 e2 : expr)
| EArray (a : ann) (es : list expr)
| EMap (a : ann) (pairs : list expr)
| EPair (a : ann) (k v : expr).

Definition ann_of (e : expr) : ann :=
  match e with
  | ENil a | EIdent a _ _ | EInt a _ | EFloat a _ | EBool a _ | EStr a _ | EConst a _
  | EUnary a _ _ | EBinary a _ _ _ | EMatches a _ _ _ | EProperty a _ _ _ | EIndex a _ _
  | ESlice a _ _ _ | EMethod a _ _ _ _ | EFunction a _ _ _ | EBuiltin a _ _ | EClosure a _
  | EPointer a | ECond a _ _ _ | EArray a _ | EMap a _ | EPair a _ _ => a
  end.
Definition loc_of (e : expr) : loc := aloc (ann_of e).
Definition kind_of (e : expr) : rkind := akind (ann_of e).

Definition set_ann (e : expr) (a : ann) : expr :=
  match e with
  | ENil _ => ENil a | EIdent _ n s => EIdent a n s | EInt _ z => EInt a z | EFloat _ f => EFloat a f
  | EBool _ b => EBool a b | EStr _ s => EStr a s | EConst _ v => EConst a v
  | EUnary _ o x => EUnary a o x | EBinary _ o l r => EBinary a o l r | EMatches _ re l r => EMatches a re l r
  | EProperty _ x n s => EProperty a x n s | EIndex _ x i => EIndex a x i | ESlice _ x f t => ESlice a x f t
  | EMethod _ x n args s => EMethod a x n args s | EFunction _ n args f => EFunction a n args f
  | EBuiltin _ b args => EBuiltin a b args | EClosure _ x => EClosure a x | EPointer _ => EPointer a
  | ECond _ c x y => ECond a c x y | EArray _ es => EArray a es | EMap _ ps => EMap a ps | EPair _ k v => EPair a k v
  end.

(* MatchesNode: the parser compiles a literal pattern ahead of time into the Regexp field.  That
   pre-compiled pattern may stand for the right operand only while the right operand still IS the
   string literal it was compiled from (a visitor may have replaced it): Some p exactly when
   re = Some p and r is the literal p. *)
Definition re_const (re : option string) (r : expr) : option string :=
  match re, r with
  | Some p, EStr _ q => if String.eqb p q then Some p else None
  | _, _ => None
  end.

Definition opt_list {A} (o : option A) : list A := match o with Some x => [x] | None => [] end.

(* REFERENCE: the Node-typed slots of every node kind, in declaration (= source) order. *)
Definition children (e : expr) : list expr :=
  match e with
  | ENil _ | EIdent _ _ _ | EInt _ _ | EFloat _ _ | EBool _ _ | EStr _ _ | EConst _ _ | EPointer _ => []
  | EUnary _ _ x => [x]
  | EBinary _ _ l r => [l; r]
  | EMatches _ _ l r => [l; r]
  | EProperty _ x _ _ => [x]
  | EIndex _ x i => [x; i]
  | ESlice _ x f t => x :: opt_list f ++ opt_list t
  | EMethod _ x _ args _ => x :: args
  | EFunction _ _ args _ => args
  | EBuiltin _ _ args => args
  | EClosure _ x => [x]
  | ECond _ c x y => [c; x; y]
  | EArray _ es => es
  | EMap _ ps => ps
  | EPair _ k v => [k; v]
  end.

(* node kinds, for per-kind tables *)
Inductive nkind :=
| NkNil | NkIdentifier | NkInteger | NkFloat | NkBool | NkString | NkConstant | NkUnary | NkBinary
| NkMatches | NkProperty | NkIndex | NkSlice | NkMethod | NkFunction | NkBuiltin | NkClosure
| NkPointer | NkConditional | NkArray | NkMap | NkPair.

Definition all_nkinds : list nkind :=
  [NkNil; NkIdentifier; NkInteger; NkFloat; NkBool; NkString; NkConstant; NkUnary; NkBinary;
   NkMatches; NkProperty; NkIndex; NkSlice; NkMethod; NkFunction; NkBuiltin; NkClosure;
   NkPointer; NkConditional; NkArray; NkMap; NkPair].

Definition nkind_of (e : expr) : nkind :=
  match e with
  | ENil _ => NkNil | EIdent _ _ _ => NkIdentifier | EInt _ _ => NkInteger | EFloat _ _ => NkFloat
  | EBool _ _ => NkBool | EStr _ _ => NkString | EConst _ _ => NkConstant | EUnary _ _ _ => NkUnary
  | EBinary _ _ _ _ => NkBinary | EMatches _ _ _ _ => NkMatches | EProperty _ _ _ _ => NkProperty
  | EIndex _ _ _ => NkIndex | ESlice _ _ _ _ => NkSlice | EMethod _ _ _ _ _ => NkMethod
  | EFunction _ _ _ _ => NkFunction | EBuiltin _ _ _ => NkBuiltin | EClosure _ _ => NkClosure
  | EPointer _ => NkPointer | ECond _ _ _ _ => NkConditional | EArray _ _ => NkArray
  | EMap _ _ => NkMap | EPair _ _ _ => NkPair
  end.

(* size, for strong induction over trees with list-carrying nodes *)
Fixpoint esize (e : expr) : nat :=
  let fix lsize (l : list expr) : nat := match l with [] => O | x :: r => (esize x + lsize r)%nat end in
  match e with
  | ENil _ | EIdent _ _ _ | EInt _ _ | EFloat _ _ | EBool _ _ | EStr _ _ | EConst _ _ | EPointer _ => 1%nat
  | EUnary _ _ x | EProperty _ x _ _ | EClosure _ x => S (esize x)
  | EBinary _ _ l r | EMatches _ _ l r | EIndex _ l r | EPair _ l r => S (esize l + esize r)
  | ESlice _ x f t =>
      S (esize x + match f with Some y => esize y | None => O end + match t with Some y => esize y | None => O end)
  | EMethod _ x _ args _ => S (esize x + lsize args)
  | EFunction _ _ args _ | EBuiltin _ _ args | EArray _ args | EMap _ args => S (lsize args)
  | ECond _ c x y => S (esize c + esize x + esize y)
  end.

Fixpoint lsize (l : list expr) : nat := match l with [] => O | x :: r => (esize x + lsize r)%nat end.

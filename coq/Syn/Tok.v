(* Syn/Tok.v — tokens of parser/lexer/token.go *)
From Coq Require Import ZArith List String.
Require Import X.Base.Value.
Import ListNotations.

Inductive tkind := TkIdentifier | TkNumber | TkString | TkOperator | TkBracket | TkEOF.

Definition tkind_eqb (a b : tkind) : bool :=
  match a, b with
  | TkIdentifier, TkIdentifier | TkNumber, TkNumber | TkString, TkString
  | TkOperator, TkOperator | TkBracket, TkBracket | TkEOF, TkEOF => true
  | _, _ => false
  end.

(* Value is the token text as a Go string, i.e. its UTF-8 bytes *)
Record token := mkTok { tloc : loc; tkind_of : tkind; tval : string }.

(* Token.Is(kind, values...) *)
Definition tok_is (t : token) (k : tkind) (vals : list string) : bool :=
  match vals with
  | [] => tkind_eqb k (tkind_of t)
  | _ => existsb (String.eqb (tval t)) vals && tkind_eqb k (tkind_of t)
  end.

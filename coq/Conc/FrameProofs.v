(* Conc/FrameProofs.v — theorems about the models of Conc/Frame.v (C08, C09). *)
From Coq Require Import ZArith Bool List String Arith Lia Permutation.
Require Import X.Base.Num X.Base.Value X.Syn.Ast X.Sem.Prim X.Sem.Sem X.BC.Instr X.BC.Compiler X.BC.VM X.BC.RunProofs.
Require Import X.Ty.Types X.Ty.TypesTable X.Ty.TyProofs X.Conc.Frame.
Import ListNotations.
Local Open Scope nat_scope.
Local Open Scope list_scope.

(* ====================================================================================== *)
(* schedules: steps of distinct threads commute; thread i ends where it ends alone         *)
Section SchedProofs.
Variable T : Type.
Variable f : T -> T.
Notation upd := (upd T).
Notation sched_step := (sched_step T f).
Notation run_sched := (run_sched T f).
Notation iter := (iter T f).

Lemma nth_upd_same : forall p i x t, nth_error p i = Some t -> nth_error (upd p i x) i = Some x.
Proof.
  induction p as [|y p IH]; intros [|i] x t H; cbn in *; try discriminate; auto.
  eapply IH; eauto.
Qed.

Lemma nth_upd_none : forall p i x, nth_error p i = None -> upd p i x = p.
Proof.
  induction p as [|y p IH]; intros [|i] x H; cbn in *; try discriminate; auto.
  rewrite IH; auto.
Qed.

Lemma nth_upd_other : forall p i j x, i <> j -> nth_error (upd p i x) j = nth_error p j.
Proof.
  induction p as [|y p IH]; intros [|i] [|j] x H; cbn; auto; try congruence.
Qed.

Lemma upd_comm : forall p i j x y, i <> j -> upd (upd p i x) j y = upd (upd p j y) i x.
Proof.
  induction p as [|z p IH]; intros [|i] [|j] x y H; cbn; auto; try congruence.
  rewrite IH; auto.
Qed.

Lemma nth_sched_step_same p i : nth_error (sched_step p i) i = option_map f (nth_error p i).
Proof.
  unfold Frame.sched_step. destruct (nth_error p i) as [t|] eqn:E; cbn.
  - eapply nth_upd_same; eauto.
  - exact E.
Qed.

Lemma nth_sched_step_other p i j : i <> j -> nth_error (sched_step p i) j = nth_error p j.
Proof.
  intros H. unfold Frame.sched_step. destruct (nth_error p i); auto. apply nth_upd_other; auto.
Qed.

(* the step of thread i reads and writes slot i only: steps of distinct threads commute *)
Lemma sched_step_comm p i j : sched_step (sched_step p i) j = sched_step (sched_step p j) i.
Proof.
  destruct (Nat.eq_dec i j) as [->|N]; auto.
  unfold Frame.sched_step at 1 3.
  rewrite (nth_sched_step_other p i j N), (nth_sched_step_other p j i (not_eq_sym N)).
  unfold Frame.sched_step.
  destruct (nth_error p i) as [t|] eqn:Ei, (nth_error p j) as [u|] eqn:Ej; auto.
  apply upd_comm; auto.
Qed.

Lemma run_sched_cons i s p : run_sched (i :: s) p = run_sched s (sched_step p i).
Proof. reflexivity. Qed.

Theorem run_sched_perm : forall s1 s2, Permutation s1 s2 -> forall p, run_sched s1 p = run_sched s2 p.
Proof.
  induction 1; intros p; auto.
  - rewrite !run_sched_cons. apply IHPermutation.
  - rewrite !run_sched_cons. rewrite sched_step_comm. reflexivity.
  - rewrite IHPermutation1. apply IHPermutation2.
Qed.

Lemma iter_succ n t : iter (S n) t = iter n (f t).
Proof. reflexivity. Qed.

Lemma iter_add a : forall b t, iter (a + b) t = iter b (iter a t).
Proof. induction a; intros b t; cbn; auto. Qed.

Lemma iter_fix t : f t = t -> forall n, iter n t = t.
Proof. intros H n. induction n; cbn; auto. rewrite H. exact IHn. Qed.

(* under ANY schedule thread i is where it is after the same number of its own steps alone *)
Theorem any_schedule : forall sched p i,
  nth_error (run_sched sched p) i = option_map (iter (count i sched)) (nth_error p i).
Proof.
  induction sched as [|j r IH]; intros p i.
  - cbn. destruct (nth_error p i); reflexivity.
  - rewrite run_sched_cons, IH. cbn [count].
    destruct (Nat.eqb_spec j i) as [->|N].
    + rewrite nth_sched_step_same. destruct (nth_error p i); reflexivity.
    + rewrite nth_sched_step_other by auto. reflexivity.
Qed.
End SchedProofs.

(* ====================================================================================== *)
(* goroutines: alone, a goroutine produces the solo results of its jobs                    *)
Section Goroutines.
Variable sh : shared.
Notation gstep := (gstep sh).
Notation giter := (iter gor (gstep)).

Lemma run_job_steps p e C env (HC : nth_error (sh_progs sh) p = Some C) (HE : nth_error (sh_envs sh) e = Some env) :
  forall n s r z js dn,
    iter_tick (sh_fe sh) (sh_cfg sh) env C n s = Finished r z ->
    exists k, giter k (mkGor js (Some (p, e, Running s)) dn) = mkGor js None (dn ++ [RRan r]).
Proof.
  induction n as [|n IH]; intros s r z js dn H; cbn in H; [discriminate|].
  destruct (tick (sh_fe sh) (sh_cfg sh) env C s) as [s'|r' z'] eqn:Et.
  - destruct (IH _ _ _ js dn H) as [k Hk]. exists (S k).
    rewrite iter_succ. unfold Frame.gstep at 2. cbn [g_cur g_jobs g_done]. rewrite HC, HE, Et. exact Hk.
  - inversion H; subst. exists 2.
    cbn [Frame.iter]. unfold Frame.gstep at 2. cbn [g_cur g_jobs g_done]. rewrite HC, HE, Et.
    reflexivity.
Qed.

Lemma gor_alone d : forall jobs rs dn,
  solo_results sh d jobs = Some rs ->
  exists n, giter n (mkGor jobs None dn) = mkGor [] None (dn ++ rs).
Proof.
  induction jobs as [|j jobs IH]; intros rs dn H; cbn in H.
  - inversion H; subst. exists 0. cbn. rewrite app_nil_r. reflexivity.
  - destruct (solo_job sh d j) as [x|] eqn:Ej; [|discriminate].
    destruct (solo_results sh d jobs) as [xs|] eqn:Er; [|discriminate].
    inversion H; subst. clear H.
    destruct (IH xs (dn ++ [x]) eq_refl) as [n Hn]. rewrite <- app_assoc in Hn. cbn [app] in Hn.
    destruct j as [p e|k]; cbn in Ej.
    + destruct (nth_error (sh_progs sh) p) as [C|] eqn:HC; [destruct (nth_error (sh_envs sh) e) as [env|] eqn:HE|].
      * unfold run_code in Ej.
        destruct (run_depth (sh_fe sh) (sh_cfg sh) env C d init_state) as [|r z] eqn:Erd; [discriminate|].
        inversion Ej; subst. rewrite run_depth_iter in Erd.
        destruct (run_job_steps p e C env HC HE _ _ _ _ jobs dn Erd) as [k Hk].
        exists (S (k + n)). rewrite iter_succ. unfold Frame.gstep at 2. cbn [g_cur g_jobs g_done].
        rewrite iter_add, Hk. exact Hn.
      * inversion Ej; subst. exists (S (S n)). rewrite !iter_succ.
        unfold Frame.gstep at 2 3. cbn [g_cur g_jobs g_done]. rewrite HC, HE. exact Hn.
      * inversion Ej; subst. exists (S (S n)). rewrite !iter_succ.
        unfold Frame.gstep at 2 3. cbn [g_cur g_jobs g_done]. rewrite HC. exact Hn.
    + inversion Ej; subst. exists (S n). rewrite iter_succ.
      unfold Frame.gstep at 2. cbn [g_cur g_jobs g_done]. exact Hn.
Qed.

Lemma gor_done_fix dn : gstep (mkGor [] None dn) = mkGor [] None dn.
Proof. reflexivity. Qed.
End Goroutines.

Lemma run_world_split : forall sched sh p,
  run_world sched (sh, p) = (sh, run_sched gor (gstep sh) sched p).
Proof.
  induction sched as [|i r IH]; intros sh p; cbn; auto.
  unfold world_step at 2. cbn [fst snd]. rewrite IH. reflexivity.
Qed.

(* FRAME: whatever the schedule, the shared world (programs, environments, sources, oracles,
   budget) is what it was — by construction of gstep, which returns a private state only *)
Theorem world_frame : forall sched w, fst (run_world sched w) = fst w.
Proof. intros sched [sh p]. rewrite run_world_split. reflexivity. Qed.

(* ANY SCHEDULE: once goroutine i has been given enough steps, its results are exactly the
   results of its jobs executed alone, whatever the other goroutines did in between *)
Theorem goroutine_any_schedule : forall sh d pool i jobs rs,
  nth_error pool i = Some jobs ->
  solo_results sh d jobs = Some rs ->
  exists n, forall sched, n <= count i sched ->
    option_map g_done (nth_error (snd (run_world sched (sh, map start pool))) i) = Some rs.
Proof.
  intros sh d pool i jobs rs Hi Hs.
  destruct (gor_alone sh d jobs rs [] Hs) as [n Hn]. cbn [app] in Hn.
  exists n. intros sched Hc.
  rewrite run_world_split. cbn [snd]. rewrite any_schedule.
  rewrite nth_error_map, Hi. cbn [option_map]. unfold start.
  replace (count i sched) with (n + (count i sched - n)) by lia.
  rewrite iter_add, Hn. rewrite iter_fix by apply gor_done_fix. reflexivity.
Qed.

(* two schedules that give every goroutine the same number of steps (permutations of one
   another) leave the same world *)
Theorem schedule_order_irrelevant : forall s1 s2 w, Permutation s1 s2 -> run_world s1 w = run_world s2 w.
Proof.
  intros s1 s2 [sh p] H. rewrite !run_world_split. f_equal. apply run_sched_perm; auto.
Qed.

(* re-running: the second run of the same program on the same environment returns what the first did *)
Theorem rerun_same : forall sh d p e r,
  solo_job sh d (JRun p e) = Some r ->
  solo_results sh d [JRun p e; JRun p e] = Some [r; r].
Proof. intros sh d p e r H. cbn [solo_results]. rewrite H. reflexivity. Qed.

(* ====================================================================================== *)
(* determinism: the run is a function of (oracle answers, budget, environment, code, fuel)  *)
Section Ext.
Variables fe1 fe2 : fenv.
Hypothesis A : fenv_agree fe1 fe2.

Lemma fetch_fn_ext from name : Prim.fetch_fn fe1 from name = Prim.fetch_fn fe2 from name.
Proof.
  destruct A as (_ & _ & Hm & _ & _). unfold Prim.fetch_fn.
  destruct from; try reflexivity; try (rewrite ?Hm; reflexivity);
    try (destruct (type_name_of _) as [[tn p]|]; rewrite ?Hm; reflexivity).
  all: try (match goal with |- context[match ?t with TStruct _ => _ | _ => _ end] => destruct t; try reflexivity; rewrite Hm; reflexivity end).
Qed.

Lemma do_call_ext l fast id recv args s : do_call fe1 l fast id recv args s = do_call fe2 l fast id recv args s.
Proof.
  destruct A as (Hs & Hr & _ & _ & _). unfold do_call. rewrite Hs, Hr. reflexivity.
Qed.

Lemma step_ext cfg env C s : step fe1 cfg env C s = step fe2 cfg env C s.
Proof.
  pose proof A as (_ & _ & _ & Hre & Hpow).
  unfold step. destruct (Instr.fetch C (pc s)) as [[i l]|]; [|reflexivity].
  destruct i; try reflexivity;
    try (rewrite ?fetch_fn_ext; repeat match goal with |- context[do_call fe1 ?a ?b ?c ?d ?e ?f] => rewrite (do_call_ext a b c d e f) end; reflexivity).
  - (* IExponent *) unfold bin. destruct (stk s) as [|b [|a st]]; try reflexivity.
    destruct (to_float64 a); try reflexivity. destruct (to_float64 b); try reflexivity. rewrite Hpow. reflexivity.
  - (* IMatches *) unfold bin. destruct (stk s) as [|b [|a st]]; try reflexivity.
    destruct (as_str b); try reflexivity. destruct (as_str a); try reflexivity. rewrite Hre. reflexivity.
  - (* IMatchesConst *) destruct (stk s) as [|a st]; try reflexivity.
    destruct (as_str a); try reflexivity. rewrite Hre. reflexivity.
  - (* ICall *) destruct (popn n (stk s) []) as [[args st']|]; [|reflexivity]. rewrite fetch_fn_ext.
    destruct (Prim.fetch_fn fe2 env name); [|reflexivity]. rewrite do_call_ext. reflexivity.
  - (* ICallFast *) destruct (popn n (stk s) []) as [[args st']|]; [|reflexivity]. rewrite fetch_fn_ext.
    destruct (Prim.fetch_fn fe2 env name); [|reflexivity]. rewrite do_call_ext. reflexivity.
  - (* IMethod *) destruct (popn n (stk s) []) as [[args [|obj st']]|]; try reflexivity. rewrite fetch_fn_ext.
    destruct (Prim.fetch_fn fe2 obj name); [|reflexivity]. rewrite do_call_ext. reflexivity.
  - (* IMethodNilSafe *) destruct (popn n (stk s) []) as [[args [|obj st']]|]; try reflexivity.
    rewrite fetch_fn_ext. destruct obj; try reflexivity;
      (destruct (Prim.fetch_fn fe2 _ name); [|reflexivity]; rewrite do_call_ext; reflexivity).
Qed.

Lemma tick_ext cfg env C s : tick fe1 cfg env C s = tick fe2 cfg env C s.
Proof. unfold tick. rewrite step_ext. reflexivity. Qed.

Lemma run_depth_ext cfg env C d : forall s, run_depth fe1 cfg env C d s = run_depth fe2 cfg env C d s.
Proof.
  induction d as [|d IH]; intros s; cbn [run_depth].
  - apply tick_ext.
  - rewrite IH. destruct (run_depth fe2 cfg env C d s); auto.
Qed.

Theorem run_deterministic cfg env C d : run_code fe1 cfg env C d = run_code fe2 cfg env C d.
Proof. unfold run_code. rewrite run_depth_ext. reflexivity. Qed.
End Ext.

(* ====================================================================================== *)
(* Config.Check under permutations of its two map iterations                               *)
Lemma first_some_none {A B} (f : A -> option B) l : first_some f l = None <-> forall x, In x l -> f x = None.
Proof.
  induction l as [|y l IH]; cbn.
  - split; auto. intros _ x [].
  - destruct (f y) eqn:E.
    + split; [discriminate|]. intros H. rewrite (H y) in E; auto; discriminate.
    + rewrite IH. split; intros H x; [intros [<-|Hx]; auto|intros Hx; apply H; auto].
Qed.

Lemma first_some_hd {A} (f : A -> option cerr) l : first_some f l = hd_error (faults f l).
Proof. induction l as [|y l IH]; cbn; auto. destruct (f y); auto. Qed.

Lemma first_some_ext {A B} (f g : A -> option B) l : (forall x, f x = g x) -> first_some f l = first_some g l.
Proof. intros H. induction l as [|y l IH]; cbn; auto. rewrite H, IH. reflexivity. Qed.

Lemma faults_ext {A} (f g : A -> option cerr) l : (forall x, f x = g x) -> faults f l = faults g l.
Proof. intros H. induction l as [|y l IH]; cbn; auto. rewrite H, IH. reflexivity. Qed.

Lemma faults_perm {A} (f : A -> option cerr) l l' : Permutation l l' -> Permutation (faults f l) (faults f l').
Proof.
  induction 1; cbn; auto.
  - destruct (f x); auto.
  - destruct (f x), (f y); auto. apply perm_swap.
  - eapply Permutation_trans; eauto.
Qed.

Lemma perm_short {A} (a b : list A) : Permutation a b -> List.length a <= 1 -> a = b.
Proof.
  intros H L. destruct a as [|x [|y a]]; cbn in L; try lia.
  - apply Permutation_nil in H. auto.
  - apply Permutation_length_1_inv in H. auto.
Qed.

Lemma check_fn_ext t1 t2 op fn : (forall n, tget n t1 = tget n t2) -> check_fn t1 op fn = check_fn t2 op fn.
Proof. intros H. unfold check_fn. rewrite H. reflexivity. Qed.

Lemma check_op_ext t1 t2 e : (forall n, tget n t1 = tget n t2) -> check_op t1 e = check_op t2 e.
Proof. intros H. unfold check_op. apply first_some_ext. intros fn. apply check_fn_ext; auto. Qed.

Definition valid_perms (P : perms) : Prop :=
  valid_perm (pm_tab P) /\ (forall l, Permutation (pm_ops P l) l) /\ (forall l, Permutation (pm_cfns P l) l).

Lemma id_perms_valid : valid_perms id_perms.
Proof. repeat split; intros l; apply Permutation_refl. Qed.

Lemma rev_perms_valid : valid_perms rev_perms.
Proof. repeat split; intros l; cbn; apply Permutation_sym, Permutation_rev. Qed.

Lemma first_some_perm_none {A B} (f : A -> option B) l l' : Permutation l l' -> first_some f l = None -> first_some f l' = None.
Proof.
  intros HP. rewrite !first_some_none. intros H x Hx. apply H. eapply Permutation_in; [apply Permutation_sym; exact HP|exact Hx].
Qed.

(* WHETHER Check complains does not depend on the iteration order *)
Theorem config_check_verdict : forall P1 P2 t1 t2 o, valid_perms P1 -> valid_perms P2 ->
  (forall n, tget n t1 = tget n t2) ->
  (config_check P1 t1 o = None <-> config_check P2 t2 o = None).
Proof.
  assert (half : forall P1 P2 t1 t2 o, valid_perms P1 -> valid_perms P2 -> (forall n, tget n t1 = tget n t2) ->
                 config_check P1 t1 o = None -> config_check P2 t2 o = None).
  { intros P1 P2 t1 t2 o (_ & O1 & C1) (_ & O2 & C2) Ht. unfold config_check.
    destruct (first_some (check_op t1) (pm_ops P1 (o_ops o))) eqn:E1; [discriminate|].
    destruct (first_some check_cfn (pm_cfns P1 (o_cfns o))) eqn:E2; [discriminate|]. intros Herr.
    rewrite (first_some_ext (check_op t2) (check_op t1)) by (intros x; symmetry; apply check_op_ext; auto).
    rewrite (first_some_perm_none _ _ _ (Permutation_trans (O1 _) (Permutation_sym (O2 _))) E1).
    rewrite (first_some_perm_none _ _ _ (Permutation_trans (C1 _) (Permutation_sym (C2 _))) E2). exact Herr. }
  intros P1 P2 t1 t2 o V1 V2 Ht. split; apply half; auto.
Qed.

(* with at most one complaint per loop, also WHICH error is returned does not depend on it *)
Theorem config_check_single : forall P1 P2 t1 t2 o, valid_perms P1 -> valid_perms P2 ->
  (forall n, tget n t1 = tget n t2) ->
  List.length (faults (check_op t1) (o_ops o)) <= 1 -> List.length (faults check_cfn (o_cfns o)) <= 1 ->
  config_check P1 t1 o = config_check P2 t2 o.
Proof.
  intros P1 P2 t1 t2 o (_ & O1 & C1) (_ & O2 & C2) Ht L1 L2. unfold config_check.
  rewrite !first_some_hd.
  rewrite (faults_ext (check_op t2) (check_op t1)) by (intros x; symmetry; apply check_op_ext; auto).
  rewrite <- (perm_short _ _ (Permutation_sym (faults_perm (check_op t1) _ _ (O1 (o_ops o)))) L1).
  rewrite <- (perm_short _ _ (Permutation_sym (faults_perm (check_op t1) _ _ (O2 (o_ops o)))) L1).
  rewrite <- (perm_short _ _ (Permutation_sym (faults_perm check_cfn _ _ (C1 (o_cfns o)))) L2).
  rewrite <- (perm_short _ _ (Permutation_sym (faults_perm check_cfn _ _ (C2 (o_cfns o)))) L2).
  reflexivity.
Qed.

(* ====================================================================================== *)
(* expr.Compile under permutations of every inventoried map iteration                      *)
Definition front_lookup_only (front : table -> list (string * list string) -> list (string * bool) -> bool -> expr -> option expr) : Prop :=
  forall t1 t2 ops cf opt e, (forall n, tget n t1 = tget n t2) -> front t1 ops cf opt e = front t2 ops cf opt e.

Lemma ident_front_lookup_only : front_lookup_only ident_front.
Proof. intros t1 t2 ops cf opt e H. unfold ident_front. destruct e; auto. rewrite H. reflexivity. Qed.

Definition cres_same (a b : cres) : Prop :=
  match a, b with
  | CProg c1, CProg c2 => c1 = c2
  | CConfigErr _, CConfigErr _ => True
  | CRejected, CRejected => True
  | CFuel, CFuel => True
  | _, _ => False
  end.

Section CompileProofs.
Variable te : tenv.
Variable front : table -> list (string * list string) -> list (string * bool) -> bool -> expr -> option expr.
Hypothesis Hfront : front_lookup_only front.
Hypothesis Hwf : wf_tenv te = true.

Lemma types_of_indep P1 P2 o : valid_perms P1 -> valid_perms P2 -> env_keys_distinct o ->
  match types_of te P1 o, types_of te P2 o with
  | Some t1, Some t2 => forall n, tget n t1 = tget n t2
  | None, None => True
  | _, _ => False
  end.
Proof.
  intros (V1 & _) (V2 & _) Hk. unfold types_of. unfold env_keys_distinct in Hk.
  destruct (o_env o) as [env|]; [|reflexivity].
  apply (perm_independent te (pm_tab P1) (pm_tab P2) V1 V2 Hwf env).
  destruct env; auto.
Qed.

(* same verdict, and when a program comes out it is THE SAME program: bytes, constants in
   AST order and locations (the compiler itself is a function of the tree: BC/Compiler.v) *)
Theorem compile_perm_indep : forall P1 P2 o e, valid_perms P1 -> valid_perms P2 -> env_keys_distinct o ->
  cres_same (compile_with te front P1 o e) (compile_with te front P2 o e).
Proof.
  intros P1 P2 o e V1 V2 Hk. pose proof (types_of_indep P1 P2 o V1 V2 Hk) as Ht.
  unfold compile_with.
  destruct (types_of te P1 o) as [t1|], (types_of te P2 o) as [t2|]; try contradiction; [|exact I].
  pose proof (config_check_verdict P1 P2 t1 t2 o V1 V2 Ht) as Hv.
  destruct (config_check P1 t1 o) eqn:E1, (config_check P2 t2 o) eqn:E2; cbn; auto.
  - destruct Hv as [_ Hv]. specialize (Hv eq_refl). discriminate.
  - destruct Hv as [Hv _]. specialize (Hv eq_refl). discriminate.
  - rewrite (Hfront t1 t2 _ _ _ _ Ht). destruct (front t2 (o_ops o) (o_cfns o) (o_optimize o) e); cbn; auto.
Qed.

Corollary compile_perm_indep_prog : forall P1 P2 o e c, valid_perms P1 -> valid_perms P2 -> env_keys_distinct o ->
  compile_with te front P1 o e = CProg c -> compile_with te front P2 o e = CProg c.
Proof.
  intros P1 P2 o e c V1 V2 Hk H. pose proof (compile_perm_indep P1 P2 o e V1 V2 Hk) as S.
  rewrite H in S. destruct (compile_with te front P2 o e); cbn in S; try contradiction. subst. reflexivity.
Qed.

(* including the reported configuration error, outside the recorded defect *)
Theorem compile_perm_indep_full : forall P1 P2 o e, valid_perms P1 -> valid_perms P2 -> env_keys_distinct o ->
  K_check_order te o = false ->
  compile_with te front P1 o e = compile_with te front P2 o e.
Proof.
  intros P1 P2 o e V1 V2 Hk HK.
  pose proof (types_of_indep P1 P2 o V1 V2 Hk) as Ht.
  pose proof (types_of_indep id_perms P1 o id_perms_valid V1 Hk) as H0.
  unfold K_check_order in HK. unfold compile_with.
  destruct (types_of te id_perms o) as [t0|], (types_of te P1 o) as [t1|]; try contradiction;
    destruct (types_of te P2 o) as [t2|]; try contradiction; [|reflexivity].
  apply orb_false_iff in HK. destruct HK as [K1 K2]. apply Nat.ltb_ge in K1, K2.
  rewrite (faults_ext (check_op t0) (check_op t1)) in K1 by (intros x; apply check_op_ext; auto).
  rewrite (config_check_single P1 P2 t1 t2 o V1 V2 Ht K1 K2).
  destruct (config_check P2 t2 o); auto.
  rewrite (Hfront t1 t2 _ _ _ _ Ht). reflexivity.
Qed.
End CompileProofs.

(* the full statement (also the reported error is order-independent) is FALSE of the faithful
   model: two operators whose functions are missing — Check reports whichever Go visits first *)
Definition two_bad_operators : copts :=
  mkOpts None [("+"%string, ["nope"%string]); ("-"%string, ["nada"%string])] [] None CastNone true.

Definition compile_perm_indep_full_statement : Prop :=
  forall te front P1 P2 o e, front_lookup_only front -> wf_tenv te = true ->
    valid_perms P1 -> valid_perms P2 -> env_keys_distinct o ->
    compile_with te front P1 o e = compile_with te front P2 o e.

Theorem check_error_order_refuted :
  K_check_order [] two_bad_operators = true /\
  compile_with [] ident_front id_perms two_bad_operators (ENil ann0)
  <> compile_with [] ident_front rev_perms two_bad_operators (ENil ann0).
Proof. split; [reflexivity|]. vm_compute. discriminate. Qed.

Theorem compile_perm_indep_full_refuted : ~ compile_perm_indep_full_statement.
Proof.
  intros H. destruct check_error_order_refuted as [_ N]. apply N.
  apply H; auto using ident_front_lookup_only, id_perms_valid, rev_perms_valid. exact I.
Qed.

(* ====================================================================================== *)
(* makeConstant: the pool and the operands do not depend on the internal order of `index`  *)
Section PoolProofs.
Variable K : Type.
Variable keqb : K -> K -> bool.
Hypothesis keqb_spec : forall a b, keqb a b = true <-> a = b.
Variable hashable : K -> bool.
Variables pi1 pi2 : list (K * nat) -> list (K * nat).
Hypothesis V1 : forall l, Permutation (pi1 l) l.
Hypothesis V2 : forall l, Permutation (pi2 l) l.

Notation kassoc := (kassoc K keqb).

Lemma kassoc_none_notin k l : kassoc k l = None -> ~ In k (map fst l).
Proof.
  induction l as [|[k' p] l IH]; cbn; auto. destruct (keqb k' k) eqn:E; [discriminate|].
  intros H [->|Hin]; [|apply IH; auto].
  assert (keqb k k = true) by (apply keqb_spec; auto). congruence.
Qed.

Lemma kassoc_perm k : forall l l', Permutation l l' -> NoDup (map fst l) -> kassoc k l = kassoc k l'.
Proof.
  induction 1; intros ND; auto.
  - destruct x as [k' p]. cbn in *. inversion ND; subst. rewrite IHPermutation; auto.
  - destruct x as [k1 p1], y as [k2 p2]. cbn in *.
    destruct (keqb k2 k) eqn:E2, (keqb k1 k) eqn:E1; auto.
    apply keqb_spec in E1, E2. subst. inversion ND; subst. exfalso. apply H1. left; auto.
  - rewrite IHPermutation1; auto. apply IHPermutation2.
    eapply Permutation_NoDup; [|exact ND]. apply Permutation_map. auto.
Qed.

Definition pool_inv (a b : list K * list (K * nat)) : Prop :=
  fst a = fst b /\ Permutation (snd a) (snd b) /\ NoDup (map fst (snd a)).

Lemma make_constant_inv a b k : pool_inv a b ->
  pool_inv (fst (make_constant K keqb hashable pi1 a k)) (fst (make_constant K keqb hashable pi2 b k))
  /\ snd (make_constant K keqb hashable pi1 a k) = snd (make_constant K keqb hashable pi2 b k).
Proof.
  intros (Hp & Hperm & ND). unfold make_constant.
  assert (P12 : Permutation (pi1 (snd a)) (pi2 (snd b))).
  { eapply Permutation_trans; [apply V1|]. eapply Permutation_trans; [exact Hperm|]. apply Permutation_sym, V2. }
  assert (ND1 : NoDup (map fst (pi1 (snd a)))).
  { eapply Permutation_NoDup; [|exact ND]. apply Permutation_map, Permutation_sym, V1. }
  rewrite <- Hp.
  destruct (hashable k).
  - rewrite <- (kassoc_perm k _ _ P12 ND1).
    destruct (kassoc k (pi1 (snd a))) as [p|] eqn:E; cbn [fst snd].
    + split; [split; [reflexivity|split]|reflexivity]; cbn [fst snd]; auto.
    + split; [split; [reflexivity|split]|reflexivity]; cbn [fst snd].
      * apply perm_skip. exact P12.
      * cbn [map fst]. constructor; [apply kassoc_none_notin; auto|exact ND1].
  - split; [split; [reflexivity|split]|reflexivity]; cbn [fst snd]; auto.
Qed.

Lemma make_constants_inv ks : forall a b, pool_inv a b ->
  fst (fst (make_constants K keqb hashable pi1 ks a)) = fst (fst (make_constants K keqb hashable pi2 ks b))
  /\ snd (make_constants K keqb hashable pi1 ks a) = snd (make_constants K keqb hashable pi2 ks b).
Proof.
  induction ks as [|k ks IH]; intros a b I; cbn [make_constants].
  - destruct I as (Hp & _). auto.
  - destruct (make_constant_inv a b k I) as [I' Hop].
    destruct (make_constant K keqb hashable pi1 a k) as [a' p1], (make_constant K keqb hashable pi2 b k) as [b' p2].
    cbn [fst snd] in *. specialize (IH a' b' I').
    destruct (make_constants K keqb hashable pi1 ks a') as [a'' ps1], (make_constants K keqb hashable pi2 ks b') as [b'' ps2].
    cbn [fst snd] in *. destruct IH as [H1 H2]. subst. auto.
Qed.

Theorem pool_perm_indep ks : pool_of K keqb hashable pi1 ks = pool_of K keqb hashable pi2 ks.
Proof.
  unfold pool_of.
  assert (I : pool_inv ([], []) ([], [])) by (repeat split; auto; constructor).
  pose proof (make_constants_inv ks _ _ I) as [H1 H2].
  destruct (make_constants K keqb hashable pi1 ks ([], [])) as [a ps1], (make_constants K keqb hashable pi2 ks ([], [])) as [b ps2].
  cbn [fst snd] in *. subst. rewrite H1. reflexivity.
Qed.
End PoolProofs.

(* Conc/Frame.v — models for C08 (a compiled program can be run concurrently) and C09 (Compile and
   Run are pure and deterministic).  No proofs here.

   (1) A concurrent semantics over BC/VM.v: a SHARED, IMMUTABLE world (compiled programs, environment
       values, the sources/options of Compile calls, the oracles of the standard library and of the
       environment functions, the memory budget) and N PRIVATE goroutine states.  A schedule is a list
       of goroutine indices; each entry performs one step of that goroutine.  The step of a goroutine
       is `VM.tick` of the run in progress (`vm.Run` creates a fresh VM per call), the start of its
       next job, or a whole `Compile` (a function of the shared source, options and environment type).
       By typing, a step returns only a new private state: the program and the environment cannot be
       written.  That this typing is faithful to vm/*.go is the bridge obligation over the regenerated
       write set (Bridge/BrC0809.v).
   (2) The compile path with every Go map iteration as an explicit permutation argument:
       conf.CreateTypesTable / FieldsFromStruct (Ty/TypesTable.v), the two loops of Config.Check,
       and the `index` map of compiler.makeConstant (looked up, never iterated). *)
From Coq Require Import ZArith Bool List String Arith.
Require Import X.Base.Num X.Base.Value X.Syn.Ast X.Sem.Prim X.Sem.Sem X.BC.Instr X.BC.Compiler X.BC.VM.
Require Import X.Ty.Types X.Ty.TypesTable.
Import ListNotations.
Local Open Scope nat_scope.
Local Open Scope string_scope.
Local Open Scope list_scope.

(* ====================================================================================== *)
(* (1a) schedules over N private states, for ANY step function                            *)
Section Sched.
Variable T : Type.
Variable f : T -> T.     (* one step of a thread: a function of its own state and of what f closes over *)

Fixpoint upd (p : list T) (i : nat) (x : T) : list T :=
  match p, i with
  | [], _ => []
  | _ :: r, O => x :: r
  | y :: r, S j => y :: upd r j x
  end.

(* one entry of the schedule: thread i takes a step (an index outside the pool does nothing) *)
Definition sched_step (p : list T) (i : nat) : list T :=
  match nth_error p i with
  | Some t => upd p i (f t)
  | None => p
  end.

Definition run_sched (sched : list nat) (p : list T) : list T := fold_left sched_step sched p.

Fixpoint iter (n : nat) (t : T) : T :=
  match n with O => t | S k => iter k (f t) end.

Fixpoint count (i : nat) (sched : list nat) : nat :=
  match sched with
  | [] => 0
  | j :: r => (if Nat.eqb j i then 1 else 0) + count i r
  end.
End Sched.

(* ====================================================================================== *)
(* (1b) the shared world and the goroutines                                               *)
Record shared := mkShared {
  sh_fe    : fenv;                          (* regexp / math.Pow / environment functions (pure oracles) *)
  sh_cfg   : config;                        (* vm.MemoryBudget (read at run start), map-environment flag *)
  sh_progs : list code;                     (* compiled programs, constants inline *)
  sh_envs  : list value;                    (* environment values *)
  sh_srcs  : list (bool * cast * expr)      (* sources + options of the concurrent Compile calls *)
}.

Inductive job :=
| JRun (p e : nat)          (* vm.Run(progs[p], envs[e]) *)
| JCompile (k : nat).       (* compiler.Compile(srcs[k]) *)

Inductive jres :=
| RRan (r : result)
| RCompiled (c : code)
| RBad.                     (* index outside the shared world *)

(* a goroutine: remaining jobs, the run in progress, the results so far *)
Record gor := mkGor { g_jobs : list job; g_cur : option (nat * nat * rres); g_done : list jres }.

Definition start (jobs : list job) : gor := mkGor jobs None [].

Definition compile_job (sh : shared) (k : nat) : jres :=
  match nth_error (sh_srcs sh) k with
  | Some (m, c, e) => RCompiled (compile_program m c e)
  | None => RBad
  end.

Definition gstep (sh : shared) (g : gor) : gor :=
  match g_cur g with
  | Some (p, e, Running s) =>
      match nth_error (sh_progs sh) p, nth_error (sh_envs sh) e with
      | Some C, Some env => mkGor (g_jobs g) (Some (p, e, tick (sh_fe sh) (sh_cfg sh) env C s)) (g_done g)
      | _, _ => mkGor (g_jobs g) None (g_done g ++ [RBad])
      end
  | Some (_, _, Finished r _) => mkGor (g_jobs g) None (g_done g ++ [RRan r])
  | None =>
      match g_jobs g with
      | [] => g
      | JRun p e :: js => mkGor js (Some (p, e, Running init_state)) (g_done g)
      | JCompile k :: js => mkGor js None (g_done g ++ [compile_job sh k])
      end
  end.

(* the world: what is shared, and the private states.  A step returns the shared part as it was. *)
Definition world := (shared * list gor)%type.

Definition world_step (w : world) (i : nat) : world :=
  (fst w, sched_step gor (gstep (fst w)) (snd w) i).

Definition run_world (sched : list nat) (w : world) : world := fold_left world_step sched w.

(* what a job returns when executed alone (fuel 2^d dispatch steps per run; None = out of fuel) *)
Definition solo_job (sh : shared) (d : nat) (j : job) : option jres :=
  match j with
  | JRun p e =>
      match nth_error (sh_progs sh) p, nth_error (sh_envs sh) e with
      | Some C, Some env =>
          match run_code (sh_fe sh) (sh_cfg sh) env C d with
          | Some r => Some (RRan r)
          | None => None
          end
      | _, _ => Some RBad
      end
  | JCompile k => Some (compile_job sh k)
  end.

Fixpoint solo_results (sh : shared) (d : nat) (jobs : list job) : option (list jres) :=
  match jobs with
  | [] => Some []
  | j :: r =>
      match solo_job sh d j, solo_results sh d r with
      | Some x, Some xs => Some (x :: xs)
      | _, _ => None
      end
  end.

(* two oracle records that answer every question alike *)
Definition fenv_agree (a b : fenv) : Prop :=
  (forall id, fn_sig a id = fn_sig b id) /\
  (forall id recv args, fn_run a id recv args = fn_run b id recv args) /\
  (forall tn p name, fn_method a tn p name = fn_method b tn p name) /\
  (forall p x, re_match a p x = re_match b p x) /\
  (forall x y, f_pow a x y = f_pow b x y).

(* ====================================================================================== *)
(* (2a) Config.Check: two loops over Go maps, the FIRST error found is returned        *)
Inductive cerr :=
| ENoFunc (fn op : string)        (* "function %s for %s operator does not exist in environment" *)
| EBadSig (fn op : string)        (* "function %s for %s operator does not have a correct signature" *)
| ENotFunc (name : string)        (* "const expression %q must be a function" *)
| EStored (msg : string).         (* c.err recorded by ConstExpr *)

Record copts := mkOpts {
  o_env      : option envty;                       (* expr.Env(sample) *)
  o_ops      : list (string * list string);        (* c.Operators: operator -> functions (keys distinct) *)
  o_cfns     : list (string * bool);               (* c.ConstExprFns: name -> the fetched value is a func *)
  o_err      : option cerr;                        (* c.err *)
  o_cast     : cast;
  o_optimize : bool
}.

Fixpoint first_some {A B : Type} (f : A -> option B) (l : list A) : option B :=
  match l with
  | [] => None
  | x :: r => match f x with Some b => Some b | None => first_some f r end
  end.

Definition check_fn (types : table) (op fn : string) : option cerr :=
  match tget fn types with
  | Some tg =>
      match tg_ty tg with
      | TFunc ins _ outs =>
          if Nat.eqb (List.length ins) (if tg_method tg then 3 else 2) && Nat.eqb (List.length outs) 1
          then None else Some (EBadSig fn op)
      | _ => Some (ENoFunc fn op)
      end
  | None => Some (ENoFunc fn op)
  end.

Definition check_op (types : table) (e : string * list string) : option cerr :=
  first_some (check_fn types (fst e)) (snd e).

Definition check_cfn (e : string * bool) : option cerr :=
  if snd e then None else Some (ENotFunc (fst e)).

Record perms := mkPerms {
  pm_tab  : table -> table;                                              (* FieldsFromStruct / MapKeys *)
  pm_ops  : list (string * list string) -> list (string * list string);  (* range c.Operators *)
  pm_cfns : list (string * bool) -> list (string * bool)                 (* range c.ConstExprFns *)
}.

Definition id_perms : perms := mkPerms (fun t => t) (fun l => l) (fun l => l).
Definition rev_perms : perms := mkPerms (@rev _) (@rev _) (@rev _).

Definition config_check (P : perms) (types : table) (o : copts) : option cerr :=
  match first_some (check_op types) (pm_ops P (o_ops o)) with
  | Some e => Some e
  | None =>
      match first_some check_cfn (pm_cfns P (o_cfns o)) with
      | Some e => Some e
      | None => o_err o
      end
  end.

(* every complaint Check could make, in declaration order *)
Fixpoint faults {A : Type} (f : A -> option cerr) (l : list A) : list cerr :=
  match l with
  | [] => []
  | x :: r => match f x with Some e => e :: faults f r | None => faults f r end
  end.

(* ====================================================================================== *)
(* (2b) expr.Compile                                                                       *)
Inductive cres :=
| CProg (c : code)
| CConfigErr (e : cerr)
| CRejected          (* parser / checker / optimizer error *)
| CFuel.             (* cyclic embedding: the real FieldsFromStruct overflows the stack *)

Section CompilePath.
Variable te : tenv.
(* checker + operator patcher + visitors + second check + optimizer, as ONE function from the
   configuration to the tree the compiler receives (None = rejected).  The stages use the three maps
   of the configuration by key lookup only; that is a hypothesis of the theorems (FrameProofs.v)
   and an obligation on the regenerated inventory of map iterations (Bridge/BrC0809.v). *)
Variable front : table -> list (string * list string) -> list (string * bool) -> bool -> expr -> option expr.

Definition types_of (P : perms) (o : copts) : option table :=
  match o_env o with
  | None => Some []                       (* c.Types == nil: every lookup misses *)
  | Some env => create_types_table te (pm_tab P) env
  end.

Definition mapenv_of (o : copts) : bool :=
  match o_env o with Some env => is_map_env env | None => false end.

Definition compile_with (P : perms) (o : copts) (e : expr) : cres :=
  match types_of P o with
  | None => CFuel
  | Some tb =>
      match config_check P tb o with
      | Some er => CConfigErr er
      | None =>
          match front tb (o_ops o) (o_cfns o) (o_optimize o) e with
          | None => CRejected
          | Some e' => CProg (compile_program (mapenv_of o) (o_cast o) e')
          end
      end
  end.

(* the configuration has more than one complaint in one of the two loops: then WHICH one is
   returned depends on Go's iteration order (recorded defect C09-check-error-order) *)
Definition K_check_order (o : copts) : bool :=
  match types_of id_perms o with
  | Some tb => Nat.ltb 1 (List.length (faults (check_op tb) (o_ops o)))
               || Nat.ltb 1 (List.length (faults check_cfn (o_cfns o)))
  | None => false
  end.

Definition env_keys_distinct (o : copts) : Prop :=
  match o_env o with
  | Some (EMap _ entries) => NoDup (map fst entries)
  | _ => True
  end.
End CompilePath.

(* a front end for the examples: strict mode on a bare identifier *)
Definition ident_front (tb : table) (_ : list (string * list string)) (_ : list (string * bool)) (_ : bool) (e : expr) : option expr :=
  match e with
  | EIdent _ n _ => match tget n tb with Some _ => Some e | None => None end
  | _ => Some e
  end.

(* ====================================================================================== *)
(* (2c) compiler.makeConstant: the pool in emission order, the `index` map only LOOKED UP  *)
Section Pool.
Variable K : Type.
Variable keqb : K -> K -> bool.
Variable hashable : K -> bool.                     (* not a slice / map (a NaN is never found again: treat as unhashable) *)
Variable pi : list (K * nat) -> list (K * nat).    (* internal order of the Go map *)

Fixpoint kassoc (k : K) (l : list (K * nat)) : option nat :=
  match l with
  | [] => None
  | (k', p) :: r => if keqb k' k then Some p else kassoc k r
  end.

(* state: the pool, the index map; result: new state and the operand *)
Definition make_constant (st : list K * list (K * nat)) (k : K) : (list K * list (K * nat)) * nat :=
  let pool := fst st in
  let index := pi (snd st) in
  if hashable k then
    match kassoc k index with
    | Some p => ((pool, index), p)
    | None => ((pool ++ [k], (k, List.length pool) :: index), List.length pool)
    end
  else ((pool ++ [k], index), List.length pool).

Fixpoint make_constants (ks : list K) (st : list K * list (K * nat)) : (list K * list (K * nat)) * list nat :=
  match ks with
  | [] => (st, [])
  | k :: r =>
      let '(st1, p) := make_constant st k in
      let '(st2, ps) := make_constants r st1 in
      (st2, p :: ps)
  end.

(* what the program keeps: Constants and the operands written into Bytecode *)
Definition pool_of (ks : list K) : list K * list nat :=
  let '(st, ps) := make_constants ks ([], []) in (fst st, ps).
End Pool.

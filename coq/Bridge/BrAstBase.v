(* Bridge/BrAstBase.v — ast/node.go `base` (embedded in every node kind) REGENERATED: the annotations a node stores are a
   file.Location and a reflect.Type, each written by its setter and read back by its getter unchanged.  The models keep the
   location of a node as the pair (line, column) it was given (Syn/Ast.v); a packed, truncated or shared representation of the
   stored location changes this table and the lemma below no longer checks. *)
From Coq Require Import List String.
Require Import X.gen.GenWalk.
Import ListNotations.
Open Scope string_scope.

Definition base_fields_model : list (string * string) := [("loc", "file.Location"); ("nodeType", "reflect.Type")].
Definition base_methods_model : list (string * string) :=
  [("Location", "return r.loc"); ("SetLocation", "r.loc = x"); ("SetType", "r.nodeType = x"); ("Type", "return r.nodeType")].

Lemma gen_base_is_model : gen_base_fields = base_fields_model /\ gen_base_methods = base_methods_model.
Proof. vm_compute. split; reflexivity. Qed.

(* read-after-write on the stored annotations, stated on the regenerated table: the getter of each field returns exactly the
   field its setter assigns *)
Definition stores_and_returns (field getter setter : string) : Prop :=
  In (getter, "return r." ++ field) gen_base_methods /\ In (setter, "r." ++ field ++ " = x") gen_base_methods.

Lemma location_read_after_write : stores_and_returns "loc" "Location" "SetLocation".
Proof. destruct gen_base_is_model as [_ H]. unfold stores_and_returns. rewrite H. vm_compute. split; [left|right; left]; reflexivity. Qed.

Lemma type_read_after_write : stores_and_returns "nodeType" "Type" "SetType".
Proof. destruct gen_base_is_model as [_ H]. unfold stores_and_returns. rewrite H. vm_compute. split; [right; right; right; left|right; right; left]; reflexivity. Qed.

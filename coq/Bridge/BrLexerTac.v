(* Bridge/BrLexerTac.v — what the stage-1 files of the lexer bridge share (Bridge/BrLexerLx.v: lexer.go and utils.go,
   Bridge/BrLexerSt.v: state.go and Lex, Bridge/BrLexerRoot.v: root; assembled in Bridge/BrLexerFns.v):
   `genlexer_recognised`, the statement `fn_ok` of a stage-1 lemma, and the tactics of the symbolic execution. *)
From Coq Require Import ZArith List Bool String Ascii Lia.
Require Import X.Base.Value X.Syn.Tok X.Lex.Lexer X.Lex.LexRules X.Lex.LexRulesProofs X.gen.GenLexer.
Import ListNotations.
Local Open Scope string_scope.
Open Scope Z_scope.

(* nothing in the current source is outside the shapes the translator knows *)
Definition genlexer_all_recognised : bool :=
  forallb fdef_ok lexer_funs && forallb esc_ok unescape_escapes
  && match genlexer_unrecognised with [] => true | _ => false end.

Lemma genlexer_recognised : genlexer_all_recognised = true.
Proof. vm_compute. reflexivity. Qed.


(* the regenerated body of d, run with `call` for the callees, is `spec` *)
Definition fn_ok (ul ud us : Z -> bool) (F : nat) (call : string -> list val -> gst -> res (list val)) (d : fdef) : Prop :=
  forall args g, typed (fn_name d) args = true ->
    run_fn ul ud us call F d args g = spec ul ud us F (fn_name d) args g.

(* symbolic execution: unfold the interpreter over the (concrete) syntax, nothing else *)
Ltac evf :=
  lazy [run_fn exec exec_block eval eval_list eval_multi eval_bool match_any truth bind one assign assign_all upd nth
        get_field set_field get_sub set_sub loc_of bytes_of binop val_eqb is_nil option_map negb olbl_eqb Nat.eqb
        List.length app repeat map firstn skipn fn_body fn_params fn_locals fn_results fn_name uni
        spec prim rU rZ rB rS oF vfn stfn_name String.eqb Ascii.eqb Bool.eqb orb andb
        fn_Lex fn_root fn_identifier fn_not fn_acceptWord fn_dot fn_nilsafe fn_number fn_emit fn_scanNumber
        fn_IsAlphaNumeric fn_IsAlphabetic fn_peek fn_acceptRun fn_accept fn_backup fn_emitValue fn_word
        fn_scanString fn_scanEscape fn_scanDigits fn_digitVal fn_lower fn_error fn_IsSpace fn_ignore fn_emitEOF fn_next].
Ltac ev := evf; cbn [fst snd].

(* a call of a callee: answered by its hypothesis *)
Ltac calls :=
  repeat match goal with
         | H : sig_ok _ _ _ ?c _ _ |- context [?c ?n ?a ?g] => rewrite (H a g eq_refl)
         end.

Ltac go := repeat (progress (ev; calls)).

(* case analysis on the innermost condition *)
Ltac split_one :=
  match goal with
  | |- context [if ?c then _ else _] =>
    lazymatch c with
    | context [if _ then _ else _] => fail
    | context [match _ with _ => _ end] => fail
    | _ => destruct c eqn:?
    end
  | |- context [match ?o with Some _ => _ | None => _ end] =>
    lazymatch o with
    | context [if _ then _ else _] => fail
    | context [match _ with _ => _ end] => fail
    | _ => destruct o as [?|] eqn:?
    end
  end.

(* the pairs G-functions return *)
Ltac pairs := repeat match goal with p : (_ * _)%type |- _ => destruct p end.

Ltac crunch := repeat (split_one; pairs; go); reflexivity.

(* Before a case analysis the calls of G-functions on a state variable are replaced by variables: the kernel
   would otherwise unfold them when it re-checks the conversions at Qed (exponential in the nesting). *)
Ltac gen1 :=
  match goal with
  (* results that are inspected: they may block the execution on one side *)
  | |- context [g_next ?x] => is_var x; generalize (g_next x); intros [? ?]
  | |- context [g_peek ?x] => is_var x; generalize (g_peek x); intros [? ?]
  | |- context [g_accept ?v ?x] => is_var x; generalize (g_accept v x); intros [? ?]
  | |- context [g_acceptRun ?n ?v ?x] => is_var x; generalize (g_acceptRun n v x); intros [?|]
  | |- context [g_word ?x] => is_var x; generalize (g_word x); intro
  | |- context [unescape ?x] => is_var x; generalize (unescape x); intros [?|]
  | |- context [g_scanDigits ?n ?a ?b ?c ?x] => is_var x; generalize (g_scanDigits n a b c x); intros [[? ?]|]
  | |- context [g_scanEscape ?n ?q ?x] => is_var x; generalize (g_scanEscape n q x); intros [[? ?]|]
  | |- context [g_scanString ?n ?q ?x] => is_var x; generalize (g_scanString n q x); intros [[? ?]|]
  | |- context [g_scanNumber ?a ?b ?n ?x] => is_var x; generalize (g_scanNumber a b n x); intros [[? ?]|]
  | |- context [g_acceptWord ?n ?w ?x] => is_var x; generalize (g_acceptWord n w x); intros [[? ?]|]
  (* state transformers: never inspected, last *)
  | |- context [g_backup ?x] => is_var x; generalize (g_backup x); intro
  | |- context [g_error ?x] => is_var x; generalize (g_error x); intro
  | |- context [g_emit ?k ?x] => is_var x; generalize (g_emit k x); intro
  | |- context [g_emitValue ?k ?s ?x] => is_var x; generalize (g_emitValue k s x); intro
  | |- context [g_emitEOF ?x] => is_var x; generalize (g_emitEOF x); intro
  | |- context [g_ignore ?x] => is_var x; generalize (g_ignore x); intro
  end.
Ltac no_g c :=
  lazymatch c with
  | context [g_next _] => fail | context [g_peek _] => fail | context [g_backup _] => fail
  | context [g_accept _ _] => fail | context [g_acceptRun _ _ _] => fail | context [g_word _] => fail
  | context [g_scanDigits _ _ _ _ _] => fail | context [g_scanEscape _ _ _] => fail
  | context [g_scanString _ _ _] => fail | context [g_scanNumber _ _ _ _] => fail
  | context [g_acceptWord _ _ _] => fail
  | context [if _ then _ else _] => fail
  | context [match _ with _ => _ end] => fail
  | _ => idtac
  end.
(* case analysis on a condition that mentions no G-function *)
Ltac sp1 := match goal with |- context [if ?c then _ else _] => no_g c; destruct c end.
(* conditions first (they may hide a call on one side only), then ONE generalisation, then run on *)
Ltac case_step := first [sp1; go | gen1; cbn [fst snd]; go].
Ltac solve_cases := repeat case_step; reflexivity.

Ltac bad T := try (vm_compute in T; discriminate T).
Ltac no_args args T := destruct args; [|bad T]; clear T.
Ltac one_arg args T v :=
  destruct args as [|v [|? ?]]; bad T; destruct v; bad T; clear T.


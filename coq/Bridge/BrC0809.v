(* Bridge/BrC0809.v — the obligations that tie Conc/Frame.v to the CURRENT source (C08, C09).
   coq/gen/GenFrame.v is regenerated from /repo on every run; every lemma here is closed by
   computation, and is exactly what stops checking when somebody
     - adds a write to program.Constants / vm.constants[i] / vm.bytecode[i]   (ProgramShared),
     - adds a package-level cache or "last result" variable                     (PackageLevel),
     - stores into a value that came off the stack or from the environment       (EnvReachable),
       or calls reflect's Set*/SetMapIndex/Append or an in-place library routine on it,
     - starts a goroutine, takes a lock, reads a clock or a random source,
     - adds a `range` over a Go map on the compile path.
   The model's typing (`gstep : shared -> gor -> gor`, `compile_program : ... -> code`) is faithful
   to the code only as long as these lemmas hold. *)
From Coq Require Import Bool List String Arith.
Require Import X.gen.GenFrame.
Import ListNotations.
Open Scope string_scope.

Scheme Equality for wclass.
Scheme Equality for wkind.
Scheme Equality for rclass.

Definition mem (s : string) (l : list string) : bool := existsb (String.eqb s) l.
Definition has_prefix (ps : list string) (s : string) : bool := existsb (fun p => String.prefix p s) ps.

(* ---------------------------------------------------------------------------------------- *)
(* the run path: vm.Run and everything it reaches inside package vm                          *)

(* every write goes to the VM value of this call, to a local variable, or to an object created
   in this call (array := make, m := make, in := make, rng := make, scope := make(Scope) ...) *)
Definition run_class_ok (w : wentry) : bool := wclass_beq (w_class w) VmLocal.

Lemma run_writes_vm_local : forallb run_class_ok run_writes = true.
Proof. vm_compute. reflexivity. Qed.

Lemma run_writes_vm_local_forall : forall w, In w run_writes -> w_class w = VmLocal.
Proof.
  intros w H. pose proof run_writes_vm_local as F. rewrite forallb_forall in F.
  specialize (F w H). unfold run_class_ok in F. apply internal_wclass_dec_bl in F. exact F.
Qed.

(* no reflect.Value.Set*, SetMapIndex, reflect.Append/Copy anywhere on the run path *)
Lemma run_no_reflect_mutation : run_reflect_mutations = [].
Proof. vm_compute. reflexivity. Qed.

(* the library functions called on the run path neither write through their arguments nor
   consult process state: no sort.*, sync.*, time.*, rand.*, os.* ... *)
Definition pure_ext : list string :=
  ["fmt.Errorf"; "fmt.Sprintf"; "fmt.Sprint"; "errors.New";
   "reflect.DeepEqual"; "reflect.Indirect"; "reflect.TypeOf"; "reflect.ValueOf"; "reflect.Zero";
   "regexp.MatchString"; "regexp.Compile"; "regexp.MustCompile"; "regexp.QuoteMeta"].
Definition pure_ext_prefixes : list string := ["math."; "strings."; "strconv."; "unicode."; "utf8."].
Definition ext_pure (s : string) : bool := mem s pure_ext || has_prefix pure_ext_prefixes s.

Lemma run_extcalls_pure : forallb ext_pure run_extcalls = true.
Proof. vm_compute. reflexivity. Qed.

(* methods called on foreign values (reflect.Value, reflect.Type, *regexp.Regexp, error) are
   read-only ones; `Call` runs a function of the environment: outside the library (PARTIAL) *)
Definition readonly_methods : list string :=
  ["AssignableTo"; "Bind"; "Bool"; "Call"; "CanConvert"; "CanInterface"; "Cap"; "Convert"; "Elem"; "Error"; "Field";
   "FieldByName"; "Float"; "Implements"; "In"; "Index"; "Int"; "Interface"; "IsNil"; "IsValid"; "IsVariadic"; "IsZero";
   "Key"; "Kind"; "Len"; "MapIndex"; "MatchString"; "Method"; "MethodByName"; "Name"; "NumField"; "NumIn"; "NumMethod";
   "NumOut"; "Out"; "PkgPath"; "Slice"; "String"; "Type"; "Uint"].

Lemma run_methcalls_readonly : forallb (fun m => mem m readonly_methods) run_methcalls = true.
Proof. vm_compute. reflexivity. Qed.

(* the VM iterates no Go map: nothing in a run depends on map iteration order *)
Lemma run_no_map_range : run_map_ranges = [].
Proof. vm_compute. reflexivity. Qed.

(* non-vacuity of the inventory: the writes everybody knows are in it *)
Definition wentry_eqb (a b : wentry) : bool :=
  String.eqb (w_fn a) (w_fn b) && wkind_beq (w_kind a) (w_kind b) && String.eqb (w_target a) (w_target b) && wclass_beq (w_class a) (w_class b).

Lemma run_inventory_nonvacuous :
  existsb (wentry_eqb (mkW "vm.VM.push" KAppend "vm.stack" VmLocal)) run_writes = true /\
  existsb (wentry_eqb (mkW "vm.VM.Run" KElemStore "scope[key]" VmLocal)) run_writes = true /\
  existsb (wentry_eqb (mkW "vm.VM.Run" KElemStore "array[i]" VmLocal)) run_writes = true /\
  existsb (wentry_eqb (mkW "vm.VM.Run" KFieldStore "vm.memory" VmLocal)) run_writes = true /\
  existsb (wentry_eqb (mkW "vm.makeRange" KElemStore "rng[i]" VmLocal)) run_writes = true /\
  mem "vm.fetch" run_functions = true /\ mem "vm.in" run_functions = true /\ mem "vm.slice" run_functions = true /\
  mem "vm.FetchFn" run_functions = true /\ mem "vm.equal" run_functions = true /\
  Nat.leb 60 (List.length run_writes) = true /\ Nat.leb 25 (List.length run_functions) = true.
Proof. vm_compute. repeat split; reflexivity. Qed.

(* vm.MemoryBudget is the only package-level variable of package vm, and it is only read *)
Lemma vm_package_vars : filter (String.prefix "vm.") package_vars = ["vm.MemoryBudget"].
Proof. vm_compute. reflexivity. Qed.

(* ---------------------------------------------------------------------------------------- *)
(* the compile path                                                                          *)

(* every write goes to a local, to the receiver of the per-call object (compiler, Config,
   checker visitor, parser, lexer, optimizer pass) or into an object handed in by the caller of
   the same Compile call (the tree, the Config given to an Option): never to a package-level
   variable, never into the environment value *)
Definition compile_class_ok (w : wentry) : bool :=
  wclass_beq (w_class w) PerCall || wclass_beq (w_class w) PerCallArg.

Lemma compile_writes_per_call : forallb compile_class_ok compile_writes = true.
Proof. vm_compute. reflexivity. Qed.

Lemma compile_writes_per_call_forall : forall w, In w compile_writes -> w_class w = PerCall \/ w_class w = PerCallArg.
Proof.
  intros w H. pose proof compile_writes_per_call as F. rewrite forallb_forall in F.
  specialize (F w H). unfold compile_class_ok in F. apply orb_true_iff in F.
  destruct F as [F|F]; apply internal_wclass_dec_bl in F; auto.
Qed.

Lemma compile_no_reflect_mutation : compile_reflect_mutations = [].
Proof. vm_compute. reflexivity. Qed.

(* no clock, random source, process state, lock or goroutine machinery on the compile path *)
Definition nondeterministic_prefixes : list string :=
  ["time."; "rand."; "os."; "sync."; "atomic."; "unsafe."; "runtime."; "syscall."; "maps."; "crypto."].

Lemma compile_extcalls_deterministic : forallb (fun s => negb (has_prefix nondeterministic_prefixes s)) compile_extcalls = true.
Proof. vm_compute. reflexivity. Qed.

Lemma compile_inventory_nonvacuous :
  existsb (wentry_eqb (mkW "compiler.compiler.emit" KAppend "c.bytecode" PerCall)) compile_writes = true /\
  existsb (wentry_eqb (mkW "compiler.compiler.makeConstant" KElemStore "c.index[i]" PerCall)) compile_writes = true /\
  existsb (wentry_eqb (mkW "compiler.compiler.makeConstant" KAppend "c.constants" PerCall)) compile_writes = true /\
  existsb (wentry_eqb (mkW "ast.base.SetType" KFieldStore "n.nodeType" PerCall)) compile_writes = true /\
  existsb (wentry_eqb (mkW "checker.visitor.FunctionNode" KFieldStore "node.Fast" PerCallArg)) compile_writes = true /\
  existsb (wentry_eqb (mkW "ast.Patch" KDerefStore "*node" PerCallArg)) compile_writes = true /\
  existsb (wentry_eqb (mkW "expr.Env" KFieldStore "c.Types" PerCallArg)) compile_writes = true /\
  existsb (wentry_eqb (mkW "conf.Config.ConstExpr" KElemStore "c.ConstExprFns[name]" PerCall)) compile_writes = true /\
  Nat.leb 300 (List.length compile_writes) = true.
Proof. vm_compute. repeat split; reflexivity. Qed.

(* (c) THE inventory of iterations over Go maps (RMap) and over reflect's MapKeys() (RMapKeys):
   these, and only these, are the permutation arguments of Conc/Frame.v and Ty/TypesTable.v:
     Config.Check            range c.Operators, range c.ConstExprFns   -> pm_ops, pm_cfns
     CreateTypesTable        v.MapKeys()                                -> pm_tab (EMap)
     FieldsFromStruct        range FieldsFromStruct(f.Type)             -> pm_tab (ffs_step)
                             range types (selector-rule resolution)     -> pm_tab (resolve_entries)
     docgen                  tables and documentation maps              -> Ty/TypesTable.v doc_names
   A new entry (say `range c.index` in the compiler) makes this lemma fail. *)
Definition expected_map_ranges : list (string * string * rclass) := [
  ("conf.Config.Check", "_.ConstExprFns", RMap);
  ("conf.Config.Check", "_.Operators", RMap);
  ("conf.CreateTypesTable", "_.MapKeys()", RMapKeys);
  ("conf.FieldsFromStruct", "FieldsFromStruct(_.Type)", RMap);
  ("conf.FieldsFromStruct", "_", RMap);
  ("docgen.Context.Markdown", "_.Types", RMap);
  ("docgen.Context.Markdown", "_.Variables", RMap);
  ("docgen.Context.use", "conf.FieldsFromStruct(_)", RMap);
  ("docgen.CreateDoc", "Builtins", RMap);
  ("docgen.CreateDoc", "conf.CreateTypesTable(_)", RMap);
  ("docgen.fields", "_.Fields", RMap)
].

Lemma map_ranges_expected : compile_map_ranges = expected_map_ranges.
Proof. vm_compute. reflexivity. Qed.

(* the hypothesis `front_lookup_only` of C09_compile_perm_indep: parser, checker, operator
   patcher, optimizer and compiler iterate over no map at all (they use c.Types, c.Operators,
   c.ConstExprFns and the compiler's index by key) *)
Lemma front_iterates_no_map :
  forallb (fun r => has_prefix ["conf."; "docgen."] (fst (fst r))) compile_map_ranges = true.
Proof. vm_compute. reflexivity. Qed.

Lemma frame_recognised : frame_unrecognised = [].
Proof. vm_compute. reflexivity. Qed.

(* the conjunction quoted by Props/C08.v and Props/C09.v *)
Definition bridge_run_frame : Prop :=
  (forall w, In w run_writes -> w_class w = VmLocal) /\
  run_reflect_mutations = [] /\
  forallb ext_pure run_extcalls = true /\
  forallb (fun m => mem m readonly_methods) run_methcalls = true /\
  run_map_ranges = [] /\
  filter (String.prefix "vm.") package_vars = ["vm.MemoryBudget"] /\
  frame_unrecognised = [].

Lemma bridge_run_frame_holds : bridge_run_frame.
Proof.
  exact (conj run_writes_vm_local_forall (conj run_no_reflect_mutation (conj run_extcalls_pure
        (conj run_methcalls_readonly (conj run_no_map_range (conj vm_package_vars frame_recognised)))))).
Qed.

(* methods called on the compile path are read-only ones of reflect / regexp / strings.Replacer, or write
   into a buffer of the same call (PutUint16): in particular no Store / Load / LoadOrStore / Lock / Do of a
   process-wide cache *)
Definition compile_readonly_methods : list string := readonly_methods ++ ["MapKeys"; "Match"; "PutUint16"; "Replace"].

Lemma compile_methcalls_readonly : forallb (fun m => mem m compile_readonly_methods) compile_methcalls = true.
Proof. vm_compute. reflexivity. Qed.

(* THE package-level variables of the library: type constants of the checker, the parser's and docgen's
   tables, the lexer's replacer, vm.MemoryBudget.  None is written after initialisation
   (compile_writes_per_call / run_writes_vm_local: no write is classed PackageLevel); a new one (a cache,
   a "last result") makes this lemma fail *)
Definition expected_package_vars : list string :=
  ["ast.isCapital"; "checker.arrayType"; "checker.boolType"; "checker.floatType"; "checker.integerType";
   "checker.interfaceType"; "checker.mapType"; "checker.nilType"; "checker.stringType"; "docgen.Builtins";
   "docgen.Operators"; "docgen.isCapital"; "lexer.newlineNormalizer"; "parser.binaryOperators"; "parser.builtins";
   "parser.unaryOperators"; "vm.MemoryBudget"].

Lemma package_vars_expected : package_vars = expected_package_vars.
Proof. vm_compute. reflexivity. Qed.

Definition bridge_compile_frame : Prop :=
  (forall w, In w compile_writes -> w_class w = PerCall \/ w_class w = PerCallArg) /\
  compile_reflect_mutations = [] /\
  forallb (fun s => negb (has_prefix nondeterministic_prefixes s)) compile_extcalls = true /\
  compile_map_ranges = expected_map_ranges /\
  forallb (fun r => has_prefix ["conf."; "docgen."] (fst (fst r))) compile_map_ranges = true /\
  frame_unrecognised = [] /\
  forallb (fun m => mem m compile_readonly_methods) compile_methcalls = true /\
  package_vars = expected_package_vars.

Lemma bridge_compile_frame_holds : bridge_compile_frame.
Proof.
  exact (conj compile_writes_per_call_forall (conj compile_no_reflect_mutation (conj compile_extcalls_deterministic
        (conj map_ranges_expected (conj front_iterates_no_map (conj frame_recognised
        (conj compile_methcalls_readonly package_vars_expected))))))).
Qed.

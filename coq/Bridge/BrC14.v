(* Bridge/BrC14.v — obligations that tie the GENERATED helper table and checker weights
   (what vm/helpers.go and checker/types.go say now) to the reference promotion rule. *)
From Coq Require Import ZArith Bool List Lia String.
Require Import X.Base.Num X.Base.NumProofs X.gen.GenHelpers X.gen.GenWeights.
Import ListNotations.
Open Scope Z_scope.

(* Known finding C14-rank (KNOWN_FINDINGS.json): the generator lists `uint` before uint8 and
   `int` before int8, so these two kinds are treated as the LOWEST of their signedness.
   The carve-out is exactly the 12 ordered pairs where this contradicts "by width". *)
Definition narrow_u (k : kind) : bool := match k with KUint8 | KUint16 | KUint32 => true | _ => false end.
Definition narrow_s (k : kind) : bool := match k with KInt8 | KInt16 | KInt32 => true | _ => false end.
Definition K_rank (kx ky : kind) : bool :=
  match kx, ky with
  | KUint, k | k, KUint => narrow_u k
  | KInt, k | k, KInt => narrow_s k
  | _, _ => false
  end.

Lemma translator_recognised_helpers : helpers_unrecognised = [].
Proof. vm_compute. reflexivity. Qed.

Lemma translator_recognised_weights : weights_unrecognised = [].
Proof. vm_compute. reflexivity. Qed.

Definition triple_good (t : helper * kind * kind) : bool :=
  let '(h, kx, ky) := t in
  if K_rank kx ky then negb (triple_ok helper_case t) else triple_ok helper_case t.

Lemma table_sweep : forallb triple_good all_triples = true.
Proof. vm_compute. reflexivity. Qed.

Lemma all_kinds_complete k : In k all_kinds.
Proof. destruct k; cbn; tauto. Qed.
Lemma all_helpers_complete h : In h all_helpers.
Proof. destruct h; cbn; tauto. Qed.
Lemma all_triples_complete h kx ky : In (h, kx, ky) all_triples.
Proof.
  unfold all_triples. apply in_flat_map. exists h. split; [apply all_helpers_complete|].
  apply in_flat_map. exists kx. split; [apply all_kinds_complete|].
  apply in_map. apply all_kinds_complete.
Qed.

Lemma table_obeys_rule h kx ky : K_rank kx ky = false -> triple_ok helper_case (h, kx, ky) = true.
Proof.
  intros HK. pose proof (proj1 (forallb_forall _ _) table_sweep _ (all_triples_complete h kx ky)) as H.
  unfold triple_good in H. rewrite HK in H. exact H.
Qed.

Lemma carve_out_tight h kx ky : K_rank kx ky = true -> triple_ok helper_case (h, kx, ky) = false.
Proof.
  intros HK. pose proof (proj1 (forallb_forall _ _) table_sweep _ (all_triples_complete h kx ky)) as H.
  unfold triple_good in H. rewrite HK in H. apply negb_true_iff in H. exact H.
Qed.

(* value level, for ALL operand values *)
Lemma helper_follows_rule h x y :
  K_rank (num_kind x) (num_kind y) = false ->
  has_case h (num_kind x) (num_kind y) = true ->
  exists K, (K = num_kind x \/ K = num_kind y) /\
            ref_rank K = Z.max (ref_rank (num_kind x)) (ref_rank (num_kind y)) /\
            helper_num helper_case h x y = Some (apply_rule (helper_op h) K x y).
Proof.
  intros HK Hc. pose proof (table_obeys_rule h _ _ HK) as T. unfold triple_ok in T.
  unfold helper_num. destruct (helper_case h (num_kind x) (num_kind y)) as [[[cx cy] o]|].
  - apply andb_prop in T. destruct T as [_ T].
    destruct (entry_ok_sound _ _ _ _ _ _ T) as (K1 & K2 & K3 & K4).
    eexists; split; [exact K1|]. split; [exact K2|].
    rewrite <- (K4 x y eq_refl eq_refl).
    destruct (conv_opt cx x), (conv_opt cy y); reflexivity.
  - rewrite Hc in T. discriminate.
Qed.

Lemma helper_no_case h x y :
  has_case h (num_kind x) (num_kind y) = false -> helper_num helper_case h x y = None.
Proof.
  intros Hc. unfold helper_num.
  destruct h; try discriminate. destruct (num_kind x), (num_kind y); try discriminate; reflexivity.
Qed.

(* the checker predicts the kind the helper produces (all pairs, carve-out not needed) *)
Definition kind_pred_ok (t : helper * kind * kind) : bool :=
  let '(h, kx, ky) := t in
  match helper_case h kx ky with
  | Some e => match combined kx ky with Some k => kind_eqb k (entry_kind kx e) | None => false end
  | None => true
  end.

Lemma kind_sweep : forallb kind_pred_ok all_triples = true.
Proof. vm_compute. reflexivity. Qed.

Lemma kind_predicted h kx ky e :
  helper_case h kx ky = Some e -> combined kx ky = Some (entry_kind kx e).
Proof.
  intros He. pose proof (proj1 (forallb_forall _ _) kind_sweep _ (all_triples_complete h kx ky)) as H.
  unfold kind_pred_ok in H. rewrite He in H. destruct (combined kx ky); [|discriminate].
  apply kind_eqb_eq in H. congruence.
Qed.

Lemma unary_and_casts_total :
  negate_kinds = all_kinds /\ toInt_kinds = all_kinds /\ toInt64_kinds = all_kinds /\
  toFloat64_kinds = all_kinds /\ exponent_is_pow_of_float64 = true.
Proof. vm_compute. repeat split. Qed.

Lemma string_cases :
  map helper_string_case all_helpers =
  [Some OEq; Some OLt; Some OGt; Some OLe; Some OGe; Some OAdd; None; None; None; None].
Proof. vm_compute. reflexivity. Qed.

Lemma fallthroughs :
  map helper_fallthrough all_helpers =
  [FTNilSeqDeepEqual; FTPanic; FTPanic; FTPanic; FTPanic; FTPanic; FTPanic; FTPanic; FTPanic; FTPanic].
Proof. vm_compute. reflexivity. Qed.

(* Bridge/BrMembersBase.v (first half of the bridge; Bridge/BrMembers.v has the two lookups) — the REGENERATED terms of gen/GenMembers.v (checker/types.go: fieldType, methodType,
   dereference, read statement by statement by /verif/translator/gen_members.go on every run) run by
   Ty/MemberRules.v give the hand models field_type / method_type of Ty/TypesTable.v, for ALL type
   descriptions of the fragment, all declaration sets and all names.  Induction on the model's fuel
   (the embedding depth); the loops over NumField by induction on the field list. *)
From Coq Require Import Bool List String Arith Lia.
Require Import X.Ty.Types X.Ty.TypesTable.
Require Import X.Base.Num X.Base.Value X.Syn.Ast X.Walk.Walk X.Ops.Overload.
Require Import X.Ty.TableRules X.Ty.TableRulesProofs X.Ty.MemberRules X.gen.GenMembers.
Import ListNotations.
Local Open Scope string_scope.

(* nothing in the three functions was outside the shapes the translator reads, and no package-level
   variable they read is assigned anywhere in package checker *)
Theorem genmembers_recognised : forallb fdef_ok member_funcs = true /\ genmembers_problems = [].
Proof. split; vm_compute; reflexivity. Qed.

Local Arguments exec : simpl never.
Local Arguments exec_list : simpl never.
Local Arguments fields_of : simpl never.
Local Arguments nth_error : simpl never.
Local Arguments type_meth : simpl never.
Local Arguments String.eqb : simpl nomatch.

Lemma mrun_S : forall mb consts W fns n name args, member_oracle mb consts name args = None ->
  mrun mb consts W fns (S n) name args =
  match find_fn name fns with
  | None => Wrong
  | Some F =>
      if Nat.eqb (List.length args) (f_params F) then
        match exec_list W (mrun mb consts W fns n) (f_body F) (init_frame F args) with
        | ONext _ => Got []
        | OReturn vs _ => Got vs
        | OPanic => Panics
        | OFuel => NoFuel
        | OWrong => Wrong
        end
      else Wrong
  end.
Proof. intros mb consts W fns n name args H. cbn [mrun]. rewrite H. reflexivity. Qed.

Local Arguments mrun : simpl never.

(* the two calls the runner answers itself *)
Lemma iface_const_run : forall mb W fns n,
  mrun mb member_consts W fns n "interfaceType" [] = Got [DType TIface].
Proof. intros mb W fns n. destruct n; reflexivity. Qed.

Lemma method_by_name_run : forall mb consts W fns n t name,
  mrun mb consts W fns n "reflect.Type.MethodByName" [DType t; DStr name] =
  if is_nil_ty t then Panics
  else match mb t name with
       | Some mt => Got [DMethod (name, mt); DBool true]
       | None => Got [DMethod zero_method; DBool false]
       end.
Proof. intros mb consts W fns n t name. destruct n; reflexivity. Qed.

(* entering a function of the regenerated table *)
Ltac enter :=
  rewrite mrun_S by reflexivity;
  cbn [find_fn member_funcs f_name fn_field_type fn_method_type fn_dereference String.eqb Ascii.eqb Bool.eqb
       f_params f_slots f_body List.length Nat.eqb init_frame app repeat Nat.sub].

(* one statement; stops in front of a loop *)
Ltac unfold_stmt :=
  lazymatch goal with
  | |- context [exec ?W ?C (SScope ?l ?b) ?s] =>
      lazymatch b with
      | [SForIdx _ _ _] => fail
      | _ => rewrite (exec_scope W C l b s)
      end
  | |- context [exec _ _ (SIf _ _ _) _] => rewrite exec_if
  | |- context [exec _ _ (SSwitch _ _ _) _] => rewrite exec_switch
  | |- context [exec _ _ (SAssign _ _) _] => rewrite exec_assign
  | |- context [exec _ _ (SReturn _) _] => rewrite exec_return
  end.

Ltac step := first [ rewrite exec_list_nil | rewrite exec_list_cons; unfold_stmt ]; cbn.
Ltac steps := repeat step.

(* ------------------------------------------------------------------ reflect on an abstract type *)
Lemma type_meth_elem : forall W t, is_nil_ty t = false ->
  type_meth W t "Elem" [] = rbind (ty_elem t) (fun e => Got (DType e)).
Proof. intros W t H. unfold type_meth. rewrite H. reflexivity. Qed.

Lemma type_meth_numfield : forall W sn,
  type_meth W (TStruct sn) "NumField" [] = Got (DNat (List.length (fields_of (w_te W) (TStruct sn)))).
Proof. reflexivity. Qed.

Lemma type_meth_field : forall W sn i,
  type_meth W (TStruct sn) "Field" [DNat i] =
  match nth_error (fields_of (w_te W) (TStruct sn)) i with Some d => Got (DSField d) | None => Panics end.
Proof. reflexivity. Qed.

Lemma kind_under : forall t, kind_of_ty (under t) = kind_of_ty t.
Proof. induction t; try reflexivity. cbn [under kind_of_ty]. assumption. Qed.

Lemma under_not_named : forall t nm u, under t <> TNamed nm u.
Proof.
  induction t; intros nm u H; try discriminate H. cbn [under] in H.
  match goal with IH : forall _ _, _ <> _ |- _ => exact (IH nm u H) end.
Qed.

Lemma dereference_not_ptr : forall t e, dereference t <> TPtr e.
Proof. induction t; intros e0 H; try discriminate H. exact (IHt e0 H). Qed.

(* ------------------------------------------------------------------ dereference *)
(* what `dereference` hands back: the nil Type is the untyped nil *)
Definition deref_val (t : ty) : dval := if is_nil_ty (dereference t) then DNil else DType (dereference t).

Lemma checker_dereference_run : forall mb W t n, plain t = true -> ptr_depth t < n ->
  mrun mb member_consts W member_funcs n "dereference" [DType t] = Got [deref_val t].
Proof.
  intros mb W t. induction t; intros n Hp Hn; (destruct n as [|n]; [inversion Hn|]).
  all: try (vm_compute; reflexivity).
  - (* TPtr *) cbn [ptr_depth plain] in *. assert (Hn' : ptr_depth t < n) by lia.
    specialize (IHt n Hp Hn').
    enter. steps. rewrite (type_meth_kind W (TPtr t) eq_refl). cbn. steps.
    rewrite (type_meth_elem W (TPtr t) eq_refl). cbn. rewrite IHt. cbn. steps.
    unfold deref_val. cbn [dereference]. destruct (is_nil_ty (dereference t)); reflexivity.
  - (* TNamed *) cbn [plain] in Hp. apply andb_prop in Hp. destruct Hp as [Hp _].
    apply negb_true_iff in Hp. unfold is_kind_of in Hp.
    enter. steps. rewrite (type_meth_kind W (TNamed name t) eq_refl). cbn [kind_of_ty]. cbn. rewrite Hp. cbn. steps. reflexivity.
Qed.

Theorem checker_dereference_bridge : forall t fuel, plain t = true -> ptr_depth t < fuel ->
  gen_checker_dereference member_funcs member_consts fuel t = Got (dereference t).
Proof.
  intros t fuel Hp Hf. unfold gen_checker_dereference. rewrite (checker_dereference_run _ _ t fuel Hp Hf).
  unfold deref_val. destruct (dereference t); reflexivity.
Qed.

(* ------------------------------------------------------------------ a search loop over indices *)
Fixpoint first_lk {B V : Type} (cls : B -> lk V) (l : list B) : lk V :=
  match l with
  | [] => LMissing
  | x :: r => match cls x with LFound v => LFound v | LMissing => first_lk cls r | LFuel => LFuel end
  end.

(* the body leaves the function with the values vs, goes on with the frame it got, or (LFuel) is not looked at *)
Definition lk_out (r : lk (list dval)) (s s' : frame) : outcome :=
  match r with LFound vs => OReturn vs s' | LMissing => ONext s | LFuel => OFuel end.

Lemma scope_foridx_lk : forall W C (B : Type) (s : frame) (cls : B -> lk (list dval)) locs i bound body (l : list B),
  eval W C bound s = Got (DNat (List.length l)) ->
  (forall j, clear locs (upd i (DNat j) s) = s) -> clear locs s = s ->
  (forall j x, nth_error l j = Some x -> lk_fuel (cls x) = false ->
     exists s', exec_list W C body (upd i (DNat j) s) = lk_out (cls x) (upd i (DNat j) s) s') ->
  lk_fuel (first_lk cls l) = false ->
  exists s', exec W C (SScope locs [SForIdx i bound body]) s = lk_out (first_lk cls l) s s'.
Proof.
  intros W C B s cls locs i bound body l He Hc Hc0 Hb Hnf.
  rewrite exec_scope, exec_list_cons, exec_foridx, He. cbn [out_of].
  assert (G : forall (l2 : list B) n (s0 : frame),
            (forall j x, nth_error l2 j = Some x -> nth_error l (n + j) = Some x) ->
            (s0 = s \/ exists j, s0 = upd i (DNat j) s) ->
            lk_fuel (first_lk cls l2) = false ->
            match first_lk cls l2 with
            | LFound vs => exists s', iter (fun x s' => exec_list W C body (upd i (snd x) s'))
                                           (map (fun j => (DUnit, DNat j)) (seq n (List.length l2))) s0 = OReturn vs s'
            | LMissing => exists s1, iter (fun x s' => exec_list W C body (upd i (snd x) s'))
                                          (map (fun j => (DUnit, DNat j)) (seq n (List.length l2))) s0 = ONext s1
                                     /\ (s1 = s \/ exists j, s1 = upd i (DNat j) s)
            | LFuel => True
            end).
  { induction l2 as [|x r IH]; intros n s0 Hsub Hs0 Hf.
    - cbn [first_lk List.length seq map iter]. exists s0. split; [reflexivity|exact Hs0].
    - cbn [first_lk] in Hf |- *. cbn [List.length seq map iter snd].
      assert (Hx : upd i (DNat n) s0 = upd i (DNat n) s).
      { destruct Hs0 as [->|[y ->]]; [reflexivity|apply upd_upd]. }
      rewrite Hx.
      pose proof (Hsub 0 x eq_refl) as H0. rewrite Nat.add_0_r in H0.
      destruct (cls x) as [vs| |] eqn:Ecls.
      + destruct (Hb n x H0) as [s' Hs']; [rewrite Ecls; reflexivity|].
        rewrite Ecls in Hs'. cbn [lk_out] in Hs'. rewrite Hs'. exists s'. reflexivity.
      + destruct (Hb n x H0) as [s' Hs']; [rewrite Ecls; reflexivity|].
        rewrite Ecls in Hs'. cbn [lk_out] in Hs'. rewrite Hs'.
        apply (IH (S n)).
        * intros j y Hy. replace (S n + j) with (n + S j) by lia. apply Hsub. exact Hy.
        * right. exists n. reflexivity.
        * exact Hf.
      + exact I. }
  pose proof (G l 0 s (fun j x H => H) (or_introl eq_refl) Hnf) as G0.
  destruct (first_lk cls l) as [vs| |] eqn:Efl.
  - destruct G0 as [s' Hit]. rewrite Hit. exists s'. reflexivity.
  - destruct G0 as [s1 [Hit Hs1]]. rewrite Hit. rewrite exec_list_nil. exists [].
    destruct Hs1 as [->|[y ->]]; [rewrite Hc0|rewrite Hc]; reflexivity.
  - discriminate Hnf.
Qed.

Definition lk_map {A B : Type} (f : A -> B) (r : lk A) : lk B :=
  match r with LFound a => LFound (f a) | LMissing => LMissing | LFuel => LFuel end.

Lemma first_lk_find : forall (B V : Type) (p : B -> bool) (v : B -> V) (l : list B),
  first_lk (fun x => if p x then LFound (v x) else LMissing) l
  = match find p l with Some x => LFound (v x) | None => LMissing end.
Proof.
  intros B V p v l. induction l as [|x r IH]; [reflexivity|]. cbn [first_lk find].
  destruct (p x); [reflexivity|exact IH].
Qed.

Lemma first_lk_emb : forall (A V : Type) (g : A -> V) (rec : ty -> lk A) (fs : list fielddef),
  first_lk (fun f => if fd_anon f then lk_map g (rec (fd_ty f)) else LMissing) fs = lk_map g (first_emb rec fs).
Proof.
  intros A V g rec fs. induction fs as [|f r IH]; [reflexivity|]. cbn [first_lk first_emb].
  destruct (fd_anon f); [|exact IH].
  destruct (rec (fd_ty f)); cbn [lk_map]; [reflexivity|exact IH|reflexivity].
Qed.

Lemma lk_fuel_map : forall (A B : Type) (f : A -> B) r, lk_fuel (lk_map f r) = lk_fuel r.
Proof. intros A B f r. destruct r; reflexivity. Qed.

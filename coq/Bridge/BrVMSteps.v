(* Bridge/BrVMSteps.v — the step function of the model machine BC/VM.v IS the interpretation of the
   `case OpX:` that exists in vm/vm.go now (gen/GenVMSteps.v, regenerated on every run).

   For every IR instruction i (opcode name iname i, operand view view_of i), every code C with i at
   pc s and every state s:
       interp_case (case_of vm_src (iname i)) (view_of i) l s  =  step C s
   (case_agrees; the memory counter reported with a failure is normalised by crash_mem, see
   BC/VMSteps.v).  One lemma per opcode, so that a changed case names itself; then the statement for
   all instructions (vm_step_is_source_dispatch) under
     - vm_rep_ok: the model state stands for a Go state (vm.memory, MemoryBudget and len(vm.scopes) are
       64-bit ints; vm.memory >= 0), used by OpRange and OpEnd only;
     - vm_in_scope: the places where BC/VM.v and the Go text part, each refuted below where a witness
       can be computed (OpInc at the top of the int range, OpMap with a negative size, OpMap with
       too few operands and a key that is not a string); OpArray / OpMap with vm.memory + size above
       the int range (not refutable by computation: needs a stack of 2^63 - vm.memory entries); call
       sizes above the int range (no Go value).
   Then: the default case, the dispatch table against vm/opcodes.go, the prologue, the loop
   condition, the fetch part of the loop, the epilogue, the bodies of the small methods; one turn of
   the loop = BC/VM.tick, the loop = run_depth, Run on a machine in any state = run_code
   (vm_tick_is_source_loop, vm_run_depth_is_source_loop, vm_run_is_source_run, for as long as the visited
   states satisfy the side conditions: run_guard, executable); the byte level (the regenerated body of
   arg on the bytes of a decoded program returns the number the operand view describes); the deferred
   recover (location = program.Locations[vm.pp]).

   What is assumed is what BC/VMSteps.v lists in its header (operand views for inline constants,
   association lists for map scopes, vm.ip as a natural number, make never failing, helper calls as
   the primitives of Sem/Prim.v, vm.debug = false). *)
From Coq Require Import ZArith Bool List String Arith Lia.
Require Import X.Base.Num X.Base.Value X.Sem.Prim X.Sem.Sem X.BC.Instr X.BC.Decode X.BC.VM X.BC.Assemble
               X.BC.VMSteps X.gen.GenVMSteps X.gen.GenOpcodes X.BC.VMStepsProofs X.BC.AssembleProofs X.BC.Compiler X.Syn.Ast.
Import ListNotations.
Local Open Scope nat_scope.
Local Open Scope string_scope.
Local Open Scope list_scope.

Local Arguments wrap : simpl never.
Local Arguments Nat.ltb : simpl never.
Local Arguments Z.of_nat : simpl never.
Local Arguments Z.to_nat : simpl never.
Local Arguments Z.add : simpl never.
Local Arguments Z.sub : simpl never.
Local Arguments Z.mul : simpl never.
Local Arguments Z.ltb : simpl never.
Local Arguments Z.leb : simpl never.
Local Arguments slice_to : simpl never.
Local Arguments as_bool v : simpl nomatch.
Local Arguments as_int v : simpl nomatch.
Local Arguments as_str v : simpl nomatch.
Local Arguments to_int : simpl never.
Local Arguments to_int64 : simpl never.
Local Arguments to_float64 : simpl never.
Local Arguments p_negate : simpl never.
Local Arguments p_helper : simpl never.
Local Arguments p_fetch : simpl never.
Local Arguments p_slice : simpl never.
Local Arguments p_in : simpl never.
Local Arguments p_length : simpl never.
Local Arguments fetch_fn : simpl never.
Local Arguments fetch_fn_zero : simpl never.
Local Arguments make_range : simpl never.
Local Arguments range_size : simpl never.

(* nothing in the current source is outside the shapes the translator knows *)
Lemma vmsteps_recognised : vmsrc_recognised vm_src = true.
Proof. vm_compute. reflexivity. Qed.

Section Cases.
Variable fe : fenv.
Variable cfg : config.
Variable env : value.
Variable C : code.

Notation ok := (case_agrees fe cfg env C vm_src).

Ltac start := let F := fresh "F" in let opv := fresh "opv" in let bytes := fresh "bytes" in
  intros F bytes opv; unfold step; rewrite F; unfold interp_case, bin, bool_res, p_equal;
  match goal with s : state |- _ => destruct s as [p st sc [m tr]] end.

Ltac fin := change (0 <? 0)%Z with false; change (Z.to_nat 0) with 0%nat; cbn; rewrite ?Nat2Z.id;
  first [reflexivity
        | match goal with |- Some (Next (mkSt ?a _ _ _)) = Some (Next (mkSt ?b _ _ _)) => replace a with b by lia; reflexivity end].
Ltac outs := repeat (match goal with
   | |- context [match ?x with Ok _ => _ | Fail _ => _ end] =>
       lazymatch x with
       | context [match _ with Ok _ => _ | Fail _ => _ end] => fail
       | context [re_match] => fail
       | _ => destruct x eqn:?
       end
   end; cbn).
Ltac st1 := match goal with st : list value |- _ => destruct st as [|a st] end.
Ltac st2 := match goal with st : list value |- _ => destruct st as [|b [|a st]] end.
Ltac bin2 := start; st2; try fin; cbn; outs; fin.

(* ------------------------------------------------------------------ stack, constants, jumps;
   unary / binary helpers; equality family; fetch / property / index / slice; cast; scopes *)
Lemma case_OpPush_is_step s l v : fetch C (pc s) = Some (IPush v, l) -> ok (IPush v) l s.
Proof. start. fin. Qed.
Lemma case_OpPop_is_step s l : fetch C (pc s) = Some (IPop, l) -> ok IPop l s.
Proof. start. st1; fin. Qed.
Lemma case_OpRot_is_step s l : fetch C (pc s) = Some (IRot, l) -> ok IRot l s.
Proof. start. st2; fin. Qed.
Lemma case_OpTrue_is_step s l : fetch C (pc s) = Some (ITrue, l) -> ok ITrue l s.
Proof. start. fin. Qed.
Lemma case_OpFalse_is_step s l : fetch C (pc s) = Some (IFalse, l) -> ok IFalse l s.
Proof. start. fin. Qed.
Lemma case_OpNil_is_step s l : fetch C (pc s) = Some (INil, l) -> ok INil l s.
Proof. start. fin. Qed.
Lemma case_OpJump_is_step s l off : fetch C (pc s) = Some (IJump off, l) -> ok (IJump off) l s.
Proof. start. cbn. rewrite ip_add_nat. fin. Qed.
Lemma case_OpJumpIfTrue_is_step s l off : fetch C (pc s) = Some (IJumpIfTrue off, l) -> ok (IJumpIfTrue off) l s.
Proof. start. st1; [fin|]. cbn. outs; [|fin]. match goal with x : bool |- _ => destruct x end; cbn; rewrite ?ip_add_nat; fin. Qed.
Lemma case_OpJumpIfFalse_is_step s l off : fetch C (pc s) = Some (IJumpIfFalse off, l) -> ok (IJumpIfFalse off) l s.
Proof. start. st1; [fin|]. cbn. outs; [|fin]. match goal with x : bool |- _ => destruct x end; cbn; rewrite ?ip_add_nat; fin. Qed.
Lemma case_OpJumpBackward_is_step s l off : fetch C (pc s) = Some (IJumpBackward off, l) -> ok (IJumpBackward off) l s.
Proof. start. cbn. rewrite ip_sub_nat. replace (p + 1 + 2) with (p + 3) by lia. destruct (Nat.ltb (p + 3) off); fin. Qed.

(* unary / binary helpers *)
Lemma case_OpNegate_is_step s l : fetch C (pc s) = Some (INegate, l) -> ok INegate l s.
Proof. start. st1; [fin|]. cbn. outs; fin. Qed.
Lemma case_OpNot_is_step s l : fetch C (pc s) = Some (INot, l) -> ok INot l s.
Proof. start. st1; [fin|]. cbn. outs; fin. Qed.
Lemma case_OpEqual_is_step s l : fetch C (pc s) = Some (IEqual, l) -> ok IEqual l s.
Proof. bin2. Qed.
Lemma case_OpEqualInt_is_step s l : fetch C (pc s) = Some (IEqualInt, l) -> ok IEqualInt l s.
Proof. bin2. Qed.
Lemma case_OpEqualString_is_step s l : fetch C (pc s) = Some (IEqualString, l) -> ok IEqualString l s.
Proof. bin2. Qed.
Lemma case_OpIn_is_step s l : fetch C (pc s) = Some (IIn, l) -> ok IIn l s.
Proof. bin2. Qed.
Lemma case_OpLess_is_step s l : fetch C (pc s) = Some (ILess, l) -> ok ILess l s.
Proof. bin2. Qed.
Lemma case_OpMore_is_step s l : fetch C (pc s) = Some (IMore, l) -> ok IMore l s.
Proof. bin2. Qed.
Lemma case_OpLessOrEqual_is_step s l : fetch C (pc s) = Some (ILessOrEqual, l) -> ok ILessOrEqual l s.
Proof. bin2. Qed.
Lemma case_OpMoreOrEqual_is_step s l : fetch C (pc s) = Some (IMoreOrEqual, l) -> ok IMoreOrEqual l s.
Proof. bin2. Qed.
Lemma case_OpAdd_is_step s l : fetch C (pc s) = Some (IAdd, l) -> ok IAdd l s.
Proof. bin2. Qed.
Lemma case_OpSubtract_is_step s l : fetch C (pc s) = Some (ISubtract, l) -> ok ISubtract l s.
Proof. bin2. Qed.
Lemma case_OpMultiply_is_step s l : fetch C (pc s) = Some (IMultiply, l) -> ok IMultiply l s.
Proof. bin2. Qed.
Lemma case_OpDivide_is_step s l : fetch C (pc s) = Some (IDivide, l) -> ok IDivide l s.
Proof. bin2. Qed.
Lemma case_OpModulo_is_step s l : fetch C (pc s) = Some (IModulo, l) -> ok IModulo l s.
Proof. bin2. Qed.
Lemma case_OpExponent_is_step s l : fetch C (pc s) = Some (IExponent, l) -> ok IExponent l s.
Proof. start; st2; try fin; cbn; unfold h_exponent; outs; fin. Qed.
Lemma case_OpMatches_is_step s l : fetch C (pc s) = Some (IMatches, l) -> ok IMatches l s.
Proof. start; st2; try fin; cbn; outs; try fin. match goal with |- context [re_match ?f ?x ?y] => destruct (re_match f x y) end. all: fin. Qed.
Lemma case_OpMatchesConst_is_step s l re : fetch C (pc s) = Some (IMatchesConst re, l) -> ok (IMatchesConst re) l s.
Proof. start; st1; try fin; cbn; outs; try fin. match goal with |- context [re_match ?f ?x ?y] => destruct (re_match f x y) end; fin. Qed.
Lemma case_OpContains_is_step s l : fetch C (pc s) = Some (IContains, l) -> ok IContains l s.
Proof. bin2. Qed.
Lemma case_OpStartsWith_is_step s l : fetch C (pc s) = Some (IStartsWith, l) -> ok IStartsWith l s.
Proof. bin2. Qed.
Lemma case_OpEndsWith_is_step s l : fetch C (pc s) = Some (IEndsWith, l) -> ok IEndsWith l s.
Proof. bin2. Qed.
Lemma case_OpIndex_is_step s l : fetch C (pc s) = Some (IIndex, l) -> ok IIndex l s.
Proof. bin2. Qed.
Lemma case_OpSlice_is_step s l : fetch C (pc s) = Some (ISlice, l) -> ok ISlice l s.
Proof. start. destruct st as [|from [|to [|node st]]]; try fin. cbn; outs; fin. Qed.
Lemma case_OpProperty_is_step s l n : fetch C (pc s) = Some (IProperty n, l) -> ok (IProperty n) l s.
Proof. start; st1; try fin; cbn; outs; fin. Qed.
Lemma case_OpPropertyNilSafe_is_step s l n : fetch C (pc s) = Some (IPropertyNilSafe n, l) -> ok (IPropertyNilSafe n) l s.
Proof. start; st1; try fin; cbn; outs; fin. Qed.
Lemma case_OpFetch_is_step s l n : fetch C (pc s) = Some (IFetch n, l) -> ok (IFetch n) l s.
Proof. start; cbn; outs; fin. Qed.
Lemma case_OpFetchNilSafe_is_step s l n : fetch C (pc s) = Some (IFetchNilSafe n, l) -> ok (IFetchNilSafe n) l s.
Proof. start; cbn; outs; fin. Qed.
Lemma case_OpFetchMap_is_step s l n : fetch C (pc s) = Some (IFetchMap n, l) -> ok (IFetchMap n) l s.
Proof. start. destruct env as [| | | | | |kt et mm| | |kt et| | |]; try fin.
  - destruct kt; try fin; destruct et; fin.
  - destruct kt; try fin; destruct et; fin.
Qed.
Lemma case_OpLen_is_step s l : fetch C (pc s) = Some (ILen, l) -> ok ILen l s.
Proof. start; st1; try fin; cbn; outs; fin. Qed.
Lemma case_OpCast_is_step s l t : fetch C (pc s) = Some (ICast t, l) -> ok (ICast t) l s.
Proof. start. cbn. destruct (t =? 0)%Z; [st1; try fin; cbn; outs; fin|]. destruct (t =? 1)%Z; [st1; try fin; cbn; outs; fin|]. fin. Qed.
Lemma case_OpStore_is_step s l k : fetch C (pc s) = Some (IStore k, l) -> ok (IStore k) l s.
Proof. start. st1; try fin. destruct sc; fin. Qed.
Lemma case_OpLoad_is_step s l k : fetch C (pc s) = Some (ILoad k, l) -> ok (ILoad k) l s.
Proof. start. destruct sc; fin. Qed.
Lemma case_OpBegin_is_step s l : fetch C (pc s) = Some (IBegin, l) -> ok IBegin l s.
Proof. start. fin. Qed.

(* ------------------------------------------------------------------ accounting, scopes with arithmetic, loops, calls *)
Ltac rep R := unfold vm_rep_ok in R; cbn [scs stk rs r_mem] in R;
  repeat (let H := fresh "R" in apply andb_prop in R; destruct R as [R H]; apply Z.leb_le in H); apply Z.leb_le in R.

Lemma case_OpEnd_is_step s l : fetch C (pc s) = Some (IEnd, l) -> vm_rep_ok cfg s = true -> ok IEnd l s.
Proof.
  intros F R. revert F. start. rep R.
  destruct sc as [|sc0 r].
  - fin.
  - cbn. rewrite slice_to_scopes_pop by exact R0. fin.
Qed.

Lemma case_OpInc_is_step s l k : fetch C (pc s) = Some (IInc k, l) -> vm_in_scope (IInc k) s = true -> ok (IInc k) l s.
Proof.
  intros F R. revert F. start. cbn [vm_in_scope scs] in R.
  destruct sc as [|sc0 r]; [fin|].
  cbn. destruct (sget sc0 k) as [v|]; [|fin].
  destruct (as_int v) as [n|e] eqn:E; [|fin].
  apply as_int_inv in E. subst v. apply in_range_int in R.
  cbn. rewrite (wrap_int_id (n + 1)) by exact R. fin.
Qed.


Ltac fill_simple E :=
  match goal with |- context [iter_down _ ?B _] =>
    let HB := fresh "HB" in
    assert (HB : forall idx ip pp st sc m tr l, (0 <= idx < Z.of_nat (List.length l))%Z ->
       B idx (mkG ip pp st sc m tr (E l) None) =
       match st with
       | v :: st' => GOk tt (mkG ip pp st' sc m tr (E (set_nth (Z.to_nat idx) v l)) None)
       | [] => GPanic EMachine m tr end);
    [ let Hidx := fresh "Hidx" in
      intros ? ? ? [|? ?] ? ? ? ? Hidx; [reflexivity|]; cbn; rewrite (bounds_ok _ _ Hidx); reflexivity
    | rewrite (iter_fill B E HB) ]
  end.

Lemma case_OpArray_is_step s l : fetch C (pc s) = Some (IArray, l) -> vm_rep_ok cfg s = true -> vm_in_scope IArray s = true -> ok IArray l s.
Proof.
  intros F R S. revert F. start. rep R. cbn [vm_in_scope stk rs r_mem] in S.
  st1; [fin|].
  cbn. destruct (as_int a) as [n|e] eqn:E; [|fin].
  apply as_int_inv in E. subst a. apply Z.leb_le in S.
  cbn. destruct (Z.ltb_spec n 0) as [Hn|Hn]; [fin|].
  cbn. rewrite loop_count_Z by lia.
  fill_simple (fun l : list value => [(2, GVals l); (1, GInt n); (0, opv)]).
  2: { rewrite repeat_length. lia. }
  destruct (popn (Z.to_nat n) st []) as [[xs st']|] eqn:P.
  - assert (Hlen : ~ List.length st < Z.to_nat n) by (intros Hc; apply (popn_none _ _ []) in Hc; congruence).
    destruct (Z.ltb_spec (Z.of_nat (List.length st)) n); [lia|].
    rewrite skipn_repeat_all, app_nil_r. cbn.
    rewrite (wrap_int_id (m + n)) by (rewrite min_int_val; lia).
    unfold alloc. cbn. destruct (c_limit cfg <=? m + n)%Z; fin.
  - destruct (Z.of_nat (List.length st) <? n)%Z; fin.
Qed.

Ltac fill_pairs E :=
  match goal with |- context [iter_down _ ?B _] =>
    let HB := fresh "HB" in
    assert (HB : forall idx ip pp st sc m tr mp,
       B idx (mkG ip pp st sc m tr (E mp) None) =
       match st with
       | v :: k :: st' =>
           match as_str k with
           | Ok s => GOk tt (mkG ip pp st' sc m tr (E (map_put s v mp)) None)
           | Fail e => GPanic e m tr
           end
       | _ => GPanic EMachine m tr end);
    [ intros ? ? ? [|? [|? ?]] ? ? ? ?; try reflexivity; cbn;
      match goal with |- context [as_str ?k] => destruct (as_str k) end; reflexivity
    | rewrite (iter_pairs B E HB) ]
  end.

Lemma case_OpMap_is_step s l : fetch C (pc s) = Some (IMap, l) -> vm_rep_ok cfg s = true -> vm_in_scope IMap s = true -> ok IMap l s.
Proof.
  intros F R S. revert F. start. rep R. cbn [vm_in_scope stk rs r_mem] in S.
  st1; [fin|].
  cbn. destruct (as_int a) as [n|e] eqn:E; [|fin].
  apply as_int_inv in E. subst a. apply andb_prop in S. destruct S as [S S2]. apply andb_prop in S. destruct S as [S1 S0].
  apply Z.leb_le in S1. apply Z.leb_le in S0. apply Z.leb_le in S2.
  cbn. destruct (Z.ltb_spec n 0) as [Hn|Hn]; [lia|].
  cbn. rewrite loop_count_Z by lia.
  fill_pairs (fun mp : list (value * value) => [(2, GMap mp); (1, GInt n); (0, opv)]).
  2: lia.
  destruct (Z.ltb_spec (Z.of_nat (List.length st)) (2 * n)); [lia|].
  destruct (pop_pairs (Z.to_nat n) st []) as [[kvs st']|] eqn:P; [|fin].
  destruct (keys_as_str kvs) as [skvs|e] eqn:K; [|fin].
  rewrite build_onto_nil. cbn.
  rewrite (wrap_int_id (m + n)) by (rewrite min_int_val; lia).
  unfold alloc. cbn. destruct (c_limit cfg <=? m + n)%Z; fin.
Qed.

Lemma case_OpCallFast_is_step s l name n : fetch C (pc s) = Some (ICallFast name n, l) -> vm_in_scope (ICallFast name n) s = true -> ok (ICallFast name n) l s.
Proof.
  intros F S. revert F. start. cbn [vm_in_scope] in S. apply Z.leb_le in S.
  cbn. unfold call_const. cbn. destruct (Z.ltb_spec (Z.of_nat n) 0) as [Hn|Hn]; [lia|]. cbn.
  rewrite loop_count_nat by exact S. rewrite Nat2Z.id.
  fill_simple (fun l : list value => [(2, GVals l); (1, GCallC name (Z.of_nat n)); (0, opv)]).
  2: { rewrite repeat_length. lia. }
  destruct (popn n st []) as [[xs st']|] eqn:P; [|fin].
  rewrite skipn_repeat_all, app_nil_r. cbn.
  destruct (fetch_fn fe env name) as [id|e]; [|fin].
  cbn. unfold do_call, fast_call. destruct (fn_sig fe id) as [sg|]; [|fin].
  destruct (s_fast sg); [|fin]. cbn. unfold fast_call, log_call. cbn.
  destruct (fn_run fe id env xs); fin.
Qed.

Ltac fill_hack E :=
  match goal with |- context [iter_down _ ?B _] =>
    let HB := fresh "HB" in
    assert (HB : forall idx ip pp st sc m tr l, (0 <= idx < Z.of_nat (List.length l))%Z ->
       B idx (mkG ip pp st sc m tr (E l) None) =
       match st with
       | v :: st' => GOk tt (mkG ip pp st' sc m tr (E (set_nth (Z.to_nat idx) v l)) None)
       | [] => GPanic EMachine m tr end);
    [ let Hidx := fresh "Hidx" in let v := fresh "v" in
      intros ? ? ? [|v ?] ? ? ? ? Hidx; [reflexivity|]; cbn; destruct v; cbn; rewrite (bounds_ok _ _ Hidx); reflexivity
    | rewrite (iter_fill B E HB) ]
  end.

Ltac call_tail := 
  unfold do_call, reflect_call;
  match goal with |- context [fn_sig ?f ?id] => destruct (fn_sig f id) as [sg|]; [|fin] end;
  match goal with |- context [args_ok ?a ?b ?c] => destruct (args_ok a b c); [|fin] end;
  cbn; unfold log_call; cbn;
  match goal with |- context [fn_run ?f ?id ?r ?xs] => destruct (fn_run f id r xs); [|fin] end;
  cbn; match goal with |- context [(s_nout ?sg =? 0)%Z] => destruct (s_nout sg =? 0)%Z end; fin.

Lemma case_OpCall_is_step s l name n : fetch C (pc s) = Some (ICall name n, l) -> vm_in_scope (ICall name n) s = true -> ok (ICall name n) l s.
Proof.
  intros F S. revert F. start. cbn [vm_in_scope] in S. apply Z.leb_le in S.
  cbn. unfold call_const. cbn. destruct (Z.ltb_spec (Z.of_nat n) 0) as [Hn|Hn]; [lia|]. cbn.
  rewrite loop_count_nat by exact S. rewrite Nat2Z.id.
  fill_hack (fun l : list value => [(2, GVals l); (1, GCallC name (Z.of_nat n)); (0, opv)]).
  2: { rewrite repeat_length. lia. }
  destruct (popn n st []) as [[xs st']|] eqn:P; [|fin].
  rewrite skipn_repeat_all, app_nil_r. cbn.
  destruct (fetch_fn fe env name) as [id|e]; [|fin].
  cbn. call_tail.
Qed.

Lemma case_OpMethod_is_step s l name n : fetch C (pc s) = Some (IMethod name n, l) -> vm_in_scope (IMethod name n) s = true -> ok (IMethod name n) l s.
Proof.
  intros F S. revert F. start. cbn [vm_in_scope] in S. apply Z.leb_le in S.
  cbn. unfold call_const. cbn. destruct (Z.ltb_spec (Z.of_nat n) 0) as [Hn|Hn]; [lia|]. cbn.
  rewrite loop_count_nat by exact S. rewrite Nat2Z.id.
  fill_hack (fun l : list value => [(2, GVals l); (1, GCallC name (Z.of_nat n)); (0, opv)]).
  2: { rewrite repeat_length. lia. }
  destruct (popn n st []) as [[xs st']|] eqn:P; [|fin].
  rewrite skipn_repeat_all, app_nil_r. cbn.
  destruct st' as [|obj st']; [fin|]. cbn.
  destruct (fetch_fn fe obj name) as [id|e]; [|fin].
  cbn. call_tail.
Qed.

Lemma case_OpMethodNilSafe_is_step s l name n : fetch C (pc s) = Some (IMethodNilSafe name n, l) -> vm_in_scope (IMethodNilSafe name n) s = true -> ok (IMethodNilSafe name n) l s.
Proof.
  intros F S. revert F. start. cbn [vm_in_scope] in S. apply Z.leb_le in S.
  cbn. unfold call_const. cbn. destruct (Z.ltb_spec (Z.of_nat n) 0) as [Hn|Hn]; [lia|]. cbn.
  rewrite loop_count_nat by exact S. rewrite Nat2Z.id.
  fill_hack (fun l : list value => [(2, GVals l); (1, GCallC name (Z.of_nat n)); (0, opv)]).
  2: { rewrite repeat_length. lia. }
  destruct (popn n st []) as [[xs st']|] eqn:P; [|fin].
  rewrite skipn_repeat_all, app_nil_r. cbn.
  destruct st' as [|obj st']; [fin|]. cbn.
  destruct obj; try fin.
  all: match goal with |- context [fetch_fn_zero ?o ?nm] => destruct (fetch_fn_zero o nm) end; [fin|].
  all: match goal with |- context [fetch_fn ?f ?o ?nm] => destruct (fetch_fn f o nm) as [id|e]; [|fin] end; cbn; call_tail.
Qed.

Lemma case_OpRange_is_step s l : fetch C (pc s) = Some (IRange, l) -> vm_rep_ok cfg s = true -> ok IRange l s.
Proof.
  intros F R. revert F. start. rep R.
  st2; try fin.
  cbn. destruct (to_int a) as [lo|e] eqn:Ea; [|fin]. cbn.
  destruct (to_int b) as [hi|e] eqn:Eb; [|fin]. cbn.
  apply to_int_range in Ea. apply to_int_range in Eb.
  unfold range_size.
  rewrite min_int_val, max_int_val in *.
  destruct (Z.leb_spec lo hi) as [Hle|Hlt].
  - destruct (Z.ltb_spec hi lo) as [Hc|_]; [lia|].
    rewrite (wrap_int_add_l (hi - lo) 1).
    set (sz := (hi - lo + 1)%Z) in *. assert (Hsz : (1 <= sz <= 18446744073709551616)%Z) by (subst sz; lia).
    destruct (Z.leb_spec sz 9223372036854775807) as [Hs|Hs].
    + rewrite (wrap_int_id sz) by (rewrite min_int_val, max_int_val; lia).
      destruct (Z.leb_spec sz 0) as [Hc|_]; [lia|]. cbn.
      destruct (Z.leb_spec (m + sz) 9223372036854775807) as [Hm|Hm].
      * assert (Hw : wrap KInt (m + sz) = (m + sz)%Z) by (apply wrap_int_id; rewrite min_int_val, max_int_val; lia).
        rewrite Hw. destruct (Z.ltb_spec (m + sz) m) as [Hc|_]; [lia|]. cbn. rewrite ?Hw.
        unfold alloc. cbn. destruct (c_limit cfg <=? m + sz)%Z; cbn; rewrite ?Hw; fin.
      * assert (Hw : wrap KInt (m + sz) = (m + sz - 2 ^ 64)%Z) by (apply wrap_int_high; rewrite max_int_val; lia).
        rewrite Hw. destruct (Z.ltb_spec (m + sz - 2 ^ 64) m) as [_|Hc]; [|lia]. cbn.
        unfold alloc. cbn. destruct (Z.leb_spec (c_limit cfg) (m + sz)) as [_|Hc]; [fin|lia].
    + rewrite (wrap_int_high sz) by (rewrite max_int_val; lia).
      destruct (Z.leb_spec (sz - 2 ^ 64) 0) as [_|Hc]; [|lia]. cbn. fin.
  - destruct (Z.ltb_spec hi lo) as [_|Hc]; [|lia]. cbn.
    assert (Hw : wrap KInt (m + 0) = m) by (rewrite Z.add_0_r; apply wrap_int_id; rewrite min_int_val, max_int_val; lia).
    rewrite ?Hw. unfold alloc. cbn. rewrite Z.add_0_r. destruct (c_limit cfg <=? m)%Z; cbn; rewrite ?Hw; fin.
Qed.

(* ------------------------------------------------------------------ every instruction *)
Theorem vm_step_is_source_dispatch s i l :
  fetch C (pc s) = Some (i, l) -> vm_rep_ok cfg s = true -> vm_in_scope i s = true ->
  case_agrees fe cfg env C vm_src i l s.
Proof.
  intros F R S. destruct i.
  - apply case_OpPush_is_step; assumption.
  - apply case_OpPop_is_step; assumption.
  - apply case_OpRot_is_step; assumption.
  - apply case_OpFetch_is_step; assumption.
  - apply case_OpFetchNilSafe_is_step; assumption.
  - apply case_OpFetchMap_is_step; assumption.
  - apply case_OpTrue_is_step; assumption.
  - apply case_OpFalse_is_step; assumption.
  - apply case_OpNil_is_step; assumption.
  - apply case_OpNegate_is_step; assumption.
  - apply case_OpNot_is_step; assumption.
  - apply case_OpEqual_is_step; assumption.
  - apply case_OpEqualInt_is_step; assumption.
  - apply case_OpEqualString_is_step; assumption.
  - apply case_OpJump_is_step; assumption.
  - apply case_OpJumpIfTrue_is_step; assumption.
  - apply case_OpJumpIfFalse_is_step; assumption.
  - apply case_OpJumpBackward_is_step; assumption.
  - apply case_OpIn_is_step; assumption.
  - apply case_OpLess_is_step; assumption.
  - apply case_OpMore_is_step; assumption.
  - apply case_OpLessOrEqual_is_step; assumption.
  - apply case_OpMoreOrEqual_is_step; assumption.
  - apply case_OpAdd_is_step; assumption.
  - apply case_OpSubtract_is_step; assumption.
  - apply case_OpMultiply_is_step; assumption.
  - apply case_OpDivide_is_step; assumption.
  - apply case_OpModulo_is_step; assumption.
  - apply case_OpExponent_is_step; assumption.
  - apply case_OpRange_is_step; assumption.
  - apply case_OpMatches_is_step; assumption.
  - apply case_OpMatchesConst_is_step; assumption.
  - apply case_OpContains_is_step; assumption.
  - apply case_OpStartsWith_is_step; assumption.
  - apply case_OpEndsWith_is_step; assumption.
  - apply case_OpIndex_is_step; assumption.
  - apply case_OpSlice_is_step; assumption.
  - apply case_OpProperty_is_step; assumption.
  - apply case_OpPropertyNilSafe_is_step; assumption.
  - apply case_OpCall_is_step; assumption.
  - apply case_OpCallFast_is_step; assumption.
  - apply case_OpMethod_is_step; assumption.
  - apply case_OpMethodNilSafe_is_step; assumption.
  - apply case_OpArray_is_step; assumption.
  - apply case_OpMap_is_step; assumption.
  - apply case_OpLen_is_step; assumption.
  - apply case_OpCast_is_step; assumption.
  - apply case_OpStore_is_step; assumption.
  - apply case_OpLoad_is_step; assumption.
  - apply case_OpInc_is_step; assumption.
  - apply case_OpBegin_is_step; assumption.
  - apply case_OpEnd_is_step; assumption.
Qed.

Corollary model_vm_is_source_dispatch s :
  vm_rep_ok cfg s = true -> vm_in_scope_at C s = true -> agrees fe cfg env C vm_src s.
Proof.
  unfold agrees, vm_in_scope_at. intros R S. destruct (fetch C (pc s)) as [[i l]|] eqn:F; [|exact I].
  apply vm_step_is_source_dispatch; assumption.
Qed.

(* the instructions whose case needs no side condition at all: 43 of the 52 *)
Definition unconditional (i : instr) : bool :=
  match i with
  | IRange | IEnd | IInc _ | IArray | IMap | ICall _ _ | ICallFast _ _ | IMethod _ _ | IMethodNilSafe _ _ => false
  | _ => true
  end.

Theorem vm_step_is_source_dispatch_unconditional s i l :
  fetch C (pc s) = Some (i, l) -> unconditional i = true -> case_agrees fe cfg env C vm_src i l s.
Proof.
  intros F U. destruct i; try discriminate U.
  - apply case_OpPush_is_step; assumption.
  - apply case_OpPop_is_step; assumption.
  - apply case_OpRot_is_step; assumption.
  - apply case_OpFetch_is_step; assumption.
  - apply case_OpFetchNilSafe_is_step; assumption.
  - apply case_OpFetchMap_is_step; assumption.
  - apply case_OpTrue_is_step; assumption.
  - apply case_OpFalse_is_step; assumption.
  - apply case_OpNil_is_step; assumption.
  - apply case_OpNegate_is_step; assumption.
  - apply case_OpNot_is_step; assumption.
  - apply case_OpEqual_is_step; assumption.
  - apply case_OpEqualInt_is_step; assumption.
  - apply case_OpEqualString_is_step; assumption.
  - apply case_OpJump_is_step; assumption.
  - apply case_OpJumpIfTrue_is_step; assumption.
  - apply case_OpJumpIfFalse_is_step; assumption.
  - apply case_OpJumpBackward_is_step; assumption.
  - apply case_OpIn_is_step; assumption.
  - apply case_OpLess_is_step; assumption.
  - apply case_OpMore_is_step; assumption.
  - apply case_OpLessOrEqual_is_step; assumption.
  - apply case_OpMoreOrEqual_is_step; assumption.
  - apply case_OpAdd_is_step; assumption.
  - apply case_OpSubtract_is_step; assumption.
  - apply case_OpMultiply_is_step; assumption.
  - apply case_OpDivide_is_step; assumption.
  - apply case_OpModulo_is_step; assumption.
  - apply case_OpExponent_is_step; assumption.
  - apply case_OpMatches_is_step; assumption.
  - apply case_OpMatchesConst_is_step; assumption.
  - apply case_OpContains_is_step; assumption.
  - apply case_OpStartsWith_is_step; assumption.
  - apply case_OpEndsWith_is_step; assumption.
  - apply case_OpIndex_is_step; assumption.
  - apply case_OpSlice_is_step; assumption.
  - apply case_OpProperty_is_step; assumption.
  - apply case_OpPropertyNilSafe_is_step; assumption.
  - apply case_OpLen_is_step; assumption.
  - apply case_OpCast_is_step; assumption.
  - apply case_OpStore_is_step; assumption.
  - apply case_OpLoad_is_step; assumption.
  - apply case_OpBegin_is_step; assumption.
Qed.

(* the default case: an opcode byte without a case is a malformed program *)
Lemma default_case_is_machine_failure bytes opv view l s :
  interp_case fe cfg env bytes opv (v_default vm_src) view l s = Some (Crash EMachine l (rs s)).
Proof. destruct s as [p st sc [m tr]]. reflexivity. Qed.

End Cases.

(* ------------------------------------------------------------------ the carve-outs are needed *)
Definition w_fe : fenv :=
  mkFenv (fun _ => None) (fun _ _ _ => Fail EUser) (fun _ _ _ => None) (fun _ _ => None) (fun x _ => x).
Definition w_cfg : config := mkCfg false 1000000.

Definition vm_step_full_statement : Prop :=
  forall fe cfg env C s, vm_rep_ok cfg s = true -> agrees fe cfg env C vm_src s.

(* OpInc on a counter at the top of the int range: Go wraps to the bottom, the model counts on *)
Definition w_inc_code : code := [(IInc "i", noloc)].
Definition w_inc_state : state := mkSt 0 [] [[("i", vint (max_of KInt))]] rs0.

Lemma inc_wraps_in_go :
  vm_rep_ok w_cfg w_inc_state = true /\ vm_in_scope_at w_inc_code w_inc_state = false /\
  interp_case w_fe w_cfg VNil [] GOpcode (case_of vm_src "OpInc") (view_of (IInc "i")) noloc w_inc_state
    = Some (Next (mkSt 3 [] [[("i", vint (min_of KInt)); ("i", vint (max_of KInt))]] rs0)) /\
  step w_fe w_cfg VNil w_inc_code w_inc_state
    = Next (mkSt 3 [] [[("i", vint (max_of KInt + 1)); ("i", vint (max_of KInt))]] rs0).
Proof. vm_compute. repeat split. Qed.

Theorem vm_step_full_statement_refuted : ~ vm_step_full_statement.
Proof.
  intros H. specialize (H w_fe w_cfg VNil w_inc_code w_inc_state eq_refl).
  unfold agrees in H. cbn [w_inc_code w_inc_state pc fetch Nat.eqb] in H. specialize (H [] GOpcode).
  vm_compute in H. discriminate H.
Qed.

(* OpMap with a negative size: make(map[string]interface{}) takes no size, Go builds an empty map and
   SUBTRACTS from vm.memory; the model refuses *)
Definition w_mapneg_code : code := [(IMap, noloc)].
Definition w_mapneg_state : state := mkSt 0 [vint (-1)] [] (mkRS 5 []).
Lemma map_negative_size_in_go :
  vm_rep_ok w_cfg w_mapneg_state = true /\ vm_in_scope_at w_mapneg_code w_mapneg_state = false /\
  interp_case w_fe w_cfg VNil [] GOpcode (case_of vm_src "OpMap") VwNone noloc w_mapneg_state
    = Some (Next (mkSt 1 [VMap TString TIface []] [] (mkRS 4 []))) /\
  step w_fe w_cfg VNil w_mapneg_code w_mapneg_state = Crash EOther noloc (mkRS 5 []).
Proof. vm_compute. repeat split. Qed.

(* OpMap with too few operands and a key that is not a string: Go meets the key first *)
Definition w_mapkey_state : state := mkSt 0 [vint 2; VStr "v"; VBool true] [] rs0.
Lemma map_underflow_key_order :
  vm_rep_ok w_cfg w_mapkey_state = true /\ vm_in_scope_at w_mapneg_code w_mapkey_state = false /\
  interp_case w_fe w_cfg VNil [] GOpcode (case_of vm_src "OpMap") VwNone noloc w_mapkey_state
    = Some (Crash EIfaceConv noloc rs0) /\
  step w_fe w_cfg VNil w_mapneg_code w_mapkey_state = Crash EMachine noloc rs0.
Proof. vm_compute. repeat split. Qed.

(* ------------------------------------------------------------------ switch op *)
Fixpoint nodupb (l : list string) : bool :=
  match l with [] => true | x :: r => negb (existsb (String.eqb x) r) && nodupb r end.

(* every opcode of vm/opcodes.go has exactly one case, and there is no case for anything else *)
Lemma dispatch_covers_opcodes :
  forallb (fun n => match lookup_case n (v_cases vm_src) with Some _ => true | None => false end) opcode_names = true
  /\ forallb (fun c => existsb (String.eqb (fst c)) opcode_names) (v_cases vm_src) = true
  /\ nodupb (map fst (v_cases vm_src)) = true.
Proof. vm_compute. repeat split. Qed.

Lemma switch_tag_is_op : v_switch_tag vm_src = XVar 0.
Proof. reflexivity. Qed.

(* the case the switch selects for the opcode byte of an IR instruction *)
Lemma dispatch_by_byte i b : opcode_of (iname i) = Some b -> opname b = Some (iname i).
Proof. apply opname_of. Qed.

Section Loop.
Variable fe : fenv.
Variable cfg : config.
Variable env : value.
Variable view : opview.
Variable bytes : list Z.

Notation X := (gexec_list fe cfg env view bytes).
Notation EV := (geval fe cfg env view bytes).

(* for vm.ip < len(vm.bytecode) *)
Lemma loop_cond_is ip pp st sc m tr lc :
  EV (v_loop_cond vm_src) (mkG ip pp st sc m tr lc None)
  = GOk (GBool (Z.of_nat ip <? Z.of_nat (List.length bytes))%Z) (mkG ip pp st sc m tr lc None).
Proof. reflexivity. Qed.

(* vm.pp = vm.ip; vm.ip++; op := vm.bytecode[vm.pp] *)
Lemma loop_head_is ip pp st sc m tr lc b :
  nth_error bytes ip = Some b ->
  X (v_loop_head vm_src) (mkG ip pp st sc m tr lc None)
  = GOk tt (mkG (ip + 1) ip st sc m tr ((0, GByte b) :: lc) None).
Proof.
  intros H. cbn. rewrite Nat.sub_diag. cbn [skipn].
  destruct (Z.ltb_spec (Z.of_nat ip) 0) as [Hc|_]; [lia|]. rewrite Nat2Z.id. cbn.
  change (ip_add ip 1) with (Some (ip + 1)). cbn.
  destruct (Z.ltb_spec (Z.of_nat ip) 0) as [Hc|_]; [lia|]. rewrite Nat2Z.id, H. reflexivity.
Qed.

Lemma loop_tail_is g : X (v_loop_tail vm_src) g = GOk tt g.
Proof. destruct g as [ip pp st sc m tr lc rt]. cbn. rewrite Nat.sub_diag. destruct rt; reflexivity. Qed.

(* if len(vm.stack) > 0 { return vm.pop(), nil }; return nil, nil *)
Lemma epilogue_is ip pp st sc m tr lc :
  X (v_epilogue vm_src) (mkG ip pp st sc m tr lc None)
  = GOk tt (mkG ip pp (match st with _ :: r => r | [] => [] end) sc m tr lc
                (Some [match st with v :: _ => GIface v | [] => GNilLit end; GNilLit])).
Proof.
  cbn. rewrite Nat.sub_diag. cbn [skipn]. destruct st as [|v r].
  - change (0 <? Z.of_nat (@List.length value []))%Z with false. cbn. rewrite ?Nat.sub_diag. reflexivity.
  - cbn. destruct (Z.ltb_spec 0 (Z.of_nat (S (List.length r)))) as [_|Hc]; [|lia]. cbn.
    rewrite ?Nat.sub_diag. reflexivity.
Qed.

(* the prologue of Run: whatever an earlier run left, the loop starts from the initial state *)
Lemma prologue_is ip pp st sc m tr lc :
  X (v_prologue vm_src) (mkG ip pp st sc m tr lc None) = GOk tt (mkG 0 0 [] [] 0 tr lc None).
Proof.
  cbn. rewrite Z.eqb_refl. cbn. change (0 <? 0)%Z with false. cbn. change (Z.to_nat 0) with 0.
  destruct st as [|v st]; cbn; rewrite ?slice_to_stack_zero; cbn; rewrite ?Nat.sub_diag; cbn [skipn];
    (destruct sc as [|sc0 sc]; cbn; rewrite ?slice_to_scopes_zero; cbn; rewrite ?Nat.sub_diag; reflexivity).
Qed.

(* both branches of `if vm.stack == nil` (and of `if vm.scopes != nil`) leave the slice empty: a VM whose
   stack is empty but not nil takes the other branch in Go and ends in the same state *)
Lemma prologue_branches_agree ip pp sc m tr lc :
  EV (XMake "[]interface{}" [XInt 0; XInt 2]) (mkG ip pp [] sc m tr lc None)
  = EV (XSliceE (XVmField "stack") (Some (XInt 0)) (Some (XInt 0))) (mkG ip pp [] sc m tr lc None).
Proof. reflexivity. Qed.

End Loop.

(* ---- the small methods: what the interpreter builds in is what their regenerated bodies do ---- *)
Section Methods.
Variable fe : fenv.
Variable cfg : config.
Variable env : value.
Variable view : opview.
Variable bytes : list Z.
Local Arguments gindex : simpl never.

Definition method_body (n : string) : list vstmt :=
  match lookup_case n (map (fun m => (fst m, snd (snd m))) (v_methods vm_src)) with
  | Some b => b | None => [VUnrecognised n] end.

Notation RM := (run_method fe cfg env view bytes).

Lemma method_push_is x v ip pp st sc m tr lc :
  val_of x = Some v ->
  RM (method_body "push") [x] (mkG ip pp st sc m tr lc None) = vm_push x (mkG ip pp st sc m tr lc None).
Proof. intros H. unfold vm_push. rewrite H. cbn. unfold run_method, method_push. cbn. rewrite H. reflexivity. Qed.

Lemma method_pop_is ip pp st sc m tr lc :
  (Z.of_nat (List.length st) <= max_of KInt)%Z ->
  RM (method_body "pop") [] (mkG ip pp st sc m tr lc None) = vm_pop (mkG ip pp st sc m tr lc None).
Proof.
  intros H. destruct st as [|v r].
  - reflexivity.
  - cbn. unfold run_method, method_pop. cbn.
    rewrite index_stack_top by exact H. cbn. rewrite slice_to_stack_pop by exact H. reflexivity.
Qed.

Lemma method_current_is ip pp st sc m tr lc :
  (Z.of_nat (List.length st) <= max_of KInt)%Z ->
  RM (method_body "current") [] (mkG ip pp st sc m tr lc None) = vm_current (mkG ip pp st sc m tr lc None).
Proof.
  intros H. destruct st as [|v r].
  - reflexivity.
  - cbn. unfold run_method, method_current. cbn.
    rewrite index_stack_top by exact H. reflexivity.
Qed.

Lemma method_constant_is ip pp st sc m tr lc :
  RM (method_body "constant") [] (mkG ip pp st sc m tr lc None)
  = vm_method view bytes "constant" [] (mkG ip pp st sc m tr lc None).
Proof. destruct view; reflexivity. Qed.

Lemma method_Stack_is ip pp st sc m tr lc :
  RM (method_body "Stack") [] (mkG ip pp st sc m tr lc None) = GOk (GStack st) (mkG ip pp st sc m tr lc None).
Proof. reflexivity. Qed.

(* vm.Scope(): the innermost scope, or nil; the interpreter keeps it as the reference GScopeTop *)
Lemma method_Scope_is ip pp st sc m tr lc :
  (Z.of_nat (List.length sc) <= max_of KInt)%Z ->
  RM (method_body "Scope") [] (mkG ip pp st sc m tr lc None)
  = GOk (match sc with sc0 :: _ => GScopeVal sc0 | [] => GNilLit end) (mkG ip pp st sc m tr lc None).
Proof.
  intros H. destruct sc as [|sc0 r].
  - reflexivity.
  - cbn. unfold run_method, method_Scope. cbn.
    destruct (Z.ltb_spec 0 (Z.of_nat (S (List.length r)))) as [_|Hc]; [|lia]. cbn.
    rewrite index_scopes_top by exact H. reflexivity.
Qed.
End Methods.

Section Tick.
Variable fe : fenv.
Variable cfg : config.
Variable env : value.
Variable C : code.

(* one turn of `for vm.ip < len(vm.bytecode) { fetch; switch op {...} }`, or the epilogue, is BC/VM.tick *)
Theorem vm_tick_is_source_loop s :
  (pc s < csize C -> fetch C (pc s) <> None) ->
  vm_rep_ok cfg s = true -> vm_in_scope_at C s = true ->
  option_map (tick_mem (r_mem (rs s))) (interp_tick fe cfg env C vm_src s) = Some (tick fe cfg env C s).
Proof.
  intros HB R S. unfold interp_tick, tick.
  rewrite loop_cond_is, ir_bytes_length.
  destruct (Nat.ltb_spec (pc s) (csize C)) as [Hlt|Hge].
  - destruct (Z.ltb_spec (Z.of_nat (pc s)) (Z.of_nat (csize C))) as [_|Hc]; [|lia].
    destruct (fetch C (pc s)) as [[i l]|] eqn:F; [|exfalso; exact (HB Hlt eq_refl)].
    rewrite (loop_head_is fe cfg env VwNone (ir_bytes C) _ _ _ _ _ _ _ _ (ir_bytes_fetch _ _ _ _ F)).
    cbn [v_switch_tag vm_src]. unfold vm_switch_tag. cbn [geval get_loc Nat.eqb g_loc].
    rewrite opbyte_name.
    pose proof (model_vm_is_source_dispatch fe cfg env C s R S) as A. unfold agrees in A. rewrite F in A.
    specialize (A (ir_bytes C) (GByte (opbyte i))). unfold interp_case, genter in A.
    destruct (gexec_list fe cfg env (view_of i) (ir_bytes C) (case_of vm_src (iname i)) _) as [u g2|e m tr|] eqn:E.
    + rewrite loop_tail_is. cbn in A. injection A as A. rewrite <- A. reflexivity.
    + cbn in A. injection A as A. rewrite <- A. reflexivity.
    + discriminate A.
  - destruct (Z.ltb_spec (Z.of_nat (pc s)) (Z.of_nat (csize C))) as [Hc|_]; [lia|].
    rewrite epilogue_is. cbn [g_ret g_mem g_tr gleave].
    destruct s as [p st sc [m tr]]. cbn [stk scs rs r_mem r_trace pc]. destruct st; reflexivity.
Qed.

Lemma erase_tick_mem m r : erase_crash_mem (tick_mem m r) = erase_crash_mem r.
Proof. destruct r as [s'|[v s'|e l s'] last]; reflexivity. Qed.

Lemma erase_running r s' : erase_crash_mem r = Running s' -> r = Running s'.
Proof. destruct r as [s''|[v s''|e l s''] last]; cbn; intros H; try discriminate H; exact H. Qed.

Lemma erase_finished r r0 last : erase_crash_mem r = erase_crash_mem (Finished r0 last) ->
  exists r1, r = Finished r1 last /\ erase_stop_mem r1 = erase_stop_mem r0.
Proof.
  destruct r as [s''|[v s''|e l s''] last']; destruct r0 as [v0 s0|e0 l0 s0]; cbn; intros H; try discriminate H;
    inversion H; subst; eexists; split; reflexivity.
Qed.

Lemma guard1_spec s : guard1 cfg C s = true ->
  (pc s < csize C -> fetch C (pc s) <> None) /\ vm_rep_ok cfg s = true /\ vm_in_scope_at C s = true.
Proof.
  unfold guard1. intros H. apply andb_prop in H. destruct H as [H H3]. apply andb_prop in H. destruct H as [H1 H2].
  repeat split; try assumption. intros Hlt. apply Nat.ltb_lt in Hlt. rewrite Hlt in H1.
  destruct (fetch C (pc s)); [discriminate|discriminate H1].
Qed.

(* up to 2^d turns of the source loop are BC/VM.run_depth, as long as the visited states are in scope *)
Theorem vm_run_depth_is_source_loop : forall d s,
  run_guard fe cfg env C d s = true ->
  option_map erase_crash_mem (interp_run_depth fe cfg env C vm_src d s)
  = Some (erase_crash_mem (run_depth fe cfg env C d s)).
Proof.
  induction d as [|d IH]; intros s G.
  - cbn [run_guard] in G. apply guard1_spec in G. destruct G as [G1 [G2 G3]].
    pose proof (vm_tick_is_source_loop s G1 G2 G3) as T. cbn [interp_run_depth run_depth].
    destruct (interp_tick fe cfg env C vm_src s) as [r|]; [|discriminate T].
    cbn in T. injection T as T. cbn. rewrite <- T, erase_tick_mem. reflexivity.
  - cbn [run_guard] in G. apply andb_prop in G. destruct G as [G1 G2].
    pose proof (IH s G1) as H1. cbn [interp_run_depth run_depth].
    destruct (interp_run_depth fe cfg env C vm_src d s) as [r|]; [|discriminate H1].
    cbn in H1. injection H1 as H1.
    destruct (run_depth fe cfg env C d s) as [s'|r0 last] eqn:E.
    + apply erase_running in H1. subst r. apply IH. exact G2.
    + destruct (erase_finished _ _ _ H1) as [r1 [-> _]]. cbn [option_map]. rewrite H1. reflexivity.
Qed.

(* Run on a machine left in any state by an earlier run: prologue, loop, epilogue = BC/VM.run_code *)
Theorem vm_run_is_source_run d before :
  run_guard fe cfg env C d init_state = true ->
  option_map erase_stop_mem (interp_run fe cfg env C vm_src d before)
  = option_map erase_stop_mem (run_code fe cfg env C d).
Proof.
  intros G. unfold interp_run, run_code. rewrite prologue_is. cbn [gleave].
  change (mkSt 0 [] [] (mkRS 0 [])) with init_state.
  pose proof (vm_run_depth_is_source_loop d init_state G) as H.
  destruct (interp_run_depth fe cfg env C vm_src d init_state) as [r|]; [|discriminate H].
  cbn in H. injection H as H.
  destruct (run_depth fe cfg env C d init_state) as [s'|r0 last] eqn:E.
  - apply erase_running in H. subst r. reflexivity.
  - destruct (erase_finished _ _ _ H) as [r1 [-> H2]]. cbn. rewrite H2. reflexivity.
Qed.
End Tick.

(* ------------------------------------------------------------------ the byte level: vm.arg(), vm.constants *)
Local Arguments Z.lor : simpl never.
Local Arguments Z.pow : simpl never.
Local Arguments Z.modulo : simpl never.

Section Arg.
Variable fe : fenv.
Variable cfg : config.
Variable env : value.
Variable view : opview.
Variable bytes : list Z.

(* b0, b1 := vm.bytecode[vm.ip], vm.bytecode[vm.ip+1]; vm.ip += 2; return uint16(b0) | uint16(b1)<<8 *)
Lemma method_arg_is ip pp st sc m tr lc b0 b1 :
  nth_error bytes ip = Some b0 -> nth_error bytes (ip + 1) = Some b1 ->
  (0 <= b0 < 256)%Z -> (0 <= b1 < 256)%Z -> (Z.of_nat ip < max_of KInt)%Z ->
  run_method fe cfg env view bytes (method_body "arg") [] (mkG ip pp st sc m tr lc None)
  = GOk (GU16 (b0 + 256 * b1)) (mkG (ip + 2) pp st sc m tr lc None).
Proof.
  intros N0 N1 H0 H1 Hip. cbn. unfold run_method, method_arg. cbn.
  destruct (Z.ltb_spec (Z.of_nat ip) 0) as [Hc|_]; [lia|]. rewrite Nat2Z.id, N0. cbn.
  rewrite max_int_val in Hip.
  rewrite (wrap_int_id (Z.of_nat ip + 1)) by (rewrite min_int_val, max_int_val; lia).
  destruct (Z.ltb_spec (Z.of_nat ip + 1) 0) as [Hc|_]; [lia|].
  replace (Z.to_nat (Z.of_nat ip + 1)) with (ip + 1) by lia. rewrite N1. cbn.
  change (ip_add ip 2) with (Some (ip + 2)). cbn.
  rewrite lor_bytes by assumption. reflexivity.
Qed.

(* for a decoded program, after `vm.pp = vm.ip; vm.ip++` on an instruction with an operand, the regenerated
   body of arg returns the number k of the two operand bytes, and what the interpreter's vm.arg() hands out
   (the view of the IR instruction) is described by k and the constant pool: the raw number itself, or the
   constant vm.constants[k] (for OpPush of a Call / regexp constant: the same opaque value) *)
Theorem arg_body_returns_described_operand p C s i l pp st sc m tr lc :
  bytes = p_bytes p ->
  Forall (fun b => 0 <= b < 256)%Z (p_bytes p) -> decode p = DOk C ->
  fetch C (pc s) = Some (i, l) -> view_of i <> VwNone -> (Z.of_nat (pc s) + 1 < max_of KInt)%Z ->
  exists k,
    run_method fe cfg env view bytes (method_body "arg") [] (mkG (pc s + 1) pp st sc m tr lc None)
    = GOk (GU16 k) (mkG (pc s + 1 + 2) pp st sc m tr lc None)
    /\ view_describes (p_consts p) k i.
Proof.
  intros Eb Hb D F Hv Hip.
  destruct (decoded_program_reads p C Hb D _ _ _ F) as [b [R1 [R2 [R3 R4]]]].
  assert (R : isize i = 3 /\ exists b0 b1, nth_error (p_bytes p) (pc s + 1) = Some b0 /\
               nth_error (p_bytes p) (pc s + 2) = Some b1 /\ view_describes (p_consts p) (b0 + 256 * b1) i).
  { destruct (view_of i); [contradiction Hv; reflexivity|exact R4|exact R4]. }
  destruct R as [_ [b0 [b1 [N0 [N1 Hd]]]]].
  assert (H0 : (0 <= b0 < 256)%Z) by (rewrite Forall_forall in Hb; apply Hb; eapply nth_error_In; exact N0).
  assert (H1 : (0 <= b1 < 256)%Z) by (rewrite Forall_forall in Hb; apply Hb; eapply nth_error_In; exact N1).
  exists (b0 + 256 * b1)%Z. split; [|exact Hd].
  rewrite <- Eb in N0, N1.
  apply method_arg_is; try assumption.
  - replace (pc s + 1 + 1) with (pc s + 2) by lia. exact N1.
  - lia.
Qed.
End Arg.

(* what the loop reads at vm.pp from vm.bytecode / vm.constants / program.Locations of a DECODED program is
   what the IR instruction at that offset carries: opcode name, operand view, location *)
Theorem source_reads_are_ir_operands p C q i l :
  Forall (fun b => 0 <= b < 256)%Z (p_bytes p) -> decode p = DOk C -> fetch C q = Some (i, l) ->
  reads_at (p_consts p) (p_locs p) 0 (p_bytes p) q i l.
Proof. intros Hb D F. exact (decoded_program_reads p C Hb D q i l F). Qed.

(* ------------------------------------------------------------------ the deferred recover *)
(* a panic is reported at program.Locations[vm.pp]: the location BC/VM.v pairs with the instruction *)
Lemma deferred_reports_location_of_pp :
  v_deferred vm_src =
  [VBlock
     [VDefine [0] [XCall "recover" [] false];
      VIf (XBin VbNe (XVar 0) XNil)
        [VDefine [1] [XUn VuAddr (XComposite "file.Error"
                        [("Location", XIndex (XProg "Locations") (XVmField "pp"));
                         ("Message", XCall "fmt.Sprintf" [XStr "%v"; XVar 0] false)])];
         VAssign [XResult "err"] [XMethod (XVar 1) "Bind" [XProg "Source"]]]
        []]].
Proof. reflexivity. Qed.

(* ------------------------------------------------------------------ a run through the regenerated text *)
(* filter([1, 2, 3], {# > 1}) compiled by the model compiler: array construction (accounting), the
   builtin's loop (scopes, Store / Load / Inc, backward jump), a comparison helper, a conditional jump *)
Definition run_ex : expr :=
  EBuiltin ann0 BiFilter
    [EArray ann0 [EInt ann0 1; EInt ann0 2; EInt ann0 3];
     EClosure ann0 (EBinary ann0 BGt (EPointer ann0) (EInt ann0 1))].
Definition run_ex_code : code := compile false run_ex.
(* a machine a previous run left dirty *)
Definition run_ex_dirty : state := mkSt 17 [VBool true; VNil] [[("i", vint 7)]] (mkRS 4242 []).

Lemma run_ex_in_scope : run_guard w_fe w_cfg VNil run_ex_code 8 init_state = true.
Proof. vm_compute. reflexivity. Qed.

Lemma run_ex_result :
  interp_run w_fe w_cfg VNil run_ex_code vm_src 8 run_ex_dirty = run_code w_fe w_cfg VNil run_ex_code 8
  /\ run_code w_fe w_cfg VNil run_ex_code 8 = Some (Done (VArr TIface [vint 2; vint 3]) (mkRS 5 [])).
Proof. vm_compute. split; reflexivity. Qed.

(* the same program at the byte level: assembled by the model assembler, its bytes are bytes, it decodes to
   the IR code above, and the operand of its first instruction (OpPush of the constant 1) is read by the
   regenerated body of arg as index 1 of the pool (index 0 is "count", numbered ahead by the builtin) *)
Definition run_ex_prog : option program := compile_bytes false CastNone run_ex.

Lemma run_ex_prog_decodes :
  match run_ex_prog with
  | Some p => forallb (fun b => (0 <=? b)%Z && (b <? 256)%Z) (p_bytes p) = true /\ decode p = DOk run_ex_code
  | None => False
  end.
Proof. vm_compute. split; reflexivity. Qed.

Lemma run_ex_first_operand :
  match run_ex_prog with
  | Some p =>
      fetch run_ex_code 0 = Some (IPush (vint 1), noloc) /\
      run_method w_fe w_cfg VNil VwNone (p_bytes p) (method_body "arg") [] (mkG 1 0 [] [] 0 [] [] None)
      = GOk (GU16 1) (mkG 3 0 [] [] 0 [] [] None) /\
      nth_const (p_consts p) 1 = Some (CVal (vint 1))
  | None => False
  end.
Proof. vm_compute. repeat split. Qed.

(* Bridge/BrVM.v — ties what vm/vm.go says NOW (gen/GenVM.v, regenerated on every run) to the
   model: the prologue of Run resets every field the loop can observe (C07) and the budget
   accounting of the three allocating opcodes has the modelled shape (C06). *)
From Coq Require Import ZArith Bool List String.
Require Import X.gen.GenVM X.BC.Reuse X.BC.ReuseProofs.
Import ListNotations.
Open Scope string_scope.

Lemma translator_recognised_vm : vm_unrecognised = [].
Proof. vm_compute. reflexivity. Qed.

(* a new field of vm.VM could carry state from one run to the next: forces a review *)
Lemma vm_fields_known :
  vm_fields = ["stack"; "constants"; "bytecode"; "ip"; "pp"; "scopes"; "debug"; "step"; "curr"; "memory"; "limit"].
Proof. vm_compute. reflexivity. Qed.

Fixpoint reset_kind_of (f : string) (l : list (string * reset_kind)) : option reset_kind :=
  match l with [] => None | (g, k) :: r => if String.eqb f g then Some k else reset_kind_of f r end.

Definition is_kind (f : string) (k : reset_kind) : bool :=
  match reset_kind_of f run_resets, k with
  | Some RZero, RZero | Some RBudget, RBudget | Some RProgram, RProgram | Some REmpty, REmpty => true
  | _, _ => false
  end.

(* the model's reset set, read off the generated prologue *)
Definition gen_resets : list vfield :=
  (if is_kind "stack" REmpty then [FStack] else []) ++
  (if is_kind "scopes" REmpty then [FScopes] else []) ++
  (if is_kind "ip" RZero then [FIp] else []) ++
  (if is_kind "memory" RZero then [FMemory] else []).

Lemma gen_resets_all : resets_all gen_resets = true.
Proof. vm_compute. reflexivity. Qed.

Lemma per_run_inputs_reloaded :
  is_kind "limit" RBudget = true /\ is_kind "bytecode" RProgram = true /\
  is_kind "constants" RProgram = true /\ is_kind "pp" RZero = true.
Proof. vm_compute. repeat split. Qed.

(* C06: which opcode cases account allocations, and how *)
Lemma budget_accounting_shape :
  budget_events =
  [ ("OpArray", ["size:=vm.pop().(int)"; "push"; "mem:vm.memory+=size"; "test:vm.memory>=vm.limit"]);
    ("OpMap",   ["size:=vm.pop().(int)"; "push"; "mem:vm.memory+=size"; "test:vm.memory>=vm.limit"]);
    ("OpRange", ["size:=0"; "if(max>=min){size=max-min+1";
                 "if(max>=min){test:size<=0||vm.memory+size<vm.memory";
                 "test:vm.memory+size>=vm.limit"; "push"; "mem:vm.memory+=size"]) ].
Proof. vm_compute. reflexivity. Qed.

(* Bridge/BrAssemble.v — the byte-level functions of compiler/compiler.go, REGENERATED statement by statement into
   gen/GenAssemble.v, interpreted by BC/AsmRules.v, are the Go-shaped model functions of BC/Assemble.v: one lemma per Go
   function, for ALL states and arguments (symbolic execution of the interpreter on the regenerated body; no sampling).
   Every lemma depends on gen/GenAssemble.v and is re-checked whenever compiler/compiler.go changes. *)
From Coq Require Import ZArith Bool List String Arith Lia Floats.
Require Import X.Base.Num X.Base.Value X.Syn.Ast X.Sem.Prim X.Sem.Sem X.BC.Instr X.BC.Compiler X.BC.Decode X.BC.Assemble X.BC.AssembleProofs
               X.BC.AsmRules X.BC.AsmRulesProofs X.BC.AsmDriveProofs X.BC.AsmClosedProofs X.gen.GenAssemble.
Import ListNotations.
Local Open Scope list_scope.
Local Open Scope Z_scope.

(* nothing in the six bodies or in the skeleton of Compile was left unread *)
Lemma genassemble_recognised : recognised asm_src = true.
Proof. vm_compute. reflexivity. Qed.

(* symbolic execution: everything that has a variable inside stays folded *)
Local Opaque Z.add Z.sub Z.modulo Z.div Z.ltb Z.leb Z.eqb Z.of_nat List.length app max_uint16
      store_byte locs_set index_get index_set key_unhashable const_kind const_float_is_zero node_at List.last loc noloc.

Ltac exec := cbv beta iota zeta delta; cbv beta iota.
Ltac split_on X := let E := fresh "E" in destruct X eqn:E; cbv beta iota.

(* encode: binary.LittleEndian.PutUint16 into a fresh two-byte slice *)
Lemma encode_bridge s i : f_encode (src_funcs asm_src) s i = f_encode go_funcs s i.
Proof. destruct s as [bc cs ix lc nd]. exec. reflexivity. Qed.

Lemma placeholder_bridge s : f_placeholder (src_funcs asm_src) s = f_placeholder go_funcs s.
Proof. destruct s as [bc cs ix lc nd]. exec. reflexivity. Qed.

(* calcBackwardJump: offset arithmetic, the 65535 limit, uint16 conversion, encode *)
Lemma calc_backward_jump_bridge s to :
  f_calc_backward_jump (src_funcs asm_src) s to = f_calc_backward_jump go_funcs s to.
Proof.
  destruct s as [bc cs ix lc nd]. exec.
  split_on (Z.ltb max_uint16 (Z.sub (Z.add (Z.add (Z.of_nat (List.length bc)) 1) 2) to)); reflexivity.
Qed.

(* patchJump: offset arithmetic, the 65535 limit BEFORE the stores, then the low byte at placeholder and the high byte
   at placeholder+1 (either store panics outside the bytecode) *)
Lemma patch_jump_bridge s ph : f_patch_jump (src_funcs asm_src) s ph = f_patch_jump go_funcs s ph.
Proof.
  destruct s as [bc cs ix lc nd]. exec.
  split_on (Z.ltb max_uint16 (Z.sub (Z.sub (Z.of_nat (List.length bc)) 2) ph)); [reflexivity|].
  match goal with |- context [store_byte bc ph ?v] => split_on (store_byte bc ph v) end; [|reflexivity].
  match goal with |- context [store_byte ?l (Z.add ph 1) ?v] => split_on (store_byte l (Z.add ph 1) v) end; reflexivity.
Qed.

(* emit: opcode byte, operand bytes, Location of the node on top of c.nodes under the key current-1, returns current *)
Lemma emit_bridge s op b : f_emit (src_funcs asm_src) s op b = f_emit go_funcs s op b.
Proof.
  destruct s as [bc cs ix lc nd]. destruct nd as [|n r] eqn:End.
  - exec. rewrite nodes_empty. cbv beta iota. reflexivity.
  - rewrite <- End. assert (Hne : nd <> []) by (rewrite End; discriminate).
    destruct (nodes_top nd Hne) as (H1 & H2).
    exec. rewrite H2. cbv beta iota. rewrite H1. cbv beta iota. subst nd. reflexivity.
Qed.

Local Opaque kind_panics const_slice_or_map const_float_zero.

Ltac finish_append :=
  match goal with |- context [Z.ltb max_uint16 ?n] => split_on (Z.ltb max_uint16 n) end; reflexivity.
Ltac hashable_path :=
  match goal with |- context [key_unhashable ?c] => split_on (key_unhashable c) end; [reflexivity|];
  match goal with |- context [index_get ?ix ?c] => split_on (index_get ix c) end; [reflexivity|]; finish_append.

(* makeConstant: the kind switch (Slice / Map / float zero are not hashable; a nil interface panics), the lookup in c.index
   (panics on an unhashable key), the append with the 65535 limit, the registration in c.index, encode *)
Lemma make_constant_bridge s c : f_make_constant (src_funcs asm_src) s c = f_make_constant go_funcs s c.
Proof.
  destruct s as [bc cs ix lc nd].
  pose proof (const_kind_spec c) as K.
  exec.
  split_on (const_kind c).
  2:{ rewrite K. reflexivity. }
  destruct K as [Kp K]. rewrite Kp. cbv beta iota.
  match goal with k : ckind |- _ => destruct k; cbv beta iota end.
  - rewrite K. cbv beta iota. finish_append.
  - rewrite K. cbv beta iota. finish_append.
  - destruct K as [K1 K2]. rewrite K1, K2. cbv beta iota. split_on (const_float_zero c); [finish_append|]. hashable_path.
  - destruct K as [K1 K2]. rewrite K1, K2. cbv beta iota. split_on (const_float_zero c); [finish_append|hashable_path].
  - destruct K as [K1 K2]. rewrite K1, K2. cbv beta iota. hashable_path.
Qed.

(* the six regenerated functions ARE the Go-shaped model functions *)
Theorem source_funcs_are_model : funcs_eq (src_funcs asm_src) go_funcs.
Proof.
  split; [intros; apply emit_bridge|]. split; [intros; apply make_constant_bridge|].
  split; [intros; apply placeholder_bridge|]. split; [intros; apply patch_jump_bridge|].
  split; [intros; apply calc_backward_jump_bridge|]. intros; apply encode_bridge.
Qed.

(* ... and, through Assemble.encode16 / intern, the functions the model assembler asm is made of *)
Lemma encode_bridge16 s i : 0 <= i < 65536 -> f_encode (src_funcs asm_src) s i = GOk (encode16 i, s).
Proof. intros H. rewrite encode_bridge. cbn [f_encode go_funcs]. rewrite go_encode_is_encode16 by exact H. reflexivity. Qed.

(* Compile: a panic of the driven statements is recovered into the error, the compiler value starts with two fresh maps,
   the Program carries c.bytecode / c.constants / c.locations *)
Lemma compile_bridge body :
  run_compile body (a_compile asm_src) (mkCst false None false None) =
  match body cs0 with
  | GOk s => CProgram (mkProg (cs_bytecode s) (cs_constants s) (cs_locations s))
  | GPanic => CError
  | GStuck => CStuck
  end.
Proof.
  cbv beta iota zeta delta -[cs0]. cbv beta iota.
  destruct (body cs0) as [s1| |]; reflexivity.
Qed.

(* the model assembler is the source: an item list driven through the regenerated emit / makeConstant / placeholder /
   patchJump / calcBackwardJump / encode inside the regenerated skeleton of Compile gives the Bytecode, Constants and
   Locations of Assemble.assemble_items - or the error, exactly when assemble_items fails *)
Theorem model_assembler_is_source : forall its, fwd_closed its 0 = true ->
  src_assemble asm_src its = cres_of_option (assemble_items its).
Proof.
  intros its H. unfold src_assemble. rewrite compile_bridge.
  rewrite (drive_ext _ _ source_funcs_are_model).
  pose proof (drive_go_is_assemble_items its H) as D.
  destruct (drive go_funcs its cs0 []) as [[s pend]| |]; cbn [drop_pending fst].
  - rewrite D. reflexivity.
  - rewrite D. reflexivity.
  - contradiction.
Qed.

(* the side condition is decidable and holds of real programs: the items of the C05 example *)
Example model_assembler_is_source_nonvacuous :
  fwd_closed (compile_items_program false CastInt64 c05_ex) 0 = true /\
  exists p, src_assemble asm_src (compile_items_program false CastInt64 c05_ex) = CProgram p /\
            compile_bytes false CastInt64 c05_ex = Some p /\ p_consts p = c05_ex_pool.
Proof.
  split; [vm_compute; reflexivity|]. eexists. split; [vm_compute; reflexivity|]. split; vm_compute; reflexivity.
Qed.

(* for compiled code the side condition is a theorem (jumps_ok of every compiled program): compiler.Compile at byte level,
   read from the source (regenerated byte-level functions on the model's item list), is compile_bytes *)
Theorem compile_bytes_is_source_assembler : forall mapenv c e, compilable e = true ->
  src_assemble asm_src (compile_items_program mapenv c e) = cres_of_option (compile_bytes mapenv c e).
Proof.
  intros mapenv c e H. unfold compile_bytes. rewrite H.
  apply model_assembler_is_source. apply compiled_items_fwd_closed. exact H.
Qed.

(* Bridge/BrCheckerBinary.v — the bridge lemmas of BinaryNode (see Bridge/BrChecker.v) *)
From Coq Require Import ZArith Bool List String Lia.
Require Import X.Base.Num X.Base.Value X.Syn.Ast X.Sem.Prim X.Ty.Types X.Ty.TypesTable X.Ty.Checker
               X.Ty.CheckProofs X.Ty.CheckRules X.Ty.CheckRulesProofs X.gen.GenWeights X.gen.GenChecker
               X.Bridge.BrCheckerRules.
Import ListNotations.
Local Open Scope string_scope.
Local Open Scope list_scope.

(* ---------------- BinaryNode: operator overloading first, then one group of operators per lemma *)
Section Binary.
Variable c : cconfig.
Variable M : sem.
Hypothesis HM : sem_ok c M.
Variable rec : list ty -> expr -> cst -> option (ty * expr * cst).
Notation VN := (visit_node checker_src c M rec).
Notation child_ok := (child_ok c rec).
Ltac run := run_ HM.
Ltac go := go_ HM.
Ltac crack := crack_ HM.

Ltac binary_tac Hl Hr :=
  go; rewrite Hl; cbn [visit];
  match goal with |- context [visit c ?cl ?l ?s] =>
    let V := fresh "V" in destruct (visit c cl l s) as [[? ?] ?] eqn:V; try rewrite V in Hr; cbn [snd] in Hr end; run;
  rewrite Hr;
  match goal with |- context [visit c ?cl ?r ?s] => destruct (visit c cl r s) as [[? ?] ?] end; run;
  unfold binary_node_rule, overload, binary_rule, comb, emit, fail_at, record; ev;
  match goal with |- context [Types.assoc ?n ?ops] => destruct (Types.assoc n ops) as [?|] end; run;
  [ destruct (cc_types c) as [tb|]; run;
    [ match goal with |- context [find_overload ?t ?f ?a ?b] => destruct (find_overload t f a b) as [[[? ?]|]|] end; run
    | match goal with fl : list string |- _ => destruct fl end; run ]
  | ];
  crack; fin.

Definition binary_bridge (op : binop) : Prop :=
  forall a l r cols st, child_ok cols l st -> child_ok cols r (snd (visit c cols l st)) ->
  VN cols (EBinary a op l r) st = Some (visit c cols (EBinary a op l r) st).

Lemma node_binary_equality op : op = BEq \/ op = BNe -> binary_bridge op.
Proof. intros [-> | ->] a l r cols st Hl Hr; binary_tac Hl Hr. Qed.

Lemma node_binary_logic op : op = BOrWord \/ op = BOrOr \/ op = BAndWord \/ op = BAndAnd -> binary_bridge op.
Proof. intros [-> | [-> | [-> | ->]]] a l r cols st Hl Hr; binary_tac Hl Hr. Qed.

Lemma node_binary_in op : op = BIn \/ op = BNotIn -> binary_bridge op.
Proof. intros [-> | ->] a l r cols st Hl Hr; binary_tac Hl Hr. Qed.

Lemma node_binary_order op : op = BLt \/ op = BGt \/ op = BGe \/ op = BLe -> binary_bridge op.
Proof. intros [-> | [-> | [-> | ->]]] a l r cols st Hl Hr; binary_tac Hl Hr. Qed.

Lemma node_binary_arith op : op = BDiv \/ op = BSub \/ op = BMul -> binary_bridge op.
Proof. intros [-> | [-> | ->]] a l r cols st Hl Hr; binary_tac Hl Hr. Qed.

Lemma node_binary_pow : binary_bridge BPow.
Proof. intros a l r cols st Hl Hr; binary_tac Hl Hr. Qed.

Lemma node_binary_mod : binary_bridge BMod.
Proof. intros a l r cols st Hl Hr; binary_tac Hl Hr. Qed.

Lemma node_binary_add : binary_bridge BAdd.
Proof. intros a l r cols st Hl Hr; binary_tac Hl Hr. Qed.

Lemma node_binary_strings op : op = BContains \/ op = BStartsWith \/ op = BEndsWith -> binary_bridge op.
Proof. intros [-> | [-> | ->]] a l r cols st Hl Hr; binary_tac Hl Hr. Qed.

Lemma node_binary_range : binary_bridge BRange.
Proof. intros a l r cols st Hl Hr; binary_tac Hl Hr. Qed.

Lemma node_binary_unknown s : binary_bridge (BUnknown s).
Proof. intros a l r cols st Hl Hr; binary_tac Hl Hr. Qed.

Lemma node_binary op : binary_bridge op.
Proof.
  destruct op.
  - apply node_binary_logic; auto.
  - apply node_binary_logic; auto.
  - apply node_binary_logic; auto.
  - apply node_binary_logic; auto.
  - apply node_binary_equality; auto.
  - apply node_binary_equality; auto.
  - apply node_binary_order; auto.
  - apply node_binary_order; auto.
  - apply node_binary_order; auto.
  - apply node_binary_order; auto.
  - apply node_binary_in; auto.
  - apply node_binary_in; auto.
  - apply node_binary_strings; auto.
  - apply node_binary_strings; auto.
  - apply node_binary_strings; auto.
  - apply node_binary_range.
  - apply node_binary_add.
  - apply node_binary_arith; auto.
  - apply node_binary_arith; auto.
  - apply node_binary_arith; auto.
  - apply node_binary_mod.
  - apply node_binary_pow.
  - apply node_binary_unknown.
Qed.
End Binary.

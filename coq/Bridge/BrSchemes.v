(* Bridge/BrSchemes.v — the model compiler BC/Compiler.compile IS the interpretation of the
   code-generation schemes regenerated from compiler/compiler.go (gen/GenSchemes.v).

   One unfolding step: for every node kind, running the regenerated scheme of the node's method with
   the nested c.compile calls answered by the model compiler gives the model compiler's code for the
   node, for ALL sub-codes (the offsets patchJump / calcBackwardJump compute from the positions at run
   time against the offsets BC/Compiler.v computes from the sizes of the sub-codes: lia).  Then by
   induction on the tree: the compiler obtained from the schemes alone (gen_compile) is compile. *)
From Coq Require Import ZArith Bool List String Arith Lia.
Require Import X.Base.Num X.Base.Value X.Syn.Ast X.Sem.Prim X.Sem.Sem X.Sem.MatchesFacts X.BC.Instr X.BC.Decode X.BC.Compiler
               X.BC.Schemes X.BC.SchemesProofs X.gen.GenSchemes X.Bridge.BrSchemesMatches.
Import ListNotations.
Local Open Scope nat_scope.
Local Open Scope string_scope.
Local Open Scope list_scope.

Arguments wrap : simpl never.
Arguments fround : simpl never.
Arguments f_of_Z : simpl never.
Arguments compile_node : simpl never.

(* nothing in the current source is outside the shapes the translator knows *)
Lemma schemes_recognised : recognised schemes = true.
Proof. vm_compute. reflexivity. Qed.

(* the regenerated offset expressions, as functions of len(c.bytecode) and the argument *)
Lemma patch_offset_is len ph : aeval (s_patch_offset schemes) len ph = len - 2 - ph.
Proof. reflexivity. Qed.
Lemma back_offset_is len to : aeval (s_back_offset schemes) len to = len + 1 + 2 - to.
Proof. reflexivity. Qed.

Ltac fin := rewrite ?app_nil_r; try reflexivity;
            repeat (progress (cbn [csize isize]; rewrite ?csize_app));
            repeat (f_equal; try lia).

Section Step.
Variable rec : expr -> option code.
Variable mapenv : bool.
Notation comp := (compile mapenv).
Notation I := (interp_code schemes rec mapenv).

(* ------------------------------------------------------------------ leaves *)
Lemma step_nil a : I (ENil a) = Some (comp (ENil a)).
Proof. reflexivity. Qed.

Lemma step_ident a name ns : I (EIdent a name ns) = Some (comp (EIdent a name ns)).
Proof. destruct mapenv, ns; reflexivity. Qed.

Lemma step_int a z : I (EInt a z) = Some (comp (EInt a z)).
Proof.
  destruct a as [l k]. unfold interp_code, interp.
  destruct k as [| |k| | | | | | | |]; try reflexivity.
  destruct k; reflexivity.
Qed.

Lemma step_float a f : I (EFloat a f) = Some (comp (EFloat a f)).
Proof. reflexivity. Qed.

Lemma step_bool a b : I (EBool a b) = Some (comp (EBool a b)).
Proof. destruct b; reflexivity. Qed.

Lemma step_str a s : I (EStr a s) = Some (comp (EStr a s)).
Proof. reflexivity. Qed.

Lemma step_const a v : I (EConst a v) = Some (comp (EConst a v)).
Proof. destruct v; reflexivity. Qed.

Lemma step_pointer a : I (EPointer a) = Some (comp (EPointer a)).
Proof. reflexivity. Qed.


(* ------------------------------------------------------------------ nodes with sub-expressions *)
(* hypotheses: what the nested c.compile calls append *)
Ltac go := unfold interp_code, interp; cbn.

Lemma step_unary a op x :
  (match op with UUnknown _ => False | _ => True end) ->
  rec x = Some (comp x) ->
  I (EUnary a op x) = Some (comp (EUnary a op x)).
Proof.
  intros Hop Hx. destruct op; try contradiction; go; rewrite Hx; cbn; fin.
Qed.

(* BinaryNode, by group of operators (a failure names the group) *)
Lemma step_binary_short_circuit a op l r :
  is_short_circuit op = true ->
  rec l = Some (comp l) -> rec r = Some (comp r) ->
  I (EBinary a op l r) = Some (comp (EBinary a op l r)).
Proof.
  intros Hop Hl Hr. destruct op; try discriminate Hop; go; rewrite Hl; cbn; rewrite Hr; cbn; fin.
Qed.

Lemma step_binary_equal a l r :
  rec l = Some (comp l) -> rec r = Some (comp r) ->
  I (EBinary a BEq l r) = Some (comp (EBinary a BEq l r)).
Proof.
  intros Hl Hr. go. rewrite Hl. cbn. rewrite Hr. cbn.
  (* l == r && l == reflect.Int / reflect.String against both_kind *)
  destruct (rkind_eqb (kind_of l) (kind_of r)) eqn:E.
  - apply rkind_eqb_eq in E. rewrite !(both_kind_same _ _ _ E).
    destruct (rkind_eqb (kind_of l) (RKNum KInt)); cbn; [fin|].
    destruct (rkind_eqb (kind_of l) RKString); cbn; fin.
  - rewrite !(both_kind_diff _ _ _ E). cbn. fin.
Qed.

(* MatchesNode: the regenerated guard (type assertion on node.Right, Regexp != nil, Regexp.String() ==
   the literal's Value) is Ast.re_const: the pre-compiled pattern is used only while the right operand
   still is the literal it was compiled from; otherwise the right operand is compiled. *)
Lemma step_matches a re l r :
  rec l = Some (comp l) -> (re_const re r = None -> rec r = Some (comp r)) ->
  I (EMatches a re l r) = Some (comp (EMatches a re l r)).
Proof. exact (matches_scheme_is_model rec mapenv a re l r). Qed.

Lemma step_property a x name ns :
  rec x = Some (comp x) -> I (EProperty a x name ns) = Some (comp (EProperty a x name ns)).
Proof. intros Hx. destruct ns; go; rewrite Hx; cbn; fin. Qed.

Lemma step_index a x i :
  rec x = Some (comp x) -> rec i = Some (comp i) -> I (EIndex a x i) = Some (comp (EIndex a x i)).
Proof. intros Hx Hi. go. rewrite Hx. cbn. rewrite Hi. cbn. fin. Qed.

Lemma step_slice a x from to :
  rec x = Some (comp x) ->
  (forall f, from = Some f -> rec f = Some (comp f)) ->
  (forall t, to = Some t -> rec t = Some (comp t)) ->
  I (ESlice a x from to) = Some (comp (ESlice a x from to)).
Proof.
  intros Hx Hf Ht.
  destruct from as [f|], to as [t|]; go; rewrite Hx; cbn;
    rewrite ?(Ht _ eq_refl); cbn; rewrite ?(Hf _ eq_refl); cbn; fin.
Qed.

Lemma step_closure a x : rec x = Some (comp x) -> I (EClosure a x) = Some (comp (EClosure a x)).
Proof. intros Hx. go. rewrite Hx. cbn. fin. Qed.

Lemma step_cond a c x y :
  rec c = Some (comp c) -> rec x = Some (comp x) -> rec y = Some (comp y) ->
  I (ECond a c x y) = Some (comp (ECond a c x y)).
Proof. intros Hc Hx Hy. go. rewrite Hc. cbn. rewrite Hx. cbn. rewrite Hy. cbn. fin. Qed.

Lemma step_pair a k v :
  rec k = Some (comp k) -> rec v = Some (comp v) ->
  I (EPair a k v) = Some (compile_node mapenv (EPair a k v)).
Proof. intros Hk Hv. go. rewrite Hk. cbn. rewrite Hv. cbn. unfold compile_node. fin. Qed.


(* ------------------------------------------------------------------ []Node fields *)
Lemma compile_method_unfold a x name args ns :
  comp (EMethod a x name args ns) =
  comp x ++ compile_list mapenv args ++
  at_ (aloc a) [if ns then IMethodNilSafe name (List.length args) else IMethod name (List.length args)].
Proof. reflexivity. Qed.

Lemma compile_function_unfold a name args fast :
  comp (EFunction a name args fast) =
  compile_list mapenv args ++ at_ (aloc a) [if fast then ICallFast name (List.length args) else ICall name (List.length args)].
Proof. reflexivity. Qed.

Lemma compile_array_unfold a es :
  comp (EArray a es) = compile_list mapenv es ++ at_ (aloc a) [IPush (vint (Z.of_nat (List.length es))); IArray].
Proof. reflexivity. Qed.

Lemma compile_map_unfold a pairs :
  comp (EMap a pairs) = compile_pairs mapenv pairs ++ at_ (aloc a) [IPush (vint (Z.of_nat (List.length pairs))); IMap].
Proof. reflexivity. Qed.

Lemma step_method a x name args ns :
  rec x = Some (comp x) -> (forall y, In y args -> rec y = Some (comp y)) ->
  I (EMethod a x name args ns) = Some (comp (EMethod a x name args ns)).
Proof.
  intros Hx Hargs. rewrite compile_method_unfold.
  destruct ns; go; rewrite Hx; cbn; rewrite (each_list rec mapenv args Hargs); cbn; rewrite Nat2Z.id; fin.
Qed.

Lemma step_function a name args fast :
  (forall y, In y args -> rec y = Some (comp y)) ->
  I (EFunction a name args fast) = Some (comp (EFunction a name args fast)).
Proof.
  intros Hargs. rewrite compile_function_unfold.
  destruct fast; go; rewrite (each_list rec mapenv args Hargs); cbn; rewrite Nat2Z.id; fin.
Qed.

Lemma step_array a es :
  (forall y, In y es -> rec y = Some (comp y)) ->
  I (EArray a es) = Some (comp (EArray a es)).
Proof.
  intros Hes. rewrite compile_array_unfold. go. rewrite (each_list rec mapenv es Hes). cbn. fin.
Qed.

Lemma step_map a ps :
  (forall y, In y ps -> rec y = Some (compile_node mapenv y) /\ match y with EPair _ _ _ => True | _ => False end) ->
  I (EMap a ps) = Some (comp (EMap a ps)).
Proof.
  intros Hps. rewrite compile_map_unfold. go. rewrite (each_pairs rec mapenv ps Hps). cbn. fin.
Qed.

(* ------------------------------------------------------------------ builtins: emitLoop, emitCond *)
Lemma step_builtin_len a x :
  rec x = Some (comp x) -> I (EBuiltin a BiLen [x]) = Some (comp (EBuiltin a BiLen [x])).
Proof. intros Hx. go. rewrite Hx. cbn. fin. Qed.

End Step.

(* the builtins with a predicate: emitLoop, emitCond, the break placeholders.  Evaluated with the
   nested calls answered by a function (the general statement follows by interp_ext). *)
Ltac norm := repeat (progress (cbn [csize isize app at_ map]; rewrite ?csize_app)).
Ltac eqgo := lazymatch goal with
  | |- @eq nat _ _ => solve [reflexivity | norm; lia]
  | |- _ => first [progress f_equal; eqgo | reflexivity]
  end.
Ltac ev := lazy -[Nat.add Nat.sub csize compile compile_list compile_pairs app each Z.of_nat Z.to_nat].

Ltac builtin_tac :=
  let Hx := fresh "Hx" in let Hc := fresh "Hc" in
  intros Hx Hc; unfold interp_code, interp;
  lazymatch goal with |- context [EBuiltin ?a _ _] => destruct a as [la ka] end;
  ev; rewrite Hx, Hc;
  cbn [compile app at_ map loc_of ann_of aloc loop_code cond_code]; rewrite <- ?app_assoc; cbn [app]; eqgo.

Section Builtins.
Variable f : expr -> code.
Variable mapenv : bool.
Notation comp := (compile mapenv).
Notation I := (interp_code schemes (fun y => Some (f y)) mapenv).

Lemma step_builtin_all a x c : f x = comp x -> f c = comp c -> I (EBuiltin a BiAll [x; c]) = Some (comp (EBuiltin a BiAll [x; c])).
Proof. builtin_tac. Qed.
Lemma step_builtin_none a x c : f x = comp x -> f c = comp c -> I (EBuiltin a BiNone [x; c]) = Some (comp (EBuiltin a BiNone [x; c])).
Proof. builtin_tac. Qed.
Lemma step_builtin_any a x c : f x = comp x -> f c = comp c -> I (EBuiltin a BiAny [x; c]) = Some (comp (EBuiltin a BiAny [x; c])).
Proof. builtin_tac. Qed.
Lemma step_builtin_one a x c : f x = comp x -> f c = comp c -> I (EBuiltin a BiOne [x; c]) = Some (comp (EBuiltin a BiOne [x; c])).
Proof. builtin_tac. Qed.
Lemma step_builtin_filter a x c : f x = comp x -> f c = comp c -> I (EBuiltin a BiFilter [x; c]) = Some (comp (EBuiltin a BiFilter [x; c])).
Proof. builtin_tac. Qed.
Lemma step_builtin_map a x c : f x = comp x -> f c = comp c -> I (EBuiltin a BiMap [x; c]) = Some (comp (EBuiltin a BiMap [x; c])).
Proof. builtin_tac. Qed.
Lemma step_builtin_count a x c : f x = comp x -> f c = comp c -> I (EBuiltin a BiCount [x; c]) = Some (comp (EBuiltin a BiCount [x; c])).
Proof. builtin_tac. Qed.
End Builtins.

(* the binary operators that are two operands and one or two instructions *)
Lemma step_binary_plain (f : expr -> code) mapenv a op l r :
  (match op with BUnknown _ | BEq => False | _ => is_short_circuit op = false end) ->
  f l = compile mapenv l -> f r = compile mapenv r ->
  interp_code schemes (fun y => Some (f y)) mapenv (EBinary a op l r) = Some (compile mapenv (EBinary a op l r)).
Proof.
  intros Hop Hl Hr. unfold interp_code, interp. destruct a as [la ka].
  destruct op; try contradiction; try discriminate Hop; ev; rewrite Hl, Hr;
    cbn [compile app at_ map loc_of ann_of aloc binop_code]; eqgo.
Qed.

Lemma step_binary (f : expr -> code) mapenv a op l r :
  (match op with BUnknown _ => False | _ => True end) ->
  f l = compile mapenv l -> f r = compile mapenv r ->
  interp_code schemes (fun y => Some (f y)) mapenv (EBinary a op l r) = Some (compile mapenv (EBinary a op l r)).
Proof.
  intros Hop Hl Hr.
  destruct (is_short_circuit op) eqn:Es.
  { apply step_binary_short_circuit; [exact Es|rewrite Hl; reflexivity|rewrite Hr; reflexivity]. }
  destruct op; try contradiction; try discriminate Es.
  all: lazymatch goal with
       | |- context [BEq] => apply step_binary_equal; [rewrite Hl; reflexivity|rewrite Hr; reflexivity]
       | |- _ => apply step_binary_plain; [reflexivity|exact Hl|exact Hr]
       end.
Qed.

(* ------------------------------------------------------------------ one unfolding step, every node kind *)
Lemma some_cn mapenv x : compilable x = true -> Some (compile_node mapenv x) = Some (compile mapenv x).
Proof. intros H. rewrite (compile_node_compilable mapenv x H). reflexivity. Qed.

Ltac split_andb :=
  repeat match goal with
         | H : _ && _ = true |- _ => apply andb_prop in H; destruct H
         end.

Theorem schemes_step rec mapenv e :
  node_compilable e = true ->
  (forall y, In y (children e) -> rec y = Some (compile_node mapenv y)) ->
  interp_code schemes rec mapenv e = Some (compile_node mapenv e).
Proof.
  intros Hc Hrec. unfold interp_code.
  rewrite (interp_ext _ _ _ _ schemes rec (fun y => Some (compile_node mapenv y)) mapenv e Hrec).
  clear Hrec rec. fold (interp_code schemes (fun y => Some (compile_node mapenv y)) mapenv).
  destruct e; cbn [node_compilable compilable] in Hc; unfold compile_node at 2.
  - apply step_nil.
  - apply step_ident.
  - apply step_int.
  - apply step_float.
  - apply step_bool.
  - apply step_str.
  - apply step_const.
  - (* unary *) apply step_unary; [destruct op; try exact I; discriminate Hc|apply some_cn; destruct op; try exact Hc; discriminate Hc].
  - (* binary *)
    assert (Hlr : compilable e1 = true /\ compilable e2 = true)
      by (destruct op; try discriminate Hc; apply andb_prop in Hc; exact Hc).
    destruct Hlr as [H1 H2].
    apply (step_binary (compile_node mapenv) mapenv); [destruct op; try exact I; discriminate Hc|apply compile_node_compilable; exact H1|apply compile_node_compilable; exact H2].
  - (* matches *) split_andb. apply step_matches; [apply some_cn; assumption|intros _; apply some_cn; assumption].
  - (* property *) apply step_property. apply some_cn. exact Hc.
  - (* index *) split_andb. apply step_index; apply some_cn; assumption.
  - (* slice *)
    split_andb. apply step_slice; [apply some_cn; assumption| |].
    + intros f E. subst. apply some_cn. assumption.
    + intros t E. subst. apply some_cn. assumption.
  - (* method *)
    split_andb. apply step_method; [apply some_cn; assumption|].
    intros y Hy. apply some_cn. eapply all_compilable; eauto.
  - (* function *) apply step_function. intros y Hy. apply some_cn. eapply all_compilable; eauto.
  - (* builtin *)
    destruct b; destruct args as [|x [|c [|z more]]]; try discriminate Hc; split_andb.
    + apply step_builtin_len. apply some_cn. assumption.
    + apply (step_builtin_all (compile_node mapenv) mapenv a x c); apply compile_node_compilable; assumption.
    + apply (step_builtin_none (compile_node mapenv) mapenv a x c); apply compile_node_compilable; assumption.
    + apply (step_builtin_any (compile_node mapenv) mapenv a x c); apply compile_node_compilable; assumption.
    + apply (step_builtin_one (compile_node mapenv) mapenv a x c); apply compile_node_compilable; assumption.
    + apply (step_builtin_filter (compile_node mapenv) mapenv a x c); apply compile_node_compilable; assumption.
    + apply (step_builtin_map (compile_node mapenv) mapenv a x c); apply compile_node_compilable; assumption.
    + apply (step_builtin_count (compile_node mapenv) mapenv a x c); apply compile_node_compilable; assumption.
  - (* closure *) apply step_closure. apply some_cn. exact Hc.
  - apply step_pointer.
  - (* conditional *) split_andb. apply step_cond; apply some_cn; assumption.
  - (* array *) apply step_array. intros y Hy. apply some_cn. eapply all_compilable; eauto.
  - (* map *)
    apply step_map. intros y Hy. split; [reflexivity|].
    exact (proj2 (all_pairs_compilable _ Hc y Hy)).
  - (* pair *) split_andb. apply step_pair; apply some_cn; assumption.
Qed.

(* the statement with the model compiler itself in both places *)
Corollary schemes_step_compile mapenv e :
  compilable e = true ->
  interp_code schemes (fun y => Some (compile_node mapenv y)) mapenv e = Some (compile mapenv e).
Proof.
  intros Hc. rewrite <- (compile_node_compilable mapenv e Hc).
  apply schemes_step; [apply node_compilable_of; exact Hc|reflexivity].
Qed.

(* ------------------------------------------------------------------ Compile: the tree, then the cast *)
Theorem schemes_program rec mapenv c e :
  rec e = Some (compile mapenv e) ->
  interp_program_code schemes rec mapenv c e = Some (compile_program mapenv c e).
Proof.
  intros H. unfold interp_program_code.
  rewrite (interp_program_ext _ _ _ _ schemes rec (fun y => Some (compile mapenv y)) mapenv c e H).
  unfold interp_program, compile_program.
  destruct c; ev; rewrite ?app_nil_r; reflexivity.
Qed.

(* ------------------------------------------------------------------ by induction on the tree *)
(* the compiler obtained from the regenerated schemes alone is the model compiler *)
Theorem gen_compile_is_compile_node : forall d mapenv e,
  esize e <= d -> node_compilable e = true ->
  gen_compile schemes d mapenv e = Some (compile_node mapenv e).
Proof.
  induction d as [|d IH]; intros mapenv e Hsz Hc.
  - pose proof (esize_positive e). lia.
  - cbn [gen_compile]. apply schemes_step; [exact Hc|].
    intros y Hy. apply IH.
    + pose proof (children_smaller e y Hy). lia.
    + eapply children_compilable; eauto.
Qed.

Theorem gen_compile_is_compile d mapenv e :
  esize e <= d -> compilable e = true -> gen_compile schemes d mapenv e = Some (compile mapenv e).
Proof.
  intros Hsz Hc. rewrite <- (compile_node_compilable mapenv e Hc).
  apply gen_compile_is_compile_node; [exact Hsz|apply node_compilable_of; exact Hc].
Qed.

Theorem gen_compile_program_is_compile_program d mapenv c e :
  esize e <= d -> compilable e = true ->
  gen_compile_program schemes d mapenv c e = Some (compile_program mapenv c e).
Proof.
  intros Hsz Hc. unfold gen_compile_program. apply schemes_program. apply gen_compile_is_compile; assumption.
Qed.

(* ------------------------------------------------------------------ operator spellings *)
(* the strings under which the interpreter looks an operator / builtin up in `switch node.Operator` /
   `switch node.Name` are the spellings the parser model stores (Parse/Parser.v) *)
Require X.Parse.Parser.
Lemma names_are_the_parser_spellings :
  (forall u, unop_name u = X.Parse.Parser.string_of_unop u) /\
  (forall b, binop_name b = X.Parse.Parser.string_of_binop b) /\
  (forall b, builtin_name b = X.Parse.Parser.string_of_builtin b).
Proof. repeat split; intros x; destruct x; reflexivity. Qed.

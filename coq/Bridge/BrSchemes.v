(* Bridge/BrSchemes.v — the model compiler BC/Compiler.compile IS the interpretation of the
   code-generation schemes regenerated from compiler/compiler.go (gen/GenSchemes.v).

   One unfolding step: for every node kind, running the regenerated scheme of the node's method with
   the nested c.compile calls answered by the model compiler gives the model compiler's code for the
   node, for ALL sub-codes (the offsets patchJump / calcBackwardJump compute from the positions at run
   time against the offsets BC/Compiler.v computes from the sizes of the sub-codes: lia).  Then by
   induction on the tree: the compiler obtained from the schemes alone (gen_compile) is compile. *)
From Coq Require Import ZArith Bool List String Arith Lia.
Require Import X.Base.Num X.Base.Value X.Syn.Ast X.Sem.Prim X.Sem.Sem X.BC.Instr X.BC.Decode X.BC.Compiler
               X.BC.Schemes X.BC.SchemesProofs X.gen.GenSchemes.
Import ListNotations.
Local Open Scope nat_scope.
Local Open Scope string_scope.
Local Open Scope list_scope.

Arguments wrap : simpl never.
Arguments fround : simpl never.
Arguments f_of_Z : simpl never.
Arguments compile_node : simpl never.

(* nothing in the current source is outside the shapes the translator knows *)
Lemma schemes_recognised : recognised schemes = true.
Proof. vm_compute. reflexivity. Qed.

(* the regenerated offset expressions, as functions of len(c.bytecode) and the argument *)
Lemma patch_offset_is len ph : aeval (s_patch_offset schemes) len ph = len - 2 - ph.
Proof. reflexivity. Qed.
Lemma back_offset_is len to : aeval (s_back_offset schemes) len to = len + 1 + 2 - to.
Proof. reflexivity. Qed.

Ltac fin := rewrite ?app_nil_r; try reflexivity;
            repeat (progress (cbn [csize isize]; rewrite ?csize_app));
            repeat (f_equal; try lia).

Section Step.
Variable rec : expr -> option code.
Variable mapenv : bool.
Notation comp := (compile mapenv).
Notation I := (interp_code schemes rec mapenv).

(* ------------------------------------------------------------------ leaves *)
Lemma step_nil a : I (ENil a) = Some (comp (ENil a)).
Proof. reflexivity. Qed.

Lemma step_ident a name ns : I (EIdent a name ns) = Some (comp (EIdent a name ns)).
Proof. destruct mapenv, ns; reflexivity. Qed.

Lemma step_int a z : I (EInt a z) = Some (comp (EInt a z)).
Proof.
  destruct a as [l k]. unfold interp_code, interp.
  destruct k as [| |k| | | | | | | |]; try reflexivity.
  destruct k; reflexivity.
Qed.

Lemma step_float a f : I (EFloat a f) = Some (comp (EFloat a f)).
Proof. reflexivity. Qed.

Lemma step_bool a b : I (EBool a b) = Some (comp (EBool a b)).
Proof. destruct b; reflexivity. Qed.

Lemma step_str a s : I (EStr a s) = Some (comp (EStr a s)).
Proof. reflexivity. Qed.

Lemma step_const a v : I (EConst a v) = Some (comp (EConst a v)).
Proof. destruct v; reflexivity. Qed.

Lemma step_pointer a : I (EPointer a) = Some (comp (EPointer a)).
Proof. reflexivity. Qed.


(* ------------------------------------------------------------------ nodes with sub-expressions *)
(* hypotheses: what the nested c.compile calls append *)
Ltac go := unfold interp_code, interp; cbn.

Lemma step_unary a op x :
  (match op with UUnknown _ => False | _ => True end) ->
  rec x = Some (comp x) ->
  I (EUnary a op x) = Some (comp (EUnary a op x)).
Proof.
  intros Hop Hx. destruct op; try contradiction; go; rewrite Hx; cbn; fin.
Qed.

Lemma step_binary a op l r :
  (match op with BUnknown _ => False | _ => True end) ->
  rec l = Some (comp l) -> rec r = Some (comp r) ->
  I (EBinary a op l r) = Some (comp (EBinary a op l r)).
Proof.
  intros Hop Hl Hr.
  destruct op; try contradiction; go; rewrite Hl; cbn; rewrite Hr; cbn; try (fin; fail).
  (* == : the specialised comparisons *)
  destruct (rkind_eqb (kind_of l) (kind_of r)) eqn:E.
  - apply rkind_eqb_eq in E. rewrite !(both_kind_same _ _ _ E).
    destruct (rkind_eqb (kind_of l) (RKNum KInt)); cbn; [fin|].
    destruct (rkind_eqb (kind_of l) RKString); cbn; fin.
  - rewrite !(both_kind_diff _ _ _ E). cbn. fin.
Qed.

Lemma step_matches a re l r :
  rec l = Some (comp l) -> (re = None -> rec r = Some (comp r)) ->
  I (EMatches a re l r) = Some (comp (EMatches a re l r)).
Proof.
  intros Hl Hr. destruct re as [p|]; go; rewrite Hl; cbn; [fin|].
  rewrite (Hr eq_refl). cbn. fin.
Qed.

Lemma step_property a x name ns :
  rec x = Some (comp x) -> I (EProperty a x name ns) = Some (comp (EProperty a x name ns)).
Proof. intros Hx. destruct ns; go; rewrite Hx; cbn; fin. Qed.

Lemma step_index a x i :
  rec x = Some (comp x) -> rec i = Some (comp i) -> I (EIndex a x i) = Some (comp (EIndex a x i)).
Proof. intros Hx Hi. go. rewrite Hx. cbn. rewrite Hi. cbn. fin. Qed.

Lemma step_slice a x from to :
  rec x = Some (comp x) ->
  (forall f, from = Some f -> rec f = Some (comp f)) ->
  (forall t, to = Some t -> rec t = Some (comp t)) ->
  I (ESlice a x from to) = Some (comp (ESlice a x from to)).
Proof.
  intros Hx Hf Ht.
  destruct from as [f|], to as [t|]; go; rewrite Hx; cbn;
    rewrite ?(Ht _ eq_refl); cbn; rewrite ?(Hf _ eq_refl); cbn; fin.
Qed.

Lemma step_closure a x : rec x = Some (comp x) -> I (EClosure a x) = Some (comp (EClosure a x)).
Proof. intros Hx. go. rewrite Hx. cbn. fin. Qed.

Lemma step_cond a c x y :
  rec c = Some (comp c) -> rec x = Some (comp x) -> rec y = Some (comp y) ->
  I (ECond a c x y) = Some (comp (ECond a c x y)).
Proof. intros Hc Hx Hy. go. rewrite Hc. cbn. rewrite Hx. cbn. rewrite Hy. cbn. fin. Qed.

Lemma step_pair a k v :
  rec k = Some (comp k) -> rec v = Some (comp v) ->
  I (EPair a k v) = Some (compile_node mapenv (EPair a k v)).
Proof. intros Hk Hv. go. rewrite Hk. cbn. rewrite Hv. cbn. unfold compile_node. fin. Qed.


(* ------------------------------------------------------------------ []Node fields *)
Lemma compile_method_unfold a x name args ns :
  comp (EMethod a x name args ns) =
  comp x ++ compile_list mapenv args ++
  at_ (aloc a) [if ns then IMethodNilSafe name (List.length args) else IMethod name (List.length args)].
Proof. reflexivity. Qed.

Lemma compile_function_unfold a name args fast :
  comp (EFunction a name args fast) =
  compile_list mapenv args ++ at_ (aloc a) [if fast then ICallFast name (List.length args) else ICall name (List.length args)].
Proof. reflexivity. Qed.

Lemma compile_array_unfold a es :
  comp (EArray a es) = compile_list mapenv es ++ at_ (aloc a) [IPush (vint (Z.of_nat (List.length es))); IArray].
Proof. reflexivity. Qed.

Lemma compile_map_unfold a pairs :
  comp (EMap a pairs) = compile_pairs mapenv pairs ++ at_ (aloc a) [IPush (vint (Z.of_nat (List.length pairs))); IMap].
Proof. reflexivity. Qed.

Lemma step_method a x name args ns :
  rec x = Some (comp x) -> (forall y, In y args -> rec y = Some (comp y)) ->
  I (EMethod a x name args ns) = Some (comp (EMethod a x name args ns)).
Proof.
  intros Hx Hargs. rewrite compile_method_unfold.
  destruct ns; go; rewrite Hx; cbn; rewrite (each_list rec mapenv args Hargs); cbn; rewrite Nat2Z.id; fin.
Qed.

Lemma step_function a name args fast :
  (forall y, In y args -> rec y = Some (comp y)) ->
  I (EFunction a name args fast) = Some (comp (EFunction a name args fast)).
Proof.
  intros Hargs. rewrite compile_function_unfold.
  destruct fast; go; rewrite (each_list rec mapenv args Hargs); cbn; rewrite Nat2Z.id; fin.
Qed.

Lemma step_array a es :
  (forall y, In y es -> rec y = Some (comp y)) ->
  I (EArray a es) = Some (comp (EArray a es)).
Proof.
  intros Hes. rewrite compile_array_unfold. go. rewrite (each_list rec mapenv es Hes). cbn. fin.
Qed.

Lemma step_map a ps :
  (forall y, In y ps -> rec y = Some (compile_node mapenv y) /\ match y with EPair _ _ _ => True | _ => False end) ->
  I (EMap a ps) = Some (comp (EMap a ps)).
Proof.
  intros Hps. rewrite compile_map_unfold. go. rewrite (each_pairs rec mapenv ps Hps). cbn. fin.
Qed.

(* ------------------------------------------------------------------ builtins: emitLoop, emitCond *)
Lemma step_builtin_len a x :
  rec x = Some (comp x) -> I (EBuiltin a BiLen [x]) = Some (comp (EBuiltin a BiLen [x])).
Proof. intros Hx. go. rewrite Hx. cbn. fin. Qed.

Lemma step_builtin_loop a b x c :
  (match b with BiLen | BiUnknown _ => False | _ => True end) ->
  rec x = Some (comp x) -> rec c = Some (comp c) ->
  I (EBuiltin a b [x; c]) = Some (comp (EBuiltin a b [x; c])).
Proof.
  intros Hb Hx Hc.
  destruct b; try contradiction; go; rewrite Hx; cbn; rewrite Hc; cbn; fin.
Qed.

End Step.

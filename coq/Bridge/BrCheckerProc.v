(* Bridge/BrCheckerProc.v — checkFunc as a whole against Checker.check_func (cf_proc); see Bridge/BrChecker.v *)
From Coq Require Import ZArith Bool List String Lia.
Require Import X.Base.Num X.Base.Value X.Syn.Ast X.Sem.Prim X.Ty.Types X.Ty.TypesTable X.Ty.Checker
               X.Ty.CheckProofs X.Ty.CheckRules X.Ty.CheckRulesProofs X.Ty.CheckRulesLoops X.gen.GenWeights X.gen.GenChecker
               X.Bridge.BrCheckerRules X.Bridge.BrCheckerFunc.
Import ListNotations.
Local Open Scope string_scope.
Local Open Scope list_scope.

Section Proc.
Variable c : cconfig.
Variable M : sem.
Hypothesis HM : sem_ok c M.
Variable rec : list ty -> expr -> cst -> option (ty * expr * cst).
Notation VN := (visit_node checker_src c M rec).
Notation child_ok := (child_ok c rec).
Ltac run := run_ HM.
Ltac go := go_ HM.
Ltac crack := crack_ HM.
Section CF2.
Variable self : expr.
Notation cp := (run_proc c M rec self methods 1).
Notation F := "Arguments".
(* compute the small integer tests on literal lists *)
Ltac zc := cbn [List.length Z.of_nat Z.eqb Pos.of_succ_nat Pos.eqb Pos.succ negb nth_error]; evl.

Ltac cfr_ Hnil Hund Hself := repeat first [ step1; evl | semrw1 HM; tyc; evl | rewrite Hnil; evl | rewrite Hund; evl | rewrite Hself; evl ].

Lemma cf_proc (fn' fn : ty) (m : bool) (name : string) (args : list expr) (en : list (nat * gv))
    (cur : expr) (cols : list ty) (st : cst) (k : res -> res) :
  (fn' = TIface /\ fn = TIface) \/
  (exists i v o, under fn' = TFunc i v o /\ fn = TFunc i v o /\ is_interface fn' = false /\ is_nil_ty fn' = false) ->
  sig_ok fn m = true ->
  get_list self F = Some args -> get_list cur F = Some args ->
  seq_ok c rec cols args st ->
  run_proc c M rec self methods 2 "checkFunc" [VT fn'; VB m; VNode PSelf; VS name; VNodes F] (mkG en cur cols st) k =
  let '(t, args', st') := check_func (CheckProofs.vargs c cols) fn m (loc_of self) args st in
  k (RReturn [VT t] (mkG en (set_list cur F args') cols st')).
Proof.
  intros Hfn Hsig Hself Hcur Hrec.
  step1. evl. step1. evl. semrw1 HM. evl.
  destruct Hfn as [[-> ->] | (i & v & o & Hund & -> & Hni & Hnil)].
  - change (is_interface TIface) with true. evl. step1. evl. semrw1 HM. tyc. evl.
    cbn [check_func]. rewrite (set_list_same _ _ _ Hcur). reflexivity.
  - rewrite Hni. evl.
    assert (Hi : m = true \/ v = true -> i <> []).
    { intros Hmv E. subst i. cbn [sig_ok] in Hsig. destruct m, v; cbn in Hsig; try discriminate Hsig; destruct Hmv; discriminate. }
    destruct o as [|o1 [|o2 o']].
    + (* no result *) cfr_ Hnil Hund Hself. zc. cfr_ Hnil Hund Hself. cbn [check_func]. unfold fail_at, record.
      rewrite (set_list_same _ _ _ Hcur). destruct st; cfr_ Hnil Hund Hself; reflexivity.
    + assert (Fin : forall rest' er' B0,
        exec_list c M rec self cp [SReturn [GMeth (GVar 0) "Out" [GInt 0%Z]]]
          (mkG ((6%nat, fst B0) :: (5%nat, snd B0) :: (0%nat, VT fn') :: (1%nat, VB m) :: (2%nat, VNode PSelf) ::
                (3%nat, VS name) :: (4%nat, VNodes F) :: nil) (set_list cur F ([] ++ rest')) cols er')
          (fun o => match o with
                    | RReturn vs s' => k (RReturn vs (set_env en s'))
                    | RNormal s' | RContinue s' | RPanic s' => k (RPanic (set_env en s'))
                    end)
        = k (RReturn [VT o1] (mkG en (set_list cur F rest') cols er'))).
      { intros rest' er' B0. step1. evl. rewrite Hnil, Hund. evl. change (z_index 0) with (Some 0%nat). zc. reflexivity. }
      (* the arity test passed: the loop, then the result type *)
      assert (Loop : forall (kk : res -> res) (numIn off : Z),
        numIn = Z.of_nat (List.length i - (if m then 1 else 0)) -> off = Z.of_nat (if m then 1 else 0) ->
        (v = false -> (List.length (@nil expr) + List.length args)%nat = (List.length i - (if m then 1 else 0))%nat) ->
        (forall s', kk (RNormal s') =
                    exec_list c M rec self cp [SReturn [GMeth (GVar 0) "Out" [GInt 0%Z]]] s'
                      (fun o => match o with
                                | RReturn vs s' => k (RReturn vs (set_env en s'))
                                | RNormal s' | RContinue s' | RPanic s' => k (RPanic (set_env en s'))
                                end)) ->
        (forall vs s', kk (RReturn vs s') = k (RReturn vs (set_env en s'))) ->
        range_loop (cf_body c M rec self) (List.length args) (List.length (@nil expr))
          (mkG (cf_env fn' m name numIn off) cur cols st) kk
        = (let '(t, args', st') :=
             (let '(args', st', ok) := CheckProofs.vargs c cols (param_ty i v m) 0 args st in
              if ok then (o1, args', st') else (TIface, args', st')) in
           k (RReturn [VT t] (mkG en (set_list cur F args') cols st')))).
      { intros kk numIn off -> -> Har KN KR.
        match goal with |- range_loop _ _ _ _ ?K = _ =>
          rewrite (cf_loop c M HM rec self fn' i v [o1] m name Hnil Hund
                     (fun E => Hi (or_intror E)) (fun E => Hi (or_introl E)) args [] [] cur cols st K
                     (fun vs en1 en2 cu0 cl0 e0 => eq_trans (KR vs (mkG en1 cu0 cl0 e0)) (eq_sym (KR vs (mkG en2 cu0 cl0 e0)))) Har Hself eq_refl Hcur Hrec)
        end.
        cbn [List.length].
        destruct (CheckProofs.vargs c cols (param_ty i v m) 0 args st) as [[rest' er'] ok]. destruct ok.
        - rewrite KN. exact (Fin rest' er' (VZ (Z.of_nat (if m then 1 else 0)), VZ (Z.of_nat (List.length i - (if m then 1 else 0))))).
        - rewrite KR. reflexivity. }
      assert (ErrR : forall fam,
        k (RReturn [VT TIface] (mkG en cur cols (record (loc_of self) fam st)))
        = (let '(t, args', st') := (let '(t, st') := fail_at (loc_of self) fam st in (t, args, st')) in
           k (RReturn [VT t] (mkG en (set_list cur F args') cols st')))).
      { intros fam. unfold fail_at. rewrite (set_list_same _ _ _ Hcur). reflexivity. }
      destruct m, v.
      * (* method, variadic *)
        cfr_ Hnil Hund Hself. zc. cfr_ Hnil Hund Hself. zc. cfr_ Hnil Hund Hself.
        rewrite (numin_pred i (Hi (or_introl eq_refl))), ltb_pred_nat.
        cbn [check_func arity_rule].
        destruct (List.length args <? List.length i - 1 - 1)%nat eqn:Few.
        -- rewrite <- ErrR. unfold record. destruct st; reflexivity.
        -- apply Loop; try reflexivity. discriminate.
      * (* method, not variadic *)
        cfr_ Hnil Hund Hself. zc. cfr_ Hnil Hund Hself. zc. cfr_ Hnil Hund Hself.
        rewrite (numin_pred i (Hi (or_introl eq_refl))), !Zltb_nat.
        cbn [check_func arity_rule].
        destruct (List.length i - 1 <? List.length args)%nat eqn:Many.
        -- rewrite <- ErrR. unfold record. destruct st; reflexivity.
        -- destruct (List.length args <? List.length i - 1)%nat eqn:Few.
           ++ rewrite <- ErrR. unfold record. destruct st; reflexivity.
           ++ apply Loop; try reflexivity. intros _. apply Nat.ltb_ge in Many, Few. cbn [List.length]. lia.
      * (* function, variadic *)
        cfr_ Hnil Hund Hself. zc. cfr_ Hnil Hund Hself. zc. cfr_ Hnil Hund Hself.
        rewrite ltb_pred_nat.
        cbn [check_func arity_rule]. rewrite !Nat.sub_0_r.
        destruct (List.length args <? List.length i - 1)%nat eqn:Few.
        -- rewrite <- ErrR. unfold record. destruct st; reflexivity.
        -- apply Loop; try reflexivity; try (rewrite Nat.sub_0_r; reflexivity). discriminate.
      * (* function, not variadic *)
        cfr_ Hnil Hund Hself. zc. cfr_ Hnil Hund Hself. zc. cfr_ Hnil Hund Hself.
        rewrite !Zltb_nat.
        cbn [check_func arity_rule]. rewrite !Nat.sub_0_r.
        destruct (List.length i <? List.length args)%nat eqn:Many.
        -- rewrite <- ErrR. unfold record. destruct st; reflexivity.
        -- destruct (List.length args <? List.length i)%nat eqn:Few.
           ++ rewrite <- ErrR. unfold record. destruct st; reflexivity.
           ++ apply Loop; try reflexivity; try (rewrite Nat.sub_0_r; reflexivity).
              intros _. apply Nat.ltb_ge in Many, Few. cbn [List.length]. lia.
    + (* several results *)
      assert (L0 : (Z.of_nat (List.length (o1 :: o2 :: o')) =? 0)%Z = false) by (apply Z.eqb_neq; cbn [List.length]; lia).
      assert (L1 : (Z.of_nat (List.length (o1 :: o2 :: o')) =? 1)%Z = false) by (apply Z.eqb_neq; cbn [List.length]; lia).
      cfr_ Hnil Hund Hself. rewrite L0. evl. cfr_ Hnil Hund Hself. rewrite L1. zc. cfr_ Hnil Hund Hself.
      cbn [check_func]. unfold fail_at, record. rewrite (set_list_same _ _ _ Hcur). destruct st; reflexivity.
Qed.
End CF2.
End Proc.

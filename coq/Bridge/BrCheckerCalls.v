(* Bridge/BrCheckerCalls.v — the bridge lemmas of BuiltinNode, ArrayNode, MapNode, MethodNode, FunctionNode and
   checkFunc (see Bridge/BrChecker.v) *)
From Coq Require Import ZArith Bool List String Lia.
Require Import X.Base.Num X.Base.Value X.Syn.Ast X.Sem.Prim X.Ty.Types X.Ty.TypesTable X.Ty.Checker
               X.Ty.CheckProofs X.Ty.CheckRules X.Ty.CheckRulesProofs X.Ty.CheckRulesLoops X.gen.GenWeights X.gen.GenChecker
               X.Bridge.BrCheckerRules.
Import ListNotations.
Local Open Scope string_scope.
Local Open Scope list_scope.

Lemma array_has_elem t :
  is_array t = true -> is_interface t = false ->
  is_nil_ty t = false /\ exists e, (under t = TSlice e \/ under t = TPtr e) /\ elem_of t = e.
Proof.
  unfold is_array, is_interface, dk, elem_of. intros A I.
  destruct t; cbn [dereference kind_of_ty under is_nil_ty] in *; try discriminate A; try discriminate I.
  - split; [reflexivity|]. eexists; split; [left; reflexivity|reflexivity].
  - split; [reflexivity|]. eexists; split; [right; reflexivity|reflexivity].
  - split; [reflexivity|]. rewrite <- kind_under in A, I.
    destruct (under t) eqn:U; cbn in A, I; try discriminate A; try discriminate I.
    + eexists; split; [left; reflexivity|reflexivity].
    + exfalso. exact (under_not_named _ _ _ U).
Qed.

Section Builtins.
Variable c : cconfig.
Variable M : sem.
Hypothesis HM : sem_ok c M.
Variable rec : list ty -> expr -> cst -> option (ty * expr * cst).
Notation VN := (visit_node checker_src c M rec).
Notation child_ok := (child_ok c rec).
Ltac run := run_ HM.
Ltac go := go_ HM.
Ltac crack := crack_ HM.

(* compute on the constructors a closure type exposes *)
Ltac evc :=
  cbn [is_nil_ty under kind_of_ty rkind_eqb is_func_nd kind_is is_interface dk dereference closure_out
       List.length Z.of_nat Pos.of_succ_nat Z.eqb Pos.eqb Pos.succ]; ev.

Lemma node_builtin_len a x rest cols st :
  child_ok cols x st -> VN cols (EBuiltin a BiLen (x :: rest)) st = Some (visit c cols (EBuiltin a BiLen (x :: rest)) st).
Proof.
  intros Hx. go. rewrite Hx. cbn [visit]. destruct (visit c cols x st) as [[t x'] st1]. run.
  unfold len_rule, emit, fail_at, record. crack; fin.
Qed.

Lemma node_builtin_unknown a s args cols st :
  VN cols (EBuiltin a (BiUnknown s) args) st = Some (visit c cols (EBuiltin a (BiUnknown s) args) st).
Proof. go. cbn [visit]. unfold fail_at, record. fin. Qed.

Ltac closure_tac Hx Hcl :=
  go; rewrite Hx; cbn [visit];
  match goal with |- context [visit c ?cl ?x ?s] =>
    let V := fresh "V" in destruct (visit c cl x s) as [[? ?] ?] eqn:V; try rewrite V in Hcl; cbn [fst snd] in Hcl end; run;
  match goal with |- context [is_array ?t] => destruct (is_array t) eqn:IsArr end; run; [|unfold fail_at, record; fin];
  rewrite Hcl; cbn [visit];
  match goal with |- context [visit c ?cl ?x ?s] => destruct (visit c cl x s) as [[? ?] ?] end; run;
  unfold closure_rule, emit, fail_at, record; evc; run; evc; crack; fin.

Lemma node_builtin_pred a b x ac body rest cols st :
  b = BiAll \/ b = BiNone \/ b = BiAny \/ b = BiOne ->
  child_ok cols x st ->
  child_ok (fst (fst (visit c cols x st)) :: cols) (EClosure ac body) (snd (visit c cols x st)) ->
  VN cols (EBuiltin a b (x :: EClosure ac body :: rest)) st
  = Some (visit c cols (EBuiltin a b (x :: EClosure ac body :: rest)) st).
Proof.
  intros [-> | [-> | [-> | ->]]] Hx Hcl.
  - closure_tac Hx Hcl.
  - closure_tac Hx Hcl.
  - closure_tac Hx Hcl.
  - closure_tac Hx Hcl.
Qed.

Lemma node_builtin_map a x ac body rest cols st :
  child_ok cols x st ->
  child_ok (fst (fst (visit c cols x st)) :: cols) (EClosure ac body) (snd (visit c cols x st)) ->
  VN cols (EBuiltin a BiMap (x :: EClosure ac body :: rest)) st
  = Some (visit c cols (EBuiltin a BiMap (x :: EClosure ac body :: rest)) st).
Proof. intros Hx Hcl. closure_tac Hx Hcl. Qed.

Lemma node_builtin_count a x ac body rest cols st :
  child_ok cols x st ->
  child_ok (fst (fst (visit c cols x st)) :: cols) (EClosure ac body) (snd (visit c cols x st)) ->
  VN cols (EBuiltin a BiCount (x :: EClosure ac body :: rest)) st
  = Some (visit c cols (EBuiltin a BiCount (x :: EClosure ac body :: rest)) st).
Proof. intros Hx Hcl. closure_tac Hx Hcl. Qed.

Lemma node_builtin_filter a x ac body rest cols st :
  child_ok cols x st ->
  child_ok (fst (fst (visit c cols x st)) :: cols) (EClosure ac body) (snd (visit c cols x st)) ->
  VN cols (EBuiltin a BiFilter (x :: EClosure ac body :: rest)) st
  = Some (visit c cols (EBuiltin a BiFilter (x :: EClosure ac body :: rest)) st).
Proof.
  intros Hx Hcl.
  go; rewrite Hx; cbn [visit];
  match goal with |- context [visit c ?cl ?x ?s] => destruct (visit c cl x s) as [[t x'] st1] eqn:V end;
  try rewrite V in Hcl; cbn [fst snd] in Hcl; run.
  destruct (is_array t) eqn:IsArr; run; [|unfold fail_at, record; fin].
  rewrite Hcl; cbn [visit];
  match goal with |- context [visit c ?cl ?x ?s] => destruct (visit c cl x s) as [[tb body'] st2] end; run.
  unfold closure_rule, emit, fail_at, record; evc; run; evc.
  destruct (is_bool (if is_nil_ty tb then TIface else tb)); run; [|fin].
  destruct (is_interface t) eqn:IsI; run; [reflexivity|].
  destruct (array_has_elem t IsArr IsI) as (Nn & el & [U | U] & El); rewrite Nn, U; run; rewrite <- El; reflexivity.
Qed.


(* ---------------- ArrayNode, MapNode: the loop over the elements is the model's vlist *)
Lemma array_scope_ok (w0 : gv) : loop_scope_ok 2%nat [(0%nat, w0)].
Proof. split; intros w; reflexivity. Qed.

Lemma node_array a es cols st :
  seq_ok c rec cols es st ->
  VN cols (EArray a es) st = Some (visit c cols (EArray a es) st).
Proof.
  intros Hes. go.
  match goal with |- context [range_loop ?b (List.length ?l) O (mkG ?en ?cur ?cl ?er) ?k] =>
    change (range_loop b (List.length l) O (mkG en cur cl er) k)
      with (range_loop (visit_body c M rec (EArray a es) (run_proc c M rec (EArray a es) methods 2) "Nodes" 2)
                       (List.length l) (List.length (@nil expr)) (mkG en cur cl er) k);
    rewrite (visit_loop c M rec (EArray a es) (run_proc c M rec (EArray a es) methods 2) "Nodes" 2
                        l [] [] en cur cl er k (array_scope_ok _) eq_refl eq_refl eq_refl Hes)
  end.
  rewrite visit_array. destruct (CheckProofs.vlist c cols es st) as [es' st1]. run. reflexivity.
Qed.

Lemma node_map a ps cols st :
  seq_ok c rec cols ps st ->
  VN cols (Ast.EMap a ps) st = Some (visit c cols (Ast.EMap a ps) st).
Proof.
  intros Hes. go.
  match goal with |- context [range_loop ?b (List.length ?l) O (mkG ?en ?cur ?cl ?er) ?k] =>
    change (range_loop b (List.length l) O (mkG en cur cl er) k)
      with (range_loop (visit_body c M rec (Ast.EMap a ps) (run_proc c M rec (Ast.EMap a ps) methods 2) "Pairs" 2)
                       (List.length l) (List.length (@nil expr)) (mkG en cur cl er) k);
    rewrite (visit_loop c M rec (Ast.EMap a ps) (run_proc c M rec (Ast.EMap a ps) methods 2) "Pairs" 2
                        l [] [] en cur cl er k (array_scope_ok _) eq_refl eq_refl eq_refl Hes)
  end.
  rewrite visit_map. destruct (CheckProofs.vlist c cols ps st) as [es' st1]. run. reflexivity.
Qed.
End Builtins.

(* Bridge/BrDocgenEnv.v — the two regenerated functions composed: for an environment inside the
   fragment of Bridge/BrTables.v the interpreted source of conf.CreateTypesTable yields a table, the
   interpreted source of docgen.CreateDoc run on THAT table yields a duplicate-free key list, and its
   elements are the model's doc_names. *)
From Coq Require Import Bool List String Arith Permutation.
Require Import X.Base.Value X.Ty.Types X.Ty.TypesTable.
Require X.Ty.TableRules X.gen.GenTables X.Bridge.BrTables.
Require X.Ty.DocRules X.gen.GenDocgen X.Bridge.BrDocgen.
Import ListNotations.

Theorem doc_names_bridge_from_env : forall te tperm env names perm permk fuel,
  (forall l e, In e (tperm l) -> In e l) ->
  (forall l e, In e (perm l) <-> In e l) ->
  (forall l k, In k (permk l) <-> In k l) ->
  doc_names te tperm env = Some names ->
  X.Ty.TableRules.env_in_fragment env = true -> X.Ty.TableRules.te_plain te = true ->
  X.Ty.TableRules.tables_fuel te <= fuel ->
  exists tb keys,
    X.Ty.TableRules.gen_create_types_table X.gen.GenTables.funcs te tperm fuel env = X.Ty.TableRules.Got tb /\
    X.Ty.DocRules.run_doc X.gen.GenDocgen.doc_src perm permk tb = X.Ty.DocRules.Got keys /\
    NoDup keys /\ forall k, In k keys <-> In k names.
Proof.
  intros te tperm env names perm permk fuel Ht Hp Hk H Hf Hte Hfu.
  destruct (X.Bridge.BrDocgen.doc_names_bridge te tperm env names perm permk Hp Hk H) as (tb & keys & C & R & N & S).
  exists tb, keys. split; [|auto].
  exact (X.Bridge.BrTables.create_types_table_bridge te tperm env tb fuel Ht C Hf Hte Hfu).
Qed.

(* non-vacuity: *Outer of Bridge/BrTables.v (embedded pointer, unexported field, methods on both
   receivers) is inside the fragment and has a documentation name set *)
Example doc_names_bridge_from_env_inhabited :
  X.Ty.TableRules.env_in_fragment X.Bridge.BrTables.TWit.outer_ptr = true /\
  X.Ty.TableRules.te_plain X.Bridge.BrTables.TWit.te = true /\
  exists names, doc_names X.Bridge.BrTables.TWit.te perm_rev X.Bridge.BrTables.TWit.outer_ptr = Some names /\
                List.length names = 20.
Proof. split; [vm_compute; reflexivity|]. split; [vm_compute; reflexivity|]. eexists; split; vm_compute; reflexivity. Qed.

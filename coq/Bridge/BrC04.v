(* Bridge/BrC04.v — the tables regenerated from expr.go, conf/, parser/, checker/, compiler/, optimizer/,
   vm/ (coq/gen/GenPipeline.v) are the tables the C04 model and theorems expect:
   stage order of Compile / Eval / Run, the recover table, the error-return shapes.
   Closed by vm_compute; these lemmas are what breaks when a recover is removed, a stage is
   reordered or an error path returns something else than nil. *)
From Coq Require Import ZArith Bool List String.
Require Import X.Pipe.Pipeline X.Pipe.PipeProofs X.gen.GenPipeline.
Import ListNotations.
Local Open Scope string_scope.

Lemma translator_recognised_pipeline : pipeline_unrecognised = [].
Proof. vm_compute. reflexivity. Qed.

(* ---- (a) the stage calls *)
Definition compile_calls : list call := calls_of gen_compile_calls.
Definition eval_calls : list call := calls_of gen_eval_calls.
Definition run_calls_gen : list call := calls_of gen_run_calls.
Definition vmrun_calls : list call := calls_of gen_vmrun_calls.

(* the pinned tree, or the same order with the walk of user visitors under a recover (the candidate
   repair of finding C04-compile-visitor-panic) *)
Lemma compile_calls_expected :
  decode_calls gen_compile_calls = Some expected_compile_calls \/
  decode_calls gen_compile_calls = Some expected_compile_calls_guarded.
Proof. vm_compute. first [left; reflexivity | right; reflexivity]. Qed.

Lemma eval_calls_expected : decode_calls gen_eval_calls = Some expected_eval_calls.
Proof. vm_compute. reflexivity. Qed.

Lemma run_calls_expected : decode_calls gen_run_calls = Some expected_run_calls /\ decode_calls gen_vmrun_calls = Some expected_run_calls.
Proof. vm_compute. split; reflexivity. Qed.

Lemma compile_calls_wf : calls_wf false false compile_calls = true.
Proof. vm_compute. reflexivity. Qed.
Lemma eval_calls_wf : calls_wf false false eval_calls = true.
Proof. vm_compute. reflexivity. Qed.
Lemma run_calls_wf : calls_wf false true run_calls_gen = true.
Proof. vm_compute. reflexivity. Qed.
Lemma compile_calls_produce : produces_prog compile_calls = true.
Proof. vm_compute. reflexivity. Qed.
Lemma run_calls_is : run_calls_gen = [CRun] /\ vmrun_calls = [CRun].
Proof. vm_compute. split; reflexivity. Qed.

Definition expected_option_calls : list (string * string) :=
  [ ("AllowUndefinedVariables", ""); ("AsBool", ""); ("AsFloat64", ""); ("AsInt64", "");
    ("ConstExpr", "conf.Config.ConstExpr"); ("Env", "conf.CreateTypesTable"); ("Operator", "");
    ("Optimize", ""); ("Patch", "") ].
Lemma option_calls_expected : gen_option_calls = expected_option_calls.
Proof. vm_compute. reflexivity. Qed.

(* ---- (b) the recover table *)
Lemma recover_expected : gen_recover = expected_recover.
Proof. vm_compute. reflexivity. Qed.

Lemma recover_guards_exactly : table_guards_exactly gen_recover = true.
Proof. vm_compute. reflexivity. Qed.

Lemma recover_sufficient : table_sufficient gen_recover = true.
Proof. vm_compute. reflexivity. Qed.

Definition expected_recover_handlers : list (string * nat * string) :=
  [ ("compiler.Compile", 0%nat, "err"); ("conf.Config.ConstExpr", 1%nat, "c.Error()");
    ("optimizer.constExpr.Exit", 0%nat, "c.err,msg"); ("vm.VM.Run", 0%nat, "err") ].
Lemma recover_handlers_expected : gen_recover_handlers = expected_recover_handlers.
Proof. vm_compute. reflexivity. Qed.

Lemma guarded_facts :
  forall a, guarded gen_recover a StConstExprOpt = true /\ guarded gen_recover a StConstExprCall = true /\
            guarded gen_recover a StCompile = true /\ guarded gen_recover a StVMRun = true /\
            guarded gen_recover a StVisitor = false.
Proof. intros a; destruct a; vm_compute; repeat split; reflexivity. Qed.

(* ---- (c) what accompanies an error *)
Definition nil_on_err_compile : bool := returns_nil_on_err "expr.Compile" gen_returns.
Definition nil_on_err_eval : bool := returns_nil_on_err "expr.Eval" gen_returns.
Definition nil_on_err_run : bool :=
  returns_nil_on_err "expr.Run" gen_returns && returns_nil_on_err "vm.Run" gen_returns &&
  match find (fun e => String.eqb (fst e) "vm.VM.Run") gen_named_results with
  | Some (_, s) => String.eqb s "returns-value-nil-only" | None => false end.

Lemma errors_come_with_nil : nil_on_err_compile = true /\ nil_on_err_eval = true /\ nil_on_err_run = true.
Proof. vm_compute. repeat split; reflexivity. Qed.

Definition expected_named_results : list (string * string) :=
  [ ("compiler.Compile", "assigned-last"); ("vm.VM.Run", "returns-value-nil-only") ].
Lemma named_results_expected : gen_named_results = expected_named_results.
Proof. vm_compute. reflexivity. Qed.

(* a success of Compile / Eval returns the program / the output; Run delegates to vm.Run -> VM.Run *)
Lemma ok_returns_expected :
  filter (fun e => String.eqb (snd (fst e)) "ok" || String.eqb (snd (fst e)) "delegate") gen_returns =
  [ ("expr.Compile", "ok", "program"); ("expr.Eval", "ok", "output"); ("expr.Run", "delegate", "vm.Run");
    ("vm.Run", "delegate", "vm.VM.Run") ].
Proof. vm_compute. reflexivity. Qed.

Lemma run_nil_guard : gen_run_nil_guard = true.
Proof. vm_compute. reflexivity. Qed.

(* ---- (d) the optimizer passes and their (constant) iteration bounds *)
Lemma optimize_passes_expected : gen_optimize_passes = expected_optimize_passes.
Proof. vm_compute. reflexivity. Qed.

(* ================================================================== theorems on the regenerated tables *)
Section OnGen.
  Variable S : stages.

  (* one hypothesis per stage that runs outside every recover *)
  Record unguarded_stages_total : Prop := mkUST {
    h_options : forall o c, s_opt_is_constexpr S o = false -> s_opt_apply S o c <> PPanic;
    h_config_check : forall c, s_config_check S c <> PPanic;
    h_lexer : forall x, s_lex S x <> PPanic;
    h_parser : forall x ts, s_lex S x = POk ts -> s_parse S ts <> PPanic;
    h_checker : forall c t, s_check S c t <> PPanic;
    h_operator_patcher : forall c t, s_patch_operators S c t <> PPanic;
    h_opt_inarray : forall t, s_opt_inarray S t <> PPanic;
    h_opt_fold : forall t, s_opt_fold S t <> PPanic;
    h_opt_inrange : forall t, s_opt_inrange S t <> PPanic;
    h_opt_constrange : forall t, s_opt_constrange S t <> PPanic
  }.

  Lemma ust_ut a : unguarded_stages_total -> unguarded_total gen_recover S a.
  Proof.
    intros H. destruct (guarded_facts a) as (G1 & G2 & G3 & G4 & _).
    constructor; unfold contained; try (right; apply H); left; assumption.
  Qed.

  (* user visitors: well-behaved, unless the code guards them *)
  Definition visitors_ok : Prop := visitors_guarded compile_calls = true \/ (forall v t, s_visit S v t <> PPanic).

  Lemma visitors_ok_contained a cs : visitors_guarded cs = true \/ (forall v t, s_visit S v t <> PPanic) ->
    visitors_contained gen_recover S a cs.
  Proof. intros [H|H]; [left; exact H|right; right; exact H]. Qed.

  Theorem containment_gen :
    unguarded_stages_total -> visitors_ok ->
    (forall opts src env, compile_api gen_recover S nil_on_err_compile compile_calls opts src env <> APanic) /\
    (forall src env, eval_api gen_recover S nil_on_err_eval eval_calls src env <> APanic) /\
    (forall src p env, run_api gen_recover S nil_on_err_run gen_run_nil_guard run_calls_gen src p env <> APanic).
  Proof.
    intros H Hv. split; [|split].
    - intros opts src env. apply containment_compile; [apply ust_ut; exact H|exact compile_calls_wf|apply visitors_ok_contained; exact Hv].
    - intros src env. apply containment_eval; [apply ust_ut; exact H|exact eval_calls_wf|].
      apply visitors_ok_contained. left. vm_compute. reflexivity.
    - intros src p env. rewrite run_nil_guard. apply containment_run; [apply ust_ut; exact H|exact run_calls_wf|].
      apply visitors_ok_contained. left. vm_compute. reflexivity.
  Qed.

  (* Run needs no hypothesis at all: its only stage is under the recover of VM.Run, and vm.Run
     refuses a nil program *)
  Theorem run_never_panics_gen src p env :
    run_api gen_recover S nil_on_err_run gen_run_nil_guard run_calls_gen src p env <> APanic.
  Proof.
    rewrite run_nil_guard. destruct run_calls_is as [E _]. rewrite E.
    unfold run_api. destruct p as [p|]; [|destruct nil_on_err_run; discriminate].
    cbn [run_calls exec p_prog]. unfold g. destruct (guarded_facts ApiRun) as (_ & _ & _ & G & _). rewrite G.
    destruct (s_vm_loop S (s_envfn S env) p env); cbn; try destruct nil_on_err_run; try discriminate.
  Qed.

  Theorem result_shape_gen :
    (forall opts src env, let r := compile_api gen_recover S nil_on_err_compile compile_calls opts src env in
                          r = APanic \/ shape_ok true r = true) /\
    (forall src env, let r := eval_api gen_recover S nil_on_err_eval eval_calls src env in
                     r = APanic \/ shape_ok false r = true) /\
    (forall src p env, let r := run_api gen_recover S nil_on_err_run gen_run_nil_guard run_calls_gen src p env in
                       r = APanic \/ shape_ok false r = true).
  Proof.
    destruct errors_come_with_nil as (E1 & E2 & E3). rewrite E1, E2, E3, run_nil_guard. split; [|split]; cbn zeta.
    - intros. apply result_shape_compile. exact compile_calls_produce.
    - intros. apply result_shape_eval.
    - intros. apply result_shape_run.
  Qed.
End OnGen.

(* ---- the full statement (no restriction on user visitors) holds exactly when the code guards them *)
Definition full_statement : Prop :=
  forall (S : stages), unguarded_stages_total S ->
  forall opts src env, compile_api gen_recover S nil_on_err_compile compile_calls opts src env <> APanic.

Theorem full_statement_when_guarded : visitors_guarded compile_calls = true -> full_statement.
Proof.
  intros Hg S H opts src env. destruct (containment_gen S H (or_introl Hg)) as [Hc _]. apply Hc.
Qed.

(* witness: every stage succeeds trivially, one user visitor that panics *)
Definition toy_stages : stages :=
  mkStages unit (list bool) unit unit unit bool unit unit unit
    [true] [] (fun _ => false) (fun _ c => POk c) (fun _ => POk tt) (fun _ => POk tt) (fun _ => POk tt)
    (fun _ t => POk t) (fun _ t => t) (fun c => c) (fun _ t => POk t)
    (fun v t => if v then PPanic else POk t)
    (fun _ => true) (fun _ => false) (fun t => POk t) (fun t => POk t) (fun t => POk t) (fun t => POk t)
    (fun _ _ _ => PErr) (fun _ => tt) (fun _ _ t => POk t) (fun _ t => POk t) (fun _ _ _ => PErr) (fun _ => false).

Lemma toy_total : unguarded_stages_total toy_stages.
Proof. constructor; intros; cbn; discriminate. Qed.

Theorem full_statement_refuted_when_unguarded : visitors_guarded compile_calls = false -> ~ full_statement.
Proof.
  intros Hu F. specialize (F toy_stages toy_total [] tt tt). apply F. clear F.
  destruct compile_calls_expected as [E|E]; unfold compile_calls, calls_of in *; rewrite E in *.
  - vm_compute. reflexivity.
  - vm_compute in Hu. discriminate.
Qed.

(* Bridge/BrCapstoneC11.v — C11 capstones: the property theorems about the hand models Parse/Parser.v and
   Lex/Lexer.v composed with the regeneration bridges Bridge/BrParser.v (gen_parse_is_parse) and Bridge/BrLexer.v
   (gen_lex_is_lex).  The statements mention only
     gen_parse parser_program     the interpretation (Parse/ParseRules.v) of parser/parser.go REGENERATED into gen/GenParser.v,
     gen_lex .. lexer_funs        the interpretation (Lex/LexRules.v) of parser/lexer/*.go REGENERATED into gen/GenLexer.v,
     gen_grammar                  the operator / builtin tables REGENERATED into gen/GenGrammar.v,
   and the reference definitions (printers, renderer, layouts, normalize, ref_parses, erase_loc ...).
   `gen_parse` answers `option parse_result`: None = the interpreter met an ill-formed program (never happens). *)
From Coq Require Import ZArith Bool List String Ascii Floats Lia.
Require Import X.Base.Num X.Base.Value X.Syn.Ast X.Syn.Tok X.Lex.Lexer X.Lex.LexProofs.
Require Import X.Parse.Parser X.Parse.Printer X.Parse.ParseProofs X.gen.GenGrammar X.Corr.CorrC11 X.Bridge.BrC11 X.Parse.Render
               X.Parse.TextProofs X.Parse.Sound X.Parse.SoundCorProofs X.Parse.FuelProofs.
Require Import X.Parse.ParseRules X.gen.GenParser X.Bridge.BrParser.
Require Import X.Lex.LexRules X.gen.GenLexer X.Bridge.BrLexerFns X.Bridge.BrLexer.
Import ListNotations.
Open Scope Z_scope.

(* ------------------------------------------------------------------ the regenerated front end on a text *)
(* parser.Parse(text) read off the regenerated terms: regenerated lexer, then regenerated parser *)
Definition source_parse_text (ul ud us : Z -> bool) (g : grammar) (o : oracles) (txt : list Z) : option parse_result :=
  match gen_lex ul ud us lexer_funs txt with
  | GenOk ts => gen_parse parser_program g o ts
  | GenErr l => Some (RErr l)
  | GenOutOfFuel => Some RFuel
  | GenCrash _ => None
  end.

(* positions the regenerated lexer gives to the tokens of a text *)
Definition source_text_positions (ul ud us : Z -> bool) (txt : list Z) : list loc :=
  match gen_lex ul ud us lexer_funs txt with GenOk ts => map tloc ts | _ => [] end.

Lemma source_parse_text_is_model : forall ul ud us g o txt,
  source_parse_text ul ud us g o txt = Some (parse_text ul ud us g o txt).
Proof.
  intros. unfold source_parse_text, parse_text. rewrite gen_lex_is_lex.
  destruct (lex ul ud us txt); cbn [of_lex]; [apply gen_parse_is_parse|reflexivity|reflexivity].
Qed.

Lemma source_text_positions_is_model : forall ul ud us txt,
  source_text_positions ul ud us txt = text_positions ul ud us txt.
Proof.
  intros. unfold source_text_positions, text_positions. rewrite gen_lex_is_lex.
  destruct (lex ul ud us txt); reflexivity.
Qed.

Ltac to_model := rewrite ?source_parse_text_is_model, ?source_text_positions_is_model, ?gen_parse_is_parse.

(* ------------------------------------------------------------------ token level *)
Theorem src_roundtrip : forall (o : oracles) (fmt_int : Z -> string) (fmt_float : float -> string) (c : poracle) (t : expr),
  printable gen_grammar fmt_int fmt_float o c t ->
  gen_parse parser_program gen_grammar o (print_any gen_grammar fmt_int fmt_float c t) = Some (ROk t).
Proof. intros. to_model. f_equal. apply roundtrip_gen; assumption. Qed.

Theorem src_roundtrip_min : forall (o : oracles) (fmt_int : Z -> string) (fmt_float : float -> string) (t : expr),
  printable gen_grammar fmt_int fmt_float o no_extra t ->
  gen_parse parser_program gen_grammar o (print_min gen_grammar fmt_int fmt_float t) = Some (ROk t).
Proof. intros. to_model. f_equal. apply roundtrip_min_gen; assumption. Qed.

Theorem src_redundant_parentheses : forall (o : oracles) (fmt_int : Z -> string) (fmt_float : float -> string) (c1 c2 : poracle) (t : expr),
  printable gen_grammar fmt_int fmt_float o c1 t -> printable gen_grammar fmt_int fmt_float o c2 t ->
  gen_parse parser_program gen_grammar o (print_any gen_grammar fmt_int fmt_float c1 t) =
  gen_parse parser_program gen_grammar o (print_any gen_grammar fmt_int fmt_float c2 t).
Proof. intros. to_model. f_equal. apply redundant_parens_gen; assumption. Qed.

(* the printer follows the DOCUMENTED tables, the parser is the regenerated one over the regenerated tables *)
Theorem src_roundtrip_reference_printer : forall (o : oracles) (fmt_int : Z -> string) (fmt_float : float -> string) (c : poracle) (t : expr),
  printable (canon_grammar ref_grammar) fmt_int fmt_float o c t ->
  gen_parse parser_program gen_grammar o (print_any (canon_grammar ref_grammar) fmt_int fmt_float c t) = Some (ROk t).
Proof. intros. to_model. f_equal. apply roundtrip_ref; assumption. Qed.

Theorem src_any_parentheses : forall (o : oracles) (fmt_int : Z -> string) (fmt_float : float -> string) (c : poracle) (t : expr),
  printable gen_grammar fmt_int fmt_float o no_extra t ->
  (forall path x, node_at t path = Some x -> no_parens_allowed x = true -> c path = O) ->
  gen_parse parser_program gen_grammar o (print_any gen_grammar fmt_int fmt_float c t) = Some (ROk t).
Proof. intros. to_model. f_equal. apply roundtrip_any_parens_gen; assumption. Qed.

(* the regenerated parser never runs out of fuel and never meets an ill-formed program, on any token list / grammar *)
Theorem src_parse_total : forall (g : grammar) (o : oracles) (ts : list token),
  gen_parse parser_program g o ts <> None /\ gen_parse parser_program g o ts <> Some RFuel.
Proof.
  intros g o ts. to_model. split; [discriminate|].
  intros H. injection H as H. exact (X.Parse.FuelProofs.parse_total g o ts H).
Qed.

(* ------------------------------------------------------------------ text level *)
Theorem src_text_tokens : forall (ul ud us : Z -> bool) (g : grammar) (o : oracles) (L : layout) (toks : list token),
  layout_good ul ud us L toks = true ->
  option_map erase_result (source_parse_text ul ud us g o (render ul ud us L toks)) =
  option_map erase_result (gen_parse parser_program g o toks).
Proof. intros. to_model. cbn [option_map]. f_equal. apply text_tokens; assumption. Qed.

Theorem src_text_any_spelling : forall (ul ud us : Z -> bool) (g : grammar) (o : oracles) (items : list (list Z * xtok)) (trail : list Z),
  layoutx_ok ul ud us items trail = true ->
  option_map erase_result (source_parse_text ul ud us g o (layoutx items trail)) =
  gen_parse parser_program g o (map (fun it => xtoken (snd it)) items ++ [mkTok noloc TkEOF ""%string])%list.
Proof. intros. to_model. cbn [option_map]. f_equal. apply text_items; assumption. Qed.

Theorem src_text_roundtrip_good_layout : forall (ul ud us : Z -> bool) (o : oracles)
    (fmt_int : Z -> string) (fmt_float : float -> string) (c : poracle) (t : expr) (L : layout),
  printable gen_grammar fmt_int fmt_float o c t ->
  layout_good ul ud us L (print_any gen_grammar fmt_int fmt_float c t) = true ->
  exists t', source_parse_text ul ud us gen_grammar o (render ul ud us L (print_any gen_grammar fmt_int fmt_float c t)) = Some (ROk t') /\
             erase_loc t' = erase_loc t.
Proof.
  intros ul ud us o fi ff c t L P G.
  destruct (text_roundtrip ul ud us gen_grammar o fi ff gen_grammar_wf c t L P G) as (t' & E & R).
  exists t'. to_model. rewrite E. split; [reflexivity|exact R].
Qed.

Theorem src_text_roundtrip : forall (ul ud us : Z -> bool) (o : oracles)
    (fmt_int : Z -> string) (fmt_float : float -> string) (c : poracle) (t : expr) (L : layout),
  printable gen_grammar fmt_int fmt_float o c t ->
  tree_textable ul ud us fmt_int fmt_float t = true ->
  white L (print_any gen_grammar fmt_int fmt_float c t) = true ->
  exists t', source_parse_text ul ud us gen_grammar o (render ul ud us L (print_any gen_grammar fmt_int fmt_float c t)) = Some (ROk t') /\
             erase_loc t' = erase_loc t.
Proof.
  intros ul ud us o fi ff c t L P T W.
  destruct (text_roundtrip_tree ul ud us gen_grammar o fi ff gen_grammar_wf c t L P T W) as (t' & E & R).
  exists t'. to_model. rewrite E. split; [reflexivity|exact R].
Qed.

Theorem src_text_locations : forall (ul ud us : Z -> bool) (o : oracles)
    (fmt_int : Z -> string) (fmt_float : float -> string) (c : poracle) (t : expr) (L : layout),
  let toks := print_any gen_grammar fmt_int fmt_float c t in
  printable gen_grammar fmt_int fmt_float o c t ->
  tree_textable ul ud us fmt_int fmt_float t = true ->
  white L toks = true -> distinct_locs toks = true ->
  exists t', source_parse_text ul ud us gen_grammar o (render ul ud us L toks) = Some (ROk t') /\
    erase_loc t' = erase_loc t /\
    forall path x, node_at t path = Some x -> Ast.loc_of x <> noloc ->
      exists x', node_at t' path = Some x' /\
        Ast.loc_of x' = loc_at toks (source_text_positions ul ud us (render ul ud us L toks)) (Ast.loc_of x).
Proof.
  intros ul ud us o fi ff c t L toks P T W D.
  destruct (text_locations_tree ul ud us gen_grammar o fi ff gen_grammar_wf c t L P T W D) as (t' & E & R & N).
  exists t'. to_model. fold toks in E. rewrite E. split; [reflexivity|]. split; [exact R|exact N].
Qed.

Theorem src_text_roundtrip_uniform : forall (ul ud us : Z -> bool) (o : oracles)
    (fmt_int : Z -> string) (fmt_float : float -> string) (c : poracle) (t : expr) (ws : list Z) (dq : bool),
  printable gen_grammar fmt_int fmt_float o c t ->
  tree_textable ul ud us fmt_int fmt_float t = true ->
  forallb ascii_ws ws = true -> ws <> [] -> hd_okb (fun c => c =? 32) ws = true ->
  exists t', source_parse_text ul ud us gen_grammar o
               (render ul ud us (uniform_layout ws dq) (print_any gen_grammar fmt_int fmt_float c t)) = Some (ROk t') /\
             erase_loc t' = erase_loc t.
Proof.
  intros ul ud us o fi ff c t ws dq P T H1 H2 H3.
  destruct (text_roundtrip_uniform ul ud us o fi ff c t ws dq P T H1 H2 H3) as (t' & E & R).
  exists t'. to_model. rewrite E. split; [reflexivity|exact R].
Qed.

Theorem src_whitespace_irrelevant : forall (ul ud us : Z -> bool) (o : oracles)
    (fmt_int : Z -> string) (fmt_float : float -> string) (c : poracle) (t : expr) (L1 L2 : layout),
  printable gen_grammar fmt_int fmt_float o c t ->
  tree_textable ul ud us fmt_int fmt_float t = true ->
  white L1 (print_any gen_grammar fmt_int fmt_float c t) = true ->
  white L2 (print_any gen_grammar fmt_int fmt_float c t) = true ->
  exists t1 t2,
    source_parse_text ul ud us gen_grammar o (render ul ud us L1 (print_any gen_grammar fmt_int fmt_float c t)) = Some (ROk t1) /\
    source_parse_text ul ud us gen_grammar o (render ul ud us L2 (print_any gen_grammar fmt_int fmt_float c t)) = Some (ROk t2) /\
    erase_loc t1 = erase_loc t2 /\ erase_loc t1 = erase_loc t.
Proof.
  intros ul ud us o fi ff c t L1 L2 P T W1 W2.
  destruct (whitespace_irrelevant_tree ul ud us gen_grammar o fi ff gen_grammar_wf c t L1 L2 P T W1 W2) as (t1 & t2 & E1 & E2 & R).
  exists t1, t2. to_model. rewrite E1, E2. repeat split; apply R.
Qed.

Theorem src_redundant_parentheses_text : forall (ul ud us : Z -> bool) (o : oracles)
    (fmt_int : Z -> string) (fmt_float : float -> string) (c1 c2 : poracle) (t : expr) (L1 L2 : layout),
  printable gen_grammar fmt_int fmt_float o c1 t -> printable gen_grammar fmt_int fmt_float o c2 t ->
  tree_textable ul ud us fmt_int fmt_float t = true ->
  white L1 (print_any gen_grammar fmt_int fmt_float c1 t) = true ->
  white L2 (print_any gen_grammar fmt_int fmt_float c2 t) = true ->
  exists t1 t2,
    source_parse_text ul ud us gen_grammar o (render ul ud us L1 (print_any gen_grammar fmt_int fmt_float c1 t)) = Some (ROk t1) /\
    source_parse_text ul ud us gen_grammar o (render ul ud us L2 (print_any gen_grammar fmt_int fmt_float c2 t)) = Some (ROk t2) /\
    erase_loc t1 = erase_loc t2 /\ erase_loc t1 = erase_loc t.
Proof.
  intros ul ud us o fi ff c1 c2 t L1 L2 P1 P2 T W1 W2.
  destruct (redundant_parentheses_tree ul ud us gen_grammar o fi ff gen_grammar_wf c1 c2 t L1 L2 P1 P2 T W1 W2) as (t1 & t2 & E1 & E2 & R).
  exists t1, t2. to_model. rewrite E1, E2. repeat split; apply R.
Qed.

(* the unrestricted white-space statement, over the regenerated front end: false (finding C11-notin-spacing) *)
Definition src_text_full_statement : Prop :=
  forall (ul ud us : Z -> bool) (o : oracles) (fmt_int : Z -> string) (fmt_float : float -> string)
         (c : poracle) (t : expr) (L : layout),
    let toks := print_any gen_grammar fmt_int fmt_float c t in
    printable gen_grammar fmt_int fmt_float o c t ->
    tree_textable ul ud us fmt_int fmt_float t = true ->
    gaps_ok L 0 toks = true -> notin_white L 0 toks = true ->
    exists t', source_parse_text ul ud us gen_grammar o (render ul ud us L toks) = Some (ROk t') /\
               erase_loc t' = erase_loc t.

Theorem src_text_full_statement_refuted : ~ src_text_full_statement.
Proof.
  intros H. apply text_full_statement_refuted. intros ul ud us o fi ff c t L toks P T G N.
  destruct (H ul ud us o fi ff c t L P T G N) as (t' & E & R). exists t'. split; [|exact R].
  fold toks in E. rewrite source_parse_text_is_model in E. injection E as E. exact E.
Qed.

Theorem src_text_partial : forall (ul ud us : Z -> bool) (o : oracles) (fmt_int : Z -> string) (fmt_float : float -> string)
    (c : poracle) (t : expr) (L : layout),
  let toks := print_any gen_grammar fmt_int fmt_float c t in
  printable gen_grammar fmt_int fmt_float o c t ->
  tree_textable ul ud us fmt_int fmt_float t = true ->
  gaps_ok L 0 toks = true -> notin_spaced L 0 toks = true ->
  exists t', source_parse_text ul ud us gen_grammar o (render ul ud us L toks) = Some (ROk t') /\
             erase_loc t' = erase_loc t.
Proof.
  intros ul ud us o fi ff c t L toks P T G N.
  destruct (text_partial ul ud us o fi ff c t L P T G N) as (t' & E & R).
  exists t'. to_model. fold toks in E. rewrite E. split; [reflexivity|exact R].
Qed.

(* ------------------------------------------------------------------ soundness: accepted by the regenerated parser => generated by the reference grammar *)
Theorem src_parse_sound : forall (o : oracles) (fmt_int : Z -> string) (fmt_float : float -> string) (ts : list token) (t : expr),
  sound_scope gen_grammar o fmt_int fmt_float ts = true -> gen_parse parser_program gen_grammar o ts = Some (ROk t) ->
  exists c, printable gen_grammar fmt_int fmt_float o c t /\
            normalize gen_grammar o fmt_int fmt_float ts = print_any gen_grammar fmt_int fmt_float c t.
Proof.
  intros o fi ff ts t S E. rewrite gen_parse_is_parse in E. injection E as E.
  exact (parse_sound_gen_grammar o fi ff ts t S E).
Qed.

Theorem src_unique_tree : forall (o : oracles) (fmt_int : Z -> string) (fmt_float : float -> string) (ts : list token) (t1 t2 : expr),
  sound_scope gen_grammar o fmt_int fmt_float ts = true -> gen_parse parser_program gen_grammar o ts = Some (ROk t1) ->
  ref_parses gen_grammar o fmt_int fmt_float ts t2 -> t1 = t2.
Proof.
  intros o fi ff ts t1 t2 S E. rewrite gen_parse_is_parse in E. injection E as E.
  exact (unique_tree_gen o fi ff ts t1 t2 S E).
Qed.

Theorem src_rejects_iff : forall (o : oracles) (fmt_int : Z -> string) (fmt_float : float -> string) (ts : list token),
  sound_scope gen_grammar o fmt_int fmt_float ts = true -> plain gen_grammar o fmt_int fmt_float ts = true ->
  ((exists e, gen_parse parser_program gen_grammar o ts = Some (RErr e)) <-> ~ (exists t, ref_parses gen_grammar o fmt_int fmt_float ts t)).
Proof.
  intros o fi ff ts S P. rewrite <- (rejects_iff_gen o fi ff ts S P). rewrite gen_parse_is_parse.
  split; intros [e E]; exists e; [injection E as E; exact E|rewrite E; reflexivity].
Qed.

Theorem src_not_generated_rejected : forall (o : oracles) (fmt_int : Z -> string) (fmt_float : float -> string) (ts : list token),
  sound_scope gen_grammar o fmt_int fmt_float ts = true ->
  ~ (exists t, ref_parses gen_grammar o fmt_int fmt_float ts t) -> exists e, gen_parse parser_program gen_grammar o ts = Some (RErr e).
Proof.
  intros o fi ff ts S N. destruct (not_ref_rejected_gen o fi ff ts S N) as [e E]. exists e. to_model. rewrite E. reflexivity.
Qed.

Theorem src_generated_accepted : forall (o : oracles) (fmt_int : Z -> string) (fmt_float : float -> string) (ts : list token) (t : expr),
  plain gen_grammar o fmt_int fmt_float ts = true -> ref_parses gen_grammar o fmt_int fmt_float ts t ->
  exists t', gen_parse parser_program gen_grammar o ts = Some (ROk t') /\ erase_loc t' = erase_loc t.
Proof.
  intros o fi ff ts t P R. destruct (ref_accepted_gen o fi ff ts t P R) as (t' & E & Q). exists t'. to_model. rewrite E. split; [reflexivity|exact Q].
Qed.

(* the soundness statement without the `clean` carve-out, over the regenerated parser: false (three findings) *)
Definition src_sound_full_statement : Prop :=
  forall ts t, good o_any dec ff0 (brace_locs ts) ts = true -> gen_parse parser_program gen_grammar o_any ts = Some (ROk t) ->
               ref_parses gen_grammar o_any dec ff0 ts t.

Theorem src_sound_full_statement_refuted : ~ src_sound_full_statement.
Proof.
  intros H. apply full_statement_refuted. intros ts t G E. apply (H ts t G). rewrite gen_parse_is_parse, E. reflexivity.
Qed.

(* ------------------------------------------------------------------ text -> regenerated lexer -> regenerated parser: soundness on texts *)
(* whatever text the regenerated front end accepts: the regenerated lexer produced tokens ts, and (inside sound_scope) the
   normalised ts is the printing of the returned tree: every node of the tree is located at the position the regenerated
   lexer gave to its anchor token *)
Theorem src_text_parse_sound : forall (ul ud us : Z -> bool) (o : oracles) (fmt_int : Z -> string) (fmt_float : float -> string)
    (txt : list Z) (t : expr),
  source_parse_text ul ud us gen_grammar o txt = Some (ROk t) ->
  exists ts, gen_lex ul ud us lexer_funs txt = GenOk ts /\
    (sound_scope gen_grammar o fmt_int fmt_float ts = true ->
     exists c, printable gen_grammar fmt_int fmt_float o c t /\
               normalize gen_grammar o fmt_int fmt_float ts = print_any gen_grammar fmt_int fmt_float c t).
Proof.
  intros ul ud us o fi ff txt t. unfold source_parse_text.
  destruct (gen_lex ul ud us lexer_funs txt) as [ts|e| |w]; intros E; try discriminate E.
  exists ts. split; [reflexivity|]. intros S. exact (src_parse_sound o fi ff ts t S E).
Qed.

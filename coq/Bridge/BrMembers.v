(* Bridge/BrMembers.v — checker/types.go's fieldType and methodType, REGENERATED statement by statement into
   gen/GenMembers.v by /verif/translator/gen_members.go on every run and run by Ty/MemberRules.v over
   TableRules' interpreter, ARE the hand models field_type / method_type of Ty/TypesTable.v:

     field_type_bridge      for every declaration set, type description of the fragment and name
     method_type_of_bridge  the same for methodType over ANY method oracle (so that the statement
                            `if t.Kind() == reflect.Interface` is reached)
     method_type_bridge     its instance at the hand model's method tables = the hand model method_type

   One lemma per Go function body (`field_type_bridge_body`, `method_type_bridge_body`: the body given the answers of
   the recursive calls), the loops over NumField by `scope_foridx_lk` (induction on the field list, early
   return), then induction on the model's fuel = the embedding depth.  Outside the fragment both
   statements are false (`..._refuted`, vm_compute witnesses).  Bridge/BrMembersBase.v has the tactics,
   the loop lemma and dereference. *)
From Coq Require Import Bool List String Arith Lia.
Require Import X.Ty.Types X.Ty.TypesTable.
Require Import X.Base.Num X.Base.Value X.Syn.Ast X.Walk.Walk X.Ops.Overload.
Require Import X.Ty.TableRules X.Ty.TableRulesProofs X.Ty.MemberRules X.gen.GenMembers X.Bridge.BrMembersBase.
Import ListNotations.
Local Open Scope string_scope.

Local Arguments mrun : simpl never.
Local Arguments exec : simpl never.
Local Arguments exec_list : simpl never.
Local Arguments fields_of : simpl never.
Local Arguments nth_error : simpl never.
Local Arguments type_meth : simpl never.

Ltac kind_now :=
  match goal with |- context [type_meth ?W0 ?t0 "Kind" []] => rewrite (type_meth_kind W0 t0 eq_refl) end.
Ltac elem_now :=
  match goal with |- context [type_meth ?W0 ?t0 "Elem" []] => rewrite (type_meth_elem W0 t0 eq_refl) end.

Ltac done_ex := first [ exists []; reflexivity | eexists; reflexivity ].

Section Members.
Variable mb : ty -> string -> option ty.
Variable W : world.
Local Notation te := (w_te W).
Local Notation C := (mrun mb member_consts W member_funcs).

Definition lk_vals (r : lk ty) : res (list dval) :=
  match r with
  | LFound t => Got [DType t; DBool true]
  | LMissing => Got [DNil; DBool false]
  | LFuel => NoFuel
  end.

Definition field_type_step (rec : ty -> lk ty) (t : ty) (name : string) : lk ty :=
  match under (dereference t) with
  | TIface => LFound TIface
  | TStruct sn =>
      match find (is_named name) (fields_of te (TStruct sn)) with
      | Some f => LFound (fd_ty f)
      | None => first_emb rec (fields_of te (TStruct sn))
      end
  | TMap _ e => LFound e
  | _ => LMissing
  end.

Definition ft_frame (d : dval) (name : string) : frame := [d; DStr name; DUnit; DUnit; DUnit; DUnit; DUnit; DUnit].

Lemma field_type_bridge_body : forall m t name rec,
  plain t = true -> ptr_depth t < m ->
  (forall sn f, dereference t = TStruct sn -> In f (fields_of te (TStruct sn)) -> fd_anon f = true ->
     lk_fuel (rec (fd_ty f)) = false ->
     C m "fieldType" [DType (fd_ty f); DStr name] = lk_vals (rec (fd_ty f))) ->
  lk_fuel (field_type_step rec t name) = false ->
  C (S m) "fieldType" [DType t; DStr name] = lk_vals (field_type_step rec t name).
Proof.
  intros m t name rec Hp Hm Hrec Hnf.
  enter. steps. rewrite (checker_dereference_run mb W t m Hp Hm). cbn. unfold deref_val.
  pose proof (plain_deref t Hp) as Hpd. unfold field_type_step in *.
  destruct (dereference t) as [| | | | | | |sn|e| |nm u|] eqn:Ed; cbn [is_nil_ty under] in *.
  all: try (exfalso; exact (dereference_not_ptr _ _ Ed)).
  all: try (steps; try (kind_now; cbn; steps);
            try (rewrite iface_const_run; cbn; steps);
            try (elem_now; cbn; steps); reflexivity).
  - (* a struct *)
    specialize (Hrec sn). steps. kind_now. cbn. steps. rewrite exec_list_cons.
    set (fs := fields_of te (TStruct sn)) in *.
    set (s0 := [DType (TStruct sn); DStr name; DUnit; DUnit; DUnit; DUnit; DUnit; DUnit]).
    destruct (scope_foridx_lk W (C m) fielddef s0
                (fun f => if is_named name f then LFound [DType (fd_ty f); DBool true] else LMissing)
                [2] 2 (GMeth (GVar 0) "NumField" [])
                [SScope [3]
                   [SAssign [Some 3] (GMeth (GVar 0) "Field" [GVar 2]);
                    SIf (GEq (GField (GVar 3) "Name") (GVar 1)) [SReturn [GField (GVar 3) "Type"; GBool true]] []]]
                fs) as [s1 E1].
    + cbn. rewrite type_meth_numfield. reflexivity.
    + reflexivity.
    + reflexivity.
    + intros j x Hnth _. unfold s0. cbn [upd]. steps. rewrite type_meth_field. fold fs. rewrite Hnth. cbn. steps.
      unfold is_named. destruct (String.eqb (fd_name x) name); cbn; steps; done_ex.
    + rewrite first_lk_find. destruct (find (is_named name) fs); reflexivity.
    + rewrite E1. rewrite first_lk_find. clear E1.
      destruct (find (is_named name) fs) as [f0|] eqn:Efind; cbn [lk_out]; [reflexivity|].
      rewrite exec_list_cons.
      destruct (scope_foridx_lk W (C m) fielddef s0
                  (fun f => if fd_anon f then lk_map (fun a => [DType a; DBool true]) (rec (fd_ty f)) else LMissing)
                  [4] 4 (GMeth (GVar 0) "NumField" [])
                  [SScope [5]
                     [SAssign [Some 5] (GMeth (GVar 0) "Field" [GVar 4]);
                      SIf (GField (GVar 5) "Anonymous")
                        [SScope [6; 7]
                           [SAssign [Some 6; Some 7] (GCall "fieldType" [GField (GVar 5) "Type"; GVar 1]);
                            SIf (GVar 7) [SReturn [GVar 6; GBool true]] []]]
                        []]]
                  fs) as [s2 E2].
      * cbn. rewrite type_meth_numfield. reflexivity.
      * reflexivity.
      * reflexivity.
      * intros j x Hnth Hx. unfold s0. cbn [upd]. steps. rewrite type_meth_field. fold fs. rewrite Hnth. cbn. steps.
        destruct (fd_anon x) eqn:Ea; cbn; steps; [|done_ex].
        rewrite lk_fuel_map in Hx.
        rewrite (Hrec x eq_refl (nth_error_In _ _ Hnth) Ea Hx).
        destruct (rec (fd_ty x)) as [a| |]; [| |discriminate Hx]; cbn; steps; done_ex.
      * rewrite first_lk_emb, lk_fuel_map. exact Hnf.
      * rewrite E2, first_lk_emb. clear E2.
        destruct (first_emb rec fs) as [a| |]; [| |discriminate Hnf]; cbn; steps; reflexivity.
  - (* a declared type that is neither pointer nor struct *)
    cbn [plain] in Hpd. apply andb_prop in Hpd. destruct Hpd as [Hk1 Hk2].
    apply negb_true_iff in Hk1, Hk2. unfold is_kind_of in Hk1, Hk2.
    pose proof (kind_under u) as Hku.
    steps. kind_now. cbn [kind_of_ty].
    destruct (under u) as [| | | | | | |sn|e| |nm' u'|] eqn:Eu; cbn [kind_of_ty] in Hku; rewrite <- Hku in *.
    all: try discriminate Hk1; try discriminate Hk2.
    all: try (exfalso; exact (under_not_named _ _ _ Eu)).
    all: cbn; steps; try (rewrite iface_const_run; cbn; steps);
         try (elem_now; unfold ty_elem; cbn [under]; rewrite Eu; cbn; steps); reflexivity.
Qed.

Lemma field_type_unfold : forall n t name, lk_fuel (field_type te n t name) = false ->
  field_type te n t name
  = field_type_step (match n with O => fun _ => LFuel | S n' => fun ft => field_type te n' ft name end) t name.
Proof.
  intros n t name H. destruct n; cbn [field_type] in *; unfold field_type_step;
    destruct (under (dereference t)); try reflexivity; destruct (find _ _); try reflexivity; discriminate H.
Qed.

Lemma field_type_run : forall n t name P m,
  lk_fuel (field_type te n t name) = false -> plain t = true -> te_plain te = true ->
  ptr_depth t <= P -> te_ptr_depth te <= P -> n + P + 1 < m ->
  C m "fieldType" [DType t; DStr name] = lk_vals (field_type te n t name).
Proof.
  induction n as [|n IH]; intros t name P m Hnf Hp Hte HP HteP Hm; (destruct m as [|m]; [lia|]);
    pose proof (field_type_unfold _ t name Hnf) as Eq; rewrite Eq in Hnf |- *;
    (apply field_type_bridge_body; [exact Hp|lia| |exact Hnf]).
  - intros sn f _ _ _ Hf. discriminate Hf.
  - intros sn f _ Hin Ha Hf. apply (IH (fd_ty f) name P m Hf).
    + exact (te_plain_field te sn f Hte Hin Ha).
    + exact Hte.
    + pose proof (te_ptr_depth_field te sn f Hin). lia.
    + exact HteP.
    + lia.
Qed.

(* ---------------------------------------------------------------- methodType *)
Definition mlk_vals (r : lk (ty * bool)) : res (list dval) :=
  match r with
  | LFound (t, b) => Got [DType t; DBool b; DBool true]
  | LMissing => Got [DNil; DBool false; DBool false]
  | LFuel => NoFuel
  end.

Definition method_type_step (rec : ty -> lk (ty * bool)) (t : ty) (name : string) : lk (ty * bool) :=
  match t with
  | TNilT => LMissing
  | _ =>
      match mb t name with
      | Some mt => LFound (mt, negb (is_kind_of t RKInterface))
      | None =>
          match under (elem1 t) with
          | TIface => LFound (TIface, false)
          | TStruct sn =>
              match find (fun f => negb (fd_anon f) && is_named name f) (fields_of te (TStruct sn)) with
              | Some f => LFound (fd_ty f, false)
              | None => first_emb rec (fields_of te (TStruct sn))
              end
          | TMap _ e => LFound (e, false)
          | _ => LMissing
          end
      end
  end.


(* the statements of methodType after `d` has been computed: the switch on d.Kind() *)
Definition method_switch : list stmt :=
  match f_body fn_method_type with
  | [SIf _ [SScope _ [_; _; _; sw]] _; _] => [sw]
  | _ => []
  end.

Definition mt_frame (t0 d : dval) (name : string) : frame :=
  [t0; DStr name; DUnit; DUnit; d; DUnit; DUnit; DUnit; DUnit; DUnit; DUnit; DUnit].

Definition mlk_out (r : lk (ty * bool)) (s s' : frame) : outcome :=
  match r with
  | LFound (t, b) => OReturn [DType t; DBool b; DBool true] s'
  | LMissing => ONext s
  | LFuel => OFuel
  end.

Definition member_step (rec : ty -> lk (ty * bool)) (d : ty) (name : string) : lk (ty * bool) :=
  match under d with
  | TIface => LFound (TIface, false)
  | TStruct sn =>
      match find (fun f => negb (fd_anon f) && is_named name f) (fields_of te (TStruct sn)) with
      | Some f => LFound (fd_ty f, false)
      | None => first_emb rec (fields_of te (TStruct sn))
      end
  | TMap _ e => LFound (e, false)
  | _ => LMissing
  end.

Lemma method_type_bridge_switch : forall m t0 d name rec,
  is_nil_ty d = false -> plain d = true ->
  (forall sn f, d = TStruct sn -> In f (fields_of te (TStruct sn)) -> fd_anon f = true ->
     lk_fuel (rec (fd_ty f)) = false ->
     C m "methodType" [DType (fd_ty f); DStr name] = mlk_vals (rec (fd_ty f))) ->
  lk_fuel (member_step rec d name) = false ->
  exists s', exec_list W (C m) method_switch (mt_frame t0 (DType d) name)
             = mlk_out (member_step rec d name) (mt_frame t0 (DType d) name) s'.
Proof.
  intros m t0 d name rec Hnil Hp Hrec Hnf.
  unfold method_switch, mt_frame. cbn [f_body fn_method_type]. unfold member_step in *.
  steps. rewrite (type_meth_kind W d Hnil). cbn.
  destruct d as [| | | | | | |sn|e| |nm u|]; cbn [kind_of_ty under] in *.
  all: try discriminate Hnil.
  all: try (cbn; steps; try (rewrite iface_const_run; cbn; steps);
            try (elem_now; cbn; steps); done_ex).
  - (* a struct *)
    specialize (Hrec sn). cbn. steps. rewrite exec_list_cons.
    set (fs := fields_of te (TStruct sn)) in *.
    set (s0 := [t0; DStr name; DUnit; DUnit; DType (TStruct sn); DUnit; DUnit; DUnit; DUnit; DUnit; DUnit; DUnit]).
    destruct (scope_foridx_lk W (C m) fielddef s0
                (fun f => if negb (fd_anon f) && is_named name f
                          then LFound [DType (fd_ty f); DBool false; DBool true] else LMissing)
                [5] 5 (GMeth (GVar 4) "NumField" [])
                [SScope [6]
                   [SAssign [Some 6] (GMeth (GVar 4) "Field" [GVar 5]);
                    SIf (GAnd (GNot (GField (GVar 6) "Anonymous")) (GEq (GField (GVar 6) "Name") (GVar 1)))
                      [SReturn [GField (GVar 6) "Type"; GBool false; GBool true]] []]]
                fs) as [s1 E1].
    + cbn. rewrite type_meth_numfield. reflexivity.
    + reflexivity.
    + reflexivity.
    + intros j x Hnth _. unfold s0. cbn [upd]. steps. rewrite type_meth_field. fold fs. rewrite Hnth. cbn. steps.
      unfold is_named. destruct (fd_anon x); cbn; steps; [done_ex|].
      destruct (String.eqb (fd_name x) name); cbn; steps; done_ex.
    + rewrite first_lk_find. destruct (find _ fs); reflexivity.
    + rewrite E1. rewrite first_lk_find. clear E1.
      destruct (find (fun f => negb (fd_anon f) && is_named name f) fs) as [f0|] eqn:Efind; cbn [lk_out mlk_out];
        [eexists; reflexivity|].
      rewrite exec_list_cons.
      destruct (scope_foridx_lk W (C m) fielddef s0
                  (fun f => if fd_anon f
                            then lk_map (fun a : ty * bool => [DType (fst a); DBool (snd a); DBool true]) (rec (fd_ty f))
                            else LMissing)
                  [7] 7 (GMeth (GVar 4) "NumField" [])
                  [SScope [8]
                     [SAssign [Some 8] (GMeth (GVar 4) "Field" [GVar 7]);
                      SIf (GField (GVar 8) "Anonymous")
                        [SScope [9; 10; 11]
                           [SAssign [Some 9; Some 10; Some 11] (GCall "methodType" [GField (GVar 8) "Type"; GVar 1]);
                            SIf (GVar 11) [SReturn [GVar 9; GVar 10; GBool true]] []]]
                        []]]
                  fs) as [s2 E2].
      * cbn. rewrite type_meth_numfield. reflexivity.
      * reflexivity.
      * reflexivity.
      * intros j x Hnth Hx. unfold s0. cbn [upd]. steps. rewrite type_meth_field. fold fs. rewrite Hnth. cbn. steps.
        destruct (fd_anon x) eqn:Ea; cbn; steps; [|done_ex].
        rewrite lk_fuel_map in Hx.
        rewrite (Hrec x eq_refl (nth_error_In _ _ Hnth) Ea Hx).
        destruct (rec (fd_ty x)) as [[a b]| |]; [| |discriminate Hx]; cbn; steps; done_ex.
      * rewrite first_lk_emb, lk_fuel_map. exact Hnf.
      * rewrite E2, first_lk_emb. clear E2.
        destruct (first_emb rec fs) as [[a b]| |]; [| |discriminate Hnf]; cbn; steps; done_ex.
  - (* a declared type that is neither pointer nor struct *)
    cbn [plain] in Hp. apply andb_prop in Hp. destruct Hp as [Hk1 Hk2].
    apply negb_true_iff in Hk1, Hk2. unfold is_kind_of in Hk1, Hk2.
    pose proof (kind_under u) as Hku.
    destruct (under u) as [| | | | | | |sn|e| |nm' u'|] eqn:Eu; cbn [kind_of_ty] in Hku; rewrite <- Hku in *.
    all: try discriminate Hk1; try discriminate Hk2.
    all: try (exfalso; exact (under_not_named _ _ _ Eu)).
    all: cbn; steps; try (rewrite iface_const_run; cbn; steps);
         try (elem_now; unfold ty_elem; cbn [under]; rewrite Eu; cbn; steps); done_ex.
Qed.

Lemma method_type_bridge_body : forall m t name rec,
  member_ty_ok t = true ->
  (forall sn f, elem1 t = TStruct sn -> In f (fields_of te (TStruct sn)) -> fd_anon f = true ->
     lk_fuel (rec (fd_ty f)) = false ->
     C m "methodType" [DType (fd_ty f); DStr name] = mlk_vals (rec (fd_ty f))) ->
  lk_fuel (method_type_step rec t name) = false ->
  C (S m) "methodType" [DType t; DStr name] = mlk_vals (method_type_step rec t name).
Proof.
  intros m t name rec Hok Hrec Hnf. unfold member_ty_ok in Hok. apply andb_prop in Hok. destruct Hok as [Hp Hpo].
  enter. steps.
  destruct (is_nil_ty t) eqn:Enil.
  { apply is_nil_ty_eq in Enil. subst t. cbn. steps. reflexivity. }
  cbn. steps. rewrite method_by_name_run, Enil.
  assert (Est : method_type_step rec t name =
                match mb t name with
                | Some mt => LFound (mt, negb (is_kind_of t RKInterface))
                | None =>
                    match under (elem1 t) with
                    | TIface => LFound (TIface, false)
                    | TStruct sn =>
                        match find (fun f => negb (fd_anon f) && is_named name f) (fields_of te (TStruct sn)) with
                        | Some f => LFound (fd_ty f, false)
                        | None => first_emb rec (fields_of te (TStruct sn))
                        end
                    | TMap _ e => LFound (e, false)
                    | _ => LMissing
                    end
                end).
  { unfold method_type_step. destruct t; try reflexivity. discriminate Enil. }
  rewrite Est in *. clear Est.
  destruct (mb t name) as [mt|] eqn:Emb.
  { cbn. steps. rewrite (type_meth_kind W t Enil). cbn. unfold is_kind_of.
    destruct (rkind_eqb (kind_of_ty t) RKInterface); cbn; steps; reflexivity. }
  cbn. steps. rewrite (type_meth_kind W t Enil). cbn.
  destruct (rkind_eqb (kind_of_ty t) RKPtr) eqn:Ekp.
  - (* *T: one pointer is looked through *)
    destruct (plain_kind_ptr t Hp Ekp) as [e ->]. cbn [elem1 plain ptr_ok] in *. apply negb_true_iff in Hpo.
    rewrite (type_meth_elem W (TPtr e) eq_refl). cbn. rewrite exec_list_nil.
    match goal with |- context [exec_list W (C m) ?l (_ :: _)] => change l with method_switch end.
    destruct (method_type_bridge_switch m (DType (TPtr e)) e name rec Hpo Hp Hrec Hnf) as [s' Es].
    unfold mt_frame in Es. rewrite Es. clear Es. fold (member_step rec e name) in Hnf |- *.
    destruct (member_step rec e name) as [[a b]| |]; [| |discriminate Hnf]; cbn; steps; reflexivity.
  - (* no pointer *)
    assert (Ee : elem1 t = t) by (destruct t; try reflexivity; discriminate Ekp).
    rewrite Ee in *.
    match goal with |- context [exec_list W (C m) ?l (_ :: _)] => change l with method_switch end.
    destruct (method_type_bridge_switch m (DType t) t name rec Enil Hp Hrec Hnf) as [s' Es].
    unfold mt_frame in Es. rewrite Es. clear Es. fold (member_step rec t name) in Hnf |- *.
    destruct (member_step rec t name) as [[a b]| |]; [| |discriminate Hnf]; cbn; steps; reflexivity.
Qed.

Lemma method_type_unfold : forall n t name, lk_fuel (method_type_of te mb n t name) = false ->
  method_type_of te mb n t name
  = method_type_step (match n with O => fun _ => LFuel | S n' => fun ft => method_type_of te mb n' ft name end) t name.
Proof.
  intros n t name H. destruct n; cbn [method_type_of] in *; unfold method_type_step;
    destruct t; try reflexivity; destruct (mb _ name); try reflexivity;
    destruct (under (elem1 _)); try reflexivity; destruct (find _ _); try reflexivity; discriminate H.
Qed.

Lemma member_te_field : forall sn f, member_te_ok te = true -> In f (fields_of te (TStruct sn)) ->
  fd_anon f = true -> member_ty_ok (fd_ty f) = true.
Proof.
  intros sn f Hte Hin Ha. unfold fields_of in Hin.
  destruct (lookup_struct te sn) as [sd|] eqn:E; [|destruct Hin].
  destruct (lookup_struct_in _ _ _ E) as [m Hm].
  unfold member_te_ok in Hte. rewrite forallb_forall in Hte. specialize (Hte _ Hm). cbn [snd] in Hte.
  rewrite forallb_forall in Hte. specialize (Hte _ Hin). rewrite Ha in Hte. exact Hte.
Qed.

Lemma method_type_run : forall n t name m,
  lk_fuel (method_type_of te mb n t name) = false -> member_ty_ok t = true -> member_te_ok te = true ->
  n < m ->
  C m "methodType" [DType t; DStr name] = mlk_vals (method_type_of te mb n t name).
Proof.
  induction n as [|n IH]; intros t name m Hnf Hok Hte Hm; (destruct m as [|m]; [lia|]);
    pose proof (method_type_unfold _ t name Hnf) as Eq; rewrite Eq in Hnf |- *;
    (apply method_type_bridge_body; [exact Hok| |exact Hnf]).
  - intros sn f _ _ _ Hf. discriminate Hf.
  - intros sn f _ Hin Ha Hf. apply (IH (fd_ty f) name m Hf).
    + exact (member_te_field sn f Hte Hin Ha).
    + exact Hte.
    + lia.
Qed.

End Members.

(* the hand model's method_type is method_type_of over the hand model's own method oracle *)
Lemma first_emb_ext : forall (A : Type) (f g : ty -> lk A) fs, (forall t, f t = g t) -> first_emb f fs = first_emb g fs.
Proof.
  intros A f g fs H. induction fs as [|x r IH]; [reflexivity|]. cbn [first_emb].
  destruct (fd_anon x); [|exact IH]. rewrite H. destruct (g (fd_ty x)); [reflexivity|exact IH|reflexivity].
Qed.

Lemma method_type_of_model : forall te n t name,
  method_type_of te (method_by_name te) n t name = method_type te n t name.
Proof.
  intros te. induction n as [|n IH]; intros t name.
  - destruct t; cbn [method_type_of method_type]; try reflexivity;
      (destruct (method_by_name te _ name) eqn:E; [try discriminate E; reflexivity|reflexivity]).
  - destruct t; cbn [method_type_of method_type]; try reflexivity;
      (destruct (method_by_name te _ name) eqn:E; [try discriminate E; reflexivity|]);
      destruct (under (elem1 _)); try reflexivity; destruct (find _ _); try reflexivity;
      apply first_emb_ext; intros ft; apply IH.
Qed.

Lemma found_of_vals : forall r, found_of (lk_vals r) = lk_res r.
Proof. intros r. destruct r; reflexivity. Qed.

Lemma mfound_of_vals : forall r, mfound_of (mlk_vals r) = lk_res r.
Proof. intros r. destruct r as [[a b]| |]; reflexivity. Qed.

(* ------------------------------------------------------------------ the two lookups, as theorems *)
(* fieldType: whenever the model's search ends within its fuel n, the regenerated statements end with
   the same answer for every fuel from field_fuel on *)
Theorem field_type_bridge : forall te n t name fuel,
  plain t = true -> te_plain te = true -> lk_fuel (field_type te n t name) = false ->
  field_fuel te n t <= fuel ->
  gen_field_type member_funcs member_consts te fuel t name = lk_res (field_type te n t name).
Proof.
  intros te n t name fuel Hp Hte Hnf Hf. unfold gen_field_type, field_fuel in *.
  rewrite (field_type_run (method_by_name te) (m_world te) n t name (Nat.max (ptr_depth t) (te_ptr_depth te)) fuel
             Hnf Hp Hte (Nat.le_max_l _ _) (Nat.le_max_r _ _)); [apply found_of_vals|lia].
Qed.

(* methodType over ANY method oracle (an interface type may have methods) *)
Theorem method_type_of_bridge : forall te mb n t name fuel,
  member_ty_ok t = true -> member_te_ok te = true -> lk_fuel (method_type_of te mb n t name) = false ->
  method_fuel n <= fuel ->
  gen_method_type_of mb member_funcs member_consts te fuel t name = lk_res (method_type_of te mb n t name).
Proof.
  intros te mb n t name fuel Hok Hte Hnf Hf. unfold gen_method_type_of, method_fuel in *.
  rewrite (method_type_run mb (m_world te) n t name fuel Hnf Hok Hte); [apply mfound_of_vals|lia].
Qed.

(* methodType over the hand model's method tables: the hand model method_type *)
Theorem method_type_bridge : forall te n t name fuel,
  member_ty_ok t = true -> member_te_ok te = true -> lk_fuel (method_type te n t name) = false ->
  method_fuel n <= fuel ->
  gen_method_type member_funcs member_consts te fuel t name = lk_res (method_type te n t name).
Proof.
  intros te n t name fuel Hok Hte Hnf Hf. unfold gen_method_type.
  rewrite <- (method_type_of_model te n t name) in *.
  exact (method_type_of_bridge te (method_by_name te) n t name fuel Hok Hte Hnf Hf).
Qed.

(* an acyclic embedding never runs out of the checker's fuel: the hypothesis `lk_fuel .. = false` of the
   two theorems is decidable, and implied by the decidable fuel_ok of Ty/TypesTable.v *)
Lemma first_emb_fuel : forall (A : Type) (rec : ty -> lk A) fs,
  (forall f, In f fs -> fd_anon f = true -> lk_fuel (rec (fd_ty f)) = false) -> lk_fuel (first_emb rec fs) = false.
Proof.
  intros A rec fs. induction fs as [|f r IH]; intros H; [reflexivity|]. cbn [first_emb].
  destruct (fd_anon f) eqn:Ea.
  - pose proof (H f (or_introl eq_refl) Ea) as Hf. destruct (rec (fd_ty f)); [reflexivity| |discriminate Hf].
    apply IH. intros g Hg. apply H. right. exact Hg.
  - apply IH. intros g Hg. apply H. right. exact Hg.
Qed.

Lemma plain_named_not_struct : forall nm u sn, plain (TNamed nm u) = true -> under u <> TStruct sn.
Proof.
  intros nm u sn Hp Eu. cbn [plain] in Hp. apply andb_prop in Hp. destruct Hp as [_ Hk].
  apply negb_true_iff in Hk. unfold is_kind_of in Hk. rewrite <- (kind_under u), Eu in Hk. discriminate Hk.
Qed.

Lemma field_type_in_fuel : forall te n t name, te_plain te = true -> plain t = true ->
  fuel_ok te n t = true -> lk_fuel (field_type te n t name) = false.
Proof.
  intros te. induction n as [|n IH]; intros t name Hte Hp Hok; cbn [field_type fuel_ok] in *;
    pose proof (plain_deref t Hp) as Hpd; destruct (dereference t) as [| | | | | | |sn|e| |nm u|] eqn:Ed;
    cbn [under]; try reflexivity; try discriminate Hok.
  - destruct (under u) eqn:Eu; try reflexivity. exfalso. exact (plain_named_not_struct _ _ _ Hpd Eu).
  - destruct (find _ _); [reflexivity|]. apply first_emb_fuel. intros f Hin Ha.
    rewrite forallb_forall in Hok. specialize (Hok f Hin). rewrite Ha in Hok.
    apply IH; [exact Hte|exact (te_plain_field te sn f Hte Hin Ha)|exact Hok].
  - destruct (under u) eqn:Eu; try reflexivity. exfalso. exact (plain_named_not_struct _ _ _ Hpd Eu).
Qed.

Lemma member_te_plain : forall te, member_te_ok te = true -> te_plain te = true.
Proof.
  intros te H. unfold member_te_ok, te_plain in *. rewrite forallb_forall in *. intros en Hen.
  specialize (H en Hen). rewrite forallb_forall in *. intros f Hf. specialize (H f Hf).
  destruct (fd_anon f); [|reflexivity]. cbn [negb orb] in *. unfold member_ty_ok in H. apply andb_prop in H. exact (proj1 H).
Qed.

Lemma method_type_in_fuel : forall te n t name, member_te_ok te = true -> member_ty_ok t = true ->
  fuel_ok te n t = true -> lk_fuel (method_type te n t name) = false.
Proof.
  intros te. induction n as [|n IH]; intros t name Hte Hok Hf; unfold member_ty_ok in Hok;
    apply andb_prop in Hok; destruct Hok as [Hp _]; cbn [method_type];
    (destruct t as [| | | | | | |sn|e| |nm u|]; try reflexivity);
    (destruct (method_by_name te _ name); [reflexivity|]); cbn [elem1 under]; try reflexivity.
  all: try (destruct (under u) eqn:Eu; try reflexivity; exfalso; exact (plain_named_not_struct _ _ _ Hp Eu)).
  all: try discriminate Hf.
  all: try (destruct e as [| | | | | | |sn|e'| |nm u|]; cbn [under]; try reflexivity;
            [cbn [fuel_ok dereference] in Hf; try discriminate Hf
            |change (plain (TNamed nm u) = true) in Hp; destruct (under u) eqn:Eu; try reflexivity; exfalso; exact (plain_named_not_struct _ _ _ Hp Eu)]).
  all: try (destruct (find _ _); [reflexivity|]; apply first_emb_fuel; intros f Hin Ha;
            cbn [fuel_ok dereference] in Hf; rewrite forallb_forall in Hf; specialize (Hf f Hin); rewrite Ha in Hf;
            apply IH; [exact Hte|exact (member_te_field (m_world te) _ f Hte Hin Ha)|exact Hf]).
Qed.

(* ------------------------------------------------------------------ outside the fragment *)
(* the statements without the fragment: false, the hand model is narrower than Go's reflect *)
Definition field_type_bridge_full_statement : Prop :=
  forall te n t name fuel, lk_fuel (field_type te n t name) = false -> field_fuel te n t <= fuel ->
  gen_field_type member_funcs member_consts te fuel t name = lk_res (field_type te n t name).

Definition method_type_bridge_full_statement : Prop :=
  forall te n t name fuel, lk_fuel (method_type te n t name) = false -> method_fuel n <= fuel ->
  gen_method_type member_funcs member_consts te fuel t name = lk_res (method_type te n t name).

Module MWit.
Definition tint : ty := TNum KInt.
Definition te : tenv :=
  [("Inner", mkStruct [mkField "X" tint false true; mkField "Y" TString false true] [] []);
   ("Mid", mkStruct [mkField "Inner" (TPtr (TStruct "Inner")) true true; mkField "M" (TMap TString TBool) false true]
                    [("Hello", TFunc [TStruct "Mid"] false [TString])]
                    [("Hello", TFunc [TPtr (TStruct "Mid")] false [TString])]);
   ("Outer", mkStruct [mkField "Mid" (TStruct "Mid") true true; mkField "Z" TBool false true;
                       mkField "low" TBool false false; mkField "Any" TIface false true]
                      [("Hello", TFunc [TStruct "Outer"] false [TString])]
                      [("Hello", TFunc [TPtr (TStruct "Outer")] false [TString]);
                       ("PM", TFunc [TPtr (TStruct "Outer")] false [])])].
Definition outer : ty := TStruct "Outer".
(* `type P *Inner`: reflect's Kind looks through the declared name, the model's dereference / elem1 do not *)
Definition named_ptr : ty := TNamed "P" (TPtr (TStruct "Inner")).
(* a description of no Go type: a pointer to nothing *)
Definition ptr_nil : ty := TPtr TNilT.
(* `type T struct{ *T; V int }` *)
Definition cyc : tenv := [("T", mkStruct [mkField "T" (TPtr (TStruct "T")) true true; mkField "V" tint false true] [] [])].
(* an oracle under which the declared interface type Stringer has the method String *)
Definition stringer : ty := TNamed "Stringer" TIface.
Definition iface_oracle (t : ty) (n : string) : option ty :=
  if ty_eqb t stringer && String.eqb n "String" then Some (TFunc [] false [TString]) else None.
End MWit.

Theorem field_type_bridge_refuted :
  field_type MWit.te (fuel0 MWit.te) MWit.named_ptr "X" = LMissing /\
  gen_field_type member_funcs member_consts MWit.te (field_fuel MWit.te (fuel0 MWit.te) MWit.named_ptr) MWit.named_ptr "X"
    = Got (Some MWit.tint) /\
  ~ field_type_bridge_full_statement.
Proof.
  repeat split; try (vm_compute; reflexivity).
  intros H. specialize (H MWit.te (fuel0 MWit.te) MWit.named_ptr "X" _ eq_refl (le_n _)).
  vm_compute in H. discriminate H.
Qed.

Theorem method_type_bridge_refuted :
  method_type MWit.te (fuel0 MWit.te) MWit.named_ptr "X" = LMissing /\
  gen_method_type member_funcs member_consts MWit.te (method_fuel (fuel0 MWit.te)) MWit.named_ptr "X"
    = Got (Some (MWit.tint, false)) /\
  method_type MWit.te (fuel0 MWit.te) MWit.ptr_nil "X" = LMissing /\
  gen_method_type member_funcs member_consts MWit.te (method_fuel (fuel0 MWit.te)) MWit.ptr_nil "X" = Panics /\
  ~ method_type_bridge_full_statement.
Proof.
  repeat split; try (vm_compute; reflexivity).
  intros H. specialize (H MWit.te (fuel0 MWit.te) MWit.named_ptr "X" _ eq_refl (le_n _)).
  vm_compute in H. discriminate H.
Qed.

(* non-vacuity: a declaration set with a struct embedded by value that embeds a pointer, an unexported
   field, an interface-typed and a map-typed field and methods on both receivers is inside the
   fragment, acyclic, and the lookups are non-trivial: X two embedding levels down through a pointer,
   a method of the pointer receiver, a field in method position, a promoted method of the embedded
   struct, a name that is absent *)
Example member_bridges_inhabited :
  member_te_ok MWit.te = true /\ te_plain MWit.te = true /\
  member_ty_ok (TPtr MWit.outer) = true /\ plain (TPtr (TPtr MWit.outer)) = true /\
  fuel_ok MWit.te (fuel0 MWit.te) MWit.outer = true /\
  field_type MWit.te (fuel0 MWit.te) (TPtr (TPtr MWit.outer)) "X" = LFound MWit.tint /\
  gen_field_type member_funcs member_consts MWit.te (field_fuel MWit.te (fuel0 MWit.te) (TPtr (TPtr MWit.outer)))
    (TPtr (TPtr MWit.outer)) "X" = Got (Some MWit.tint) /\
  field_type MWit.te (fuel0 MWit.te) MWit.outer "low" = LFound TBool /\
  field_type MWit.te (fuel0 MWit.te) MWit.outer "Q" = LMissing /\
  gen_field_type member_funcs member_consts MWit.te (field_fuel MWit.te (fuel0 MWit.te) MWit.outer) MWit.outer "Q" = Got None /\
  method_type MWit.te (fuel0 MWit.te) (TPtr MWit.outer) "PM" = LFound (TFunc [TPtr MWit.outer] false [], true) /\
  gen_method_type member_funcs member_consts MWit.te (method_fuel (fuel0 MWit.te)) (TPtr MWit.outer) "PM"
    = Got (Some (TFunc [TPtr MWit.outer] false [], true)) /\
  method_type MWit.te (fuel0 MWit.te) MWit.outer "PM" = LMissing /\
  method_type MWit.te (fuel0 MWit.te) (TPtr MWit.outer) "Z" = LFound (TBool, false) /\
  method_type MWit.te (fuel0 MWit.te) (TStruct "Mid") "X" = LFound (MWit.tint, false) /\
  gen_method_type member_funcs member_consts MWit.te (method_fuel (fuel0 MWit.te)) (TStruct "Mid") "X"
    = Got (Some (MWit.tint, false)) /\
  gen_method_type member_funcs member_consts MWit.te (method_fuel (fuel0 MWit.te)) (TPtr MWit.outer) "Any"
    = Got (Some (TIface, false)).
Proof. repeat split; vm_compute; reflexivity. Qed.

(* the one statement of methodType the hand model's own oracle never reaches: a method of an interface
   type has no receiver parameter, the flag is false *)
Example interface_method_flag :
  member_ty_ok MWit.stringer = true /\
  method_type_of MWit.te MWit.iface_oracle (fuel0 MWit.te) MWit.stringer "String" = LFound (TFunc [] false [TString], false) /\
  gen_method_type_of MWit.iface_oracle member_funcs member_consts MWit.te (method_fuel (fuel0 MWit.te)) MWit.stringer "String"
    = Got (Some (TFunc [] false [TString], false)).
Proof. repeat split; vm_compute; reflexivity. Qed.

(* an embedding cycle is outside both theorems: the model runs out of fuel, the regenerated function
   nests calls until its fuel ends (the real fieldType recurses until the Go runtime stops the process) *)
Example member_cycle_out_of_fuel :
  fuel_ok MWit.cyc (fuel0 MWit.cyc) (TStruct "T") = false /\
  field_type MWit.cyc (fuel0 MWit.cyc) (TStruct "T") "Q" = LFuel /\
  gen_field_type member_funcs member_consts MWit.cyc 40 (TStruct "T") "Q" = NoFuel /\
  gen_method_type member_funcs member_consts MWit.cyc 40 (TStruct "T") "Q" = NoFuel /\
  field_type MWit.cyc (fuel0 MWit.cyc) (TStruct "T") "V" = LFound MWit.tint /\
  gen_field_type member_funcs member_consts MWit.cyc 40 (TStruct "T") "V" = Got (Some MWit.tint).
Proof. repeat split; vm_compute; reflexivity. Qed.

(* Bridge/BrOpt.v — the model optimizer Opt/Optimizer.v IS the interpretation of the rewrite rules
   regenerated from /repo/optimizer/*.go (gen/GenOpt.v, DSL and interpreter in Opt/OptRules.v).

   For each pass P and every node n: running the regenerated statements of P's `Exit` on n (the step
   ast.Walk performs on one node) gives what the model's per-node visitor gives: the same node, the
   same `applied` flag, the same error location.  One lemma per pass, split per rule for fold.go.

   Side condition: `node_canonical n`: the operator of n and of its direct sub-nodes is not the junk
   representation `BUnknown "+"` of a known spelling (Opt/OptRules.v; every operator the parser
   stores is canonical, `canonical_of_parser`).
   const_range.go fills the materialised slice with `min.Value + i` in Go int arithmetic (`wrange`),
   the model uses `range_list`: since the repair 80e2856 (a descending range is recognised on the
   values, an ascending one is materialised only when its wrapped size is in 1..10^6) no element can
   pass the largest int and the two agree for every node (`const_range_bridge`). *)
From Coq Require Import ZArith Bool List String Floats Lia.
Require Import X.Base.Num X.Base.NumProofs X.Base.Value X.Syn.Ast X.Sem.Prim X.Opt.Optimizer X.Opt.OptProofs
               X.Opt.OptRules X.Opt.OptRulesProofs X.gen.GenOpt.
Require X.Parse.Parser.
Import ListNotations.
Local Open Scope string_scope.
Open Scope Z_scope.

(* nothing in the current source is outside the shapes the translator knows *)
Definition genopt_all_recognised : bool :=
  forallb pass_ok passes && forallb ostep_ok optimize_steps
  && match genopt_unrecognised with [] => true | _ => false end.

Lemma genopt_recognised : genopt_all_recognised = true.
Proof. vm_compute. reflexivity. Qed.

(* evaluation: everything except arithmetic on symbolic literals and functions of symbolic lists *)
Ltac ev := lazy -[forallb all_ints all_strs iv wrap Z.ltb Z.leb Z.quot Z.rem Z.add Z.sub Z.mul Z.opp f_of_Z
                  int_set str_set wrange range_list Z.to_nat collect_args const_args const_call is_const_fn].
Tactic Notation "ev" "in" hyp(H) :=
  lazy -[forallb all_ints all_strs iv wrap Z.ltb Z.leb Z.quot Z.rem Z.add Z.sub Z.mul Z.opp f_of_Z
         int_set str_set wrange range_list Z.to_nat collect_args const_args const_call is_const_fn] in H.
(* the same, keeping `x.Type().Kind()` of a symbolic node folded *)
Ltac evk := lazy -[kind_of forallb all_ints all_strs iv wrap Z.ltb Z.leb Z.quot Z.rem Z.add Z.sub Z.mul Z.opp f_of_Z
                   int_set str_set wrange range_list Z.to_nat collect_args const_args const_call is_const_fn].

Ltac start := unfold interp_rules, interp_pass; rewrite interp_exit_k_eq.

Ltac all_kinds k := destruct k as [| |[]| | | | | | | |].

(* ================================================================== fold.go *)
Section Fold.
Variable pow : float -> float -> float.
Variable is_cfn : string -> bool.
Variable call : string -> list value -> outcome value.
Notation I := (interp_pass pow is_cfn call fold_pass).
Notation M := (fun e => rw_of (fold_v pow e)).

(* the spellings fold.go switches on, against an unknown operator *)
Ltac unk_bin s Hc :=
  let U1 := fresh "U" in let U2 := fresh "U" in let U3 := fresh "U" in
  let U4 := fresh "U" in let U5 := fresh "U" in let U6 := fresh "U" in
  pose proof (unknown_binop_neq s "+" Hc eq_refl) as U1; pose proof (unknown_binop_neq s "-" Hc eq_refl) as U2;
  pose proof (unknown_binop_neq s "*" Hc eq_refl) as U3; pose proof (unknown_binop_neq s "/" Hc eq_refl) as U4;
  pose proof (unknown_binop_neq s "%" Hc eq_refl) as U5; pose proof (unknown_binop_neq s "**" Hc eq_refl) as U6;
  ev in U1; ev in U2; ev in U3; ev in U4; ev in U5; ev in U6;
  start; ev; rewrite ?U1, ?U2, ?U3, ?U4, ?U5, ?U6.

(* ---- case *UnaryNode: "-" and "+" on an integer literal *)
Lemma fold_rule_unary a op x : canon_unop op = true -> I (EUnary a op x) = M (EUnary a op x).
Proof.
  intros Hc. destruct op.
  - destruct x; reflexivity.
  - destruct x; reflexivity.
  - destruct x; reflexivity.
  - destruct x; reflexivity.
  - pose proof (unknown_unop_neq s "-" Hc eq_refl) as U1. pose proof (unknown_unop_neq s "+" Hc eq_refl) as U2.
    ev in U1. ev in U2. destruct x; start; ev; rewrite ?U1, ?U2; reflexivity.
Qed.

(* ---- case *BinaryNode, both operands integer literals: the single rules, as the model states them *)
Lemma fold_rule_add a a1 x a2 y :
  I (EBinary a BAdd (EInt a1 x) (EInt a2 y)) =
  RwOk (patch_ty (EBinary a BAdd (EInt a1 x) (EInt a2 y)) (EInt ann0 (wrap KInt (iv x + iv y))) (akind a1)) acc_applied.
Proof. reflexivity. Qed.

Lemma fold_rule_sub a a1 x a2 y :
  I (EBinary a BSub (EInt a1 x) (EInt a2 y)) =
  RwOk (patch_ty (EBinary a BSub (EInt a1 x) (EInt a2 y)) (EInt ann0 (wrap KInt (iv x - iv y))) (akind a1)) acc_applied.
Proof. reflexivity. Qed.

Lemma fold_rule_mul a a1 x a2 y :
  I (EBinary a BMul (EInt a1 x) (EInt a2 y)) =
  RwOk (patch_ty (EBinary a BMul (EInt a1 x) (EInt a2 y)) (EInt ann0 (wrap KInt (iv x * iv y))) (akind a1)) acc_applied.
Proof. reflexivity. Qed.

(* "/": isFloat(a.Type()) || isFloat(b.Type()), then b.Value == 0 *)
Lemma fold_rule_div a a1 x a2 y :
  I (EBinary a BDiv (EInt a1 x) (EInt a2 y)) =
  let e := EBinary a BDiv (EInt a1 x) (EInt a2 y) in
  if is_float_kind (akind a1) || is_float_kind (akind a2) then RwOk e acc0
  else if iv y =? 0 then RwOk e (acc_err (aloc a))
  else RwOk (patch_ty e (EInt ann0 (wrap KInt (Z.quot (iv x) (iv y)))) (akind a1)) acc_applied.
Proof.
  destruct a1 as [l1 k1], a2 as [l2 k2]. start. ev.
  all_kinds k1; all_kinds k2; destruct (iv y); reflexivity.
Qed.

Lemma fold_rule_mod a a1 x a2 y :
  I (EBinary a BMod (EInt a1 x) (EInt a2 y)) =
  let e := EBinary a BMod (EInt a1 x) (EInt a2 y) in
  if iv y =? 0 then RwOk e (acc_err (aloc a))
  else RwOk (patch e (EInt ann0 (wrap KInt (Z.rem (iv x) (iv y))))) acc_applied.
Proof. start. ev. destruct (iv y); reflexivity. Qed.

Lemma fold_rule_pow a a1 x a2 y :
  I (EBinary a BPow (EInt a1 x) (EInt a2 y)) =
  RwOk (patch (EBinary a BPow (EInt a1 x) (EInt a2 y)) (EFloat ann0 (pow (f_of_Z (iv x)) (f_of_Z (iv y))))) acc_applied.
Proof. reflexivity. Qed.

(* every operator *)
Lemma fold_rule_int_int a op a1 x a2 y : canon_binop op = true ->
  I (EBinary a op (EInt a1 x) (EInt a2 y)) = M (EBinary a op (EInt a1 x) (EInt a2 y)).
Proof.
  intros Hc. destruct op.
  17: apply fold_rule_add. 17: apply fold_rule_sub. 17: apply fold_rule_mul.
  17: { rewrite fold_rule_div. cbn [fold_v int_lit fold_int_bin rw_of].
        destruct (is_float_kind (akind a1) || is_float_kind (akind a2)); [reflexivity|]. destruct (iv y =? 0); reflexivity. }
  17: { rewrite fold_rule_mod. cbn [fold_v int_lit fold_int_bin rw_of]. destruct (iv y =? 0); reflexivity. }
  17: apply fold_rule_pow.
  17: { unk_bin s Hc. reflexivity. }
  all: reflexivity.
Qed.

(* string concatenation *)
Lemma fold_rule_concat a a1 x a2 y :
  I (EBinary a BAdd (EStr a1 x) (EStr a2 y)) =
  RwOk (patch (EBinary a BAdd (EStr a1 x) (EStr a2 y)) (EStr ann0 (x ++ y))) acc_applied.
Proof. reflexivity. Qed.

(* ---- case *BinaryNode, all operands *)
Lemma fold_rule_binary a op l r : canon_binop op = true -> I (EBinary a op l r) = M (EBinary a op l r).
Proof.
  intros Hc.
  destruct (classify l) as [a1 x ->|a1 x ->|Li Ls Li' Ls'].
  - destruct (classify r) as [a2 y ->|a2 y ->|Ri Rs Ri' Rs'].
    + apply fold_rule_int_int. exact Hc.
    + destruct op; try reflexivity. unk_bin s Hc. reflexivity.
    + ev in Ri. ev in Rs. ev in Ri'. ev in Rs'.
      destruct op; try (start; ev; rewrite ?Ri, ?Rs, ?Ri', ?Rs'; reflexivity).
      unk_bin s Hc. rewrite ?Ri, ?Rs, ?Ri', ?Rs'. reflexivity.
  - destruct (classify r) as [a2 y ->|a2 y ->|Ri Rs Ri' Rs'].
    + destruct op; try reflexivity. unk_bin s Hc. reflexivity.
    + destruct op; try reflexivity. unk_bin s Hc. reflexivity.
    + ev in Ri. ev in Rs. ev in Ri'. ev in Rs'.
      destruct op; try (start; ev; rewrite ?Ri, ?Rs, ?Ri', ?Rs'; reflexivity).
      unk_bin s Hc. rewrite ?Ri, ?Rs, ?Ri', ?Rs'. reflexivity.
  - ev in Li. ev in Ls. ev in Li'. ev in Ls'.
    destruct op; try (start; ev; rewrite ?Li, ?Ls, ?Li', ?Ls'; reflexivity).
    unk_bin s Hc. rewrite ?Li, ?Ls, ?Li', ?Ls'. reflexivity.
Qed.

(* ---- case *ArrayNode: all integer literals / all string literals *)
Lemma fold_rule_array a es : I (EArray a es) = M (EArray a es).
Proof.
  destruct es as [|x0 r0]; [reflexivity|].
  assert (Hnil : is_nil_list (x0 :: r0) = false) by reflexivity.
  pose proof (all_ints_forall (x0 :: r0)) as Fi. pose proof (all_strs_forall (x0 :: r0)) as Fs.
  pose proof (fun zs => all_ints_not_strs (x0 :: r0) zs) as NS.
  remember (x0 :: r0) as es eqn:Ees. clear Ees. ev in Fi. ev in Fs.
  start. ev. ev in Hnil. rewrite Fi, ?Hnil.
  destruct (all_ints es) as [zs|] eqn:Ei.
  - ev. rewrite Fs, (NS zs eq_refl Hnil). ev. rewrite ?Hnil. reflexivity.
  - ev. rewrite Fs, ?Hnil. destruct (all_strs es) as [ss|] eqn:Es; ev; rewrite ?Hnil; reflexivity.
Qed.

(* ---- Exit, every node *)
Theorem fold_bridge e : node_canonical e = true -> I e = M e.
Proof.
  intros Hc. unfold node_canonical in Hc. apply andb_prop in Hc. destruct Hc as [Hc _].
  destruct e; try reflexivity.
  - apply fold_rule_unary. exact Hc.
  - apply fold_rule_binary. exact Hc.
  - apply fold_rule_array.
Qed.
End Fold.

(* ================================================================== shapes of sub-nodes *)
Inductive arr_class (x : expr) : Prop :=
| AcArr a es : x = EArray a es -> arr_class x
| AcOther : is_kind x NkArray = false -> arr_lit x = None -> arr_class x.

Lemma classify_arr x : arr_class x.
Proof. destruct x; try (apply AcOther; reflexivity). eapply AcArr. reflexivity. Qed.

Inductive int_class (x : expr) : Prop :=
| IcInt a z : x = EInt a z -> int_class x
| IcOther : is_kind x NkInteger = false -> int_lit x = None -> int_class x.

Lemma classify_int x : int_class x.
Proof. destruct x; try (apply IcOther; reflexivity). eapply IcInt. reflexivity. Qed.

Inductive bin_class (x : expr) : Prop :=
| BcBin a op l r : x = EBinary a op l r -> bin_class x
| BcOther : is_kind x NkBinary = false -> range_lit x = None -> bin_class x.

Lemma classify_bin x : bin_class x.
Proof. destruct x; try (apply BcOther; reflexivity). eapply BcBin. reflexivity. Qed.

(* ================================================================== in_array.go *)
Section InArray.
Variable pow : float -> float -> float.
Variable is_cfn : string -> bool.
Variable call : string -> list value -> outcome value.
Notation I := (interp_pass pow is_cfn call in_array_pass).
Notation M := (fun e => rw_of (in_array_v e)).

Ltac unk_in s Hc :=
  let U1 := fresh "U" in let U2 := fresh "U" in
  pose proof (unknown_binop_neq s "in" Hc eq_refl) as U1; pose proof (unknown_binop_neq s "not in" Hc eq_refl) as U2;
  ev in U1; ev in U2; start; ev; rewrite ?U1, ?U2.

(* x in [literals] with a non-empty array on the right: by the static kind of the left operand *)
Lemma in_array_rule_array a op l ar x0 r0 : is_in_op op = true ->
  I (EBinary a op l (EArray ar (x0 :: r0))) = M (EBinary a op l (EArray ar (x0 :: r0))).
Proof.
  intros Hop.
  pose proof (all_ints_forall (x0 :: r0)) as Fi. pose proof (all_strs_forall (x0 :: r0)) as Fs.
  remember (x0 :: r0) as es eqn:Ees.
  assert (Hnil : is_nil_list es = false) by (subst es; reflexivity). clear Ees. ev in Fi. ev in Fs. ev in Hnil.
  destruct op; try discriminate Hop.
  - start. evk. rewrite ?Hnil. destruct (kind_of l) as [| |[]| | | | | | | |]; ev; rewrite ?Hnil, ?Fi, ?Fs;
      try reflexivity.
    + destruct (all_ints es) as [zs|] eqn:Ei; ev; rewrite ?Hnil; reflexivity.
    + destruct (all_strs es) as [ss|] eqn:Es; ev; rewrite ?Hnil; reflexivity.
  - start. evk. rewrite ?Hnil. destruct (kind_of l) as [| |[]| | | | | | | |]; ev; rewrite ?Hnil, ?Fi, ?Fs;
      try reflexivity.
    + destruct (all_ints es) as [zs|] eqn:Ei; ev; rewrite ?Hnil; reflexivity.
    + destruct (all_strs es) as [ss|] eqn:Es; ev; rewrite ?Hnil; reflexivity.
Qed.

Theorem in_array_bridge e : node_canonical e = true -> I e = M e.
Proof.
  intros Hc. unfold node_canonical in Hc. apply andb_prop in Hc. destruct Hc as [Hc _].
  destruct e; try reflexivity. cbn [op_canon] in Hc. rename e1 into l, e2 into r.
  destruct (classify_arr r) as [ar es ->|Rk Ra].
  - destruct es as [|x0 r0].
    + destruct op; try reflexivity. unk_in s Hc. reflexivity.
    + destruct (is_in_op op) eqn:Hop; [apply in_array_rule_array; exact Hop|].
      destruct op; try discriminate Hop; try reflexivity. unk_in s Hc. reflexivity.
  - ev in Rk. ev in Ra.
    destruct op; try (start; ev; rewrite ?Rk, ?Ra; reflexivity).
    unk_in s Hc. rewrite ?Rk, ?Ra. reflexivity.
Qed.
End InArray.

(* ================================================================== in_range.go *)
Section InRange.
Variable pow : float -> float -> float.
Variable is_cfn : string -> bool.
Variable call : string -> list value -> outcome value.
Notation I := (interp_pass pow is_cfn call in_range_pass).
Notation M := (fun e => rw_of (in_range_v e)).

Ltac unk_in s Hc :=
  let U1 := fresh "U" in let U2 := fresh "U" in
  pose proof (unknown_binop_neq s "in" Hc eq_refl) as U1; pose proof (unknown_binop_neq s "not in" Hc eq_refl) as U2;
  ev in U1; ev in U2; start; ev; rewrite ?U1, ?U2.

(* x in lo..hi with literal bounds: by the static kind of x *)
Lemma in_range_rule_literal a op x ar af f at_ t : is_in_op op = true ->
  I (EBinary a op x (EBinary ar BRange (EInt af f) (EInt at_ t))) =
  M (EBinary a op x (EBinary ar BRange (EInt af f) (EInt at_ t))).
Proof.
  intros Hop. destruct op; try discriminate Hop.
  - start. evk. destruct (kind_of x) as [| |[]| | | | | | | |]; reflexivity.
  - start. evk. destruct (kind_of x) as [| |[]| | | | | | | |]; reflexivity.
Qed.

(* any other operator: nothing fires *)
Lemma in_range_rule_other_op a op x r : canon_binop op = true -> is_in_op op = false ->
  I (EBinary a op x r) = M (EBinary a op x r).
Proof.
  intros Hc Hop.
  assert (HM : in_range_v (EBinary a op x r) = (EBinary a op x r, acc0)).
  { unfold in_range_v. destruct (range_lit r) as [[f t]|]; [rewrite Hop|]; reflexivity. }
  cbv beta. rewrite HM.
  destruct op; try discriminate Hop; try reflexivity.
  unk_in s Hc. reflexivity.
Qed.

(* the right operand is a binary node *)
Lemma in_range_rule_binary a op x ar opr f t : is_in_op op = true -> canon_binop opr = true ->
  I (EBinary a op x (EBinary ar opr f t)) = M (EBinary a op x (EBinary ar opr f t)).
Proof.
  intros Hop Hcr.
  destruct opr.
  16: { (* ".." *)
    destruct (classify_int f) as [af zf ->|Fk Fl].
    - destruct (classify_int t) as [at_ zt ->|Tk Tl].
      + apply in_range_rule_literal. exact Hop.
      + ev in Tk. ev in Tl. destruct op; try discriminate Hop; start; evk; rewrite ?Tk, ?Tl;
          destruct (kind_of x) as [| |[]| | | | | | | |]; ev; rewrite ?Tk, ?Tl; reflexivity.
    - ev in Fk. ev in Fl. destruct op; try discriminate Hop; start; evk; rewrite ?Fk, ?Fl;
        destruct (kind_of x) as [| |[]| | | | | | | |]; ev; rewrite ?Fk, ?Fl; reflexivity. }
  all: try (destruct op; try discriminate Hop; reflexivity).
  (* an unknown operator on the right is not ".." *)
  pose proof (unknown_binop_neq s ".." Hcr eq_refl) as U. ev in U.
  destruct op; try discriminate Hop; start; ev; rewrite ?U; reflexivity.
Qed.

Theorem in_range_bridge e : node_canonical e = true -> I e = M e.
Proof.
  intros Hc. unfold node_canonical in Hc. apply andb_prop in Hc. destruct Hc as [Hc Hk].
  destruct e; try reflexivity. cbn [op_canon] in Hc. cbn [children forallb] in Hk. rename e1 into x, e2 into r.
  apply andb_prop in Hk. destruct Hk as [_ Hk]. apply andb_prop in Hk. destruct Hk as [Hr _].
  destruct (is_in_op op) eqn:Hop; [|apply in_range_rule_other_op; assumption].
  destruct (classify_bin r) as [ar opr f t ->|Rk Rr].
  - apply in_range_rule_binary; [exact Hop|exact Hr].
  - ev in Rk. ev in Rr.
    destruct op; try discriminate Hop; start; ev; rewrite ?Rk, ?Rr; reflexivity.
Qed.
End InRange.

(* ================================================================== const_range.go *)
(* an ascending range whose wrapped size is positive has exactly that many elements *)
Lemma range_size_exact lo hi :
  iv lo <= iv hi -> 1 <= wrap KInt (iv hi - iv lo + 1) -> wrap KInt (iv hi - iv lo + 1) = iv hi - iv lo + 1.
Proof.
  intros Hle Hs. pose proof (iv_range lo) as Rlo. pose proof (iv_range hi) as Rhi.
  change (2 ^ 63) with 9223372036854775808 in *.
  destruct (Z_lt_le_dec (iv hi - iv lo + 1) 9223372036854775808) as [Hsmall|Hbig].
  - apply wrap_in_range; [reflexivity|]. unfold in_range, min_of, max_of. cbn [is_signed width].
    change (2 ^ (64 - 1)) with 9223372036854775808. apply andb_true_intro. split; apply Z.leb_le; lia.
  - exfalso. revert Hs. unfold wrap. cbn [is_signed width].
    change (2 ^ (64 - 1)) with 9223372036854775808. change (2 ^ 64) with 18446744073709551616.
    replace (iv hi - iv lo + 1 + 9223372036854775808)
      with ((iv hi - iv lo + 1 - 9223372036854775808) + 1 * 18446744073709551616) by lia.
    rewrite Z_mod_plus_full, Z.mod_small by lia. lia.
Qed.

Section ConstRange.
Variable pow : float -> float -> float.
Variable is_cfn : string -> bool.
Variable call : string -> list value -> outcome value.
Notation I := (interp_pass pow is_cfn call const_range_pass).
Notation M := (fun e => rw_of (const_range_v e)).

(* lo..hi with literal bounds.  `max.Value < min.Value`: the empty slice.  Otherwise
   `size := max.Value - min.Value + 1` wraps after either operation (the same number as wrapping
   once), `size < 1 || size > 1e6` leaves the node alone, and the slice is filled with min.Value + i. *)
Lemma const_range_rule_literal a a1 lo a2 hi :
  I (EBinary a BRange (EInt a1 lo) (EInt a2 hi)) =
  let e := EBinary a BRange (EInt a1 lo) (EInt a2 hi) in
  if iv hi <? iv lo then RwOk (patch e (EConst ann0 (VArr (TNum KInt) []))) acc0
  else
    let size := wrap KInt (iv hi - iv lo + 1) in
    if (size <? 1) || (1000000 <? size) then RwOk e acc0
    else RwOk (patch e (EConst ann0 (VArr (TNum KInt) (wrange (iv lo) (Z.to_nat size))))) acc0.
Proof.
  start. ev. rewrite !range_size_wrap.
  destruct (iv hi <? iv lo) eqn:E0; [reflexivity|].
  destruct (wrap KInt (iv hi - iv lo + 1) <? 1) eqn:E1; [reflexivity|].
  destruct (1000000 <? wrap KInt (iv hi - iv lo + 1)) eqn:E2; [reflexivity|].
  assert (E3 : wrap KInt (iv hi - iv lo + 1) <? 0 = false) by (apply Z.ltb_ge; apply Z.ltb_ge in E1; lia).
  rewrite E3. reflexivity.
Qed.

(* Exit, every node: no side condition beyond canonical operators *)
Definition const_range_rules_full_statement : Prop :=
  forall e, node_canonical e = true -> I e = M e.

Theorem const_range_bridge : const_range_rules_full_statement.
Proof.
  intros e Hc. unfold node_canonical in Hc. apply andb_prop in Hc. destruct Hc as [Hc _].
  destruct e; try reflexivity. cbn [op_canon] in Hc. rename e1 into l, e2 into r.
  destruct op.
  16: { (* ".." *)
    destruct (classify_int l) as [a1 lo ->|Lk Ll].
    - destruct (classify_int r) as [a2 hi ->|Rk Rl].
      + rewrite const_range_rule_literal. cbv beta zeta. cbn [const_range_v int_lit rw_of fst snd].
        unfold range_window.
        destruct (iv hi <? iv lo) eqn:E0; [reflexivity|].
        destruct (wrap KInt (iv hi - iv lo + 1) <? 1) eqn:E1; [reflexivity|].
        destruct (1000000 <? wrap KInt (iv hi - iv lo + 1)) eqn:E2; [reflexivity|].
        cbn [orb fst snd]. apply Z.ltb_ge in E0. apply Z.ltb_ge in E1.
        pose proof (range_size_exact lo hi E0 E1) as Ex. pose proof (iv_range lo) as Rlo. pose proof (iv_range hi) as Rhi.
        rewrite wrange_range_list; [reflexivity| |].
        * unfold min_of. cbn [is_signed width]. change (2 ^ (64 - 1)) with (2 ^ 63). lia.
        * rewrite Z2Nat.id by lia. rewrite Ex. unfold max_of. cbn [is_signed width]. change (2 ^ (64 - 1)) with (2 ^ 63). lia.
      + ev in Rk. ev in Rl. start. ev. rewrite ?Rk, ?Rl. reflexivity.
    - ev in Lk. ev in Ll. start. ev. rewrite ?Lk, ?Ll. reflexivity. }
  all: try reflexivity.
  pose proof (unknown_binop_neq s ".." Hc eq_refl) as U. ev in U. start. ev. rewrite ?U. reflexivity.
Qed.
End ConstRange.

(* the defect repaired by 80e2856, as it stood: 9223372036854775807..-9223372036854775808 had the
   wrapped size 2 and was folded to [9223372036854775807, -9223372036854775808] (the unoptimized
   program yields the empty slice); now the regenerated rules and the model both fold it to [] *)
Definition w_const_range_wrap : expr :=
  EBinary ann0 BRange (EInt ann0 9223372036854775807) (EInt ann0 (-9223372036854775808)).

Example const_range_repaired_witness :
  interp_rules (fun _ _ => 0%float) (p_body const_range_pass) w_const_range_wrap =
    RwOk (EConst ann0 (VArr (TNum KInt) [])) acc0 /\
  rw_of (const_range_v w_const_range_wrap) = RwOk (EConst ann0 (VArr (TNum KInt) [])) acc0.
Proof. split; vm_compute; reflexivity. Qed.

(* ... and -9223372036854775808..9223372036854775807 (2^64 elements, wrapped size 0) is left to the
   run-time memory budget instead of being folded to [] *)
Definition w_const_range_full : expr :=
  EBinary ann0 BRange (EInt ann0 (-9223372036854775808)) (EInt ann0 9223372036854775807).

Example const_range_full_span_untouched :
  interp_rules (fun _ _ => 0%float) (p_body const_range_pass) w_const_range_full = RwOk w_const_range_full acc0 /\
  rw_of (const_range_v w_const_range_full) = RwOk w_const_range_full acc0.
Proof. split; vm_compute; reflexivity. Qed.

(* ================================================================== const_expr.go *)
Section ConstExpr.
Variable pow : float -> float -> float.
Variable fe : fenv.
Variable env : value.
Variable cnames : list string.
Notation I := (interp_pass pow (is_const_fn cnames) (const_call fe env) const_expr_pass).
Notation M := (fun e => rw_of (const_expr_v fe env cnames e)).

(* a call of a ConstExpr function: collect the literal arguments, call, replace; a panic of the call
   (or a missing result) is recovered into c.err *)
Lemma const_expr_rule_call a name args fast :
  I (EFunction a name args fast) = M (EFunction a name args fast).
Proof.
  start. ev. destruct (is_const_fn cnames name); [|reflexivity].
  change (collect_args _ args) with (collect_args const_expr_table args). rewrite collect_args_const_args.
  destruct (const_args args) as [vs|]; [|reflexivity].
  ev. destruct (const_call fe env name vs); reflexivity.
Qed.

Theorem const_expr_bridge e : I e = M e.
Proof. destruct e; try reflexivity. apply const_expr_rule_call. Qed.
End ConstExpr.

(* ================================================================== interp_rules: the passes without a recover handler *)
Lemma interp_rules_is_interp_pass pow P e :
  p_recover P = None ->
  interp_rules pow (p_body P) e = interp_pass pow (fun _ => false) (fun _ _ => Fail EOther) P e.
Proof. intros H. unfold interp_rules, interp_pass. rewrite H. reflexivity. Qed.

Theorem fold_rules_bridge pow e : node_canonical e = true ->
  interp_rules pow (p_body fold_pass) e = rw_of (fold_v pow e).
Proof. intros H. rewrite interp_rules_is_interp_pass by reflexivity. apply fold_bridge. exact H. Qed.

Theorem in_array_rules_bridge pow e : node_canonical e = true ->
  interp_rules pow (p_body in_array_pass) e = rw_of (in_array_v e).
Proof. intros H. rewrite interp_rules_is_interp_pass by reflexivity. apply in_array_bridge. exact H. Qed.

Theorem in_range_rules_bridge pow e : node_canonical e = true ->
  interp_rules pow (p_body in_range_pass) e = rw_of (in_range_v e).
Proof. intros H. rewrite interp_rules_is_interp_pass by reflexivity. apply in_range_bridge. exact H. Qed.

Theorem const_range_rules_bridge pow e : node_canonical e = true ->
  interp_rules pow (p_body const_range_pass) e = rw_of (const_range_v e).
Proof. intros H. rewrite interp_rules_is_interp_pass by reflexivity. apply const_range_bridge. exact H. Qed.

(* ================================================================== optimizer.go: Optimize *)
(* the visitor types of Optimize answered by the MODEL visitors *)
Definition model_visitors (fe : fenv) (env : value) (cnames : list string) (n : string) : option visitor :=
  if String.eqb n "inArray" then Some in_array_v
  else if String.eqb n "fold" then Some (fold_v (f_pow fe))
  else if String.eqb n "constExpr" then Some (const_expr_v fe env cnames)
  else if String.eqb n "inRange" then Some in_range_v
  else if String.eqb n "constRange" then Some const_range_v
  else None.

(* the regenerated statements of Optimize (pass order, the bounds 1000 / 100 = at most 1001 / 101
   walks, `return x.err`, `break` when nothing was applied, the ConstExprFns guard) run with the model
   visitors are the model's `optimize` *)
Theorem optimize_steps_bridge fe env cnames e :
  interp_optimize (model_visitors fe env cnames) (has_names cnames) optimize_steps e = Some (optimize fe env cnames e).
Proof.
  unfold interp_optimize, optimize, before_const_range, before_in_range, pass_fold, pass_const_expr,
         pass_in_array, pass_in_range, pass_const_range, fold_bound, const_expr_bound.
  lazy -[iter_pass map_post fold_v const_expr_v in_array_v in_range_v const_range_v Z.to_nat Z.add f_pow].
  change (Z.to_nat (1000 + 1)) with (Z.to_nat 1001). change (Z.to_nat (100 + 1)) with (Z.to_nat 101).
  match goal with |- context [iter_pass (fold_v ?p) ?n ?x] => destruct (iter_pass (fold_v p) n x) as [e2|l2] end; [|reflexivity].
  destruct cnames as [|c0 cs]; [reflexivity|]. lazy iota beta.
  match goal with |- context [iter_pass ?f ?n e2] => destruct (iter_pass f n e2) as [e3|l3] end; reflexivity.
Qed.

(* ================================================================== the whole walk, the whole Optimize *)
(* canonical operators are preserved by rebuilding a node from canonical children ... *)
Lemma tree_canonical_list l :
  (fix all (l : list expr) : bool := match l with [] => true | x :: r => tree_canonical x && all r end) l = true <->
  (forall c, In c l -> tree_canonical c = true).
Proof.
  split; [apply tree_canonical_all|]. induction l as [|x r IH]; intros H; [reflexivity|].
  rewrite (H x (or_introl eq_refl)), IH; [reflexivity|]. intros c Hc. apply H. right. exact Hc.
Qed.

Lemma tree_canonical_rebuild e (h : expr -> expr) :
  tree_canonical e = true -> (forall c, In c (children e) -> tree_canonical (h c) = true) ->
  tree_canonical (rebuild e (map h (children e))) = true.
Proof.
  intros H Hk. pose proof (tree_canonical_op e H) as Ho.
  destruct e; cbn [children map rebuild]; try exact H; cbn [children] in Hk; cbn [op_canon] in Ho;
    try (cbn [tree_canonical op_canon]; rewrite ?Ho; cbn [andb];
         repeat match goal with
                | |- context [tree_canonical (h ?x)] => rewrite (Hk x) by (cbn [In]; tauto)
                end; reflexivity).
  - (* slice *)
    destruct from as [y1|], to as [y2|]; cbn [opt_list app map rebuild tree_canonical op_canon andb] in *;
      repeat match goal with
             | |- context [tree_canonical (h ?x)] => rewrite (Hk x) by (cbn [In]; tauto)
             end; reflexivity.
  - (* method *)
    cbn [tree_canonical op_canon andb]. rewrite (Hk e (or_introl eq_refl)). cbn [andb].
    apply tree_canonical_list. intros c Hc. apply in_map_iff in Hc. destruct Hc as (c0 & <- & Hc0). apply Hk. right. exact Hc0.
  - cbn [tree_canonical op_canon andb]. apply tree_canonical_list. intros c Hc. apply in_map_iff in Hc.
    destruct Hc as (c0 & <- & Hc0). apply Hk. exact Hc0.
  - cbn [tree_canonical op_canon andb]. apply tree_canonical_list. intros c Hc. apply in_map_iff in Hc.
    destruct Hc as (c0 & <- & Hc0). apply Hk. exact Hc0.
  - cbn [tree_canonical op_canon andb]. apply tree_canonical_list. intros c Hc. apply in_map_iff in Hc.
    destruct Hc as (c0 & <- & Hc0). apply Hk. exact Hc0.
  - cbn [tree_canonical op_canon andb]. apply tree_canonical_list. intros c Hc. apply in_map_iff in Hc.
    destruct Hc as (c0 & <- & Hc0). apply Hk. exact Hc0.
Qed.

(* ... hence by a walk whose visitor preserves them *)
Lemma walk_canonical (g : visitor) :
  (forall n, tree_canonical n = true -> tree_canonical (fst (g n)) = true) ->
  forall e, tree_canonical e = true -> tree_canonical (fst (map_post g e)) = true.
Proof.
  intros Hg. apply (expr_children_ind (fun e => tree_canonical e = true -> tree_canonical (fst (map_post g e)) = true)).
  intros e IH H. rewrite map_post_fst. apply Hg. apply tree_canonical_rebuild; [exact H|].
  intros c Hc. apply IH; [exact Hc|]. eapply tree_canonical_children; eassumption.
Qed.

Lemma walk_rebuilt_canonical (g : visitor) e :
  (forall n, tree_canonical n = true -> tree_canonical (fst (g n)) = true) ->
  tree_canonical e = true ->
  tree_canonical (rebuild e (map (fun c => fst (map_post g c)) (children e))) = true.
Proof.
  intros Hg H. apply tree_canonical_rebuild; [exact H|]. intros c Hc. apply walk_canonical; [exact Hg|].
  eapply tree_canonical_children; eassumption.
Qed.

(* the model visitors preserve canonical operators *)
Ltac split_all := repeat match goal with
  | |- context [if ?c then _ else _] => destruct c
  | |- context [match ?x with _ => _ end] => destruct x
  end.

Lemma in_array_v_canonical n : tree_canonical n = true -> tree_canonical (fst (in_array_v n)) = true.
Proof.
  intros H. destruct n; try exact H. cbn [tree_canonical op_canon] in H.
  apply andb_prop in H. destruct H as [Ho H]. apply andb_prop in H. destruct H as [H1 H2].
  assert (Hn : tree_canonical (EBinary a op n1 n2) = true) by (cbn [tree_canonical op_canon]; rewrite Ho, H1, H2; reflexivity).
  unfold in_array_v. split_all; try exact Hn;
    cbn [fst patch set_ann tree_canonical op_canon]; rewrite Ho, H1; reflexivity.
Qed.

Lemma fold_v_canonical pow n : tree_canonical n = true -> tree_canonical (fst (fold_v pow n)) = true.
Proof.
  intros H. destruct n; try exact H.
  - unfold fold_v. split_all; try exact H; reflexivity.
  - unfold fold_v, fold_int_bin. split_all; try exact H; reflexivity.
  - unfold fold_v, fold_array. split_all; try exact H; reflexivity.
Qed.

Lemma const_expr_v_canonical fe env cn n : tree_canonical n = true -> tree_canonical (fst (const_expr_v fe env cn n)) = true.
Proof. intros H. destruct n; try exact H. unfold const_expr_v. split_all; try exact H; reflexivity. Qed.

Lemma const_range_v_canonical n : tree_canonical n = true -> tree_canonical (fst (const_range_v n)) = true.
Proof. intros H. destruct n; try exact H. unfold const_range_v. split_all; try exact H; reflexivity. Qed.

Lemma range_lit_inv r f t : range_lit r = Some (f, t) -> exists a, r = EBinary a BRange f t.
Proof.
  destruct r; try discriminate. destruct op; try discriminate. cbn [range_lit].
  destruct (int_lit r1), (int_lit r2); try discriminate. intros H. inversion H. eexists. reflexivity.
Qed.

Lemma in_range_v_canonical n : tree_canonical n = true -> tree_canonical (fst (in_range_v n)) = true.
Proof.
  intros H. destruct n; try exact H. cbn [tree_canonical op_canon] in H.
  apply andb_prop in H. destruct H as [Ho H]. apply andb_prop in H. destruct H as [H1 H2].
  assert (Hn : tree_canonical (EBinary a op n1 n2) = true) by (cbn [tree_canonical op_canon]; rewrite Ho, H1, H2; reflexivity).
  unfold in_range_v. destruct (range_lit n2) as [[f t]|] eqn:Er; [|exact Hn].
  apply range_lit_inv in Er. destruct Er as [ar ->]. cbn [tree_canonical op_canon] in H2.
  apply andb_prop in H2. destruct H2 as [_ H2]. apply andb_prop in H2. destruct H2 as [Hf Ht].
  destruct (is_in_op op && in_range_left_ok (kind_of n1)); [|exact Hn].
  destruct op; cbn [fst tree_canonical op_canon canon_binop canon_unop andb]; rewrite H1, Hf, Ht; reflexivity.
Qed.

(* a visitor given by a rewrite_result function that equals the model on a node *)
Lemma visitor_of_rw (F : expr -> rewrite_result) (g : visitor) n : F n = rw_of (g n) -> visitor_of F n = g n.
Proof. intros H. unfold visitor_of. rewrite H. unfold rw_of. destruct (g n); reflexivity. Qed.

Section Whole.
Variable fe : fenv.
Variable env : value.
Variable cnames : list string.
Notation V := (pass_visitor fe env cnames).

(* ---- one walk of each pass *)
Lemma walk_in_array e : tree_canonical e = true -> map_post (V in_array_pass) e = map_post in_array_v e.
Proof.
  apply (map_post_ext_rel (fun e => tree_canonical e = true)); [intros; eapply tree_canonical_children; eassumption|].
  intros n Hn. apply visitor_of_rw. apply in_array_bridge. apply tree_canonical_node.
  apply walk_rebuilt_canonical; [apply in_array_v_canonical|exact Hn].
Qed.

Lemma walk_fold e : tree_canonical e = true -> map_post (V fold_pass) e = map_post (fold_v (f_pow fe)) e.
Proof.
  apply (map_post_ext_rel (fun e => tree_canonical e = true)); [intros; eapply tree_canonical_children; eassumption|].
  intros n Hn. apply visitor_of_rw. apply fold_bridge. apply tree_canonical_node.
  apply walk_rebuilt_canonical; [apply fold_v_canonical|exact Hn].
Qed.

Lemma walk_const_expr e : map_post (V const_expr_pass) e = map_post (const_expr_v fe env cnames) e.
Proof. apply map_post_ext. intros n. apply visitor_of_rw. apply const_expr_bridge. Qed.

Lemma walk_in_range e : tree_canonical e = true -> map_post (V in_range_pass) e = map_post in_range_v e.
Proof.
  apply (map_post_ext_rel (fun e => tree_canonical e = true)); [intros; eapply tree_canonical_children; eassumption|].
  intros n Hn. apply visitor_of_rw. apply in_range_bridge. apply tree_canonical_node.
  apply walk_rebuilt_canonical; [apply in_range_v_canonical|exact Hn].
Qed.

Lemma walk_const_range e : tree_canonical e = true -> map_post (V const_range_pass) e = map_post const_range_v e.
Proof.
  apply (map_post_ext_rel (fun e => tree_canonical e = true)); [intros; eapply tree_canonical_children; eassumption|].
  intros n Hn. apply visitor_of_rw. apply const_range_bridge. apply tree_canonical_node.
  apply walk_rebuilt_canonical; [apply const_range_v_canonical|exact Hn].
Qed.

(* ---- the iterated passes *)
Lemma iter_agree (f g : visitor) :
  (forall e, tree_canonical e = true -> map_post f e = map_post g e) ->
  (forall n, tree_canonical n = true -> tree_canonical (fst (g n)) = true) ->
  forall k e, tree_canonical e = true ->
  iter_pass f k e = iter_pass g k e /\
  (forall e', iter_pass g k e = OOk e' -> tree_canonical e' = true).
Proof.
  intros Hfg Hg. induction k as [|k IH]; intros e He.
  - split; [reflexivity|]. intros e' H. inversion H. subst. exact He.
  - cbn [iter_pass]. rewrite (Hfg e He). pose proof (walk_canonical g Hg e He) as Hc.
    destruct (map_post g e) as [e1 [ap er]]. cbn [fst] in Hc.
    destruct er as [l|]; [split; [reflexivity|discriminate]|].
    destruct ap; [apply IH; exact Hc|]. split; [reflexivity|]. intros e' H. inversion H. subst. exact Hc.
Qed.

(* ---- Optimize with the visitors obtained from the regenerated passes ALONE *)
Lemma gen_visitors_names :
  gen_visitors passes fe env cnames "inArray" = Some (V in_array_pass) /\
  gen_visitors passes fe env cnames "fold" = Some (V fold_pass) /\
  gen_visitors passes fe env cnames "constExpr" = Some (V const_expr_pass) /\
  gen_visitors passes fe env cnames "inRange" = Some (V in_range_pass) /\
  gen_visitors passes fe env cnames "constRange" = Some (V const_range_pass).
Proof. repeat split; reflexivity. Qed.

Notation G := (gen_visitors passes fe env cnames).
Notation MV := (model_visitors fe env cnames).
Notation h := (has_names cnames).

(* one statement of Optimize: both visitor tables give the same flow, and a tree handed on is canonical *)
Definition step_agrees (s : ostep) (x : expr) : Prop :=
  run_ostep G h s x = run_ostep MV h s x /\ (forall x', run_ostep MV h s x = OGo x' -> tree_canonical x' = true).

Lemma step_in_array x : tree_canonical x = true -> step_agrees (OWalk "inArray") x.
Proof.
  intros Hx. unfold step_agrees. cbn [run_ostep]. rewrite (proj1 gen_visitors_names).
  change (MV "inArray") with (Some in_array_v). rewrite (walk_in_array x Hx). split; [reflexivity|].
  intros x' E. inversion E. apply walk_canonical; [apply in_array_v_canonical|exact Hx].
Qed.

Lemma step_in_range x : tree_canonical x = true -> step_agrees (OWalk "inRange") x.
Proof.
  intros Hx. unfold step_agrees. cbn [run_ostep]. rewrite (proj1 (proj2 (proj2 (proj2 gen_visitors_names)))).
  change (MV "inRange") with (Some in_range_v). rewrite (walk_in_range x Hx). split; [reflexivity|].
  intros x' E. inversion E. apply walk_canonical; [apply in_range_v_canonical|exact Hx].
Qed.

Lemma step_const_range x : tree_canonical x = true -> step_agrees (OWalk "constRange") x.
Proof.
  intros Hx. unfold step_agrees. cbn [run_ostep]. rewrite (proj2 (proj2 (proj2 (proj2 gen_visitors_names)))).
  change (MV "constRange") with (Some const_range_v). rewrite (walk_const_range x Hx). split; [reflexivity|].
  intros x' E. inversion E. apply walk_canonical; [apply const_range_v_canonical|exact Hx].
Qed.

Lemma step_fold x : tree_canonical x = true -> step_agrees (OLoop "fold" 1000) x.
Proof.
  intros Hx. unfold step_agrees. cbn [run_ostep]. rewrite (proj1 (proj2 gen_visitors_names)).
  change (MV "fold") with (Some (fold_v (f_pow fe))). change (1000 <? 0) with false. cbv iota.
  destruct (iter_agree (V fold_pass) (fold_v (f_pow fe)) walk_fold (fold_v_canonical (f_pow fe)) (Z.to_nat (1000 + 1)) x Hx)
    as [F1 F2].
  rewrite F1. split; [reflexivity|].
  destruct (iter_pass (fold_v (f_pow fe)) (Z.to_nat (1000 + 1)) x) as [x2|l2]; [|discriminate].
  intros x' E. inversion E. subst. apply F2. reflexivity.
Qed.

Lemma step_const_expr x : tree_canonical x = true -> step_agrees (OIfConstFns [OLoop "constExpr" 100]) x.
Proof.
  intros Hx. unfold step_agrees. cbn [run_ostep]. destruct h.
  - rewrite (proj1 (proj2 (proj2 gen_visitors_names))).
    change (MV "constExpr") with (Some (const_expr_v fe env cnames)). change (100 <? 0) with false. cbv iota.
    destruct (iter_agree (V const_expr_pass) (const_expr_v fe env cnames) (fun e _ => walk_const_expr e)
                (const_expr_v_canonical fe env cnames) (Z.to_nat (100 + 1)) x Hx) as [G1 G2].
    rewrite G1. split; [reflexivity|].
    destruct (iter_pass (const_expr_v fe env cnames) (Z.to_nat (100 + 1)) x) as [x3|l3]; [|discriminate].
    intros x' E. inversion E. subst. apply G2. reflexivity.
  - split; [reflexivity|]. intros x' E. inversion E. subst. exact Hx.
Qed.

(* Optimize with the visitors obtained from the regenerated passes ALONE is the model's `optimize` *)
Theorem gen_optimize_is_optimize e :
  tree_canonical e = true ->
  interp_optimize G h optimize_steps e = Some (optimize fe env cnames e).
Proof.
  intros He. rewrite <- optimize_steps_bridge.
  unfold interp_optimize, optimize_steps. cbn [run_osteps].
  destruct (step_in_array e He) as [A1 A2]. rewrite A1.
  destruct (run_ostep MV h (OWalk "inArray") e) as [e1| |] eqn:E1; try reflexivity.
  pose proof (A2 e1 eq_refl) as H1.
  destruct (step_fold e1 H1) as [B1 B2]. rewrite B1.
  destruct (run_ostep MV h (OLoop "fold" 1000) e1) as [e2| |] eqn:E2; try reflexivity.
  pose proof (B2 e2 eq_refl) as H2.
  destruct (step_const_expr e2 H2) as [C1 C2]. rewrite C1.
  destruct (run_ostep MV h (OIfConstFns [OLoop "constExpr" 100]) e2) as [e3| |] eqn:E3; try reflexivity.
  pose proof (C2 e3 eq_refl) as H3.
  destruct (step_in_range e3 H3) as [D1 D2]. rewrite D1.
  destruct (run_ostep MV h (OWalk "inRange") e3) as [e4| |] eqn:E4; try reflexivity.
  pose proof (D2 e4 eq_refl) as H4.
  destruct (step_const_range e4 H4) as [F1 _]. rewrite F1.
  reflexivity.
Qed.
End Whole.

(* ================================================================== the parser builds canonical operators *)
Lemma canonical_of_parser :
  (forall s, canon_unop (X.Parse.Parser.unop_of_string s) = true) /\
  (forall s, canon_binop (X.Parse.Parser.binop_of_string s) = true).
Proof. split; [exact canon_unop_of_string|exact canon_binop_of_string]. Qed.

(* the side condition of the whole-Optimize bridge: canonical operators throughout the input tree *)
Definition optimize_bridge_ok (e : expr) : bool := tree_canonical e.

Theorem model_optimizer_is_source_rules fe env cnames e :
  optimize_bridge_ok e = true ->
  interp_optimize (gen_visitors passes fe env cnames) (has_names cnames) optimize_steps e = Some (optimize fe env cnames e).
Proof. intros H. apply gen_optimize_is_optimize. exact H. Qed.

(* non-vacuity: (I in 1..(1 + 2)) and (len(1..4) == 2 * 2) and (I in [3, 5]) - the expression of
   C02_rewrites_fire - meets the side condition, and the regenerated rules rewrite it *)
Example optimize_bridge_ok_inhabited : optimize_bridge_ok x_expr = true.
Proof. vm_compute. reflexivity. Qed.

Example gen_optimize_rewrites :
  exists e', interp_optimize (gen_visitors passes w_fe x_env []) (has_names []) optimize_steps x_expr = Some (OOk e')
             /\ e' <> x_expr.
Proof. eexists. split; [vm_compute; reflexivity|discriminate]. Qed.

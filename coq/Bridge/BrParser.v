(* Bridge/BrParser.v — the model parser Parse/Parser.v IS the interpretation of the functions
   regenerated from parser/parser.go (gen/GenParser.v).

   One unfolding step per Go function: running the regenerated function with the calls of the other
   parse functions answered by the model's functions gives the model's function, for ALL parser states
   (tokens, closure depth), grammar tables, oracles and loop budgets - including the out-of-fuel
   outcome.  Then, by induction on the fuel: the parser built from the regenerated functions alone
   (gen_parse_expr, gen_parse) is Parser.parse_expr / Parser.parse on every token list.

   What the statements say beyond the result: the closure depth after a call is the depth before it
   (lift_e d: parseClosure's p.depth++ / p.depth-- are balanced); parseIdentifierExpression(token, next)
   is related to the model for next = p.current, which is how its only caller passes it; a failure of a
   step lemma names the Go function whose reading no longer matches the model.
   Both sides use the first-error discipline of Parser.v (see Parse/ParseRules.v); genparser_recognised
   includes that every loop of the source carries the `p.err == nil` guard this discipline relies on. *)
From Coq Require Import ZArith Bool List String Ascii Floats Lia.
Require Import X.Base.Num X.Base.Value X.Syn.Ast X.Syn.Tok X.Parse.Parser X.Parse.ParseRules
               X.Parse.ParseRulesProofs X.gen.GenParser.
Import ListNotations.
Local Open Scope string_scope.
Open Scope Z_scope.

(* nothing in the current source is outside the shapes the translator knows *)
Lemma genparser_recognised : recognised parser_program = true.
Proof. vm_compute. reflexivity. Qed.

Section Step.
Variable g : grammar.
Variable o : oracles.
Variable pe : Z -> nat -> list token -> pres expr.     (* the model's nested parseExpression *)
Variable LF : nat.
Variable rec : string -> list dval -> nat -> list token -> result.

Notation I := (interp_fn g o rec LF).

(* what the calls through `rec` are answered with *)
Notation rec_expression :=
  (forall p d ts, rec "parseExpression" [DInt p] d ts = lift_e d (pe p d ts)).
Notation rec_arguments :=
  (forall d ts, rec "parseArguments" [] d ts = lift_l d (parse_arguments pe LF d ts)).
Notation rec_closure :=
  (forall d ts, rec "parseClosure" [] d ts = lift_e d (parse_closure pe d ts)).
Notation rec_array :=
  (forall tk d ts, rec "parseArrayExpression" [DTok tk] d ts = lift_e d (parse_array pe LF tk d ts)).
Notation rec_map :=
  (forall tk d ts, rec "parseMapExpression" [DTok tk] d ts = lift_e d (parse_map pe LF tk d ts)).
Notation rec_conditional :=
  (forall node d ts, rec "parseConditionalExpression" [DNode (Some node)] d ts = lift_e d (cond_loop pe LF d node ts)).
Notation rec_postfix :=
  (forall node d ts, rec "parsePostfixExpression" [DNode (Some node)] d ts = lift_e d (postfix_loop pe LF LF d false node ts)).
Notation rec_identifier :=
  (forall tk d ts, rec "parseIdentifierExpression" [DTok tk; DTok (cur ts)] d ts
                  = lift_e d (parse_identifier_expression g pe LF tk d ts)).
Notation rec_primary_expression :=
  (forall d ts, rec "parsePrimaryExpression" [] d ts = lift_e d (primary_expression_model g o pe LF d ts)).
Notation rec_primary :=
  (forall d ts, rec "parsePrimary" [] d ts = lift_e d (parse_primary g o pe LF d ts)).

(* ------------------------------------------------------------------ parseClosure *)
Lemma step_parseClosure : rec_expression ->
  forall d ts, I gen_parseClosure [] d ts = lift_e d (parse_closure pe d ts).
Proof.
  intros Hpe d ts. unfold parse_closure, expect. sym_run.
Qed.

(* ------------------------------------------------------------------ parseArguments *)
Lemma step_parseArguments : rec_expression ->
  forall d ts, I gen_parseArguments [] d ts = lift_l d (parse_arguments pe LF d ts).
Proof.
  intros Hpe d ts. unfold parse_arguments, expect. sym_run. sync_right.
  match goal with |- context [while_loop ?F ?C LF _] =>
    assert (L : forall lf acc ts0, while_loop F C lf (mkSt [DNodes (map Some acc)] ts0 d false) =
       match args_loop pe lf d acc ts0 with
       | POk l ts' => IDone (FNorm, mkSt [DNodes (map Some l)] ts' d false)
       | PErr e => IErr e | PFuel => IFuel end) end.
  { clear - Hpe. induction lf as [|lf IH]; intros acc ts0; cbn [while_loop args_loop]; unfold expect; sym_run. }
  match goal with |- context [while_loop _ _ LF (mkSt _ ?l _ _)] =>
    pose proof (L LF [] l) as L0; cbn [map] in L0; rewrite L0; clear L0 L end.
  sym_run.
Qed.

(* ------------------------------------------------------------------ parseArrayExpression *)
Lemma step_parseArrayExpression : rec_expression ->
  forall tk d ts, I gen_parseArrayExpression [DTok tk] d ts = lift_e d (parse_array pe LF tk d ts).
Proof.
  intros Hpe tk d ts. unfold parse_array, expect. sym_run. sync_right.
  match goal with |- context [while_loop ?F ?C LF _] =>
    assert (L : forall lf acc ts0, merge_goto (while_loop F C lf (mkSt [DTok tk; DNodes (map Some acc)] ts0 d false)) =
       match array_loop pe lf d acc ts0 with
       | POk l ts' => IDone (FNorm, mkSt [DTok tk; DNodes (map Some l)] ts' d false)
       | PErr e => IErr e | PFuel => IFuel end) end.
  { clear - Hpe. induction lf as [|lf IH]; intros acc ts0; cbn [while_loop array_loop]; unfold expect; sym_run. }
  match goal with |- context [while_loop _ _ LF (mkSt _ ?l _ _)] =>
    pose proof (L LF [] l) as L0; cbn [map] in L0; clear L; use_loop L0 end.
  all: sym_run.
Qed.
(* ------------------------------------------------------------------ parseMapExpression *)
Lemma step_parseMapExpression : rec_expression ->
  forall tk d ts, I gen_parseMapExpression [DTok tk] d ts = lift_e d (parse_map pe LF tk d ts).
Proof.
  intros Hpe tk d ts. unfold parse_map, expect. sym_run. sync_right.
  match goal with |- context [while_loop ?F ?C LF _] =>
    assert (L : forall lf acc ts0, merge_goto (while_loop F C lf (mkSt [DTok tk; DNodes (map Some acc)] ts0 d false)) =
       match map_loop pe lf (tloc tk) d acc ts0 with
       | POk l ts' => IDone (FNorm, mkSt [DTok tk; DNodes (map Some l)] ts' d false)
       | PErr e => IErr e | PFuel => IFuel end) end.
  { clear - Hpe. induction lf as [|lf IH]; intros acc ts0; cbn [while_loop map_loop]; unfold expect, is_kind; sym_run. }
  match goal with |- context [while_loop _ _ LF (mkSt _ ?l _ _)] =>
    pose proof (L LF [] l) as L0; cbn [map] in L0; clear L; use_loop L0 end.
  all: sym_run.
Qed.

(* ------------------------------------------------------------------ parseConditionalExpression *)
Lemma step_parseConditionalExpression : rec_expression ->
  forall node d ts, I gen_parseConditionalExpression [DNode (Some node)] d ts = lift_e d (cond_loop pe LF d node ts).
Proof.
  intros Hpe node d ts. sym_run. sync_right.
  match goal with |- context [while_loop ?F ?C LF _] =>
    assert (L : forall lf nd x y ts0, view0 (while_loop F C lf (mkSt [DNode (Some nd); DNode x; DNode y] ts0 d false)) =
       match cond_loop pe lf d nd ts0 with
       | POk e ts' => IDone (FNorm, DNode (Some e), ts', d, false)
       | PErr e => IErr e | PFuel => IFuel end) end.
  { clear - Hpe. induction lf as [|lf IH]; intros nd x y ts0; cbn [while_loop cond_loop]; unfold expect; sym_run. }
  pose proof (L LF node None None ts) as L0; clear L; use_loop_view L0.
  all: sym_run.
Qed.
(* ------------------------------------------------------------------ parsePostfixExpression *)
Lemma step_parsePostfixExpression : rec_expression -> rec_arguments ->
  forall node d ts, I gen_parsePostfixExpression [DNode (Some node)] d ts
                    = lift_e d (postfix_loop pe LF LF d false node ts).
Proof.
  intros Hpe Hargs node d ts. sym_run. sync_right.
  match goal with |- context [while_loop ?F ?C LF _] =>
    assert (L : forall lf ns nd ts0,
       view0 (while_loop F C lf (mkSt [DNode (Some nd); DTok (cur ts0); DBool ns] ts0 d false)) =
       match postfix_loop pe LF lf d ns nd ts0 with
       | POk e ts' => IDone (FNorm, DNode (Some e), ts', d, false)
       | PErr e => IErr e | PFuel => IFuel end) end.
  { clear - Hpe Hargs.
    induction lf as [|lf IH]; intros ns nd ts0; cbn [while_loop postfix_loop]; unfold expect, is_kind, val_is; sym_run. }
  pose proof (L LF false node ts) as L0; clear L; use_loop_view L0.
  all: sym_run.
Qed.
(* ------------------------------------------------------------------ parseIdentifierExpression *)
Lemma step_parseIdentifierExpression : rec_expression -> rec_arguments -> rec_closure ->
  forall tk d ts, I gen_parseIdentifierExpression [DTok tk; DTok (cur ts)] d ts
                  = lift_e d (parse_identifier_expression g pe LF tk d ts).
Proof.
  intros Hpe Hargs Hclosure tk d ts. unfold parse_identifier_expression, expect.
  sym_run.
Qed.
(* ------------------------------------------------------------------ parsePrimaryExpression *)
Lemma step_parsePrimaryExpression : rec_identifier -> rec_array -> rec_map -> rec_postfix ->
  forall d ts, I gen_parsePrimaryExpression [] d ts = lift_e d (primary_expression_model g o pe LF d ts).
Proof.
  intros Hident Harray Hmap Hpostfix d ts.
  unfold primary_expression_model, parse_primary_expression, number_value, val_is.
  destruct (tkind_of (cur ts)) eqn:K.
  all: sym_run.
Qed.

(* ------------------------------------------------------------------ parsePrimary *)
Lemma step_parsePrimary : rec_expression -> rec_postfix -> rec_primary_expression ->
  forall d ts, I gen_parsePrimary [] d ts = lift_e d (parse_primary g o pe LF d ts).
Proof.
  intros Hpe Hpostfix Hprimexp d ts.
  unfold parse_primary, parse_base, primary_expression_model, expect, is_kind.
  destruct d as [|d'].
  all: sym_run.
Qed.
(* ------------------------------------------------------------------ parseExpression *)
Lemma step_parseExpression : rec_expression -> rec_primary -> rec_conditional ->
  forall prec d ts, I gen_parseExpression [DInt prec] d ts = lift_e d (expression_body g o pe LF prec d ts).
Proof.
  intros Hpe Hprimary Hcond prec d ts. unfold expression_body. sym_run. sync_right.
  match goal with |- context [while_loop ?F ?C LF _] =>
    assert (L : forall lf left ts0,
       while_loop F C lf (mkSt [DInt prec; DNode (Some left); DTok (cur ts0)] ts0 d false) =
       match binary_loop g o pe lf prec d left ts0 with
       | POk e ts' => IDone (FNorm, mkSt [DInt prec; DNode (Some e); DTok (cur ts')] ts' d false)
       | PErr e => IErr e | PFuel => IFuel end) end.
  { clear - Hpe.
    induction lf as [|lf IH]; intros left ts0; cbn [while_loop binary_loop]; unfold is_kind, val_is;
      destruct (tkind_of (cur ts0)) eqn:K; sym_run. }
  match goal with |- context [while_loop _ _ LF (mkSt [_; DNode (Some ?e); _] ?l _ _)] =>
    rewrite (L LF e l); clear L end.
  sym_run.
Qed.
(* ------------------------------------------------------------------ Parse (from `p := &parser{...}` on) *)
Definition parse_pres (ts : list token) : pres expr :=
  match ts with
  | [] => PErr noloc
  | _ :: _ =>
      pbind (pe 0 0%nat ts) (fun e rest =>
      if tok_is (cur rest) TkEOF [] then POk e rest else PErr (tloc (cur rest)))
  end.

Lemma step_Parse : rec_expression ->
  forall ts, I gen_Parse [] 0%nat ts = lift_e 0%nat (parse_pres ts).
Proof.
  intros Hpe ts. unfold parse_pres. sym_run.
Qed.
End Step.

(* ------------------------------------------------------------------ the functions tied together *)
Section Tie.
Variable g : grammar.
Variable o : oracles.
Variable pe : Z -> nat -> list token -> pres expr.
Variable pe' : Z -> nat -> list token -> result.
Variable LF : nat.
Hypothesis Hpe' : forall p d ts, pe' p d ts = lift_e d (pe p d ts).

Notation GC := (gen_call parser_program g o pe' LF).

Lemma gen_call_unfold F k f args d ts :
  find_fn f (p_funcs parser_program) = Some F -> name_eqb f "parseExpression" = false ->
  GC (S k) f args d ts = interp_fn g o (GC k) LF F args d ts.
Proof. intros H1 H2. cbn [gen_call]. rewrite H2, H1. reflexivity. Qed.

Lemma gc_expression k p d ts : GC (S k) "parseExpression" [DInt p] d ts = lift_e d (pe p d ts).
Proof. cbn [gen_call]. change (name_eqb "parseExpression" "parseExpression") with true. cbn iota. apply Hpe'. Qed.

Ltac call F := rewrite (gen_call_unfold F) by reflexivity.

Lemma gc_arguments k d ts : GC (S (S k)) "parseArguments" [] d ts = lift_l d (parse_arguments pe LF d ts).
Proof. call gen_parseArguments. apply step_parseArguments. intros; apply gc_expression. Qed.

Lemma gc_closure k d ts : GC (S (S k)) "parseClosure" [] d ts = lift_e d (parse_closure pe d ts).
Proof. call gen_parseClosure. apply step_parseClosure. intros; apply gc_expression. Qed.

Lemma gc_array k tk d ts : GC (S (S k)) "parseArrayExpression" [DTok tk] d ts = lift_e d (parse_array pe LF tk d ts).
Proof. call gen_parseArrayExpression. apply step_parseArrayExpression. intros; apply gc_expression. Qed.

Lemma gc_map k tk d ts : GC (S (S k)) "parseMapExpression" [DTok tk] d ts = lift_e d (parse_map pe LF tk d ts).
Proof. call gen_parseMapExpression. apply step_parseMapExpression. intros; apply gc_expression. Qed.

Lemma gc_conditional k node d ts :
  GC (S (S k)) "parseConditionalExpression" [DNode (Some node)] d ts = lift_e d (cond_loop pe LF d node ts).
Proof. call gen_parseConditionalExpression. apply step_parseConditionalExpression. intros; apply gc_expression. Qed.

Lemma gc_postfix k node d ts :
  GC (S (S (S k))) "parsePostfixExpression" [DNode (Some node)] d ts = lift_e d (postfix_loop pe LF LF d false node ts).
Proof.
  call gen_parsePostfixExpression. apply step_parsePostfixExpression.
  - intros; apply gc_expression.
  - intros; apply gc_arguments.
Qed.

Lemma gc_identifier k tk d ts :
  GC (S (S (S k))) "parseIdentifierExpression" [DTok tk; DTok (cur ts)] d ts
  = lift_e d (parse_identifier_expression g pe LF tk d ts).
Proof.
  call gen_parseIdentifierExpression. apply step_parseIdentifierExpression.
  - intros; apply gc_expression.
  - intros; apply gc_arguments.
  - intros; apply gc_closure.
Qed.

Lemma gc_primary_expression k d ts :
  GC (S (S (S (S k)))) "parsePrimaryExpression" [] d ts = lift_e d (primary_expression_model g o pe LF d ts).
Proof.
  call gen_parsePrimaryExpression. apply step_parsePrimaryExpression.
  - intros; apply gc_identifier.
  - intros; apply gc_array.
  - intros; apply gc_map.
  - intros; apply gc_postfix.
Qed.

Lemma gc_primary k d ts :
  GC (S (S (S (S (S k))))) "parsePrimary" [] d ts = lift_e d (parse_primary g o pe LF d ts).
Proof.
  call gen_parsePrimary. apply step_parsePrimary.
  - intros; apply gc_expression.
  - intros; apply gc_postfix.
  - intros; apply gc_primary_expression.
Qed.

(* parseExpression with every other function regenerated, the nested parseExpression still the model's *)
Lemma gc_expression_body prec d ts :
  interp_fn g o (GC call_depth) LF gen_parseExpression [DInt prec] d ts = lift_e d (expression_body g o pe LF prec d ts).
Proof.
  apply step_parseExpression.
  - intros; apply gc_expression.
  - intros; apply (gc_primary 1).
  - intros; apply (gc_conditional 4).
Qed.
End Tie.

(* ------------------------------------------------------------------ by induction on the fuel *)
(* the parser obtained from the regenerated functions alone is the model parser: for every grammar table,
   oracle, fuel, precedence, closure depth and token list, the out-of-fuel outcome included *)
Theorem gen_parse_expr_is_parse_expr g o : forall n prec d ts,
  gen_parse_expr parser_program g o n prec d ts = lift_e d (parse_expr g o n prec d ts).
Proof.
  induction n as [|n IH]; intros prec d ts.
  - reflexivity.
  - cbn [gen_parse_expr parse_expr].
    change (find_fn "parseExpression" (p_funcs parser_program)) with (Some gen_parseExpression). cbn iota.
    apply gc_expression_body. exact IH.
Qed.

Lemma parse_pres_is_parse_with_fuel g o n ts :
  match lift_e 0%nat (parse_pres (parse_expr g o n) ts) with
  | IDone (DNode (Some e), _, _) => Some (ROk e)
  | IDone _ => None
  | IErr l => Some (RErr l)
  | IFuel => Some RFuel
  | IStuck => None
  end = Some (parse_with_fuel g o n ts).
Proof.
  unfold parse_pres, parse_with_fuel, is_kind. destruct ts as [|t r]; [reflexivity|].
  destruct (parse_expr g o n 0 0%nat (t :: r)) as [e rest|l|]; cbn [pbind lift_e]; try reflexivity.
  destruct (tok_is (cur rest) TkEOF []); reflexivity.
Qed.

Theorem gen_parse_with_fuel_is_parse_with_fuel g o n ts :
  gen_parse_with_fuel parser_program g o n ts = Some (parse_with_fuel g o n ts).
Proof.
  unfold gen_parse_with_fuel.
  change (find_fn "Parse" (p_funcs parser_program)) with (Some gen_Parse). cbn iota zeta.
  rewrite (step_Parse g o (parse_expr g o n) 0%nat).
  - apply parse_pres_is_parse_with_fuel.
  - intros p d ts1. change (name_eqb "parseExpression" "parseExpression") with true. cbn iota.
    apply gen_parse_expr_is_parse_expr.
Qed.

(* Parse on every token list *)
Theorem gen_parse_is_parse g o ts : gen_parse parser_program g o ts = Some (parse g o ts).
Proof. apply gen_parse_with_fuel_is_parse_with_fuel. Qed.

(* ------------------------------------------------------------------ the interpreter runs (non-vacuity) *)
(* not a.b[1:] ** 0x1_0 ? [1, "s"] : {k: all(x, {# > 0})}  - every parse function is entered *)
Require X.gen.GenGrammar.
Definition ex_tok (k : tkind) (v : string) : token := mkTok noloc k v.
Definition ex_tokens : list token :=
  [ex_tok TkOperator "not"; ex_tok TkIdentifier "a"; ex_tok TkOperator "."; ex_tok TkIdentifier "b";
   ex_tok TkBracket "["; ex_tok TkNumber "1"; ex_tok TkOperator ":"; ex_tok TkBracket "]";
   ex_tok TkOperator "**"; ex_tok TkNumber "0x1_0"; ex_tok TkOperator "?";
   ex_tok TkBracket "["; ex_tok TkNumber "1"; ex_tok TkOperator ","; ex_tok TkString "s"; ex_tok TkBracket "]";
   ex_tok TkOperator ":";
   ex_tok TkBracket "{"; ex_tok TkIdentifier "k"; ex_tok TkOperator ":";
   ex_tok TkIdentifier "all"; ex_tok TkBracket "("; ex_tok TkIdentifier "x"; ex_tok TkOperator ",";
   ex_tok TkBracket "{"; ex_tok TkOperator "#"; ex_tok TkOperator ">"; ex_tok TkNumber "0"; ex_tok TkBracket "}";
   ex_tok TkBracket ")"; ex_tok TkBracket "}"; ex_tok TkEOF ""].
Definition ex_grammar : grammar :=
  mkGrammar X.gen.GenGrammar.gen_unary X.gen.GenGrammar.gen_binary X.gen.GenGrammar.gen_builtins.
Definition ex_oracles : oracles := mkOracles (fun _ => None) (fun _ => true).

Example gen_parse_runs :
  gen_parse parser_program ex_grammar ex_oracles ex_tokens =
  Some (ROk (ECond ann0
    (EUnary (at_loc noloc) UNotWord
       (EBinary (at_loc noloc) BPow
          (ESlice (at_loc noloc) (EProperty (at_loc noloc) (EIdent (at_loc noloc) "a" false) "b" false)
                  (Some (EInt (at_loc noloc) 1)) None)
          (EInt (at_loc noloc) 16)))
    (EArray (at_loc noloc) [EInt (at_loc noloc) 1; EStr (at_loc noloc) "s"])
    (EMap (at_loc noloc)
       [EPair (at_loc noloc) (EStr (at_loc noloc) "k")
          (EBuiltin (at_loc noloc) BiAll
             [EIdent (at_loc noloc) "x" false;
              EClosure (at_loc noloc) (EBinary (at_loc noloc) BGt (EPointer (at_loc noloc)) (EInt (at_loc noloc) 0))])]))).
Proof. vm_compute. reflexivity. Qed.

(* Bridge/BrSchemesMatches.v — the MatchesNode method of compiler/compiler.go, as regenerated into
   gen/GenSchemes.v, IS the model compiler's rule for EMatches (BC/Compiler.v through Ast.re_const).

   Kept in a file of its own because two properties stand on it: C01/C05 (the model compiler is the
   source, Bridge/BrSchemes.v uses it for the matches case) and C10 (a visitor's replacement of the
   pattern operand takes effect in what is compiled: Props/C10.v).

   The regenerated guard is
       x, ok := node.Right.( *ast.StringNode); ok && node.Regexp != nil && node.Regexp.String() == x.Value
   = CAnd (CAnd (CIsNode Right StringNode) (CNot (CNil Regexp))) (CStrEq (XReSource Regexp) (XAsField Right StringNode Value)),
   evaluated left to right with Go's short-circuit (a nil Regexp is never dereferenced, a failed
   assertion never read).  The OLD guard `node.Regexp != nil` does not satisfy this lemma: with a
   stale field and a replaced right operand it emits OpMatchesConst where the model compiles the
   operand. *)
From Coq Require Import ZArith Bool List String Arith Lia.
Require Import X.Base.Num X.Base.Value X.Syn.Ast X.Sem.Prim X.Sem.Sem X.Sem.MatchesFacts X.BC.Instr X.BC.Decode X.BC.Compiler
               X.BC.Schemes X.BC.SchemesProofs X.gen.GenSchemes.
Import ListNotations.
Local Open Scope nat_scope.
Local Open Scope string_scope.
Local Open Scope list_scope.

Arguments wrap : simpl never.
Arguments fround : simpl never.
Arguments f_of_Z : simpl never.
Arguments compile_node : simpl never.

Local Ltac fin := rewrite ?app_nil_r; try reflexivity;
            repeat (progress (cbn [csize isize]; rewrite ?csize_app));
            repeat (f_equal; try lia).

Section Step.
Variable rec : expr -> option code.
Variable mapenv : bool.
Notation comp := (compile mapenv).
Notation I := (interp_code schemes rec mapenv).
Local Ltac go := unfold interp_code, interp; cbn.

Lemma matches_scheme_is_model a re l r :
  rec l = Some (comp l) -> (re_const re r = None -> rec r = Some (comp r)) ->
  I (EMatches a re l r) = Some (comp (EMatches a re l r)).
Proof.
  intros Hl Hr. destruct (re_const re r) as [p|] eqn:Erc.
  - (* the right operand still is the literal the Regexp field was compiled from *)
    apply re_const_some in Erc. destruct Erc as [-> [b ->]].
    go. rewrite String.eqb_refl. cbn. rewrite Hl. cbn. fin.
  - (* no field, another literal, or not a literal: the right operand is compiled *)
    specialize (Hr eq_refl).
    destruct re as [p|], r; cbn [re_const] in Erc;
      try (destruct (String.eqb p s) eqn:E; [discriminate Erc|]);
      go; rewrite ?E; cbn; rewrite Hl; cbn; rewrite Hr; cbn; fin.
Qed.

(* the instance C10 is about: a stale field and a replaced right operand - the regenerated method
   compiles the replacement *)
Lemma matches_scheme_compiles_replacement a p l r' :
  re_const (Some p) r' = None ->
  rec l = Some (comp l) -> rec r' = Some (comp r') ->
  I (EMatches a (Some p) l r') = Some (comp l ++ comp r' ++ at_ (aloc a) [IMatches]).
Proof.
  intros H Hl Hr. rewrite matches_scheme_is_model; [|exact Hl|intros _; exact Hr].
  cbn [compile loc_of ann_of]. rewrite H. reflexivity.
Qed.

End Step.

(* non-vacuity: run on the witness of the repaired finding ("abc" matches "^a", literal replaced by "^z") *)
Lemma matches_scheme_example :
  interp_code schemes (fun e => Some (compile false e)) false
    (EMatches ann0 (Some "^a") (EStr ann0 "abc") (EStr ann0 "^z"))
  = Some [(IPush (VStr "abc"), noloc); (IPush (VStr "^z"), noloc); (IMatches, noloc)].
Proof. vm_compute. reflexivity. Qed.

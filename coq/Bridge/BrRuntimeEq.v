(* Bridge/BrRuntimeEq.v — `equalSequences` of /repo/vm/runtime.go (regenerated: gen/GenRuntime.v `rt_equalSequences`)
   and, through it, the whole of `equal` of the generated /repo/vm/helpers.go, against the model (Sem/Prim.v:
   `equal_v`, `p_equal`; what Sem.eval and the model VM use for `==`, `!=`, `in`).

   `equal` is: a type switch over the kind pairs (REGENERATED: gen/GenHelpers.v `helper_case HEqual`,
   `helper_string_case HEqual`), then - `helper_fallthrough HEqual = FTNilSeqDeepEqual`, REGENERATED too -
   `isNil(a) && isNil(b)` (isNil: runtime.go, regenerated), then `equalSequences(a, b)` (runtime.go, regenerated,
   read statement by statement since this file exists), then reflect.DeepEqual (hand-written: Prim.deep_equal).
   equalSequences calls `equal` again on the elements: the DSL's primitive RpEqual, whose meaning is the parameter
   `eqp` of the interpreter (Sem/PrimRules.v).

   1. `equal_sequences_bridge` (any eqp): running the regenerated statements gives `eqseq_spec eqp` - the kind tests,
      the length test, the index loop with `eqp` on each pair asserted to be a bool, the two results.  Induction over
      the element lists (loop invariant: the elements before i were equal).
   2. `equal_unfolds_to_source` (eqp := p_equal): the model's `equal` is one turn of the source's `equal`
      (`equal_step`: table, isNil twice, equalSequences, DeepEqual - in the regenerated order) whose recursive
      calls answer as the model.
   3. `equal_is_source`: the recursion closed.  `equal_src n` = n nested turns of `equal_step` (the innermost
      answers "out of depth"): for every a of size < n (NoMachine-style `vsize`: nesting of sequences) it IS
      p_equal.  Induction on n, i.e. on the size of the LEFT value (the rank argument: equalSequences calls `equal`
      only on elements of a), not on fuel of the interpreter; the loop fuel F only has to exceed the lengths.

   Side conditions (decidable; `eq_frag`): at every nesting level of sequences a value of a declared type is a
   declared basic type (`named_ok`: reflect sees a declared slice type as a slice, Prim.equal_v does not - refuted
   without it, `equal_sequences_full_statement_refuted`, a model gap, the CODE is right), and a sequence is shorter
   than the loop fuel F, F itself a Go int. *)
From Coq Require Import ZArith Bool String List Lia Floats.
Require Import X.Base.Num X.Base.Value X.gen.GenHelpers X.Sem.Prim X.Sem.PrimRules X.Sem.PrimRulesProofs
               X.gen.GenRuntime X.Bridge.BrRuntime.
Import ListNotations.
Local Open Scope string_scope.
Local Open Scope list_scope.
Open Scope Z_scope.

(* ================================================================== the specification of equalSequences *)
Section Spec.
Variable eqp : value -> value -> outcome value.

(* the loop over two element lists of one length: `equal` on each pair, asserted to be a bool *)
Fixpoint eqseq_loop (l1 l2 : list value) {struct l1} : outcome bool :=
  match l1, l2 with
  | x :: r1, y :: r2 =>
    match eqp x y with
    | Ok (VBool true) => eqseq_loop r1 r2
    | Ok (VBool false) => Ok false
    | Ok _ => Fail EIfaceConv
    | Fail e => Fail e
    end
  | _, _ => Ok true
  end.

Definition eqseq_spec (a b : value) : gres (list gval) :=
  match seq_items a with
  | Some l1 =>
    match seq_items b with
    | Some l2 =>
      if Nat.eqb (List.length l1) (List.length l2)
      then of_outcome (eqseq_loop l1 l2) (fun r => [GBool r; GBool true])
      else GOk [GBool false; GBool true]
    | None => GOk [GBool false; GBool false]
    end
  | None => GOk [GBool false; GBool false]
  end.
End Spec.

Lemma eqseq_loop_ext : forall f g l1 l2,
  (forall x y, In x l1 -> In y l2 -> f x y = g x y) -> eqseq_loop f l1 l2 = eqseq_loop g l1 l2.
Proof.
  intros f g. induction l1 as [|x r1 IH]; intros l2 H; [reflexivity|].
  destruct l2 as [|y r2]; [reflexivity|]. cbn [eqseq_loop].
  rewrite (H x y) by (left; reflexivity).
  rewrite (IH r2) by (intros; apply H; right; assumption). reflexivity.
Qed.

(* ================================================================== the regenerated statements *)
Ltac enter_eq :=
  unfold prun_fn;
  lazy [pf_params pf_locals pf_body pf_results gcoerce_all gcoerce genv_of gblanks rt_equalSequences].

Definition eqloop_ok (o : outcome bool) (r : gres (pctl * genv)) : Prop :=
  match o with
  | Ok true => exists en', r = GOk (PNormal, en')
  | Ok false => exists en', r = GOk (PReturned [GBool false; GBool true], en')
  | Fail e => r = GFail e
  end.

Lemma of_nat_eqb : forall n m, (Z.of_nat n =? Z.of_nat m) = Nat.eqb n m.
Proof.
  intros n m. destruct (Nat.eqb n m) eqn:E.
  - apply Nat.eqb_eq in E. subst. apply Z.eqb_refl.
  - apply Nat.eqb_neq in E. apply Z.eqb_neq. lia.
Qed.

Section StageEq.
Variable fe : fenv.
Variable nm : value -> Z.
Variable eqp : value -> value -> outcome value.
Variable call : string -> list gval -> gres (list gval).
Variable F : nat.

Notation run := (prun_fn fe nm eqp call F).

(* fuel for the one evaluation of the loop condition that an empty sequence needs *)
Definition eq_fuel_ok (a : value) : Prop :=
  match a with VArr _ l => (List.length l < F)%nat | VNilArr _ => (0 < F)%nat | _ => True end.

(* a is not a sequence: the first operand of `||` decides *)
Ltac not_seq_a := repeat step; reflexivity.

(* two sequences of one length, a non-empty: the loop *)
Lemma equal_sequences_bridge_loop : forall e l1 e' l2,
  len_ok (VArr e l1) -> (List.length l1 < F)%nat -> List.length l1 = List.length l2 ->
  run rt_equalSequences [GI (VArr e l1); GI (VArr e' l2)] =
  of_outcome (eqseq_loop eqp l1 l2) (fun r => [GBool r; GBool true]).
Proof.
  intros e l1 e' l2 Hl HF Hlen. enter_eq. repeat step.
  rewrite of_nat_eqb, Hlen, Nat.eqb_refl. evx. repeat step. change (wrap KInt 0) with 0.
  match goal with
  | |- context [pfor_loop F ?C ?P ?B _] =>
    assert (L : forall fuel rest1 rest2 done1 done2 x5 x6,
              l1 = done1 ++ rest1 -> l2 = done2 ++ rest2 ->
              List.length done1 = List.length done2 -> List.length rest1 = List.length rest2 ->
              (List.length rest1 < fuel)%nat ->
              eqloop_ok (eqseq_loop eqp rest1 rest2)
                (pfor_loop fuel C P B
                   [GI (VArr e l1); GI (VArr e' l2); GRv (RVal false (VArr e l1)); GRv (RVal false (VArr e' l2));
                    GNum (NInt KInt (Z.of_nat (List.length done1))); x5; x6]))
  end.
  { induction fuel as [|fuel IH]; intros rest1 rest2 done1 done2 x5 x6 E1 E2 Hd Hr Hf; [inversion Hf|].
    rewrite pfor_loop_S, pcond_sem_some. evx.
    replace (Z.of_nat (List.length l1)) with (Z.of_nat (List.length done1 + List.length rest1))
      by (rewrite E1, app_length; reflexivity).
    destruct rest1 as [|x rest1]; destruct rest2 as [|y rest2]; try discriminate Hr.
    - cbn [List.length]. rewrite Nat.add_0_r. rewrite Z.ltb_irrefl. evx.
      cbn [eqseq_loop eqloop_ok]. eexists. reflexivity.
    - replace (Z.of_nat (List.length done1) <? Z.of_nat (List.length done1 + List.length (x :: rest1))) with true
        by (symmetry; apply Z.ltb_lt; cbn [List.length]; lia).
      evx. step.
      replace (index_list l1 (Z.of_nat (List.length done1))) with (@Ok value x)
        by (rewrite E1; symmetry; apply index_list_mid).
      replace (index_list l2 (Z.of_nat (List.length done1))) with (@Ok value y)
        by (rewrite E2, Hd; symmetry; apply index_list_mid).
      evx. repeat step.
      cbn [eqseq_loop].
      destruct (eqp x y) as [r|er]; evx; [|reflexivity].
      destruct r; evx; try reflexivity.
      destruct b; evx.
      + repeat step.
        rewrite wrap_int_id.
        2:{ cbn [len_ok] in Hl. rewrite E1, app_length in Hl. cbn [List.length] in Hl.
            unfold in_int, min_int, max_int in *. lia. }
        replace (Z.of_nat (List.length done1) + 1) with (Z.of_nat (List.length (done1 ++ [x])))
          by (rewrite app_length; cbn [List.length]; lia).
        apply (IH rest1 rest2 (done1 ++ [x]) (done2 ++ [y])).
        * rewrite app_cons_assoc. exact E1.
        * rewrite app_cons_assoc. exact E2.
        * rewrite !app_length. cbn [List.length]. lia.
        * cbn [List.length] in Hr. lia.
        * cbn [List.length] in Hf. lia.
      + repeat step. cbn [eqloop_ok]. eexists. reflexivity. }
  specialize (L F l1 l2 [] [] GNone GNone eq_refl eq_refl eq_refl Hlen HF).
  cbn [List.length] in L. change (Z.of_nat 0) with 0 in L.
  unfold eqloop_ok in L. destruct (eqseq_loop eqp l1 l2) as [[|]|er].
  - destruct L as (en' & ->). evx. repeat step. reflexivity.
  - destruct L as (en' & ->). evx. reflexivity.
  - rewrite L. evx. reflexivity.
Qed.

(* lengths of literal lists, comparisons of small constants *)
Ltac lens :=
  cbn [List.length Z.of_nat Z.eqb]; try change (wrap KInt 0) with 0; try change (0 <? 0) with false.

(* the statements up to a test on lengths, the test, the rest *)
Ltac straight := enter_eq; repeat step; lens; evx; repeat step; lens; try reflexivity.

(* a sequence without elements on either side (an empty or a nil slice): the loop ends at once *)
Ltac empty_loop HF :=
  straight; destruct F as [|F']; [inversion HF|];
  rewrite pfor_loop_S, pcond_sem_some; evx; lens; evx; repeat step; reflexivity.

Lemma equal_sequences_bridge : forall a b,
  named_ok a = true -> named_ok b = true -> len_ok a -> eq_fuel_ok a ->
  run rt_equalSequences [GI a; GI b] = eqseq_spec eqp a b.
Proof.
  intros a b Ha Hb Hl HF. unfold eqseq_spec.
  destruct a; cbn [seq_items].
  - enter_eq. not_seq_a.
  - enter_eq. not_seq_a.
  - enter_eq. not_seq_a.
  - enter_eq. not_seq_a.
  - (* VArr *)
    destruct b; cbn [seq_items];
      try (enter_eq; repeat step; reflexivity).
    + (* VArr, VArr *)
      destruct (Nat.eqb (List.length l) (List.length l0)) eqn:E.
      * apply Nat.eqb_eq in E. apply equal_sequences_bridge_loop; assumption.
      * enter_eq. repeat step. rewrite of_nat_eqb, E. evx. repeat step. reflexivity.
    + (* VArr, VNilArr *)
      destruct l as [|x l]; cbn [List.length Nat.eqb eqseq_loop of_outcome].
      * cbn [eq_fuel_ok List.length] in HF. empty_loop HF.
      * straight.
    + (* VArr, VStruct *) destruct ptr; enter_eq; repeat step; reflexivity.
    + (* VArr, VNamed *) destruct b; try discriminate Hb; enter_eq; repeat step; reflexivity.
  - (* VNilArr *)
    destruct b; cbn [seq_items];
      try (enter_eq; repeat step; reflexivity).
    + (* VNilArr, VArr *)
      destruct l as [|y l]; cbn [List.length Nat.eqb eqseq_loop of_outcome].
      * cbn [eq_fuel_ok] in HF. empty_loop HF.
      * straight.
    + (* VNilArr, VNilArr *) cbn [List.length Nat.eqb eqseq_loop of_outcome]. cbn [eq_fuel_ok] in HF. empty_loop HF.
    + destruct ptr; enter_eq; repeat step; reflexivity.
    + destruct b; try discriminate Hb; enter_eq; repeat step; reflexivity.
  - enter_eq. not_seq_a.
  - destruct ptr; enter_eq; not_seq_a.
  - enter_eq. not_seq_a.
  - enter_eq. not_seq_a.
  - enter_eq. not_seq_a.
  - destruct a; try discriminate Ha; enter_eq; not_seq_a.
  - enter_eq. not_seq_a.
Qed.
End StageEq.

(* ================================================================== the table: equalSequences and isNil by name *)
Section KnotEq.
Variable fe : fenv.
Variable nm : value -> Z.
Variable eqp : value -> value -> outcome value.
Variable F : nat.

Notation sem := (psem_of fe nm eqp F runtime_funs).

Lemma equal_sequences_is_model : forall d a b,
  named_ok a = true -> named_ok b = true -> len_ok a -> eq_fuel_ok F a ->
  sem (S d) "equalSequences" [GI a; GI b] = eqseq_spec eqp a b.
Proof.
  intros d a b H1 H2 H3 H4.
  rewrite (psem_of_S fe nm eqp F runtime_funs _ _ _ rt_equalSequences) by reflexivity.
  apply equal_sequences_bridge; assumption.
Qed.

(* isNil does not call `equal`: whatever eqp is, it is the model's is_nil *)
Lemma isNil_any_eqp : forall d v, named_ok v = true -> sem (S d) "isNil" [GI v] = GOk [GBool (is_nil v)].
Proof.
  intros d v H.
  rewrite (psem_of_S fe nm eqp F runtime_funs _ _ _ rt_isNil) by reflexivity.
  unfold is_nil. enter.
  destruct v; try (repeat step; reflexivity).
  - destruct ptr; repeat step; reflexivity.
  - destruct v; try discriminate H; repeat step; reflexivity.
Qed.
End KnotEq.

(* ================================================================== `equal`: the regenerated table and order *)
(* what GenHelpers.v says about `equal` today: every kind pair has a case and it compares with ==, two strings
   are compared with ==, and what follows the switch is isNil-both, equalSequences, DeepEqual *)
Lemma equal_case_is_eq : forall kx ky, exists cx cy, helper_case HEqual kx ky = Some (cx, cy, OEq).
Proof. intros kx ky. destruct kx; destruct ky; vm_compute; eexists; eexists; reflexivity. Qed.

Lemma equal_string_case_is_eq : helper_string_case HEqual = Some OEq.
Proof. reflexivity. Qed.

Lemma equal_fallthrough_is : helper_fallthrough HEqual = FTNilSeqDeepEqual.
Proof. reflexivity. Qed.

Definition lift_b (o : outcome bool) : outcome value :=
  match o with Ok r => Ok (VBool r) | Fail e => Fail e end.

Lemma go_op_eq_not_num : forall x y n, go_op OEq x y <> NRNum n.
Proof.
  intros x y n. destruct x as [k a|k a]; destruct y as [k' b|k' b]; cbn [go_op]; try discriminate;
    destruct (negb (kind_eqb k k')); discriminate.
Qed.

Lemma helper_num_equal : forall x y,
  exists r, helper_num helper_case HEqual x y = Some r /\ (forall n, r <> NRNum n).
Proof.
  intros x y. unfold helper_num.
  destruct (equal_case_is_eq (num_kind x) (num_kind y)) as (cx & cy & ->).
  destruct (conv_opt cx x) as [x'|]; [destruct (conv_opt cy y) as [y'|]|].
  - eexists. split; [reflexivity|]. intro n. apply go_op_eq_not_num.
  - eexists. split; [reflexivity|]. discriminate.
  - eexists. split; [reflexivity|]. discriminate.
Qed.

(* p_equal, the primitive of the semantics, is equal_v with the result boxed *)
Lemma p_equal_equal_v : forall a b, p_equal a b = lift_b (equal_v a b).
Proof.
  intros a b. unfold p_equal, p_helper. rewrite equal_fallthrough_is. cbv zeta.
  destruct a; try reflexivity.
  - (* VNum *) destruct b; try reflexivity.
    cbn [equal_v]. destruct (helper_num_equal n n0) as (r & -> & Hr).
    destruct r; try reflexivity. exfalso. exact (Hr _ eq_refl).
  - (* VStr: `helper_string_case HEqual` computes *) destruct b; reflexivity.
Qed.

(* the model's own loop over the elements (the local fixpoint of Prim.equal_v) *)
Fixpoint seq_eq_v (l1 l2 : list value) {struct l1} : outcome bool :=
  match l1, l2 with
  | [], [] => Ok true
  | x :: r1, y :: r2 =>
      match equal_v x y with
      | Ok true => seq_eq_v r1 r2
      | other => other
      end
  | _, _ => Ok false
  end.

Lemma equal_v_arr : forall t l1 b,
  equal_v (VArr t l1) b =
  match seq_items b with
  | Some l2 => if Nat.eqb (List.length l1) (List.length l2) then seq_eq_v l1 l2 else Ok false
  | None => Ok (deep_equal (VArr t l1) b)
  end.
Proof. reflexivity. Qed.

Lemma eqseq_loop_model : forall l1 l2, List.length l1 = List.length l2 ->
  eqseq_loop p_equal l1 l2 = seq_eq_v l1 l2.
Proof.
  induction l1 as [|x r1 IH]; intros l2 H; destruct l2 as [|y r2]; try discriminate H; [reflexivity|].
  cbn [eqseq_loop seq_eq_v]. rewrite p_equal_equal_v.
  destruct (equal_v x y) as [[|]|e]; cbn [lift_b]; try reflexivity.
  apply IH. cbn [List.length] in H. lia.
Qed.

(* ================================================================== one turn of the source's `equal` *)
Definition src_bool (r : gres (list gval)) : outcome bool :=
  match r with GOk [GBool b] => Ok b | GFail e => Fail e | _ => Fail EMachine end.

Section Source.
Variable fe : fenv.
Variable nm : value -> Z.
Variable F : nat.       (* loop fuel of the interpreter *)
Variable d : nat.       (* call depth of the interpreter below the first call (none of the two functions needs any) *)

(* `equal(a, b)` of vm/helpers.go, every part regenerated or (DeepEqual) a hand-written primitive; eqp answers the
   calls of `equal` inside equalSequences *)
Definition equal_step (eqp : value -> value -> outcome value) (a b : value) : outcome value :=
  let run := pinterp fe nm eqp F (S d) runtime_funs in
  let fall :=
    match helper_fallthrough HEqual with
    | FTNilSeqDeepEqual =>
      (* if isNil(a) && isNil(b) { return true } *)
      match src_bool (run "isNil" [GI a]) with
      | Fail e => Fail e
      | Ok na =>
        match (if na then src_bool (run "isNil" [GI b]) else Ok false) with
        | Fail e => Fail e
        | Ok true => Ok (VBool true)
        | Ok false =>
          (* if eq, ok := equalSequences(a, b); ok { return eq }; return reflect.DeepEqual(a, b) *)
          match run "equalSequences" [GI a; GI b] with
          | GOk [GBool eq; GBool true] => Ok (VBool eq)
          | GOk [GBool _; GBool false] => Ok (VBool (deep_equal a b))
          | GFail e => Fail e
          | _ => Fail EMachine
          end
        end
      end
    | _ => Fail EMachine   (* another order after the switch: not what this file bridges *)
    end in
  match a, b with
  | VNum x, VNum y => match helper_num helper_case HEqual x y with Some r => of_nres r | None => fall end
  | VStr x, VStr y =>
    match helper_string_case HEqual with
    | Some OEq => Ok (VBool (String.eqb x y))
    | _ => fall
    end
  | _, _ => fall
  end.

(* n nested calls *)
Fixpoint equal_src (n : nat) : value -> value -> outcome value :=
  match n with
  | O => fun _ _ => Fail EMachine
  | S n' => equal_step (equal_src n')
  end.

(* what follows the switch, with the three regenerated functions answered by their lemmas *)
Lemma equal_fall_model : forall eqp a b,
  named_ok a = true -> named_ok b = true -> len_ok a -> eq_fuel_ok F a ->
  (forall x y, In x (match seq_items a with Some l => l | None => [] end) ->
               In y (match seq_items b with Some l => l | None => [] end) -> eqp x y = p_equal x y) ->
  match a, b with VNum _, VNum _ | VStr _, VStr _ => True | _, _ => equal_step eqp a b = lift_b (equal_v a b) end.
Proof.
  intros eqp a b Ha Hb Hl HF Hext.
  assert (G : equal_step eqp a b =
              match a, b with
              | VNum x, VNum y => equal_step eqp a b
              | VStr x, VStr y => equal_step eqp a b
              | _, _ =>
                if is_nil a && is_nil b then Ok (VBool true) else
                match eqseq_spec p_equal a b with
                | GOk [GBool eq; GBool true] => Ok (VBool eq)
                | GOk [GBool _; GBool false] => Ok (VBool (deep_equal a b))
                | GFail e => Fail e
                | _ => Fail EMachine
                end
              end).
  { assert (S : eqseq_spec eqp a b = eqseq_spec p_equal a b).
    { unfold eqseq_spec. destruct (seq_items a) as [l1|]; [|reflexivity].
      destruct (seq_items b) as [l2|]; [|reflexivity].
      rewrite (eqseq_loop_ext eqp p_equal l1 l2 Hext). reflexivity. }
    unfold equal_step, pinterp. rewrite equal_fallthrough_is. cbv zeta.
    rewrite (isNil_any_eqp fe nm eqp F d a Ha), (isNil_any_eqp fe nm eqp F d b Hb).
    rewrite (equal_sequences_is_model fe nm eqp F d a b Ha Hb Hl HF), S.
    cbn [src_bool].
    destruct a; destruct b; try reflexivity;
      cbn [is_nil andb]; reflexivity. }
  destruct a; destruct b; try exact I; rewrite G; clear G Hext;
    try rewrite equal_v_arr; cbn [is_nil andb eqseq_spec seq_items]; try reflexivity.
  - (* VArr, VArr *)
    destruct (Nat.eqb (List.length l) (List.length l0)) eqn:E; [|reflexivity].
    apply Nat.eqb_eq in E. rewrite (eqseq_loop_model l l0 E).
    destruct (seq_eq_v l l0) as [r|e]; reflexivity.
  - (* VArr, VNilArr *)
    destruct l as [|x l]; reflexivity.
  - (* VNilArr, VArr *)
    destruct l as [|y l]; reflexivity.
Qed.

(* one turn of the source's `equal` whose recursive calls answer as the model on the elements: the model *)
Lemma equal_step_model : forall eqp a b,
  named_ok a = true -> named_ok b = true -> len_ok a -> eq_fuel_ok F a ->
  (forall x y, In x (match seq_items a with Some l => l | None => [] end) ->
               In y (match seq_items b with Some l => l | None => [] end) -> eqp x y = p_equal x y) ->
  equal_step eqp a b = p_equal a b.
Proof.
  intros eqp a b Ha Hb Hl HF Hext.
  pose proof (equal_fall_model eqp a b Ha Hb Hl HF Hext) as G.
  rewrite p_equal_equal_v.
  destruct a; destruct b; try exact G.
  - (* VNum, VNum *) rewrite <- p_equal_equal_v. unfold p_equal, p_helper, equal_step. cbv zeta.
    destruct (helper_num_equal n n0) as (r & -> & _). reflexivity.
  - (* VStr, VStr *) rewrite <- p_equal_equal_v. unfold p_equal, p_helper, equal_step. cbv zeta.
    rewrite equal_string_case_is_eq. reflexivity.
Qed.

(* 2. the model's `equal` is one turn of the source's `equal` over itself *)
Theorem equal_unfolds_to_source : forall a b,
  named_ok a = true -> named_ok b = true -> len_ok a -> eq_fuel_ok F a ->
  p_equal a b = equal_step p_equal a b.
Proof.
  intros a b Ha Hb Hl HF. symmetry.
  apply equal_step_model; try assumption. reflexivity.
Qed.
End Source.

(* ================================================================== 3. the recursion closed *)
(* the size of a value: nesting of sequences (equalSequences recurses into the elements of a) *)
Fixpoint vsize (v : value) : nat :=
  match v with
  | VArr _ l => S ((fix ls (l : list value) : nat :=
                      match l with [] => O | x :: r => (vsize x + ls r)%nat end) l)
  | _ => 1%nat
  end.
Fixpoint vlsize (l : list value) : nat :=
  match l with [] => O | x :: r => (vsize x + vlsize r)%nat end.
Lemma vsize_arr : forall t l, vsize (VArr t l) = S (vlsize l).
Proof. reflexivity. Qed.
Lemma vsize_in : forall l x, In x l -> (vsize x <= vlsize l)%nat.
Proof.
  induction l as [|y r IH]; intros x H; [destruct H|].
  cbn [vlsize]. destruct H as [->|H]; [lia|]. specialize (IH x H). lia.
Qed.

(* the fragment: at every nesting level of sequences, declared types are declared basic types and a sequence is
   shorter than F *)
Fixpoint eq_frag (F : nat) (v : value) : bool :=
  named_ok v &&
  match v with
  | VArr _ l =>
    Nat.ltb (List.length l) F &&
    (fix all (l : list value) : bool := match l with [] => true | x :: r => eq_frag F x && all r end) l
  | _ => true
  end.
Fixpoint eq_frag_list (F : nat) (l : list value) : bool :=
  match l with [] => true | x :: r => eq_frag F x && eq_frag_list F r end.
Lemma eq_frag_arr : forall F t l, eq_frag F (VArr t l) = Nat.ltb (List.length l) F && eq_frag_list F l.
Proof.
  intros F t l. cbn [eq_frag named_ok andb]. f_equal.
  induction l as [|x r IH]; [reflexivity|]. cbn [eq_frag_list]. rewrite <- IH. reflexivity.
Qed.
Lemma eq_frag_named : forall F v, eq_frag F v = true -> named_ok v = true.
Proof.
  intros F v H. destruct v; try reflexivity.
  cbn [eq_frag] in H. apply andb_true_iff in H. apply H.
Qed.
Lemma eq_frag_in : forall F l x, eq_frag_list F l = true -> In x l -> eq_frag F x = true.
Proof.
  induction l as [|y r IH]; intros x H Hin; [destruct Hin|].
  cbn [eq_frag_list] in H. apply andb_true_iff in H. destruct H as [H1 H2].
  destruct Hin as [->|Hin]; [exact H1|apply IH; assumption].
Qed.
Lemma eq_frag_items : forall F v l x, eq_frag F v = true -> seq_items v = Some l -> In x l -> eq_frag F x = true.
Proof.
  intros F v l x H E Hin. destruct v; try discriminate E; cbn [seq_items] in E; injection E as <-.
  - rewrite eq_frag_arr in H. apply andb_true_iff in H. destruct H as [_ H]. exact (eq_frag_in F _ x H Hin).
  - destruct Hin.
Qed.

Section Closed.
Variable fe : fenv.
Variable nm : value -> Z.
Variable F : nat.
Variable d : nat.
Hypothesis F_pos : (0 < F)%nat.
Hypothesis F_int : Z.of_nat F <= max_int.

Lemma eq_frag_len_ok : forall v, eq_frag F v = true -> len_ok v /\ eq_fuel_ok F v.
Proof.
  intros v H. destruct v; cbn [len_ok eq_fuel_ok]; try (split; [exact I|]; try exact I; exact F_pos).
  rewrite eq_frag_arr in H. apply andb_true_iff in H. destruct H as [H _]. apply Nat.ltb_lt in H.
  split; [lia|exact H].
Qed.

(* induction on n, i.e. on the size of the left value *)
Theorem equal_is_source : forall n a b,
  (vsize a < n)%nat -> eq_frag F a = true -> eq_frag F b = true ->
  equal_src fe nm F d n a b = p_equal a b.
Proof.
  induction n as [|n IH]; intros a b Hs Ha Hb; [lia|].
  cbn [equal_src].
  destruct (eq_frag_len_ok a Ha) as [Hl HF].
  apply equal_step_model; try assumption; try (eapply eq_frag_named; eassumption).
  intros x y Hx Hy.
  destruct (seq_items a) as [l1|] eqn:E1; [|destruct Hx].
  destruct (seq_items b) as [l2|] eqn:E2; [|destruct Hy].
  apply IH.
  - destruct a; try discriminate E1; cbn [seq_items] in E1; injection E1 as <-; [|destruct Hx].
    rewrite vsize_arr in Hs. pose proof (vsize_in _ _ Hx). lia.
  - exact (eq_frag_items F a l1 x Ha E1 Hx).
  - exact (eq_frag_items F b l2 y Hb E2 Hy).
Qed.
End Closed.

(* ================================================================== the statements (restated in Props/C01.v) *)
(* the model's sequence equality: the pieces of Prim.equal_v (`seq_eq_v` is its local loop: equal_v_arr) *)
Definition equal_sequences_model (a b : value) : gres (list gval) :=
  match seq_items a with
  | Some l1 =>
    match seq_items b with
    | Some l2 =>
      if Nat.eqb (List.length l1) (List.length l2)
      then of_outcome (seq_eq_v l1 l2) (fun r => [GBool r; GBool true])
      else GOk [GBool false; GBool true]
    | None => GOk [GBool false; GBool false]
    end
  | None => GOk [GBool false; GBool false]
  end.

Lemma eqseq_spec_model : forall a b, eqseq_spec p_equal a b = equal_sequences_model a b.
Proof.
  intros a b. unfold eqseq_spec, equal_sequences_model.
  destruct (seq_items a) as [l1|]; [|reflexivity]. destruct (seq_items b) as [l2|]; [|reflexivity].
  destruct (Nat.eqb (List.length l1) (List.length l2)) eqn:E; [|reflexivity].
  apply Nat.eqb_eq in E. rewrite (eqseq_loop_model l1 l2 E). reflexivity.
Qed.

Definition equal_sequences_is_source_statement : Prop :=
  forall (fe : fenv) (nm : value -> Z) (F d : nat) (a b : value),
    named_ok a = true -> named_ok b = true -> len_ok a -> eq_fuel_ok F a ->
       (* whatever `equal` answers on the elements *)
       (forall eqp, pinterp fe nm eqp F (S d) runtime_funs "equalSequences" [GI a; GI b] = eqseq_spec eqp a b)
       (* with the model's `equal` on the elements: the model's sequence equality *)
    /\ pinterp fe nm p_equal F (S d) runtime_funs "equalSequences" [GI a; GI b] = equal_sequences_model a b
       (* and the model's `equal` is one turn of the source's `equal` over itself *)
    /\ p_equal a b = equal_step fe nm F d p_equal a b.

Theorem equal_sequences_is_source : equal_sequences_is_source_statement.
Proof.
  intros fe nm F d a b Ha Hb Hl HF. split; [|split].
  - intro eqp. apply equal_sequences_is_model; assumption.
  - unfold pinterp. rewrite equal_sequences_is_model by assumption. apply eqseq_spec_model.
  - apply equal_unfolds_to_source; assumption.
Qed.

Definition equal_is_source_statement : Prop :=
  forall (fe : fenv) (nm : value -> Z) (F d n : nat) (a b : value),
    (0 < F)%nat -> Z.of_nat F <= max_int ->
    (vsize a < n)%nat -> eq_frag F a = true -> eq_frag F b = true ->
    equal_src fe nm F d n a b = p_equal a b.

Theorem equal_is_source_closed : equal_is_source_statement.
Proof. intros fe nm F d n a b H1 H2 H3 H4 H5. apply equal_is_source; assumption. Qed.

(* ================================================================== where the side condition bites *)
(* reflect sees a value of a DECLARED slice type as a slice: the code compares it element by element with a plain
   slice (`Ids{1} == []int{1}` is true, as the comment of equalSequences promises); Prim.equal_v has no case for a
   named sequence and answers DeepEqual = false.  The CODE is right, the model is narrower (the same gap as
   length / slice / fetch on declared types in Bridge/BrRuntime.v); no generator produces such values. *)
Definition equal_sequences_full_statement : Prop :=
  forall a b, p_equal a b = equal_step w_fe (fun _ => 0) 10 0 p_equal a b.
Lemma equal_sequences_full_statement_refuted : ~ equal_sequences_full_statement.
Proof.
  intro H. specialize (H (VNamed "Ids" (VArr (TNum KInt) [vint 1])) (VArr (TNum KInt) [vint 1])).
  vm_compute in H. discriminate H.
Qed.

(* ================================================================== examples (non-vacuity) *)
Definition w_eqseq := pinterp w_fe (fun _ => 0) p_equal 10 1 runtime_funs "equalSequences".
Definition w_equal := equal_src w_fe (fun _ => 0) 10 0 9.
Definition ex_ints : value := VArr (TNum KInt) [vint 1; vint 2].
Definition ex_ifaces : value := VArr TIface [vint 1; VNum (NInt KInt64 2)].
Definition ex_nested (z : Z) : value := VArr TIface [ex_ints; VArr TIface [vint z; VStr "a"; VNil]].

Definition equal_sequences_examples_statement : Prop :=
     w_eqseq [GI ex_ints; GI ex_ifaces] = GOk [GBool true; GBool true]          (* []int{1,2} vs []interface{}{1,int64(2)} *)
  /\ w_eqseq [GI ex_ints; GI (VArr TIface [vint 1])] = GOk [GBool false; GBool true]        (* lengths differ *)
  /\ w_eqseq [GI ex_ints; GI (VArr TIface [vint 1; VStr "2"])] = GOk [GBool false; GBool true]
  /\ w_eqseq [GI ex_ints; GI (vint 1)] = GOk [GBool false; GBool false]                     (* not a sequence *)
  /\ w_eqseq [GI (VNilArr TIface); GI (VArr (TNum KInt) [])] = GOk [GBool true; GBool true] (* nil and empty slice *)
  /\ w_equal (ex_nested 3) (ex_nested 3) = Ok (VBool true)
  /\ w_equal (ex_nested 3) (ex_nested 4) = Ok (VBool false)
  /\ w_equal ex_ints (VStr "x") = Ok (VBool false)                                           (* DeepEqual *)
  /\ w_equal (VNilArr TIface) (VNilPtr TIface) = Ok (VBool true)                             (* both nil *)
  /\ w_equal (vint 1) (VNum (NFlt KF64 1%float)) = Ok (VBool true)                           (* the table *)
  /\ (eq_frag 10 (ex_nested 3) = true /\ (vsize (ex_nested 3) < 9)%nat /\ named_ok ex_ints = true
      /\ len_ok ex_ints /\ eq_fuel_ok 10 ex_ints /\ (0 < 10)%nat /\ Z.of_nat 10 <= max_int).

Example equal_sequences_examples : equal_sequences_examples_statement.
Proof.
  unfold equal_sequences_examples_statement.
  repeat (split; [vm_compute; reflexivity|]).
  repeat split; try (vm_compute; reflexivity).
  - unfold len_ok, ex_ints, max_int. cbn [List.length]. lia.
  - unfold eq_fuel_ok, ex_ints. cbn [List.length]. lia.
  - lia.
  - unfold max_int. lia.
Qed.

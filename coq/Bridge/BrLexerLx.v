(* Bridge/BrLexerLx.v — stage 1 of the lexer bridge, the functions of lexer.go and utils.go (see Bridge/BrLexer.v).
   One lemma `<f>_bridge` per Go function: the regenerated statements of f, run by the interpreter with callees that
   answer as `spec` says, give `spec "f"`. *)
From Coq Require Import ZArith List Bool String Ascii Lia.
Require Import X.Base.Value X.Syn.Tok X.Lex.Lexer X.Lex.LexRules X.Lex.LexRulesProofs X.gen.GenLexer X.Bridge.BrLexerTac.
Import ListNotations.
Local Open Scope string_scope.
Open Scope Z_scope.

Section Stage1.
Variables ul ud us : Z -> bool.
Variable F : nat.
Variable call : string -> list val -> gst -> res (list val).

Notation sig := (sig_ok ul ud us call F).
Notation fn_ok := (fn_ok ul ud us F call).

(* ---------------------------------------------------------------- lexer.go *)
Lemma next_bridge : fn_ok fn_next.
Proof. intros args g T. no_args args T. go. unfold g_next. crunch. Qed.

Lemma backup_bridge : fn_ok fn_backup.
Proof. intros args g T. no_args args T. reflexivity. Qed.

Lemma peek_bridge : sig "next" -> sig "backup" -> fn_ok fn_peek.
Proof. intros Hnext Hbackup args g T. no_args args T. go. reflexivity. Qed.

Lemma word_bridge : fn_ok fn_word.
Proof. intros args g T. no_args args T. reflexivity. Qed.

Lemma emitValue_bridge : fn_ok fn_emitValue.
Proof.
  intros args g T. destruct args as [|k [|v [|? ?]]]; bad T.
  destruct k, v; bad T; reflexivity.
Qed.

Lemma emit_bridge : sig "emitValue" -> sig "word" -> fn_ok fn_emit.
Proof. intros H1 H2 args g T. one_arg args T v. go. reflexivity. Qed.

Lemma emitEOF_bridge : fn_ok fn_emitEOF.
Proof. intros args g T. no_args args T. reflexivity. Qed.

Lemma ignore_bridge : fn_ok fn_ignore.
Proof. intros args g T. no_args args T. reflexivity. Qed.

Lemma error_bridge : fn_ok fn_error.
Proof. intros args g T. no_args args T. go. unfold g_error. destruct (g_err g); reflexivity. Qed.

Lemma accept_bridge : sig "next" -> sig "backup" -> fn_ok fn_accept.
Proof. intros H1 H2 args g T. one_arg args T v. go. unfold g_accept. crunch. Qed.

Lemma acceptRun_bridge : sig "next" -> sig "backup" -> fn_ok fn_acceptRun.
Proof.
  intros H1 H2 args g T. one_arg args T v. go.
  match goal with
  | |- context [for_loop F ?l ?C ?P ?B ?en g] =>
    assert (L : forall n g0, for_loop n l C P B en g0 =
                match g_run n (fun r => mem r s) g0 with Some g' => Ok (CNormal, en) g' | None => OutOfFuel end)
  end.
  { induction n as [|n IH]; intros g0; [reflexivity|].
    rewrite for_loop_S. go. cbn [g_run]. destruct (mem (fst (g_next g0)) s); [apply IH|reflexivity]. }
  rewrite L. unfold g_acceptRun. destruct (g_run F (fun r => mem r s) g); go; reflexivity.
Qed.

Lemma lower_bridge : fn_ok fn_lower.
Proof. intros args g T. one_arg args T v. reflexivity. Qed.

Lemma digitVal_bridge : sig "lower" -> fn_ok fn_digitVal.
Proof. intros H1 args g T. one_arg args T v. go. unfold g_digitVal. crunch. Qed.

Lemma scanDigits_bridge : sig "next" -> sig "digitVal" -> sig "error" -> fn_ok fn_scanDigits.
Proof.
  intros H1 H2 H3 args g T.
  destruct args as [|a [|b [|c [|? ?]]]]; bad T. destruct a, b, c; bad T. clear T. rename z into ch, z0 into base, z1 into n.
  go.
  match goal with
  | |- context [for_loop F ?l ?C ?P ?B _ g] =>
    assert (L : forall k ch n g0, for_loop k l C P B [VInt ch; VInt base; VInt n] g0 =
                match g_digits k ch base n g0 with
                | Some (ch', n', g') => Ok (CNormal, [VInt ch'; VInt base; VInt n']) g'
                | None => OutOfFuel
                end)
  end.
  { induction k as [|k IH]; intros ch0 n0 g0; [reflexivity|].
    rewrite for_loop_S. go. cbn [g_digits].
    destruct (0 <? n0); go; [|reflexivity].
    destruct (g_digitVal ch0 <? base); go; [apply IH|reflexivity]. }
  rewrite L. unfold g_scanDigits. destruct (g_digits F ch base n g) as [[[ch' n'] g']|]; go; [|reflexivity].
  crunch.
Qed.

Lemma scanEscape_bridge : sig "next" -> sig "scanDigits" -> sig "error" -> fn_ok fn_scanEscape.
Proof.
  intros H1 H2 H3 args g T. one_arg args T v. rename z into q. go. unfold g_scanEscape. cbn [mem].
  repeat (split_one; go; cbn [orb]; try reflexivity).
  all: try (match goal with |- context [g_scanDigits ?a ?b ?c ?d ?e] => destruct (g_scanDigits a b c d e) as [[? ?]|] end; reflexivity).
Qed.

Lemma scanString_bridge : sig "next" -> sig "scanEscape" -> sig "error" -> fn_ok fn_scanString.
Proof.
  intros H1 H2 H3 args g T. one_arg args T v. rename z into q. go.
  match goal with
  | |- context [for_loop F ?l ?C ?P ?B _ _] =>
    assert (L : forall k cnt ch g0, exists ch' c,
                for_loop k l C P B [VInt q; VInt cnt; VInt ch] g0 =
                match g_string F k q cnt ch g0 with
                | Some (cnt', g') => Ok (c, [VInt q; VInt cnt'; VInt ch']) g'
                | None => OutOfFuel
                end /\ (c = CNormal \/ c = CReturn []))
  end.
  { induction k as [|k IH]; intros cnt ch g0; [exists 0, CNormal; split; [reflexivity|left; reflexivity]|].
    rewrite for_loop_S. go. cbn [g_string].
    destruct (ch =? q); go; cbn [negb]; [exists ch, CNormal; split; [reflexivity|left; reflexivity]|].
    destruct (ch =? 10); go; cbn [orb]; [exists ch, (CReturn []); split; [reflexivity|right; reflexivity]|].
    destruct (ch =? -1); go; [exists ch, (CReturn []); split; [reflexivity|right; reflexivity]|].
    destruct (ch =? 92); go.
    - destruct (g_scanEscape F q g0) as [[c g']|]; go; [apply IH|].
      exists 0, CNormal; split; [reflexivity|left; reflexivity].
    - apply IH. }
  unfold g_scanString.
  destruct (L F 0 (fst (g_next g)) (snd (g_next g))) as (ch' & c & E & Hc). rewrite E.
  destruct (g_string F F q 0 (fst (g_next g)) (snd (g_next g))) as [[cnt' g']|]; [|reflexivity].
  destruct Hc as [-> | ->]; reflexivity.
Qed.
Lemma IsSpace_bridge : fn_ok fn_IsSpace.
Proof. intros args g T. one_arg args T v. reflexivity. Qed.

Lemma IsAlphabetic_bridge : fn_ok fn_IsAlphabetic.
Proof. intros args g T. one_arg args T v. go. unfold g_isAlphabetic. crunch. Qed.

Lemma IsAlphaNumeric_bridge : sig "IsAlphabetic" -> fn_ok fn_IsAlphaNumeric.
Proof. intros H1 args g T. one_arg args T v. go. unfold g_isAlphaNumeric. crunch. Qed.

End Stage1.

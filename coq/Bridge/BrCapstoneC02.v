(* Bridge/BrCapstoneC02.v — C02 capstones: the theorems of Opt/OptProofs.v (about the hand model Opt/Optimizer.v)
   composed with the regeneration bridge Bridge/BrOpt.v.  `source_optimize fe env cn e` is the interpretation
   (Opt/OptRules.v) of the statements of optimizer.Optimize REGENERATED into gen/GenOpt.v, every Walk(node, &pass{})
   being the post-order walk with the regenerated Exit of that pass; the statements below mention only it, the
   reference semantics Sem.eval and the side conditions.  The bridge's own condition `optimize_bridge_ok`
   (decidable: operators canonical throughout the tree, what the parser builds) stays as a hypothesis. *)
From Coq Require Import ZArith Bool List String Floats Lia.
Require Import X.Base.Num X.Base.Value X.Syn.Ast X.Sem.Prim X.Sem.Sem X.Opt.Optimizer X.Opt.OptProofs.
Require Import X.Opt.OptRules X.gen.GenOpt X.Bridge.BrOpt.
Import ListNotations.
Open Scope Z_scope.

Definition source_optimize (fe : fenv) (env : value) (cn : list string) (e : expr) : option ores :=
  interp_optimize (gen_visitors GenOpt.passes fe env cn) (has_names cn) GenOpt.optimize_steps e.

Lemma source_optimize_is_model : forall fe env cn e, optimize_bridge_ok e = true ->
  source_optimize fe env cn e = Some (optimize fe env cn e).
Proof. intros. apply model_optimizer_is_source_rules. assumption. Qed.

Lemma source_optimize_inv : forall fe env cn e r, optimize_bridge_ok e = true ->
  source_optimize fe env cn e = Some r -> optimize fe env cn e = r.
Proof. intros fe env cn e r B H. rewrite source_optimize_is_model in H by exact B. injection H as H. exact H. Qed.

(* the interpretation of the regenerated rules always finishes (never an ill-formed step, never out of iterations) *)
Theorem src_optimize_total : forall fe env cn e, optimize_bridge_ok e = true ->
  exists r, source_optimize fe env cn e = Some r.
Proof. intros fe env cn e B. eexists. apply source_optimize_is_model. exact B. Qed.

(* transparency: the tree returned by the regenerated rewrite rules evaluates like the original *)
Theorem src_transparent_partial : forall fe cfg env cn e e',
  optimize_bridge_ok e = true -> side_conditions fe cfg env cn e -> source_optimize fe env cn e = Some (OOk e') ->
  forall ctx s, rsim vsim cn (eval fe cfg env ctx e' s) (eval fe cfg env ctx e s).
Proof.
  intros fe cfg env cn e e' B S H. apply (C02_transparent_partial fe cfg env cn e e' S).
  apply source_optimize_inv; assumption.
Qed.

Theorem src_transparent_obs : forall fe cfg env cn e e',
  optimize_bridge_ok e = true -> side_conditions fe cfg env cn e -> source_optimize fe env cn e = Some (OOk e') ->
  forall ctx s, (forall l s1, eval fe cfg env ctx e s <> Stop EBudget l s1) ->
  obs_eq cn (eval fe cfg env ctx e' s) (eval fe cfg env ctx e s).
Proof.
  intros fe cfg env cn e e' B S H. apply (C02_transparent_obs fe cfg env cn e e' S).
  apply source_optimize_inv; assumption.
Qed.

(* rejection: only a constant integer d / 0, d % 0, or a ConstExpr call failing at compile time *)
Theorem src_only_div_zero_rejected : forall fe env cn e l,
  optimize_bridge_ok e = true -> source_optimize fe env cn e = Some (OFail l) -> has_dz e = true \/ cx_fails fe env cn.
Proof.
  intros fe env cn e l B H. apply (C02_only_div_zero_rejected fe env cn e l). apply source_optimize_inv; assumption.
Qed.

Theorem src_constexpr_pure : forall fe cfg env cn e,
  optimize_bridge_ok e = true -> side_conditions fe cfg env cn e ->
  (forall e', source_optimize fe env cn e = Some (OOk e') ->
     forall ctx s, rsim vsim cn (eval fe cfg env ctx e' s) (eval fe cfg env ctx e s)) /\
  (forall l, source_optimize fe env cn e = Some (OFail l) -> has_dz e = true \/ cx_fails fe env cn).
Proof.
  intros fe cfg env cn e B S. destruct (C02_constexpr_pure fe cfg env cn e S) as [P Q]. split.
  - intros e' H. apply P. apply source_optimize_inv; assumption.
  - intros l H. apply (Q l). apply source_optimize_inv; assumption.
Qed.

(* ------------------------------------------------------------------ the full statement over the regenerated rules: false *)
Definition src_transparent_full_statement : Prop :=
  forall fe cfg env cn e e', optimize_bridge_ok e = true -> source_optimize fe env cn e = Some (OOk e') ->
  forall ctx s, obs_eq cn (eval fe cfg env ctx e' s) (eval fe cfg env ctx e s).

Lemma src_refute_by (limit : Z) (e : expr) :
  optimize_bridge_ok e = true ->
  (match w_run_pair limit [] e with (OOk _, ro, ru) => negb (obs_eqb ro ru) | _ => false end) = true ->
  ~ src_transparent_full_statement.
Proof.
  intros B W F. unfold w_run_pair in W. destruct (optimize w_fe w_env [] e) as [e'|] eqn:O; [|discriminate].
  assert (S : source_optimize w_fe w_env [] e = Some (OOk e')) by (rewrite source_optimize_is_model by exact B; rewrite O; reflexivity).
  pose proof (F w_fe (w_cfg limit) w_env [] e e' B S [] rs0) as H. apply obs_eq_b in H. rewrite H in W. discriminate.
Qed.

(* the nine witnesses of the findings are canonical trees: each refutes the full statement of the regenerated optimizer *)
Theorem src_budget_refuted : optimize_bridge_ok w_budget = true /\ K_budget w_budget = true /\ ~ src_transparent_full_statement.
Proof. split; [reflexivity|]. split; [reflexivity|]. apply (src_refute_by 10 w_budget); vm_compute; reflexivity. Qed.
Theorem src_array_fold_type_refuted : optimize_bridge_ok w_array_type = true /\ K_array_fold w_array_type = true /\ ~ src_transparent_full_statement.
Proof. split; [reflexivity|]. split; [reflexivity|]. apply (src_refute_by 1000 w_array_type); vm_compute; reflexivity. Qed.
Theorem src_array_fold_deep_equal_refuted : optimize_bridge_ok w_array_deep = true /\ K_array_fold w_array_deep = true /\ ~ src_transparent_full_statement.
Proof. split; [reflexivity|]. split; [reflexivity|]. apply (src_refute_by 1000 w_array_deep); vm_compute; reflexivity. Qed.
Theorem src_in_range_double_eval_refuted : optimize_bridge_ok w_double = true /\ K_in_range_double_eval w_double = true /\ ~ src_transparent_full_statement.
Proof. split; [reflexivity|]. split; [reflexivity|]. apply (src_refute_by 1000 w_double); vm_compute; reflexivity. Qed.
Theorem src_in_range_nil_type_refuted : optimize_bridge_ok w_nil_range = true /\ K_in_range_nil_type w_nil_range = true /\ ~ src_transparent_full_statement.
Proof. split; [reflexivity|]. split; [reflexivity|]. apply (src_refute_by 1000 w_nil_range); vm_compute; reflexivity. Qed.
Theorem src_in_range_narrow_int_refuted : optimize_bridge_ok w_narrow = true /\ K_in_range_narrow w_narrow = true /\ ~ src_transparent_full_statement.
Proof. split; [reflexivity|]. split; [reflexivity|]. apply (src_refute_by 1000 w_narrow); vm_compute; reflexivity. Qed.
Theorem src_in_array_nil_type_refuted : optimize_bridge_ok w_nil_array = true /\ ~ src_transparent_full_statement.
Proof. split; [reflexivity|]. apply (src_refute_by 1000 w_nil_array); vm_compute; reflexivity. Qed.
Theorem src_fold_retyped_int_refuted : optimize_bridge_ok w_retyped_int = true /\ K_retyped [] w_retyped_int = true /\ ~ src_transparent_full_statement.
Proof. split; [reflexivity|]. split; [reflexivity|]. apply (src_refute_by 1000 w_retyped_int); vm_compute; reflexivity. Qed.
Theorem src_fold_retyped_float_refuted : optimize_bridge_ok w_retyped_float = true /\ K_retyped [] w_retyped_float = true /\ ~ src_transparent_full_statement.
Proof. split; [reflexivity|]. split; [reflexivity|]. apply (src_refute_by 1000 w_retyped_float); vm_compute; reflexivity. Qed.

(* ------------------------------------------------------------------ non-vacuity *)
(* (I in 1..(1 + 2)) and (len(1..4) == 2 * 2) and (I in [3, 5]): canonical, meets every side condition, and the
   regenerated rules rewrite it (in_range, fold, const_range, in_array all fire) *)
Example src_hypotheses_inhabited :
  optimize_bridge_ok x_expr = true /\ side_conditions w_fe (w_cfg 1000) x_env [] x_expr /\
  exists e', source_optimize w_fe x_env [] x_expr = Some (OOk e') /\ e' <> x_expr.
Proof. split; [exact optimize_bridge_ok_inhabited|]. split; [exact x_side_conditions|exact gen_optimize_rewrites]. Qed.

Example src_transparent_applied : exists e', source_optimize w_fe x_env [] x_expr = Some (OOk e') /\ e' <> x_expr /\
  forall ctx s, rsim vsim [] (eval w_fe (w_cfg 1000) x_env ctx e' s) (eval w_fe (w_cfg 1000) x_env ctx x_expr s).
Proof.
  destruct src_hypotheses_inhabited as (B & S & e' & H & N). exists e'. split; [exact H|]. split; [exact N|].
  exact (src_transparent_partial w_fe (w_cfg 1000) x_env [] x_expr e' B S H).
Qed.

Example src_div_zero_is_rejected :
  optimize_bridge_ok (EBinary (A ki) BDiv (lit 1) (EBinary (A ki) BSub (lit 1) (lit 1))) = true /\
  exists l, source_optimize w_fe w_env [] (EBinary (A ki) BDiv (lit 1) (EBinary (A ki) BSub (lit 1) (lit 1))) = Some (OFail l).
Proof. split; [reflexivity|]. eexists. vm_compute. reflexivity. Qed.

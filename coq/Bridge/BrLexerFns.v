(* Bridge/BrLexerFns.v — stage 1 of the lexer bridge, assembled (stage 2 and the theorems: Bridge/BrLexer.v).
   The functions regenerated from /repo/parser/lexer/{lexer,state,utils}.go (gen/GenLexer.v, DSL and interpreter in
   Lex/LexRules.v), run by the interpreter, are the Gallina functions `g_f` of Lex/LexRulesProofs.v: the lemmas
   `<f>_bridge` of Bridge/BrLexerLx.v, BrLexerSt.v, BrLexerRoot.v (one per Go function, so that a failure names the
   culprit; each assumes that its callees answer as `spec` says) are put together along the call order of
   `lexer_funs`. *)
From Coq Require Import ZArith List Bool String Ascii Lia.
Require Import X.Base.Value X.Syn.Tok X.Lex.Lexer X.Lex.LexRules X.Lex.LexRulesProofs X.gen.GenLexer.
Require Export X.Bridge.BrLexerTac X.Bridge.BrLexerLx X.Bridge.BrLexerSt X.Bridge.BrLexerRoot.
Import ListNotations.
Local Open Scope string_scope.
Open Scope Z_scope.

(* ================================================================== the table *)
Section Table.
Variables ul ud us : Z -> bool.
Variable F : nat.

Lemma unescape_is_prim : forall args g, typed "unescape" args = true ->
  prim "unescape" args g = spec ul ud us F "unescape" args g.
Proof. reflexivity. Qed.

(* the bridge lemma of the function at the head of the table, its callees being answered by the table below *)
Ltac head_fn :=
  let IH := fresh "IH" in
  intros IH;
  first [ apply next_bridge | apply backup_bridge | apply peek_bridge | apply word_bridge | apply emitValue_bridge
        | apply emit_bridge | apply emitEOF_bridge | apply ignore_bridge | apply error_bridge | apply accept_bridge
        | apply acceptRun_bridge | apply lower_bridge | apply digitVal_bridge | apply scanDigits_bridge
        | apply scanEscape_bridge | apply scanString_bridge | apply IsSpace_bridge | apply IsAlphabetic_bridge
        | apply IsAlphaNumeric_bridge | apply scanNumber_bridge | apply number_bridge | apply dot_bridge
        | apply nilsafe_bridge | apply not_bridge | apply root_bridge | apply identifier_bridge
        | apply acceptWord_bridge ];
  first [ apply IH; vm_compute; reflexivity
        | apply prim_ok; [vm_compute; reflexivity | apply unescape_is_prim] ].

(* every function below `Lex` in the regenerated table is its `spec` (callers first: each step uses the
   table below it, so an order that is not a call order fails here) *)
Theorem funs_ok : table_ok ul ud us F (tl lexer_funs).
Proof.
  unfold lexer_funs. cbn [tl].
  repeat (apply table_ok_cons; [vm_compute; reflexivity | head_fn | ]).
  apply table_ok_nil.
Qed.

Theorem Lex_ok : forall input g,
  sem_of ul ud us F lexer_funs "Lex" [VRunes input] g = g_Lex ul ud us F input.
Proof.
  intros input g. change lexer_funs with (fn_Lex :: tl lexer_funs). change "Lex" with (fn_name fn_Lex).
  rewrite sem_of_head. apply Lex_bridge; apply funs_ok; vm_compute; reflexivity.
Qed.
End Table.



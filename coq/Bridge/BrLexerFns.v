(* Bridge/BrLexerFns.v — stage 1 of the lexer bridge (stage 2 and the theorems: Bridge/BrLexer.v).
   The functions regenerated from /repo/parser/lexer/{lexer,state,utils}.go (gen/GenLexer.v, DSL and interpreter in
   Lex/LexRules.v), run by the interpreter, are the Gallina functions `g_f` of Lex/LexRulesProofs.v.

   Stage 1 (this file, one lemma `<f>_bridge` per Go function, so that a failure names the culprit): running
   the regenerated statements of f with the interpreter, every callee answering as `spec` says, gives
   `spec "f"`, i.e. the Gallina function `g_f` of Lex/LexRulesProofs.v over the Go-shaped state.
   `all_funs_ok` then ties the knot along the call order of `lexer_funs`.
   Stage 2 (Lex/LexRulesProofs.v): `g_f` on a state g computes what `Lexer.f` computes on `abs g`.
   Together: `<f>_is_model` per function, and `gen_lex_is_lex`: the driver over the regenerated state
   functions, with the fuel of the model, equals `Lexer.lex` on every input. *)
From Coq Require Import ZArith List Bool String Ascii Lia.
Require Import X.Base.Value X.Syn.Tok X.Lex.Lexer X.Lex.LexRules X.Lex.LexRulesProofs X.gen.GenLexer.
Import ListNotations.
Local Open Scope string_scope.
Open Scope Z_scope.

(* nothing in the current source is outside the shapes the translator knows *)
Definition genlexer_all_recognised : bool :=
  forallb fdef_ok lexer_funs && forallb esc_ok unescape_escapes
  && match genlexer_unrecognised with [] => true | _ => false end.

Lemma genlexer_recognised : genlexer_all_recognised = true.
Proof. vm_compute. reflexivity. Qed.

(* ================================================================== stage 1 *)
Section Stage1.
Variables ul ud us : Z -> bool.
Variable F : nat.
Variable call : string -> list val -> gst -> res (list val).

Notation sig := (sig_ok ul ud us call F).

(* the regenerated body of d, run with `call` for the callees, is `spec` *)
Definition fn_ok (d : fdef) : Prop :=
  forall args g, typed (fn_name d) args = true ->
    run_fn ul ud us call F d args g = spec ul ud us F (fn_name d) args g.

(* symbolic execution: unfold the interpreter over the (concrete) syntax, nothing else *)
Ltac evf :=
  lazy [run_fn exec exec_block eval eval_list eval_multi eval_bool match_any truth bind one assign assign_all upd nth
        get_field set_field get_sub set_sub loc_of bytes_of binop val_eqb is_nil option_map negb olbl_eqb Nat.eqb
        List.length app repeat map firstn skipn fn_body fn_params fn_locals fn_results fn_name uni
        spec prim rU rZ rB rS oF vfn stfn_name String.eqb Ascii.eqb Bool.eqb orb andb
        fn_Lex fn_root fn_identifier fn_not fn_acceptWord fn_dot fn_nilsafe fn_number fn_emit fn_scanNumber
        fn_IsAlphaNumeric fn_IsAlphabetic fn_peek fn_acceptRun fn_accept fn_backup fn_emitValue fn_word
        fn_scanString fn_scanEscape fn_scanDigits fn_digitVal fn_lower fn_error fn_IsSpace fn_ignore fn_emitEOF fn_next].
Ltac ev := evf; cbn [fst snd].

(* a call of a callee: answered by its hypothesis *)
Ltac calls :=
  repeat match goal with
         | H : sig_ok _ _ _ call _ _ |- context [call ?n ?a ?g] => rewrite (H a g eq_refl)
         end.

Ltac go := repeat (progress (ev; calls)).
(* the same without the (slow) cbn: for the first run through a long function *)
Ltac gof := repeat (progress (evf; calls)).

(* case analysis on the innermost condition *)
Ltac split_one :=
  match goal with
  | |- context [if ?c then _ else _] =>
    lazymatch c with
    | context [if _ then _ else _] => fail
    | context [match _ with _ => _ end] => fail
    | _ => destruct c eqn:?
    end
  | |- context [match ?o with Some _ => _ | None => _ end] =>
    lazymatch o with
    | context [if _ then _ else _] => fail
    | context [match _ with _ => _ end] => fail
    | _ => destruct o as [?|] eqn:?
    end
  end.

(* the pairs G-functions return *)
Ltac pairs := repeat match goal with p : (_ * _)%type |- _ => destruct p end.

Ltac crunch := repeat (split_one; pairs; go); reflexivity.

(* Before a case analysis the calls of G-functions on a state variable are replaced by variables: the kernel
   would otherwise unfold them when it re-checks the conversions at Qed (exponential in the nesting). *)
Ltac gen1 :=
  match goal with
  (* results that are inspected: they may block the execution on one side *)
  | |- context [g_next ?x] => is_var x; generalize (g_next x); intros [? ?]
  | |- context [g_peek ?x] => is_var x; generalize (g_peek x); intros [? ?]
  | |- context [g_accept ?v ?x] => is_var x; generalize (g_accept v x); intros [? ?]
  | |- context [g_acceptRun ?n ?v ?x] => is_var x; generalize (g_acceptRun n v x); intros [?|]
  | |- context [g_word ?x] => is_var x; generalize (g_word x); intro
  | |- context [unescape ?x] => is_var x; generalize (unescape x); intros [?|]
  | |- context [g_scanDigits ?n ?a ?b ?c ?x] => is_var x; generalize (g_scanDigits n a b c x); intros [[? ?]|]
  | |- context [g_scanEscape ?n ?q ?x] => is_var x; generalize (g_scanEscape n q x); intros [[? ?]|]
  | |- context [g_scanString ?n ?q ?x] => is_var x; generalize (g_scanString n q x); intros [[? ?]|]
  | |- context [g_scanNumber ?a ?b ?n ?x] => is_var x; generalize (g_scanNumber a b n x); intros [[? ?]|]
  | |- context [g_acceptWord ?n ?w ?x] => is_var x; generalize (g_acceptWord n w x); intros [[? ?]|]
  (* state transformers: never inspected, last *)
  | |- context [g_backup ?x] => is_var x; generalize (g_backup x); intro
  | |- context [g_error ?x] => is_var x; generalize (g_error x); intro
  | |- context [g_emit ?k ?x] => is_var x; generalize (g_emit k x); intro
  | |- context [g_emitValue ?k ?s ?x] => is_var x; generalize (g_emitValue k s x); intro
  | |- context [g_emitEOF ?x] => is_var x; generalize (g_emitEOF x); intro
  | |- context [g_ignore ?x] => is_var x; generalize (g_ignore x); intro
  end.
Ltac no_g c :=
  lazymatch c with
  | context [g_next _] => fail | context [g_peek _] => fail | context [g_backup _] => fail
  | context [g_accept _ _] => fail | context [g_acceptRun _ _ _] => fail | context [g_word _] => fail
  | context [g_scanDigits _ _ _ _ _] => fail | context [g_scanEscape _ _ _] => fail
  | context [g_scanString _ _ _] => fail | context [g_scanNumber _ _ _ _] => fail
  | context [g_acceptWord _ _ _] => fail
  | context [if _ then _ else _] => fail
  | context [match _ with _ => _ end] => fail
  | _ => idtac
  end.
(* case analysis on a condition that mentions no G-function *)
Ltac sp1 := match goal with |- context [if ?c then _ else _] => no_g c; destruct c end.
(* conditions first (they may hide a call on one side only), then ONE generalisation, then run on *)
Ltac case_step := first [sp1; go | gen1; cbn [fst snd]; go].
Ltac solve_cases := repeat case_step; reflexivity.

Ltac bad T := try (vm_compute in T; discriminate T).
Ltac no_args args T := destruct args; [|bad T]; clear T.
Ltac one_arg args T v :=
  destruct args as [|v [|? ?]]; bad T; destruct v; bad T; clear T.

(* ---------------------------------------------------------------- lexer.go *)
Lemma next_bridge : fn_ok fn_next.
Proof. intros args g T. no_args args T. go. unfold g_next. crunch. Qed.

Lemma backup_bridge : fn_ok fn_backup.
Proof. intros args g T. no_args args T. reflexivity. Qed.

Lemma peek_bridge : sig "next" -> sig "backup" -> fn_ok fn_peek.
Proof. intros Hnext Hbackup args g T. no_args args T. go. reflexivity. Qed.

Lemma word_bridge : fn_ok fn_word.
Proof. intros args g T. no_args args T. reflexivity. Qed.

Lemma emitValue_bridge : fn_ok fn_emitValue.
Proof.
  intros args g T. destruct args as [|k [|v [|? ?]]]; bad T.
  destruct k, v; bad T; reflexivity.
Qed.

Lemma emit_bridge : sig "emitValue" -> sig "word" -> fn_ok fn_emit.
Proof. intros H1 H2 args g T. one_arg args T v. go. reflexivity. Qed.

Lemma emitEOF_bridge : fn_ok fn_emitEOF.
Proof. intros args g T. no_args args T. reflexivity. Qed.

Lemma ignore_bridge : fn_ok fn_ignore.
Proof. intros args g T. no_args args T. reflexivity. Qed.

Lemma error_bridge : fn_ok fn_error.
Proof. intros args g T. no_args args T. go. unfold g_error. destruct (g_err g); reflexivity. Qed.

Lemma accept_bridge : sig "next" -> sig "backup" -> fn_ok fn_accept.
Proof. intros H1 H2 args g T. one_arg args T v. go. unfold g_accept. crunch. Qed.

Lemma acceptRun_bridge : sig "next" -> sig "backup" -> fn_ok fn_acceptRun.
Proof.
  intros H1 H2 args g T. one_arg args T v. go.
  match goal with
  | |- context [for_loop F ?l ?C ?P ?B ?en g] =>
    assert (L : forall n g0, for_loop n l C P B en g0 =
                match g_run n (fun r => mem r s) g0 with Some g' => Ok (CNormal, en) g' | None => OutOfFuel end)
  end.
  { induction n as [|n IH]; intros g0; [reflexivity|].
    rewrite for_loop_S. go. cbn [g_run]. destruct (mem (fst (g_next g0)) s); [apply IH|reflexivity]. }
  rewrite L. unfold g_acceptRun. destruct (g_run F (fun r => mem r s) g); go; reflexivity.
Qed.

Lemma lower_bridge : fn_ok fn_lower.
Proof. intros args g T. one_arg args T v. reflexivity. Qed.

Lemma digitVal_bridge : sig "lower" -> fn_ok fn_digitVal.
Proof. intros H1 args g T. one_arg args T v. go. unfold g_digitVal. crunch. Qed.

Lemma scanDigits_bridge : sig "next" -> sig "digitVal" -> sig "error" -> fn_ok fn_scanDigits.
Proof.
  intros H1 H2 H3 args g T.
  destruct args as [|a [|b [|c [|? ?]]]]; bad T. destruct a, b, c; bad T. clear T. rename z into ch, z0 into base, z1 into n.
  go.
  match goal with
  | |- context [for_loop F ?l ?C ?P ?B _ g] =>
    assert (L : forall k ch n g0, for_loop k l C P B [VInt ch; VInt base; VInt n] g0 =
                match g_digits k ch base n g0 with
                | Some (ch', n', g') => Ok (CNormal, [VInt ch'; VInt base; VInt n']) g'
                | None => OutOfFuel
                end)
  end.
  { induction k as [|k IH]; intros ch0 n0 g0; [reflexivity|].
    rewrite for_loop_S. go. cbn [g_digits].
    destruct (0 <? n0); go; [|reflexivity].
    destruct (g_digitVal ch0 <? base); go; [apply IH|reflexivity]. }
  rewrite L. unfold g_scanDigits. destruct (g_digits F ch base n g) as [[[ch' n'] g']|]; go; [|reflexivity].
  crunch.
Qed.

Lemma scanEscape_bridge : sig "next" -> sig "scanDigits" -> sig "error" -> fn_ok fn_scanEscape.
Proof.
  intros H1 H2 H3 args g T. one_arg args T v. rename z into q. go. unfold g_scanEscape. cbn [mem].
  repeat (split_one; go; cbn [orb]; try reflexivity).
  all: try (match goal with |- context [g_scanDigits ?a ?b ?c ?d ?e] => destruct (g_scanDigits a b c d e) as [[? ?]|] end; reflexivity).
Qed.

Lemma scanString_bridge : sig "next" -> sig "scanEscape" -> sig "error" -> fn_ok fn_scanString.
Proof.
  intros H1 H2 H3 args g T. one_arg args T v. rename z into q. go.
  match goal with
  | |- context [for_loop F ?l ?C ?P ?B _ _] =>
    assert (L : forall k cnt ch g0, exists ch' c,
                for_loop k l C P B [VInt q; VInt cnt; VInt ch] g0 =
                match g_string F k q cnt ch g0 with
                | Some (cnt', g') => Ok (c, [VInt q; VInt cnt'; VInt ch']) g'
                | None => OutOfFuel
                end /\ (c = CNormal \/ c = CReturn []))
  end.
  { induction k as [|k IH]; intros cnt ch g0; [exists 0, CNormal; split; [reflexivity|left; reflexivity]|].
    rewrite for_loop_S. go. cbn [g_string].
    destruct (ch =? q); go; cbn [negb]; [exists ch, CNormal; split; [reflexivity|left; reflexivity]|].
    destruct (ch =? 10); go; cbn [orb]; [exists ch, (CReturn []); split; [reflexivity|right; reflexivity]|].
    destruct (ch =? -1); go; [exists ch, (CReturn []); split; [reflexivity|right; reflexivity]|].
    destruct (ch =? 92); go.
    - destruct (g_scanEscape F q g0) as [[c g']|]; go; [apply IH|].
      exists 0, CNormal; split; [reflexivity|left; reflexivity].
    - apply IH. }
  unfold g_scanString.
  destruct (L F 0 (fst (g_next g)) (snd (g_next g))) as (ch' & c & E & Hc). rewrite E.
  destruct (g_string F F q 0 (fst (g_next g)) (snd (g_next g))) as [[cnt' g']|]; [|reflexivity].
  destruct Hc as [-> | ->]; reflexivity.
Qed.
Lemma IsSpace_bridge : fn_ok fn_IsSpace.
Proof. intros args g T. one_arg args T v. reflexivity. Qed.

Lemma IsAlphabetic_bridge : fn_ok fn_IsAlphabetic.
Proof. intros args g T. one_arg args T v. go. unfold g_isAlphabetic. crunch. Qed.

Lemma IsAlphaNumeric_bridge : sig "IsAlphabetic" -> fn_ok fn_IsAlphaNumeric.
Proof. intros H1 args g T. one_arg args T v. go. unfold g_isAlphaNumeric. crunch. Qed.

(* ---------------------------------------------------------------- state.go *)
(* scanNumber: `digits := ...; if l.accept("0") { ... }` *)
Lemma scanNumber_head :
  sig "accept" -> forall g,
  exec_block ul ud us call F (firstn 2 (fn_body fn_scanNumber)) [VInt 0; VInt 0; VInt 0; VInt 0] g =
  Ok (CNormal, [VRunes (fst (g_number_prefix g)); VInt 0; VInt 0; VInt 0]) (snd (g_number_prefix g)).
Proof. intros H1 g. go. unfold g_number_prefix. go. solve_cases. Qed.

(* scanNumber from `if l.accept("eE")` on *)
Lemma scanNumber_tail :
  sig "accept" -> sig "acceptRun" -> sig "peek" -> sig "next" -> sig "IsAlphaNumeric" ->
  forall digits a b c g,
  exec_block ul ud us call F (skipn 3 (skipn 2 (fn_body fn_scanNumber))) [VRunes digits; a; b; c] g =
  match g_number_exp ul ud F digits g with
  | Some (ok, g') => Ok (CReturn [VBool ok], [VRunes digits; a; b; c]) g'
  | None => OutOfFuel
  end.
Proof.
  intros H1 H2 H3 H4 H5 digits a b c g. go. unfold g_number_exp. go. solve_cases.
Qed.

Lemma scanNumber_bridge :
  sig "accept" -> sig "acceptRun" -> sig "peek" -> sig "next" -> sig "IsAlphaNumeric" -> fn_ok fn_scanNumber.
Proof.
  intros H1 H2 H3 H4 H5 args g T. no_args args T.
  unfold run_fn. cbn [negb Nat.eqb List.length fn_params fn_locals fn_scanNumber app repeat].
  rewrite (exec_block_split 2), (scanNumber_head H1). cbn [bind].
  rewrite (exec_block_split 3).
  remember (exec_block ul ud us call F (skipn 3 (skipn 2 (fn_body fn_scanNumber)))) as TAIL eqn:ET.
  assert (TL : forall digits a b c g0, TAIL [VRunes digits; a; b; c] g0 =
               match g_number_exp ul ud F digits g0 with
               | Some (ok, g') => Ok (CReturn [VBool ok], [VRunes digits; a; b; c]) g'
               | None => OutOfFuel
               end) by (intros; subst TAIL; apply scanNumber_tail; assumption).
  clear ET. go. unfold g_scanNumber, g_number_frac.
  generalize (g_number_prefix g); intros [digits g0]. go.
  repeat (first [rewrite TL; go | case_step]).
  all: repeat (match goal with |- context [g_number_exp ?a ?b ?n ?d ?x] => generalize (g_number_exp a b n d x); intros [[? ?]|] end; go).
  all: reflexivity.
Qed.
Lemma number_bridge : sig "scanNumber" -> sig "error" -> sig "emit" -> fn_ok fn_number.
Proof.
  intros H1 H2 H3 args g T. no_args args T. go. unfold g_number. go. solve_cases.
Qed.

Lemma dot_bridge : sig "next" -> sig "accept" -> sig "backup" -> sig "emit" -> fn_ok fn_dot.
Proof.
  intros H1 H2 H3 H4 args g T. no_args args T. go. unfold g_dot. go. solve_cases.
Qed.

Lemma nilsafe_bridge : sig "next" -> sig "accept" -> sig "emit" -> fn_ok fn_nilsafe.
Proof.
  intros H1 H2 H3 args g T. no_args args T. go. reflexivity.
Qed.

Lemma not_bridge : sig "acceptWord" -> sig "emitValue" -> fn_ok fn_not.
Proof.
  intros H1 H2 args g T. no_args args T. go. unfold g_not. go. solve_cases.
Qed.

Lemma root_bridge :
  sig "next" -> sig "emitEOF" -> sig "IsSpace" -> sig "ignore" -> sig "scanString" -> sig "unescape" -> sig "word" ->
  sig "error" -> sig "emitValue" -> sig "backup" -> sig "peek" -> sig "emit" -> sig "accept" -> sig "IsAlphaNumeric" ->
  fn_ok fn_root.
Proof.
  intros H1 H2 H3 H4 H5 H6 H7 H8 H9 H10 H11 H12 H13 H14 args g T. no_args args T. gof. unfold g_root. go.
  repeat case_step.
  all: reflexivity.
Qed.
Lemma identifier_bridge :
  sig "next" -> sig "IsAlphaNumeric" -> sig "backup" -> sig "word" -> sig "emit" -> fn_ok fn_identifier.
Proof.
  intros H1 H2 H3 H4 H5 args g T. no_args args T. go.
  match goal with
  | |- context [for_loop F ?l ?C ?P ?B _ g] =>
    assert (L : forall n r0 g0, exists r',
                for_loop n l C P B [VInt r0] g0 =
                match g_run n (g_isAlphaNumeric ul ud) g0 with
                | Some g1 =>
                  if runes_eqb (g_word (g_backup g1)) (rs "not") then Ok (CReturn [VFn SNot], [VInt r']) (g_backup g1)
                  else if existsb (runes_eqb (g_word (g_backup g1))) word_ops
                       then Ok (CNormal, [VInt r']) (g_emit TkOperator (g_backup g1))
                       else Ok (CNormal, [VInt r']) (g_emit TkIdentifier (g_backup g1))
                | None => OutOfFuel
                end)
  end.
  { induction n as [|n IH]; intros r0 g0; [exists 0; reflexivity|].
    rewrite for_loop_S. go. cbn [g_run].
    generalize (g_next g0); intros [r g1]; cbn [fst snd].
    destruct (g_isAlphaNumeric ul ud r); go; [apply IH|].
    exists r. unfold word_ops. cbn [existsb]. go.
    generalize (g_backup g1); intros g2. go. generalize (g_word g2); intros w. go.
    repeat (sp1; go). all: reflexivity. }
  unfold g_identifier. destruct (L F 0 g) as [r' E]. rewrite E.
  generalize (g_run F (g_isAlphaNumeric ul ud) g); intros [g1|]; [|reflexivity].
  generalize (g_backup g1); intros g2. cbn zeta. generalize (g_word g2); intros w.
  repeat (sp1; go). all: reflexivity.
Qed.

Lemma acceptWord_bridge : sig "peek" -> sig "next" -> fn_ok fn_acceptWord.
Proof.
  intros H1 H2 args g T. one_arg args T v. rename s into w. go. unfold g_acceptWord.
  generalize (g_peek g); intros [r0 g0]; cbn [fst snd]. go.
  match goal with
  | |- context [for_loop F ?l ?C ?P ?B [?a; ?b; ?c; ?d; _; ?e] g0] =>
    assert (L : forall n r g1, for_loop n l C P B [a; b; c; d; VInt r; e] g1 =
                match g_skip n r g1 with
                | Some (r', g') => Ok (CNormal, [a; b; c; d; VInt r'; e]) g'
                | None => OutOfFuel
                end)
  end.
  { induction n as [|n IH]; intros r g1; [reflexivity|].
    rewrite for_loop_S. go. cbn [g_skip].
    destruct (r =? 32); go; [|reflexivity].
    generalize (g_next g1); intros [r1 g2]; cbn [fst snd]. go.
    generalize (g_peek g2); intros [r2 g3]; cbn [fst snd]. go. apply IH. }
  rewrite L. clear L.
  generalize (g_skip F r0 g0); intros [[r1 g1]|]; [|reflexivity]. go.
  match goal with
  | |- context [range_loop w ?v ?B [?a; ?b; ?c; ?d; ?e; _] g1] =>
    assert (R : forall w' ch0 g2, exists ch',
                range_loop w' v B [a; b; c; d; e; VInt ch0] g2 =
                if fst (g_expect w' g2)
                then Ok (CNormal, [a; b; c; d; e; VInt ch']) (snd (g_expect w' g2))
                else Ok (CReturn [VBool false], [a; b; c; d; e; VInt ch'])
                        (g_restore (snd (g_expect w' g2)) (g_end g) (g_loc g) (g_prev g)))
  end.
  { induction w' as [|ch w' IH]; intros ch0 g2; [exists ch0; reflexivity|].
    rewrite range_loop_cons. go. cbn [g_expect].
    generalize (g_next g2); intros [r2 g3]; cbn [fst snd]. go.
    destruct (r2 =? ch); go; cbn [negb]; [apply IH|exists ch; reflexivity]. }
  destruct (R w 0 g1) as [ch' E]. rewrite E. clear R E.
  generalize (g_expect w g1); intros [ok g2]; cbn [fst snd].
  destruct ok; go; [|reflexivity].
  generalize (g_peek g2); intros [r2 g3]; cbn [fst snd]. go.
  repeat (sp1; go). all: reflexivity.
Qed.

(* ---------------------------------------------------------------- Lex *)
(* for state := root; state != nil; { state = state(l) } *)
Fixpoint g_lex_loop (n : nat) (o : option stfn) (g : gst) : option gst :=
  match n with
  | O => None
  | S f =>
    match o with
    | None => Some g
    | Some st =>
      match g_step ul ud us F st g with
      | None => None
      | Some (o', g') => g_lex_loop f o' g'
      end
    end
  end.

Definition g_Lex (input : list Z) : res (list val) :=
  match g_lex_loop F (Some SRoot) (g_init input) with
  | None => OutOfFuel
  | Some g' =>
    match g_err g' with
    | Some p => Ok [VNil; VErrAt p] g'
    | None => Ok [VToks (g_tokens g'); VNil] g'
    end
  end.

Lemma Lex_bridge :
  sig "root" -> sig "number" -> sig "dot" -> sig "nilsafe" -> sig "identifier" -> sig "not" ->
  forall input g, run_fn ul ud us call F fn_Lex [VRunes input] g = g_Lex input.
Proof.
  intros H1 H2 H3 H4 H5 H6 input g. go.
  match goal with
  | |- context [for_loop F ?l ?C ?P ?B [?a; _] ?g0] =>
    assert (L : forall n o g1, for_loop n l C P B [a; vfn o] g1 =
                match g_lex_loop n o g1 with
                | Some g' => Ok (CNormal, [a; VNil]) g'
                | None => OutOfFuel
                end)
  end.
  { induction n as [|n IH]; intros o g1; [reflexivity|].
    rewrite for_loop_S. destruct o as [st|]; [|reflexivity].
    cbn [g_lex_loop vfn]. destruct st; go; cbn [g_step].
    - generalize (g_root ul ud us F g1); intros [[o' g']|]; [|reflexivity]. go. apply IH.
    - generalize (g_number ul ud F g1); intros [[o' g']|]; [|reflexivity]. go. apply IH.
    - generalize (g_dot g1); intros [o' g']. go. apply IH.
    - generalize (g_nilsafe g1); intros [o' g']. go. apply IH.
    - generalize (g_identifier ul ud F g1); intros [[o' g']|]; [|reflexivity]. go. apply IH.
    - generalize (g_not F g1); intros [[o' g']|]; [|reflexivity]. go. apply IH. }
  change (VFn SRoot) with (vfn (Some SRoot)). rewrite L. unfold g_Lex.
  change (with_startLoc _ _) with (g_init input).
  generalize (g_lex_loop F (Some SRoot) (g_init input)); intros [g'|]; [|reflexivity]. go.
  destruct (g_err g') eqn:E; go; rewrite ?E; reflexivity.
Qed.
End Stage1.


(* ================================================================== the table *)
Section Table.
Variables ul ud us : Z -> bool.
Variable F : nat.

Lemma unescape_is_prim : forall args g, typed "unescape" args = true ->
  prim "unescape" args g = spec ul ud us F "unescape" args g.
Proof. reflexivity. Qed.

(* the bridge lemma of the function at the head of the table, its callees being answered by the table below *)
Ltac head_fn :=
  let IH := fresh "IH" in
  intros IH;
  first [ apply next_bridge | apply backup_bridge | apply peek_bridge | apply word_bridge | apply emitValue_bridge
        | apply emit_bridge | apply emitEOF_bridge | apply ignore_bridge | apply error_bridge | apply accept_bridge
        | apply acceptRun_bridge | apply lower_bridge | apply digitVal_bridge | apply scanDigits_bridge
        | apply scanEscape_bridge | apply scanString_bridge | apply IsSpace_bridge | apply IsAlphabetic_bridge
        | apply IsAlphaNumeric_bridge | apply scanNumber_bridge | apply number_bridge | apply dot_bridge
        | apply nilsafe_bridge | apply not_bridge | apply root_bridge | apply identifier_bridge
        | apply acceptWord_bridge ];
  first [ apply IH; vm_compute; reflexivity
        | apply prim_ok; [vm_compute; reflexivity | apply unescape_is_prim] ].

(* every function below `Lex` in the regenerated table is its `spec` (callers first: each step uses the
   table below it, so an order that is not a call order fails here) *)
Theorem funs_ok : table_ok ul ud us F (tl lexer_funs).
Proof.
  unfold lexer_funs. cbn [tl].
  repeat (apply table_ok_cons; [vm_compute; reflexivity | head_fn | ]).
  apply table_ok_nil.
Qed.

Theorem Lex_ok : forall input g,
  sem_of ul ud us F lexer_funs "Lex" [VRunes input] g = g_Lex ul ud us F input.
Proof.
  intros input g. change lexer_funs with (fn_Lex :: tl lexer_funs). change "Lex" with (fn_name fn_Lex).
  rewrite sem_of_head. apply Lex_bridge; apply funs_ok; vm_compute; reflexivity.
Qed.
End Table.


(* Bridge/BrCapstoneC12.v — C12 capstones: the property theorems of Lex/LexProofs.v (about the hand model
   Lexer.lex) composed with the regeneration bridge Bridge/BrLexer.v, so that the statements mention only the
   interpretation of the REGENERATED lexer (gen/GenLexer.v `lexer_funs`, interpreter of Lex/LexRules.v) and the
   reference definitions (spellings, utf8_encode, advance, expected, lastpos, classify_number).

   `source_lexes ul ud us input ts`: BOTH regenerated readings of parser/lexer answer the token list ts on input:
     gen_lex   the regenerated state functions under the driver loop of the model, and
     gen_Lex   the regenerated function `Lex` itself (set-up, loop, error test) run by the interpreter with
               2*len+10 iterations for every loop. *)
From Coq Require Import ZArith Bool List String.
Require Import X.Base.Value X.Syn.Tok X.Lex.Lexer X.Lex.LexProofs.
Require Import X.Lex.LexRules X.Lex.LexRulesProofs X.gen.GenLexer X.Bridge.BrLexerFns X.Bridge.BrLexer.
Import ListNotations.
Open Scope Z_scope.

Definition source_lexes (ul ud us : Z -> bool) (input : list Z) (ts : list token) : Prop :=
  gen_lex ul ud us lexer_funs input = GenOk ts /\
  gen_Lex ul ud us (2 * List.length input + 10) lexer_funs input = GenOk ts.

(* the transport: whatever the model lexer accepts, the regenerated lexer accepts with the same tokens; and back *)
Lemma source_lexes_of_model : forall ul ud us input ts,
  lex ul ud us input = LexOk ts -> source_lexes ul ud us input ts.
Proof.
  intros ul ud us input ts H. split.
  - rewrite gen_lex_is_lex, H. reflexivity.
  - rewrite gen_Lex_is_lex; [rewrite H; reflexivity|rewrite H; discriminate].
Qed.

Lemma model_of_source_lex : forall ul ud us input ts,
  gen_lex ul ud us lexer_funs input = GenOk ts -> lex ul ud us input = LexOk ts.
Proof.
  intros ul ud us input ts. rewrite gen_lex_is_lex.
  destruct (lex ul ud us input); cbn [of_lex]; intros H; try discriminate H. injection H as ->. reflexivity.
Qed.

Lemma source_lex_err_of_model : forall ul ud us input e,
  lex ul ud us input = LexErr e ->
  gen_lex ul ud us lexer_funs input = GenErr e /\
  gen_Lex ul ud us (2 * List.length input + 10) lexer_funs input = GenErr e.
Proof.
  intros ul ud us input e H. split.
  - rewrite gen_lex_is_lex, H. reflexivity.
  - rewrite gen_Lex_is_lex; [rewrite H; reflexivity|rewrite H; discriminate].
Qed.

(* ---- (1) strings *)
Theorem src_string_all_spellings : forall ul ud us q items,
  (q = 34 \/ q = 39) -> forallb (item_ok q) items = true ->
  source_lexes ul ud us (q :: body_runes items ++ [q])
    [mkTok (1, 0) TkString (utf8_encode (map item_val items));
     mkTok (advance (1, 0) (q :: body_runes items)) TkEOF EmptyString].
Proof. intros. apply source_lexes_of_model. apply string_items_roundtrip; assumption. Qed.

Theorem src_string : forall ul ud us q s,
  (q = 34 \/ q = 39) -> forallb valid_scalar s = true ->
  source_lexes ul ud us (quote q s)
    [mkTok (1, 0) TkString (utf8_encode s);
     mkTok (advance (1, 0) (removelast (quote q s))) TkEOF EmptyString].
Proof. intros. apply source_lexes_of_model. apply string_roundtrip; assumption. Qed.

(* the full statement (raw CR allowed inside the literal) is false of the REGENERATED lexer too *)
Definition src_string_full_statement : Prop :=
  forall ul ud us q items, (q = 34 \/ q = 39) -> forallb (item_ok_full q) items = true ->
    exists e, gen_lex ul ud us lexer_funs (q :: body_runes items ++ [q]) =
              GenOk [mkTok (1, 0) TkString (utf8_encode (map item_val items)); e].

Theorem src_string_raw_cr_refuted : ~ src_string_full_statement.
Proof.
  intros H. destruct (H (fun _ => false) (fun _ => false) (fun _ => false) 34 [IRaw 97; IRaw 13; IRaw 98] (or_introl eq_refl) eq_refl) as [e He].
  vm_compute in He. discriminate He.
Qed.

(* ---- (2) integers *)
Theorem src_int_dec_all_spellings : forall ul ud us pf d ds,
  is_dec d = true -> forallb is_dec_us ds = true -> dval (filter not_us (d :: ds)) < 2 ^ 63 ->
  source_lexes ul ud us (d :: ds)
    [mkTok (1, 0) TkNumber (utf8_encode (d :: ds));
     mkTok (advance (1, 0) (removelast (d :: ds))) TkEOF EmptyString] /\
  classify_number pf (utf8_encode (d :: ds)) = LitInt (dval (filter not_us (d :: ds))).
Proof.
  intros ul ud us pf d ds H1 H2 H3. destruct (int_dec_literal ul ud us pf d ds H1 H2 H3) as [A B].
  split; [apply source_lexes_of_model; exact A|exact B].
Qed.

Theorem src_int_dec : forall ul ud us pf n, 0 <= n < 2 ^ 63 ->
  source_lexes ul ud us (dec_runes n)
    [mkTok (1, 0) TkNumber (utf8_encode (dec_runes n));
     mkTok (advance (1, 0) (removelast (dec_runes n))) TkEOF EmptyString] /\
  classify_number pf (utf8_encode (dec_runes n)) = LitInt n.
Proof.
  intros ul ud us pf n H. destruct (int_dec_canonical ul ud us pf n H) as [A B].
  split; [apply source_lexes_of_model; exact A|exact B].
Qed.

Theorem src_int_hex : forall ul ud us pf x ds,
  mem x [120; 88] = true -> forallb is_hex_us ds = true -> filter not_us ds <> [] ->
  hexval (filter not_us ds) < 2 ^ 63 ->
  source_lexes ul ud us (48 :: x :: ds)
    [mkTok (1, 0) TkNumber (utf8_encode (48 :: x :: ds));
     mkTok (advance (1, 0) (removelast (48 :: x :: ds))) TkEOF EmptyString] /\
  classify_number pf (utf8_encode (48 :: x :: ds)) = LitInt (hexval (filter not_us ds)).
Proof.
  intros ul ud us pf x ds H1 H2 H3 H4. destruct (int_hex_literal ul ud us pf x ds H1 H2 H3 H4) as [A B].
  split; [apply source_lexes_of_model; exact A|exact B].
Qed.

Theorem src_int_hex_canonical : forall ul ud us pf n, 0 <= n < 2 ^ 63 ->
  source_lexes ul ud us (hex_runes n)
    [mkTok (1, 0) TkNumber (utf8_encode (hex_runes n));
     mkTok (advance (1, 0) (removelast (hex_runes n))) TkEOF EmptyString] /\
  classify_number pf (utf8_encode (hex_runes n)) = LitInt n.
Proof.
  intros ul ud us pf n H. destruct (int_hex_canonical ul ud us pf n H) as [A B].
  split; [apply source_lexes_of_model; exact A|exact B].
Qed.

(* ---- (3) floats *)
Theorem src_float_class : forall ul ud us pf n,
  num_ok n = true -> float_sp n = true ->
  source_lexes ul ud us (num_runes n)
    [mkTok (1, 0) TkNumber (utf8_encode (num_runes n));
     mkTok (advance (1, 0) (removelast (num_runes n))) TkEOF EmptyString] /\
  classify_number pf (utf8_encode (num_runes n)) =
    match pf (utf8_encode (filter not_us (num_runes n))) with
    | Some f => LitFloat f
    | None => LitErr
    end.
Proof.
  intros ul ud us pf n H1 H2. destruct (float_literal ul ud us pf n H1 H2) as [A B].
  split; [apply source_lexes_of_model; exact A|exact B].
Qed.

(* ---- (4) positions *)
Theorem src_positions : forall ul ud us items trail,
  layout_ok ul ud us items trail = true ->
  source_lexes ul ud us (layout items trail)
    (expected (1, 0) items ++ [mkTok (lastpos (1, 0) (1, 0) (layout items trail)) TkEOF EmptyString]).
Proof. intros. apply source_lexes_of_model. apply positions_hold; assumption. Qed.

(* Bridge/BrLexer.v — the model lexer Lex/Lexer.v IS the interpretation of the functions regenerated from
   /repo/parser/lexer/{lexer,state,utils}.go (gen/GenLexer.v, DSL and interpreter in Lex/LexRules.v).

   Stage 1 (Bridge/BrLexerLx.v, BrLexerSt.v, BrLexerRoot.v, assembled in Bridge/BrLexerFns.v; one lemma `<f>_bridge`
   per Go function, so that a failure names the culprit):
   running the regenerated statements of f with the interpreter, every callee answering as `spec` says, gives
   `spec "f"`, i.e. the Gallina function `g_f` of Lex/LexRulesProofs.v over the Go-shaped state; `funs_ok` ties the
   knot along the call order of `lexer_funs`.
   Stage 2 (Lex/LexRulesProofs.v): `g_f` on a state g computes what `Lexer.f` computes on `abs g`, under the
   invariant `wf g` (0 <= start <= end <= len(input)).
   Here: `<f>_is_model` per function, `gen_lex_is_lex`: the driver over the regenerated state functions, with the
   fuel of the model, equals `Lexer.lex` on EVERY input, `gen_Lex_is_lex` for the regenerated `Lex` itself, and the
   escape table of unescapeChar against Lexer.unescapeChar. *)
From Coq Require Import ZArith List Bool String Ascii Lia.
Require Import X.Base.Value X.Syn.Tok X.Lex.Lexer X.Lex.LexRules X.Lex.LexRulesProofs X.gen.GenLexer X.Bridge.BrLexerFns.
Import ListNotations.
Local Open Scope string_scope.
Open Scope Z_scope.

(* ================================================================== the model is the source *)
Definition of_lex (r : lex_result) : gen_result :=
  match r with LexOk ts => GenOk ts | LexErr e => GenErr e | LexOutOfFuel => GenOutOfFuel end.

Section Model.
Variables ul ud us : Z -> bool.
Variable F : nat.

Notation run := (sem_of ul ud us F lexer_funs).

(* a call of a regenerated function: its `spec` *)
Lemma run_spec : forall name args g,
  mem_name name (tl lexer_funs) = true -> typed name args = true ->
  run name args g = spec ul ud us F name args g.
Proof.
  intros name args g Hin T. change lexer_funs with (fn_Lex :: tl lexer_funs).
  destruct (String.eqb (fn_name fn_Lex) name) eqn:E.
  - apply String.eqb_eq in E. subst name. vm_compute in Hin. discriminate Hin.
  - rewrite sem_of_skip by exact E. apply (funs_ok ul ud us F name Hin args g T).
Qed.

(* the result of a call: values, and a state that stands for the model state l *)
Definition ret (r : res (list val)) (vs : list val) (l : lexer) : Prop :=
  exists g', r = Ok vs g' /\ abs g' = l /\ wf g'.

Ltac by_spec := rewrite run_spec by (vm_compute; reflexivity); lazy [spec String.eqb Ascii.eqb Bool.eqb rZ rB rU rS oF]; cbn [fst snd].

(* one lemma per Go function: interpreting the REGENERATED term on a state g gives what the model function gives on
   `abs g` (invariant `wf`; `bk` for backup; the fuel for the functions with loops) *)
Lemma next_is_model : forall g, wf g ->
  ret (run "next" [] g) [VInt (fst (next (abs g)))] (snd (next (abs g))).
Proof.
  intros g W. by_spec. destruct (next_sim g W) as (N1 & N2 & N3 & _).
  exists (snd (g_next g)). rewrite N1. split; [reflexivity|]. split; [exact N2|exact (st_wf _ _ N3)].
Qed.

Lemma backup_is_model : forall g, wf g -> bk g -> ret (run "backup" [] g) [] (backup (abs g)).
Proof.
  intros g W B. by_spec. destruct (backup_sim g W B) as (B1 & B2 & _).
  exists (g_backup g). split; [reflexivity|]. split; assumption.
Qed.

Lemma peek_is_model : forall g, wf g -> ret (run "peek" [] g) [VInt (fst (peek (abs g)))] (snd (peek (abs g))).
Proof.
  intros g W. by_spec. destruct (peek_sim g W) as (P1 & P2 & P3 & _).
  exists (snd (g_peek g)). rewrite P1. split; [reflexivity|]. split; [exact P2|exact (st_wf _ _ P3)].
Qed.

Lemma word_is_model : forall g, wf g -> ret (run "word" [] g) [VRunes (word (abs g))] (abs g).
Proof. intros g W. by_spec. exists g. rewrite word_sim. split; [reflexivity|]. split; [reflexivity|exact W]. Qed.

Lemma emitValue_is_model : forall k s g, wf g ->
  ret (run "emitValue" [VKind k; VBytes s] g) [] (emitValue k s (abs g)).
Proof.
  intros k s g W. by_spec. destruct (emitValue_sim k s g W) as (E1 & E2).
  exists (g_emitValue k s g). split; [reflexivity|]. split; [exact E1|exact (em_wf _ _ E2)].
Qed.

Lemma emit_is_model : forall k g, wf g -> ret (run "emit" [VKind k] g) [] (emit k (abs g)).
Proof.
  intros k g W. by_spec. destruct (emit_sim k g W) as (E1 & E2).
  exists (g_emit k g). split; [reflexivity|]. split; [exact E1|exact (em_wf _ _ E2)].
Qed.

Lemma emitEOF_is_model : forall g, wf g -> ret (run "emitEOF" [] g) [] (emitEOF (abs g)).
Proof.
  intros g W. by_spec. destruct (emitEOF_sim g W) as (E1 & E2).
  exists (g_emitEOF g). split; [reflexivity|]. split; [exact E1|exact (em_wf _ _ E2)].
Qed.

Lemma ignore_is_model : forall g, wf g -> ret (run "ignore" [] g) [] (ignore (abs g)).
Proof.
  intros g W. by_spec. destruct (ignore_sim g W) as (E1 & E2).
  exists (g_ignore g). split; [reflexivity|]. split; [exact E1|exact (em_wf _ _ E2)].
Qed.

Lemma error_is_model : forall g, wf g -> ret (run "error" [] g) [VNil] (set_error (abs g)).
Proof.
  intros g W. by_spec. exists (g_error g). split; [reflexivity|]. split; [apply error_sim|].
  apply (st_wf _ _ (emitted_error g W)).
Qed.

Lemma accept_is_model : forall valid g, wf g ->
  ret (run "accept" [VRunes valid] g) [VBool (fst (accept valid (abs g)))] (snd (accept valid (abs g))).
Proof.
  intros valid g W. by_spec. destruct (accept_sim valid g W) as (A1 & A2 & A3 & _).
  exists (snd (g_accept valid g)). rewrite A1. split; [reflexivity|]. split; [exact A2|exact (st_wf _ _ A3)].
Qed.

Lemma acceptRun_is_model : forall valid g, mem (-1) valid = false -> wf g -> rl g < Z.of_nat F ->
  ret (run "acceptRun" [VRunes valid] g) [] (acceptRun valid (abs g)).
Proof.
  intros valid g Hv W HF. by_spec. destruct (acceptRun_sim F valid g Hv W HF) as (g' & G1 & G2 & G3).
  rewrite G1. exists g'. split; [reflexivity|]. split; [exact G2|exact (st_wf _ _ G3)].
Qed.

Lemma acceptWord_is_model : forall w g, wf g -> rl g < Z.of_nat F ->
  ret (run "acceptWord" [VRunes w] g) [VBool (fst (acceptWord w (abs g)))] (snd (acceptWord w (abs g))).
Proof.
  intros w g W HF. by_spec. destruct (acceptWord_sim F w g W HF) as (ok & g' & G1 & G2 & G3).
  rewrite G1. rewrite <- G2. exists g'. split; [reflexivity|]. split; [reflexivity|exact (st_wf _ _ G3)].
Qed.

(* `lower` has no counterpart in the model: digitVal is stated on the three ranges directly *)
Lemma lower_is_bit_or : forall ch g, run "lower" [VInt ch] g = Ok [VInt (Z.lor 32 ch)] g.
Proof. intros ch g. by_spec. reflexivity. Qed.

Lemma digitVal_is_model : forall ch g, run "digitVal" [VInt ch] g = Ok [VInt (digitVal ch)] g.
Proof. intros ch g. by_spec. rewrite digitVal_sim. reflexivity. Qed.

Lemma scanDigits_is_model : forall ch base n g, wf g -> (n < F)%nat ->
  ret (run "scanDigits" [VInt ch; VInt base; VInt (Z.of_nat n)] g)
      [VInt (fst (scanDigits ch base n (abs g)))] (snd (scanDigits ch base n (abs g))).
Proof.
  intros ch base n g W HF. by_spec. destruct (scanDigits_sim F base n ch g W HF) as (c & g' & G1 & G2 & G3).
  rewrite G1, <- G2. exists g'. split; [reflexivity|]. split; [reflexivity|exact (st_wf _ _ G3)].
Qed.

Lemma scanEscape_is_model : forall q g, wf g -> (8 < F)%nat ->
  ret (run "scanEscape" [VInt q] g) [VInt (fst (scanEscape q (abs g)))] (snd (scanEscape q (abs g))).
Proof.
  intros q g W HF. by_spec. destruct (scanEscape_sim F q g W HF) as (c & g' & G1 & G2 & G3 & _).
  rewrite G1, <- G2. exists g'. split; [reflexivity|]. split; [reflexivity|exact (st_wf _ _ G3)].
Qed.

(* the count n that scanString returns is not part of the model (no caller reads it) *)
Lemma scanString_is_model : forall q g, wf g -> rl g + 10 <= Z.of_nat F ->
  exists n, ret (run "scanString" [VInt q] g) [VInt n] (scanString q (abs g)).
Proof.
  intros q g W HF. by_spec. destruct (scanString_sim F q g W HF) as (cnt & g' & G1 & G2 & G3).
  rewrite G1. exists cnt, g'. split; [reflexivity|]. split; [exact G2|exact (st_wf _ _ G3)].
Qed.

Lemma IsSpace_is_model : forall r g, run "IsSpace" [VInt r] g = Ok [VBool (is_space us r)] g.
Proof. intros r g. by_spec. reflexivity. Qed.

Lemma IsAlphabetic_is_model : forall r g, run "IsAlphabetic" [VInt r] g = Ok [VBool (is_alphabetic ul r)] g.
Proof. intros r g. by_spec. reflexivity. Qed.

Lemma IsAlphaNumeric_is_model : forall r g, run "IsAlphaNumeric" [VInt r] g = Ok [VBool (is_alnum ul ud r)] g.
Proof. intros r g. by_spec. reflexivity. Qed.

Lemma scanNumber_is_model : forall g, wf g -> rl g < Z.of_nat F ->
  ret (run "scanNumber" [] g) [VBool (fst (scanNumber ul ud (abs g)))] (snd (scanNumber ul ud (abs g))).
Proof.
  intros g W HF. by_spec. destruct (scanNumber_sim ul ud F g W HF) as (ok & g' & G1 & G2 & G3).
  rewrite G1, <- G2. exists g'. split; [reflexivity|]. split; [reflexivity|exact (st_wf _ _ G3)].
Qed.

(* the state functions: root, number, dot, nilsafe, identifier, not *)
Lemma state_fn_is_model : forall st g, wf g -> rl g + 10 <= Z.of_nat F ->
  ret (run (stfn_name st) [] g) [vfn (fst (step ul ud us st (abs g)))] (snd (step ul ud us st (abs g))).
Proof.
  intros st g W HF. destruct (step_sim ul ud us F st g W HF) as (o & g' & G1 & G2 & G3).
  rewrite <- G2. cbn [fst snd]. exists g'. split; [|split; [reflexivity|exact (af_wf _ _ G3)]].
  destruct st; cbn [stfn_name g_step] in *; by_spec; try rewrite G1; try reflexivity.
  - rewrite (surjective_pairing (g_dot g)) in G1. injection G1 as <- <-. reflexivity.
  - rewrite (surjective_pairing (g_nilsafe g)) in G1. injection G1 as <- <-. reflexivity.
Qed.

Corollary root_is_model : forall g, wf g -> rl g + 10 <= Z.of_nat F ->
  ret (run "root" [] g) [vfn (fst (step ul ud us SRoot (abs g)))] (snd (step ul ud us SRoot (abs g))).
Proof. exact (state_fn_is_model SRoot). Qed.
Corollary number_is_model : forall g, wf g -> rl g + 10 <= Z.of_nat F ->
  ret (run "number" [] g) [vfn (fst (step ul ud us SNumber (abs g)))] (snd (step ul ud us SNumber (abs g))).
Proof. exact (state_fn_is_model SNumber). Qed.
Corollary dot_is_model : forall g, wf g -> rl g + 10 <= Z.of_nat F ->
  ret (run "dot" [] g) [vfn (fst (step ul ud us SDot (abs g)))] (snd (step ul ud us SDot (abs g))).
Proof. exact (state_fn_is_model SDot). Qed.
Corollary nilsafe_is_model : forall g, wf g -> rl g + 10 <= Z.of_nat F ->
  ret (run "nilsafe" [] g) [vfn (fst (step ul ud us SNilsafe (abs g)))] (snd (step ul ud us SNilsafe (abs g))).
Proof. exact (state_fn_is_model SNilsafe). Qed.
Corollary identifier_is_model : forall g, wf g -> rl g + 10 <= Z.of_nat F ->
  ret (run "identifier" [] g) [vfn (fst (step ul ud us SIdentifier (abs g)))] (snd (step ul ud us SIdentifier (abs g))).
Proof. exact (state_fn_is_model SIdentifier). Qed.
Corollary not_is_model : forall g, wf g -> rl g + 10 <= Z.of_nat F ->
  ret (run "not" [] g) [vfn (fst (step ul ud us SNot (abs g)))] (snd (step ul ud us SNot (abs g))).
Proof. exact (state_fn_is_model SNot). Qed.

(* ---------------------------------------------------------------- the driver *)
Lemma gen_step_spec : forall st g,
  gen_step ul ud us F lexer_funs st g =
  match g_step ul ud us F st g with Some (o, g') => Ok o g' | None => OutOfFuel end.
Proof.
  intros st g. unfold gen_step.
  destruct st; cbn [stfn_name g_step]; by_spec.
  - destruct (g_root ul ud us F g) as [[[st'|] g']|]; reflexivity.
  - destruct (g_number ul ud F g) as [[[st'|] g']|]; reflexivity.
  - destruct (g_dot g) as [[st'|] g']; reflexivity.
  - destruct (g_nilsafe g) as [[st'|] g']; reflexivity.
  - destruct (g_identifier ul ud F g) as [[[st'|] g']|]; reflexivity.
  - destruct (g_not F g) as [[[st'|] g']|]; reflexivity.
Qed.

Lemma gen_lex_fuel_spec : forall fuel st g,
  gen_lex_fuel ul ud us F lexer_funs fuel st g =
  match g_lex_fuel ul ud us F fuel st g with Some (Some g') => Ok tt g' | _ => OutOfFuel end.
Proof.
  induction fuel as [|fuel IH]; intros st g; [reflexivity|].
  cbn [gen_lex_fuel g_lex_fuel]. rewrite gen_step_spec.
  destruct (g_step ul ud us F st g) as [[[st'|] g']|]; cbn [bind]; [apply IH|reflexivity|reflexivity].
Qed.
End Model.

(* the driver over the regenerated state functions, with the fuel of the model, IS Lexer.lex *)
Theorem gen_lex_is_lex : forall ul ud us input,
  gen_lex ul ud us lexer_funs input = of_lex (lex ul ud us input).
Proof.
  intros ul ud us input. unfold gen_lex, lex. rewrite gen_lex_fuel_spec.
  destruct (init_sim input) as (I1 & I2 & I3).
  destruct (lex_fuel_sim ul ud us (List.length input + 10) (2 * List.length input + 2) SRoot (g_init input) I2)
    as (r & R1 & R2); [rewrite I3; lia|].
  rewrite R1. rewrite I1 in R2. rewrite <- R2.
  destruct r as [g'|]; cbn [option_map]; [|reflexivity].
  change (l_err (abs g')) with (g_err g'). destruct (g_err g'); [reflexivity|].
  change (l_tokens (abs g')) with (rev (g_tokens g')). rewrite rev_involutive. reflexivity.
Qed.

(* the regenerated lexer never crashes (no ill-typed operation, no unrecognised statement is reached) *)
Corollary gen_lex_never_crashes : forall ul ud us input w, gen_lex ul ud us lexer_funs input <> GenCrash w.
Proof. intros ul ud us input w. rewrite gen_lex_is_lex. destruct (lex ul ud us input); discriminate. Qed.

(* `Lex` itself, loop included, run by the interpreter: whenever the model's fuel is enough (Lexer.lex does not
   answer LexOutOfFuel) the interpretation of the regenerated `Lex` returns the model's result *)
Lemma lex_loop_of_fuel : forall ul ud us F fuel n st g g',
  g_lex_fuel ul ud us F fuel st g = Some (Some g') -> (fuel < n)%nat ->
  g_lex_loop ul ud us F n (Some st) g = Some g'.
Proof.
  intros ul ud us F. induction fuel as [|fuel IH]; intros n st g g' H Hn; [discriminate H|].
  destruct n as [|n]; [lia|]. cbn [g_lex_fuel] in H. cbn [g_lex_loop].
  destruct (g_step ul ud us F st g) as [[[st'|] g1]|]; [|injection H as <-|discriminate H].
  - apply IH; [exact H|lia].
  - destruct n; [lia|reflexivity].
Qed.

Theorem gen_Lex_is_lex : forall ul ud us input, lex ul ud us input <> LexOutOfFuel ->
  gen_Lex ul ud us (2 * List.length input + 10) lexer_funs input = of_lex (lex ul ud us input).
Proof.
  intros ul ud us input Hfuel. unfold gen_Lex. rewrite Lex_ok. unfold g_Lex. revert Hfuel. unfold lex.
  destruct (init_sim input) as (I1 & I2 & I3).
  destruct (lex_fuel_sim ul ud us (2 * List.length input + 10) (2 * List.length input + 2) SRoot (g_init input) I2)
    as (r & R1 & R2); [rewrite I3; lia|].
  rewrite I1 in R2. rewrite <- R2. destruct r as [g'|]; cbn [option_map]; [|intros C; exfalso; apply C; reflexivity].
  intros _. rewrite (lex_loop_of_fuel _ _ _ _ _ (2 * List.length input + 10) _ _ _ R1) by lia.
  change (l_err (abs g')) with (g_err g'). destruct (g_err g'); [reflexivity|].
  change (l_tokens (abs g')) with (rev (g_tokens g')). rewrite rev_involutive. reflexivity.
Qed.

(* ================================================================== the escape table of unescapeChar *)
(* what Lexer.unescapeChar does with the character after a backslash, read off the model *)
Definition model_esc_char (e : Z) : option Z :=
  match unescapeChar [92; e] with Some (v, false, []) => Some v | _ => None end.

(* the regenerated switch and the model agree on every one-character escape, on the letters that open a hex
   escape with their digit counts, and on the digits that open an octal escape (all 256 byte values) *)
Definition esc_table_agrees : bool :=
  forallb (fun n =>
    let e := Z.of_nat n in
    match esc_char_lookup unescape_escapes e with
    | Some v => match model_esc_char e with Some v' => v =? v' | None => false end
    | None =>
      match model_esc_char e with Some _ => false | None => true end
    end) (seq 0 256).

Definition model_hex_digits (e : Z) : option Z :=
  if (e =? 120) || (e =? 88) then Some 2 else if e =? 117 then Some 4 else if e =? 85 then Some 8 else None.

Definition esc_hex_agrees : bool :=
  forallb (fun n =>
    let e := Z.of_nat n in
    match esc_hex_lookup unescape_escapes e, model_hex_digits e with
    | Some a, Some b => a =? b
    | None, None => true
    | _, _ => false
    end) (seq 0 256).

Definition esc_oct_agrees : bool :=
  forallb (fun n => let e := Z.of_nat n in Bool.eqb (esc_oct_lookup unescape_escapes e) ((48 <=? e) && (e <=? 51))) (seq 0 256).

Lemma unescapeChar_escapes_bridge : esc_table_agrees = true.
Proof. vm_compute. reflexivity. Qed.

Lemma unescapeChar_hex_bridge : esc_hex_agrees = true.
Proof. vm_compute. reflexivity. Qed.

Lemma unescapeChar_octal_bridge : esc_oct_agrees = true.
Proof. vm_compute. reflexivity. Qed.

(* the model's hex branch really uses the digit counts of `model_hex_digits`: \xHH, \uHHHH, \UHHHHHHHH *)
Example model_hex_counts :
  unescapeChar (92 :: 120 :: rs "41Z") = Some (65, true, rs "Z") /\
  unescapeChar (92 :: 88 :: rs "41Z") = Some (65, true, rs "Z") /\
  unescapeChar (92 :: 117 :: rs "0041Z") = Some (65, true, rs "Z") /\
  unescapeChar (92 :: 85 :: rs "00000041Z") = Some (65, true, rs "Z") /\
  unescapeChar (92 :: 117 :: rs "041") = None.
Proof. vm_compute. repeat split; reflexivity. Qed.

(* ================================================================== non-vacuity *)
Definition no_uni (r : Z) : bool := false.
Definition example_input : list Z := rs "a.b ?. 1..2 not in 'x\n' 0x1f".
Definition example_tokens : list token :=
  [mkTok (1, 0) TkIdentifier "a"; mkTok (1, 1) TkOperator "."; mkTok (1, 2) TkIdentifier "b";
   mkTok (1, 4) TkOperator "?."; mkTok (1, 7) TkNumber "1"; mkTok (1, 8) TkOperator "..";
   mkTok (1, 10) TkNumber "2"; mkTok (1, 12) TkOperator "not in";
   mkTok (1, 19) TkString (String "x" (String (ascii_of_nat 10) EmptyString));
   mkTok (1, 25) TkNumber "0x1f"; mkTok (1, 28) TkEOF ""].
Example gen_lex_example : gen_lex no_uni no_uni no_uni lexer_funs example_input = GenOk example_tokens.
Proof. vm_compute. reflexivity. Qed.

Example gen_Lex_example :
  gen_Lex no_uni no_uni no_uni 40 lexer_funs (rs "1 + 'a") = GenErr (1, 6).
Proof. vm_compute. reflexivity. Qed.

(* Bridge/BrCapstoneC16.v — C16 capstones: the main theorems of Ty/TyProofs.v (about the hand model Ty/TypesTable.v)
   composed with the regeneration bridges Bridge/BrTables.v (conf/types_table.go), Bridge/BrMembers.v (checker/types.go
   fieldType / methodType) and Bridge/BrDocgen.v (docgen.CreateDoc), so that the statements mention only
     source_table te perm F env         the interpretation of the REGENERATED conf.CreateTypesTable
     source_field_type / source_method_type   the interpretation of the REGENERATED fieldType / methodType
     source_check_path, source_check_access   member path / call position resolved with THOSE lookups over THAT table
     source_doc_keys perm permk tb      the interpretation of the REGENERATED docgen.CreateDoc
   the run-time side (run_access, populate) and the reference (go_resolve).  The side conditions of the bridges are
   decidable: env_in_fragment, te_plain, member_te_ok, fuel bounds, src_path_ok / src_access_ok (every type met on the
   path is `plain`, acyclic, within the fuel), fuel_ok (acyclic embedding). *)
From Coq Require Import ZArith Bool List String Arith Lia Permutation.
Require Import X.Base.Num X.Base.Value X.Ty.Types X.Ty.TypesTable X.Ty.TyProofs.
Require Import X.Ty.TableRules X.gen.GenTables X.Bridge.BrTables.
Require Import X.Ty.MemberRules X.gen.GenMembers X.Bridge.BrMembersBase X.Bridge.BrMembers.
Require X.Ty.DocRules.
Require Import X.gen.GenDocgen X.Bridge.BrDocgen.
Import ListNotations.
Local Open Scope nat_scope.

(* ------------------------------------------------------------------ the regenerated terms *)
Definition source_table (te : tenv) (perm : table -> table) (F : nat) (env : envty) : res table :=
  gen_create_types_table GenTables.funcs te perm F env.

Definition source_field_type (te : tenv) (F : nat) (t : ty) (name : string) : res (option ty) :=
  gen_field_type member_funcs member_consts te F t name.

Definition source_method_type (te : tenv) (F : nat) (t : ty) (name : string) : res (option (ty * bool)) :=
  gen_method_type member_funcs member_consts te F t name.

Definition source_doc_keys (perm : table -> table) (permk : list string -> list string) (tb : table) : X.Ty.DocRules.res (list string) :=
  X.Ty.DocRules.run_doc doc_src perm permk tb.

(* member path t.n1.n2...: every step by the regenerated fieldType; None = not accepted (missing member, or the
   interpretation did not finish) *)
Fixpoint source_check_path (te : tenv) (F : nat) (t : ty) (ns : list string) : option ty :=
  match ns with
  | [] => Some t
  | n :: r => match source_field_type te F t n with Got (Some t') => source_check_path te F t' r | _ => None end
  end.

Definition lk_opt {A} (x : lk A) : option A := match x with LFound a => Some a | _ => None end.

Definition source_check_access (te : tenv) (F : nat) (tb : table) (a : access) : option cres :=
  match a with
  | APath n0 ns =>
      match check_ident tb n0 with
      | LFound t0 => option_map CVal (source_check_path te F t0 ns)
      | _ => None
      end
  | AMethod n0 ns m =>
      match check_ident tb n0 with
      | LFound t0 =>
          match source_check_path te F t0 ns with
          | Some t => match source_method_type te F t m with
                      | Got (Some fm) => lk_opt (check_call (fst fm) (snd fm))
                      | _ => None
                      end
          | None => None
          end
      | _ => None
      end
  | AFunc n => match tget n tb with Some tg => lk_opt (check_call (tg_ty tg) (tg_method tg)) | None => None end
  end.

(* decidable side condition of the member bridges along a path *)
Fixpoint src_path_ok (te : tenv) (F : nat) (t : ty) (ns : list string) : bool :=
  match ns with
  | [] => true
  | n :: r =>
      plain t && fuel_ok te (fuel0 te) t && (field_fuel te (fuel0 te) t <=? F) &&
      match source_field_type te F t n with Got (Some t') => src_path_ok te F t' r | _ => true end
  end.

Definition src_end_ok (te : tenv) (F : nat) (t0 : ty) (ns : list string) : bool :=
  match source_check_path te F t0 ns with
  | Some t => member_ty_ok t && fuel_ok te (fuel0 te) t && (method_fuel (fuel0 te) <=? F)
  | None => true
  end.

Definition src_access_ok (te : tenv) (F : nat) (tb : table) (a : access) : bool :=
  match a with
  | APath n0 ns => match check_ident tb n0 with LFound t0 => src_path_ok te F t0 ns | _ => true end
  | AMethod n0 ns m =>
      match check_ident tb n0 with LFound t0 => src_path_ok te F t0 ns && src_end_ok te F t0 ns | _ => true end
  | AFunc _ => true
  end.

(* the embedding below the environment's struct is acyclic (on a cycle the real FieldsFromStruct does not return) *)
Definition env_acyclic (te : tenv) (env : envty) : bool :=
  match env with
  | EStruct t => match elem1 t with TStruct sn => fuel_ok te (fuel0 te) (TStruct sn) | _ => true end
  | EMap _ _ => true
  end.

(* ------------------------------------------------------------------ regenerated = model, in the direction the capstones need *)
Lemma model_table_defined : forall te perm env, (forall l, Permutation (perm l) l) -> env_acyclic te env = true ->
  exists tb, create_types_table te perm env = Some tb.
Proof.
  intros te perm env Hp H. destruct env as [t|mt entries]; cbn [create_types_table env_acyclic] in *.
  - destruct (elem1 t); try (eexists; reflexivity).
    destruct (proj2 (ffs_defined te perm (fuel0 te) (TStruct name)) H) as [tb0 E]. rewrite E. eexists; reflexivity.
  - destruct (under (elem1 mt)); try (eexists; reflexivity). destruct t1; eexists; reflexivity.
Qed.

Lemma source_table_is_model : forall te perm F env tb, (forall l, Permutation (perm l) l) ->
  env_acyclic te env = true -> env_in_fragment env = true -> te_plain te = true -> tables_fuel te <= F ->
  source_table te perm F env = Got tb -> create_types_table te perm env = Some tb.
Proof.
  intros te perm F env tb Hp Ha Hf Hte HF S.
  destruct (model_table_defined te perm env Hp Ha) as [tb' E].
  pose proof (create_types_table_bridge te perm env tb' F (fun l e H => Permutation_in e (Hp l) H) E Hf Hte HF) as B.
  unfold source_table in S. rewrite B in S. injection S as ->. exact E.
Qed.

Lemma structish_acyclic : forall te T sn, structish T = Some sn -> fuel_ok te (fuel0 te) (TStruct sn) = true ->
  env_acyclic te (EStruct T) = true.
Proof.
  intros te T sn St H. destruct (structish_cases T sn St) as [-> | ->]; cbn [env_acyclic elem1]; exact H.
Qed.

Lemma source_field_type_is_model : forall te F t n, te_plain te = true ->
  plain t = true -> fuel_ok te (fuel0 te) t = true -> field_fuel te (fuel0 te) t <= F ->
  source_field_type te F t n = lk_res (field_type te (fuel0 te) t n).
Proof.
  intros te F t n Hte Hp Hf HF. unfold source_field_type.
  apply field_type_bridge; [exact Hp|exact Hte|apply field_type_in_fuel; assumption|exact HF].
Qed.

Lemma source_check_path_is_model : forall te F, te_plain te = true ->
  forall ns t, src_path_ok te F t ns = true -> source_check_path te F t ns = lk_opt (check_path te t ns).
Proof.
  intros te F Hte. induction ns as [|n r IH]; intros t Hok; cbn [source_check_path check_path src_path_ok] in *; [reflexivity|].
  apply andb_prop in Hok. destruct Hok as [Hok Hr]. apply andb_prop in Hok. destruct Hok as [Hok HF].
  apply andb_prop in Hok. destruct Hok as [Hp Hf]. apply Nat.leb_le in HF.
  rewrite (source_field_type_is_model te F t n Hte Hp Hf HF) in *.
  destruct (field_type te (fuel0 te) t n) as [t'| |]; cbn [lk_res lbind lk_opt] in *; [apply IH; exact Hr|reflexivity|reflexivity].
Qed.

Lemma lk_opt_some : forall A (x : lk A) a, lk_opt x = Some a -> x = LFound a.
Proof. intros A [b| |] a H; cbn in H; try discriminate. injection H as ->. reflexivity. Qed.

Lemma source_check_access_is_model : forall te F tb a c, member_te_ok te = true ->
  src_access_ok te F tb a = true -> source_check_access te F tb a = Some c -> check_access te tb a = LFound c.
Proof.
  intros te F tb a c Hme Hok H. pose proof (member_te_plain te Hme) as Hte.
  destruct a as [n0 ns|n0 ns m|n]; cbn [source_check_access check_access src_access_ok] in *.
  - destruct (check_ident tb n0) as [t0| |]; try discriminate H. cbn [lbind].
    rewrite (source_check_path_is_model te F Hte ns t0 Hok) in H.
    destruct (check_path te t0 ns) as [t| |]; cbn in H; try discriminate H. injection H as <-. reflexivity.
  - destruct (check_ident tb n0) as [t0| |]; try discriminate H. cbn [lbind].
    apply andb_prop in Hok. destruct Hok as [Hok He]. unfold src_end_ok in He.
    rewrite (source_check_path_is_model te F Hte ns t0 Hok) in H, He.
    destruct (check_path te t0 ns) as [t| |]; cbn [lk_opt] in H, He; try discriminate H. cbn [lbind].
    apply andb_prop in He. destruct He as [He HF]. apply andb_prop in He. destruct He as [Hm Hf]. apply Nat.leb_le in HF.
    unfold source_method_type in H.
    rewrite (method_type_bridge te (fuel0 te) t m F Hm Hme (method_type_in_fuel te (fuel0 te) t m Hme Hm Hf) HF) in H.
    destruct (method_type te (fuel0 te) t m) as [fm| |]; cbn [lk_res lbind] in *; try discriminate H.
    apply lk_opt_some. exact H.
  - destruct (tget n tb) as [tg|]; [apply lk_opt_some; exact H|discriminate H].
Qed.

(* ------------------------------------------------------------------ capstones: accepted => resolves with the assumed type *)
Section Cap.
Variable te : tenv.
Variable perm : table -> table.
Variables Ft F : nat.
Hypothesis Hperm : valid_perm perm.
Hypothesis Hwf : wf_tenv te = true.
Hypothesis Hme : member_te_ok te = true.
Hypothesis HFt : tables_fuel te <= Ft.

Let Hte : te_plain te = true := member_te_plain te Hme.

(* identifier and member path *)
Theorem src_accepted_resolves_path : forall T sn tb n0 ns tau keys k,
  structish T = Some sn -> fuel_ok te (fuel0 te) (TStruct sn) = true -> env_in_fragment (EStruct T) = true ->
  source_table te perm Ft (EStruct T) = Got tb ->
  src_access_ok te F tb (APath n0 ns) = true ->
  source_check_access te F tb (APath n0 ns) = Some (CVal tau) ->
  (forall t0, check_ident tb n0 = LFound t0 -> path_scope te keys t0 ns = true) ->
  S (List.length ns) * fuel0 te <= k ->
  K_method_ident te T n0 = false ->
  (forall t0, check_ident tb n0 = LFound t0 ->
     path_K te (K_unexported_step te) t0 ns = false /\ path_K te (K_member_multi te) t0 ns = false) ->
  exists v, run_access te false (populate te keys k T) (APath n0 ns) = Ok v /\ conforms v tau.
Proof.
  intros T sn tb n0 ns tau keys k St Hf Hfr S Hok A Hsc Hk K1 K2.
  pose proof (source_table_is_model te perm Ft (EStruct T) tb Hperm (structish_acyclic te T sn St Hf) Hfr Hte HFt S) as C.
  pose proof (source_check_access_is_model te F tb _ _ Hme Hok A) as A'.
  exact (accepted_resolves_path te perm Hperm Hwf T sn tb n0 ns tau keys k St C A' Hsc Hk K1 K2).
Qed.

(* function position: FULL strength (no carve-out) *)
Theorem src_accepted_resolves_func : forall T sn tb n c keys k,
  structish T = Some sn -> fuel_ok te (fuel0 te) (TStruct sn) = true -> env_in_fragment (EStruct T) = true ->
  source_table te perm Ft (EStruct T) = Got tb ->
  source_check_access te F tb (AFunc n) = Some c -> fuel0 te <= k ->
  exists v, run_access te false (populate te keys k T) (AFunc n) = Ok v /\ cres_conforms v c.
Proof.
  intros T sn tb n c keys k St Hf Hfr S A Hk.
  pose proof (source_table_is_model te perm Ft (EStruct T) tb Hperm (structish_acyclic te T sn St Hf) Hfr Hte HFt S) as C.
  pose proof (source_check_access_is_model te F tb (AFunc n) c Hme eq_refl A) as A'.
  exact (accepted_resolves_func te perm Hperm Hwf T sn tb n c keys k St C A' Hk).
Qed.

(* method position; the carve-outs of Ty/TyProofs.v stated at the type the REGENERATED path resolution reaches *)
Theorem src_accepted_resolves_method : forall T sn tb n0 ns m c keys k,
  structish T = Some sn -> fuel_ok te (fuel0 te) (TStruct sn) = true -> env_in_fragment (EStruct T) = true ->
  source_table te perm Ft (EStruct T) = Got tb ->
  src_access_ok te F tb (AMethod n0 ns m) = true ->
  source_check_access te F tb (AMethod n0 ns m) = Some c ->
  (forall t0, check_ident tb n0 = LFound t0 -> path_scope te keys t0 ns = true) ->
  S (S (List.length ns)) * fuel0 te <= k ->
  K_method_ident te T n0 = false ->
  (forall t0, check_ident tb n0 = LFound t0 ->
     path_K te (K_unexported_step te) t0 ns = false /\ path_K te (K_member_multi te) t0 ns = false) ->
  (forall t0 t, check_ident tb n0 = LFound t0 -> source_check_path te F t0 ns = Some t ->
     K_promoted_only te t m = false /\
     (method_by_name te t m = None ->
        exists sn' f, structish t = Some sn' /\ method_type te (fuel0 te) t m = LFound (f, false)
                      /\ field_type te (fuel0 te) t m = LFound f
                      /\ scope_step te keys t m = true /\ K_unexported_step te t m = false /\ K_member_multi te t m = false)) ->
  exists v, run_access te false (populate te keys k T) (AMethod n0 ns m) = Ok v /\ cres_conforms v c.
Proof.
  intros T sn tb n0 ns m c keys k St Hf Hfr S Hok A Hsc Hk K1 K2 K3.
  pose proof (source_table_is_model te perm Ft (EStruct T) tb Hperm (structish_acyclic te T sn St Hf) Hfr Hte HFt S) as C.
  pose proof (source_check_access_is_model te F tb _ _ Hme Hok A) as A'.
  apply (accepted_resolves_method te perm Hperm Hwf T sn tb n0 ns m c keys k St C A' Hsc Hk K1 K2).
  intros t0 t I P. apply (K3 t0 t I).
  cbn [src_access_ok] in Hok. rewrite I in Hok. apply andb_prop in Hok.
  rewrite (source_check_path_is_model te F Hte ns t0 (proj1 Hok)), P. reflexivity.
Qed.

(* ------------------------------------------------------------------ struct completeness, both directions *)
Theorem src_struct_complete : forall T sn tb name p tau,
  structish T = Some sn -> fuel_ok te (fuel0 te) (TStruct sn) = true -> env_in_fragment (EStruct T) = true ->
  source_table te perm Ft (EStruct T) = Got tb ->
  go_resolve te T name = RField p tau true ->
  check_ident tb name = LFound tau.
Proof.
  intros T sn tb name p tau St Hf Hfr S G.
  pose proof (source_table_is_model te perm Ft (EStruct T) tb Hperm (structish_acyclic te T sn St Hf) Hfr Hte HFt S) as C.
  exact (struct_complete_fields te perm Hperm Hwf T sn tb name p tau St Hf C G).
Qed.

Theorem src_struct_complete_methods : forall T sn tb name mt,
  structish T = Some sn -> fuel_ok te (fuel0 te) (TStruct sn) = true -> env_in_fragment (EStruct T) = true ->
  source_table te perm Ft (EStruct T) = Got tb ->
  go_resolve te T name = RMethod mt ->
  tget name tb = Some (method_tag mt) /\
  (forall fn ret, is_func_type mt = Some fn -> call_type fn = Some ret ->
     source_check_access te F tb (AFunc name) = Some (CCall fn true ret)).
Proof.
  intros T sn tb name mt St Hf Hfr S G.
  pose proof (source_table_is_model te perm Ft (EStruct T) tb Hperm (structish_acyclic te T sn St Hf) Hfr Hte HFt S) as C.
  destruct (struct_complete_methods te perm Hperm Hwf T sn tb name mt St Hf C G) as [H1 H2]. split; [exact H1|].
  intros fn ret I1 I2. specialize (H2 fn ret I1 I2). cbn [source_check_access check_access] in *.
  destruct (tget name tb); [rewrite H2; reflexivity|discriminate H2].
Qed.

Theorem src_ident_accepted_iff_go : forall T sn tb name tau,
  structish T = Some sn -> fuel_ok te (fuel0 te) (TStruct sn) = true -> env_in_fragment (EStruct T) = true ->
  source_table te perm Ft (EStruct T) = Got tb ->
  method_by_name te T name = None ->
  (check_ident tb name = LFound tau <-> exists p, go_resolve te T name = RField p tau true).
Proof.
  intros T sn tb name tau St Hf Hfr S M.
  pose proof (source_table_is_model te perm Ft (EStruct T) tb Hperm (structish_acyclic te T sn St Hf) Hfr Hte HFt S) as C.
  exact (ident_accepted_iff_go te perm Hperm Hwf T sn tb name tau St Hf C M).
Qed.

(* ------------------------------------------------------------------ documentation: regenerated CreateDoc over the regenerated table *)
Theorem src_doc_exact : forall env tb dperm permk,
  env_acyclic te env = true -> env_in_fragment env = true ->
  (forall l e, In e (dperm l) <-> In e l) -> (forall l k, In k (permk l) <-> In k l) ->
  source_table te perm Ft env = Got tb ->
  exists keys, source_doc_keys dperm permk tb = X.Ty.DocRules.Got keys /\ NoDup keys /\
    forall n, In n keys <-> ((exists tau, check_ident tb n = LFound tau) \/ In n doc_fixed).
Proof.
  intros env tb dperm permk Ha Hfr Hd Hk S.
  pose proof (source_table_is_model te perm Ft env tb Hperm Ha Hfr Hte HFt S) as C.
  destruct (create_doc_keys_bridge dperm permk tb Hd Hk) as (keys & R & ND & I).
  exists keys. split; [exact R|]. split; [exact ND|]. intros n. rewrite I.
  apply (doc_exact te perm Hperm env tb (doc_vars tb ++ doc_fixed) C). unfold doc_names. rewrite C. reflexivity.
Qed.

(* the regenerated table, hence acceptance and documentation, does not depend on Go's map iteration order *)
Theorem src_table_perm_independent : forall perm2 env tb1 tb2, valid_perm perm2 ->
  env_acyclic te env = true -> env_in_fragment env = true ->
  match env with EMap _ entries => NoDup (map fst entries) | EStruct _ => True end ->
  source_table te perm Ft env = Got tb1 -> source_table te perm2 Ft env = Got tb2 ->
  forall n, tget n tb1 = tget n tb2.
Proof.
  intros perm2 env tb1 tb2 Hp2 Ha Hfr Hnd S1 S2.
  pose proof (source_table_is_model te perm Ft env tb1 Hperm Ha Hfr Hte HFt S1) as C1.
  pose proof (source_table_is_model te perm2 Ft env tb2 Hp2 Ha Hfr Hte HFt S2) as C2.
  pose proof (perm_independent te perm perm2 Hperm Hp2 Hwf env Hnd) as P. rewrite C1, C2 in P. exact P.
Qed.
End Cap.

(* ------------------------------------------------------------------ non-vacuity: one declaration set meets every hypothesis *)
Module CWit.
Definition tint : ty := TNum KInt.
Definition te : tenv :=
  [("Inner", mkStruct [mkField "X" tint false true; mkField "Y" TString false true] [] []);
   ("Mid", mkStruct [mkField "Inner" (TPtr (TStruct "Inner")) true true; mkField "M" (TMap TString TBool) false true]
                    [("Hello", TFunc [TStruct "Mid"] false [TString])]
                    [("Hello", TFunc [TPtr (TStruct "Mid")] false [TString])]);
   ("Env", mkStruct [mkField "P" (TPtr (TStruct "Mid")) false true; mkField "Z" TBool false true;
                     mkField "low" TBool false false]
                    [("Name", TFunc [TStruct "Env"] false [TString])]
                    [("Name", TFunc [TPtr (TStruct "Env")] false [TString])])]%string.
Definition T : ty := TPtr (TStruct "Env").
Definition Ft : nat := tables_fuel te.
Definition F : nat := 12.
Definition tb : table := match source_table te perm_rev Ft (EStruct T) with Got tb => tb | _ => [] end.
End CWit.

Example src_capstone_hypotheses_inhabited :
  wf_tenv CWit.te = true /\ member_te_ok CWit.te = true /\ tables_fuel CWit.te <= CWit.Ft /\
  structish CWit.T = Some "Env"%string /\ fuel_ok CWit.te (fuel0 CWit.te) (TStruct "Env") = true /\
  env_in_fragment (EStruct CWit.T) = true /\
  source_table CWit.te perm_rev CWit.Ft (EStruct CWit.T) = Got CWit.tb /\ List.length CWit.tb = 3 /\
  (* P.X : two steps, X promoted through the embedded *Inner of Mid *)
  src_access_ok CWit.te CWit.F CWit.tb (APath "P" ["X"])%string = true /\
  source_check_access CWit.te CWit.F CWit.tb (APath "P" ["X"])%string = Some (CVal CWit.tint) /\
  check_ident CWit.tb "P" = LFound (TPtr (TStruct "Mid")) /\
  path_scope CWit.te ["k"]%string (TPtr (TStruct "Mid")) ["X"]%string = true /\
  K_method_ident CWit.te CWit.T "P" = false /\
  path_K CWit.te (K_unexported_step CWit.te) (TPtr (TStruct "Mid")) ["X"]%string = false /\
  path_K CWit.te (K_member_multi CWit.te) (TPtr (TStruct "Mid")) ["X"]%string = false /\
  (* P.Hello() : pointer-receiver method set of *Mid; Name() : method of the environment *)
  src_access_ok CWit.te CWit.F CWit.tb (AMethod "P" [] "Hello")%string = true /\
  source_check_access CWit.te CWit.F CWit.tb (AMethod "P" [] "Hello")%string
    = Some (CCall (TFunc [TPtr (TStruct "Mid")] false [TString]) true TString) /\
  K_promoted_only CWit.te (TPtr (TStruct "Mid")) "Hello" = false /\
  source_check_access CWit.te CWit.F CWit.tb (AFunc "Name")%string
    = Some (CCall (TFunc [TPtr (TStruct "Env")] false [TString]) true TString) /\
  go_resolve CWit.te CWit.T "Z" = RField [1] TBool true /\
  source_doc_keys perm_rev (@rev string) CWit.tb <> X.Ty.DocRules.Wrong.
Proof. vm_compute. repeat split; try discriminate. apply le_n. Qed.

(* Bridge/BrDocgen.v — the REGENERATED body of docgen.CreateDoc and the regenerated package-level name
   lists (gen/GenDocgen.v, read by /verif/translator/gen_docgen.go on every run), interpreted by
   Ty/DocRules.v, give the hand model's documentation name set `doc_names` (Ty/TypesTable.v) for EVERY
   types table and every visiting order of the two Go maps.

   Duplicates: the interpreter keeps c.Variables as a duplicate-free key list (a later store under a
   present key overwrites); the model's `doc_names` is a plain list that repeats a name when a map
   environment has a key called like an operator or a builtin.  The comparison is therefore between
   SETS (`forall k, In k keys <-> In k names`), together with `NoDup keys`. *)
From Coq Require Import Bool List String Arith Lia Permutation.
Require Import X.Base.Value X.Ty.Types X.Ty.TypesTable X.Ty.DocRules X.gen.GenDocgen.
Import ListNotations.
Local Open Scope string_scope.
Local Notation ttable := X.Ty.TypesTable.table.

(* nothing in CreateDoc / Operators / Builtins was outside the shapes the translator reads *)
Theorem gendocgen_recognised : doc_ok doc_src = true.
Proof. vm_compute. reflexivity. Qed.

(* ---------- the package-level lists ---------- *)
Theorem operators_bridge : operators = doc_operators.
Proof. vm_compute. reflexivity. Qed.

(* a boolean permutation test: remove the head of the first list from the second *)
Fixpoint remove1 (k : string) (l : list string) : option (list string) :=
  match l with
  | [] => None
  | x :: r => if String.eqb k x then Some r
              else match remove1 k r with Some r' => Some (x :: r') | None => None end
  end.
Fixpoint perm_eqb (a b : list string) : bool :=
  match a with
  | [] => match b with [] => true | _ => false end
  | x :: r => match remove1 x b with Some b' => perm_eqb r b' | None => false end
  end.

Lemma remove1_perm : forall k l l', remove1 k l = Some l' -> Permutation l (k :: l').
Proof.
  intros k l; induction l as [|x r IH]; intros l' H; cbn in H; [discriminate|].
  destruct (String.eqb k x) eqn:E.
  - apply String.eqb_eq in E; subst. injection H as <-. apply Permutation_refl.
  - destruct (remove1 k r) as [r'|]; [|discriminate]. injection H as <-.
    eapply Permutation_trans; [apply perm_skip, IH; reflexivity | apply perm_swap].
Qed.

Lemma perm_eqb_sound : forall a b, perm_eqb a b = true -> Permutation a b.
Proof.
  induction a as [|x r IH]; intros b H; cbn in H.
  - destruct b; [constructor | discriminate].
  - destruct (remove1 x b) as [b'|] eqn:E; [|discriminate].
    apply Permutation_sym. eapply Permutation_trans; [apply remove1_perm; exact E|].
    apply perm_skip, Permutation_sym, IH, H.
Qed.

Theorem builtin_keys_bridge : Permutation builtin_keys doc_builtins.
Proof. apply perm_eqb_sound. vm_compute. reflexivity. Qed.

Lemma doc_builtins_nodup : NoDup doc_builtins.
Proof.
  unfold doc_builtins.
  repeat (constructor; [cbn; intros H; repeat (destruct H as [H|H]; [discriminate H|]); exact H|]).
  constructor.
Qed.

Theorem builtin_keys_nodup : NoDup builtin_keys.
Proof.
  eapply Permutation_NoDup; [apply Permutation_sym, builtin_keys_bridge | apply doc_builtins_nodup].
Qed.

(* ---------- the key set ---------- *)
Lemma kadd_in : forall k x ks, In x (kadd k ks) <-> In x ks \/ x = k.
Proof.
  intros k x ks; unfold kadd. destruct (existsb (String.eqb k) ks) eqn:E.
  - split; [auto|]. intros [H| ->]; [exact H|].
    apply existsb_exists in E. destruct E as (y & Hy & Ey). apply String.eqb_eq in Ey; subst; exact Hy.
  - rewrite in_app_iff; cbn. split; intros [H|H]; auto.
    + destruct H as [H|[]]; auto.
Qed.

Lemma kadd_nodup : forall k ks, NoDup ks -> NoDup (kadd k ks).
Proof.
  intros k ks H; unfold kadd. destruct (existsb (String.eqb k) ks) eqn:E; [exact H|].
  eapply Permutation_NoDup; [apply Permutation_cons_append|]. constructor; [|exact H].
  intros Hin.
  assert (existsb (String.eqb k) ks = true) as C by (apply existsb_exists; exists k; split; [exact Hin|apply String.eqb_refl]).
  rewrite C in E; discriminate.
Qed.

Lemma kadd_all_in : forall l x ks, In x (kadd_all l ks) <-> In x ks \/ In x l.
Proof.
  induction l as [|k r IH]; intros x ks; cbn.
  - tauto.
  - unfold kadd_all in IH. rewrite IH, kadd_in. intuition.
Qed.

Lemma kadd_all_nodup : forall l ks, NoDup ks -> NoDup (kadd_all l ks).
Proof.
  induction l as [|k r IH]; intros ks H; cbn; [exact H|]. apply IH, kadd_nodup, H.
Qed.

Lemma kadd_all_app : forall a b ks, kadd_all (a ++ b) ks = kadd_all b (kadd_all a ks).
Proof. intros; unfold kadd_all; apply fold_left_app. Qed.

(* ---------- loops ---------- *)
Definition st_keys (st : state) : list string := match snd st with Some ks => ks | None => [] end.

(* a loop whose body, on every element and in every state of the invariant, stores the keys
   `key x` and ends normally or by `continue` *)
Lemma loop_keys : forall (A : Type) (f : A -> state -> res (state * flow)) (key : A -> list string) (I : state -> Prop),
  (forall x st, I st -> exists st' fl, f x st = Got (st', fl) /\ fl <> FReturn /\ I st' /\
                                       st_keys st' = kadd_all (key x) (st_keys st)) ->
  forall l st, I st ->
  exists st', loop f l st = Got (st', FNext) /\ I st' /\ st_keys st' = kadd_all (flat_map key l) (st_keys st).
Proof.
  intros A f key I Hf l; induction l as [|x r IH]; intros st HI; cbn [loop flat_map].
  - exists st; auto.
  - destruct (Hf x st HI) as (st1 & fl & E & Hfl & HI1 & K1). rewrite E.
    destruct (IH st1 HI1) as (st2 & E2 & HI2 & K2).
    exists st2. split; [|split; [exact HI2|]].
    + destruct fl; [exact E2 | exact E2 | congruence].
    + rewrite kadd_all_app, <- K1. exact K2.
Qed.

(* the frame of CreateDoc: slot 0 the parameter, slot 1 the context, five loop variables *)
Definition doc_inv (st : state) : Prop :=
  exists a b c d e ks, st = ([VEnv; VCtx; a; b; c; d; e], Some ks).

Definition entry_keys (e : string * tag) : list string := if tg_amb (snd e) then [] else [fst e].

Lemma flat_entry_keys : forall tb : ttable, flat_map entry_keys tb = doc_vars tb.
Proof.
  induction tb as [|[n g] r IH]; [reflexivity|].
  unfold doc_vars in *; cbn [flat_map filter snd fst]. unfold entry_keys at 1; cbn [snd fst].
  destruct (tg_amb g); cbn; rewrite IH; reflexivity.
Qed.

Lemma flat_single : forall l : list string, flat_map (fun k => [k]) l = l.
Proof. induction l as [|x r IH]; cbn; [|rewrite IH]; reflexivity. Qed.

(* the regenerated CreateDoc over arbitrary package-level lists *)
Theorem create_doc_run_gen : forall ops bks perm permk (tb : ttable),
  run_doc (mkDoc 7 fn_create_doc [("Operators", ops)] [("Builtins", bks)] []) perm permk tb
  = Got (kadd_all (permk bks) (kadd_all ops (kadd_all (doc_vars (perm tb)) []))).
Proof.
  intros ops bks perm permk tb.
  assert (I0 : doc_inv ([VEnv; VCtx; VUnset; VUnset; VUnset; VUnset; VUnset], Some [])) by (do 6 eexists; reflexivity).
  unfold run_doc, fn_create_doc, init_frame.
  cbn [dp_body dp_nvars pred repeat exec_block].
  cbn [exec fset fst snd].
  cbn [fget nth].
  (* the loop over the types table *)
  match goal with |- context [loop ?f (perm tb) ?s0] =>
    assert (B1 : forall x st, doc_inv st -> exists st' fl, f x st = Got (st', fl) /\ fl <> FReturn /\ doc_inv st' /\
                                       st_keys st' = kadd_all (entry_keys x) (st_keys st));
    [| destruct (loop_keys _ f entry_keys doc_inv B1 (perm tb) s0 I0) as (st1 & E1 & I1 & K1); clear B1 ]
  end.
  { intros [n g] st (a & b & c & d & e & ks & ->). unfold entry_keys. cbn.
    destruct (tg_amb g); cbn.
    - eexists _, _; split; [reflexivity|]. split; [discriminate|]. split; [|reflexivity].
      do 6 eexists; reflexivity.
    - eexists _, _; split; [reflexivity|]. split; [discriminate|]. split; [|reflexivity].
      do 6 eexists; reflexivity. }
  rewrite E1. clear E1. rewrite flat_entry_keys in K1. cbn [st_keys snd] in K1.
  (* the loop over Operators *)
  cbn [dp_slices assoc String.eqb Ascii.eqb Bool.eqb].
  match goal with |- context [loop ?f ops ?s0] =>
    assert (B2 : forall x st, doc_inv st -> exists st' fl, f x st = Got (st', fl) /\ fl <> FReturn /\ doc_inv st' /\
                                       st_keys st' = kadd_all [x] (st_keys st));
    [| destruct (loop_keys _ f (fun k => [k]) doc_inv B2 ops s0 I1) as (st2 & E2 & I2 & K2); clear B2 ]
  end.
  { intros k st (a & b & c & d & e & ks & ->). cbn.
    eexists _, _; split; [reflexivity|]. split; [discriminate|]. split; [|reflexivity].
    do 6 eexists; reflexivity. }
  rewrite E2. clear E2. rewrite flat_single in K2.
  (* the loop over the keys of Builtins *)
  cbn [dp_mapkeys assoc String.eqb Ascii.eqb Bool.eqb].
  match goal with |- context [loop ?f (permk bks) ?s0] =>
    assert (B3 : forall x st, doc_inv st -> exists st' fl, f x st = Got (st', fl) /\ fl <> FReturn /\ doc_inv st' /\
                                       st_keys st' = kadd_all [x] (st_keys st));
    [| destruct (loop_keys _ f (fun k => [k]) doc_inv B3 (permk bks) s0 I2) as (st3 & E3 & I3 & K3); clear B3 ]
  end.
  { intros k st (a & b & c & d & e & ks & ->). cbn.
    eexists _, _; split; [reflexivity|]. split; [discriminate|]. split; [|reflexivity].
    do 6 eexists; reflexivity. }
  rewrite E3. clear E3. rewrite flat_single in K3.
  destruct I3 as (a & b & c & d & e & ks & ->).
  cbn [fst snd fget nth]. cbn [st_keys snd] in K3.
  rewrite K3, K2, K1. reflexivity.
Qed.

Theorem create_doc_run : forall perm permk (tb : ttable),
  run_doc doc_src perm permk tb
  = Got (kadd_all (permk builtin_keys) (kadd_all operators (kadd_all (doc_vars (perm tb)) []))).
Proof. intros; exact (create_doc_run_gen operators builtin_keys perm permk tb). Qed.

Lemma doc_vars_in : forall (p : ttable -> ttable) (tb : ttable) k,
  (forall l e, In e (p l) <-> In e l) -> (In k (doc_vars (p tb)) <-> In k (doc_vars tb)).
Proof.
  intros p tb k Hp; unfold doc_vars. rewrite !in_map_iff.
  split; intros (e & Ek & He); exists e; (split; [exact Ek|]);
    apply filter_In in He; apply filter_In; destruct He as (He & Hf); (split; [apply Hp, He | exact Hf]).
Qed.

(* for EVERY types table and every visiting order: the key set of the regenerated CreateDoc is a
   duplicate-free list with the elements of the model's name list *)
Theorem create_doc_keys_bridge : forall perm permk (tb : ttable),
  (forall l e, In e (perm l) <-> In e l) ->
  (forall l k, In k (permk l) <-> In k l) ->
  exists keys, run_doc doc_src perm permk tb = Got keys /\ NoDup keys /\
               forall k, In k keys <-> In k (doc_vars tb ++ doc_fixed).
Proof.
  intros perm permk tb Hp Hk. eexists; split; [apply create_doc_run|]. split.
  - repeat apply kadd_all_nodup. constructor.
  - intros k. rewrite !kadd_all_in, Hk, (doc_vars_in perm tb k Hp). unfold doc_fixed.
    rewrite !in_app_iff, operators_bridge.
    pose proof (Permutation_in k builtin_keys_bridge) as P1.
    pose proof (Permutation_in k (Permutation_sym builtin_keys_bridge)) as P2.
    cbn [In] in *. tauto.
Qed.

(* the model function doc_names: the types table is the model's create_types_table (itself tied to
   conf.CreateTypesTable by Bridge/BrTables.v), the keys are those of the regenerated CreateDoc *)
Theorem doc_names_bridge : forall te tperm env names perm permk,
  (forall l e, In e (perm l) <-> In e l) ->
  (forall l k, In k (permk l) <-> In k l) ->
  doc_names te tperm env = Some names ->
  exists tb keys, create_types_table te tperm env = Some tb /\
                  run_doc doc_src perm permk tb = Got keys /\ NoDup keys /\
                  forall k, In k keys <-> In k names.
Proof.
  intros te tperm env names perm permk Hp Hk H. unfold doc_names in H.
  destruct (create_types_table te tperm env) as [tb|]; [|discriminate]. injection H as <-.
  destruct (create_doc_keys_bridge perm permk tb Hp Hk) as (keys & R & N & S).
  exists tb, keys. auto.
Qed.

(* under the hypothesis the theorems of Props/C16.v use for a visiting order *)
Theorem doc_names_bridge_perm : forall te tperm env names perm permk,
  (forall l, Permutation (perm l) l) ->
  (forall l, Permutation (permk l) l) ->
  doc_names te tperm env = Some names ->
  exists tb keys, create_types_table te tperm env = Some tb /\
                  run_doc doc_src perm permk tb = Got keys /\ NoDup keys /\
                  forall k, In k keys <-> In k names.
Proof.
  intros te tperm env names perm permk Hp Hk.
  apply doc_names_bridge; intros l x; split; apply Permutation_in;
    auto using Permutation_sym.
Qed.

(* non-vacuity, and the interpreter at work: a table with an ambiguous entry, a method and a key that
   collides with an operator, visited in reverse *)
Example create_doc_run_example :
  run_doc doc_src perm_rev (@rev string)
    [("Name", mkTag TString false false); ("Dup", amb_tag); ("Get", mkTag (TFunc [] false [TBool]) true false);
     ("matches", mkTag TBool false false)]
  = Got ["matches"; "Get"; "Name"; "contains"; "startsWith"; "endsWith";
         "true"; "one"; "none"; "map"; "len"; "filter"; "false"; "count"; "any"; "all"].
Proof. vm_compute. reflexivity. Qed.

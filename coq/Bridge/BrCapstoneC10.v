(* Bridge/BrCapstoneC10.v — C10 capstones: the main theorems of Walk/WalkProofs.v restated for the walker
   instantiated with the table REGENERATED from ast/visitor.go (gen/GenWalk.v `gen_walked`), with the children of a
   node read through THAT table:
     source_children e     the nodes held by the fields the regenerated case of walker.walk walks, in its order
     source_entered e      what the recording visitor is handed at Enter by the walker over gen_walked
     source_entered_without k f e   the same with field f of kind k left out of the regenerated table
   No hand-written slot table (ref_slots) occurs in a statement; `children`, `spec_events`, `preorder`, `map_tree`,
   `subterm_at` are the reference notions, and `src_children_are_reference` / `src_spec_events_shape` /
   `src_preorder_shape` / `src_subterm_step` say what they are in terms of the regenerated table. *)
From Coq Require Import ZArith Bool List String Arith Lia Permutation.
Require Import X.Base.Num X.Base.Value X.Syn.Ast X.Walk.Walk X.Walk.WalkProofs X.gen.GenWalk X.Bridge.BrC10.
Import ListNotations.
Local Open Scope nat_scope.
Local Open Scope list_scope.

Definition source_children (e : expr) : list expr :=
  flat_map (fun sl => slot_get e (fst sl)) (gen_walked (nkind_of e)).

Definition source_entered (e : expr) : list expr := entered_by gen_walked e.
Definition source_entered_without (k : nkind) (f : field) (e : expr) : list expr :=
  entered_by (drop_slot k f gen_walked) e.

(* ------------------------------------------------------------------ the reference notions through the regenerated table *)
Theorem src_children_are_reference : forall e, source_children e = children e.
Proof. exact gen_slots_are_children. Qed.

Theorem src_spec_events_shape : forall e,
  spec_events e = EvEnter e :: List.concat (map spec_events (source_children e)) ++ [EvExit e].
Proof. intros e. rewrite src_children_are_reference. apply spec_events_eq. Qed.

Theorem src_preorder_shape : forall e,
  preorder e = e :: List.concat (map preorder (source_children e)) /\
  postorder e = List.concat (map postorder (source_children e)) ++ [e].
Proof. intros e. rewrite src_children_are_reference. split; [apply preorder_eq|apply postorder_eq]. Qed.

Theorem src_subterm_step : forall i q e,
  subterm_at (i :: q) e = match nth_error (source_children e) i with Some c => subterm_at q c | None => None end.
Proof. intros i q e. rewrite src_children_are_reference. reflexivity. Qed.

Theorem src_map_tree_shape : forall f e,
  map_tree f e = f (set_children e (map (map_tree f) (source_children e))).
Proof. intros f e. rewrite src_children_are_reference. apply map_tree_eq. Qed.

(* ------------------------------------------------------------------ one step, ALL visitors (replacing at Enter and at Exit) *)
Theorem src_walk_step : forall St n (v : visitor St) s e,
  walk (S n) gen_walked v s e =
  match walk_list (walk n gen_walked v) (fst (v_enter v s e)) (source_children (snd (v_enter v s e))) with
  | LDone s2 cs =>
      WDone (fst (v_exit v s2 (set_children (snd (v_enter v s e)) cs)))
            (snd (v_exit v s2 (set_children (snd (v_enter v s e)) cs)))
  | LPanic => WPanic
  | LOutOfFuel => WOutOfFuel
  end.
Proof. intros St n v s e. rewrite src_children_are_reference. apply walk_step. exact gen_table_ok. Qed.

(* ------------------------------------------------------------------ events = specification *)
(* the recording visitor: exactly the specified stream, the tree unchanged, fuel esize e suffices, every node
   entered once and exited once *)
Theorem src_events_exactly_once : forall e n l, esize e <= n ->
  exists l', walk n gen_walked logger l e = WDone (l ++ l') e /\ l' = spec_events e /\
    enters l' = preorder e /\ exits l' = postorder e /\ List.length (enters l') = esize e /\
    Permutation (enters l') (exits l') /\
    (NoDup (map loc_of (preorder e)) -> forall x, In x (preorder e) ->
       count_occ loc_eq_dec (map loc_of (enters l')) (loc_of x) = 1 /\
       count_occ loc_eq_dec (map loc_of (exits l')) (loc_of x) = 1).
Proof.
  intros e n l Hn. exists (spec_events e). split; [apply (walk_logger_events gen_walked gen_table_ok); exact Hn|].
  split; [reflexivity|]. rewrite spec_enters_preorder, spec_exits_postorder.
  split; [reflexivity|]. split; [reflexivity|]. split; [apply preorder_length|]. split; [apply pre_post_permutation|].
  intros ND x Hx. pose proof (spec_events_exactly_once e ND x Hx) as H.
  rewrite spec_enters_preorder, spec_exits_postorder in H. exact H.
Qed.

(* ANY state-passing visitor that does not replace at Enter (any replacement at Exit), with recording added: the
   walker over the regenerated table terminates with fuel esize e, and the identities (phase, kind, location) of
   the recorded events are those of the specified stream of the ORIGINAL tree *)
Theorem src_events_all_visitors : forall St (x : xvisitor St) e n s l, esize e <= n ->
  exists s' l' e', walk n gen_walked (to_visitor (xinstrument x)) (s, l) e = WDone (s', l') e' /\
    map ev_id l' = map ev_id l ++ map ev_id (spec_events e).
Proof.
  intros St x e n s l Hn.
  pose proof (walk_is_ref_traverse gen_walked (xinstrument x) gen_table_ok e n (s, l) Hn) as H.
  destruct (ref_traverse (xinstrument x) e (s, l)) as [[s' l'] e'] eqn:R. cbn [fst snd] in H.
  exists s', l', e'. split; [exact H|].
  pose proof (ref_traverse_event_ids x e s l) as I. rewrite R in I. exact I.
Qed.

(* ANY visitor (replacing at Enter, at Exit, both), with recording added: if it does not replace at Enter, Enter sees
   the nodes of the original tree in pre-order; if it does not replace at Exit, Exit sees the nodes of the result in
   post-order *)
Theorem src_enters_exits_general : forall St (v : visitor St) n e s l s' l' e',
  walk n gen_walked (instrument v) (s, l) e = WDone (s', l') e' ->
  ((forall s e, snd (v_enter v s e) = e) -> enters l' = enters l ++ preorder e) /\
  ((forall s e, snd (v_exit v s e) = e) -> exits l' = exits l ++ postorder e').
Proof.
  intros St v n e s l s' l' e' W. split; intro H.
  - exact (walk_enters_original gen_walked v gen_table_ok H n e s l s' l' e' W).
  - exact (walk_exits_result gen_walked v gen_table_ok H n e s l s' l' e' W).
Qed.

(* ------------------------------------------------------------------ replacement effective everywhere *)
(* the walker over the regenerated table IS the structural traversal, for every non-Enter-replacing visitor *)
Theorem src_replace_effective : forall St (x : xvisitor St) e n s, esize e <= n ->
  walk n gen_walked (to_visitor x) s e = WDone (fst (ref_traverse x e s)) (snd (ref_traverse x e s)).
Proof. exact (fun St x => walk_is_ref_traverse gen_walked x gen_table_ok). Qed.

(* what the walker RETURNS for the visitor that patches every marked leaf by t: at every position (path through any
   regenerated slot of any kind, to any depth) where the original tree held a marked node, the result holds
   Patch(node, t); and no marked node remains *)
Theorem src_replace_at_every_position : forall m t e n s,
  (forall x, m x = true -> children x = []) -> esize e <= n ->
  exists e', walk n gen_walked (to_visitor (pure_exit (replace_marked m t))) s e = WDone s e' /\
    (forall p x, subterm_at p e = Some x -> m x = true -> subterm_at p e' = Some (patch x t)) /\
    ((forall a, exists_node m (set_ann t a) = false) -> exists_node m e' = false).
Proof.
  intros m t e n s Hm Hn. exists (map_tree (replace_marked m t) e).
  split; [apply (walk_pure_exit_map_tree gen_walked _ gen_table_ok); exact Hn|]. split.
  - intros p x Hp Hx. exact (replace_at_any_position m t Hm p e x Hp Hx).
  - intros Ht. exact (replace_marked_eliminates m t Ht e).
Qed.

(* ------------------------------------------------------------------ every regenerated slot is necessary *)
Definition src_slot_needed (k : nkind) (sl : slot) : bool :=
  existsb (fun c => negb (expr_loc_in c (source_entered_without k (fst sl) (sample_of k)))
                    && expr_loc_in c (source_entered (sample_of k)))
          (source_children (sample_of k)).

Lemma src_every_slot_needed_sweep :
  forallb (fun k => forallb (src_slot_needed k) (gen_walked k)) all_nkinds = true.
Proof. vm_compute. reflexivity. Qed.

(* leaving ANY field out of ANY case of the regenerated walker.walk leaves a child un-entered on some tree of that
   kind (which the regenerated walker as it stands does enter) *)
Theorem src_every_slot_necessary : forall k sl, In sl (gen_walked k) ->
  exists e c, nkind_of e = k /\ In c (source_children e) /\
    expr_loc_in c (source_entered_without k (fst sl) e) = false /\
    expr_loc_in c (source_entered e) = true.
Proof.
  intros k sl Hin.
  pose proof (proj1 (forallb_forall _ _) src_every_slot_needed_sweep k (all_nkinds_complete k)) as H1.
  pose proof (proj1 (forallb_forall _ _) H1 sl Hin) as H2. unfold src_slot_needed in H2.
  apply existsb_exists in H2. destruct H2 as (c & Hc & H3).
  apply andb_prop in H3. destruct H3 as [H3 H4]. apply negb_true_iff in H3.
  exists (sample_of k), c. repeat split; try assumption. destruct k; reflexivity.
Qed.

(* and the regenerated walker as it stands enters every node of every tree *)
Theorem src_enters_every_node : forall e, source_entered e = preorder e.
Proof.
  intros e. unfold source_entered, entered_by.
  rewrite (walk_logger_events gen_walked gen_table_ok e (esize e) [] (le_n _)). cbn [app].
  apply spec_enters_preorder.
Qed.

(* Bridge/BrCheckerFunc.v — checkFunc against Checker.check_func: the loop over the arguments (cf_tail, cf_step,
   cf_loop) and the procedure as a whole (cf_proc); MethodNode and FunctionNode (see Bridge/BrChecker.v) *)
From Coq Require Import ZArith Bool List String Lia.
Require Import X.Base.Num X.Base.Value X.Syn.Ast X.Sem.Prim X.Ty.Types X.Ty.TypesTable X.Ty.Checker
               X.Ty.CheckProofs X.Ty.CheckRules X.Ty.CheckRulesProofs X.Ty.CheckRulesLoops X.gen.GenWeights X.gen.GenChecker
               X.Bridge.BrCheckerRules.
Import ListNotations.
Local Open Scope string_scope.
Local Open Scope list_scope.

Definition cf_range_body : list stmt :=
  Eval compute in
  match find_proc "checkFunc" methods with
  | Some p => match nth_error (p_body p) 8 with Some (SRange _ _ _ body) => body | _ => [] end
  | None => []
  end.

Definition cf_tail_stmts : list stmt := Eval compute in skipn 3 cf_range_body.

Definition cf_env (fn' : ty) (m : bool) (name : string) (numIn off : Z) : list (nat * gv) :=
  [(6%nat, VZ off); (5%nat, VZ numIn); (0%nat, VT fn'); (1%nat, VB m); (2%nat, VNode PSelf); (3%nat, VS name);
   (4%nat, VNodes "Arguments")].

(* the same with the list functions folded: the node and its arguments are variables here *)
Ltac evl :=
  lazy -[exec exec_list exec_list_of switch_of run_proc range_loop methods
         visit CheckProofs.vlist CheckProofs.vargs check_func
         is_bool is_number is_integer is_floatt is_string is_array is_map is_struct is_interface
         is_comparable is_func_nd is_func_type_nd is_func_type index_type is_nil_ty
         settle record fail_at emit loc_of set_ints is_arith field_type method_type find_overload combined_ty
         model_tyconst unary_rule binary_rule binary_node_rule overload matches_rule index_rule sliceable cond_rule
         len_rule closure_out closure_rule pointer_rule ident_rule property_rule method_callee function_callee
         fast_sig param_ty arity_rule arg_rule undefined_ty lookup_name
         assignable dyn_type kind_of_ty under dereference elem_of rkind_eqb ty_eqb tget Types.assoc
         cc_types cc_ops cc_strict cc_default cc_expect cc_te cfuel te tg_amb tg_ty tg_method
         Z.add Z.sub Z.ltb Z.leb Z.eqb Z.of_nat Nat.ltb Nat.leb Nat.sub Nat.add List.length
         sm_call sm_tyconst sm_arith sm_setints
         get_list set_list set_nth nth_error app end_iteration restore_env z_index last cf_range_body cf_tail_stmts].

Lemma z_index_of_nat n : z_index (Z.of_nat n) = Some n.
Proof. destruct n; cbn [Z.of_nat z_index]; [reflexivity|]. rewrite SuccNat2Pos.id_succ. reflexivity. Qed.

Lemma leb_pred_nat a b : (Z.of_nat a - 1 <=? Z.of_nat b)%Z = (a - 1 <=? b)%nat.
Proof. destruct (Nat.leb_spec (a - 1) b); [apply Z.leb_le | apply Z.leb_gt]; lia. Qed.

Lemma nth_error_last {A} (l : list A) d : l <> [] -> nth_error l (List.length l - 1) = Some (last l d).
Proof.
  induction l as [|a l IH]; intros H; [contradiction|].
  destruct l as [|b l]; [reflexivity|].
  replace (List.length (a :: b :: l) - 1)%nat with (S (List.length (b :: l) - 1)) by (cbn [List.length]; lia).
  cbn [nth_error]. rewrite IH by discriminate. reflexivity.
Qed.

Lemma z_index_pred {A} (l : list A) : l <> [] -> z_index (Z.of_nat (List.length l) - 1) = Some (List.length l - 1)%nat.
Proof.
  intros H. replace (Z.of_nat (List.length l) - 1)%Z with (Z.of_nat (List.length l - 1)).
  - apply z_index_of_nat.
  - destruct l; [contradiction|]. cbn [List.length]. lia.
Qed.

Lemma nth_error_nth_lt {A} (l : list A) n d : (n < List.length l)%nat -> nth_error l n = Some (nth n l d).
Proof. intros H. apply nth_error_nth'. exact H. Qed.

Lemma Zltb_nat a b : (Z.of_nat a <? Z.of_nat b)%Z = (a <? b)%nat.
Proof. destruct (Nat.ltb_spec a b); [apply Z.ltb_lt | apply Z.ltb_ge]; lia. Qed.

Lemma ltb_pred_nat n a : (Z.of_nat n <? Z.of_nat a - 1)%Z = (n <? a - 1)%nat.
Proof. destruct (Nat.ltb_spec n (a - 1)); [apply Z.ltb_lt | apply Z.ltb_ge]; lia. Qed.

Lemma numin_pred {A} (i : list A) : i <> [] -> (Z.of_nat (List.length i) - 1)%Z = Z.of_nat (List.length i - 1).
Proof. destruct i; [contradiction|]. intros _. cbn [List.length]. lia. Qed.

Section Func.
Variable c : cconfig.
Variable M : sem.
Hypothesis HM : sem_ok c M.
Variable rec : list ty -> expr -> cst -> option (ty * expr * cst).
Notation VN := (visit_node checker_src c M rec).
Notation child_ok := (child_ok c rec).
Ltac run := run_ HM.
Ltac go := go_ HM.
Ltac crack := crack_ HM.
Section CF.
Variable self : expr.
Notation cp := (run_proc c M rec self methods 1).
Notation F := "Arguments".

(* what one argument contributes, given the continuation of the loop body *)
Definition cf_result (k : res -> res) (B : list (nat * gv)) (cur' : expr) (cols : list ty) (er1 : cst)
    (x : expr) (t2 pin : ty) : res :=
  if is_nil_ty t2 then k (RContinue (mkG B cur' cols er1))
  else if negb (assignable t2 pin) && negb (rkind_eqb (kind_of_ty t2) RKInterface)
       then k (RReturn [VT TIface] (mkG B cur' cols (record (loc_of x) CArgType er1)))
       else k (RNormal (mkG B cur' cols er1)).

Lemma cf_tail (fn' : ty) (m : bool) (name : string) (numIn off : Z) (x x' : expr) (r pre pre' : list expr)
    (cur : expr) (cols : list ty) (er1 : cst) (t pin : ty) (k : res -> res) :
  let B := cf_env fn' m name numIn off in
  let j := List.length pre in
  (forall vs en1 en2 cu cl e, k (RReturn vs (mkG en1 cu cl e)) = k (RReturn vs (mkG en2 cu cl e))) ->
  get_list self F = Some (pre ++ x :: r) ->
  List.length pre' = List.length pre ->
  get_list cur F = Some (pre' ++ x :: r) ->
  exec_list c M rec self cp cf_tail_stmts
    (mkG ((10%nat, VT pin) :: (9%nat, VT t) :: (8%nat, VNode (PIndex F j)) :: (7%nat, VZ (Z.of_nat j)) :: B)
         (set_list cur F (pre' ++ x' :: r)) cols er1)
    (fun o => k (end_iteration B o))
  = let t2 := if is_arith x then pin else t in
    let a2 := if is_arith x then set_ints x' pin else x' in
    cf_result k B (set_list cur F (pre' ++ a2 :: r)) cols er1 x t2 pin.
Proof.
  intros B j Hk Hself Hlen Hcur. unfold B, j, cf_env, cf_result.
  assert (Hcur1 : get_list (set_list cur F (pre' ++ x' :: r)) F = Some (pre' ++ x' :: r))
    by (eapply get_set_list; exact Hcur).
  unfold cf_tail_stmts.
  step1. evl. rewrite Hself, nth_error_mid. evl. semrw1 HM. evl.
  assert (Fin : forall tt cu,
    exec_list c M rec self cp
      [SIf (GBin GoEq (GVar 9) GNil) [SContinue] [];
       SIf (GBin GoAnd (GNot (GMeth (GVar 9) "AssignableTo" [GVar 10]))
                       (GBin GoNe (GMeth (GVar 9) "Kind" []) (GKind (GK RKInterface))))
           [SReturnError (GVar 8) CArgType] []]
      (mkG ((10%nat, VT pin) :: (9%nat, VT tt) :: (8%nat, VNode (PIndex F (List.length pre'))) ::
            (7%nat, VZ (Z.of_nat (List.length pre'))) :: cf_env fn' m name numIn off) cu cols er1)
      (fun o => k (end_iteration (cf_env fn' m name numIn off) o))
    = cf_result k (cf_env fn' m name numIn off) cu cols er1 x tt pin).
  { intros tt cu. unfold cf_env, cf_result.
    step1. evl. destruct (is_nil_ty tt) eqn:Nil; evl.
    - step1. evl. unfold end_iteration, restore_env. evl. reflexivity.
    - step1. evl. step1. evl. rewrite Nil. evl.
      destruct (assignable tt pin); evl.
      + step1. evl. unfold end_iteration, restore_env. evl. reflexivity.
      + destruct (rkind_eqb (kind_of_ty tt) RKInterface); evl.
        * step1. evl. unfold end_iteration, restore_env. evl. reflexivity.
        * step1. evl. step1. evl. step1. evl. unfold record.
          destruct er1; evl.
          -- step1. evl. step1. evl. semrw1 HM. tyc. evl. unfold end_iteration. apply Hk.
          -- step1. evl. rewrite Hself, Hlen, nth_error_mid. evl. step1. evl. step1. evl. semrw1 HM. tyc. evl.
             unfold end_iteration. apply Hk. }
  destruct (is_arith x); evl.
  - step1. evl. step1. evl. rewrite Hcur1, <- Hlen, nth_error_mid. evl. semrw1 HM. rewrite set_nth_mid, set_set_list. evl.
    apply Fin.
  - rewrite <- Hlen. apply Fin.
Qed.

Definition cf_body : nat -> gst -> (res -> res) -> res :=
  fun j s1 k1 =>
    exec_list c M rec self cp cf_range_body
      (bind_var (Some 8%nat) (VNode (PIndex F j)) (bind_var (Some 7%nat) (VZ (Z.of_nat j)) s1))
      (fun o => k1 (end_iteration (g_env s1) o)).

Lemma cf_step (fn' : ty) (ins : list ty) (v : bool) (outs : list ty) (m : bool) (name : string) (x : expr)
    (r pre pre' : list expr) (cur : expr) (cols : list ty) (er : cst) (k : res -> res) :
  let offn := (if m then 1 else 0)%nat in
  let nin := (List.length ins - offn)%nat in
  let B := cf_env fn' m name (Z.of_nat nin) (Z.of_nat offn) in
  let j := List.length pre in
  (forall vs en1 en2 cu cl e, k (RReturn vs (mkG en1 cu cl e)) = k (RReturn vs (mkG en2 cu cl e))) ->
  is_nil_ty fn' = false -> under fn' = TFunc ins v outs ->
  (v = true -> ins <> []) ->
  ((v && (nin - 1 <=? j)%nat) = false -> (j + offn < List.length ins)%nat) ->
  get_list self F = Some (pre ++ x :: r) ->
  List.length pre' = List.length pre ->
  get_list cur F = Some (pre' ++ x :: r) ->
  rec cols x er = Some (visit c cols x er) ->
  cf_body j (mkG B cur cols er) k =
  let '(t, x', er1) := visit c cols x er in
  let pin := param_ty ins v m j in
  let t2 := if is_arith x then pin else t in
  let a2 := if is_arith x then set_ints x' pin else x' in
  cf_result k B (set_list cur F (pre' ++ a2 :: r)) cols er1 x t2 pin.
Proof.
  intros offn nin B j Hk Hnil Hund Hv Hin Hself Hlen Hcur Hx.
  unfold cf_body, B, cf_env. evl. unfold cf_range_body.
  step1. evl. rewrite Hself, nth_error_mid. evl. rewrite Hx.
  destruct (visit c cols x er) as [[t x'] er1]. evl.
  rewrite Hcur, <- Hlen, set_nth_mid. evl.
  step1. evl. step1. evl. rewrite Hnil, Hund. evl.
  rewrite Hlen.
  assert (Else : (v && (nin - 1 <=? j)%nat) = false ->
    exec_list c M rec self cp
      [SAssign [Some 10%nat] (GMeth (GVar 0) "In" [GBin GoAdd (GVar 7) (GVar 6)])]
      (mkG ((10%nat, VT TNilT) :: (9%nat, VT t) :: (8%nat, VNode (PIndex F j)) :: (7%nat, VZ (Z.of_nat j)) ::
            cf_env fn' m name (Z.of_nat nin) (Z.of_nat offn))
           (set_list cur F (pre' ++ x' :: r)) cols er1)
      (fun o => match o with
                | RNormal s' => exec_list c M rec self cp cf_tail_stmts s'
                                  (fun o0 => k (end_iteration (cf_env fn' m name (Z.of_nat nin) (Z.of_nat offn)) o0))
                | _ => k (end_iteration (cf_env fn' m name (Z.of_nat nin) (Z.of_nat offn)) o)
                end)
    = (let pin := param_ty ins v m j in
       let t2 := if is_arith x then pin else t in
       let a2 := if is_arith x then set_ints x' pin else x' in
       cf_result k (cf_env fn' m name (Z.of_nat nin) (Z.of_nat offn)) (set_list cur F (pre' ++ a2 :: r)) cols er1 x t2 pin)).
  { intros Cnd. unfold cf_env. step1. evl. rewrite Hnil, Hund. evl.
    rewrite <- Nat2Z.inj_add, z_index_of_nat. evl.
    rewrite (nth_error_nth_lt ins _ TNilT) by (apply Hin; exact Cnd). evl.
    refine (eq_trans (cf_tail fn' m name _ _ x x' r pre pre' cur cols er1 t _ k Hk Hself Hlen Hcur) _).
    unfold param_ty. cbv zeta. unfold nin, offn, j in *. rewrite Cnd. reflexivity. }
  destruct v.
  - rewrite leb_pred_nat. match goal with |- context [(?a <=? ?b)%nat] => destruct (a <=? b)%nat eqn:Pos end; evl.
    + step1. evl. rewrite Hnil, Hund. evl. rewrite (z_index_pred ins (Hv eq_refl)). evl.
      rewrite (nth_error_last ins TNilT (Hv eq_refl)). evl.
      step1. evl. semrw1 HM. unfold opt_pair.
      destruct (index_type (last ins TNilT)) as [el|] eqn:IT; evl; step1; evl.
      * refine (eq_trans (cf_tail fn' m name _ _ x x' r pre pre' cur cols er1 t _ k Hk Hself Hlen Hcur) _).
        unfold param_ty. cbv zeta. unfold nin, offn, j in *. rewrite Pos, IT. reflexivity.
      * refine (eq_trans (cf_tail fn' m name _ _ x x' r pre pre' cur cols er1 t _ k Hk Hself Hlen Hcur) _).
        unfold param_ty. cbv zeta. unfold nin, offn, j in *. rewrite Pos, IT. reflexivity.
    + apply Else. exact Pos.
  - evl. apply Else. reflexivity.
Qed.

Lemma cf_loop (fn' : ty) (ins : list ty) (v : bool) (outs : list ty) (m : bool) (name : string) :
  let offn := (if m then 1 else 0)%nat in
  let nin := (List.length ins - offn)%nat in
  let B := cf_env fn' m name (Z.of_nat nin) (Z.of_nat offn) in
  is_nil_ty fn' = false -> under fn' = TFunc ins v outs ->
  (v = true -> ins <> []) -> (m = true -> ins <> []) ->
  forall (rest pre pre' : list expr) (cur : expr) (cols : list ty) (er : cst) (k : res -> res),
  (forall vs en1 en2 cu cl e, k (RReturn vs (mkG en1 cu cl e)) = k (RReturn vs (mkG en2 cu cl e))) ->
  (v = false -> (List.length pre + List.length rest)%nat = nin) ->
  get_list self F = Some (pre ++ rest) ->
  List.length pre' = List.length pre ->
  get_list cur F = Some (pre' ++ rest) ->
  seq_ok c rec cols rest er ->
  range_loop cf_body (List.length rest) (List.length pre) (mkG B cur cols er) k =
  let '(rest', er', ok) := CheckProofs.vargs c cols (param_ty ins v m) (List.length pre) rest er in
  if ok then k (RNormal (mkG B (set_list cur F (pre' ++ rest')) cols er'))
  else k (RReturn [VT TIface] (mkG B (set_list cur F (pre' ++ rest')) cols er')).
Proof.
  intros offn nin B Hnil Hund Hv Hm.
  induction rest as [|x r IH]; intros pre pre' cur cols er k Hk Har Hself Hlen Hcur Hrec.
  - cbn [List.length CheckProofs.vargs]. rewrite range_loop_O. rewrite (set_list_same _ _ _ Hcur). reflexivity.
  - cbn [List.length CheckProofs.vargs]. rewrite range_loop_S.
    cbn [seq_ok] in Hrec. destruct Hrec as [Hx Hr].
    assert (Hin : (v && (nin - 1 <=? List.length pre)%nat) = false -> (List.length pre + offn < List.length ins)%nat).
    { intros Cnd. destruct v.
      - cbn [andb] in Cnd. apply Nat.leb_gt in Cnd. unfold nin, offn in *. destruct m; lia.
      - specialize (Har eq_refl). cbn [List.length] in Har. unfold nin, offn in *. destruct m.
        + specialize (Hm eq_refl). destruct ins; [contradiction|]. cbn [List.length] in *. lia.
        + lia. }
    unfold B, nin, offn in IH |- *.
    match goal with |- cf_body _ _ ?K = _ =>
      rewrite (cf_step fn' ins v outs m name x r pre pre' cur cols er K
                 (fun vs en1 en2 cu cl e => Hk vs en1 en2 cu cl e) Hnil Hund Hv Hin Hself Hlen Hcur Hx)
    end.
    destruct (visit c cols x er) as [[t x'] er1] eqn:V. try rewrite V in Hr. cbn [snd] in Hr. cbv zeta.
    unfold arg_rule, cf_result.
    set (pin := param_ty ins v m (List.length pre)).
    set (t2 := if is_arith x then pin else t).
    set (a2 := if is_arith x then set_ints x' pin else x').
    rewrite (app_cons_assoc pre x r) in Hself.
    assert (Hlen' : List.length (pre' ++ [a2]) = List.length (pre ++ [x])) by (rewrite !length_snoc; lia).
    assert (Hcur' : get_list (set_list cur F (pre' ++ a2 :: r)) F = Some ((pre' ++ [a2]) ++ r)).
    { rewrite <- app_cons_assoc. eapply get_set_list. exact Hcur. }
    assert (Har' : v = false -> (List.length (pre ++ [x]) + List.length r)%nat = nin).
    { intros E. rewrite length_snoc. specialize (Har E). cbn [List.length] in Har. lia. }
    specialize (IH (pre ++ [x]) (pre' ++ [a2]) (set_list cur F (pre' ++ a2 :: r)) cols er1 k Hk Har' Hself Hlen' Hcur' Hr).
    rewrite length_snoc in IH.
    destruct (is_nil_ty t2).
    + rewrite IH. destruct (CheckProofs.vargs c cols (param_ty ins v m) (S (List.length pre)) r er1) as [[r' er2] ok'].
      rewrite set_set_list, <- app_cons_assoc. reflexivity.
    + destruct (negb (assignable t2 pin) && negb (rkind_eqb (kind_of_ty t2) RKInterface)).
      * reflexivity.
      * rewrite IH. destruct (CheckProofs.vargs c cols (param_ty ins v m) (S (List.length pre)) r er1) as [[r' er2] ok'].
        rewrite set_set_list, <- app_cons_assoc. reflexivity.
Qed.

End CF.
End Func.

(* Bridge/BrTables.v — the REGENERATED terms of gen/GenTables.v (the statements of six Go functions, read
   by /verif/translator/gen_tables.go on every run) interpreted by Ty/TableRules.v give the hand
   models, for ALL inputs of the models' fragment.  One lemma per Go function. *)
From Coq Require Import Bool List String Arith Lia.
Require Import X.Ty.Types X.Ty.TypesTable.
Require Import X.Base.Num X.Base.Value X.Syn.Ast X.Walk.Walk X.Ops.Overload.
Require Import X.Ty.TableRules X.Ty.TableRulesProofs X.Ops.OverloadRules X.Ops.OverloadRulesProofs X.gen.GenTables.
Import ListNotations.
Local Open Scope string_scope.
Local Notation ttable := X.Ty.TypesTable.table.

(* nothing in the six functions was outside the shapes the translator reads *)
Theorem gentables_recognised : forallb fdef_ok funcs = true.
Proof. vm_compute. reflexivity. Qed.

Local Arguments callf : simpl never.
Local Arguments exec : simpl never.
Local Arguments exec_list : simpl never.
Local Arguments tset : simpl never.
Local Arguments tdel : simpl never.
Local Arguments tget : simpl never.
Local Arguments fields_of : simpl never.
Local Arguments method_set : simpl never.
Local Arguments go_resolve_field : simpl never.
Local Arguments ops_get : simpl never.
Local Arguments func_shape : simpl never.
Local Arguments ty_eqb : simpl never.
Local Arguments patch : simpl never.
Local Arguments nth_error : simpl never.

(* entering a function of the regenerated table *)
Ltac enter :=
  unfold callf at 1; rewrite run_S;
  cbn [find_fn funcs f_name fn_create_types_table fn_fields_from_struct fn_dereference fn_find_overload
       fn_config_check fn_exit String.eqb Ascii.eqb Bool.eqb f_params f_slots f_body List.length Nat.eqb
       init_frame app repeat Nat.sub].

(* one statement; stops in front of a loop (the loop lemmas of Ty/TableRulesProofs.v take over) *)
Ltac unfold_stmt :=
  lazymatch goal with
  | |- context [exec ?W ?C (SScope ?l ?b) ?s] =>
      lazymatch b with
      | [SForIdx _ _ _] => fail
      | [SRange _ _ _ _] => fail
      | [SRangeSelf _ _ _] => fail
      | _ => rewrite (exec_scope W C l b s)
      end
  | |- context [exec _ _ (SIf _ _ _) _] => rewrite exec_if
  | |- context [exec _ _ (SSwitch _ _ _) _] => rewrite exec_switch
  | |- context [exec _ _ (SAssign _ _) _] => rewrite exec_assign
  | |- context [exec _ _ (SSetIndex _ _ _) _] => rewrite exec_setindex
  | |- context [exec _ _ (SDelete _ _) _] => rewrite exec_delete
  | |- context [exec _ _ (SPatch _ _) _] => rewrite exec_patch
  | |- context [exec _ _ (SStore _ _) _] => rewrite exec_store
  | |- context [exec _ _ (SReturn _) _] => rewrite exec_return
  end.

Ltac step :=
  first [ rewrite exec_list_nil | rewrite exec_list_cons; unfold_stmt ]; cbn.

Ltac steps := repeat step.

(* an existential frame that the goal may not mention *)
Ltac done_ex := first [ exists []; reflexivity | eexists; reflexivity ].

(* a loop whose collection is a closed term: unfold it *)
Ltac step_loop :=
  rewrite exec_list_cons, exec_scope, exec_list_cons;
  first [ rewrite exec_foridx | rewrite exec_range | rewrite exec_rangeself ]; cbn.

(* ================================================================== conf/types_table.go *)
(* what `dereference` hands back: the nil Type is the untyped nil *)
Definition deref_val (t : ty) : dval := if is_nil_ty (dereference t) then DNil else DType (dereference t).

Lemma dereference_run : forall W t n, plain t = true -> ptr_depth t < n ->
  callf W funcs n "dereference" [DType t] = Got [deref_val t].
Proof.
  intros W t. induction t; intros n Hp Hn; (destruct n as [|n]; [inversion Hn|]).
  all: try (vm_compute; reflexivity).
  - (* TPtr *) cbn [ptr_depth plain] in *. assert (Hn' : ptr_depth t < n) by lia.
    specialize (IHt n Hp Hn').
    enter. steps. rewrite IHt. cbn. steps.
    unfold deref_val. cbn [dereference]. destruct (is_nil_ty (dereference t)); reflexivity.
  - (* TNamed *) cbn [plain] in Hp. apply andb_prop in Hp. destruct Hp as [Hp _].
    apply negb_true_iff in Hp. unfold is_kind_of in Hp.
    enter. steps. cbn [kind_of_ty]. rewrite Hp. cbn. steps. reflexivity.
Qed.

Theorem dereference_bridge : forall t fuel, plain t = true -> ptr_depth t < fuel ->
  gen_dereference funcs fuel t = Got (dereference t).
Proof.
  intros t fuel Hp Hf. unfold gen_dereference. rewrite (dereference_run _ t fuel Hp Hf).
  unfold deref_val. destruct (dereference t); reflexivity.
Qed.

Definition merge_dv (types : ttable) (x : dval * dval) : option ttable :=
  match x with (DStr n, DTag g) => Some (merge_entry types (n, g)) | _ => None end.

Lemma fold_merge_dv : forall (l : ttable) a,
  fold_opt merge_dv (map (fun en => (DStr (fst en), DTag (snd en))) l) a = Some (fold_left merge_entry l a).
Proof.
  induction l as [|[n g] r IH]; intros a; [reflexivity|].
  cbn [map fold_opt merge_dv fst snd fold_left]. apply IH.
Qed.

Lemma tdel_single : forall n (g : tag), tdel n [(n, g)] = [].
Proof. intros n g. unfold tdel. cbn [filter fst]. rewrite String.eqb_refl. reflexivity. Qed.

Lemma tset_single : forall n (v g : tag), tset n v [(n, g)] = [(n, v)].
Proof. intros n v g. unfold tset. rewrite tdel_single. reflexivity. Qed.

Section Tables.
Variable W : world.
Local Notation te := (w_te W).
Local Notation perm := (w_perm W).

Definition step_opt (rec : ty -> option ttable) (types : ttable) (f : fielddef) : option ttable :=
  ffs_step perm rec (Some types) f.

Lemma fold_ffs_none : forall rec fs, fold_left (ffs_step perm rec) fs None = None.
Proof. intros rec fs. induction fs as [|f r IH]; [reflexivity|exact IH]. Qed.

Lemma fold_ffs_opt : forall rec fs a, fold_left (ffs_step perm rec) fs (Some a) = fold_opt (step_opt rec) fs a.
Proof.
  intros rec fs. induction fs as [|f r IH]; intros a; [reflexivity|].
  cbn [fold_left fold_opt]. unfold step_opt at 1.
  destruct (ffs_step perm rec (Some a) f) as [a'|] eqn:E; [apply IH|apply fold_ffs_none].
Qed.

Definition ffs_frame (t : ty) (types : ttable) : frame :=
  [DType t; DTab types; DUnit; DUnit; DUnit; DUnit; DUnit; DUnit; DUnit; DUnit].

Lemma fields_from_struct_run : forall n t tb P m,
  ffs te perm n t = Some tb -> plain t = true -> te_plain te = true ->
  ptr_depth t <= P -> te_ptr_depth te <= P -> n + P + 1 < m ->
  callf W funcs m "FieldsFromStruct" [DType t] = Got [DTab tb].
Proof.
  induction n as [|n IH]; intros t tb P m Hffs Hp Hte HP HteP Hm;
    (destruct m as [|m]; [lia|]); enter; steps;
    (rewrite (dereference_run W t m Hp); [|lia]); cbn; unfold deref_val;
    pose proof (plain_deref t Hp) as Hpd; cbn [ffs] in Hffs;
    destruct (dereference t) as [| | | | | | |sn| | |nm u|] eqn:Ed; cbn.
  all: try (inversion Hffs; subst tb; steps; reflexivity).
  all: try discriminate Hffs.
  all: try (cbn [plain] in Hpd; apply andb_prop in Hpd; destruct Hpd as [_ Hs]; apply negb_true_iff in Hs;
            unfold is_kind_of in Hs; inversion Hffs; subst tb; steps; rewrite Hs; cbn; steps; reflexivity).
  (* a struct *)
  steps.
  destruct (fold_left (ffs_step perm (ffs te perm n)) (fields_of te (TStruct sn)) (Some [])) as [tb1|] eqn:Ef;
    [|discriminate Hffs].
  inversion Hffs as [Htb]. clear Hffs. rewrite fold_ffs_opt in Ef.
  rewrite exec_list_cons.
  change [DType (TStruct sn); DTab []; DUnit; DUnit; DUnit; DUnit; DUnit; DUnit; DUnit; DUnit]
    with (ffs_frame (TStruct sn) []).
  rewrite (scope_foridx_opt W (callf W funcs m) ttable fielddef (ffs_frame (TStruct sn))
             (step_opt (ffs te perm n)) [2] 2 _ _ (fields_of te (TStruct sn)) [] tb1);
    [ | reflexivity | exact Ef | reflexivity | reflexivity | ].
  - (* the loop over the collected names *)
    rewrite exec_list_cons.
    rewrite (scope_rangeself_flat W (callf W funcs m)
               (fun a b => [DType (TStruct sn); b; DUnit; DUnit; DUnit; DUnit; DUnit; a; DUnit; DUnit])
               [7] 1 7 _
               (fun en => match res_tag te sn (fst en) with Some tg => [(fst en, tg)] | None => [] end)
               tb1 DUnit);
      [ | intros; reflexivity | intros; reflexivity | intros; reflexivity | intros; reflexivity | ].
    + steps. reflexivity.
    + intros [nm g] Hin. cbn [fst snd]. steps. unfold res_tag.
      destruct (go_resolve_field te sn nm) as [| |p ft ex|mt]; cbn; steps;
        try (rewrite tset_single; reflexivity).
      destruct ex; cbn; steps; [rewrite tset_single|rewrite tdel_single]; reflexivity.
  - (* one field *)
    intros a0 j f a1 Hnth Hstep. unfold ffs_frame. cbn [upd].
    steps. rewrite Hnth. cbn. steps.
    unfold step_opt, ffs_step in Hstep.
    assert (Hin : In f (fields_of te (TStruct sn))) by (eapply nth_error_In; exact Hnth).
    destruct (fd_anon f) eqn:Ea.
    + destruct (ffs te perm n (fd_ty f)) as [sub|] eqn:Esub; [|discriminate Hstep].
      inversion Hstep as [Ha1]. clear Hstep.
      rewrite exec_list_cons.
      rewrite (scope_range_opt W (callf W funcs m) ttable
                 (fun types => [DType (TStruct sn); DTab types; DNat j; DSField f; DUnit; DUnit; DUnit; DUnit; DUnit; DUnit])
                 merge_dv [4; 5] (Some 4) (Some 5) _ _ (DTab sub)
                 (map (fun en => (DStr (fst en), DTag (snd en))) (perm sub)) a0 (fold_left merge_entry (perm sub) a0)).
      * steps. unfold field_tag. reflexivity.
      * cbn. rewrite (IH (fd_ty f) sub P m Esub).
        -- reflexivity.
        -- exact (te_plain_field te sn f Hte Hin Ea).
        -- exact Hte.
        -- pose proof (te_ptr_depth_field te sn f Hin). lia.
        -- exact HteP.
        -- lia.
      * reflexivity.
      * apply fold_merge_dv.
      * intros x a2. reflexivity.
      * intros a2. reflexivity.
      * intros a2 x a3 Hx Hmerge. apply in_map_iff in Hx. destruct Hx as [[nm g] [Hx _]]. subst x.
        cbn [fst snd merge_dv] in Hmerge. inversion Hmerge as [Ha3]. clear Hmerge.
        unfold merge_entry. cbn [fst snd bind2 assign1 upd]. steps.
        destruct (tget nm a2) as [g0|] eqn:Eg; cbn; steps; reflexivity.
    + inversion Hstep as [Ha1]. steps. unfold field_tag. reflexivity.
Qed.

(* ---------------- CreateTypesTable ---------------- *)
Definition method_step (types : ttable) (m : string * ty) : ttable := tset (fst m) (method_tag (snd m)) types.

Lemma add_methods_fold : forall ms tb, add_methods ms tb = fold_left method_step ms tb.
Proof. reflexivity. Qed.

Definition entry_dv (types : ttable) (x : dval * dval) : option ttable :=
  match snd x with DKey _ k vt => Some (tset k (mkTag vt false false) types) | _ => None end.

Lemma fold_entry_dv : forall kt (l : ttable) k a,
  fold_opt entry_dv
    (combine (map DNat (seq k (List.length (map (fun en => DKey kt (fst en) (tg_ty (snd en))) l))))
             (map (fun en => DKey kt (fst en) (tg_ty (snd en))) l)) a
  = Some (fold_left (fun acc e => tset (fst e) (mkTag (tg_ty (snd e)) false false) acc) l a).
Proof.
  induction l as [|[n g] r IH]; intros k a; [reflexivity|].
  cbn [map List.length seq combine fold_opt entry_dv snd fst fold_left tg_ty]. apply IH.
Qed.

Lemma fold_entries_tags : forall (l : ttable) a,
  (forall e, In e l -> snd e = mkTag (tg_ty (snd e)) false false) ->
  fold_left (fun acc e => tset (fst e) (mkTag (tg_ty (snd e)) false false) acc) l a
  = fold_left (fun acc e => tset (fst e) (snd e) acc) l a.
Proof.
  induction l as [|e r IH]; intros a H; [reflexivity|]. cbn [fold_left].
  rewrite <- (H e (or_introl eq_refl)). apply IH. intros e' He'. apply H. right. exact He'.
Qed.

Lemma kind_map_facts : forall mt, is_kind_of mt RKMap = true ->
  is_nil_ty mt = false /\ kind_of_ty mt = RKMap /\ elem1 mt = mt /\ method_set te mt = [] /\
  exists k e, under mt = TMap k e.
Proof.
  unfold is_kind_of. induction mt; intros H; try discriminate H.
  - repeat split; try reflexivity. eexists. eexists. reflexivity.
  - cbn [kind_of_ty] in H. destruct (IHmt H) as [_ [Hk [_ [_ Hu]]]].
    repeat split; try reflexivity; [exact Hk|exact Hu].
Qed.

Definition ctt_frame (env : envty) (t d : ty) (types : ttable) : frame :=
  [DEnv env; DTab types; DRVal env; DType t; DType d; DUnit; DUnit; DUnit; DUnit; DUnit; DUnit].

Hypothesis Hperm : forall l e, In e (perm l) -> In e l.

Ltac struct_env T sn :=
  match goal with
  | Hc : match ffs _ _ _ _ with Some _ => _ | None => None end = Some _, Hte : te_plain _ = true |- _ =>
      let tbf := fresh "tbf" in let Ef := fresh "Ef" in let Htb := fresh "Htb" in
      destruct (ffs te perm (fuel0 te) (TStruct sn)) as [tbf|] eqn:Ef; [|discriminate Hc];
      inversion Hc as [Htb]; clear Hc; enter; steps;
      match goal with
      | |- context [callf W funcs ?m "FieldsFromStruct" _] =>
          (rewrite (fields_from_struct_run (fuel0 te) (TStruct sn) tbf (te_ptr_depth te) m Ef eq_refl Hte);
             [|cbn; lia|lia|lia]);
          cbn; steps; rewrite exec_list_cons;
          (rewrite (scope_foridx_opt W (callf W funcs m) ttable (string * ty)%type
                     (fun types => [DEnv (EStruct T); DTab types; DRVal (EStruct T);
                                    DType T; DType (TStruct sn); DUnit; DUnit; DUnit; DUnit; DUnit; DUnit])
                     (fun a x => Some (method_step a x)) [5] 5 _ _ (method_set te T) tbf
                     (fold_left method_step (method_set te T) tbf));
             [ | reflexivity | apply fold_opt_total | intros; reflexivity | intros; reflexivity | ]);
          [ steps; reflexivity
          | let a0 := fresh "a0" in let j := fresh "j" in let x := fresh "x" in let a1 := fresh "a1" in
            let Hnth := fresh "Hnth" in let Hs := fresh "Hs" in
            intros a0 j x a1 Hnth Hs; inversion Hs; cbn [upd]; steps; rewrite Hnth; cbn; steps; reflexivity ]
      end
  end.

Lemma create_types_table_run : forall env tb m,
  create_types_table te perm env = Some tb -> env_in_fragment env = true -> te_plain te = true ->
  tables_fuel te <= m ->
  table_of (callf W funcs m "CreateTypesTable" [DEnv env]) = Got tb.
Proof.
  intros env tb m Hc Hfr Hte Hm. unfold tables_fuel in Hm. destruct m as [|m]; [lia|].
  destruct env as [t|mt entries].
  - (* a struct environment *)
    cbn [env_in_fragment] in Hfr. apply andb_prop in Hfr. destruct Hfr as [Hp Hnm].
    cbn [create_types_table] in Hc.
    destruct t as [| | | | | | |sn|e| |nm u|]; cbn [elem1] in Hc.
    all: try (inversion Hc; subst tb; enter; steps; reflexivity).
    + struct_env (TStruct sn) sn.
    + (* *T: one pointer is looked through *)
      cbn [plain] in Hp. apply andb_prop in Hnm. destruct Hnm as [Hnm Hnn].
      destruct e as [| | | | | | |sn|e'| |nm u|]; try discriminate Hnm; try discriminate Hnn.
      all: try (inversion Hc; subst tb; enter; steps; reflexivity).
      * struct_env (TPtr (TStruct sn)) sn.
      * cbn [plain] in Hp. apply andb_prop in Hp. destruct Hp as [Hp1 Hp2].
        apply negb_true_iff in Hp1, Hp2, Hnm. unfold is_kind_of in *. cbn [kind_of_ty] in Hnm.
        inversion Hc; subst tb. enter. steps. rewrite Hp2. cbn. rewrite Hnm. cbn. steps. reflexivity.
    + (* a declared type that is neither pointer nor struct *)
      cbn [plain] in Hp. apply andb_prop in Hp. destruct Hp as [Hp1 Hp2].
      apply negb_true_iff in Hp1, Hp2. unfold is_kind_of in *.
      inversion Hc; subst tb. enter. steps. rewrite Hp1. cbn. steps. rewrite Hp2. cbn.
      destruct (rkind_eqb (kind_of_ty u) RKMap) eqn:Em; cbn; steps; [|reflexivity].
      step_loop. unfold is_kind_of. cbn [kind_of_ty]. rewrite Em. cbn. steps.
      step_loop. steps. reflexivity.
  - (* a map environment *)
    cbn [env_in_fragment] in Hfr. apply andb_prop in Hfr. destruct Hfr as [Hk Hkey].
    destruct (kind_map_facts mt Hk) as [Hnil [Hkind [Hel [Hms [k [e Hu]]]]]].
    cbn [create_types_table] in Hc. rewrite Hel, Hu, Hms in Hc. unfold map_key_ty in Hkey. rewrite Hu in Hkey.
    enter. steps. rewrite (type_meth_kind W mt Hnil), Hkind. cbn. steps.
    rewrite (type_meth_kind W mt Hnil), Hkind. cbn. steps.
    assert (Hkeys : prim_meth W (DRVal (X.Ty.TypesTable.EMap mt entries)) "MapKeys" []
                    = Got (DList (map (fun en => DKey k (fst en) (tg_ty (snd en)))
                                      (perm (map (fun en => (fst en, mkTag (snd en) false false)) entries))))).
    { cbn. rewrite Hk. unfold map_key_ty. rewrite Hu. reflexivity. }
    destruct (is_kind_of k RKString) eqn:Eks.
    + (* string keys *)
      assert (Hks : k = TString).
      { destruct k; try discriminate Eks; try reflexivity. cbn [negb orb] in Hkey. compute in Hkey. discriminate Hkey. }
      subst k. inversion Hc as [Htb]. clear Hc.
      set (ptb := perm (map (fun en : string * ty => (fst en, mkTag (snd en) false false)) entries)) in *.
      set (keys := map (fun en : string * tag => DKey TString (fst en) (tg_ty (snd en))) ptb) in *.
      rewrite exec_list_cons.
      rewrite (scope_range_opt W (callf W funcs m) ttable
                 (fun types => [DEnv (X.Ty.TypesTable.EMap mt entries); DTab types; DRVal (X.Ty.TypesTable.EMap mt entries);
                                DType mt; DType mt; DUnit; DUnit; DUnit; DUnit; DUnit; DUnit])
                 entry_dv [7] None (Some 7) _ _ (DList keys)
                 (combine (map DNat (seq 0 (List.length keys))) keys) []
                 (fold_left (fun acc e => tset (fst e) (mkTag (tg_ty (snd e)) false false) acc) ptb []));
        [ | cbn [eval rbind get nth]; exact Hkeys | reflexivity | apply fold_entry_dv
          | intros; reflexivity | intros; reflexivity | ].
      * step_loop. rewrite (type_meth_nummethod W mt Hnil), Hms. cbn. steps.
        rewrite fold_entries_tags; [reflexivity|].
        intros en Hen. apply Hperm in Hen. apply in_map_iff in Hen. destruct Hen as [en0 [Hen0 _]].
        subst en. reflexivity.
      * intros a0 [ix kv] a1 Hx Hs. apply in_combine_r in Hx. apply in_map_iff in Hx.
        destruct Hx as [[nm g] [Hx _]]. subst kv. cbn [entry_dv snd fst] in Hs. inversion Hs as [Ha1]. clear Hs.
        cbn [bind2 assign1 fst snd upd]. steps. reflexivity.
    + (* keys of another kind: no entry *)
      assert (Htb : tb = []).
      { destruct k; try discriminate Eks; inversion Hc; reflexivity. }
      subst tb. clear Hc.
      set (ptb := perm (map (fun en : string * ty => (fst en, mkTag (snd en) false false)) entries)) in *.
      set (keys := map (fun en : string * tag => DKey k (fst en) (tg_ty (snd en))) ptb) in *.
      rewrite exec_list_cons.
      rewrite (scope_range_opt W (callf W funcs m) ttable
                 (fun types => [DEnv (X.Ty.TypesTable.EMap mt entries); DTab types; DRVal (X.Ty.TypesTable.EMap mt entries);
                                DType mt; DType mt; DUnit; DUnit; DUnit; DUnit; DUnit; DUnit])
                 (fun a _ => Some a) [7] None (Some 7) _ _ (DList keys)
                 (combine (map DNat (seq 0 (List.length keys))) keys) [] []);
        [ | cbn [eval rbind get nth]; exact Hkeys | reflexivity | apply fold_opt_const
          | intros; reflexivity | intros; reflexivity | ].
      * step_loop. rewrite (type_meth_nummethod W mt Hnil), Hms. cbn. steps. reflexivity.
      * intros a0 [ix kv] a1 Hx Hs. apply in_combine_r in Hx. apply in_map_iff in Hx.
        destruct Hx as [[nm g] [Hx _]]. subst kv. inversion Hs as [Ha1]. clear Hs.
        cbn [bind2 assign1 fst snd upd]. steps. unfold is_kind_of in Eks. rewrite Eks. cbn. steps. reflexivity.
Qed.

End Tables.

(* ------------------------------------------------------------------ A: the three functions, as theorems *)
(* FieldsFromStruct: whenever the model's recursion ends within its fuel n, the regenerated statements
   end with the same table for every fuel above n + the pointer chains + 1 *)
Theorem fields_from_struct_bridge : forall te perm n t tb fuel,
  ffs te perm n t = Some tb -> plain t = true -> te_plain te = true ->
  n + Nat.max (ptr_depth t) (te_ptr_depth te) + 1 < fuel ->
  gen_fields_from_struct funcs te perm fuel t = Got tb.
Proof.
  intros te perm n t tb fuel Hffs Hp Hte Hf. unfold gen_fields_from_struct.
  rewrite (fields_from_struct_run (a_world te perm) n t tb (Nat.max (ptr_depth t) (te_ptr_depth te)) fuel Hffs Hp Hte
             (Nat.le_max_l _ _) (Nat.le_max_r _ _) Hf).
  reflexivity.
Qed.

(* CreateTypesTable *)
Theorem create_types_table_bridge : forall te perm env tb fuel,
  (forall l e, In e (perm l) -> In e l) ->
  create_types_table te perm env = Some tb ->
  env_in_fragment env = true -> te_plain te = true -> tables_fuel te <= fuel ->
  gen_create_types_table funcs te perm fuel env = Got tb.
Proof.
  intros te perm env tb fuel Hperm Hc Hfr Hte Hf. unfold gen_create_types_table.
  exact (create_types_table_run (a_world te perm) Hperm env tb fuel Hc Hfr Hte Hf).
Qed.

(* the statement without the fragment: false, the model is narrower than Go's reflect *)
Definition create_types_table_bridge_full_statement : Prop :=
  forall te perm env tb fuel,
  (forall l e, In e (perm l) -> In e l) ->
  create_types_table te perm env = Some tb -> tables_fuel te <= fuel ->
  gen_create_types_table funcs te perm fuel env = Got tb.

Module TWit.
Definition te : tenv := [("Inner", mkStruct [mkField "X" (TNum KInt) false true; mkField "Y" TString false true] [] []);
                         ("Outer", mkStruct [mkField "Inner" (TPtr (TStruct "Inner")) true true; mkField "Z" TBool false true;
                                             mkField "low" TBool false false]
                                            [("M", TFunc [TStruct "Outer"] false [TBool])]
                                            [("M", TFunc [TPtr (TStruct "Outer")] false [TBool]);
                                             ("PM", TFunc [TPtr (TStruct "Outer")] false [])])].
(* `type P *Inner`: reflect looks through the declared name, the model's elem1 does not *)
Definition named_ptr : envty := EStruct (TNamed "P" (TPtr (TStruct "Inner"))).
(* a pointer to a map: Go panics in MapKeys, the model reads through the pointer *)
Definition ptr_map : envty := X.Ty.TypesTable.EMap (TPtr (TMap TString TIface)) [("a", TBool)].
(* `type S string` as key type: Go takes the keys, the model asks for `string` itself *)
Definition named_key : envty := X.Ty.TypesTable.EMap (TMap (TNamed "S" TString) TIface) [("a", TBool)].
Definition outer_ptr : envty := EStruct (TPtr (TStruct "Outer")).
Definition a_map : envty := X.Ty.TypesTable.EMap (TMap TString TIface) [("f", TFunc [] false [TBool]); ("o", TPtr (TStruct "Outer"))].
End TWit.

Lemma perm_id_sub : forall (l : ttable) e, In e (perm_id l) -> In e l.
Proof. intros l e H. exact H. Qed.

Lemma perm_rev_sub : forall (l : ttable) e, In e (perm_rev l) -> In e l.
Proof. intros l e H. unfold perm_rev in H. apply in_rev in H. exact H. Qed.

Theorem create_types_table_bridge_refuted :
  create_types_table TWit.te perm_id TWit.named_ptr = Some [] /\
  gen_create_types_table funcs TWit.te perm_id (tables_fuel TWit.te) TWit.named_ptr
    = Got [("Y", mkTag TString false false); ("X", mkTag (TNum KInt) false false)] /\
  create_types_table TWit.te perm_id TWit.ptr_map = Some [("a", mkTag TBool false false)] /\
  gen_create_types_table funcs TWit.te perm_id (tables_fuel TWit.te) TWit.ptr_map = Panics /\
  create_types_table TWit.te perm_id TWit.named_key = Some [] /\
  gen_create_types_table funcs TWit.te perm_id (tables_fuel TWit.te) TWit.named_key = Got [("a", mkTag TBool false false)] /\
  ~ create_types_table_bridge_full_statement.
Proof.
  repeat split; try (vm_compute; reflexivity).
  intros H. specialize (H TWit.te perm_id TWit.ptr_map _ (tables_fuel TWit.te) perm_id_sub eq_refl (le_n _)).
  vm_compute in H. discriminate H.
Qed.

(* non-vacuity: a struct environment with an embedded pointer, an unexported field, methods on both
   receivers, and a map environment, are inside the fragment; both tables are non-trivial *)
Example create_types_table_bridge_inhabited :
  env_in_fragment TWit.outer_ptr = true /\ env_in_fragment TWit.a_map = true /\ te_plain TWit.te = true /\
  create_types_table TWit.te perm_rev TWit.outer_ptr
    = Some [("PM", mkTag (TFunc [TPtr (TStruct "Outer")] false []) true false);
            ("M", mkTag (TFunc [TPtr (TStruct "Outer")] false [TBool]) true false);
            ("Y", mkTag TString false false); ("X", mkTag (TNum KInt) false false);
            ("Inner", mkTag (TPtr (TStruct "Inner")) false false); ("Z", mkTag TBool false false)] /\
  gen_create_types_table funcs TWit.te perm_rev (tables_fuel TWit.te) TWit.outer_ptr
    = match create_types_table TWit.te perm_rev TWit.outer_ptr with Some tb => Got tb | None => NoFuel end /\
  gen_create_types_table funcs TWit.te perm_rev (tables_fuel TWit.te) TWit.a_map
    = Got [("f", mkTag (TFunc [] false [TBool]) false false); ("o", mkTag (TPtr (TStruct "Outer")) false false)].
Proof. repeat split; vm_compute; reflexivity. Qed.

(* ================================================================== conf/operators_table.go *)
Definition fres_vals (x : fres) : res (list dval) :=
  match x with
  | FHit o fn => Got [DType o; DStr fn; DBool true]
  | FMiss => Got [DNil; DStr ""; DBool false]
  | FPanic => Panics
  end.

Section Overloads.
Variable W : world.
Variable types : ttable.
Hypothesis Hsig : table_sigs_ok types = true.
Local Notation impl := (w_impl W).

Definition fo_frame (cands : list string) (l r : ty) : frame :=
  [DList (map DStr cands); DTab types; DType l; DType r; DUnit; DUnit; DUnit; DUnit; DUnit; DUnit; DUnit].

(* `l == p || (p.Kind() == reflect.Interface && (l == nil || l.Implements(p)))` on a frame that
   holds l in slot a and the parameter type p in slot b *)
Ltac fit_expr a p :=
  rewrite exec_list_cons, exec_assign;
  match goal with
  | |- context [eval ?W0 ?C0 ?e0 ?s0] =>
      let E := fresh "E" in
      assert (E : eval W0 C0 e0 s0 = Got (DBool (arg_fits impl a p)));
      [ cbn; unfold arg_fits, is_iface;
        match goal with Hn : is_nil_ty p = false |- _ => rewrite (type_meth_kind _ p Hn) end;
        destruct (ty_eqb a p); cbn; [reflexivity|];
        destruct (kind_of_ty p) eqn:Ek; cbn; try reflexivity;
        destruct (is_nil_ty a) eqn:En; cbn; [reflexivity|];
        rewrite (type_meth_implements _ a p En); [reflexivity|unfold is_iface; rewrite Ek; reflexivity]
      | rewrite E; cbn ]
  end.

Lemma find_overload_run : forall cands l r n,
  callf W funcs (S n) "FindSuitableOperatorOverload" [DList (map DStr cands); DTab types; DType l; DType r]
  = fres_vals (find_overload impl types cands l r).
Proof.
  intros cands l r n. enter.
  match goal with
  | |- context [SRange None (Some 4) (GVar 0) ?B0] => set (B := B0)
  end.
  match goal with
  | |- _ =>
      assert (K : forall (i : dval) fn, exists s',
                exec_list W (callf W funcs n) B (bind2 None (Some 4) (i, DStr fn) (fo_frame cands l r))
                = match candidate impl types fn l r with
                  | FHit o f => OReturn [DType o; DStr f; DBool true] s'
                  | FMiss => ONext (bind2 None (Some 4) (i, DStr fn) (fo_frame cands l r))
                  | FPanic => OPanic
                  end)
  end.
  { subst B. intros i fn. unfold fo_frame. cbn [bind2 assign1 fst snd upd]. unfold candidate. steps.
    destruct (tget fn types) as [tg|] eqn:Eg; cbn; steps.
    - destruct (func_shape (tg_ty tg)) as [[ins outs]|] eqn:Efs.
      + pose proof (table_sigs_get types fn tg ins outs Hsig Eg Efs) as Hnn.
        destruct (tg_method tg); cbn; steps; rewrite type_meth_in, Efs.
        * destruct (nth_error ins 1) as [p1|] eqn:E1; cbn; [|exists []; reflexivity]. steps.
          rewrite type_meth_in, Efs.
          destruct (nth_error ins 2) as [p2|] eqn:E2; cbn; [|exists []; reflexivity].
          pose proof (Hnn 1 p1 E1) as Hn1. pose proof (Hnn 2 p2 E2) as Hn2.
          fit_expr l p1. fit_expr r p2. steps.
          destruct (arg_fits impl l p1); cbn; [|steps; exists []; reflexivity].
          destruct (arg_fits impl r p2); cbn; [|steps; exists []; reflexivity].
          steps. rewrite type_meth_out, Efs. destruct outs as [|o outs']; cbn; [exists []; reflexivity|].
          eexists. reflexivity.
        * destruct (nth_error ins 0) as [p1|] eqn:E1; cbn; [|exists []; reflexivity]. steps.
          rewrite type_meth_in, Efs.
          destruct (nth_error ins 1) as [p2|] eqn:E2; cbn; [|destruct ins; exists []; reflexivity].
          pose proof (Hnn 0 p1 E1) as Hn1. pose proof (Hnn 1 p2 E2) as Hn2.
          fit_expr l p1. fit_expr r p2. steps.
          destruct (arg_fits impl l p1); cbn; [|steps; exists []; reflexivity].
          destruct (arg_fits impl r p2); cbn; [|steps; exists []; reflexivity].
          steps. rewrite type_meth_out, Efs. destruct outs as [|o outs']; cbn; [exists []; reflexivity|].
          eexists. reflexivity.
      + destruct (tg_method tg); cbn; steps; rewrite type_meth_in, Efs; exists []; reflexivity.
    - exists []. reflexivity. }
  change [DList (map DStr cands); DTab types; DType l; DType r; DUnit; DUnit; DUnit; DUnit; DUnit; DUnit; DUnit]
    with (fo_frame cands l r).
  rewrite exec_list_cons.
  rewrite (scope_range_search_body W (callf W funcs n) (fo_frame cands l r) [4] None (Some 4) _ _
             (DList (map DStr cands))
             (combine (map DNat (seq 0 (List.length (map DStr cands)))) (map DStr cands)));
    [ | reflexivity | reflexivity | intros; reflexivity | reflexivity | ].
  2: { intros [ix v] s' Hin Hex. apply in_combine_r in Hin. apply in_map_iff in Hin. destruct Hin as [fn [Hfn _]].
       subst v. destruct (K ix fn) as [s2 Hk]. rewrite Hk in Hex.
       destruct (candidate impl types fn l r); inversion Hex. reflexivity. }
  match goal with
  | |- _ =>
      assert (G : forall cs k,
                match find_overload impl types cs l r with
                | FHit o f => exists s', first_out (fun x => body_out W (callf W funcs n) B (bind2 None (Some 4) x (fo_frame cands l r)))
                                           (combine (map DNat (seq k (List.length (map DStr cs)))) (map DStr cs))
                                         = Some (OReturn [DType o; DStr f; DBool true] s')
                | FMiss => first_out (fun x => body_out W (callf W funcs n) B (bind2 None (Some 4) x (fo_frame cands l r)))
                             (combine (map DNat (seq k (List.length (map DStr cs)))) (map DStr cs)) = None
                | FPanic => first_out (fun x => body_out W (callf W funcs n) B (bind2 None (Some 4) x (fo_frame cands l r)))
                              (combine (map DNat (seq k (List.length (map DStr cs)))) (map DStr cs)) = Some OPanic
                end)
  end.
  { induction cs as [|fn rest IH]; intros k; [reflexivity|].
    cbn [find_overload map List.length seq combine first_out].
    assert (Hb : match candidate impl types fn l r with
                 | FHit o f => exists s', body_out W (callf W funcs n) B (bind2 None (Some 4) (DNat k, DStr fn) (fo_frame cands l r))
                                          = Some (OReturn [DType o; DStr f; DBool true] s')
                 | FMiss => body_out W (callf W funcs n) B (bind2 None (Some 4) (DNat k, DStr fn) (fo_frame cands l r)) = None
                 | FPanic => body_out W (callf W funcs n) B (bind2 None (Some 4) (DNat k, DStr fn) (fo_frame cands l r)) = Some OPanic
                 end).
    { unfold body_out. destruct (K (DNat k) fn) as [s2 Hk]. rewrite Hk.
      destruct (candidate impl types fn l r); [exists s2; reflexivity|reflexivity|reflexivity]. }
    destruct (candidate impl types fn l r) as [o f| |].
    - destruct Hb as [s2 Hb]. rewrite Hb. exists s2. reflexivity.
    - rewrite Hb. apply IH.
    - rewrite Hb. reflexivity. }
  specialize (G cands 0).
  destruct (find_overload impl types cands l r) as [o f| |].
  - destruct G as [s' G]. rewrite G. reflexivity.
  - rewrite G. steps. reflexivity.
  - rewrite G. reflexivity.
Qed.

(* ================================================================== compiler/patcher.go *)
Lemma exit_run : forall ops e n,
  run W funcs (S (S n)) "Exit" [patcher ops types; DNode e]
  = match exit_model impl types ops (w_tyof W) e with
    | XDone e' => Got ([], [patcher ops types; DNode e'])
    | XPanic => Panics
    end.
Proof.
  intros ops e n. unfold exit_model, patcher. rewrite run_S.
  cbn [find_fn funcs f_name fn_create_types_table fn_fields_from_struct fn_dereference fn_find_overload
       fn_config_check fn_exit String.eqb Ascii.eqb Bool.eqb f_params f_slots f_body List.length Nat.eqb
       init_frame app repeat Nat.sub].
  destruct e; try (steps; reflexivity).
  (* a binary node *)
  steps. unfold panics_at, rewrite_one, overload_at, checker_binary_overload.
  destruct (ops_get ops op) as [fns|] eqn:Eops; cbn; steps; [|reflexivity].
  rewrite find_overload_run.
  destruct (find_overload impl types fns (w_tyof W (loc_of e1)) (w_tyof W (loc_of e2))) as [o fn| |]; cbn; steps; reflexivity.
Qed.

(* ================================================================== conf/config.go *)
Definition cc_frame (c op fns : dval) : frame := [c; op; fns; DUnit; DUnit; DUnit; DUnit; DUnit; DUnit].

Lemma config_check_run : forall ops cfns err n,
  callf W funcs (S n) "Check" [config_rec ops types cfns err] = Got [DErr (check_outcome types ops cfns err)].
Proof.
  intros ops cfns err n. enter.
  match goal with
  | |- context [SRange (Some 1) (Some 2) _ [SScope [3] [SRange None (Some 3) _ ?B0]]] => set (B := B0)
  end.
  set (c := config_rec ops types cfns err).
  (* one function name *)
  assert (K : forall op fns (i : dval) fn, exists s',
            exec_list W (callf W funcs n) B (bind2 None (Some 3) (i, DStr fn) (cc_frame c op fns))
            = match verdict_vals (check_fn types fn) with
              | Some vs => OReturn vs s'
              | None => ONext (bind2 None (Some 3) (i, DStr fn) (cc_frame c op fns))
              end).
  { subst B c. intros op fns i fn. unfold cc_frame, config_rec. cbn [bind2 assign1 fst snd upd]. unfold check_fn.
    steps. destruct (tget fn types) as [tg|] eqn:Eg; cbn; steps; [|done_ex].
    destruct (is_nil_ty (tg_ty tg)) eqn:En; cbn; steps; [done_ex|].
    rewrite (type_meth_kind W _ En). cbn.
    pose proof (func_shape_kind (tg_ty tg)) as Hfk.
    destruct (func_shape (tg_ty tg)) as [[ins outs]|] eqn:Efs; cbv beta iota in Hfk.
    - rewrite Hfk. cbn. steps.
      destruct (tg_method tg); cbn; steps.
      all: rewrite (type_meth_numin W (tg_ty tg) En); rewrite Efs; cbn.
      all: match goal with
           | |- context [Nat.eqb (List.length ?l0) ?k] => destruct (Nat.eqb (List.length l0) k); cbn
           end.
      all: try (steps; done_ex).
      all: rewrite (type_meth_numout W (tg_ty tg) En); rewrite Efs; cbn.
      all: match goal with
           | |- context [Nat.eqb (List.length ?l0) ?k] => destruct (Nat.eqb (List.length l0) k); cbn
           end; steps; done_ex.
    - rewrite Hfk. cbn. steps. done_ex. }
  change [c; DUnit; DUnit; DUnit; DUnit; DUnit; DUnit; DUnit; DUnit] with (cc_frame c DUnit DUnit).
  (* the functions of one operator *)
  assert (K2 : forall x : dval * dval, In x (map (fun en => (DOp (fst en), DList (map DStr (snd en)))) ops) ->
            exists s', exec_list W (callf W funcs n) [SScope [3] [SRange None (Some 3) (GVar 2) B]]
                         (bind2 (Some 1) (Some 2) x (cc_frame c DUnit DUnit))
                       = match cls_op types x with
                         | Some vs => OReturn vs s'
                         | None => ONext (bind2 (Some 1) (Some 2) x (cc_frame c DUnit DUnit))
                         end).
  { intros x Hx. apply in_map_iff in Hx. destruct Hx as [[op fns] [Hx _]]. subst x. cbn [fst snd].
    change (bind2 (Some 1) (Some 2) (DOp op, DList (map DStr fns)) (cc_frame c DUnit DUnit))
      with (cc_frame c (DOp op) (DList (map DStr fns))).
    rewrite exec_list_cons.
    destruct (scope_range_find W (callf W funcs n) (cc_frame c (DOp op) (DList (map DStr fns))) (cls_fn types)
                [3] None (Some 3) (GVar 2) B (DList (map DStr fns))
                (combine (map DNat (seq 0 (List.length (map DStr fns)))) (map DStr fns))
                eq_refl eq_refl (fun _ => eq_refl) eq_refl) as [s1 H1].
    - intros [ix v] Hin. apply in_combine_r in Hin. apply in_map_iff in Hin. destruct Hin as [fn [Hfn _]].
      subst v. unfold cls_fn. cbn [snd]. apply K.
    - rewrite H1. unfold cls_op. cbn [snd].
      destruct (first_some (cls_fn types) (combine (map DNat (seq 0 (List.length (map DStr fns)))) (map DStr fns)));
        [exists s1; reflexivity|exists []; rewrite exec_list_nil; reflexivity]. }
  rewrite exec_list_cons.
  destruct (scope_range_find W (callf W funcs n) (cc_frame c DUnit DUnit) (cls_op types)
              [1; 2] (Some 1) (Some 2) (GField (GVar 0) "Operators") _ (DOps ops)
              (map (fun en => (DOp (fst en), DList (map DStr (snd en)))) ops)
              eq_refl eq_refl (fun _ => eq_refl) eq_refl K2) as [s1 H1].
  rewrite H1, first_some_ops. unfold check_outcome.
  destruct (first_bad types ops); cbn [verdict_vals]; try reflexivity.
  (* the ConstExpr functions *)
  rewrite exec_list_cons.
  match goal with
  | |- context [SRange (Some 7) (Some 8) ?E ?B1] =>
      destruct (scope_range_find W (callf W funcs n) (cc_frame c DUnit DUnit) cls_cfn
                  [7; 8] (Some 7) (Some 8) E B1 (DCfns cfns)
                  (map (fun en => (DStr (fst en), DFnVal (snd en))) cfns)
                  eq_refl eq_refl (fun _ => eq_refl) eq_refl) as [s2 H2]
  end.
  { intros x Hx. apply in_map_iff in Hx. destruct Hx as [[nm k] [Hx _]]. subst x.
    unfold cls_cfn, cc_frame. cbn [fst snd bind2 assign1 upd]. steps.
    destruct (rkind_eqb k RKFunc); cbn; steps; done_ex. }
  rewrite H2, first_some_cfns. destruct (cfns_ok cfns); [|reflexivity].
  unfold cc_frame, c, config_rec. steps. reflexivity.
Qed.
End Overloads.

(* ------------------------------------------------------------------ B, C: as theorems *)
(* FindSuitableOperatorOverload: the candidate loop, the receiver offset, the two In(i), the fit
   tests with their short-circuits, Out(0), the early return and the final (nil, "", false) *)
Theorem find_overload_bridge : forall implements types cands l r fuel,
  table_sigs_ok types = true -> 0 < fuel ->
  gen_find_overload funcs implements types fuel cands l r = Some (find_overload implements types cands l r).
Proof.
  intros implements types cands l r fuel Hs Hf. destruct fuel as [|n]; [inversion Hf|].
  unfold gen_find_overload, find_args.
  rewrite (find_overload_run (b_world implements (fun _ => TNilT)) types Hs cands l r n).
  cbn [w_impl b_world]. destruct (find_overload implements types cands l r); reflexivity.
Qed.

(* operatorPatcher.Exit on every node: only a BinaryNode whose operator is mapped and whose operand
   types (through Type()) fit a candidate is replaced, by FunctionNode{Name: fn, Arguments: [Left,
   Right]} through ast.Patch; a panic of the lookup is a panic of Exit *)
Theorem exit_bridge : forall implements types ops tyof e fuel,
  table_sigs_ok types = true -> 2 <= fuel ->
  gen_exit funcs implements types ops tyof fuel e = Some (exit_model implements types ops tyof e).
Proof.
  intros implements types ops tyof e fuel Hs Hf.
  destruct fuel as [|[|n]]; [inversion Hf|inversion Hf as [|x Hx]; inversion Hx|].
  unfold gen_exit. rewrite (exit_run (b_world implements tyof) types Hs ops e n).
  cbn [w_impl w_tyof b_world]. destruct (exit_model implements types ops tyof e); reflexivity.
Qed.

Corollary exit_rewrites : forall implements types ops tyof e fuel,
  table_sigs_ok types = true -> 2 <= fuel -> panics_at implements types ops tyof e = false ->
  gen_exit funcs implements types ops tyof fuel e = Some (XDone (rewrite_one implements types ops tyof e)).
Proof.
  intros implements types ops tyof e fuel Hs Hf Hp. rewrite (exit_bridge _ _ _ _ _ _ Hs Hf).
  unfold exit_model. rewrite Hp. reflexivity.
Qed.

(* Config.Check: both loops over the operator table with the three tests on a missing function and
   the two on its signature, the loop over ConstExprFns, `return c.err` *)
Theorem config_check_bridge : forall types ops cfns err fuel, 0 < fuel ->
  gen_config_check funcs types ops cfns err fuel = Got (check_outcome types ops cfns err).
Proof.
  intros types ops cfns err fuel Hf. destruct fuel as [|n]; [inversion Hf|].
  unfold gen_config_check. rewrite config_check_run. reflexivity.
Qed.

(* ... and the model's verdict: Check reports an operator error exactly when config_check rejects *)
Corollary config_check_gate : forall types ops cfns err fuel, 0 < fuel ->
  (config_check types ops = false <->
   (gen_config_check funcs types ops cfns err fuel = Got (Some 0) \/ gen_config_check funcs types ops cfns err fuel = Got (Some 1))
   /\ first_bad types ops <> FnOk).
Proof.
  intros types ops cfns err fuel Hf. rewrite (config_check_bridge types ops cfns err fuel Hf). split.
  - intros H. apply (check_outcome_operator types ops cfns err) in H. destruct H as [Hne Ho]. split; [|exact Hne].
    rewrite Ho. destruct (first_bad types ops); [contradiction|left; reflexivity|right; reflexivity].
  - intros [_ Hne]. destruct (config_check types ops) eqn:E; [|reflexivity].
    apply first_bad_ok in E. contradiction.
Qed.

(* the statement without well-formed signatures: false on a description no Go type has (a nil
   parameter type: the source calls Kind() on it) *)
Definition find_overload_bridge_full_statement : Prop :=
  forall implements types cands l r fuel, 0 < fuel ->
  gen_find_overload funcs implements types fuel cands l r = Some (find_overload implements types cands l r).

Module OWit.
Definition V : ty := TStruct "V".
Definition types : ttable :=
  [("add", mkTag (TFunc [V; V] false [V]) false false);
   ("Scale", mkTag (TFunc [TPtr (TStruct "Env"); V; TNum KInt] false [V]) true false);
   ("show", mkTag (TFunc [TNamed "Stringer" TIface; TIface] false [TString]) false false);
   ("one", mkTag (TFunc [V] false [V]) false false);
   ("amb", mkTag TNilT false true)].
Definition ops : optable := [(BAdd, ["Scale"; "add"]); (BMul, ["show"])].
Definition impl (a p : ty) : bool := ty_eqb a V && ty_eqb p (TNamed "Stringer" TIface).
Definition z1 := BinNums.Zpos BinNums.xH.
Definition z2 := BinNums.Zpos (BinNums.xO BinNums.xH).
Definition z9 := BinNums.Zpos (BinNums.xI (BinNums.xO (BinNums.xO BinNums.xH))).
Definition tyof (p : loc) : ty :=
  match fst p with
  | BinNums.Zpos BinNums.xH => V
  | BinNums.Zpos (BinNums.xO BinNums.xH) => TNum KInt
  | _ => TNilT
  end.
Definition at1 : ann := mkAnn (z1, BinNums.Z0) RKStruct.
Definition at2 : ann := mkAnn (z2, BinNums.Z0) (RKNum KInt).
Definition at9 (k : rkind) : ann := mkAnn (z9, z9) k.
Definition v_plus_v : expr := EBinary (at9 RKStruct) BAdd (EIdent at1 "a" false) (EIdent at1 "b" false).
Definition v_plus_i : expr := EBinary (at9 RKStruct) BAdd (EIdent at1 "a" false) (EInt at2 z2).
Definition v_times_nil : expr := EBinary (at9 RKString) BMul (EIdent at1 "a" false) (ENil ann0).
Definition bad_types : ttable := [("f", mkTag (TFunc [TNilT; TNilT] false [TBool]) false false)].
End OWit.

Theorem find_overload_bridge_refuted :
  find_overload (fun _ _ => false) OWit.bad_types ["f"] TBool TBool = FMiss /\
  gen_find_overload funcs (fun _ _ => false) OWit.bad_types 1 ["f"] TBool TBool = Some FPanic /\
  ~ find_overload_bridge_full_statement.
Proof.
  repeat split; try (vm_compute; reflexivity).
  intros H. specialize (H (fun _ _ => false) OWit.bad_types ["f"] TBool TBool 1 (le_n _)).
  vm_compute in H. discriminate H.
Qed.

(* non-vacuity: a table with a method candidate (receiver offset), an interface parameter, a
   candidate with too few parameters and an ambiguous entry; the three outcomes of the lookup and
   both outcomes of Exit and of Check occur *)
Example overload_bridges_inhabited :
  table_sigs_ok OWit.types = true /\
  gen_find_overload funcs OWit.impl OWit.types 1 ["Scale"; "add"] OWit.V OWit.V = Some (FHit OWit.V "add") /\
  gen_find_overload funcs OWit.impl OWit.types 1 ["Scale"; "add"] OWit.V (TNum KInt) = Some (FHit OWit.V "Scale") /\
  gen_find_overload funcs OWit.impl OWit.types 1 ["show"] OWit.V TNilT = Some (FHit TString "show") /\
  gen_find_overload funcs OWit.impl OWit.types 1 ["add"] TString OWit.V = Some FMiss /\
  gen_find_overload funcs OWit.impl OWit.types 1 ["one"] OWit.V OWit.V = Some FPanic /\
  gen_find_overload funcs OWit.impl OWit.types 1 ["amb"] OWit.V OWit.V = Some FPanic /\
  gen_exit funcs OWit.impl OWit.types OWit.ops OWit.tyof 2 OWit.v_plus_v
    = Some (XDone (EFunction (OWit.at9 RKStruct) "add" [EIdent OWit.at1 "a" false; EIdent OWit.at1 "b" false] false)) /\
  gen_exit funcs OWit.impl OWit.types OWit.ops OWit.tyof 2 OWit.v_plus_i
    = Some (XDone (EFunction (OWit.at9 RKStruct) "Scale" [EIdent OWit.at1 "a" false; EInt OWit.at2 OWit.z2] false)) /\
  gen_exit funcs OWit.impl OWit.types OWit.ops OWit.tyof 2 OWit.v_times_nil
    = Some (XDone (EFunction (OWit.at9 RKString) "show" [EIdent OWit.at1 "a" false; ENil ann0] false)) /\
  gen_exit funcs OWit.impl OWit.types [(BAdd, ["one"])] OWit.tyof 2 OWit.v_plus_v = Some XPanic /\
  gen_exit funcs OWit.impl OWit.types OWit.ops OWit.tyof 2 (EIdent OWit.at1 "a" false) = Some (XDone (EIdent OWit.at1 "a" false)) /\
  gen_config_check funcs OWit.types OWit.ops [("c", RKFunc)] (Some 7) 1 = Got (Some 7) /\
  gen_config_check funcs OWit.types OWit.ops [("c", RKFunc)] None 1 = Got None /\
  gen_config_check funcs OWit.types [(BAdd, ["add"; "nope"])] [] None 1 = Got (Some 0) /\
  gen_config_check funcs OWit.types [(BAdd, ["add"]); (BSub, ["amb"])] [] None 1 = Got (Some 0) /\
  gen_config_check funcs OWit.types [(BAdd, ["add"; "one"])] [] None 1 = Got (Some 1) /\
  gen_config_check funcs OWit.types OWit.ops [("c", RKFunc); ("d", RKNum KInt)] None 1 = Got (Some 2).
Proof. repeat split; vm_compute; reflexivity. Qed.

(* Bridge/BrMembersChecker.v — the member cases of the regenerated checker.  gen/GenChecker.v reads
   PropertyNode / MethodNode of checker/checker.go statement by statement; their calls `fieldType(base,
   node.Property)` and `methodType(base, node.Method)` are primitives of Ty/CheckRules.v's interpreter
   (`prim_call`), answered by the hand models field_type / method_type.  With Bridge/BrMembers.v the
   answer of the primitive IS the interpretation of the regenerated body of the called function
   (gen/GenMembers.v), so the member cases are tied to the source through the call as well. *)
From Coq Require Import Bool List String Arith.
Require Import X.Base.Num X.Base.Value X.Ty.Types X.Ty.TypesTable X.Ty.Checker.
Require X.Ty.CheckRules.
Require Import X.Ty.TableRules X.Ty.MemberRules X.gen.GenMembers X.Bridge.BrMembers.
Import ListNotations.
Local Open Scope string_scope.

(* the results of the two Go functions as the values the checker's DSL binds *)
Definition gv_found (r : res (option ty)) : option (option X.Ty.CheckRules.gv) :=
  match r with
  | Got (Some t) => Some (Some (X.Ty.CheckRules.VTup [X.Ty.CheckRules.VT t; X.Ty.CheckRules.VB true]))
  | Got None => Some (Some (X.Ty.CheckRules.VTup [X.Ty.CheckRules.VT TNilT; X.Ty.CheckRules.VB false]))
  | _ => None
  end.

Definition gv_mfound (r : res (option (ty * bool))) : option (option X.Ty.CheckRules.gv) :=
  match r with
  | Got (Some (t, m)) =>
      Some (Some (X.Ty.CheckRules.VTup [X.Ty.CheckRules.VT t; X.Ty.CheckRules.VB m; X.Ty.CheckRules.VB true]))
  | Got None =>
      Some (Some (X.Ty.CheckRules.VTup [X.Ty.CheckRules.VT TNilT; X.Ty.CheckRules.VB false; X.Ty.CheckRules.VB false]))
  | _ => None
  end.

Theorem checker_fieldType_call_is_source : forall c drf t name fuel,
  plain t = true -> te_plain (cc_te c) = true ->
  lk_fuel (field_type (cc_te c) (cfuel c) t name) = false ->
  field_fuel (cc_te c) (cfuel c) t <= fuel ->
  X.Ty.CheckRules.prim_call c drf "fieldType" [X.Ty.CheckRules.VT t; X.Ty.CheckRules.VS name]
  = gv_found (gen_field_type member_funcs member_consts (cc_te c) fuel t name).
Proof.
  intros c drf t name fuel Hp Hte Hnf Hf.
  rewrite (field_type_bridge (cc_te c) (cfuel c) t name fuel Hp Hte Hnf Hf).
  unfold X.Ty.CheckRules.prim_call. cbn [String.eqb Ascii.eqb Bool.eqb].
  destruct (field_type (cc_te c) (cfuel c) t name); [reflexivity|reflexivity|discriminate Hnf].
Qed.

Theorem checker_methodType_call_is_source : forall c drf t name fuel,
  member_ty_ok t = true -> member_te_ok (cc_te c) = true ->
  lk_fuel (method_type (cc_te c) (cfuel c) t name) = false ->
  method_fuel (cfuel c) <= fuel ->
  X.Ty.CheckRules.prim_call c drf "methodType" [X.Ty.CheckRules.VT t; X.Ty.CheckRules.VS name]
  = gv_mfound (gen_method_type member_funcs member_consts (cc_te c) fuel t name).
Proof.
  intros c drf t name fuel Hok Hte Hnf Hf.
  rewrite (method_type_bridge (cc_te c) (cfuel c) t name fuel Hok Hte Hnf Hf).
  unfold X.Ty.CheckRules.prim_call. cbn [String.eqb Ascii.eqb Bool.eqb].
  destruct (method_type (cc_te c) (cfuel c) t name) as [[ft m]| |]; [reflexivity|reflexivity|discriminate Hnf].
Qed.

(* Bridge/BrLexerSt.v — stage 1 of the lexer bridge, the functions of state.go except root, and Lex
   (see Bridge/BrLexer.v). *)
From Coq Require Import ZArith List Bool String Ascii Lia.
Require Import X.Base.Value X.Syn.Tok X.Lex.Lexer X.Lex.LexRules X.Lex.LexRulesProofs X.gen.GenLexer X.Bridge.BrLexerTac.
Import ListNotations.
Local Open Scope string_scope.
Open Scope Z_scope.

Section Stage1.
Variables ul ud us : Z -> bool.
Variable F : nat.
Variable call : string -> list val -> gst -> res (list val).

Notation sig := (sig_ok ul ud us call F).
Notation fn_ok := (fn_ok ul ud us F call).

(* ---------------------------------------------------------------- state.go *)
(* scanNumber: `digits := ...; if l.accept("0") { ... }` *)
Lemma scanNumber_head :
  sig "accept" -> forall g,
  exec_block ul ud us call F (firstn 2 (fn_body fn_scanNumber)) [VInt 0; VInt 0; VInt 0; VInt 0] g =
  Ok (CNormal, [VRunes (fst (g_number_prefix g)); VInt 0; VInt 0; VInt 0]) (snd (g_number_prefix g)).
Proof. intros H1 g. go. unfold g_number_prefix. go. solve_cases. Qed.

(* scanNumber from `if l.accept("eE")` on *)
Lemma scanNumber_tail :
  sig "accept" -> sig "acceptRun" -> sig "peek" -> sig "next" -> sig "IsAlphaNumeric" ->
  forall digits a b c g,
  exec_block ul ud us call F (skipn 3 (skipn 2 (fn_body fn_scanNumber))) [VRunes digits; a; b; c] g =
  match g_number_exp ul ud F digits g with
  | Some (ok, g') => Ok (CReturn [VBool ok], [VRunes digits; a; b; c]) g'
  | None => OutOfFuel
  end.
Proof.
  intros H1 H2 H3 H4 H5 digits a b c g. go. unfold g_number_exp. go. solve_cases.
Qed.

Lemma scanNumber_bridge :
  sig "accept" -> sig "acceptRun" -> sig "peek" -> sig "next" -> sig "IsAlphaNumeric" -> fn_ok fn_scanNumber.
Proof.
  intros H1 H2 H3 H4 H5 args g T. no_args args T.
  unfold run_fn. cbn [negb Nat.eqb List.length fn_params fn_locals fn_scanNumber app repeat].
  rewrite (exec_block_split 2), (scanNumber_head H1). cbn [bind].
  rewrite (exec_block_split 3).
  remember (exec_block ul ud us call F (skipn 3 (skipn 2 (fn_body fn_scanNumber)))) as TAIL eqn:ET.
  assert (TL : forall digits a b c g0, TAIL [VRunes digits; a; b; c] g0 =
               match g_number_exp ul ud F digits g0 with
               | Some (ok, g') => Ok (CReturn [VBool ok], [VRunes digits; a; b; c]) g'
               | None => OutOfFuel
               end) by (intros; subst TAIL; apply scanNumber_tail; assumption).
  clear ET. go. unfold g_scanNumber, g_number_frac.
  generalize (g_number_prefix g); intros [digits g0]. go.
  repeat (first [rewrite TL; go | case_step]).
  all: repeat (match goal with |- context [g_number_exp ?a ?b ?n ?d ?x] => generalize (g_number_exp a b n d x); intros [[? ?]|] end; go).
  all: reflexivity.
Qed.
Lemma number_bridge : sig "scanNumber" -> sig "error" -> sig "emit" -> fn_ok fn_number.
Proof.
  intros H1 H2 H3 args g T. no_args args T. go. unfold g_number. go. solve_cases.
Qed.

Lemma dot_bridge : sig "next" -> sig "accept" -> sig "backup" -> sig "emit" -> fn_ok fn_dot.
Proof.
  intros H1 H2 H3 H4 args g T. no_args args T. go. unfold g_dot. go. solve_cases.
Qed.

Lemma nilsafe_bridge : sig "next" -> sig "accept" -> sig "emit" -> fn_ok fn_nilsafe.
Proof.
  intros H1 H2 H3 args g T. no_args args T. go. reflexivity.
Qed.

Lemma not_bridge : sig "acceptWord" -> sig "emitValue" -> fn_ok fn_not.
Proof.
  intros H1 H2 args g T. no_args args T. go. unfold g_not. go. solve_cases.
Qed.

Lemma identifier_bridge :
  sig "next" -> sig "IsAlphaNumeric" -> sig "backup" -> sig "word" -> sig "emit" -> fn_ok fn_identifier.
Proof.
  intros H1 H2 H3 H4 H5 args g T. no_args args T. go.
  match goal with
  | |- context [for_loop F ?l ?C ?P ?B _ g] =>
    assert (L : forall n r0 g0, exists r',
                for_loop n l C P B [VInt r0] g0 =
                match g_run n (g_isAlphaNumeric ul ud) g0 with
                | Some g1 =>
                  if runes_eqb (g_word (g_backup g1)) (rs "not") then Ok (CReturn [VFn SNot], [VInt r']) (g_backup g1)
                  else if existsb (runes_eqb (g_word (g_backup g1))) word_ops
                       then Ok (CNormal, [VInt r']) (g_emit TkOperator (g_backup g1))
                       else Ok (CNormal, [VInt r']) (g_emit TkIdentifier (g_backup g1))
                | None => OutOfFuel
                end)
  end.
  { induction n as [|n IH]; intros r0 g0; [exists 0; reflexivity|].
    rewrite for_loop_S. go. cbn [g_run].
    generalize (g_next g0); intros [r g1]; cbn [fst snd].
    destruct (g_isAlphaNumeric ul ud r); go; [apply IH|].
    exists r. unfold word_ops. cbn [existsb]. go.
    generalize (g_backup g1); intros g2. go. generalize (g_word g2); intros w. go.
    repeat (sp1; go). all: reflexivity. }
  unfold g_identifier. destruct (L F 0 g) as [r' E]. rewrite E.
  generalize (g_run F (g_isAlphaNumeric ul ud) g); intros [g1|]; [|reflexivity].
  generalize (g_backup g1); intros g2. cbn zeta. generalize (g_word g2); intros w.
  repeat (sp1; go). all: reflexivity.
Qed.

Lemma acceptWord_bridge : sig "peek" -> sig "next" -> fn_ok fn_acceptWord.
Proof.
  intros H1 H2 args g T. one_arg args T v. rename s into w. go. unfold g_acceptWord.
  generalize (g_peek g); intros [r0 g0]; cbn [fst snd]. go.
  match goal with
  | |- context [for_loop F ?l ?C ?P ?B [?a; ?b; ?c; ?d; _; ?e] g0] =>
    assert (L : forall n r g1, for_loop n l C P B [a; b; c; d; VInt r; e] g1 =
                match g_skip n r g1 with
                | Some (r', g') => Ok (CNormal, [a; b; c; d; VInt r'; e]) g'
                | None => OutOfFuel
                end)
  end.
  { induction n as [|n IH]; intros r g1; [reflexivity|].
    rewrite for_loop_S. go. cbn [g_skip].
    destruct (r =? 32); go; [|reflexivity].
    generalize (g_next g1); intros [r1 g2]; cbn [fst snd]. go.
    generalize (g_peek g2); intros [r2 g3]; cbn [fst snd]. go. apply IH. }
  rewrite L. clear L.
  generalize (g_skip F r0 g0); intros [[r1 g1]|]; [|reflexivity]. go.
  match goal with
  | |- context [range_loop w ?v ?B [?a; ?b; ?c; ?d; ?e; _] g1] =>
    assert (R : forall w' ch0 g2, exists ch',
                range_loop w' v B [a; b; c; d; e; VInt ch0] g2 =
                if fst (g_expect w' g2)
                then Ok (CNormal, [a; b; c; d; e; VInt ch']) (snd (g_expect w' g2))
                else Ok (CReturn [VBool false], [a; b; c; d; e; VInt ch'])
                        (g_restore (snd (g_expect w' g2)) (g_end g) (g_loc g) (g_prev g)))
  end.
  { induction w' as [|ch w' IH]; intros ch0 g2; [exists ch0; reflexivity|].
    rewrite range_loop_cons. go. cbn [g_expect].
    generalize (g_next g2); intros [r2 g3]; cbn [fst snd]. go.
    destruct (r2 =? ch); go; cbn [negb]; [apply IH|exists ch; reflexivity]. }
  destruct (R w 0 g1) as [ch' E]. rewrite E. clear R E.
  generalize (g_expect w g1); intros [ok g2]; cbn [fst snd].
  destruct ok; go; [|reflexivity].
  generalize (g_peek g2); intros [r2 g3]; cbn [fst snd]. go.
  repeat (sp1; go). all: reflexivity.
Qed.

(* ---------------------------------------------------------------- Lex *)
(* for state := root; state != nil; { state = state(l) } *)
Fixpoint g_lex_loop (n : nat) (o : option stfn) (g : gst) : option gst :=
  match n with
  | O => None
  | S f =>
    match o with
    | None => Some g
    | Some st =>
      match g_step ul ud us F st g with
      | None => None
      | Some (o', g') => g_lex_loop f o' g'
      end
    end
  end.

Definition g_Lex (input : list Z) : res (list val) :=
  match g_lex_loop F (Some SRoot) (g_init input) with
  | None => OutOfFuel
  | Some g' =>
    match g_err g' with
    | Some p => Ok [VNil; VErrAt p] g'
    | None => Ok [VToks (g_tokens g'); VNil] g'
    end
  end.

Lemma Lex_bridge :
  sig "root" -> sig "number" -> sig "dot" -> sig "nilsafe" -> sig "identifier" -> sig "not" ->
  forall input g, run_fn ul ud us call F fn_Lex [VRunes input] g = g_Lex input.
Proof.
  intros H1 H2 H3 H4 H5 H6 input g. go.
  match goal with
  | |- context [for_loop F ?l ?C ?P ?B [?a; _] ?g0] =>
    assert (L : forall n o g1, for_loop n l C P B [a; vfn o] g1 =
                match g_lex_loop n o g1 with
                | Some g' => Ok (CNormal, [a; VNil]) g'
                | None => OutOfFuel
                end)
  end.
  { induction n as [|n IH]; intros o g1; [reflexivity|].
    rewrite for_loop_S. destruct o as [st|]; [|reflexivity].
    cbn [g_lex_loop vfn]. destruct st; go; cbn [g_step].
    - generalize (g_root ul ud us F g1); intros [[o' g']|]; [|reflexivity]. go. apply IH.
    - generalize (g_number ul ud F g1); intros [[o' g']|]; [|reflexivity]. go. apply IH.
    - generalize (g_dot g1); intros [o' g']. go. apply IH.
    - generalize (g_nilsafe g1); intros [o' g']. go. apply IH.
    - generalize (g_identifier ul ud F g1); intros [[o' g']|]; [|reflexivity]. go. apply IH.
    - generalize (g_not F g1); intros [[o' g']|]; [|reflexivity]. go. apply IH. }
  change (VFn SRoot) with (vfn (Some SRoot)). rewrite L. unfold g_Lex.
  change (with_startLoc _ _) with (g_init input).
  generalize (g_lex_loop F (Some SRoot) (g_init input)); intros [g'|]; [|reflexivity]. go.
  destruct (g_err g') eqn:E; go; rewrite ?E; reflexivity.
Qed.
End Stage1.

(* Bridge/BrCheckerFunction.v — FunctionNode of checker/checker.go (regenerated: gen/GenChecker.v, `mkProc "FunctionNode"`)
   against the EFunction case of Checker.visit: the lookup v.types[node.Name] (function_callee), the detection of the
   "fast" signature func(...interface{}) interface{} / func(recv, ...interface{}) interface{} that sets node.Fast
   (fast_sig), the call of checkFunc (cf_proc, Bridge/BrCheckerProc.v) and the non-strict / defaultType tail.

   Side condition fast_probe_ok (decidable): where the source asks fn.Out(0).Kind(), rest.Kind() and
   rest.Elem().Kind(), the reflect.Type asked is not nil.  Go guarantees it (the parameter, result and element types
   of a reflect.Type are types); Base/Value.v's ty can write the literal TNilT in those places, and there the Go
   methods would panic where the model's fast_sig just answers false: node_function_refuted. *)
From Coq Require Import ZArith Bool List String Lia.
Require Import X.Base.Num X.Base.Value X.Syn.Ast X.Sem.Prim X.Ty.Types X.Ty.TypesTable X.Ty.Checker
               X.Ty.CheckProofs X.Ty.CheckRules X.Ty.CheckRulesProofs X.Ty.CheckRulesLoops X.gen.GenWeights X.gen.GenChecker
               X.Bridge.BrCheckerRules X.Bridge.BrCheckerFunc X.Bridge.BrCheckerProc.
Import ListNotations.
Local Open Scope string_scope.
Local Open Scope list_scope.
Local Open Scope nat_scope.

(* the reflect.Types whose Kind() the fast test asks are types: the result when the signature is variadic with the
   parameter count of a fast function, then the last parameter and - when that is a slice - its element *)
Definition fast_probe_ok (fn : ty) (m : bool) : bool :=
  match fn with
  | TFunc ins true [o] =>
      if Nat.eqb (List.length ins) (if m then 2 else 1) then
        negb (is_nil_ty o)
        && (if rkind_eqb (kind_of_ty o) RKInterface then
              negb (is_nil_ty (last ins TNilT))
              && match under (last ins TNilT) with TSlice e => negb (is_nil_ty e) | _ => true end
            else true)
      else true
  | _ => true
  end.

(* ---------------- small facts *)
Lemma len_ge3_eqb2 {A} (x y z : A) l : (Z.of_nat (List.length (x :: y :: z :: l)) =? 2)%Z = false.
Proof. apply Z.eqb_neq. cbn [List.length]. lia. Qed.
Lemma len_ge2_eqb1 {A} (x y : A) l : (Z.of_nat (List.length (x :: y :: l)) =? 1)%Z = false.
Proof. apply Z.eqb_neq. cbn [List.length]. lia. Qed.

(* Kind() == reflect.Slice is "the underlying type is a slice type" *)
Lemma slice_kind_under t :
  match under t with
  | TSlice _ => rkind_eqb (kind_of_ty t) RKSlice = true
  | _ => rkind_eqb (kind_of_ty t) RKSlice = false
  end.
Proof.
  rewrite <- (kind_under t). destruct (under t) eqn:U; try reflexivity.
  exfalso. exact (under_not_named _ _ _ U).
Qed.

Lemma not_slice_kind t (f : ty -> bool) :
  rkind_eqb (kind_of_ty t) RKSlice = false -> match under t with TSlice e => f e | _ => false end = false.
Proof. intros H. pose proof (slice_kind_under t) as S. destruct (under t); try reflexivity. rewrite H in S. discriminate S. Qed.

Lemma slice_kind_elem t : rkind_eqb (kind_of_ty t) RKSlice = true -> exists e, under t = TSlice e.
Proof. intros H. pose proof (slice_kind_under t) as S. destruct (under t); rewrite H in S; try discriminate S. eexists. reflexivity. Qed.

(* stop before a call of checkFunc: it is handled as a whole by cf_proc *)
Ltac hyp_rw :=
  match goal with
  | H : is_func_type_nd _ = _ |- _ => rewrite H
  | H : is_nil_ty _ = _ |- _ => rewrite H
  | H : under _ = _ |- _ => rewrite H
  | H : is_interface _ = _ |- _ => rewrite H
  | H : rkind_eqb _ _ = _ |- _ => rewrite H
  | H : cc_strict _ = _ |- _ => rewrite H
  | H : cc_default _ = _ |- _ => rewrite H
  end.

(* the lengths of literal lists *)
Ltac lenc :=
  match goal with
  | |- context [Z.of_nat (@List.length ?A [])] => change (Z.of_nat (@List.length A [])) with 0%Z
  | |- context [Z.of_nat (List.length [?x])] => change (Z.of_nat (List.length [x])) with 1%Z
  | |- context [Z.of_nat (List.length [?x; ?y])] => change (Z.of_nat (List.length [x; y])) with 2%Z
  | |- context [Z.of_nat (List.length (?x :: ?y :: ?z :: ?l))] => rewrite (len_ge3_eqb2 x y z l)
  | |- context [Z.of_nat (List.length (?x :: ?y :: ?l))] => rewrite (len_ge2_eqb1 x y l)
  end.

Ltac run_nf HM :=
  repeat (lazymatch goal with
          | |- context [run_proc _ _ _ _ methods 2 "checkFunc"] => fail
          | _ => first [ progress cbn [tg_method tg_ty opt_pair]
                       | progress change (is_interface TIface) with true
                       | semrw1 HM; tyc; ev | hyp_rw; ev
                       | lenc; cbn [Z.eqb Pos.eqb Z.sub Z.add Z.opp Z.pos_sub Pos.pred_double]; ev
                       | step1; ev ]
          end).

(* the statement of FunctionNode that detects the fast signature: inside `if f, ok := v.types[..]; ok` and
   `if fn, ok := isFuncType(f.Type); ok`, after the two statements that set inputParamsCount *)
Definition fn_fast_stmt : stmt :=
  Eval compute in
  match find_proc "FunctionNode" methods with
  | Some p =>
      match nth_error (p_body p) 1 with
      | Some (SIf _ (_ :: SIf _ (_ :: _ :: s :: _) _ :: _) _) => s
      | _ => SBad "FunctionNode"
      end
  | None => SBad "FunctionNode"
  end.

(* the variables at that statement: node, f, ok, fn, ok, inputParamsCount *)
Definition fn_env (cnt : Z) (fn' : ty) (tg : tag) : list (nat * gv) :=
  [(5, VZ cnt); (4, VB true); (3, VT fn'); (2, VB true); (1, VTag tg); (0, VNode PSelf)].

(* the outer test of the statement: `rest` is defined when it holds *)
Definition probe1 (fn : ty) (m : bool) : bool :=
  match fn with
  | TFunc ins true [o] => Nat.eqb (List.length ins) (if m then 2 else 1) && rkind_eqb (kind_of_ty o) RKInterface
  | _ => false
  end.

Definition rest_ty (fn : ty) : ty := match fn with TFunc ins _ _ => last ins TNilT | _ => TNilT end.

(* stop where the detection of the fast signature begins (fast_block), and before a call of checkFunc (cf_proc) *)
Ltac at_fast := match goal with |- context [exec_list _ _ _ _ _ (?s :: _) (mkG _ _ _ _) _] => unify s fn_fast_stmt end.
Ltac run_to_fast HM :=
  repeat (tryif at_fast then fail else
          first [ progress cbn [tg_method tg_ty opt_pair]
                | semrw1 HM; tyc; ev | hyp_rw; ev | step1; ev ]).

Section Function.
Variable c : cconfig.
Variable M : sem.
Hypothesis HM : sem_ok c M.
Variable rec : list ty -> expr -> cst -> option (ty * expr * cst).
Notation VN := (visit_node checker_src c M rec).

Ltac blk := repeat first [ semrw1 HM; tyc; ev | hyp_rw; ev
                         | lenc; cbn [Z.eqb Pos.eqb Z.sub Z.add Z.opp Z.pos_sub Pos.pred_double]; ev
                         | step1; ev ].

Lemma fast_block self cp fn' fn m tg a name args fast cols st rest k :
  (fn' = TIface /\ fn = TIface) \/
  (exists i v o, under fn' = TFunc i v o /\ fn = TFunc i v o /\ is_interface fn' = false /\ is_nil_ty fn' = false) ->
  sig_ok fn m = true -> fast_probe_ok fn m = true ->
  exec_list c M rec self cp (fn_fast_stmt :: rest)
    (mkG (fn_env (if m then 2 else 1) fn' tg) (EFunction a name args fast) cols st) k =
  exec_list c M rec self cp rest
    (mkG ((if probe1 fn m then [(6, VT (rest_ty fn))] else []) ++ fn_env (if m then 2 else 1) fn' tg)
         (EFunction a name args (fast || fast_sig fn m)) cols st) k.
Proof.
  intros Hfn Sig Probe. unfold fn_fast_stmt, fn_env.
  destruct Hfn as [[-> ->] | (i & v & o & U & -> & I & N)].
  - change (probe1 TIface m) with false. change (fast_sig TIface m) with false. rewrite orb_false_r.
    change (is_interface TIface) with true.
    destruct m; step1; ev; semrw1 HM; change (is_interface TIface) with true; ev; reflexivity.
  - destruct v.
    2: { change (probe1 (TFunc i false o) m) with false. change (fast_sig (TFunc i false o) m) with false.
         rewrite orb_false_r. destruct m; blk; reflexivity. }
    (* variadic: the parameter count, the result count, the result kind, then the last parameter *)
    destruct m.
    + destruct i as [|i1 [|i2 [|i3 i']]].
      * discriminate Sig.
      * assert (P1 : probe1 (TFunc [i1] true o) true = false) by (destruct o as [|? [|? ?]]; reflexivity).
        assert (FS : fast_sig (TFunc [i1] true o) true = false) by (destruct o as [|? [|? ?]]; reflexivity).
        rewrite P1, FS, orb_false_r. blk. reflexivity.
      * destruct o as [|o1 [|o2 o']].
        -- change (probe1 (TFunc [i1; i2] true []) true) with false. change (fast_sig (TFunc [i1; i2] true []) true) with false.
           rewrite orb_false_r. blk. reflexivity.
        -- cbn [fast_probe_ok List.length Nat.eqb last] in Probe.
           destruct (is_nil_ty o1) eqn:No; [discriminate Probe|]. cbn [negb andb] in Probe.
           unfold probe1, fast_sig, rest_ty. cbn [List.length Nat.eqb last andb].
           destruct (rkind_eqb (kind_of_ty o1) RKInterface) eqn:Ko.
           ++ destruct (is_nil_ty i2) eqn:Ni; [discriminate Probe|]. cbn [negb andb] in Probe.
              destruct (rkind_eqb (kind_of_ty i2) RKSlice) eqn:Ks.
              ** destruct (slice_kind_elem i2 Ks) as [e Ue]. rewrite Ue in Probe |- *.
                 destruct (is_nil_ty e) eqn:Ne; [discriminate Probe|].
                 destruct (rkind_eqb (kind_of_ty e) RKInterface) eqn:Ke; blk; destruct fast; reflexivity.
              ** rewrite (not_slice_kind i2 _ Ks). blk. destruct fast; reflexivity.
           ++ blk. destruct fast; reflexivity.
        -- change (probe1 (TFunc [i1; i2] true (o1 :: o2 :: o')) true) with false.
           change (fast_sig (TFunc [i1; i2] true (o1 :: o2 :: o')) true) with false.
           rewrite orb_false_r. blk. reflexivity.
      * assert (P1 : probe1 (TFunc (i1 :: i2 :: i3 :: i') true o) true = false) by (destruct o as [|? [|? ?]]; reflexivity).
        assert (FS : fast_sig (TFunc (i1 :: i2 :: i3 :: i') true o) true = false) by (destruct o as [|? [|? ?]]; reflexivity).
        rewrite P1, FS, orb_false_r. blk. reflexivity.
    + destruct i as [|i1 [|i2 i']].
      * discriminate Sig.
      * destruct o as [|o1 [|o2 o']].
        -- change (probe1 (TFunc [i1] true []) false) with false. change (fast_sig (TFunc [i1] true []) false) with false.
           rewrite orb_false_r. blk. reflexivity.
        -- cbn [fast_probe_ok List.length Nat.eqb last] in Probe.
           destruct (is_nil_ty o1) eqn:No; [discriminate Probe|]. cbn [negb andb] in Probe.
           unfold probe1, fast_sig, rest_ty. cbn [List.length Nat.eqb last andb].
           destruct (rkind_eqb (kind_of_ty o1) RKInterface) eqn:Ko.
           ++ destruct (is_nil_ty i1) eqn:Ni; [discriminate Probe|]. cbn [negb andb] in Probe.
              destruct (rkind_eqb (kind_of_ty i1) RKSlice) eqn:Ks.
              ** destruct (slice_kind_elem i1 Ks) as [e Ue]. rewrite Ue in Probe |- *.
                 destruct (is_nil_ty e) eqn:Ne; [discriminate Probe|].
                 destruct (rkind_eqb (kind_of_ty e) RKInterface) eqn:Ke; blk; destruct fast; reflexivity.
              ** rewrite (not_slice_kind i1 _ Ks). blk. destruct fast; reflexivity.
           ++ blk. destruct fast; reflexivity.
        -- change (probe1 (TFunc [i1] true (o1 :: o2 :: o')) false) with false.
           change (fast_sig (TFunc [i1] true (o1 :: o2 :: o')) false) with false.
           rewrite orb_false_r. blk. reflexivity.
      * assert (P1 : probe1 (TFunc (i1 :: i2 :: i') true o) false = false) by (destruct o as [|? [|? ?]]; reflexivity).
        assert (FS : fast_sig (TFunc (i1 :: i2 :: i') true o) false = false) by (destruct o as [|? [|? ?]]; reflexivity).
        rewrite P1, FS, orb_false_r. blk. reflexivity.
Qed.

Lemma node_function a name args fast cols st :
  seq_ok c rec cols args st ->
  (forall fn m, function_callee c name = Some (fn, m) -> sig_ok fn m = true /\ fast_probe_ok fn m = true) ->
  VN cols (EFunction a name args fast) st = Some (visit c cols (EFunction a name args fast) st).
Proof.
  intros Hargs Hsig. unfold visit_node. ev. run_nf HM.
  unfold function_callee, lookup_name in Hsig.
  destruct (cc_types c) as [tb|] eqn:CT; run_nf HM.
  - destruct (tget name tb) as [[tty tm tamb]|] eqn:TG; cbn [tg_method tg_ty] in *.
    + pose proof (is_func_type_nd_spec tty) as Spec.
      destruct (is_func_type_nd tty) as [fn'|] eqn:NF.
      * assert (exists fn, is_func_type tty = Some fn /\
                 ((fn' = TIface /\ fn = TIface) \/
                  (exists i v o, under fn' = TFunc i v o /\ fn = TFunc i v o /\ is_interface fn' = false /\ is_nil_ty fn' = false)))
          as (fn & Efn & Hfn).
        { destruct Spec as [[-> E] | (i & v & o & U & E & I & N)].
          - exists TIface. split; [exact E|]. left. split; reflexivity.
          - exists (TFunc i v o). split; [exact E|]. right. exists i, v, o. repeat split; assumption. }
        rewrite Efn in Hsig. destruct (Hsig fn tm eq_refl) as [Sig Probe]. clear Hsig Spec.
        assert (Model : visit c cols (EFunction a name args fast) st =
                        let '(t', args', st1) := check_func (CheckProofs.vargs c cols) fn tm (loc_of (EFunction a name args fast)) args st in
                        (t', settle (EFunction a name args' (fast || fast_sig fn tm)) t', st1)).
        { rewrite visit_function. unfold function_callee, lookup_name. rewrite CT, TG. cbn [tg_method tg_ty]. rewrite Efn. reflexivity. }
        assert (Go : forall k,
                  exec_list c M rec (EFunction a name args fast) (run_proc c M rec (EFunction a name args fast) methods 2)
                    (fn_fast_stmt ::
                     [SReturnCall "checkFunc" [GVar 3; GSel (GVar 1) "Method"; GVar 0; GSel (GVar 0) "Name"; GSel (GVar 0) "Arguments"]])
                    (mkG (fn_env (if tm then 2 else 1) fn' (mkTag tty tm tamb)) (EFunction a name args fast) cols st) k
                  = let '(t', args', st1) := check_func (CheckProofs.vargs c cols) fn tm (loc_of (EFunction a name args fast)) args st in
                    k (RReturn [VT t']
                         (mkG ((if probe1 fn tm then [(6, VT (rest_ty fn))] else []) ++ fn_env (if tm then 2 else 1) fn' (mkTag tty tm tamb))
                              (EFunction a name args' (fast || fast_sig fn tm)) cols st1))).
        { intros k.
          rewrite (fast_block _ _ fn' fn tm (mkTag tty tm tamb) a name args fast cols st _ _ Hfn Sig Probe).
          unfold fn_env.
          destruct (probe1 fn tm); cbn [app]; step1; ev; cbn [tg_method tg_ty];
           match goal with |- context [run_proc _ _ _ _ methods 2 "checkFunc" _ (mkG ?en ?cur ?cl ?er) ?k] =>
             rewrite (cf_proc c M HM rec (EFunction a name args fast) _ _ _ name args en cur cl er k Hfn Sig eq_refl eq_refl Hargs)
           end;
           match goal with |- context [check_func ?va ?f ?m ?l ?ar ?s] => destruct (check_func va f m l ar s) as [[t' args'] st2] end;
           reflexivity. }
        destruct tm; run_to_fast HM;
          match goal with |- context [exec_list c M rec ?self ?cp (?s :: ?rest) (mkG ?en ?cur ?cl ?er) ?k] =>
            unify s fn_fast_stmt;
            lazymatch type of (Go k) with _ = ?R =>
              replace (exec_list c M rec self cp (s :: rest) (mkG en cur cl er) k) with R
              by (symmetry; exact (Go k))
            end
          end;
          rewrite Model;
          match goal with |- context [check_func ?va ?f ?m ?l ?ar ?s] => destruct (check_func va f m l ar s) as [[t' args'] st2] end;
          ev; reflexivity.
      * (* not a function *)
        assert (Model : visit c cols (EFunction a name args fast) st =
                        if negb (cc_strict c) then (undefined_ty c, settle (EFunction a name args fast) (undefined_ty c), st)
                        else let '(t', st1) := fail_at (loc_of (EFunction a name args fast)) CUnknownFunc st in
                             (t', settle (EFunction a name args fast) t', st1)).
        { rewrite visit_function. unfold function_callee, lookup_name. rewrite CT, TG. cbn [tg_method tg_ty]. rewrite Spec. reflexivity. }
        rewrite Model. unfold undefined_ty, fail_at, record.
        destruct (cc_strict c) eqn:Str; run_nf HM.
        -- destruct st; reflexivity.
        -- destruct (cc_default c) eqn:Dft; run_nf HM; reflexivity.
    + (* no such name *)
      assert (Model : visit c cols (EFunction a name args fast) st =
                      if negb (cc_strict c) then (undefined_ty c, settle (EFunction a name args fast) (undefined_ty c), st)
                      else let '(t', st1) := fail_at (loc_of (EFunction a name args fast)) CUnknownFunc st in
                           (t', settle (EFunction a name args fast) t', st1)).
      { rewrite visit_function. unfold function_callee, lookup_name. rewrite CT, TG. reflexivity. }
      rewrite Model. unfold undefined_ty, fail_at, record.
      destruct (cc_strict c) eqn:Str; run_nf HM.
      * destruct st; reflexivity.
      * destruct (cc_default c) eqn:Dft; run_nf HM; reflexivity.
  - (* v.types is nil: the lookup in a nil map misses *)
    assert (Model : visit c cols (EFunction a name args fast) st =
                    if negb (cc_strict c) then (undefined_ty c, settle (EFunction a name args fast) (undefined_ty c), st)
                    else let '(t', st1) := fail_at (loc_of (EFunction a name args fast)) CUnknownFunc st in
                         (t', settle (EFunction a name args fast) t', st1)).
    { rewrite visit_function. unfold function_callee, lookup_name. rewrite CT. reflexivity. }
    rewrite Model. unfold undefined_ty, fail_at, record.
    destruct (cc_strict c) eqn:Str; run_nf HM.
    + destruct st; reflexivity.
    + destruct (cc_default c) eqn:Dft; run_nf HM; reflexivity.
Qed.
End Function.

(* ================================================================== the side condition, gathered over a tree *)
(* the callee of every FunctionNode passes fast_probe_ok.  The callee depends on the configuration and the
   name only, so no error state is threaded here (sig_ok of the same callee is part of bridge_ok) *)
Definition probe_ok (o : option (ty * bool)) : bool :=
  match o with Some (fn, m) => fast_probe_ok fn m | None => true end.

Fixpoint functions_ok (c : cconfig) (e : expr) : bool :=
  let fix all (l : list expr) : bool := match l with [] => true | x :: r => functions_ok c x && all r end in
  match e with
  | ENil _ | EIdent _ _ _ | EInt _ _ | EFloat _ _ | EBool _ _ | EStr _ _ | EConst _ _ | EPointer _ => true
  | EUnary _ _ x | EProperty _ x _ _ | EClosure _ x => functions_ok c x
  | EBinary _ _ l r | EMatches _ _ l r | EIndex _ l r | EPair _ l r => functions_ok c l && functions_ok c r
  | ESlice _ x f t =>
      functions_ok c x && match f with Some y => functions_ok c y | None => true end
      && match t with Some y => functions_ok c y | None => true end
  | EMethod _ x _ args _ => functions_ok c x && all args
  | EFunction _ name args _ => probe_ok (function_callee c name) && all args
  | EBuiltin _ _ args | EArray _ args | Ast.EMap _ args => all args
  | ECond _ a b d => functions_ok c a && functions_ok c b && functions_ok c d
  end.

Fixpoint all_fok (c : cconfig) (l : list expr) : bool :=
  match l with [] => true | x :: r => functions_ok c x && all_fok c r end.

Lemma functions_ok_array c a es : functions_ok c (EArray a es) = all_fok c es.
Proof. induction es as [|x r IH]; [reflexivity|]. cbn [all_fok]. rewrite <- IH. reflexivity. Qed.
Lemma functions_ok_map c a es : functions_ok c (Ast.EMap a es) = all_fok c es.
Proof. rewrite <- (functions_ok_array c a es). reflexivity. Qed.
Lemma functions_ok_builtin c a b es : functions_ok c (EBuiltin a b es) = all_fok c es.
Proof. rewrite <- (functions_ok_array c a es). reflexivity. Qed.
Lemma functions_ok_method c a x n es ns : functions_ok c (EMethod a x n es ns) = functions_ok c x && all_fok c es.
Proof. rewrite <- (functions_ok_array c a es). reflexivity. Qed.
Lemma functions_ok_function c a n es f :
  functions_ok c (EFunction a n es f) = probe_ok (function_callee c n) && all_fok c es.
Proof. rewrite <- (functions_ok_array c a es). reflexivity. Qed.

(* the condition the bridge had before FunctionNode was proved: no FunctionNode at all.  It is a special case *)
Fixpoint no_function (e : expr) : bool :=
  let fix all (l : list expr) : bool := match l with [] => true | x :: r => no_function x && all r end in
  match e with
  | ENil _ | EIdent _ _ _ | EInt _ _ | EFloat _ _ | EBool _ _ | EStr _ _ | EConst _ _ | EPointer _ => true
  | EUnary _ _ x | EProperty _ x _ _ | EClosure _ x => no_function x
  | EBinary _ _ l r | EMatches _ _ l r | EIndex _ l r | EPair _ l r => no_function l && no_function r
  | ESlice _ x f t =>
      no_function x && match f with Some y => no_function y | None => true end
      && match t with Some y => no_function y | None => true end
  | EMethod _ x _ args _ => no_function x && all args
  | EFunction _ _ _ _ => false
  | EBuiltin _ _ args | EArray _ args | Ast.EMap _ args => all args
  | ECond _ a b d => no_function a && no_function b && no_function d
  end.

Lemma no_function_functions_ok c : forall e, no_function e = true -> functions_ok c e = true.
Proof.
  fix IH 1. intros e.
  assert (L : forall l, (fix all (l : list expr) : bool := match l with [] => true | x :: r => no_function x && all r end) l = true ->
                        (fix all (l : list expr) : bool := match l with [] => true | x :: r => functions_ok c x && all r end) l = true).
  { fix IL 1. intros [|x r]; [reflexivity|]. intros H. apply andb_prop in H. destruct H as [H1 H2].
    rewrite (IH x H1), (IL r H2). reflexivity. }
  destruct e; cbn [no_function functions_ok]; intros H; try reflexivity; try discriminate H;
    repeat match goal with
           | H : _ && _ = true |- _ => apply andb_prop in H; destruct H
           end;
    repeat match goal with
           | H : no_function ?x = true |- _ => rewrite (IH x H); clear H
           | H : match ?o with Some _ => _ | None => true end = true |- _ => destruct o
           end;
    rewrite ?(L _ ltac:(eassumption)); try reflexivity; auto.
Qed.

(* ---------------- the side condition is needed, and met by the signatures Go produces *)
Module FnEx.
Definition a0 : ann := ann0.
Definition tb (t : ty) : TypesTable.table := [("F", mkTag t false false)].
Definition cfg (t : ty) : cconfig := mkCC [] (Some (tb t)) [] None true None.
Definition call : expr := EFunction a0 "F" [EInt a0 1%Z; EStr a0 "x"] false.
(* func(...interface{}) interface{} *)
Definition fast_fn : ty := TFunc [TSlice TIface] true [TIface].
(* a "signature" whose result type is the nil reflect.Type: no Go value has it *)
Definition junk_fn : ty := TFunc [TSlice TIface] true [TNilT].
End FnEx.

(* Without fast_probe_ok the statement is false: on a term that is no Go type (nil as the result type of a
   function type) fn.Out(0).Kind() is a nil dereference in Go - the interpreter answers "panic" (CStuck) - while
   the model's fast_sig says "not fast" and check_func returns the nil type.  Neither the code nor the model is
   at fault: reflect never hands out such a type, so the condition excludes only terms outside Go. *)
Theorem node_function_refuted :
  exists c a name args fast,
    (forall fn m, function_callee c name = Some (fn, m) -> sig_ok fn m = true) /\
    visit_node checker_src c (model_sem c) (fun cols e st => Some (visit c cols e st)) [] (EFunction a name args fast) None
    <> Some (visit c [] (EFunction a name args fast) None).
Proof.
  exists (FnEx.cfg FnEx.junk_fn), FnEx.a0, "F", [EInt FnEx.a0 1%Z; EStr FnEx.a0 "x"], false. split.
  - intros fn m H. vm_compute in H. injection H as <- <-. reflexivity.
  - vm_compute. discriminate.
Qed.

(* non-vacuity: the fast signature passes the condition, the regenerated FunctionNode sets node.Fast on it *)
Example fast_probe_ok_inhabited :
  functions_ok (FnEx.cfg FnEx.fast_fn) FnEx.call = true /\
  fast_sig FnEx.fast_fn false = true /\
  visit_node checker_src (FnEx.cfg FnEx.fast_fn) (model_sem (FnEx.cfg FnEx.fast_fn))
    (fun cols e st => Some (visit (FnEx.cfg FnEx.fast_fn) cols e st)) [] FnEx.call None
  = Some (visit (FnEx.cfg FnEx.fast_fn) [] FnEx.call None) /\
  (match visit (FnEx.cfg FnEx.fast_fn) [] FnEx.call None with
   | (TIface, EFunction _ _ _ true, None) => true
   | _ => false
   end) = true.
Proof. repeat split; vm_compute; reflexivity. Qed.

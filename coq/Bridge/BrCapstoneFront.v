(* Bridge/BrCapstoneFront.v — ONE front-to-back statement over the regenerated front end:
     text --regenerated lexer (gen/GenLexer.v)--> tokens --regenerated parser (gen/GenParser.v)--> tree
          --regenerated checker (gen/GenChecker.v)--> first type error (location, class)
          --regenerated NewSource / Bind / Error() (gen/GenSource.v)--> rendered error text.
   The texts are ALL texts that spell a printable tree: any tree t, any parenthesisation cp, any layout L of white
   space between the tokens (`render L (print_any cp t)`); the locations written in t only name its nodes (they are the
   labels `loc_at` looks up), the parser replaces every one of them.
   Composition of BrCapstoneC11.src_text_locations, BrCapstoneC03.src_first_error_location_plain,
   BrCapstoneC13.src_lexer_locations_inside and BrCapstoneC13.src_error_shows_line.
   Carve-outs kept as hypotheses: `cc_expect c = None` (finding C13-expect-kind-hides-position: under AsBool / AsInt64 /
   AsFloat64 the position can be lost) and `l <> noloc` (finding C13-conditional-no-location: a conditional node
   carries no location, so a fault reported AT a conditional has the empty location and no line is shown). *)
From Coq Require Import ZArith Bool List String Lia.
Require Import X.Base.Num X.Base.Value X.Syn.Ast X.Syn.Tok.
Require X.Lex.Lexer X.Lex.LexProofs X.Parse.Parser X.Parse.Printer X.Parse.ParseProofs X.gen.GenGrammar X.Corr.CorrC11 X.Parse.Render X.Parse.TextProofs.
Require X.File.Source X.File.SourceProofs X.File.SourceRules X.File.SourceRulesProofs.
Require X.Lex.LexRules X.gen.GenLexer X.Bridge.BrLexer.
Require X.Ty.Checker X.Ty.SoundProofs X.Ty.CheckRules X.gen.GenChecker X.Bridge.BrChecker.
Require X.Bridge.BrCapstoneC11 X.Bridge.BrCapstoneC13 X.Bridge.BrCapstoneC03.
Import ListNotations.
Open Scope Z_scope.
Open Scope list_scope.

(* what `loc_at` returns is one of the positions it is given, or the empty location *)
Lemma loc_at_in : forall ts ps l, X.Parse.Render.loc_at ts ps l = noloc \/ In (X.Parse.Render.loc_at ts ps l) ps.
Proof.
  induction ts as [|t r IH]; intros ps l; [left; reflexivity|]. destruct ps as [|p q]; [left; reflexivity|].
  cbn [X.Parse.Render.loc_at]. destruct (loc_eqb (tloc t) l); [right; left; reflexivity|].
  destruct (IH q l) as [H|H]; [left; exact H|right; right; exact H].
Qed.

(* every position the regenerated lexer gives to a token of a text lies inside the text *)
Lemma source_positions_inside : forall ul ud us txt p,
  In p (X.Bridge.BrCapstoneC11.source_text_positions ul ud us txt) -> X.File.SourceProofs.inside txt p.
Proof.
  intros ul ud us txt p H. unfold X.Bridge.BrCapstoneC11.source_text_positions in H.
  pose proof (X.Bridge.BrCapstoneC13.src_lexer_locations_inside ul ud us txt) as I.
  destruct (X.Lex.LexRules.gen_lex ul ud us X.gen.GenLexer.lexer_funs txt) as [toks|e| |w]; try contradiction.
  apply in_map_iff in H. destruct H as (t & <- & Hin). exact (I t Hin).
Qed.

Theorem src_front_to_back : forall (F : nat) (ul ud us : Z -> bool) (o : X.Parse.Parser.oracles)
    (fmt_int : Z -> string) (fmt_float : PrimFloat.float -> string) (cp : X.Parse.Printer.poracle) (t : expr)
    (L : X.Parse.Render.layout) (c : X.Ty.Checker.cconfig) (msg : list Z),
  let toks := X.Parse.Printer.print_any X.Corr.CorrC11.gen_grammar fmt_int fmt_float cp t in
  let txt := X.Parse.Render.render ul ud us L toks in
  X.Parse.Printer.printable X.Corr.CorrC11.gen_grammar fmt_int fmt_float o cp t ->
  X.Parse.Render.tree_textable ul ud us fmt_int fmt_float t = true ->
  X.Parse.TextProofs.white L toks = true -> X.Parse.Render.distinct_locs toks = true ->
  X.File.Source.len txt < 2147483647 -> (List.length txt < F)%nat -> txt <> [] ->
  exists t',
    (* the regenerated lexer and parser accept the text, with the tree it spells *)
    X.Bridge.BrCapstoneC11.source_parse_text ul ud us X.Corr.CorrC11.gen_grammar o txt = Some (X.Parse.Parser.ROk t') /\
    X.Parse.Render.erase_loc t' = X.Parse.Render.erase_loc t /\
    (* if the regenerated checker's first fault is at l ... *)
    forall l, X.Bridge.BrChecker.checker_bridge_ok c t' = true -> X.Ty.Checker.cc_expect c = None ->
      X.Ty.SoundProofs.first_fault c [] t' l ->
      (* ... the regenerated checker rejects the tree and reports l *)
      (exists ty e'' k, X.Ty.CheckRules.gen_check c X.gen.GenChecker.checker_src t' = Some (ty, e'', Some (l, k))) /\
      (* ... l, being the location of the node at `path`, is the position the regenerated lexer gave to the anchor token
         of that node (the token of the spelling labelled with the node's label) *)
      forall path x x', X.Parse.Printer.node_at t path = Some x -> Ast.loc_of x <> noloc ->
        X.Parse.Printer.node_at t' path = Some x' -> Ast.loc_of x' = l ->
        l = X.Parse.Render.loc_at toks (X.Bridge.BrCapstoneC11.source_text_positions ul ud us txt) (Ast.loc_of x) /\
        (l <> noloc ->
           X.File.SourceProofs.inside txt l /\
           (* ... and the regenerated NewSource / Bind / Error() render exactly that line of the text *)
           exists rest, X.Bridge.BrCapstoneC13.source_error_text F txt l msg =
             X.File.SourceRules.ROk [X.File.SourceRules.VStr
               (msg ++ X.File.Source.format_suffix l
                         (X.File.Source.line_prefix ++ X.File.Source.untab (X.File.SourceProofs.line_of txt (fst l)) ++ rest))]).
Proof.
  intros F ul ud us o fi ff cp t L c msg toks txt P T W D Hlen HF Hne.
  destruct (X.Bridge.BrCapstoneC11.src_text_locations ul ud us o fi ff cp t L P T W D) as (t' & E & R & N).
  exists t'. split; [exact E|]. split; [exact R|].
  intros l B Ex FF. split; [exact (X.Bridge.BrCapstoneC03.src_first_error_location_plain c t' l B Ex FF)|].
  intros path x x' Hx Hl Hx' El.
  destruct (N path x Hx Hl) as (x2 & Hx2 & E2). rewrite Hx' in Hx2. injection Hx2 as <-.
  fold toks in E2. fold txt in E2. rewrite El in E2. split; [exact E2|].
  intros Hn.
  assert (I : X.File.SourceProofs.inside txt l).
  { destruct (loc_at_in toks (X.Bridge.BrCapstoneC11.source_text_positions ul ud us txt) (Ast.loc_of x)) as [Z|Z];
      rewrite <- E2 in Z; [contradiction|]. exact (source_positions_inside ul ud us txt l Z). }
  split; [exact I|]. destruct I as [I1 I2].
  apply X.Bridge.BrCapstoneC13.src_error_shows_line; try assumption.
  pose proof (X.Bridge.BrCapstoneC13.line_of_le txt (fst l)) as Hle.
  unfold X.File.SourceRulesProofs.max_int. lia.
Qed.

(* ------------------------------------------------------------------ non-vacuity: the text `I + S * 2 ` (environment SWit of C03:
   I int, S string) meets every hypothesis; the regenerated lexer + parser return the tree whose nodes sit at columns
   0, 2, 4, 6, 8; the first fault is the inner node `S * 2`, reported at the position (1, 6) the lexer gave to `*`; the
   regenerated Bind / Error() show the line with the caret under column 6 *)
Module FWit.
Definition layout1 : X.Parse.Render.layout :=
  X.Parse.Render.mkLayout (fun i => match i with O => [] | S _ => [32] end) (fun _ => [32]) (fun _ => true).
Definition o0 : X.Parse.Parser.oracles := X.Parse.Parser.mkOracles (fun _ => None) (fun _ => true).
Definition nf : Z -> bool := fun _ => false.
Definition ff (_ : PrimFloat.float) : string := "1.5"%string.
Definition tree : expr := X.Ty.SoundProofs.LWit.e_inner.
Definition toks : list token := X.Parse.Printer.print_any X.Corr.CorrC11.gen_grammar X.Parse.Printer.dec ff X.Parse.Printer.no_extra tree.
Definition txt : list Z := X.Parse.Render.render nf nf nf layout1 toks.
End FWit.

Example src_front_to_back_hypotheses_inhabited :
  X.Parse.Printer.printable X.Corr.CorrC11.gen_grammar X.Parse.Printer.dec FWit.ff FWit.o0 X.Parse.Printer.no_extra FWit.tree /\
  X.Parse.Render.tree_textable FWit.nf FWit.nf FWit.nf X.Parse.Printer.dec FWit.ff FWit.tree = true /\
  X.Parse.TextProofs.white FWit.layout1 FWit.toks = true /\ X.Parse.Render.distinct_locs FWit.toks = true /\
  FWit.txt = [73; 32; 43; 32; 83; 32; 42; 32; 50; 32] /\
  X.Bridge.BrCapstoneC11.source_parse_text FWit.nf FWit.nf FWit.nf X.Corr.CorrC11.gen_grammar FWit.o0 FWit.txt
    = Some (X.Parse.Parser.ROk FWit.tree) /\
  X.Bridge.BrChecker.checker_bridge_ok X.Ty.SoundProofs.SWit.c FWit.tree = true /\
  X.Ty.Checker.cc_expect X.Ty.SoundProofs.SWit.c = None /\
  X.Ty.SoundProofs.first_fault X.Ty.SoundProofs.SWit.c [] FWit.tree (1, 6) /\
  X.Parse.Printer.node_at FWit.tree [1%nat] = Some X.Ty.SoundProofs.LWit.inner /\
  X.Parse.Render.loc_at FWit.toks (X.Bridge.BrCapstoneC11.source_text_positions FWit.nf FWit.nf FWit.nf FWit.txt) (1, 6) = (1, 6) /\
  exists shown, X.Bridge.BrCapstoneC13.source_error_text 40 FWit.txt (1, 6) [33] = X.File.SourceRules.ROk [X.File.SourceRules.VStr shown] /\
                List.length shown = 32%nat.
Proof.
  split; [vm_compute; repeat split; try reflexivity; intros; discriminate|].
  split; [vm_compute; reflexivity|]. split; [vm_compute; reflexivity|]. split; [vm_compute; reflexivity|].
  split; [vm_compute; reflexivity|]. split; [vm_compute; reflexivity|]. split; [vm_compute; reflexivity|].
  split; [reflexivity|]. split; [exact X.Ty.SoundProofs.LWit.e_inner_fault|]. split; [reflexivity|].
  split; [vm_compute; reflexivity|]. eexists. split; vm_compute; reflexivity.
Qed.

(* ------------------------------------------------------------------ the location of the first fault IS the location of a node of the tree
   (the faulty node itself, or the operand / argument / bound the violated rule names), or the empty location *)
Section FaultNode.
Variable c : X.Ty.Checker.cconfig.
Import X.Ty.SoundProofs X.Parse.Printer.

Lemma bad_arg_loc_nth : forall cols pt args i,
  bad_arg_loc c cols pt i args = noloc \/
  exists j a, nth_error args j = Some a /\ Ast.loc_of a = bad_arg_loc c cols pt i args.
Proof.
  intros cols pt. induction args as [|a r IH]; intros i; cbn [bad_arg_loc]; [left; reflexivity|].
  destruct (X.Ty.CheckProofs.vty c cols a) as [t|]; [|left; reflexivity].
  destruct (X.Ty.CheckProofs.arg_bad a t (pt i)).
  - right. exists 0%nat, a. split; reflexivity.
  - destruct (IH (S i)) as [H|(j & b & H1 & H2)]; [left; exact H|right; exists (S j), b; split; assumption].
Qed.

Lemma call_fault_loc_nth : forall cols fn m here args,
  call_fault_loc c cols fn m here args = here \/ call_fault_loc c cols fn m here args = noloc \/
  exists j a, nth_error args j = Some a /\ Ast.loc_of a = call_fault_loc c cols fn m here args.
Proof.
  intros cols fn m here args. unfold call_fault_loc.
  destruct fn; try (left; reflexivity). destruct outs as [|o [|o2 r]]; try (left; reflexivity).
  destruct (X.Ty.Checker.arity_rule _ _ _ _); [left; reflexivity|]. right. apply bad_arg_loc_nth.
Qed.

Lemma fault_loc_node : forall cols e,
  fault_loc c cols e = noloc \/ exists path x, node_at e path = Some x /\ Ast.loc_of x = fault_loc c cols e.
Proof.
  intros cols e.
  assert (Here : forall e0 : expr, exists path x, node_at e0 path = Some x /\ Ast.loc_of x = Ast.loc_of e0)
    by (intros e0; exists [], e0; split; reflexivity).
  destruct e as [a|a n ns|a z|a f|a b|a s|a v|a op e|a op l r|a re l r|a e n ns|a e i|a e from to|a e name args ns|a name args fast|a b args|a e|a|a cnd e1 e2|a es|a ps|a k v];
    cbn [fault_loc]; try (right; apply Here).
  - (* slice *)
    destruct (X.Ty.CheckProofs.vty c cols e) as [t|]; [|left; reflexivity].
    destruct (X.Ty.Checker.sliceable t); [|right; apply Here].
    assert (U : opt_loc to = noloc \/ exists path x, node_at (ESlice a e from to) path = Some x /\ Ast.loc_of x = opt_loc to).
    { destruct to as [u|]; [right; exists [2%nat], u; split; reflexivity|left; reflexivity]. }
    destruct from as [ff|]; [|exact U].
    destruct (X.Ty.CheckProofs.vty c cols ff) as [tf|]; [|left; reflexivity].
    destruct (negb _); [right; exists [1%nat], ff; split; reflexivity|exact U].
  - (* method *)
    destruct (X.Ty.CheckProofs.vty c cols e) as [t|]; [|left; reflexivity].
    destruct (X.Ty.Checker.method_callee c t name) as [[fn m]|]; [|right; apply Here].
    destruct (call_fault_loc_nth cols fn m (Ast.loc_of (EMethod a e name args ns)) args) as [H|[H|(j & b & H1 & H2)]].
    + rewrite H. right. apply Here.
    + left. exact H.
    + right. exists [S j], b. split; [cbn [node_at pchild]; rewrite H1; reflexivity|exact H2].
  - (* function *)
    destruct (X.Ty.Checker.function_callee c name) as [[fn m]|]; [|right; apply Here].
    destruct (call_fault_loc_nth cols fn m (Ast.loc_of (EFunction a name args fast)) args) as [H|[H|(j & b & H1 & H2)]].
    + rewrite H. right. apply Here.
    + left. exact H.
    + right. exists [j], b. split; [cbn [node_at pchild]; rewrite H1; reflexivity|exact H2].
  - (* builtin *)
    destruct b; try (right; apply Here);
      (destruct args as [|x [|cl rest]]; try (right; apply Here);
       destruct (X.Ty.CheckProofs.vty c cols x) as [t|]; [|left; reflexivity];
       destruct (X.Ty.Checker.is_array t); right; [exists [1%nat], cl|exists [0%nat], x]; split; reflexivity).
  - (* conditional *) right. exists [0%nat], cnd. split; reflexivity.
Qed.

Lemma nth_error_mid : forall (pre : list expr) y post, nth_error (pre ++ y :: post) (List.length pre) = Some y.
Proof. intros. rewrite nth_error_app2 by apply le_n. rewrite Nat.sub_diag. reflexivity. Qed.

Lemma step_child : forall cols e cols' x, step c cols e cols' x -> exists i, pchild e i = Some x.
Proof.
  intros cols e cols' x H. destruct H;
    try (exists 0%nat; reflexivity); try (exists 1%nat; reflexivity); try (exists 2%nat; reflexivity);
    try (exists (List.length pre); cbn [pchild]; apply nth_error_mid);
    try (exists (S (List.length pre)); cbn [pchild]; apply nth_error_mid).
Qed.

Theorem first_fault_at_node : forall cols e l, first_fault c cols e l ->
  l = noloc \/ exists path x, node_at e path = Some x /\ Ast.loc_of x = l.
Proof.
  intros cols e l H. induction H as [cols e R|cols e cols' x l S F IH].
  - apply fault_loc_node.
  - destruct IH as [IH|(path & y & H1 & H2)]; [left; exact IH|].
    destruct (step_child cols e cols' x S) as [i Hi].
    right. exists (i :: path), y. split; [cbn [node_at]; rewrite Hi; exact H1|exact H2].
Qed.
End FaultNode.

(* Bridge/BrSource.v — the model File/Source.v IS the interpretation of the functions regenerated from
   /repo/file/{source,error,location}.go (gen/GenSource.v, DSL and interpreter in File/SourceRules.v).

   One lemma `<f>_bridge` per Go function, so that a failure names the culprit: running the regenerated
   statements of f with the interpreter, every callee answering as its own lemma says, gives the model
   function.  `<f>_is_model` then ties the knot along the call order of `source_funs`, and
   `model_source_is_source_code` collects them.

   What the model functions assume about their arguments (stated as premises, all of them facts about Go
   values): a line / column is a Go int (`in_int`), a slice length fits an int (`src_ok`), the column printed
   by Error() is below the largest int (Go wraps `Column+1`, the model does not: `format_wrap_witness`), a text
   handed to NewSource has at most 2^31 lines (beyond, `offsets[int32(i)]` panics in Go; the model has no such
   case).  The one `for` loop (Error.Bind) needs more fuel than the text has runes. *)
From Coq Require Import ZArith Bool String List Lia.
Require Import X.Base.Value X.File.Source X.File.SourceRules X.File.SourceRulesProofs X.gen.GenSource.
Import ListNotations.
Local Open Scope string_scope.
Local Open Scope list_scope.
Open Scope Z_scope.

(* nothing in the current source is outside the shapes the translator knows *)
Definition gensource_all_recognised : bool :=
  forallb fdef_ok source_funs
  && match gensource_unrecognised with [] => true | _ => false end.

Lemma gensource_recognised : gensource_all_recognised = true.
Proof. vm_compute. reflexivity. Qed.

(* the functions of the three files the translator does not read (encoding/json glue) *)
Lemma gensource_not_read_is : gensource_not_read = ["MarshalJSON"; "UnmarshalJSON"].
Proof. reflexivity. Qed.

Definition source_decls_statement : Prop :=
  source_structs =
  [("Error", [("Location", "embedded"); ("Message", "string"); ("Snippet", "string")]);
   ("Location", [("Line", "int"); ("Column", "int")]);
   ("Source", [("contents", "[]rune"); ("lineOffsets", "[]int32")])]
  /\ gensource_not_read = ["MarshalJSON"; "UnmarshalJSON"].

(* the structs are the ones the values of File/SourceRules.v stand for: Source = (contents, lineOffsets),
   Error = (Location, Message, Snippet), Location = (Line, Column) *)
Lemma source_structs_are_model :
  source_structs =
  [("Error", [("Location", "embedded"); ("Message", "string"); ("Snippet", "string")]);
   ("Location", [("Line", "int"); ("Column", "int")]);
   ("Source", [("contents", "[]rune"); ("lineOffsets", "[]int32")])].
Proof. reflexivity. Qed.

Lemma source_decls_are_model : source_decls_statement.
Proof. exact (conj source_structs_are_model gensource_not_read_is). Qed.

(* a slice length is a Go int *)
Definition src_ok (s : source) : Prop := len (lineOffsets s) <= max_int.

(* symbolic execution: unfold the interpreter over the (concrete) syntax, nothing else *)
Ltac ev1 :=
  lazy [run_fn exec exec_block eval eval_list eval_multi eval_rhs eval_bool rbind one load store store_all
        lookup upd blanks env_of call_var call_val coerce coerce_all settle zero_of new_of conv
        binop num_of unify mk_num get_field set_field int_of idx_of index set_index slice_val of_snip len_val
        make_val elems_of prim option_map negb Nat.eqb
        fn_body fn_params fn_locals fn_results fn_name fn_recv String.eqb Ascii.eqb Bool.eqb
        fn_NewSource fn_Content fn_Snippet fn_updateOffsets fn_findLineOffset fn_findLine fn_Error fn_Bind
        fn_format fn_Empty].
Ltac ev := repeat (progress (ev1; cbn [fst snd contents lineOffsets e_loc e_msg e_snip])).

(* the same without the statement lists: the expressions of ONE statement *)
Ltac evx1 :=
  lazy [exec eval eval_list eval_multi eval_rhs eval_bool rbind one load store store_all
        lookup upd blanks env_of call_var call_val coerce coerce_all settle zero_of new_of conv
        binop num_of unify mk_num get_field set_field int_of idx_of index set_index slice_val of_snip len_val
        make_val elems_of prim option_map negb Nat.eqb String.eqb Ascii.eqb Bool.eqb after].
Ltac evx := repeat (progress (evx1; cbn [fst snd contents lineOffsets e_loc e_msg e_snip])).
(* open a function: its header is computed, its body is left as `exec_block .. [statements] ..` *)
Ltac enter :=
  unfold run_fn;
  lazy [fn_params fn_recv fn_locals fn_body fn_results coerce_all coerce env_of blanks
        fn_NewSource fn_Content fn_Snippet fn_updateOffsets fn_findLineOffset fn_findLine fn_Error fn_Bind
        fn_format fn_Empty].
(* the next statement of the list *)
Ltac step :=
  first [ rewrite exec_block_nil
        | rewrite exec_block_cons; first [rewrite exec_if | rewrite exec_for | rewrite exec_range | idtac] ];
  evx.

Section Stage1.
Variable call : string -> val -> list val -> res (option val * list val).
Variable F : nat.

(* ---------------------------------------------------------------- location.go *)
Lemma Empty_bridge : forall p,
  run_fn call F fn_Empty (VLoc p) [] = ROk (None, [VBool ((snd p =? 0) && (fst p =? 0))]).
Proof. intro p. ev. destruct (snd p =? 0); reflexivity. Qed.

(* ---------------------------------------------------------------- source.go *)
Lemma Content_bridge : forall s,
  run_fn call F fn_Content (VSrc s) [] = ROk (Some (VSrc s), [VStr (content s)]).
Proof. intro s. reflexivity. Qed.

Definition findLineOffset_spec (s : source) (line : Z) : res (option val * list val) :=
  ROk (Some (VSrc s),
       match findLineOffset s line with
       | Some o => [VI32 o; VBool true]
       | None => [VI32 (-1); VBool false]
       end).

Lemma findLineOffset_bridge : forall s line, in_int line ->
  run_fn call F fn_findLineOffset (VSrc s) [VInt line] = findLineOffset_spec s line.
Proof.
  intros s line Hl. unfold findLineOffset_spec, findLineOffset. ev.
  destruct (line =? 1) eqn:E1; ev; [reflexivity|].
  destruct (1 <? line) eqn:E2; ev; [|reflexivity].
  destruct (line <=? len (lineOffsets s)) eqn:E3; ev; [|reflexivity].
  apply Z.ltb_lt in E2. apply Z.leb_le in E3. destruct Hl as [Hl1 Hl2].
  rewrite wrap64_id by (unfold in_int, min_int, max_int in *; lia).
  replace ((0 <=? line - 2) && (line - 2 <? len (lineOffsets s))) with true
    by (symmetry; apply andb_true_iff; split; [apply Z.leb_le|apply Z.ltb_lt]; lia).
  reflexivity.
Qed.

Definition Snippet_spec (s : source) (line : Z) : res (option val * list val) :=
  match snippet s line with
  | SFound t => ROk (Some (VSrc s), [VStr t; VBool true])
  | SNotFound => ROk (Some (VSrc s), [VStr []; VBool false])
  | SPanic => RPanic
  end.

(* `line + 1` wraps in Go when line is the largest int: neither the wrapped nor the unwrapped line exists *)
Lemma findLineOffset_next : forall s line, in_int line -> src_ok s ->
  findLineOffset s (wrap64 (line + 1)) = findLineOffset s (line + 1).
Proof.
  intros s line [H1 H2] Hs. unfold src_ok in Hs. unfold min_int, max_int in *.
  destruct (Z.eq_dec line 9223372036854775807) as [->|Hne].
  - change (wrap64 (9223372036854775807 + 1)) with (-9223372036854775808).
    unfold findLineOffset.
    change (-9223372036854775808 =? 1) with false. change (1 <? -9223372036854775808) with false.
    change (9223372036854775807 + 1 =? 1) with false. cbn [andb].
    replace (9223372036854775807 + 1 <=? len (lineOffsets s)) with false by (symmetry; apply Z.leb_gt; lia).
    rewrite andb_false_r. reflexivity.
  - rewrite wrap64_id by (unfold in_int, min_int, max_int; lia). reflexivity.
Qed.

Definition sig_findLineOffset : Prop :=
  forall s line, in_int line -> call "findLineOffset" (VSrc s) [VInt line] = findLineOffset_spec s line.

Lemma Snippet_bridge : sig_findLineOffset -> forall s line, in_int line -> src_ok s ->
  run_fn call F fn_Snippet (VSrc s) [VInt line] = Snippet_spec s line.
Proof.
  intros Hc s line Hl Hs. unfold Snippet_spec, snippet. ev.
  rewrite (Hc s line Hl). unfold findLineOffset_spec.
  destruct (findLineOffset s line) as [a|] eqn:E1; ev; [|reflexivity].
  destruct (len (contents s) =? 0) eqn:E2; ev; [reflexivity|].
  rewrite (Hc s _ (wrap64_range _)). unfold findLineOffset_spec.
  rewrite findLineOffset_next by assumption.
  destruct (findLineOffset s (line + 1)) as [b|] eqn:E3; ev.
  - unfold slice. destruct ((0 <=? a) && (a <=? wrap32 (b - 1)) && (wrap32 (b - 1) <=? len (contents s))); ev; reflexivity.
  - unfold slice. destruct ((0 <=? a) && (a <=? len (contents s)) && (len (contents s) <=? len (contents s))); ev; reflexivity.
Qed.

Lemma updateOffsets_bridge : forall s, len (lines (contents s)) <= 2147483648 ->
  run_fn call F fn_updateOffsets (VSrc s) [] =
  ROk (Some (VSrc (mkSource (contents s) (updateOffsets (contents s)))), []).
Proof.
  intros s Hn. enter. step. rewrite split_rune_lines. step.
  replace (len (lines (contents s)) <? 0) with false by (symmetry; apply Z.ltb_ge; apply len_nonneg).
  evx. step.
  step.
  match goal with
  | |- context [range_loop call 0 ?vs ?k ?v ?B ?en] =>
    assert (L : forall rest done off i x4 x5, i = len done -> len done + len rest <= 2147483648 ->
              exists off' x4' x5',
                range_loop call i (map VStr rest) k v B
                  [VSrc s; VStrs (lines (contents s)); VI32s (done ++ repeat 0 (List.length rest)); VI32 off; x4; x5]
                = ROk (CNormal, [VSrc s; VStrs (lines (contents s)); VI32s (done ++ offsets_from off rest);
                                 VI32 off'; x4'; x5']))
  end.
  { induction rest as [|l rest IH]; intros done off i x4 x5 Hi Hlen.
    - exists off, x4, x5. reflexivity.
    - cbn [map]. rewrite range_loop_cons. evx. step.
      rewrite wrap32_add_l. step.
      rewrite len_cons in Hlen. pose proof (len_nonneg done) as Hd. pose proof (len_nonneg rest) as Hr.
      rewrite (wrap32_id i) by (unfold in_int32; lia).
      rewrite len_app.
      assert (Hrep : len (repeat 0 (List.length (l :: rest))) = len rest + 1).
      { unfold len. rewrite repeat_length. cbn [List.length]. lia. }
      rewrite Hrep.
      replace ((0 <=? i) && (i <? len done + (len rest + 1))) with true
        by (symmetry; apply andb_true_iff; split; [apply Z.leb_le|apply Z.ltb_lt]; lia).
      evx. step.
      subst i. unfold len at 2. rewrite Nat2Z.id. cbn [List.length repeat]. rewrite list_set_app.
      rewrite <- app_cons_assoc.
      destruct (IH (done ++ [wrap32 (off + wrap32 (len l) + 1)]) (wrap32 (off + wrap32 (len l) + 1))
                   (len done + 1) (VInt (len done)) (VStr l)) as (off' & x4' & x5' & E).
      + rewrite len_app. reflexivity.
      + rewrite len_app. change (len [wrap32 (off + wrap32 (len l) + 1)]) with 1. lia.
      + exists off', x4', x5'. rewrite E. cbn [offsets_from]. rewrite app_cons_assoc. reflexivity. }
  destruct (L (lines (contents s)) [] 0 0 VNone VNone eq_refl) as (off' & x4' & x5' & E).
  { change (len (@nil Z)) with 0. lia. }
  unfold len at 1. rewrite Nat2Z.id. cbn [app] in E. rewrite E. evx.
  do 2 step. reflexivity.
Qed.

Definition updateOffsets_spec (s : source) : res (option val * list val) :=
  ROk (Some (VSrc (mkSource (contents s) (updateOffsets (contents s)))), []).

Definition sig_updateOffsets : Prop :=
  forall s, len (lines (contents s)) <= 2147483648 -> call "updateOffsets" (VSrc s) [] = updateOffsets_spec s.

Lemma NewSource_bridge : sig_updateOffsets -> forall recv c, len (lines c) <= 2147483648 ->
  run_fn call F fn_NewSource recv [VStr c] = ROk (None, [VSrc (newSource c)]).
Proof.
  intros Hc recv c Hn. ev. rewrite (Hc (mkSource c [])) by exact Hn. unfold updateOffsets_spec. ev. reflexivity.
Qed.

Definition findLine_spec (s : source) (co : Z) : res (option val * list val) :=
  match findLine s co with
  | FLAt line start => ROk (Some (VSrc s), [VI32 line; VI32 start])
  | FLPanic => RPanic
  end.

Lemma findLine_bridge : forall s co,
  run_fn call F fn_findLine (VSrc s) [VI32 co] = findLine_spec s co.
Proof.
  intros s co. enter. do 2 step.
  change (wrap32 1) with 1.
  match goal with
  | |- context [range_loop call 0 ?vs ?k ?v ?B ?en] =>
    assert (L : forall offs i line x3, exists x3',
              range_loop call i (map VI32 offs) k v B [VSrc s; VI32 co; VI32 line; x3]
              = ROk (CNormal, [VSrc s; VI32 co; VI32 (count_line line offs co); x3']))
  end.
  { induction offs as [|o offs IH]; intros i line x3.
    - exists x3. reflexivity.
    - cbn [map]. rewrite range_loop_cons. evx. do 2 step.
      cbn [count_line]. destruct (co <? o).
      + repeat step. exists (VI32 o). reflexivity.
      + repeat step.
        destruct (IH (i + 1) (wrap32 (line + 1)) (VI32 o)) as (x3' & E). exists x3'. exact E. }
  destruct (L (lineOffsets s) 0 1 VNone) as (x3' & E). rewrite E. clear L E. evx.
  unfold findLine_spec, findLine.
  do 2 step.
  destruct (count_line 1 (lineOffsets s) co =? 1) eqn:E1.
  - step. apply Z.eqb_eq in E1. rewrite E1. reflexivity.
  - do 2 step.
    destruct ((0 <=? wrap32 (count_line 1 (lineOffsets s) co - 2)) &&
              (wrap32 (count_line 1 (lineOffsets s) co - 2) <? len (lineOffsets s))); evx; reflexivity.
Qed.

(* ---------------------------------------------------------------- error.go *)
Definition sig_Empty : Prop :=
  forall p, call "Empty" (VLoc p) [] = ROk (None, [VBool ((snd p =? 0) && (fst p =? 0))]).

(* Column + 1 does not wrap *)
Definition col_ok (l : loc) : Prop := min_int <= snd l < max_int.

Definition format_spec (e : ferr) : res (option val * list val) :=
  ROk (Some (VErr e), [VStr (e_msg e ++ format_suffix (e_loc e) (e_snip e))]).

Lemma format_bridge : sig_Empty -> forall e, col_ok (e_loc e) ->
  run_fn call F fn_format (VErr e) [] = format_spec e.
Proof.
  intros Hc e Hcol. unfold format_spec, format_suffix. enter. do 2 step. rewrite Hc. evx.
  destruct ((snd (e_loc e) =? 0) && (fst (e_loc e) =? 0)).
  - repeat step. rewrite app_nil_r. destruct e; reflexivity.
  - repeat step.
    rewrite wrap64_id by (unfold col_ok, in_int, min_int, max_int in *; lia).
    rewrite sprintf_error_format. rewrite app_nil_r. destruct e; reflexivity.
Qed.

Definition sig_format : Prop := forall e, col_ok (e_loc e) -> call "format" (VErr e) [] = format_spec e.

Lemma Error_bridge : sig_format -> forall e, col_ok (e_loc e) ->
  run_fn call F fn_Error (VErr e) [] = format_spec e.
Proof.
  intros Hc e Hcol. ev. rewrite (Hc e Hcol). unfold format_spec. ev. reflexivity.
Qed.

Definition sig_Snippet : Prop :=
  forall s line, in_int line -> src_ok s -> call "Snippet" (VSrc s) [VInt line] = Snippet_spec s line.

Definition Bind_spec (e : ferr) (s : source) : res (option val * list val) :=
  match Source.bind s (e_loc e) with
  | BSnippet t => let e' := mkErr (e_loc e) (e_msg e) t in ROk (Some (VErr e'), [VErr e'])
  | BUnchanged => ROk (Some (VErr e), [VErr e])
  | BPanic => RPanic
  end.

Lemma Bind_bridge : sig_Snippet -> forall e s,
  in_int (fst (e_loc e)) -> in_int (snd (e_loc e)) -> src_ok s -> (List.length (contents s) < F)%nat ->
  run_fn call F fn_Bind (VErr e) [VSrc s] = Bind_spec e s.
Proof.
  intros Hc e s Hline Hcol Hs HF. unfold Bind_spec, Source.bind. enter. do 2 step.
  rewrite (Hc s _ Hline Hs). unfold Snippet_spec.
  pose proof (snippet_length s (fst (e_loc e))) as Hlen.
  destruct (snippet s (fst (e_loc e))) as [sn| |]; evx.
  2:{ repeat step. destruct e; reflexivity. }
  2:{ reflexivity. }
  specialize (Hlen sn eq_refl).
  step. step. change (-1 <? 0) with true. evx. change (replace_rune 9 32 sn) with (untab sn). do 6 step. change (wrap64 0) with 0.
  set (col := snd (e_loc e)) in *.
  set (srcLine := [10; 32; 124; 32] ++ untab sn).
  match goal with
  | |- context [for_loop F ?C ?P ?B _] =>
    assert (L : forall fuel bytes acc i x9, (List.length bytes < fuel)%nat -> 0 <= i ->
              exists v6 v7 v8 v9,
                for_loop fuel C P B
                  [VErr e; VSrc s; VStr sn; VBool true; VStr (untab sn); VStr srcLine;
                   VBytes bytes; VStr acc; VInt i; x9; VNone]
                = match ind_walk (Z.to_nat (col - i)) bytes acc with
                  | Some (b, a) =>
                    ROk (CNormal, [VErr e; VSrc s; VStr sn; VBool true; VStr (untab sn); VStr srcLine;
                                   VBytes b; VStr a; v8; v9; VNone])
                  | None =>
                    ROk (CGoto 0, [VErr e; VSrc s; VStr sn; VBool true; VStr (untab sn); VStr srcLine;
                                   v6; v7; v8; v9; VNone])
                  end)
  end.
  { induction fuel as [|fuel IH]; intros bytes acc i x9 Hf Hi; [inversion Hf|].
    rewrite for_loop_S, cond_sem_some. evx. fold col.
    destruct (i <? col) eqn:Ei.
    - apply Z.ltb_lt in Ei.
      replace (Z.to_nat (col - i)) with (S (Z.to_nat (col - (i + 1)))) by lia.
      destruct bytes as [|r t].
      + evx. change (byte_len []) with 0. change (0 <? 0) with false. evx.
        exists VNone, VNone, (VInt i), x9. reflexivity.
      + evx. rewrite byte_len_pos. evx. do 2 step.
        cbn [decode_rune fst snd]. rewrite drop_bytes_first. evx. do 2 step. rewrite rune_size_multibyte.
        cbn [ind_walk]. destruct (multibyte r).
        * repeat step. exists (VBytes t), (VStr acc), (VInt i), (VInt (rune_size r)). reflexivity.
        * repeat step.
          rewrite wrap64_id by (destruct Hcol as [Hc1 Hc2]; unfold in_int, min_int, max_int in *; fold col in Hc2; lia).
          cbn [List.length] in Hf.
          apply IH; lia.
    - apply Z.ltb_ge in Ei. evx. replace (Z.to_nat (col - i)) with O by lia.
      exists VNone, VNone, (VInt i), x9. destruct bytes; reflexivity. }
  destruct (L F (untab sn) [10; 32; 124; 32] 0 VNone) as (v6 & v7 & v8 & v9 & E).
  { rewrite untab_length. lia. } { lia. }
  rewrite E. clear L E.
  change [10; 32; 124; 32] with line_prefix. rewrite ind_loop_walk. rewrite Z.sub_0_r.
  destruct (ind_walk (Z.to_nat col) (untab sn) line_prefix) as [[b a]|].
  - evx. do 2 step. unfold ind_caret. destruct b as [|r t].
    + cbn [decode_rune fst snd]. evx. step. change (1 <? 0) with false. evx.
      repeat step. subst srcLine. destruct e; reflexivity.
    + cbn [decode_rune fst snd]. evx. step. rewrite rune_size_multibyte. destruct (multibyte r).
      * evx. step. ev. subst srcLine. destruct e; reflexivity.
      * evx. repeat step. subst srcLine. destruct e; reflexivity.
  - ev. subst srcLine. destruct e; reflexivity.
Qed.
End Stage1.

(* ================================================================== the table: every callee is its own lemma *)
(* find the function in the (concrete) table *)
Ltac find_fn :=
  repeat first [ rewrite sem_of_skip by reflexivity | rewrite sem_of_hit by reflexivity ].

Section Knot.
Variable F : nat.

Lemma Empty_is_model : forall p,
  interp F source_funs "Empty" (VLoc p) [] = ROk (None, [VBool ((snd p =? 0) && (fst p =? 0))]).
Proof. intro p. unfold interp, source_funs. find_fn. apply Empty_bridge. Qed.

Lemma Content_is_model : forall s,
  interp F source_funs "Content" (VSrc s) [] = ROk (Some (VSrc s), [VStr (content s)]).
Proof. intro s. unfold interp, source_funs. find_fn. apply Content_bridge. Qed.

Lemma findLineOffset_is_model : forall s line, in_int line ->
  interp F source_funs "findLineOffset" (VSrc s) [VInt line] = findLineOffset_spec s line.
Proof. intros s line H. unfold interp, source_funs. find_fn. apply findLineOffset_bridge. exact H. Qed.

Lemma Snippet_is_model : forall s line, in_int line -> src_ok s ->
  interp F source_funs "Snippet" (VSrc s) [VInt line] = Snippet_spec s line.
Proof.
  intros s line H Hs. unfold interp, source_funs. find_fn. apply Snippet_bridge; try assumption.
  intros s' l' H'. find_fn. apply findLineOffset_bridge. exact H'.
Qed.

Lemma updateOffsets_is_model : forall s, len (lines (contents s)) <= 2147483648 ->
  interp F source_funs "updateOffsets" (VSrc s) [] = updateOffsets_spec s.
Proof. intros s H. unfold interp, source_funs. find_fn. apply updateOffsets_bridge. exact H. Qed.

Lemma NewSource_is_model : forall recv c, len (lines c) <= 2147483648 ->
  interp F source_funs "NewSource" recv [VStr c] = ROk (None, [VSrc (newSource c)]).
Proof.
  intros recv c H. unfold interp, source_funs. find_fn. apply NewSource_bridge; try assumption.
  intros s' H'. find_fn. apply updateOffsets_bridge. exact H'.
Qed.

(* the bound the theorems of File/SourceProofs.v use *)
Corollary NewSource_is_model_small : forall recv c, len c < 2147483647 ->
  interp F source_funs "NewSource" recv [VStr c] = ROk (None, [VSrc (newSource c)]).
Proof.
  intros recv c H. apply NewSource_is_model. pose proof (lines_length c) as L. unfold len in *. lia.
Qed.

Lemma findLine_is_model : forall s co,
  interp F source_funs "findLine" (VSrc s) [VI32 co] = findLine_spec s co.
Proof. intros s co. unfold interp, source_funs. find_fn. apply findLine_bridge. Qed.

Lemma format_is_model : forall e, col_ok (e_loc e) ->
  interp F source_funs "format" (VErr e) [] = format_spec e.
Proof.
  intros e H. unfold interp, source_funs. find_fn. apply format_bridge; try assumption.
  intro p. find_fn. apply Empty_bridge.
Qed.

Lemma Error_is_model : forall e, col_ok (e_loc e) ->
  interp F source_funs "Error" (VErr e) [] = format_spec e.
Proof.
  intros e H. unfold interp, source_funs. find_fn. apply Error_bridge; try assumption.
  intros e' H'. find_fn. apply format_bridge; try assumption.
  intro p. find_fn. apply Empty_bridge.
Qed.

Lemma Bind_is_model : forall e s,
  in_int (fst (e_loc e)) -> in_int (snd (e_loc e)) -> src_ok s -> (List.length (contents s) < F)%nat ->
  interp F source_funs "Bind" (VErr e) [VSrc s] = Bind_spec e s.
Proof.
  intros e s H1 H2 Hs HF. unfold interp, source_funs. find_fn. apply Bind_bridge; try assumption.
  intros s' l' H' Hs'. find_fn. apply Snippet_bridge; try assumption.
  intros s'' l'' H''. find_fn. apply findLineOffset_bridge. exact H''.
Qed.
End Knot.

(* ================================================================== the whole *)
(* the ten functions of file/{source,error,location}.go, as regenerated, compute what File/Source.v says *)
Definition model_source_is_source_code_statement : Prop :=
  forall F : nat,
    (forall recv c, len c < 2147483647 ->
       interp F source_funs "NewSource" recv [VStr c] = ROk (None, [VSrc (newSource c)]))
    /\ (forall s, len (lines (contents s)) <= 2147483648 ->
       interp F source_funs "updateOffsets" (VSrc s) [] = updateOffsets_spec s)
    /\ (forall s line, in_int line ->
       interp F source_funs "findLineOffset" (VSrc s) [VInt line] = findLineOffset_spec s line)
    /\ (forall s line, in_int line -> src_ok s ->
       interp F source_funs "Snippet" (VSrc s) [VInt line] = Snippet_spec s line)
    /\ (forall s, interp F source_funs "Content" (VSrc s) [] = ROk (Some (VSrc s), [VStr (content s)]))
    /\ (forall s co, interp F source_funs "findLine" (VSrc s) [VI32 co] = findLine_spec s co)
    /\ (forall p, interp F source_funs "Empty" (VLoc p) [] = ROk (None, [VBool ((snd p =? 0) && (fst p =? 0))]))
    /\ (forall e, col_ok (e_loc e) -> interp F source_funs "format" (VErr e) [] = format_spec e)
    /\ (forall e, col_ok (e_loc e) -> interp F source_funs "Error" (VErr e) [] = format_spec e)
    /\ (forall e s, in_int (fst (e_loc e)) -> in_int (snd (e_loc e)) -> src_ok s ->
          (List.length (contents s) < F)%nat ->
          interp F source_funs "Bind" (VErr e) [VSrc s] = Bind_spec e s).

Theorem model_source_is_source_code : model_source_is_source_code_statement.
Proof.
  intro F.
  split; [apply NewSource_is_model_small|].
  split; [apply updateOffsets_is_model|].
  split; [apply findLineOffset_is_model|].
  split; [apply Snippet_is_model|].
  split; [apply Content_is_model|].
  split; [apply findLine_is_model|].
  split; [apply Empty_is_model|].
  split; [apply format_is_model|].
  split; [apply Error_is_model|].
  apply Bind_is_model.
Qed.

(* NewSource followed by Bind and Error(): the text of a located error, as File/Source.v `render` has it *)
Definition render_is_source_code_statement : Prop := forall F c l msg,
  len c < 2147483647 -> in_int (fst l) -> in_int (snd l) -> snd l < max_int -> (List.length c < F)%nat ->
  exists src, interp F source_funs "NewSource" VNone [VStr c] = ROk (None, [VSrc src]) /\
    match render c l with
    | Some (snip, suffix) =>
      exists e', interp F source_funs "Bind" (VErr (mkErr l msg [])) [VSrc src] = ROk (Some (VErr e'), [VErr e'])
                 /\ e_snip e' = snip
                 /\ interp F source_funs "Error" (VErr e') [] = ROk (Some (VErr e'), [VStr (msg ++ suffix)])
    | None => interp F source_funs "Bind" (VErr (mkErr l msg [])) [VSrc src] = RPanic
    end.

Theorem render_is_source_code : render_is_source_code_statement.
Proof.
  intros F c l msg Hc Hl1 Hl2 Hl3 HF. exists (newSource c). split; [apply NewSource_is_model_small; exact Hc|].
  assert (Hs : src_ok (newSource c)).
  { unfold src_ok, newSource, updateOffsets. cbn [lineOffsets].
    assert (G : forall ls off, List.length (offsets_from off ls) = List.length ls)
      by (induction ls as [|x ls IH]; intro off; cbn [offsets_from List.length]; [reflexivity|rewrite IH; reflexivity]).
    unfold len. rewrite G. pose proof (lines_length c) as L. unfold len, max_int in *. lia. }
  assert (Hcol : col_ok l) by (destruct Hl2; split; assumption).
  pose proof (Bind_is_model F (mkErr l msg []) (newSource c) Hl1 Hl2 Hs HF) as B.
  unfold Bind_spec in B. cbn [e_loc e_msg e_snip] in B. unfold render.
  destruct (Source.bind (newSource c) l) as [t| |].
  - eexists. split; [exact B|]. split; [reflexivity|].
    rewrite Error_is_model by exact Hcol. reflexivity.
  - eexists. split; [exact B|]. split; [reflexivity|].
    rewrite Error_is_model by exact Hcol. reflexivity.
  - exact B.
Qed.

(* ================================================================== where the premises bite *)
(* Column + 1 wraps in Go at the largest int; the model prints the unwrapped number *)
Definition format_full_statement : Prop :=
  forall F e, interp F source_funs "format" (VErr e) [] = format_spec e.

Lemma format_full_statement_refuted : ~ format_full_statement.
Proof.
  intro H. specialize (H 0%nat (mkErr (1, 9223372036854775807) [] [])).
  vm_compute in H. discriminate H.
Qed.

(* ================================================================== examples (non-vacuity) *)
Definition ex_text : list Z := [97; 98; 9; 99; 10; 100; 233; 102; 10; 103].     (* "ab\tc\ndéf\ng" *)

Example ex_bind_caret :
  interp 20 source_funs "Bind" (VErr (mkErr (1, 3) [109] [])) [VSrc (newSource ex_text)]
  = Bind_spec (mkErr (1, 3) [109] []) (newSource ex_text)
  /\ Source.bind (newSource ex_text) (1, 3) = BSnippet [10; 32; 124; 32; 97; 98; 32; 99; 10; 32; 124; 32; 46; 46; 46; 94].
Proof. split; vm_compute; reflexivity. Qed.

Example ex_bind_multibyte :
  interp 20 source_funs "Bind" (VErr (mkErr (2, 2) [109] [])) [VSrc (newSource ex_text)]
  = Bind_spec (mkErr (2, 2) [109] []) (newSource ex_text)
  /\ Source.bind (newSource ex_text) (2, 2) = BSnippet [10; 32; 124; 32; 100; 233; 102].
Proof. split; vm_compute; reflexivity. Qed.

Example ex_error_text :
  interp 20 source_funs "Error" (VErr (mkErr (1, 3) [109] [33])) []
  = ROk (Some (VErr (mkErr (1, 3) [109] [33])), [VStr [109; 32; 40; 49; 58; 52; 41; 33]]).
Proof. vm_compute. reflexivity. Qed.

Example ex_premises_hold :
  len ex_text < 2147483647 /\ in_int 1 /\ in_int 3 /\ src_ok (newSource ex_text) /\ col_ok (1, 3)
  /\ (List.length (contents (newSource ex_text)) < 20)%nat.
Proof.
  unfold in_int, src_ok, col_ok, min_int, max_int.
  repeat split; try (vm_compute; congruence); vm_compute; lia.
Qed.

Definition gensource_examples_statement : Prop :=
  (interp 20 source_funs "Bind" (VErr (mkErr (1, 3) [109] [])) [VSrc (newSource ex_text)]
   = Bind_spec (mkErr (1, 3) [109] []) (newSource ex_text)
   /\ Source.bind (newSource ex_text) (1, 3) = BSnippet [10; 32; 124; 32; 97; 98; 32; 99; 10; 32; 124; 32; 46; 46; 46; 94])
  /\ (interp 20 source_funs "Bind" (VErr (mkErr (2, 2) [109] [])) [VSrc (newSource ex_text)]
      = Bind_spec (mkErr (2, 2) [109] []) (newSource ex_text)
      /\ Source.bind (newSource ex_text) (2, 2) = BSnippet [10; 32; 124; 32; 100; 233; 102])
  /\ interp 20 source_funs "Error" (VErr (mkErr (1, 3) [109] [33])) []
     = ROk (Some (VErr (mkErr (1, 3) [109] [33])), [VStr [109; 32; 40; 49; 58; 52; 41; 33]])
  /\ (len ex_text < 2147483647 /\ in_int 1 /\ in_int 3 /\ src_ok (newSource ex_text) /\ col_ok (1, 3)
      /\ (List.length (contents (newSource ex_text)) < 20)%nat).

Example gensource_examples : gensource_examples_statement.
Proof. exact (conj ex_bind_caret (conj ex_bind_multibyte (conj ex_error_text ex_premises_hold))). Qed.

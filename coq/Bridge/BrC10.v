(* Bridge/BrC10.v — obligations that tie the tables REGENERATED from ast/node.go and
   ast/visitor.go (coq/gen/GenWalk.v: what the code says now) to the reference slot structure of
   Ast.children.  Finite; closed by computation.  These are exactly the lemmas that break when a
   case of walker.walk forgets, reorders or un-guards a child. *)
From Coq Require Import Bool List String.
Require Import X.Syn.Ast X.Walk.Walk X.Walk.WalkProofs X.gen.GenWalk.
Import ListNotations.

Lemma translator_recognised_walk : walk_unrecognised = [].
Proof. vm_compute. reflexivity. Qed.

(* per node kind: the case of walker.walk walks exactly the reference slots, in source order,
   with a nil guard exactly on the slots that may be absent *)
Lemma gen_walked_is_reference : forall k, gen_walked k = ref_slots k.
Proof. intros k. destruct k; vm_compute; reflexivity. Qed.

(* per node kind: the struct declares exactly these Node / []Node fields, in this order *)
Lemma gen_declared_is_reference : forall k, gen_declared k = map decl_of (ref_slots k).
Proof. intros k. destruct k; vm_compute; reflexivity. Qed.

(* hence: every declared Node-typed field is walked, in declaration order *)
Lemma gen_walked_covers_declared : forall k, map decl_of (gen_walked k) = gen_declared k.
Proof. intros k. rewrite gen_walked_is_reference, gen_declared_is_reference. reflexivity. Qed.

Lemma gen_table_ok : table_ok gen_walked.
Proof. exact gen_walked_is_reference. Qed.

(* and they are the children of the reference, for every tree *)
Lemma gen_slots_are_children : forall e,
  flat_map (fun sl => slot_get e (fst sl)) (gen_walked (nkind_of e)) = children e.
Proof. intros e. rewrite gen_walked_is_reference. apply ref_slots_children. Qed.

(* ast.Patch is the model's `patch`: type annotation and location are copied, then the node is stored *)
Lemma gen_patch_is_model :
  gen_patch_copies_type && gen_patch_copies_location && gen_patch_assigns = true.
Proof. vm_compute. reflexivity. Qed.

(* Bridge/BrCapstoneC13.v — C13 capstones: the theorems of File/SourceProofs.v (about the hand models File/Source.v,
   Lex/Lexer.v, Parse/Parser.v) composed with the regeneration bridges Bridge/BrSource.v, BrLexer.v, BrParser.v.
   Statements mention only the interpretation of the REGENERATED code
     interp F source_funs "NewSource" / "Snippet" / "Bind" / "Error"   (file/source.go, file/error.go: gen/GenSource.v)
     LexRules.gen_lex .. lexer_funs                                     (parser/lexer/*.go: gen/GenLexer.v)
     ParseRules.gen_parse parser_program                                (parser/parser.go: gen/GenParser.v)
   and reference definitions: lines / line_of / nlines (split at LF), inside, untab, line_prefix, format_suffix,
   the layouts and expected tokens of C12.  F is the iteration bound the interpreter gives every Go loop. *)
From Coq Require Import ZArith Bool List String Lia.
Require Import X.Base.Num X.Base.Value X.Syn.Ast X.Syn.Tok X.Lex.Lexer X.Lex.LexProofs
               X.Parse.Parser X.Parse.Printer X.Parse.ParseProofs X.gen.GenGrammar X.Corr.CorrC11 X.Bridge.BrC11
               X.File.Source X.File.SourceProofs.
Require Import X.File.SourceRules X.File.SourceRulesProofs X.gen.GenSource X.Bridge.BrSource.
Require X.Lex.LexRules X.gen.GenLexer X.Bridge.BrLexer X.Parse.ParseRules X.gen.GenParser X.Bridge.BrParser.
Require X.Bridge.BrCapstoneC12 X.Bridge.BrCapstoneC11.
Import ListNotations.
Open Scope Z_scope.
Open Scope list_scope.

(* ------------------------------------------------------------------ the regenerated file package, composed *)
Definition results {A : Type} (r : res (option val * A)) : res A :=
  match r with ROk (_, outs) => ROk outs | RPanic => RPanic | RCrash w => RCrash w | RFuel => RFuel end.

(* file.NewSource(c).Snippet(line): the results (string, bool) of the regenerated Snippet on the value the regenerated NewSource returns *)
Definition source_Snippet (F : nat) (c : list Z) (line : Z) : res (list val) :=
  match interp F source_funs "NewSource" VNone [VStr c] with
  | ROk (_, [src]) => results (interp F source_funs "Snippet" src [VInt line])
  | ROk _ => RCrash "results of NewSource"
  | RPanic => RPanic | RCrash w => RCrash w | RFuel => RFuel
  end.

(* (&file.Error{Location: l, Message: msg}).Bind(file.NewSource(c)).Error(): the text of a located error *)
Definition source_error_text (F : nat) (c : list Z) (l : loc) (msg : list Z) : res (list val) :=
  match interp F source_funs "NewSource" VNone [VStr c] with
  | ROk (_, [src]) =>
      match interp F source_funs "Bind" (VErr (mkErr l msg [])) [src] with
      | ROk (_, [e']) => results (interp F source_funs "Error" e' [])
      | ROk _ => RCrash "results of Bind"
      | RPanic => RPanic | RCrash w => RCrash w | RFuel => RFuel
      end
  | ROk _ => RCrash "results of NewSource"
  | RPanic => RPanic | RCrash w => RCrash w | RFuel => RFuel
  end.

Lemma src_ok_newSource : forall c, len c < 2147483647 -> src_ok (newSource c).
Proof.
  intros c Hc. unfold src_ok, newSource, updateOffsets. cbn [lineOffsets].
  assert (G : forall ls off, List.length (offsets_from off ls) = List.length ls)
    by (induction ls as [|x ls IH]; intro off; cbn [offsets_from List.length]; [reflexivity|rewrite IH; reflexivity]).
  unfold len. rewrite G. pose proof (lines_length c) as L. unfold len, max_int in *. lia.
Qed.

Lemma source_Snippet_is_model : forall F c line, len c < 2147483647 -> in_int line ->
  source_Snippet F c line =
  match snippet (newSource c) line with
  | SFound t => ROk [VStr t; VBool true]
  | SNotFound => ROk [VStr []; VBool false]
  | SPanic => RPanic
  end.
Proof.
  intros F c line Hc Hl. unfold source_Snippet. rewrite NewSource_is_model_small by exact Hc.
  rewrite Snippet_is_model by (try exact Hl; apply src_ok_newSource; exact Hc).
  unfold Snippet_spec. destruct (snippet (newSource c) line); reflexivity.
Qed.

Lemma source_error_text_is_model : forall F c l msg,
  len c < 2147483647 -> in_int (fst l) -> in_int (snd l) -> snd l < max_int -> (List.length c < F)%nat ->
  source_error_text F c l msg =
  match render c l with
  | Some (snip, suffix) => ROk [VStr (msg ++ suffix)]
  | None => RPanic
  end.
Proof.
  intros F c l msg Hc H1 H2 H3 HF. unfold source_error_text.
  destruct (render_is_source_code F c l msg Hc H1 H2 H3 HF) as (src & N & R). rewrite N.
  destruct (render c l) as [[snip suffix]|].
  - destruct R as (e' & B & _ & E). rewrite B, E. reflexivity.
  - rewrite R. reflexivity.
Qed.

Lemma in_int_line : forall s line, len s < 2147483647 -> 1 <= line <= nlines s -> in_int line.
Proof.
  intros s line Hs H. pose proof (lines_length s) as L. unfold nlines, len, in_int, min_int, max_int in *. lia.
Qed.


Lemma nth_le_join : forall (ls : list (list Z)) n, (List.length (nth n ls (@nil Z)) <= List.length (join ls))%nat.
Proof.
  induction ls as [|x ls IH]; intros n.
  - destruct n; cbn; lia.
  - destruct n as [|n]; cbn [nth join].
    + destruct ls; [lia|]. rewrite app_length. lia.
    + specialize (IH n). destruct ls as [|y ls]; [destruct n; cbn [nth List.length]; lia|].
      rewrite app_length. cbn [List.length]. lia.
Qed.

Lemma line_of_le : forall c line, len (line_of c line) <= len c.
Proof.
  intros c line. unfold line_of, len. pose proof (nth_le_join (lines c) (Z.to_nat (line - 1))) as Q.
  rewrite join_lines in Q. lia.
Qed.

(* ------------------------------------------------------------------ 1. the snippet, for all texts *)
Theorem src_snippet : forall F s, len s < 2147483647 -> forall line, s <> [] -> 1 <= line <= nlines s ->
  source_Snippet F s line = ROk [VStr (line_of s line); VBool true].
Proof.
  intros F s Hs line Hne H. rewrite source_Snippet_is_model by (try exact Hs; eapply in_int_line; eassumption).
  rewrite (snippet_is_line s Hs line Hne H). reflexivity.
Qed.

Theorem src_snippet_not_found : forall F s, len s < 2147483647 -> forall line, in_int line -> line < 1 \/ nlines s < line ->
  source_Snippet F s line = ROk [VStr []; VBool false].
Proof.
  intros F s Hs line Hi H. rewrite source_Snippet_is_model by assumption.
  rewrite (snippet_not_found s Hs line H). reflexivity.
Qed.

Theorem src_snippet_empty_source : forall F line, in_int line -> source_Snippet F [] line = ROk [VStr []; VBool false].
Proof.
  intros F line Hi. rewrite source_Snippet_is_model; [|vm_compute; reflexivity|exact Hi].
  rewrite snippet_empty_source. reflexivity.
Qed.

(* the regenerated Snippet never slices out of range, is never ill-typed and never runs out of loop iterations *)
Theorem src_snippet_total : forall F s line, len s < 2147483647 -> in_int line ->
  exists t b, source_Snippet F s line = ROk [VStr t; VBool b].
Proof.
  intros F s line Hs Hi. rewrite source_Snippet_is_model by assumption.
  pose proof (snippet_never_panics s line Hs) as P.
  destruct (snippet (newSource s) line); [eexists; eexists; reflexivity|eexists; eexists; reflexivity|congruence].
Qed.

(* ------------------------------------------------------------------ 4. the rendered error: line shown, caret under the column *)
Definition loc_in_go (l : loc) : Prop := in_int (fst l) /\ in_int (snd l) /\ snd l < max_int.

Theorem src_caret : forall F c msg line col,
  len c < 2147483647 -> (List.length c < F)%nat -> c <> [] -> 1 <= line <= nlines c ->
  0 <= col <= len (line_of c line) ->
  ascii_run (firstn (S (Z.to_nat col)) (line_of c line)) = true ->
  source_error_text F c (line, col) msg =
    ROk [VStr (msg ++ format_suffix (line, col)
                 (line_prefix ++ untab (line_of c line) ++ line_prefix ++ repeat 46 (Z.to_nat col) ++ [94]))].
Proof.
  intros F c msg line col Hc HF Hne Hl Hcol Ha.
  pose proof (lines_length c) as L. pose proof (in_int_line c line Hc Hl) as Il.
  pose proof (line_of_le c line) as Hlen.
  rewrite source_error_text_is_model; cbn [fst snd]; try assumption;
    try (unfold in_int, min_int, max_int, len in *; lia).
  unfold render. rewrite (caret_line c line col (line_of c line) (snippet_is_line c Hc line Hne Hl) Hcol Ha). reflexivity.
Qed.

Theorem src_caret_dropped_after_multibyte : forall F c msg line col,
  len c < 2147483647 -> (List.length c < F)%nat -> c <> [] -> 1 <= line <= nlines c -> 0 <= col < max_int ->
  ascii_run (firstn (S (Z.to_nat col)) (line_of c line)) = false ->
  source_error_text F c (line, col) msg =
    ROk [VStr (msg ++ format_suffix (line, col) (line_prefix ++ untab (line_of c line)))].
Proof.
  intros F c msg line col Hc HF Hne Hl Hcol Ha. pose proof (in_int_line c line Hc Hl) as Il.
  rewrite source_error_text_is_model; cbn [fst snd]; try assumption;
    try (unfold in_int, min_int, max_int in *; lia).
  unfold render. rewrite (caret_dropped c line col (line_of c line) (snippet_is_line c Hc line Hne Hl) Ha). reflexivity.
Qed.

(* every rendered error of a location whose line exists shows that line of the text *)
Theorem src_error_shows_line : forall F c msg l,
  len c < 2147483647 -> (List.length c < F)%nat -> c <> [] -> 1 <= fst l <= nlines c -> 0 <= snd l < max_int ->
  exists rest, source_error_text F c l msg =
    ROk [VStr (msg ++ format_suffix l (line_prefix ++ untab (line_of c (fst l)) ++ rest))].
Proof.
  intros F c msg l Hc HF Hne Hl Hcol. pose proof (in_int_line c (fst l) Hc Hl) as Il.
  destruct (bind_shows_line c l (line_of c (fst l)) (snippet_is_line c Hc (fst l) Hne Hl)) as [rest B].
  exists rest. rewrite source_error_text_is_model; try assumption; try (unfold in_int, min_int, max_int in *; lia).
  unfold render. rewrite B. reflexivity.
Qed.

(* ------------------------------------------------------------------ 2./3. positions of the regenerated lexer lie inside the text *)
Theorem src_lexer_locations_inside : forall ul ud us input,
  match LexRules.gen_lex ul ud us GenLexer.lexer_funs input with
  | LexRules.GenOk toks => forall t, In t toks -> inside input (tloc t)
  | LexRules.GenErr e => inside input e
  | LexRules.GenOutOfFuel => True
  | LexRules.GenCrash _ => False
  end.
Proof.
  intros ul ud us input. rewrite BrLexer.gen_lex_is_lex. pose proof (lex_locations_inside ul ud us input) as H.
  destruct (lex ul ud us input); exact H.
Qed.

Theorem src_token_inside : forall ul ud us items trail,
  layout_ok ul ud us items trail = true ->
  exists toks, BrCapstoneC12.source_lexes ul ud us (LexProofs.layout items trail) toks /\
    forall tok, In tok toks -> token_located (LexProofs.layout items trail) tok.
Proof.
  intros ul ud us items trail H. destruct (tokens_located ul ud us items trail H) as (toks & L & T).
  exists toks. split; [apply BrCapstoneC12.source_lexes_of_model; exact L|exact T].
Qed.

(* the snippet of a token: the regenerated lexer returns the expected tokens; for each of them the regenerated
   NewSource + Snippet at the token's line returns that line, whose rune at the token's column is the token's first rune *)
Theorem src_snippet_of_token : forall F ul ud us items trail tok,
  layout_ok ul ud us items trail = true ->
  len (LexProofs.layout items trail) < 2147483647 ->
  In tok (expected (1, 0) items) ->
  BrCapstoneC12.source_lexes ul ud us (LexProofs.layout items trail)
    (expected (1, 0) items ++ [mkTok (lastpos (1, 0) (1, 0) (LexProofs.layout items trail)) TkEOF EmptyString]) /\
  exists ws t r w text,
    In (ws, t) items /\ tkind_of tok = tok_kind t /\ tval tok = tok_value t /\ tok_runes t = r :: w /\
    source_Snippet F (LexProofs.layout items trail) (fst (tloc tok)) = ROk [VStr text; VBool true] /\
    text = line_of (LexProofs.layout items trail) (fst (tloc tok)) /\
    nth_error text (Z.to_nat (snd (tloc tok))) = Some r.
Proof.
  intros F ul ud us items trail tok H Hlen Hin.
  split; [apply BrCapstoneC12.src_positions; exact H|].
  destruct (token_snippet ul ud us items trail tok H Hlen Hin) as (ws & t & r & w & text & A & B & C & D & S & E & N).
  exists ws, t, r, w, text. repeat split; try assumption.
  destruct (tokens_located ul ud us items trail H) as (toks & L & T).
  rewrite (positions_hold ul ud us items trail H) in L. injection L as <-.
  destruct (T tok (in_or_app _ _ _ (or_introl Hin))) as [[I _] _].
  rewrite source_Snippet_is_model; [rewrite S; reflexivity|exact Hlen|eapply in_int_line; eassumption].
Qed.

(* ------------------------------------------------------------------ 5./6. anchors and syntax errors, regenerated parser *)
Theorem src_parse_anchor_partial : forall (o : oracles) (fmt_int : Z -> string) (fmt_float : PrimFloat.float -> string) (c : poracle) (t : expr),
  printable gen_grammar fmt_int fmt_float o c t ->
  ParseRules.gen_parse GenParser.parser_program gen_grammar o (print_any gen_grammar fmt_int fmt_float c t) = Some (Parser.ROk t) /\
  forall path x kv, node_at_nb t path = Some x -> anchor_of fmt_int fmt_float x = Some kv ->
    In (anchor_token x kv) (print_any gen_grammar fmt_int fmt_float c t).
Proof.
  intros o fi ff c t P. destruct (parse_anchor gen_grammar fi ff o gen_grammar_wf c t P) as [A B].
  split; [rewrite BrParser.gen_parse_is_parse, A; reflexivity|exact B].
Qed.

Definition src_cond_anchor_full_statement : Prop :=
  forall (g : grammar) (o : oracles) ts e path a c x y,
    ParseRules.gen_parse GenParser.parser_program g o ts = Some (Parser.ROk e) -> node_at e path = Some (ECond a c x y) ->
    exists t, In t ts /\ tok_is t TkOperator ["?"%string] = true /\ aloc a = tloc t.

Theorem src_cond_anchor_refuted : ~ src_cond_anchor_full_statement.
Proof.
  intros H. apply cond_anchor_refuted. intros g o ts e path a c x y P N.
  apply (H g o ts e path a c x y); [rewrite BrParser.gen_parse_is_parse, P; reflexivity|exact N].
Qed.

Theorem src_syntax_error_at_token : forall (o : oracles) ts l, ts <> [] ->
  ParseRules.gen_parse GenParser.parser_program gen_grammar o ts = Some (Parser.RErr l) -> exists t, In t ts /\ l = tloc t.
Proof.
  intros o ts l Hne E. rewrite BrParser.gen_parse_is_parse in E. injection E as E.
  exact (syntax_error_at_token gen_grammar o ts l Hne E).
Qed.

(* regenerated lexer + regenerated parser: whatever they report for ANY text is located inside the text *)
Theorem src_syntax_error_inside : forall ul ud us (o : oracles) txt l,
  BrCapstoneC11.source_parse_text ul ud us gen_grammar o txt = Some (Parser.RErr l) -> inside txt l.
Proof.
  intros ul ud us o txt l E. rewrite BrCapstoneC11.source_parse_text_is_model in E. injection E as E.
  unfold X.Parse.Render.parse_text in E. pose proof (syntax_error_inside ul ud us gen_grammar o txt) as H.
  destruct (lex ul ud us txt) as [toks|e|]; [exact (H l E)|injection E as <-; exact H|discriminate E].
Qed.

Definition src_literal_error_full_statement : Prop :=
  forall (g : grammar) (o : oracles) l0 v t1 rest,
    number_value (o_float o) v = NLBad ->
    ParseRules.gen_parse GenParser.parser_program g o (mkTok l0 TkNumber v :: t1 :: rest) = Some (Parser.RErr l0).

Theorem src_literal_error_refuted : ~ src_literal_error_full_statement.
Proof.
  intros H. apply literal_error_refuted. intros g o l0 v t1 rest N.
  specialize (H g o l0 v t1 rest N). rewrite BrParser.gen_parse_is_parse in H. injection H as H. exact H.
Qed.

Theorem src_literal_error_at_following_token : forall (g : grammar) (o : oracles) l0 v t1 rest,
  number_value (o_float o) v = NLBad ->
  ParseRules.gen_parse GenParser.parser_program g o (mkTok l0 TkNumber v :: t1 :: rest) = Some (Parser.RErr (tloc t1)).
Proof.
  intros g o l0 v t1 rest N. rewrite BrParser.gen_parse_is_parse, (literal_error_at_next g o l0 v t1 rest N). reflexivity.
Qed.

(* ------------------------------------------------------------------ front to back: a syntax error of ANY text, rendered *)
(* the location the regenerated lexer + parser report for a text lies on an existing line of it, and the error text the
   regenerated Bind / Error produce for that location shows exactly that line of the text *)
Theorem src_syntax_error_rendered : forall F ul ud us (o : oracles) txt l msg,
  len txt < 2147483647 -> (List.length txt < F)%nat -> txt <> [] ->
  BrCapstoneC11.source_parse_text ul ud us gen_grammar o txt = Some (Parser.RErr l) ->
  inside txt l /\
  exists rest, source_error_text F txt l msg =
    ROk [VStr (msg ++ format_suffix l (line_prefix ++ untab (line_of txt (fst l)) ++ rest))].
Proof.
  intros F ul ud us o txt l msg Hc HF Hne E. pose proof (src_syntax_error_inside ul ud us o txt l E) as I.
  split; [exact I|]. destruct I as [I1 I2].
  apply src_error_shows_line; try assumption.
  pose proof (line_of_le txt (fst l)) as Hlen.
  unfold max_int. lia.
Qed.

(* Bridge/BrCapstoneC03.v — C03 capstones: the theorems of Ty/CheckProofs.v and Ty/SoundProofs.v (about the hand model
   Ty/Checker.v) composed with the regeneration bridge Bridge/BrChecker.v.  `gen_check c checker_src e` is the
   interpretation (Ty/CheckRules.v) of checker/checker.go and checker/types.go as REGENERATED into gen/GenChecker.v:
   Some (t, e', st) = reported type, re-annotated tree, first error.  The statements below mention only it, the reference
   semantics Sem.eval, value typing (has_ty / res_ok) and the reference relations ill_typed_top / first_fault.
   The bridge's decidable condition `checker_bridge_ok c e` stays as a hypothesis. *)
From Coq Require Import ZArith Bool List String Permutation.
Require Import X.Base.Num X.Base.Value X.Syn.Ast X.Sem.Prim X.Sem.Sem X.Ty.Types X.Ty.TypesTable X.Ty.Checker X.Ty.CheckProofs
               X.Ty.Sound X.Ty.SoundProofs.
Require Import X.Ty.CheckRules X.Ty.CheckRulesProofs X.Ty.CheckRulesLoops X.gen.GenChecker X.Bridge.BrCheckerRules
               X.Bridge.BrCheckerFunction X.Bridge.BrChecker.
Import ListNotations.

Lemma source_check_is_model : forall c e, checker_bridge_ok c e = true -> gen_check c checker_src e = Some (Checker.check c e).
Proof. exact model_checker_is_source_rules. Qed.

Lemma source_check_inv : forall c e r, checker_bridge_ok c e = true -> gen_check c checker_src e = Some r -> Checker.check c e = r.
Proof. intros c e r B H. rewrite source_check_is_model in H by exact B. injection H as H. exact H. Qed.

(* the interpretation of the regenerated checker always finishes inside the bridge condition *)
Theorem src_check_total : forall c e, checker_bridge_ok c e = true -> exists t e' st, gen_check c checker_src e = Some (t, e', st).
Proof.
  intros c e B. rewrite source_check_is_model by exact B. destruct (Checker.check c e) as [[t e'] st]. exists t, e', st. reflexivity.
Qed.

(* ------------------------------------------------------------------ rejection: a fault at ANY position is rejected *)
Theorem src_rejects : forall c e, checker_bridge_ok c e = true -> ill_typed_top c e ->
  exists t e' l k, gen_check c checker_src e = Some (t, e', Some (l, k)).
Proof.
  intros c e B I. destruct (rejects c e I) as (l & k & H). rewrite source_check_is_model by exact B.
  destruct (Checker.check c e) as [[t e'] st]. cbn [snd] in H. subst st. exists t, e', l, k. reflexivity.
Qed.

Theorem src_first_error_location : forall c e l, checker_bridge_ok c e = true -> first_fault c [] e l ->
  exists t e' k, gen_check c checker_src e = Some (t, e', Some (l, k)) \/
                 (cc_expect c <> None /\ gen_check c checker_src e = Some (t, e', Some (noloc, CExpect))).
Proof.
  intros c e l B F. destruct (first_error_location c e l F) as (k & H). rewrite source_check_is_model by exact B.
  destruct (Checker.check c e) as [[t e'] st]. cbn [snd] in H. exists t, e', k.
  destruct H as [H|[N H]]; subst st; [left; reflexivity|right; split; [exact N|reflexivity]].
Qed.

Theorem src_first_error_location_plain : forall c e l, checker_bridge_ok c e = true -> cc_expect c = None -> first_fault c [] e l ->
  exists t e' k, gen_check c checker_src e = Some (t, e', Some (l, k)).
Proof.
  intros c e l B N F. destruct (first_error_location_plain c e l N F) as (k & H). rewrite source_check_is_model by exact B.
  destruct (Checker.check c e) as [[t e'] st]. cbn [snd] in H. subst st. exists t, e', k. reflexivity.
Qed.

(* ------------------------------------------------------------------ soundness: accepted => value of the reported type, or a non-type failure *)
Theorem src_sound_partial :
  forall (c : cconfig) (perm : TypesTable.table -> TypesTable.table),
  (forall l, Permutation (perm l) l) -> wf_tenv (cc_te c) = true ->
  forall ftab nn fe cfg env T sn, c_mapenv cfg = false -> env_ok c perm ftab nn T sn env -> fenv_ok (cc_te c) ftab nn fe ->
  forall e t e', checker_bridge_ok c e = true -> gen_check c checker_src e = Some (t, e', None) -> in_scope c nn e = true ->
  forall s, res_ok (cc_te c) ftab nn t (Sem.eval fe cfg env [] e' s).
Proof.
  intros c perm P W ftab nn fe cfg env T sn M E Fe e t e' B H S.
  exact (sound_partial c perm P W ftab nn fe cfg env T sn M E Fe e t e' (source_check_inv c e _ B H) S).
Qed.

Theorem src_cast :
  forall (c : cconfig) (perm : TypesTable.table -> TypesTable.table),
  (forall l, Permutation (perm l) l) -> wf_tenv (cc_te c) = true ->
  forall ftab nn fe cfg env T sn, c_mapenv cfg = false -> env_ok c perm ftab nn T sn env -> fenv_ok (cc_te c) ftab nn fe ->
  forall e t e' k, checker_bridge_ok c e = true -> gen_check c checker_src e = Some (t, e', None) -> in_scope c nn e = true ->
  cc_expect c = Some k -> cast_scope k t = true ->
  match run_ref fe cfg env (cast_of (Some k)) e' with
  | Done v _ => cast_post k v
  | Stop er _ _ => is_type_err er = false
  end.
Proof.
  intros c perm P W ftab nn fe cfg env T sn M E Fe e t e' k B H S.
  exact (cast_kind c perm P W ftab nn fe cfg env T sn M E Fe e t e' k (source_check_inv c e _ B H) S).
Qed.

(* ------------------------------------------------------------------ the full soundness statement over the regenerated checker: false *)
Definition src_sound_full_statement : Prop :=
  forall (c : cconfig) (perm : TypesTable.table -> TypesTable.table),
  (forall l, Permutation (perm l) l) -> wf_tenv (cc_te c) = true ->
  forall ftab nn fe cfg env T sn, c_mapenv cfg = false -> env_ok c perm ftab nn T sn env -> fenv_ok (cc_te c) ftab nn fe ->
  forall e t e', checker_bridge_ok c e = true -> gen_check c checker_src e = Some (t, e', None) ->
  forall s, res_ok (cc_te c) ftab nn t (Sem.eval fe cfg env [] e' s).

Lemma src_refute_at : forall e, checker_bridge_ok SWit.c e = true -> SWit.unsound_at e -> ~ src_sound_full_statement.
Proof.
  intros e B (t & e' & Hc & Hn) F. apply Hn.
  refine (F SWit.c perm_id SWit.perm_ok SWit.te_wf SWit.ftab false SWit.fe SWit.cfg SWit.env (TStruct "Env") "Env"%string eq_refl
            (SWit.env_is_ok None) (SWit.fe_ok false) e t e' B _ rs0).
  rewrite source_check_is_model by exact B. rewrite Hc. reflexivity.
Qed.

(* every witness of the eleven recorded soundness findings is inside the bridge condition and outside in_scope *)
Definition finding_witness (e : expr) : Prop :=
  checker_bridge_ok SWit.c e = true /\ in_scope SWit.c false e = false /\ ~ src_sound_full_statement.

Ltac witness L := split; [vm_compute; reflexivity|]; split; [exact (proj1 L)|]; eapply src_refute_at; [|exact (proj2 L)]; vm_compute; reflexivity.

Theorem src_sound_full_statement_refuted :
  finding_witness SWit.w_literal_retype /\ finding_witness SWit.w_named_int /\ finding_witness SWit.w_nilsafe_on_slice /\
  finding_witness SWit.w_cond_branch /\ finding_witness SWit.w_index_key /\ finding_witness SWit.w_slice_of_map /\
  finding_witness SWit.w_builtin_elem /\ finding_witness SWit.w_pointer_operand /\ finding_witness SWit.w_map_key /\
  finding_witness SWit.w_nil_argument /\ finding_witness SWit.w_nil_struct_pointer.
Proof.
  split; [witness SWit.refuted_literal_retype|]. split; [witness SWit.refuted_named_int|].
  split; [witness SWit.refuted_nilsafe_on_slice|]. split; [witness SWit.refuted_cond_branch|].
  split; [witness SWit.refuted_index_key|]. split; [witness SWit.refuted_slice_of_map|].
  split; [witness SWit.refuted_builtin_elem|]. split; [witness SWit.refuted_pointer_operand|].
  split; [witness SWit.refuted_map_key|]. split; [witness SWit.refuted_nil_argument|].
  witness SWit.refuted_nil_struct_pointer.
Qed.

(* ------------------------------------------------------------------ non-vacuity: all hypotheses at once *)
(* I + 2 * F > 1.0 ? count(AI, {# > I}) : len(S) in the universe SWit: inside the bridge condition, in scope, accepted by
   the regenerated checker with type int, and the re-annotated tree evaluates to 2 *)
Example src_sound_hypotheses_hold :
  (forall l, Permutation (perm_id l) l) /\ wf_tenv (cc_te SWit.c) = true /\ c_mapenv SWit.cfg = false /\
  env_ok SWit.c perm_id SWit.ftab false (TStruct "Env") "Env"%string SWit.env /\ fenv_ok (cc_te SWit.c) SWit.ftab false SWit.fe /\
  checker_bridge_ok SWit.c SWit.ex_mixed = true /\ in_scope SWit.c false SWit.ex_mixed = true /\
  exists e', gen_check SWit.c checker_src SWit.ex_mixed = Some (TNum KInt, e', None) /\
             exists s, Sem.eval SWit.fe SWit.cfg SWit.env [] e' rs0 = Done (vint 2) s.
Proof.
  split; [exact SWit.perm_ok|]. split; [exact SWit.te_wf|]. split; [reflexivity|]. split; [exact (SWit.env_is_ok None)|].
  split; [exact (SWit.fe_ok false)|].
  assert (B : checker_bridge_ok SWit.c SWit.ex_mixed = true) by (vm_compute; reflexivity).
  split; [exact B|]. destruct SWit.ex_mixed_ok as (S & T & N & s & E). split; [exact S|].
  exists (snd (fst (check SWit.c SWit.ex_mixed))). split; [|exists s; exact E].
  rewrite source_check_is_model by exact B. destruct (check SWit.c SWit.ex_mixed) as [[t e'] st].
  cbn [fst snd] in *. subst. reflexivity.
Qed.

Example src_sound_applied : exists e', gen_check SWit.c checker_src SWit.ex_mixed = Some (TNum KInt, e', None) /\
  forall s, res_ok (cc_te SWit.c) SWit.ftab false (TNum KInt) (Sem.eval SWit.fe SWit.cfg SWit.env [] e' s).
Proof.
  destruct src_sound_hypotheses_hold as (P & W & M & E & Fe & B & S & e' & H & _). exists e'. split; [exact H|].
  exact (src_sound_partial SWit.c perm_id P W SWit.ftab false SWit.fe SWit.cfg SWit.env (TStruct "Env") "Env"%string M E Fe
           SWit.ex_mixed (TNum KInt) e' B H S).
Qed.

(* rejection / location: I + S * 2 (fault at the inner node) and count(AI, {Inc(#, 1) > 0}) (fault inside a closure) *)
Example src_first_error_location_nonvacuous :
  checker_bridge_ok SWit.c LWit.e_inner = true /\ first_fault SWit.c [] LWit.e_inner (1%Z, 6%Z) /\
  (exists t e', gen_check SWit.c checker_src LWit.e_inner = Some (t, e', Some ((1%Z, 6%Z), CMismatch2))) /\
  checker_bridge_ok SWit.c LWit.e_closure = true /\ first_fault SWit.c [] LWit.e_closure (1%Z, 11%Z) /\
  (exists t e', gen_check SWit.c checker_src LWit.e_closure = Some (t, e', Some ((1%Z, 11%Z), CTooMany))).
Proof.
  assert (B1 : checker_bridge_ok SWit.c LWit.e_inner = true) by (vm_compute; reflexivity).
  assert (B2 : checker_bridge_ok SWit.c LWit.e_closure = true) by (vm_compute; reflexivity).
  split; [exact B1|]. split; [exact LWit.e_inner_fault|]. split.
  { rewrite source_check_is_model by exact B1. pose proof LWit.e_inner_reported as R.
    destruct (check SWit.c LWit.e_inner) as [[t e'] st]. cbn [snd] in R. subst st. exists t, e'. reflexivity. }
  split; [exact B2|]. split; [exact LWit.e_closure_fault|].
  rewrite source_check_is_model by exact B2. pose proof LWit.e_closure_reported as R.
  destruct (check SWit.c LWit.e_closure) as [[t e'] st]. cbn [snd] in R. subst st. exists t, e'. reflexivity.
Qed.

(* Bridge/BrCapstoneC17.v — C17 / C10 capstones: the theorems of Ops/OverloadProofs.v (about the hand model
   Ops/Overload.v) composed with the regeneration bridges of Bridge/BrTables.v (compiler/patcher.go `Exit`,
   conf `Config.Check`, operators_table.go, regenerated into gen/GenTables.v) and with the walk table regenerated
   from ast/visitor.go (gen/GenWalk.v `gen_walked`, C10).
     source_exit F x          what the interpretation of the REGENERATED operatorPatcher.Exit leaves in *node (x itself on a panic)
     source_patch_ops F n e   compiler.PatchOperators: the walker of Walk/Walk.v over the REGENERATED slot table gen_walked
                              with the REGENERATED Exit as visitor (state: has Exit panicked)
     source_config_accepts    the interpretation of the REGENERATED Config.Check returns no error
   The statements mention only these, the reference definitions (map_tree, subterm_at, explicit_form, ref_resolve,
   eval_overloaded) and Sem.eval.  Hypotheses: table_sigs_ok (decidable side condition of the bridge), fuel bounds. *)
From Coq Require Import ZArith Bool List String Arith Lia.
Require Import X.Ty.Types X.Ty.TypesTable.
Require Import X.Base.Num X.Base.Value X.Syn.Ast X.Sem.Prim X.Sem.Sem X.Walk.Walk X.Walk.WalkProofs
               X.gen.GenWalk X.Bridge.BrC10 X.Ops.Overload X.Ops.OverloadProofs.
Require Import X.Ty.TableRules X.Ops.OverloadRules X.gen.GenTables X.Bridge.BrTables.
Import ListNotations.
Local Open Scope nat_scope.

(* ------------------------------------------------------------------ extensionality of the walker (no axiom: pointwise) *)
Lemma walk_list_ext {St} (r1 r2 : St -> expr -> wres St) : (forall s e, r1 s e = r2 s e) ->
  forall l s, walk_list r1 s l = walk_list r2 s l.
Proof.
  intros H. induction l as [|c r IH]; intros s; cbn [walk_list]; [reflexivity|].
  rewrite H. destruct (r2 s c); [rewrite IH; reflexivity|reflexivity|reflexivity].
Qed.

Lemma walk_slots_ext {St} (r1 r2 : St -> expr -> wres St) : (forall s e, r1 s e = r2 s e) ->
  forall sl s e, walk_slots r1 sl s e = walk_slots r2 sl s e.
Proof.
  intros H. induction sl as [|[f m] rest IH]; intros s e; cbn [walk_slots]; [reflexivity|].
  rewrite (walk_list_ext r1 r2 H). destruct (mode_panics m (slot_get e f)); [reflexivity|].
  destruct (walk_list r2 s (slot_get e f)); [apply IH|reflexivity|reflexivity].
Qed.

Lemma walk_ext {St} (tbl : table) (v1 v2 : visitor St) :
  (forall s e, v_enter v1 s e = v_enter v2 s e) -> (forall s e, v_exit v1 s e = v_exit v2 s e) ->
  forall n s e, walk n tbl v1 s e = walk n tbl v2 s e.
Proof.
  intros He Hx. induction n as [|n IH]; intros s e; cbn [walk]; [reflexivity|].
  rewrite He. rewrite (walk_slots_ext (walk n tbl v1) (walk n tbl v2) IH).
  destruct (walk_slots (walk n tbl v2) (tbl (nkind_of (snd (v_enter v2 s e)))) (fst (v_enter v2 s e)) (snd (v_enter v2 s e)));
    [rewrite Hx; reflexivity|reflexivity|reflexivity].
Qed.

Lemma map_tree_ext f g : (forall x, f x = g x) -> forall e, map_tree f e = map_tree g e.
Proof.
  intros H e. induction e as [e IH] using expr_children_ind. rewrite (map_tree_eq f), (map_tree_eq g), H.
  rewrite (map_ext_in' (map_tree f) (map_tree g) (children e)) by exact IH. reflexivity.
Qed.

(* ------------------------------------------------------------------ the regenerated patcher *)
Section Src.
Variable implements : ty -> ty -> bool.
Variable types : ttable.
Variable ops : optable.
Variable tyof : loc -> ty.

Definition source_exit (F : nat) (x : expr) : expr :=
  match gen_exit GenTables.funcs implements types ops tyof F x with Some (XDone x') => x' | _ => x end.

Definition source_exit_visitor (F : nat) : xvisitor bool :=
  mkX (fun s _ => s)
      (fun s x => match gen_exit GenTables.funcs implements types ops tyof F x with
                  | Some (XDone x') => (s, x')
                  | _ => (true, x)
                  end).

Definition source_patch_ops (F n : nat) (e : expr) : pres :=
  match ops with
  | [] => PDone e
  | _ :: _ =>
      match walk n gen_walked (to_visitor (source_exit_visitor F)) false e with
      | WDone false e' => PDone e'
      | WDone true _ => PPanic
      | WPanic => PPanic
      | WOutOfFuel => PFuel
      end
  end.

Definition source_config_accepts (cfns : list (string * rkind)) (err : option nat) (F : nat) : Prop :=
  gen_config_check GenTables.funcs types ops cfns err F = Got None.

Hypothesis sigs : table_sigs_ok types = true.

Lemma rewrite_one_panics : forall x, panics_at implements types ops tyof x = true -> rewrite_one implements types ops tyof x = x.
Proof.
  intros x H. destruct x; cbn [panics_at rewrite_one] in *; try reflexivity.
  match goal with |- context[overload_at ?a ?b ?c ?d ?o ?l ?r] => destruct (overload_at a b c d o l r) end;
    try discriminate H; reflexivity.
Qed.

Lemma source_exit_is_model : forall F x, 2 <= F -> panics_at implements types ops tyof x = false ->
  source_exit F x = rewrite_one implements types ops tyof x.
Proof.
  intros F x HF P. unfold source_exit. rewrite (exit_bridge implements types ops tyof x F sigs HF).
  unfold exit_model. rewrite P. reflexivity.
Qed.

Lemma source_exit_is_model_any : forall F x, 2 <= F -> source_exit F x = rewrite_one implements types ops tyof x.
Proof.
  intros F x HF. destruct (panics_at implements types ops tyof x) eqn:P; [|apply source_exit_is_model; assumption].
  unfold source_exit. rewrite (exit_bridge implements types ops tyof x F sigs HF). unfold exit_model. rewrite P.
  symmetry. apply rewrite_one_panics. exact P.
Qed.

Lemma source_patch_ops_is_model : forall F n e, 2 <= F ->
  source_patch_ops F n e = patch_ops implements types ops tyof n e.
Proof.
  intros F n e HF. unfold source_patch_ops, patch_ops. destruct ops as [|o rest] eqn:E; [reflexivity|]. rewrite <- E.
  rewrite (walk_ext gen_walked (to_visitor (source_exit_visitor F)) (to_visitor (op_visitor implements types ops tyof)));
    [reflexivity|reflexivity|].
  intros s x. cbn [to_visitor v_exit source_exit_visitor op_visitor x_exit].
  rewrite (exit_bridge implements types ops tyof x F sigs HF). unfold exit_model.
  destruct (panics_at implements types ops tyof x) eqn:P.
  - rewrite orb_true_r, (rewrite_one_panics x P). reflexivity.
  - rewrite orb_false_r. reflexivity.
Qed.

Lemma source_config_accepts_model : forall cfns err F, 0 < F -> source_config_accepts cfns err F -> config_check types ops = true.
Proof.
  intros cfns err F HF A. destruct (config_check types ops) eqn:C; [reflexivity|].
  destruct (proj1 (config_check_gate types ops cfns err F HF) C) as [[G|G] _]; unfold source_config_accepts in A; rewrite A in G; discriminate G.
Qed.

(* ------------------------------------------------------------------ capstones *)
(* PatchOperators (regenerated Exit over the regenerated walk table) = the regenerated Exit applied at EVERY position *)
Theorem src_patch_is_map_tree : forall cfns err F, 2 <= F -> source_config_accepts cfns err F ->
  forall e n, esize e <= n -> source_patch_ops F n e = PDone (map_tree (source_exit F) e).
Proof.
  intros cfns err F HF A e n Hn. rewrite source_patch_ops_is_model by exact HF.
  rewrite (patch_is_map_tree implements types ops tyof (source_config_accepts_model cfns err F ltac:(lia) A) e n Hn).
  f_equal. apply map_tree_ext. intro x. symmetry. apply source_exit_is_model_any. exact HF.
Qed.

(* ... at every path through any child slot of any node kind, to any depth *)
Theorem src_every_position : forall F p e x, 2 <= F ->
  subterm_at p e = Some x ->
  subterm_at p (map_tree (source_exit F) e) = Some (map_tree (source_exit F) x).
Proof.
  intros F p e x HF H.
  rewrite (map_tree_ext (source_exit F) (rewrite_one implements types ops tyof) (fun y => source_exit_is_model_any F y HF) e).
  rewrite (map_tree_ext (source_exit F) (rewrite_one implements types ops tyof) (fun y => source_exit_is_model_any F y HF) x).
  apply every_position. exact H.
Qed.

(* ... = the explicit-call form of the reference *)
Theorem src_patch_is_explicit_form : forall cfns err F, 2 <= F -> source_config_accepts cfns err F ->
  forall e n, esize e <= n -> source_patch_ops F n e = PDone (explicit_form implements types ops tyof e).
Proof.
  intros cfns err F HF A e n Hn. rewrite source_patch_ops_is_model by exact HF.
  apply patch_is_explicit_form; [exact (source_config_accepts_model cfns err F ltac:(lia) A)|exact Hn].
Qed.

(* ... = the reference overloaded semantics, for every tree, environment, context and state *)
Theorem src_equiv : forall cfns err F, 2 <= F -> source_config_accepts cfns err F ->
  forall e n, esize e <= n ->
  exists t, source_patch_ops F n e = PDone t /\
    forall fe cfg env ctx s,
      Sem.eval fe cfg env ctx t s = eval_overloaded implements types ops tyof fe cfg env ctx e s.
Proof.
  intros cfns err F HF A e n Hn. rewrite source_patch_ops_is_model by exact HF.
  apply equiv; [exact (source_config_accepts_model cfns err F ltac:(lia) A)|exact Hn].
Qed.

(* the regenerated lookup (operators_table.go FindSuitableOperatorOverload) is the reference resolution *)
Theorem src_lookup_is_reference : forall F fns l r, 0 < F ->
  (forall fn, In fn fns -> Overload.check_fn types fn = Overload.FnOk) ->
  gen_find_overload GenTables.funcs implements types F fns l r =
  Some (match ref_resolve implements types fns l r with Some fn => FHit (OverloadProofs.out_of types fn) fn | None => FMiss end).
Proof.
  intros F fns l r HF H. rewrite (find_overload_bridge implements types fns l r F sigs HF).
  rewrite (find_overload_ref implements types fns l r H). reflexivity.
Qed.

(* no overloaded occurrence remains in what the regenerated patcher returns, and a second run changes nothing *)
Theorem src_patch_idempotent : forall cfns err F, 2 <= F -> source_config_accepts cfns err F ->
  forall e n t m, esize e <= n -> source_patch_ops F n e = PDone t -> esize t <= m ->
  explicit_form implements types ops tyof t = explicit_form implements types ops tyof (explicit_form implements types ops tyof e).
Proof.
  intros cfns err F HF A e n t m Hn H _. rewrite (src_patch_is_explicit_form cfns err F HF A e n Hn) in H.
  injection H as <-. reflexivity.
Qed.
End Src.

(* the regenerated Config.Check rejects a mapping that names a missing or ill-shaped function: it returns the first or
   the second fmt.Errorf of the function *)
Theorem src_config_rejects : forall types ops cfns err F op fns fn, 0 < F ->
  In (op, fns) ops -> In fn fns -> bad_target types fn ->
  gen_config_check GenTables.funcs types ops cfns err F = Got (Some 0) \/
  gen_config_check GenTables.funcs types ops cfns err F = Got (Some 1).
Proof.
  intros types ops cfns err F op fns fn HF I1 I2 B.
  exact (proj1 (proj1 (config_check_gate types ops cfns err F HF) (config_rejects types ops op fns fn I1 I2 B))).
Qed.

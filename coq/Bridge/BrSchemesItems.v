(* Bridge/BrSchemesItems.v — BC/Assemble.compile_items (the model compiler together with the ORDER of the
   makeConstant calls, which numbers the constant pool) is the interpretation of the code-generation
   schemes regenerated from compiler/compiler.go.  Same structure as Bridge/BrSchemes.v. *)
From Coq Require Import ZArith Bool List String Arith Lia.
Require Import X.Base.Num X.Base.Value X.Syn.Ast X.Sem.Prim X.Sem.Sem X.Sem.MatchesFacts X.BC.Instr X.BC.Decode X.BC.Compiler
               X.BC.Assemble X.BC.Schemes X.BC.SchemesItems X.BC.SchemesProofs X.gen.GenSchemes.
Import ListNotations.
Local Open Scope nat_scope.
Local Open Scope string_scope.
Local Open Scope list_scope.

Arguments wrap : simpl never.
Arguments fround : simpl never.
Arguments f_of_Z : simpl never.
Arguments items_node : simpl never.

(* ------------------------------------------------------------------ sizes of item lists *)
Lemma items_code_app' a b : items_code (a ++ b) = items_code a ++ items_code b.
Proof. induction a as [|[i l|c] a IH]; cbn [app items_code]; rewrite ?IH; reflexivity. Qed.

Lemma isz_app a b : isz (a ++ b) = isz a + isz b.
Proof. unfold isz. rewrite items_code_app', csize_app. reflexivity. Qed.

Lemma items_node_compilable mapenv x : compilable x = true -> items_node mapenv x = compile_items mapenv x.
Proof. destruct x; intros H; try reflexivity. discriminate H. Qed.

Section EachItems.
Variable rec : expr -> option (list aitem).
Variable mapenv : bool.

Lemma each_items_list es :
  (forall x, In x es -> rec x = Some (compile_items mapenv x)) ->
  each aitem rec es = Some (items_list mapenv es).
Proof.
  induction es as [|x es IH]; intros H; [reflexivity|].
  cbn [each items_list]. rewrite (H x (or_introl eq_refl)), IH; [reflexivity|].
  intros y Hy. apply H. right. exact Hy.
Qed.

Lemma each_items_pairs ps :
  (forall x, In x ps -> rec x = Some (items_node mapenv x) /\ match x with EPair _ _ _ => True | _ => False end) ->
  each aitem rec ps = Some (items_pairs mapenv ps).
Proof.
  induction ps as [|x ps IH]; intros H; [reflexivity|].
  destruct (H x (or_introl eq_refl)) as [Hx Px].
  cbn [each]. rewrite Hx, IH; [|intros y Hy; apply H; right; exact Hy].
  destruct x; try contradiction. unfold items_node. cbn [items_pairs]. rewrite app_assoc. reflexivity.
Qed.
End EachItems.

Ltac norm := repeat (progress (rewrite ?isz_app; cbn [app ins map]));
             unfold isz; cbn [items_code csize isize].
Ltac eqgo := lazymatch goal with
  | |- @eq nat _ _ => solve [reflexivity | norm; lia]
  | |- _ => first [progress f_equal; eqgo | reflexivity]
  end.
Ltac fin := rewrite ?app_nil_r; try reflexivity; eqgo.
Ltac go := unfold interp_items, interp; cbn.
Ltac ev := lazy -[Nat.add Nat.sub isz compile_items items_list items_pairs app each Z.of_nat Z.to_nat].

Section Step.
Variable rec : expr -> option (list aitem).
Variable mapenv : bool.
Notation comp := (compile_items mapenv).
Notation I := (interp_items schemes rec mapenv).

(* ------------------------------------------------------------------ leaves *)
Lemma istep_nil a : I (ENil a) = Some (comp (ENil a)).
Proof. reflexivity. Qed.

Lemma istep_ident a name ns : I (EIdent a name ns) = Some (comp (EIdent a name ns)).
Proof. destruct mapenv, ns; reflexivity. Qed.

Lemma istep_int a z : I (EInt a z) = Some (comp (EInt a z)).
Proof.
  destruct a as [l k]. unfold interp_items, interp.
  destruct k as [| |k| | | | | | | |]; try reflexivity.
  destruct k; reflexivity.
Qed.

Lemma istep_float a f : I (EFloat a f) = Some (comp (EFloat a f)).
Proof. reflexivity. Qed.

Lemma istep_bool a b : I (EBool a b) = Some (comp (EBool a b)).
Proof. destruct b; reflexivity. Qed.

Lemma istep_str a s : I (EStr a s) = Some (comp (EStr a s)).
Proof. reflexivity. Qed.

Lemma istep_const a v : I (EConst a v) = Some (comp (EConst a v)).
Proof. destruct v; reflexivity. Qed.

Lemma istep_pointer a : I (EPointer a) = Some (comp (EPointer a)).
Proof. reflexivity. Qed.

(* ------------------------------------------------------------------ nodes with sub-expressions *)
Lemma istep_unary a op x :
  (match op with UUnknown _ => False | _ => True end) ->
  rec x = Some (comp x) ->
  I (EUnary a op x) = Some (comp (EUnary a op x)).
Proof.
  intros Hop Hx. destruct op; try contradiction; go; rewrite Hx; cbn; fin.
Qed.

Lemma istep_binary_short_circuit a op l r :
  is_short_circuit op = true ->
  rec l = Some (comp l) -> rec r = Some (comp r) ->
  I (EBinary a op l r) = Some (comp (EBinary a op l r)).
Proof.
  intros Hop Hl Hr. destruct op; try discriminate Hop; go; rewrite Hl; cbn; rewrite Hr; cbn; fin.
Qed.

Lemma istep_binary_equal a l r :
  rec l = Some (comp l) -> rec r = Some (comp r) ->
  I (EBinary a BEq l r) = Some (comp (EBinary a BEq l r)).
Proof.
  intros Hl Hr. go. rewrite Hl. cbn. rewrite Hr. cbn.
  destruct (rkind_eqb (kind_of l) (kind_of r)) eqn:E.
  - apply rkind_eqb_eq in E. rewrite !(both_kind_same _ _ _ E).
    destruct (rkind_eqb (kind_of l) (RKNum KInt)); cbn; [fin|].
    destruct (rkind_eqb (kind_of l) RKString); cbn; fin.
  - rewrite !(both_kind_diff _ _ _ E). cbn. fin.
Qed.

(* MatchesNode: the regenerated guard (type assertion on node.Right, Regexp != nil, Regexp.String() ==
   the literal's Value) is Ast.re_const: the pre-compiled pattern is used only while the right operand
   still is the literal it was compiled from; otherwise the right operand is compiled. *)
Lemma istep_matches a re l r :
  rec l = Some (comp l) -> (re_const re r = None -> rec r = Some (comp r)) ->
  I (EMatches a re l r) = Some (comp (EMatches a re l r)).
Proof.
  intros Hl Hr. destruct (re_const re r) as [p|] eqn:Erc.
  - (* the right operand still is the literal the Regexp field was compiled from *)
    apply re_const_some in Erc. destruct Erc as [-> [b ->]].
    go. rewrite String.eqb_refl. cbn. rewrite Hl. cbn. fin.
  - (* no field, another literal, or not a literal: the right operand is compiled *)
    specialize (Hr eq_refl).
    destruct re as [p|], r; cbn [re_const] in Erc;
      try (destruct (String.eqb p s) eqn:E; [discriminate Erc|]);
      go; rewrite ?E; cbn; rewrite Hl; cbn; rewrite Hr; cbn; fin.
Qed.

Lemma istep_property a x name ns :
  rec x = Some (comp x) -> I (EProperty a x name ns) = Some (comp (EProperty a x name ns)).
Proof. intros Hx. destruct ns; go; rewrite Hx; cbn; fin. Qed.

Lemma istep_index a x i :
  rec x = Some (comp x) -> rec i = Some (comp i) -> I (EIndex a x i) = Some (comp (EIndex a x i)).
Proof. intros Hx Hi. go. rewrite Hx. cbn. rewrite Hi. cbn. fin. Qed.

Lemma istep_slice a x from to :
  rec x = Some (comp x) ->
  (forall f, from = Some f -> rec f = Some (comp f)) ->
  (forall t, to = Some t -> rec t = Some (comp t)) ->
  I (ESlice a x from to) = Some (comp (ESlice a x from to)).
Proof.
  intros Hx Hf Ht.
  destruct from as [f|], to as [t|]; go; rewrite Hx; cbn;
    rewrite ?(Ht _ eq_refl); cbn; rewrite ?(Hf _ eq_refl); cbn; fin.
Qed.

Lemma istep_closure a x : rec x = Some (comp x) -> I (EClosure a x) = Some (comp (EClosure a x)).
Proof. intros Hx. go. rewrite Hx. cbn. fin. Qed.

Lemma istep_cond a c x y :
  rec c = Some (comp c) -> rec x = Some (comp x) -> rec y = Some (comp y) ->
  I (ECond a c x y) = Some (comp (ECond a c x y)).
Proof. intros Hc Hx Hy. go. rewrite Hc. cbn. rewrite Hx. cbn. rewrite Hy. cbn. fin. Qed.

Lemma istep_pair a k v :
  rec k = Some (comp k) -> rec v = Some (comp v) ->
  I (EPair a k v) = Some (items_node mapenv (EPair a k v)).
Proof. intros Hk Hv. go. rewrite Hk. cbn. rewrite Hv. cbn. unfold items_node. fin. Qed.

(* ------------------------------------------------------------------ []Node fields *)
Lemma items_method_unfold a x name args ns :
  comp (EMethod a x name args ns) =
  comp x ++ items_list mapenv args ++
  ins (aloc a) [if ns then IMethodNilSafe name (List.length args) else IMethod name (List.length args)].
Proof. reflexivity. Qed.

Lemma items_function_unfold a name args fast :
  comp (EFunction a name args fast) =
  items_list mapenv args ++ ins (aloc a) [if fast then ICallFast name (List.length args) else ICall name (List.length args)].
Proof. reflexivity. Qed.

Lemma items_array_unfold a es :
  comp (EArray a es) = items_list mapenv es ++ ins (aloc a) [IPush (vint (Z.of_nat (List.length es))); IArray].
Proof. reflexivity. Qed.

Lemma items_map_unfold a pairs :
  comp (EMap a pairs) = items_pairs mapenv pairs ++ ins (aloc a) [IPush (vint (Z.of_nat (List.length pairs))); IMap].
Proof. reflexivity. Qed.

Lemma istep_method a x name args ns :
  rec x = Some (comp x) -> (forall y, In y args -> rec y = Some (comp y)) ->
  I (EMethod a x name args ns) = Some (comp (EMethod a x name args ns)).
Proof.
  intros Hx Hargs. rewrite items_method_unfold.
  destruct ns; go; rewrite Hx; cbn; rewrite (each_items_list rec mapenv args Hargs); cbn; rewrite Nat2Z.id; fin.
Qed.

Lemma istep_function a name args fast :
  (forall y, In y args -> rec y = Some (comp y)) ->
  I (EFunction a name args fast) = Some (comp (EFunction a name args fast)).
Proof.
  intros Hargs. rewrite items_function_unfold.
  destruct fast; go; rewrite (each_items_list rec mapenv args Hargs); cbn; rewrite Nat2Z.id; fin.
Qed.

Lemma istep_array a es :
  (forall y, In y es -> rec y = Some (comp y)) ->
  I (EArray a es) = Some (comp (EArray a es)).
Proof.
  intros Hes. rewrite items_array_unfold. go. rewrite (each_items_list rec mapenv es Hes). cbn. fin.
Qed.

Lemma istep_map a ps :
  (forall y, In y ps -> rec y = Some (items_node mapenv y) /\ match y with EPair _ _ _ => True | _ => False end) ->
  I (EMap a ps) = Some (comp (EMap a ps)).
Proof.
  intros Hps. rewrite items_map_unfold. go. rewrite (each_items_pairs rec mapenv ps Hps). cbn. fin.
Qed.

Lemma istep_builtin_len a x :
  rec x = Some (comp x) -> I (EBuiltin a BiLen [x]) = Some (comp (EBuiltin a BiLen [x])).
Proof. intros Hx. go. rewrite Hx. cbn. fin. Qed.

End Step.

(* ------------------------------------------------------------------ evaluated with a function for the nested calls *)
Ltac builtin_tac :=
  let Hx := fresh "Hx" in let Hc := fresh "Hc" in
  intros Hx Hc; unfold interp_items, interp;
  lazymatch goal with |- context [EBuiltin ?a _ _] => destruct a as [la ka] end;
  ev; rewrite Hx, Hc;
  cbn [compile_items app ins map loc_of ann_of aloc loop_items cond_items]; rewrite <- ?app_assoc; cbn [app]; eqgo.

Section Builtins.
Variable f : expr -> list aitem.
Variable mapenv : bool.
Notation comp := (compile_items mapenv).
Notation I := (interp_items schemes (fun y => Some (f y)) mapenv).

Lemma istep_builtin_all a x c : f x = comp x -> f c = comp c -> I (EBuiltin a BiAll [x; c]) = Some (comp (EBuiltin a BiAll [x; c])).
Proof. builtin_tac. Qed.
Lemma istep_builtin_none a x c : f x = comp x -> f c = comp c -> I (EBuiltin a BiNone [x; c]) = Some (comp (EBuiltin a BiNone [x; c])).
Proof. builtin_tac. Qed.
Lemma istep_builtin_any a x c : f x = comp x -> f c = comp c -> I (EBuiltin a BiAny [x; c]) = Some (comp (EBuiltin a BiAny [x; c])).
Proof. builtin_tac. Qed.
Lemma istep_builtin_one a x c : f x = comp x -> f c = comp c -> I (EBuiltin a BiOne [x; c]) = Some (comp (EBuiltin a BiOne [x; c])).
Proof. builtin_tac. Qed.
Lemma istep_builtin_filter a x c : f x = comp x -> f c = comp c -> I (EBuiltin a BiFilter [x; c]) = Some (comp (EBuiltin a BiFilter [x; c])).
Proof. builtin_tac. Qed.
Lemma istep_builtin_map a x c : f x = comp x -> f c = comp c -> I (EBuiltin a BiMap [x; c]) = Some (comp (EBuiltin a BiMap [x; c])).
Proof. builtin_tac. Qed.
Lemma istep_builtin_count a x c : f x = comp x -> f c = comp c -> I (EBuiltin a BiCount [x; c]) = Some (comp (EBuiltin a BiCount [x; c])).
Proof. builtin_tac. Qed.
End Builtins.

Lemma istep_binary_plain (f : expr -> list aitem) mapenv a op l r :
  (match op with BUnknown _ | BEq => False | _ => is_short_circuit op = false end) ->
  f l = compile_items mapenv l -> f r = compile_items mapenv r ->
  interp_items schemes (fun y => Some (f y)) mapenv (EBinary a op l r) = Some (compile_items mapenv (EBinary a op l r)).
Proof.
  intros Hop Hl Hr. unfold interp_items, interp. destruct a as [la ka].
  destruct op; try contradiction; try discriminate Hop; ev; rewrite Hl, Hr;
    cbn [compile_items app ins map loc_of ann_of aloc binop_code]; eqgo.
Qed.

Lemma istep_binary (f : expr -> list aitem) mapenv a op l r :
  (match op with BUnknown _ => False | _ => True end) ->
  f l = compile_items mapenv l -> f r = compile_items mapenv r ->
  interp_items schemes (fun y => Some (f y)) mapenv (EBinary a op l r) = Some (compile_items mapenv (EBinary a op l r)).
Proof.
  intros Hop Hl Hr.
  destruct (is_short_circuit op) eqn:Es.
  { apply istep_binary_short_circuit; [exact Es|rewrite Hl; reflexivity|rewrite Hr; reflexivity]. }
  destruct op; try contradiction; try discriminate Es.
  all: lazymatch goal with
       | |- context [BEq] => apply istep_binary_equal; [rewrite Hl; reflexivity|rewrite Hr; reflexivity]
       | |- _ => apply istep_binary_plain; [reflexivity|exact Hl|exact Hr]
       end.
Qed.

(* ------------------------------------------------------------------ one unfolding step, every node kind *)
Lemma some_in mapenv x : compilable x = true -> Some (items_node mapenv x) = Some (compile_items mapenv x).
Proof. intros H. rewrite (items_node_compilable mapenv x H). reflexivity. Qed.

Ltac split_andb :=
  repeat match goal with
         | H : _ && _ = true |- _ => apply andb_prop in H; destruct H
         end.

Theorem schemes_step_items rec mapenv e :
  node_compilable e = true ->
  (forall y, In y (children e) -> rec y = Some (items_node mapenv y)) ->
  interp_items schemes rec mapenv e = Some (items_node mapenv e).
Proof.
  intros Hc Hrec. unfold interp_items.
  rewrite (interp_ext _ _ _ _ schemes rec (fun y => Some (items_node mapenv y)) mapenv e Hrec).
  clear Hrec rec. fold (interp_items schemes (fun y => Some (items_node mapenv y)) mapenv).
  destruct e; cbn [node_compilable compilable] in Hc; unfold items_node at 2.
  - apply istep_nil.
  - apply istep_ident.
  - apply istep_int.
  - apply istep_float.
  - apply istep_bool.
  - apply istep_str.
  - apply istep_const.
  - (* unary *) apply istep_unary; [destruct op; try exact I; discriminate Hc|apply some_in; destruct op; try exact Hc; discriminate Hc].
  - (* binary *)
    assert (Hlr : compilable e1 = true /\ compilable e2 = true)
      by (destruct op; try discriminate Hc; apply andb_prop in Hc; exact Hc).
    destruct Hlr as [H1 H2].
    apply (istep_binary (items_node mapenv) mapenv); [destruct op; try exact I; discriminate Hc|apply items_node_compilable; exact H1|apply items_node_compilable; exact H2].
  - (* matches *) split_andb. apply istep_matches; [apply some_in; assumption|intros _; apply some_in; assumption].
  - (* property *) apply istep_property. apply some_in. exact Hc.
  - (* index *) split_andb. apply istep_index; apply some_in; assumption.
  - (* slice *)
    split_andb. apply istep_slice; [apply some_in; assumption| |].
    + intros f E. subst. apply some_in. assumption.
    + intros t E. subst. apply some_in. assumption.
  - (* method *)
    split_andb. apply istep_method; [apply some_in; assumption|].
    intros y Hy. apply some_in. eapply all_compilable; eauto.
  - (* function *) apply istep_function. intros y Hy. apply some_in. eapply all_compilable; eauto.
  - (* builtin *)
    destruct b; destruct args as [|x [|c [|z more]]]; try discriminate Hc; split_andb.
    + apply istep_builtin_len. apply some_in. assumption.
    + apply (istep_builtin_all (items_node mapenv) mapenv a x c); apply items_node_compilable; assumption.
    + apply (istep_builtin_none (items_node mapenv) mapenv a x c); apply items_node_compilable; assumption.
    + apply (istep_builtin_any (items_node mapenv) mapenv a x c); apply items_node_compilable; assumption.
    + apply (istep_builtin_one (items_node mapenv) mapenv a x c); apply items_node_compilable; assumption.
    + apply (istep_builtin_filter (items_node mapenv) mapenv a x c); apply items_node_compilable; assumption.
    + apply (istep_builtin_map (items_node mapenv) mapenv a x c); apply items_node_compilable; assumption.
    + apply (istep_builtin_count (items_node mapenv) mapenv a x c); apply items_node_compilable; assumption.
  - (* closure *) apply istep_closure. apply some_in. exact Hc.
  - apply istep_pointer.
  - (* conditional *) split_andb. apply istep_cond; apply some_in; assumption.
  - (* array *) apply istep_array. intros y Hy. apply some_in. eapply all_compilable; eauto.
  - (* map *)
    apply istep_map. intros y Hy. split; [reflexivity|].
    exact (proj2 (all_pairs_compilable _ Hc y Hy)).
  - (* pair *) split_andb. apply istep_pair; apply some_in; assumption.
Qed.

(* ------------------------------------------------------------------ Compile: the tree, then the cast *)
Theorem schemes_program_items rec mapenv c e :
  rec e = Some (compile_items mapenv e) ->
  interp_program_items schemes rec mapenv c e = Some (compile_items_program mapenv c e).
Proof.
  intros H. unfold interp_program_items.
  rewrite (interp_program_ext _ _ _ _ schemes rec (fun y => Some (compile_items mapenv y)) mapenv c e H).
  unfold interp_program, compile_items_program.
  destruct c; ev; rewrite ?app_nil_r; reflexivity.
Qed.

(* ------------------------------------------------------------------ by induction on the tree *)
Theorem gen_items_is_items_node : forall d mapenv e,
  esize e <= d -> node_compilable e = true ->
  gen_items schemes d mapenv e = Some (items_node mapenv e).
Proof.
  induction d as [|d IH]; intros mapenv e Hsz Hc.
  - pose proof (esize_positive e). lia.
  - cbn [gen_items]. apply schemes_step_items; [exact Hc|].
    intros y Hy. apply IH.
    + pose proof (children_smaller e y Hy). lia.
    + eapply children_compilable; eauto.
Qed.

Theorem gen_items_is_compile_items d mapenv e :
  esize e <= d -> compilable e = true -> gen_items schemes d mapenv e = Some (compile_items mapenv e).
Proof.
  intros Hsz Hc. rewrite <- (items_node_compilable mapenv e Hc).
  apply gen_items_is_items_node; [exact Hsz|apply node_compilable_of; exact Hc].
Qed.

Theorem gen_items_program_is_compile_items_program d mapenv c e :
  esize e <= d -> compilable e = true ->
  gen_items_program schemes d mapenv c e = Some (compile_items_program mapenv c e).
Proof.
  intros Hsz Hc. unfold gen_items_program. apply schemes_program_items. apply gen_items_is_compile_items; assumption.
Qed.

(* ------------------------------------------------------------------ opcode names: interpreter vs assembler *)
(* The instruction the scheme interpreter makes for an opcode NAME of the source is the instruction
   BC/Assemble.v encodes under that name (iname, looked up in the regenerated vm/opcodes.go table) with
   that operand (ioperand). *)
Ltac by_name n H :=
  repeat match type of H with
         | (if String.eqb n ?s then _ else _) = _ =>
             let E := fresh "E" in
             destruct (String.eqb n s) eqn:E;
             [apply String.eqb_eq in E; subst n; injection H as <-; split; reflexivity|]
         end;
  try discriminate H.

Lemma simple_instr_assembles n i : simple_instr n = Some i -> iname i = n /\ ioperand i = NoArg.
Proof. unfold simple_instr. intros H. by_name n H. Qed.

Lemma jump_instr_assembles n off i : jump_instr n off = Some i -> iname i = n /\ ioperand i = JumpArg (Z.of_nat off).
Proof. unfold jump_instr. intros H. by_name n H. Qed.

Lemma const_instr_assembles n c i :
  const_instr n c = Some i ->
  match c with CCall _ sz => (0 <= sz)%Z | _ => True end ->
  iname i = n /\ ioperand i = ConstArg c.
Proof.
  unfold const_instr. destruct c as [v|name sz|p]; intros H Hsz.
  - destruct (String.eqb n "OpPush") eqn:E0.
    { apply String.eqb_eq in E0. subst n. injection H as <-. split; reflexivity. }
    destruct v; try discriminate H. by_name n H.
  - assert (Hz : Z.of_nat (Z.to_nat sz) = sz) by (apply Z2Nat.id; exact Hsz).
    repeat match type of H with
           | (if String.eqb n ?s then _ else _) = _ =>
               let E := fresh "E" in
               destruct (String.eqb n s) eqn:E;
               [apply String.eqb_eq in E; subst n; injection H as <-; split;
                [reflexivity|cbn [ioperand]; unfold call_const; rewrite Hz; reflexivity]|]
           end.
    discriminate H.
  - by_name n H.
Qed.

(* ------------------------------------------------------------------ down to the bytes *)
(* compiler.Compile at byte level (BC/Assemble.compile_bytes) is the assembler applied to the items the
   regenerated schemes produce *)
Theorem compile_bytes_from_schemes mapenv c e :
  compilable e = true ->
  compile_bytes mapenv c e =
  match gen_items_program schemes (esize e) mapenv c e with
  | Some its => assemble_items its
  | None => None
  end.
Proof.
  intros Hc. unfold compile_bytes. rewrite Hc.
  rewrite (gen_items_program_is_compile_items_program (esize e) mapenv c e (le_n _) Hc). reflexivity.
Qed.

(* Bridge/BrC11.v — obligations that tie the GENERATED binding-power tables (what parser/parser.go
   says now) to the reference tables of Parse/RefGrammar.v and discharge the side conditions of the
   round-trip theorem of Parse/ParseProofs.v for them.  All closed by vm_compute: they are exactly
   what breaks when a precedence, an associativity or a builtin arity is edited. *)
From Coq Require Import ZArith Bool List String Ascii Floats Lia.
Require Import X.Base.Num X.Base.Value X.Syn.Ast X.Syn.Tok X.Parse.Parser X.Parse.Printer X.Parse.ParseProofs
               X.Parse.RefGrammar X.gen.GenGrammar X.Corr.CorrC11.
Import ListNotations.
Open Scope Z_scope.

Definition ref_grammar : grammar := mkGrammar ref_unary ref_binary ref_builtins.

Lemma translator_recognised_grammar : grammar_unrecognised = [].
Proof. vm_compute. reflexivity. Qed.

(* the associativity field of unaryOperators is ignored by the parser; nothing may be hidden there *)
Lemma unary_associativity_unused : gen_unary_right = [].
Proof. vm_compute. reflexivity. Qed.

(* ---- equality as finite maps, for every key *)
Definition keys {A : Type} (l : list (string * A)) : list string := map fst l.

Definition opt_eqb {A : Type} (eqb : A -> A -> bool) (a b : option A) : bool :=
  match a, b with Some x, Some y => eqb x y | None, None => true | _, _ => false end.

Definition map_eqb {A : Type} (eqb : A -> A -> bool) (l1 l2 : list (string * A)) : bool :=
  forallb (fun k => opt_eqb eqb (lookup k l1) (lookup k l2)) (keys l1 ++ keys l2).

Lemma lookup_not_in {A : Type} (s : string) (l : list (string * A)) : ~ In s (keys l) -> lookup s l = None.
Proof.
  induction l as [|[k v] r IH]; cbn; [reflexivity|]. intros H.
  destruct (String.eqb s k) eqn:E.
  - apply String.eqb_eq in E. subst. exfalso. apply H. now left.
  - apply IH. intros I. apply H. now right.
Qed.

Lemma map_eqb_sound {A : Type} (eqb : A -> A -> bool) (l1 l2 : list (string * A)) :
  (forall x y, eqb x y = true -> x = y) -> map_eqb eqb l1 l2 = true ->
  forall s, lookup s l1 = lookup s l2.
Proof.
  intros S H s. unfold map_eqb in H. rewrite forallb_forall in H.
  destruct (in_dec string_dec s (keys l1 ++ keys l2)) as [I|NI].
  - specialize (H s I). destruct (lookup s l1), (lookup s l2); cbn in H; try discriminate; [|reflexivity].
    f_equal. now apply S.
  - rewrite !lookup_not_in; [reflexivity| |]; intros I; apply NI, in_or_app; [right|left]; exact I.
Qed.

Definition zb_eqb (x y : Z * bool) : bool := (fst x =? fst y) && Bool.eqb (snd x) (snd y).
Lemma zb_eqb_sound x y : zb_eqb x y = true -> x = y.
Proof.
  destruct x as [a b], y as [c d]. unfold zb_eqb. cbn. intros H. apply andb_prop in H. destruct H as [H1 H2].
  apply Z.eqb_eq in H1. apply Bool.eqb_prop in H2. congruence.
Qed.
Lemma z_eqb_sound (x y : Z) : (x =? y) = true -> x = y.
Proof. apply Z.eqb_eq. Qed.

(* THE bridge: the code's tables are the documented tables *)
Lemma gen_unary_is_ref : forall s, lookup s gen_unary = lookup s ref_unary.
Proof. apply (map_eqb_sound Z.eqb); [exact z_eqb_sound|]. vm_compute. reflexivity. Qed.

Lemma gen_binary_is_ref : forall s, lookup s gen_binary = lookup s ref_binary.
Proof. apply (map_eqb_sound zb_eqb); [exact zb_eqb_sound|]. vm_compute. reflexivity. Qed.

Lemma gen_builtins_is_ref : forall s, lookup s gen_builtins = lookup s ref_builtins.
Proof. apply (map_eqb_sound Z.eqb); [exact z_eqb_sound|]. vm_compute. reflexivity. Qed.

(* the same as plain equality of lists, after sorting the reference tables by operator (the translator
   emits its tables sorted by operator string) *)
Fixpoint insert_sorted {A : Type} (e : string * A) (l : list (string * A)) : list (string * A) :=
  match l with
  | [] => [e]
  | x :: r => if String.leb (fst e) (fst x) then e :: l else x :: insert_sorted e r
  end.
Definition canon {A : Type} (l : list (string * A)) : list (string * A) := fold_right insert_sorted [] l.
Definition canon_grammar (g : grammar) : grammar :=
  mkGrammar (canon (g_unary g)) (canon (g_binary g)) (canon (g_builtins g)).

Lemma gen_grammar_is_ref : gen_grammar = canon_grammar ref_grammar.
Proof. vm_compute. reflexivity. Qed.

(* no operator is listed twice (a duplicate key would make one entry dead) *)
Fixpoint nodupb (l : list string) : bool :=
  match l with [] => true | x :: r => negb (existsb (String.eqb x) r) && nodupb r end.
Lemma tables_have_unique_keys :
  nodupb (keys gen_unary) && nodupb (keys gen_binary) && nodupb (keys gen_builtins) &&
  nodupb (keys ref_unary) && nodupb (keys ref_binary) && nodupb (keys ref_builtins) = true.
Proof. vm_compute. reflexivity. Qed.

(* ---- side conditions of the round-trip theorem *)
Lemma gen_grammar_wf : wf_grammar gen_grammar = true.
Proof. vm_compute. reflexivity. Qed.

Lemma ref_grammar_wf : wf_grammar ref_grammar = true.
Proof. vm_compute. reflexivity. Qed.

(* every builtin takes one argument or a collection and a closure; builtin names are not keywords *)
Lemma gen_builtin_arities :
  forallb (fun e => (snd e =? 1) || (snd e =? 2)) gen_builtins = true.
Proof. vm_compute. reflexivity. Qed.

(* every operator spelling of the tables has its own constructor in Syn/Ast.v (so that the tree
   records the spelling) *)
Lemma gen_operator_spellings_known :
  forallb (fun e => match unop_of_string (fst e) with UUnknown _ => false | _ => true end) gen_unary &&
  forallb (fun e => String.eqb (fst e) "matches" ||
                    match binop_of_string (fst e) with BUnknown _ => false | _ => true end) gen_binary &&
  forallb (fun e => match builtin_of_string (fst e) with BiUnknown _ => false | _ => true end) gen_builtins = true.
Proof. vm_compute. reflexivity. Qed.

(* ---- the documented ORDER of the levels, read off the generated table (robust against a
   renumbering that keeps the order) *)
Definition bprec_gen (s : string) : Z := match lookup s gen_binary with Some x => fst x | None => -1 end.
Definition uprec_gen (s : string) : Z := match lookup s gen_unary with Some x => x | None => -1 end.
Definition class_at (p : Z) (l : list string) : bool := forallb (fun s => bprec_gen s =? p) l.

Definition documented_order_check : bool :=
  let p_or := bprec_gen "or" in let p_and := bprec_gen "and" in let p_cmp := bprec_gen "==" in
  let p_rng := bprec_gen ".." in let p_add := bprec_gen "+" in let p_mul := bprec_gen "*" in
  let p_pow := bprec_gen "**" in
  (0 <? p_or) && (p_or <? p_and) && (p_and <? p_cmp) && (p_cmp <? p_rng) && (p_rng <? p_add) &&
  (p_add <? uprec_gen "not") && (uprec_gen "not" <? p_mul) && (p_mul <? p_pow) && (p_pow <? uprec_gen "-") &&
  (uprec_gen "!" =? uprec_gen "not") && (uprec_gen "+" =? uprec_gen "-") &&
  class_at p_or ["or"; "||"] && class_at p_and ["and"; "&&"] &&
  class_at p_cmp ["=="; "!="; "<"; ">"; "<="; ">="; "in"; "not in"; "matches"; "contains"; "startsWith"; "endsWith"] &&
  class_at p_rng [".."] && class_at p_add ["+"; "-"] && class_at p_mul ["*"; "/"; "%"] && class_at p_pow ["**"] &&
  forallb (fun e => Bool.eqb (snd (snd e)) (String.eqb (fst e) "**")) gen_binary &&
  (List.length gen_binary =? 23)%nat && (List.length gen_unary =? 4)%nat.

Lemma documented_order : documented_order_check = true.
Proof. vm_compute. reflexivity. Qed.

(* a float constant for the non-vacuity examples of Props/C11.v (which does not import Floats so that
   Print Assumptions shows qualified PrimFloat names) *)
Definition ex_float : float := 1.5%float.

(* ---- the round-trip theorem instantiated with the generated tables *)
Theorem roundtrip_gen (o : oracles) (fmt_int : Z -> string) (fmt_float : float -> string) (c : poracle) (t : expr) :
  printable gen_grammar fmt_int fmt_float o c t ->
  parse gen_grammar o (print_any gen_grammar fmt_int fmt_float c t) = ROk t.
Proof. exact (roundtrip gen_grammar o fmt_int fmt_float gen_grammar_wf c t). Qed.

Theorem roundtrip_min_gen (o : oracles) (fmt_int : Z -> string) (fmt_float : float -> string) (t : expr) :
  printable gen_grammar fmt_int fmt_float o no_extra t ->
  parse gen_grammar o (print_min gen_grammar fmt_int fmt_float t) = ROk t.
Proof. exact (roundtrip_min gen_grammar o fmt_int fmt_float gen_grammar_wf t). Qed.

Theorem redundant_parens_gen (o : oracles) (fmt_int : Z -> string) (fmt_float : float -> string) (c1 c2 : poracle) (t : expr) :
  printable gen_grammar fmt_int fmt_float o c1 t -> printable gen_grammar fmt_int fmt_float o c2 t ->
  parse gen_grammar o (print_any gen_grammar fmt_int fmt_float c1 t) =
  parse gen_grammar o (print_any gen_grammar fmt_int fmt_float c2 t).
Proof. exact (redundant_parens gen_grammar o fmt_int fmt_float gen_grammar_wf c1 c2 t). Qed.

(* any additional parentheses, except around closures, map pairs and nil-safe identifiers *)
Theorem roundtrip_any_parens_gen (o : oracles) (fmt_int : Z -> string) (fmt_float : float -> string) (c : poracle) (t : expr) :
  printable gen_grammar fmt_int fmt_float o no_extra t -> harmless c t ->
  parse gen_grammar o (print_any gen_grammar fmt_int fmt_float c t) = ROk t.
Proof. exact (roundtrip_any_parens gen_grammar o fmt_int fmt_float gen_grammar_wf c t). Qed.

(* stated with the REFERENCE tables (sorted): printing by the documented rules and parsing with the
   code's tables is the identity *)
Theorem roundtrip_ref (o : oracles) (fmt_int : Z -> string) (fmt_float : float -> string) (c : poracle) (t : expr) :
  printable (canon_grammar ref_grammar) fmt_int fmt_float o c t ->
  parse gen_grammar o (print_any (canon_grammar ref_grammar) fmt_int fmt_float c t) = ROk t.
Proof. rewrite <- gen_grammar_is_ref. apply roundtrip_gen. Qed.

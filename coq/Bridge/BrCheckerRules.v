(* Bridge/BrCheckerRules.v — first part of the bridge (the theorems are in Bridge/BrChecker.v): the type checker read from the CURRENT Go source (gen/GenChecker.v, regenerated
   by /verif/translator/gen_checker.go on every run) is the hand-written checker Ty/Checker.v.

   Part A  types.go: nothing unrecognised; the package-level types; one lemma per predicate / lookup
           (`isInteger` ... `isFuncType` interpreted from their regenerated bodies = the model's
           predicates); the two node tables; together: gen_sem_ok.
   Part B  checker.go: one lemma per method of the visitor (BinaryNode: one per operator group), for an
           arbitrary meaning M of the calls that meets sem_ok and arbitrary results of the children;
           checkFunc with its argument loop; visit_node_is_visit.
   Part C  the whole checker: gen_visit_is_visit (induction over the tree), gen_check_is_check,
           model_checker_is_source_rules. *)
From Coq Require Import ZArith Bool List String Lia.
Require Import X.Base.Num X.Base.Value X.Syn.Ast X.Sem.Prim X.Ty.Types X.Ty.TypesTable X.Ty.Checker
               X.Ty.CheckProofs X.Ty.CheckRules X.Ty.CheckRulesProofs X.gen.GenWeights X.gen.GenChecker.
Import ListNotations.
Local Open Scope string_scope.
Local Open Scope list_scope.

(* ================================================================== Part A: types.go *)
Lemma genchecker_recognised : recognised checker_src = true /\ genchecker_unrecognised = [].
Proof. split; vm_compute; reflexivity. Qed.

(* boolType ... interfaceType are the types the model calls TBool ... TIface *)
Lemma type_consts_bridge : forall n, Types.assoc n type_consts = model_tyconst n.
Proof. intros n. reflexivity. Qed.

(* dereference has the shape the model's `dereference` describes (all pointer layers, nil kept) *)
Lemma deref_bridge : cs_deref checker_src = DerefStripPointers.
Proof. reflexivity. Qed.

Section Helpers.
Variable c : cconfig.
Notation G := (gen_call c checker_src call_depth).

(* a predicate of types.go: evaluate the regenerated body with `dereference t` kept abstract, then
   decide by the kind of the dereferenced type *)
Ltac pred_tac t :=
  cbv -[dereference kind_of_ty];
  destruct (dereference t) as [| |k| | |e|k0 e|n|e|ins v outs|n u|n];
  cbn [kind_of_ty]; try (destruct (kind_of_ty u) as [| |k| | | | | | | |]); try (destruct k); reflexivity.

Lemma isInterface_bridge t : G "isInterface" [VT t] = Some (VB (is_interface t)).
Proof. pred_tac t. Qed.
Lemma isInteger_bridge t : G "isInteger" [VT t] = Some (VB (is_integer t)).
Proof. pred_tac t. Qed.
Lemma isFloat_bridge t : G "isFloat" [VT t] = Some (VB (is_floatt t)).
Proof. pred_tac t. Qed.
Lemma isNumber_bridge t : G "isNumber" [VT t] = Some (VB (is_number t)).
Proof. pred_tac t. Qed.
Lemma isBool_bridge t : G "isBool" [VT t] = Some (VB (is_bool t)).
Proof. pred_tac t. Qed.
Lemma isString_bridge t : G "isString" [VT t] = Some (VB (is_string t)).
Proof. pred_tac t. Qed.
Lemma isArray_bridge t : G "isArray" [VT t] = Some (VB (is_array t)).
Proof. pred_tac t. Qed.
Lemma isMap_bridge t : G "isMap" [VT t] = Some (VB (is_map t)).
Proof. pred_tac t. Qed.
Lemma isStruct_bridge t : G "isStruct" [VT t] = Some (VB (is_struct t)).
Proof. pred_tac t. Qed.

(* isFunc does not dereference (fix 02e656c) *)
Lemma isFunc_bridge t : G "isFunc" [VT t] = Some (VB (is_func_nd t)).
Proof.
  cbv -[kind_of_ty]. destruct t as [| |k| | |e|k0 e|n|e|ins v outs|n u|n];
    cbn [kind_of_ty]; try (destruct (kind_of_ty u) as [| |k| | | | | | | |]); reflexivity.
Qed.

Lemma isComparable_bridge l r : G "isComparable" [VT l; VT r] = Some (VB (is_comparable l r)).
Proof.
  cbv -[dereference kind_of_ty]. rewrite !deref_idem.
  destruct (dereference l) as [| |k| | |e|k0 e|n|e|ins v outs|n u|n];
    destruct (dereference r) as [| |k'| | |e'|k0' e'|n'|e'|ins' v' outs'|n' u'|n'];
    cbn [kind_of_ty];
    try (destruct (kind_of_ty u) as [| |k| | | | | | | |]);
    try (destruct (kind_of_ty u') as [| |k'| | | | | | | |]);
    first [reflexivity | destruct k, k'; reflexivity].
Qed.

Lemma indexType_bridge t : G "indexType" [VT t] = Some (opt_pair (index_type t)).
Proof.
  cbv -[dereference kind_of_ty under].
  destruct (dereference t) as [| |k| | |e|k0 e|n|e|ins v outs|n u|n]; cbn [kind_of_ty under]; try reflexivity.
  rewrite <- (kind_under u).
  destruct (under u) as [| |k| | |e|k0 e|n'|e|ins v outs|n' u'|n'] eqn:U; cbn [kind_of_ty]; try reflexivity.
  exfalso. exact (under_not_named _ _ _ U).
Qed.

Lemma isFuncType_bridge t : G "isFuncType" [VT t] = Some (opt_pair (is_func_type_nd t)).
Proof.
  cbv -[dereference kind_of_ty].
  destruct (dereference t) as [| |k| | |e|k0 e|n|e|ins v outs|n u|n];
    cbn [kind_of_ty]; try (destruct (kind_of_ty u) as [| |k| | | | | | | |]); reflexivity.
Qed.
End Helpers.

(* Ty/Checker.v still has the isFunc of before fix 02e656c (with dereference); nothing uses it *)
Lemma model_is_func_is_stale :
  exists t, gen_call (mkCC [] None [] None false None) checker_src call_depth "isFunc" [VT t] <> Some (VB (is_func t)).
Proof. exists (TPtr (TFunc [] false [])). vm_compute. discriminate. Qed.

(* isIntegerOrArithmeticOperation / setTypeForIntegers *)
Lemma is_arith_bridge e : gen_is_arith arith_table e = is_arith e.
Proof. destruct e; try reflexivity; destruct op; reflexivity. Qed.

Lemma set_ints_bridge t : forall e, gen_set_ints set_ints_table e t = set_ints e t.
Proof.
  induction e; try reflexivity.
  - destruct op; try reflexivity; cbn; rewrite IHe; reflexivity.
  - destruct op; try reflexivity; cbn; rewrite IHe1, IHe2; reflexivity.
Qed.

(* the meaning of the calls, read from the source, is the model's *)
Theorem gen_sem_ok c : sem_ok c (gen_sem c checker_src).
Proof.
  constructor.
  - exact type_consts_bridge.
  - apply isInterface_bridge.
  - apply isInteger_bridge.
  - apply isFloat_bridge.
  - apply isNumber_bridge.
  - apply isBool_bridge.
  - apply isString_bridge.
  - apply isArray_bridge.
  - apply isMap_bridge.
  - apply isStruct_bridge.
  - apply isFunc_bridge.
  - apply isComparable_bridge.
  - apply indexType_bridge.
  - apply isFuncType_bridge.
  - intros; reflexivity.
  - intros; reflexivity.
  - intros; reflexivity.
  - intros; reflexivity.
  - exact is_arith_bridge.
  - intros e t. apply set_ints_bridge.
Qed.

(* ================================================================== Part B: checker.go *)
(* evaluate what is exposed, leaving the interpreter's control functions and the model's functions folded *)
Ltac ev :=
  lazy -[exec exec_list exec_list_of switch_of run_proc range_loop methods
         visit CheckProofs.vlist CheckProofs.vargs check_func
         is_bool is_number is_integer is_floatt is_string is_array is_map is_struct is_interface
         is_comparable is_func_nd is_func_type_nd is_func_type index_type is_nil_ty
         settle record fail_at emit loc_of set_ints is_arith field_type method_type find_overload combined_ty
         model_tyconst unary_rule binary_rule binary_node_rule overload matches_rule index_rule sliceable cond_rule
         len_rule closure_out closure_rule pointer_rule ident_rule property_rule method_callee function_callee
         fast_sig param_ty arity_rule arg_rule undefined_ty lookup_name
         assignable dyn_type kind_of_ty under dereference elem_of rkind_eqb ty_eqb tget Types.assoc
         cc_types cc_ops cc_strict cc_default cc_expect cc_te cfuel te tg_amb tg_ty tg_method
         Z.add Z.sub Z.ltb Z.leb Z.eqb Z.of_nat Nat.ltb Nat.leb Nat.sub Nat.add List.length
         sm_call sm_tyconst sm_arith sm_setints].

(* the equations of CheckRulesProofs hold by computation: apply one by conversion *)
Ltac rw H := lazymatch type of H with ?L = ?R => change L with R end.

(* open the next statement: the shape is found syntactically, the equation is applied fully instantiated *)
Ltac open_stmt c M r self cp st s k :=
  lazymatch st with
  | SAssign ?xs ?e => rw (exec_assign c M r self cp xs e s k)
  | SVisit ?x ?n => rw (exec_visit c M r self cp x n s k)
  | SIf ?cnd ?a ?b => rw (exec_if c M r self cp cnd a b s k)
  | SSwitch ?tag ?cases ?dflt => rw (exec_switch c M r self cp tag cases dflt s k)
  | SRange ?i ?x ?l ?body => rw (exec_range c M r self cp i x l body s k)
  | SContinue => rw (exec_continue c M r self cp s k)
  | SReturn ?es => rw (exec_return c M r self cp es s k)
  | SReturnError ?n ?fam => rw (exec_return_error c M r self cp n fam s k)
  | SReturnCall ?p ?args => rw (exec_return_call c M r self cp p args s k)
  | SReturnFail ?e ?fam => rw (exec_return_fail c M r self cp e fam s k)
  | SSetErr ?n ?fam => rw (exec_set_err c M r self cp n fam s k)
  | SPush ?e => rw (exec_push c M r self cp e s k)
  | SPop => rw (exec_pop c M r self cp s k)
  | SSetField ?n ?f ?e => rw (exec_set_field c M r self cp n f e s k)
  | SSetInts ?n ?t => rw (exec_set_ints c M r self cp n t s k)
  | SBad ?src => rw (exec_bad c M r self cp src s k)
  end.

Ltac step1 :=
  match goal with
  | |- context [exec_list ?c ?M ?r ?self ?cp [] ?s ?k] => rw (exec_list_nil c M r self cp s k)
  | |- context [exec_list ?c ?M ?r ?self ?cp (?st :: ?rest) ?s ?k] =>
      rw (exec_list_cons c M r self cp st rest s k);
      match goal with
      | |- context [exec c M r self cp st s ?k'] => open_stmt c M r self cp st s k'
      end
  | |- context [switch_of ?c ?M ?self (exec_list ?c ?M ?r ?self ?cp) ?v ?dflt [] ?f ?s ?k] =>
      rw (switch_nil c M r self cp v dflt f s k)
  | |- context [switch_of ?c ?M ?self (exec_list ?c ?M ?r ?self ?cp) ?v ?dflt ((?labels, ?body, ?fall) :: ?rest) ?f ?s ?k] =>
      rw (switch_cons c M r self cp v dflt labels body fall rest f s k)
  | |- context [run_proc ?c ?M ?r ?self methods (S ?d) ?name ?args ?s ?k] =>
      rw (run_proc_S c M r self methods d name args s k);
      let f := eval vm_compute in (find_proc name methods) in change (find_proc name methods) with f
  end.

(* rewrite a call the evaluation is stuck at with its specification *)
Ltac semrw1 HM :=
  match goal with
  | |- context [sm_call _ ?f ?args] =>
      lazymatch f with
      | "isInterface" => lazymatch args with [VT ?t] => rewrite (ok_isInterface _ _ HM t) end
      | "isInteger" => lazymatch args with [VT ?t] => rewrite (ok_isInteger _ _ HM t) end
      | "isFloat" => lazymatch args with [VT ?t] => rewrite (ok_isFloat _ _ HM t) end
      | "isNumber" => lazymatch args with [VT ?t] => rewrite (ok_isNumber _ _ HM t) end
      | "isBool" => lazymatch args with [VT ?t] => rewrite (ok_isBool _ _ HM t) end
      | "isString" => lazymatch args with [VT ?t] => rewrite (ok_isString _ _ HM t) end
      | "isArray" => lazymatch args with [VT ?t] => rewrite (ok_isArray _ _ HM t) end
      | "isMap" => lazymatch args with [VT ?t] => rewrite (ok_isMap _ _ HM t) end
      | "isStruct" => lazymatch args with [VT ?t] => rewrite (ok_isStruct _ _ HM t) end
      | "isFunc" => lazymatch args with [VT ?t] => rewrite (ok_isFunc _ _ HM t) end
      | "isComparable" => lazymatch args with [VT ?l; VT ?r] => rewrite (ok_isComparable _ _ HM l r) end
      | "indexType" => lazymatch args with [VT ?t] => rewrite (ok_indexType _ _ HM t) end
      | "isFuncType" => lazymatch args with [VT ?t] => rewrite (ok_isFuncType _ _ HM t) end
      | "fieldType" => lazymatch args with [VT ?t; VS ?n] => rewrite (ok_fieldType _ _ HM t n) end
      | "methodType" => lazymatch args with [VT ?t; VS ?n] => rewrite (ok_methodType _ _ HM t n) end
      | "combined" => lazymatch args with [VT ?a; VT ?b] => rewrite (ok_combined _ _ HM a b) end
      | "conf.FindSuitableOperatorOverload" =>
          lazymatch args with [VFns ?fns; VTable ?otb; VT ?l; VT ?r] => rewrite (ok_overload _ _ HM fns otb l r) end
      end
  | |- context [sm_tyconst _ ?n] => rewrite (ok_tyconst _ _ HM n)
  | |- context [sm_arith _ ?e] => rewrite (ok_arith _ _ HM e)
  | |- context [sm_setints _ ?e ?t] => rewrite (ok_setints _ _ HM e t)
  end.

Ltac tyc :=
  change (model_tyconst "arrayType") with (Some (TSlice TIface));
  change (model_tyconst "boolType") with (Some TBool);
  change (model_tyconst "floatType") with (Some (TNum KF64));
  change (model_tyconst "integerType") with (Some (TNum KInt));
  change (model_tyconst "interfaceType") with (Some TIface);
  change (model_tyconst "mapType") with (Some (TMap TString TIface));
  change (model_tyconst "nilType") with (Some TNilT);
  change (model_tyconst "stringType") with (Some TString).

(* run as far as the statements are closed terms *)
Ltac run_ HM := repeat (first [step1; ev | semrw1 HM; tyc; ev]).
Ltac go_ HM := unfold visit_node; ev; run_ HM.

(* split on the model predicates the evaluation is stuck at *)
Ltac crack1 :=
  match goal with
  | |- context [is_number ?t] => destruct (is_number t)
  | |- context [is_integer ?t] => destruct (is_integer t)
  | |- context [is_bool ?t] => destruct (is_bool t)
  | |- context [is_string ?t] => destruct (is_string t)
  | |- context [is_struct ?t] => destruct (is_struct t)
  | |- context [is_map ?t] => destruct (is_map t)
  | |- context [is_array ?t] => destruct (is_array t)
  | |- context [is_interface ?t] => destruct (is_interface t)
  | |- context [is_comparable ?a ?b] => destruct (is_comparable a b)
  | |- context [is_nil_ty ?t] => destruct (is_nil_ty t)
  | |- context [assignable ?a ?b] => destruct (assignable a b)
  | |- context [combined_ty ?a ?b] => destruct (combined_ty a b)
  | |- context [index_type ?a] => destruct (index_type a)
  end.
Ltac crack_ HM := repeat (run_ HM; crack1); run_ HM.
(* the error state only matters where an error is recorded *)
Ltac fin :=
  try reflexivity;
  match goal with |- context [match ?s with Some _ => false | None => true end] => destruct s; reflexivity end.

Section Nodes.
Variable c : cconfig.
Variable M : sem.
Hypothesis HM : sem_ok c M.
Variable rec : list ty -> expr -> cst -> option (ty * expr * cst).

Notation VN := (visit_node checker_src c M rec).
Ltac run := run_ HM.
Ltac go := go_ HM.
Ltac crack := crack_ HM.

(* the child x is visited under the collections cols in the error state st: its result is the model's *)
Definition child_ok (cols : list ty) (x : expr) (st : cst) : Prop := rec cols x st = Some (visit c cols x st).

(* ---------------- leaves *)
Lemma node_nil a cols st : VN cols (ENil a) st = Some (visit c cols (ENil a) st).
Proof. go. reflexivity. Qed.
Lemma node_int a z cols st : VN cols (EInt a z) st = Some (visit c cols (EInt a z) st).
Proof. go. reflexivity. Qed.
Lemma node_float a f cols st : VN cols (EFloat a f) st = Some (visit c cols (EFloat a f) st).
Proof. go. reflexivity. Qed.
Lemma node_bool a b cols st : VN cols (EBool a b) st = Some (visit c cols (EBool a b) st).
Proof. go. reflexivity. Qed.
Lemma node_str a s cols st : VN cols (EStr a s) st = Some (visit c cols (EStr a s) st).
Proof. go. reflexivity. Qed.
Lemma node_const a v cols st : VN cols (EConst a v) st = Some (visit c cols (EConst a v) st).
Proof. go. reflexivity. Qed.

Lemma node_ident a name ns cols st : VN cols (EIdent a name ns) st = Some (visit c cols (EIdent a name ns) st).
Proof.
  go. cbn [visit]. unfold ident_rule, emit, fail_at, record, undefined_ty.
  destruct (cc_types c) as [tb|]; run; [|reflexivity].
  destruct (tget name tb) as [tg|]; run.
  - destruct (tg_amb tg); run; destruct st; reflexivity.
  - destruct (cc_strict c); run.
    + destruct ns; run; destruct st; reflexivity.
    + destruct (cc_default c); run; reflexivity.
Qed.

Lemma node_pointer a cols st : VN cols (EPointer a) st = Some (visit c cols (EPointer a) st).
Proof.
  go. cbn [visit]. unfold pointer_rule, emit, fail_at, record.
  destruct cols as [|t0 cols].
  - change (Z.of_nat (List.length (@nil ty)) =? 0)%Z with true. run. destruct st; reflexivity.
  - rewrite len_cons_eqb0. run. rewrite sub_self_1. run.
    destruct (index_type t0); run; destruct st; reflexivity.
Qed.

(* ---------------- one child *)
Lemma node_unary a op x cols st : child_ok cols x st -> VN cols (EUnary a op x) st = Some (visit c cols (EUnary a op x) st).
Proof.
  intros Hx. go. rewrite Hx. cbn [visit]. destruct (visit c cols x st) as [[t x'] st1]. run.
  unfold unary_rule, emit, fail_at, record.
  destruct op; ev; destruct (is_bool t); destruct (is_number t); destruct st1; reflexivity.
Qed.

Lemma node_property a x name ns cols st :
  child_ok cols x st -> VN cols (EProperty a x name ns) st = Some (visit c cols (EProperty a x name ns) st).
Proof.
  intros Hx. go. rewrite Hx. cbn [visit]. destruct (visit c cols x st) as [[t x'] st1]. run.
  unfold property_rule, emit, fail_at, record.
  destruct (field_type (te c) (cfuel c) t name); run.
  - reflexivity.
  - destruct ns; run; destruct st1; reflexivity.
  - destruct st1; reflexivity.
Qed.

Lemma node_closure a x cols st : child_ok cols x st -> VN cols (EClosure a x) st = Some (visit c cols (EClosure a x) st).
Proof.
  intros Hx. go. rewrite Hx. cbn [visit]. destruct (visit c cols x st) as [[t x'] st1]. run.
  destruct (is_nil_ty t); run; reflexivity.
Qed.

(* ---------------- two children *)
Lemma node_matches a re l r cols st :
  child_ok cols l st -> child_ok cols r (snd (visit c cols l st)) -> VN cols (EMatches a re l r) st = Some (visit c cols (EMatches a re l r) st).
Proof.
  intros Hl Hr. go. rewrite Hl. cbn [visit]. destruct (visit c cols l st) as [[tl l'] st1] eqn:V. try rewrite V in Hr. cbn [snd] in Hr. run.
  rewrite Hr. destruct (visit c cols r st1) as [[tr r'] st2]. run.
  unfold matches_rule, emit, fail_at, record.
  destruct (is_string tl); destruct (is_string tr); run; destruct st2; reflexivity.
Qed.

Lemma node_index a x i cols st :
  child_ok cols x st -> child_ok cols i (snd (visit c cols x st)) -> VN cols (EIndex a x i) st = Some (visit c cols (EIndex a x i) st).
Proof.
  intros Hl Hr. go. rewrite Hl. cbn [visit]. destruct (visit c cols x st) as [[tl l'] st1] eqn:V. try rewrite V in Hr. cbn [snd] in Hr. run.
  rewrite Hr. destruct (visit c cols i st1) as [[tr r'] st2]. run.
  unfold index_rule, emit, fail_at, record.
  destruct (index_type tl); run.
  - destruct (is_integer tr); destruct (is_string tr); run; destruct st2; reflexivity.
  - destruct st2; reflexivity.
Qed.

Lemma node_pair a k v cols st :
  child_ok cols k st -> child_ok cols v (snd (visit c cols k st)) -> VN cols (EPair a k v) st = Some (visit c cols (EPair a k v) st).
Proof.
  intros Hl Hr. go. rewrite Hl. cbn [visit]. destruct (visit c cols k st) as [[tl l'] st1] eqn:V. try rewrite V in Hr. cbn [snd] in Hr. run.
  rewrite Hr. destruct (visit c cols v st1) as [[tr r'] st2]. run. reflexivity.
Qed.

Lemma node_cond a cnd x y cols st :
  child_ok cols cnd st -> child_ok cols x (snd (visit c cols cnd st)) ->
  child_ok cols y (snd (visit c cols x (snd (visit c cols cnd st)))) ->
  VN cols (ECond a cnd x y) st = Some (visit c cols (ECond a cnd x y) st).
Proof.
  intros Hc Hx Hy. go. rewrite Hc. cbn [visit]. destruct (visit c cols cnd st) as [[tc cnd'] st1] eqn:V. try rewrite V in Hx, Hy. cbn [snd] in Hx, Hy. run.
  destruct (is_bool tc); run.
  - rewrite Hx. destruct (visit c cols x st1) as [[t1 x'] st2] eqn:V2. try rewrite V2 in Hy. cbn [snd] in Hy. run.
    rewrite Hy. destruct (visit c cols y st2) as [[t2 y'] st3]. run.
    unfold cond_rule. destruct (is_nil_ty t1); destruct (is_nil_ty t2); run; try reflexivity.
    destruct (assignable t1 t2); run; reflexivity.
  - unfold fail_at, record. destruct st1; reflexivity.
Qed.

(* after the sliced operand: the optional bounds *)
Ltac slice_bound H :=
  rewrite H;
  match goal with |- context [visit c ?cl ?y ?s] => destruct (visit c cl y s) as [[? ?] ?] eqn:?V end; run;
  match goal with |- context [is_integer ?t] => destruct (is_integer t) end; run.

Lemma node_slice a x from to cols st :
  child_ok cols x st ->
  (forall f, from = Some f -> child_ok cols f (snd (visit c cols x st))) ->
  (forall u, to = Some u ->
     child_ok cols u (match from with
                      | Some f => snd (visit c cols f (snd (visit c cols x st)))
                      | None => snd (visit c cols x st)
                      end)) ->
  VN cols (ESlice a x from to) st = Some (visit c cols (ESlice a x from to) st).
Proof.
  intros Hx Hf Hu.
  destruct from as [f|]; destruct to as [u|]; go; rewrite Hx; cbn [visit];
    destruct (visit c cols x st) as [[t x'] st1] eqn:V; run; unfold sliceable, fail_at, record.
  - specialize (Hf f eq_refl). specialize (Hu u eq_refl). try rewrite V in Hf, Hu. cbn [snd] in Hf, Hu.
    destruct (index_type t) as [el|]; run; [|destruct (is_string t); run; [|fin]].
    + slice_bound Hf; [|fin]. try rewrite V0 in Hu. cbn [snd] in Hu. slice_bound Hu; fin.
    + slice_bound Hf; [|fin]. try rewrite V0 in Hu. cbn [snd] in Hu. slice_bound Hu; fin.
  - specialize (Hf f eq_refl). try rewrite V in Hf. cbn [snd] in Hf.
    destruct (index_type t) as [el|]; run; [|destruct (is_string t); run; [|fin]].
    + slice_bound Hf; fin.
    + slice_bound Hf; fin.
  - specialize (Hu u eq_refl). try rewrite V in Hu. cbn [snd] in Hu.
    destruct (index_type t) as [el|]; run; [|destruct (is_string t); run; [|fin]].
    + slice_bound Hu; fin.
    + slice_bound Hu; fin.
  - destruct (index_type t) as [el|]; run; [|destruct (is_string t); run; [|fin]]; fin.
Qed.
End Nodes.


(* Bridge/BrRuntime.v — the run-time helpers of the model (Sem/Prim.v: p_fetch, p_slice, p_in, p_length, p_negate,
   to_int, to_int64, to_float64, is_nil, make_range, fetch_fn, the float power of `**`) ARE the interpretation of
   the functions regenerated from /repo/vm/runtime.go (gen/GenRuntime.v, DSL and interpreter in Sem/PrimRules.v;
   package reflect stays primitive: `rprim_apply`; `equal` of vm/helpers.go is the interpreter's parameter, here the
   model's p_equal - equalSequences and `equal` itself are bridged in Bridge/BrRuntimeEq.v).

   One lemma `<f>_bridge` per Go function, so that a failure names the culprit: running the regenerated
   statements of f with the interpreter, every callee answering as its own lemma says, gives the model function.
   `<f>_is_model` ties the knot over the call depth, `model_runtime_is_source` collects them.

   Side conditions (all decidable, all facts about the model's value universe, see Sem/PrimRulesProofs.v):
   `num_ok` (a number respects its kind), `named_ok` / `not_named` (declared non-struct types are declared basic
   types; Prim.v has no cases for named slices, maps, ...), `str_key_ok` (a field name is a plain string),
   `len_ok` (a slice length is an int), for FetchFn that reflect's NumMethod() is 0 only for types without
   methods and that a map searched for a method name has string-assignable keys, for makeRange that the size
   fits an int (Prim.range_size, what the machine checks before it calls makeRange). *)
From Coq Require Import ZArith Bool String List Lia Floats.
Require Import X.Base.Num X.Base.Value X.gen.GenHelpers X.Sem.Prim X.Sem.PrimRules X.Sem.PrimRulesProofs X.gen.GenRuntime.
Import ListNotations.
Local Open Scope string_scope.
Local Open Scope list_scope.
Open Scope Z_scope.

(* nothing in the current source is outside the shapes the translator knows *)
Definition genruntime_all_recognised : bool :=
  forallb pfdef_ok runtime_funs
  && match genruntime_unrecognised with [] => true | _ => false end.

Lemma genruntime_recognised : genruntime_all_recognised = true.
Proof. vm_compute. reflexivity. Qed.

(* every function of runtime.go is read (equalSequences, the part of `equal` of the generated vm/helpers.go that
   lives in runtime.go, is bridged in Bridge/BrRuntimeEq.v) *)
Lemma genruntime_not_read_is : genruntime_not_read = [].
Proof. reflexivity. Qed.

(* symbolic execution of the expressions of ONE statement: the interpreter over the (concrete) syntax *)
Ltac evx1 :=
  lazy [pexec peval peval_list peval_bool gbind pstore pstore_all glookup gupd gblanks genv_of gsettle gcoerce
        gcoerce_all int_operands mk_int pbinop pmatch_any kind_in kind_same kind_nat rkind_eqb Nat.eqb negb
        rprim_apply of_outcome value_of rv_kind kind_of_value strip elem_rv field_rv is_iface is_nil_iface gint
        pafter pswitch_cases ptype_cases convert is_float fround num_kind go_neg fst snd].
Ltac msgs :=
  repeat match goal with
         | |- context [msg_class ?m] => let c := eval vm_compute in (msg_class m) in change (msg_class m) with c
         end.
Ltac evx := repeat (progress (evx1; cbn [strip_deep]; msgs)).
(* open a function: its header is computed, its body is left as `pexec_block .. [statements] ..` *)
Ltac enter :=
  unfold prun_fn;
  lazy [pf_params pf_locals pf_body pf_results gcoerce_all gcoerce genv_of gblanks
        rt_fetch rt_slice rt_FetchFn rt_FetchFnNil rt_in rt_length rt_negate rt_exponent rt_makeRange
        rt_toInt rt_toInt64 rt_toFloat64 rt_isNil].
(* the next statement of the list *)
Ltac step :=
  first [ rewrite pexec_block_nil
        | rewrite pexec_block_cons;
          first [rewrite pexec_if | rewrite pexec_for | rewrite pexec_range | rewrite pexec_switch
                | rewrite pexec_typeswitch | idtac] ];
  evx.

Section Stage1.
Variable fe : fenv.
Variable nm : value -> Z.
Variable call : string -> list gval -> gres (list gval).
Variable F : nat.

Notation run := (prun_fn fe nm p_equal call F).

(* ---------------------------------------------------------------- the type switches *)
Definition as_gnum (r : value) : gval := match r with VNum m => GNum m | _ => GNone end.

Definition toInt_spec (v : value) : gres (list gval) := of_outcome (to_int v) (fun z => [gint z]).
Definition toInt64_spec (v : value) : gres (list gval) := of_outcome (to_int64 v) (fun r => [as_gnum r]).
Definition toFloat64_spec (v : value) : gres (list gval) := of_outcome (to_float64 v) (fun f => [GNum (NFlt KF64 f)]).
Definition negate_spec (v : value) : gres (list gval) := of_outcome (p_negate v) (fun r => [GI r]).

(* a number of every kind, well-formed: 12 cases *)
Ltac kinds n H :=
  destruct n as [k z|k f]; destruct k; try discriminate H.

Ltac fin_num H :=
  try reflexivity;
  try (rewrite (num_wf_wrap _ _ H); reflexivity);
  try (match goal with |- context [f_trunc ?f] => destruct (f_trunc f) as [?|] end;
       [match goal with |- context [in_range ?k ?x] => destruct (in_range k x) end|]; evx; reflexivity).

Lemma toInt_bridge : forall v, num_ok v = true -> run rt_toInt [GI v] = toInt_spec v.
Proof.
  intros v H. unfold toInt_spec, to_int. enter. do 2 step.
  destruct v; try (repeat step; reflexivity).
  cbn [num_ok] in H. kinds n H; repeat step; fin_num H.
Qed.

Lemma toInt64_bridge : forall v, num_ok v = true -> run rt_toInt64 [GI v] = toInt64_spec v.
Proof.
  intros v H. unfold toInt64_spec, to_int64. enter. do 2 step.
  destruct v; try (repeat step; reflexivity).
  cbn [num_ok] in H. kinds n H; repeat step; fin_num H.
Qed.

Lemma toFloat64_bridge : forall v, num_ok v = true -> run rt_toFloat64 [GI v] = toFloat64_spec v.
Proof.
  intros v H. unfold toFloat64_spec, to_float64. enter. do 2 step.
  destruct v; try (repeat step; reflexivity).
  cbn [num_ok] in H. kinds n H; repeat step; fin_num H.
Qed.

Lemma negate_bridge : forall v, run rt_negate [GI v] = negate_spec v.
Proof.
  intros v. unfold negate_spec, p_negate. enter. do 2 step.
  destruct v; try (repeat step; reflexivity).
  destruct n as [k z|k f]; destruct k; repeat step; reflexivity.
Qed.

(* ---------------------------------------------------------------- exponent *)
Definition sig_toFloat64 : Prop := forall v, num_ok v = true -> call "toFloat64" [GI v] = toFloat64_spec v.

Definition exponent_spec (a b : value) : gres (list gval) :=
  match to_float64 a with
  | Ok x => match to_float64 b with Ok y => GOk [GNum (NFlt KF64 (f_pow fe x y))] | Fail e => GFail e end
  | Fail e => GFail e
  end.

Lemma exponent_bridge : sig_toFloat64 -> forall a b, num_ok a = true -> num_ok b = true ->
  run rt_exponent [GI a; GI b] = exponent_spec a b.
Proof.
  intros Hc a b Ha Hb. unfold exponent_spec. enter. step.
  rewrite (Hc a Ha). unfold toFloat64_spec. destruct (to_float64 a) as [x|e]; evx; [|reflexivity].
  rewrite (Hc b Hb). unfold toFloat64_spec. destruct (to_float64 b) as [y|e]; evx; reflexivity.
Qed.

(* ---------------------------------------------------------------- length, isNil *)
Definition length_spec (v : value) : gres (list gval) := of_outcome (p_length v) (fun z => [gint z]).

Lemma length_bridge : forall v, named_ok v = true -> run rt_length [GI v] = length_spec v.
Proof.
  intros v H. unfold length_spec, p_length. enter.
  destruct v; try (repeat step; reflexivity).
  - destruct ptr; repeat step; reflexivity.
  - destruct v; try discriminate H; repeat step; reflexivity.
Qed.

Lemma isNil_bridge : forall v, named_ok v = true -> run rt_isNil [GI v] = GOk [GBool (is_nil v)].
Proof.
  intros v H. unfold is_nil. enter.
  destruct v; try (repeat step; reflexivity).
  - destruct ptr; repeat step; reflexivity.
  - destruct v; try discriminate H; repeat step; reflexivity.
Qed.

(* ---------------------------------------------------------------- makeRange *)
Definition range_count (lo hi : Z) : nat := if hi <? lo then O else Z.to_nat (hi - lo + 1).

Lemma makeRange_bridge : forall lo hi, in_int lo -> in_int hi -> (hi < lo \/ hi - lo + 1 <= max_int) ->
  run rt_makeRange [gint lo; gint hi] = GOk [GInts (ints_from lo (range_count lo hi))].
Proof.
  intros lo hi Hlo Hhi Hsz. unfold range_count. enter. do 2 step.
  destruct (hi <? lo) eqn:E; [repeat step; reflexivity|].
  apply Z.ltb_ge in E. destruct Hsz as [Hsz|Hsz]; [lia|].
  unfold in_int, min_int, max_int in *.
  do 2 step.
  rewrite (wrap_int_id (hi - lo)) by (unfold in_int, min_int, max_int; lia).
  rewrite (wrap_int_id (hi - lo + 1)) by (unfold in_int, min_int, max_int; lia).
  do 2 step.
  replace (hi - lo + 1 <=? 0) with false by (symmetry; apply Z.leb_gt; lia). evx. do 2 step.
  replace (hi - lo + 1 <? 0) with false by (symmetry; apply Z.ltb_ge; lia). evx. step.
  rewrite repeat_length.
  set (n := Z.to_nat (hi - lo + 1)).
  match goal with
  | |- context [prange_loop fe nm p_equal call n 0 ?k ?B ?en] =>
    assert (L : forall m done i x4, i = Z.of_nat (List.length done) -> lo + i + Z.of_nat m <= hi + 1 ->
              exists x4',
                prange_loop fe nm p_equal call m i k B
                  [GNum (NInt KInt lo); GNum (NInt KInt hi); GNum (NInt KInt (hi - lo + 1)); GInts (done ++ repeat 0 m); x4]
                = GOk (PNormal, [GNum (NInt KInt lo); GNum (NInt KInt hi); GNum (NInt KInt (hi - lo + 1));
                                 GInts (done ++ ints_from (lo + i) m); x4']))
  end.
  { induction m as [|m IH]; intros done i x4 Hi Hb.
    - exists x4. reflexivity.
    - rewrite prange_loop_S. evx. step.
      rewrite (wrap_int_id (lo + i)) by (unfold in_int, min_int, max_int; lia).
      rewrite app_length, repeat_length.
      replace ((0 <=? i) && (i <? Z.of_nat (List.length done + S m))) with true
        by (symmetry; apply andb_true_iff; split; [apply Z.leb_le|apply Z.ltb_lt]; lia).
      evx. step. subst i. rewrite Nat2Z.id. cbn [repeat]. rewrite list_set_app.
      destruct (IH (done ++ [lo + Z.of_nat (List.length done)]) (Z.of_nat (List.length done) + 1)
                   (GNum (NInt KInt (Z.of_nat (List.length done))))) as (x4' & E').
      + rewrite app_length. cbn [List.length]. lia.
      + lia.
      + exists x4'. rewrite app_cons_assoc in E'. rewrite E'. cbn [ints_from].
        rewrite app_cons_assoc.
        replace (lo + (Z.of_nat (List.length done) + 1)) with (lo + Z.of_nat (List.length done) + 1) by lia.
        reflexivity. }
  destruct (L n [] 0 GNone eq_refl) as (x4' & E').
  { subst n. rewrite Z2Nat.id by lia. lia. }
  cbn [app] in E'. unfold gint. rewrite E'. evx. rewrite Z.add_0_r. repeat step. reflexivity.
Qed.

(* the slice makeRange returns, as an interface{} value, is the model's make_range *)
Lemma make_range_ints : forall lo hi,
  VArr (TNum KInt) (map vint (ints_from lo (range_count lo hi))) = make_range lo hi.
Proof.
  intros lo hi. unfold make_range, range_count. destruct (hi <? lo); [reflexivity|].
  rewrite ints_from_range. reflexivity.
Qed.

(* ---------------------------------------------------------------- fetch *)
Definition sig_toInt : Prop := forall v, num_ok v = true -> call "toInt" [GI v] = toInt_spec v.

Definition fetch_spec (from i : value) (nilsafe : bool) : gres (list gval) :=
  of_outcome (p_fetch from i nilsafe) (fun r => [GI r]).

(* a call of toInt: answered by its lemma, then the two outcomes *)
Ltac toint Hc i Hi :=
  rewrite (Hc i Hi); unfold toInt_spec; destruct (to_int i) as [?z|?e]; evx; [|try reflexivity].

Lemma fetch_bridge : sig_toInt -> forall from i nilsafe,
  named_ok from = true -> num_ok i = true -> str_key_ok i = true ->
  run rt_fetch [GI from; GI i; GBool nilsafe] = fetch_spec from i nilsafe.
Proof.
  intros Hc from i nilsafe Hn Hi Hk. unfold fetch_spec, p_fetch. enter.
  destruct from.
  - (* VNil *) repeat step. destruct nilsafe; repeat step; reflexivity.
  - repeat step. destruct nilsafe; repeat step; reflexivity.
  - repeat step. destruct nilsafe; repeat step; reflexivity.
  - (* VStr *) repeat step. toint Hc i Hi. cbn [bind].
    destruct ((z <? 0) || (str_len s <=? z)); evx; [reflexivity|].
    destruct (str_nth (Z.to_nat z) s); evx; [|reflexivity]. repeat step. reflexivity.
  - (* VArr *) repeat step. toint Hc i Hi. cbn [bind].
    destruct (index_list l z); evx; [|reflexivity]. repeat step. reflexivity.
  - (* VNilArr *) repeat step. toint Hc i Hi. reflexivity.
  - (* VMap *) repeat step. destruct i; evx; try reflexivity.
    all: match goal with |- context [assignable ?a ?b] => destruct (assignable a b) end; evx; try reflexivity.
    all: match goal with |- context [assoc_val ?k ?mm] => destruct (assoc_val k mm) end; evx; repeat step; reflexivity.
  - (* VStruct *) destruct ptr.
    + repeat step. destruct i; evx; try (destruct nilsafe; repeat step; reflexivity).
      * destruct (assoc_str s fields); evx; repeat step; try reflexivity.
        destruct nilsafe; repeat step; reflexivity.
      * cbn [str_key_ok strip] in Hk. destruct (strip_deep i); try discriminate Hk; evx;
          destruct nilsafe; repeat step; reflexivity.
    + repeat step. destruct i; evx; try (destruct nilsafe; repeat step; reflexivity).
      * destruct (assoc_str s fields); evx; repeat step; try reflexivity.
        destruct nilsafe; repeat step; reflexivity.
      * cbn [str_key_ok strip] in Hk. destruct (strip_deep i); try discriminate Hk; evx;
          destruct nilsafe; repeat step; reflexivity.
  - (* VNilPtr *) repeat step. destruct nilsafe; repeat step; reflexivity.
  - (* VNilMap *) repeat step. destruct i; evx; try reflexivity.
    all: match goal with |- context [assignable ?a ?b] => destruct (assignable a b) end; evx; try reflexivity.
    all: repeat step; reflexivity.
  - (* VFunc *) repeat step. destruct nilsafe; repeat step; reflexivity.
  - (* VNamed *) destruct from; try discriminate Hn.
    + repeat step. destruct nilsafe; repeat step; reflexivity.
    + repeat step. destruct nilsafe; repeat step; reflexivity.
    + repeat step. toint Hc i Hi. cbn [bind].
      destruct ((z <? 0) || (str_len s <=? z)); evx; [reflexivity|].
      destruct (str_nth (Z.to_nat z) s); evx; [|reflexivity]. repeat step. reflexivity.
  - (* VOpaque *) repeat step. destruct nilsafe; repeat step; reflexivity.
Qed.

(* ---------------------------------------------------------------- slice *)
Definition slice_spec (arr from to : value) : gres (list gval) :=
  of_outcome (p_slice arr from to) (fun r => [GI r]).

(* the recursive call (through a pointer) meets a struct *)
Definition sig_slice_struct : Prop :=
  forall n f a b, call "slice" [GI (VStruct n false f); GI a; GI b] = GFail ECannotFetch.

Lemma clamp_bounds : forall len a b a' b', clamp_slice len a b = (a', b') ->
  a' <= b' /\ b' <= len /\ (0 <=? a') = negb (a' <? 0).
Proof.
  intros len a b a' b' H. unfold clamp_slice in H. cbv zeta in H. injection H as Ha Hb.
  assert (Hb' : b' <= len).
  { subst b'. destruct (len <? b) eqn:E; [lia|apply Z.ltb_ge in E; lia]. }
  rewrite Hb in Ha.
  assert (Ha' : a' <= b').
  { subst a'. destruct (b' <? a) eqn:E; [lia|apply Z.ltb_ge in E; lia]. }
  split; [exact Ha'|split; [exact Hb'|apply Z.leb_antisym]].
Qed.

(* the two clamping statements, v.Slice(a, b) and the return, against clamp_slice *)
Ltac clamp L A B :=
  unfold clamp_slice; cbv zeta; repeat step;
  destruct (L <? B) eqn:?; evx; repeat step;
  match goal with |- context [if ?c <? A then _ else _] => destruct (c <? A) eqn:? end; evx; repeat step;
  repeat match goal with
         | H : (_ <? _) = true |- _ => apply Z.ltb_lt in H
         | H : (_ <? _) = false |- _ => apply Z.ltb_ge in H
         end;
  match goal with
  | |- context [(0 <=? ?a) && (?a <=? ?b) && (?b <=? ?l)] =>
    replace ((0 <=? a) && (a <=? b) && (b <=? l)) with (negb (a <? 0))
      by (replace (a <=? b) with true by (symmetry; apply Z.leb_le; lia);
          replace (b <=? l) with true by (symmetry; apply Z.leb_le; lia);
          rewrite !andb_true_r; symmetry; apply Z.leb_antisym);
    destruct (a <? 0); evx; repeat step; reflexivity
  end.

Lemma slice_bridge : sig_toInt -> sig_slice_struct -> forall arr from to,
  not_named arr = true -> num_ok from = true -> num_ok to = true ->
  run rt_slice [GI arr; GI from; GI to] = slice_spec arr from to.
Proof.
  intros Hc Hrec arr from to Hn Hf Ht. unfold slice_spec, p_slice. enter.
  destruct arr; try discriminate Hn.
  - repeat step. reflexivity.
  - repeat step. reflexivity.
  - repeat step. reflexivity.
  - (* VStr *) repeat step. toint Hc from Hf. toint Hc to Ht. cbn [bind]. clamp (str_len s) z z0.
  - (* VArr *) repeat step. toint Hc from Hf. toint Hc to Ht. cbn [bind]. clamp (Z.of_nat (List.length l)) z z0.
  - (* VNilArr *) repeat step. toint Hc from Hf. toint Hc to Ht. cbn [bind]. clamp 0 z z0.
  - repeat step. reflexivity.
  - (* VStruct *) destruct ptr.
    + repeat step. rewrite Hrec. evx. reflexivity.
    + repeat step. reflexivity.
  - repeat step. reflexivity.
  - repeat step. reflexivity.
  - repeat step. reflexivity.
  - repeat step. reflexivity.
Qed.

Lemma slice_struct_bridge : forall n f a b,
  run rt_slice [GI (VStruct n false f); GI a; GI b] = GFail ECannotFetch.
Proof. intros. enter. repeat step. reflexivity. Qed.

(* ---------------------------------------------------------------- in *)
Definition in_spec (needle arr : value) : gres (list gval) :=
  of_outcome (p_in needle arr) (fun b => [GBool b]).

(* the recursive call (through a pointer) meets the struct itself *)
Definition sig_in_struct : Prop :=
  forall needle n f, str_key_ok needle = true ->
    call "in" [GI needle; GI (VStruct n false f)] = in_spec needle (VStruct n false f).

Definition loop_ok (o : outcome bool) (r : gres (pctl * genv)) : Prop :=
  match o with
  | Ok true => exists en', r = GOk (PReturned [GBool true], en')
  | Ok false => exists en', r = GOk (PNormal, en')
  | Fail e => r = GFail e
  end.

Lemma in_bridge : sig_in_struct -> forall needle arr,
  named_ok arr = true -> str_key_ok needle = true -> len_ok arr ->
  (match arr with VArr _ l => (List.length l < F)%nat | VNilArr _ => (0 < F)%nat | _ => True end) ->
  run rt_in [GI needle; GI arr] = in_spec needle arr.
Proof.
  intros Hrec needle arr Hn Hk Hl HF. unfold in_spec, p_in. enter.
  destruct arr.
  - repeat step. reflexivity.
  - repeat step. reflexivity.
  - repeat step. reflexivity.
  - repeat step. reflexivity.
  - (* VArr *) repeat step. change (wrap KInt 0) with 0.
    match goal with
    | |- context [match ?G l with Ok _ => _ | Fail _ => _ end] => set (go := G)
    end.
    assert (Gnil : go [] = Ok false) by reflexivity.
    assert (Gcons : forall x r, go (x :: r) =
              bind (p_equal x needle) (fun e =>
               match e with VBool true => Ok true | VBool false => go r | _ => Fail EIfaceConv end))
      by reflexivity.
    match goal with
    | |- context [pfor_loop F ?C ?P ?B _] =>
      assert (L : forall fuel rest done x4, l = done ++ rest -> (List.length rest < fuel)%nat ->
                loop_ok (go rest)
                  (pfor_loop fuel C P B
                      [GI needle; GI (VArr elem l); GRv (RVal false (VArr elem l));
                       GNum (NInt KInt (Z.of_nat (List.length done))); x4; GNone; GNone; GNone; GNone; GNone]))
    end.
    { induction fuel as [|fuel IH]; intros rest done x4 El Hf; [inversion Hf|].
      rewrite pfor_loop_S, pcond_sem_some. evx.
      replace (Z.of_nat (List.length l)) with (Z.of_nat (List.length done + List.length rest))
        by (rewrite El, app_length; reflexivity).
      destruct rest as [|x rest].
      - cbn [List.length]. rewrite Nat.add_0_r. rewrite Z.ltb_irrefl. evx.
        rewrite Gnil. unfold loop_ok. eexists. reflexivity.
      - replace (Z.of_nat (List.length done) <? Z.of_nat (List.length done + List.length (x :: rest))) with true
          by (symmetry; apply Z.ltb_lt; cbn [List.length]; lia).
        evx. step.
        replace (index_list l (Z.of_nat (List.length done))) with (@Ok value x)
          by (rewrite El; symmetry; apply index_list_mid).
        evx. repeat step.
        rewrite Gcons. unfold bind.
        destruct (p_equal x needle) as [r|e]; evx; [|reflexivity].
        destruct r; evx; try reflexivity.
        destruct b; evx.
        + repeat step. unfold loop_ok. eexists. reflexivity.
        + repeat step.
          rewrite wrap_int_id.
          2:{ cbn [len_ok] in Hl. rewrite El, app_length in Hl. cbn [List.length] in Hl.
              unfold in_int, min_int, max_int in *. lia. }
          replace (Z.of_nat (List.length done) + 1) with (Z.of_nat (List.length (done ++ [x])))
            by (rewrite app_length; cbn [List.length]; lia).
          apply IH.
          * rewrite app_cons_assoc. exact El.
          * cbn [List.length] in Hf. lia. }
    specialize (L F l [] GNone eq_refl HF). cbn [List.length] in L. change (Z.of_nat 0) with 0 in L.
    unfold loop_ok in L. destruct (go l) as [[|]|e].
    + destruct L as (en' & ->). evx. reflexivity.
    + destruct L as (en' & ->). evx. repeat step. reflexivity.
    + rewrite L. evx. reflexivity.
  - (* VNilArr *) repeat step. destruct F as [|F']; [inversion HF|].
    rewrite pfor_loop_S, pcond_sem_some. evx. change (wrap KInt 0 <? 0) with false. evx. repeat step. reflexivity.
  - (* VMap *) repeat step. destruct needle; evx; repeat step; try reflexivity.
    all: match goal with |- context [assignable ?a ?b] => destruct (assignable a b) end; evx; try reflexivity.
    all: match goal with |- context [assoc_val ?k ?mm] => destruct (assoc_val k mm) end; evx; repeat step; reflexivity.
  - (* VStruct *) destruct ptr.
    + repeat step. rewrite (Hrec needle name fields Hk). unfold in_spec, p_in.
      destruct needle; evx; try reflexivity.
    + repeat step. destruct needle; evx; repeat step; try reflexivity.
      all: try (match goal with |- context [if ?p then KdPtr else KdStruct] => destruct p end;
                evx; repeat step; reflexivity).
      * destruct (assoc_str s fields); evx; repeat step; reflexivity.
      * cbn [str_key_ok strip] in Hk.
        match type of Hk with context [strip_deep ?x] => destruct (strip_deep x) end;
          try discriminate Hk; evx; repeat step; try reflexivity.
        match goal with |- context [if ?p then KdPtr else KdStruct] => destruct p end;
          evx; repeat step; reflexivity.
  - (* VNilPtr *) repeat step. reflexivity.
  - (* VNilMap *) repeat step. destruct needle; evx; repeat step; try reflexivity.
    all: match goal with |- context [assignable ?a ?b] => destruct (assignable a b) end; evx; repeat step; reflexivity.
  - repeat step. reflexivity.
  - destruct arr; try discriminate Hn; repeat step; reflexivity.
  - repeat step. reflexivity.
Qed.

Lemma in_struct_bridge : forall needle name fields, str_key_ok needle = true ->
  run rt_in [GI needle; GI (VStruct name false fields)] = in_spec needle (VStruct name false fields).
Proof.
  intros needle name fields Hk. unfold in_spec, p_in. enter.
  repeat step. destruct needle; evx; repeat step; try reflexivity.
  all: try (match goal with |- context [if ?p then KdPtr else KdStruct] => destruct p end;
            evx; repeat step; reflexivity).
  - destruct (assoc_str s fields); evx; repeat step; reflexivity.
  - cbn [str_key_ok strip] in Hk.
    match type of Hk with context [strip_deep ?x] => destruct (strip_deep x) end;
      try discriminate Hk; evx; repeat step; try reflexivity.
    match goal with |- context [if ?p then KdPtr else KdStruct] => destruct p end;
      evx; repeat step; reflexivity.
Qed.

(* ---------------------------------------------------------------- FetchFn, FetchFnNil *)
(* what the machine observes of a call of FetchFn: the callable it goes on to Call, or the panic *)
Definition observed_fn (r : gres (list gval)) : option (outcome string) :=
  match r with
  | GOk [GRv v] => Some (callable v)
  | GFail e => Some (Fail e)
  | _ => None
  end.

(* reflect: a type whose method set is empty has no method of any name *)
Definition nmeth_sound : Prop := forall v name, nm v <= 0 -> method_of fe v name = RInvalid.

(* a map that is searched for a function by name has keys a string can be assigned to *)
Definition fn_map_ok (v : value) : bool :=
  match v with
  | VMap kt _ _ | VNilMap kt _ => assignable TString kt
  | _ => true
  end.

(* a value whose type has no name: no method, then the switch *)
Ltac nameless :=
  repeat step;
  match goal with |- context [0 <? nm ?v] => destruct (0 <? nm v) end;
  cbn [method_of type_name_of]; evx; repeat step; reflexivity.

(* no method: the field of that name *)
Ltac struct_field :=
  repeat step;
  match goal with |- context [assoc_str ?n ?fs] =>
    let v := fresh "v" in destruct (assoc_str n fs) as [v|]; [destruct v|] end;
  evx; repeat step; reflexivity.

Lemma FetchFn_bridge : nmeth_sound -> forall from name,
  named_ok from = true -> fn_map_ok from = true ->
  observed_fn (run rt_FetchFn [GI from; GStr name]) = Some (fetch_fn fe from name).
Proof.
  intros Hm from name Hn Hmap. enter.
  destruct from.
  - (* VNil *) repeat step. reflexivity.
  - nameless.
  - nameless.
  - nameless.
  - nameless.
  - nameless.
  - (* VMap *) repeat step. cbn [fn_map_ok] in Hmap.
    match goal with |- context [0 <? nm ?v] => destruct (0 <? nm v) end;
      cbn [method_of type_name_of]; evx; repeat step; cbn [dyn_type]; rewrite Hmap; evx.
    all: cbn [fetch_fn type_name_of]; destruct (assoc_val (VStr name) m) as [x|]; evx; repeat step; try reflexivity.
    all: destruct et; destruct x; evx; repeat step; try reflexivity.
    all: destruct ptr; evx; repeat step; reflexivity.
  - (* VStruct *) destruct ptr.
    all: repeat step.
    all: match goal with |- context [0 <? nm ?v] => destruct (0 <? nm v) eqn:E end;
         cbn [method_of type_name_of fetch_fn].
    all: match goal with
         | |- context [fn_method fe ?t ?p ?n] =>
           try (pose proof (Hm (VStruct t p fields) n) as Hx; apply Z.ltb_ge in E; specialize (Hx E);
                cbn [method_of type_name_of] in Hx);
           destruct (fn_method fe t p n) as [id|] eqn:EM; try discriminate Hx
         end.
    all: evx; repeat step; try reflexivity; struct_field.
  - (* VNilPtr *) destruct t; try nameless.
    repeat step.
    match goal with |- context [0 <? nm ?v] => destruct (0 <? nm v) eqn:E end; cbn [method_of type_name_of fetch_fn].
    all: match goal with
         | |- context [fn_method fe ?t ?p ?n] =>
           try (pose proof (Hm (VNilPtr (TStruct t)) n) as Hx; apply Z.ltb_ge in E; specialize (Hx E);
                cbn [method_of type_name_of] in Hx);
           destruct (fn_method fe t p n) as [id|] eqn:EM; try discriminate Hx
         end.
    all: evx; repeat step; reflexivity.
  - (* VNilMap *) repeat step. cbn [fn_map_ok] in Hmap.
    match goal with |- context [0 <? nm ?v] => destruct (0 <? nm v) end;
      cbn [method_of type_name_of]; evx; repeat step; cbn [dyn_type]; rewrite Hmap; evx; repeat step; reflexivity.
  - nameless.
  - (* VNamed *) destruct from; try discriminate Hn.
    all: repeat step.
    all: match goal with |- context [0 <? nm ?v] => destruct (0 <? nm v) eqn:E end;
         cbn [method_of type_name_of fetch_fn].
    all: match goal with
         | |- context [fn_method fe ?t ?p ?n] =>
           try (match type of E with (0 <? nm ?v) = false =>
                  pose proof (Hm v n) as Hx; apply Z.ltb_ge in E; specialize (Hx E);
                  cbn [method_of type_name_of] in Hx end);
           destruct (fn_method fe t p n) as [id|] eqn:EM; try discriminate Hx
         end.
    all: evx; repeat step; reflexivity.
  - nameless.
Qed.

Lemma FetchFnNil_bridge : forall from name,
  run rt_FetchFnNil [GI from; GStr name] =
  match from with
  | VNil => GOk [GRv RInvalid]
  | _ => gbind (call "FetchFn" [GI from; GStr name]) (fun rs =>
           match rs with [r] => GOk [r] | _ => GCrash "single value expected" end)
  end.
Proof.
  intros from name. enter. destruct from; repeat step; try reflexivity.
  all: match goal with |- context [call ?f ?a] => destruct (call f a) as [[|? [|? ?]]| | |] end; reflexivity.
Qed.

(* whether the Value FetchFn / FetchFnNil returns is the ZERO Value - what the OpMethodNilSafe arm of vm.go asks
   with IsValid() before it either pushes nil or Calls (a panic inside FetchFn is not a zero Value) *)
Definition observed_zero (r : gres (list gval)) : option bool :=
  match r with
  | GOk [GRv v] => Some (match v with RInvalid => true | _ => false end)
  | GFail _ => Some false
  | _ => None
  end.

Lemma FetchFn_zero_bridge : nmeth_sound -> forall from name,
  named_ok from = true -> fn_map_ok from = true ->
  observed_zero (run rt_FetchFn [GI from; GStr name]) = Some (fetch_fn_zero from name).
Proof.
  intros Hm from name Hn Hmap. enter.
  destruct from.
  - (* VNil *) repeat step. reflexivity.
  - nameless.
  - nameless.
  - nameless.
  - nameless.
  - nameless.
  - (* VMap *) repeat step. cbn [fn_map_ok] in Hmap.
    match goal with |- context [0 <? nm ?v] => destruct (0 <? nm v) end;
      cbn [method_of type_name_of]; evx; repeat step; cbn [dyn_type]; rewrite Hmap; evx.
    all: cbn [fetch_fn_zero]; destruct (assoc_val (VStr name) m) as [x|]; evx; repeat step; try reflexivity.
    all: destruct et; destruct x; evx; repeat step; try reflexivity.
    all: destruct ptr; evx; repeat step; reflexivity.
  - (* VStruct *) destruct ptr.
    all: repeat step.
    all: match goal with |- context [0 <? nm ?v] => destruct (0 <? nm v) eqn:E end;
         cbn [method_of type_name_of fetch_fn_zero].
    all: try match goal with
         | |- context [fn_method fe ?t ?p ?n] =>
           try (pose proof (Hm (VStruct t p fields) n) as Hx; apply Z.ltb_ge in E; specialize (Hx E);
                cbn [method_of type_name_of] in Hx);
           destruct (fn_method fe t p n) as [id|] eqn:EM; try discriminate Hx
         end.
    all: evx; repeat step; try reflexivity; struct_field.
  - (* VNilPtr *) destruct t; try nameless.
    repeat step.
    match goal with |- context [0 <? nm ?v] => destruct (0 <? nm v) eqn:E end; cbn [method_of type_name_of fetch_fn_zero].
    all: try match goal with
         | |- context [fn_method fe ?t ?p ?n] =>
           try (pose proof (Hm (VNilPtr (TStruct t)) n) as Hx; apply Z.ltb_ge in E; specialize (Hx E);
                cbn [method_of type_name_of] in Hx);
           destruct (fn_method fe t p n) as [id|] eqn:EM; try discriminate Hx
         end.
    all: evx; repeat step; reflexivity.
  - (* VNilMap *) repeat step. cbn [fn_map_ok] in Hmap.
    match goal with |- context [0 <? nm ?v] => destruct (0 <? nm v) end;
      cbn [method_of type_name_of]; evx; repeat step; cbn [dyn_type]; rewrite Hmap; evx; repeat step; reflexivity.
  - nameless.
  - (* VNamed *) destruct from; try discriminate Hn.
    all: repeat step.
    all: match goal with |- context [0 <? nm ?v] => destruct (0 <? nm v) eqn:E end;
         cbn [method_of type_name_of fetch_fn_zero].
    all: try match goal with
         | |- context [fn_method fe ?t ?p ?n] =>
           try (match type of E with (0 <? nm ?v) = false =>
                  pose proof (Hm v n) as Hx; apply Z.ltb_ge in E; specialize (Hx E);
                  cbn [method_of type_name_of] in Hx end);
           destruct (fn_method fe t p n) as [id|] eqn:EM; try discriminate Hx
         end.
    all: evx; repeat step; reflexivity.
  - nameless.
Qed.
End Stage1.

(* ================================================================== the table: every callee is its own lemma *)
Section Knot.
Variable fe : fenv.
Variable nm : value -> Z.
Variable F : nat.

Notation sem := (psem_of fe nm p_equal F runtime_funs).

Ltac open_fn d := rewrite (psem_of_S fe nm p_equal F runtime_funs _ _ _ d) by reflexivity.

Lemma toInt_is_model : forall d v, num_ok v = true -> sem (S d) "toInt" [GI v] = toInt_spec v.
Proof. intros d v H. open_fn rt_toInt. apply toInt_bridge. exact H. Qed.

Lemma toInt64_is_model : forall d v, num_ok v = true -> sem (S d) "toInt64" [GI v] = toInt64_spec v.
Proof. intros d v H. open_fn rt_toInt64. apply toInt64_bridge. exact H. Qed.

Lemma toFloat64_is_model : forall d v, num_ok v = true -> sem (S d) "toFloat64" [GI v] = toFloat64_spec v.
Proof. intros d v H. open_fn rt_toFloat64. apply toFloat64_bridge. exact H. Qed.

Lemma negate_is_model : forall d v, sem (S d) "negate" [GI v] = negate_spec v.
Proof. intros d v. open_fn rt_negate. apply negate_bridge. Qed.

Lemma length_is_model : forall d v, named_ok v = true -> sem (S d) "length" [GI v] = length_spec v.
Proof. intros d v H. open_fn rt_length. apply length_bridge. exact H. Qed.

Lemma isNil_is_model : forall d v, named_ok v = true -> sem (S d) "isNil" [GI v] = GOk [GBool (is_nil v)].
Proof. intros d v H. open_fn rt_isNil. apply isNil_bridge. exact H. Qed.

Lemma makeRange_is_model : forall d lo hi, in_int lo -> in_int hi -> (hi < lo \/ hi - lo + 1 <= max_int) ->
  sem (S d) "makeRange" [gint lo; gint hi] = GOk [GInts (ints_from lo (range_count lo hi))].
Proof. intros d lo hi H1 H2 H3. open_fn rt_makeRange. apply makeRange_bridge; assumption. Qed.

Lemma exponent_is_model : forall d a b, num_ok a = true -> num_ok b = true ->
  sem (S (S d)) "exponent" [GI a; GI b] = exponent_spec fe a b.
Proof.
  intros d a b Ha Hb. open_fn rt_exponent. apply exponent_bridge; try assumption.
  intros v Hv. apply toFloat64_is_model. exact Hv.
Qed.

Lemma fetch_is_model : forall d from i nilsafe,
  named_ok from = true -> num_ok i = true -> str_key_ok i = true ->
  sem (S (S d)) "fetch" [GI from; GI i; GBool nilsafe] = fetch_spec from i nilsafe.
Proof.
  intros d from i nilsafe H1 H2 H3. open_fn rt_fetch. apply fetch_bridge; try assumption.
  intros v Hv. apply toInt_is_model. exact Hv.
Qed.

Lemma slice_is_model : forall d arr from to,
  not_named arr = true -> num_ok from = true -> num_ok to = true ->
  sem (S (S d)) "slice" [GI arr; GI from; GI to] = slice_spec arr from to.
Proof.
  intros d arr from to H1 H2 H3. open_fn rt_slice. apply slice_bridge; try assumption.
  - intros v Hv. apply toInt_is_model. exact Hv.
  - intros n f a b. open_fn rt_slice. apply slice_struct_bridge.
Qed.

Lemma in_is_model : forall d needle arr,
  named_ok arr = true -> str_key_ok needle = true -> len_ok arr ->
  (match arr with VArr _ l => (List.length l < F)%nat | VNilArr _ => (0 < F)%nat | _ => True end) ->
  sem (S (S d)) "in" [GI needle; GI arr] = in_spec needle arr.
Proof.
  intros d needle arr H1 H2 H3 H4. open_fn rt_in. apply in_bridge; try assumption.
  intros nd n f Hk. open_fn rt_in. apply in_struct_bridge. exact Hk.
Qed.

Lemma FetchFn_is_model : nmeth_sound fe nm -> forall d from name,
  named_ok from = true -> fn_map_ok from = true ->
  observed_fn (sem (S d) "FetchFn" [GI from; GStr name]) = Some (fetch_fn fe from name).
Proof. intros Hm d from name H1 H2. open_fn rt_FetchFn. apply FetchFn_bridge; assumption. Qed.

Lemma FetchFnNil_is_model : nmeth_sound fe nm -> forall d from name,
  named_ok from = true -> fn_map_ok from = true ->
  observed_fn (sem (S (S d)) "FetchFnNil" [GI from; GStr name]) = Some (fetch_fn fe from name).
Proof.
  intros Hm d from name H1 H2. open_fn rt_FetchFnNil. rewrite FetchFnNil_bridge.
  pose proof (FetchFn_is_model Hm d from name H1 H2) as B.
  destruct from; try reflexivity;
    (destruct (sem (S d) "FetchFn" _) as [[|r [|? ?]]| | |]; cbn [gbind observed_fn] in *;
     try discriminate B; try exact B;
     destruct r; try discriminate B; exact B).
Qed.

Lemma FetchFn_zero_is_model : nmeth_sound fe nm -> forall d from name,
  named_ok from = true -> fn_map_ok from = true ->
  observed_zero (sem (S d) "FetchFn" [GI from; GStr name]) = Some (fetch_fn_zero from name).
Proof. intros Hm d from name H1 H2. open_fn rt_FetchFn. apply FetchFn_zero_bridge; assumption. Qed.

(* FetchFnNil: the zero Value for a nil receiver, else whatever FetchFn returns *)
Lemma FetchFnNil_zero_is_model : nmeth_sound fe nm -> forall d from name,
  named_ok from = true -> fn_map_ok from = true ->
  observed_zero (sem (S (S d)) "FetchFnNil" [GI from; GStr name]) =
  Some (match from with VNil => true | _ => fetch_fn_zero from name end).
Proof.
  intros Hm d from name H1 H2. open_fn rt_FetchFnNil. rewrite FetchFnNil_bridge.
  pose proof (FetchFn_zero_is_model Hm d from name H1 H2) as B.
  destruct from; try reflexivity;
    (destruct (sem (S d) "FetchFn" _) as [[|r [|? ?]]| | |]; cbn [gbind observed_zero] in *;
     try discriminate B; try exact B;
     destruct r; try discriminate B; exact B).
Qed.
End Knot.

(* the zero-Value test of the nil-safe method call IS the source's: for every function environment, NumMethod oracle
   and receiver (inside the same conditions as FetchFn above), the Value the regenerated FetchFnNil returns is the
   zero Value exactly when the receiver is nil or Prim.fetch_fn_zero holds (a nil interface entry of an
   interface-typed map, a nil pointer entry of a pointer-typed map); the regenerated FetchFn returns it exactly
   when Prim.fetch_fn_zero holds.  Sem.eval (EMethod, nil-safe) and the model VM (IMethodNilSafe) answer nil there. *)
Definition fetch_fn_zero_is_source_statement : Prop :=
  forall (fe : fenv) (nm : value -> Z) (F d : nat),
  let run := pinterp fe nm p_equal F (S (S d)) runtime_funs in
  nmeth_sound fe nm -> forall from name, named_ok from = true -> fn_map_ok from = true ->
     observed_zero (run "FetchFn" [GI from; GStr name]) = Some (fetch_fn_zero from name)
  /\ observed_zero (run "FetchFnNil" [GI from; GStr name]) =
     Some (match from with VNil => true | _ => fetch_fn_zero from name end).

Theorem fetch_fn_zero_is_source : fetch_fn_zero_is_source_statement.
Proof.
  intros fe nm F d run Hm from name H1 H2. unfold run, pinterp.
  split; [apply FetchFn_zero_is_model|apply FetchFnNil_zero_is_model]; assumption.
Qed.

(* ================================================================== the whole *)
Definition model_runtime_is_source_statement : Prop :=
  forall (fe : fenv) (nm : value -> Z) (F d : nat),
  let run := pinterp fe nm p_equal F (S (S d)) runtime_funs in
     (forall from i nilsafe, named_ok from = true -> num_ok i = true -> str_key_ok i = true ->
        run "fetch" [GI from; GI i; GBool nilsafe] = of_outcome (p_fetch from i nilsafe) (fun r => [GI r]))
  /\ (forall arr from to, not_named arr = true -> num_ok from = true -> num_ok to = true ->
        run "slice" [GI arr; GI from; GI to] = of_outcome (p_slice arr from to) (fun r => [GI r]))
  /\ (forall needle arr, named_ok arr = true -> str_key_ok needle = true -> len_ok arr ->
        (match arr with VArr _ l => (List.length l < F)%nat | VNilArr _ => (0 < F)%nat | _ => True end) ->
        run "in" [GI needle; GI arr] = of_outcome (p_in needle arr) (fun b => [GBool b]))
  /\ (forall v, named_ok v = true -> run "length" [GI v] = of_outcome (p_length v) (fun z => [gint z]))
  /\ (forall v, run "negate" [GI v] = of_outcome (p_negate v) (fun r => [GI r]))
  /\ (forall a b, num_ok a = true -> num_ok b = true ->
        run "exponent" [GI a; GI b] =
        match to_float64 a with
        | Ok x => match to_float64 b with Ok y => GOk [GNum (NFlt KF64 (f_pow fe x y))] | Fail e => GFail e end
        | Fail e => GFail e
        end)
  /\ (forall lo hi, in_int lo -> in_int hi -> (hi < lo \/ hi - lo + 1 <= max_int) ->
        exists l, run "makeRange" [gint lo; gint hi] = GOk [GInts l] /\ VArr (TNum KInt) (map vint l) = make_range lo hi)
  /\ (forall v, num_ok v = true -> run "toInt" [GI v] = of_outcome (to_int v) (fun z => [gint z]))
  /\ (forall v, num_ok v = true -> run "toInt64" [GI v] = of_outcome (to_int64 v) (fun r => [as_gnum r]))
  /\ (forall v, num_ok v = true -> run "toFloat64" [GI v] = of_outcome (to_float64 v) (fun f => [GNum (NFlt KF64 f)]))
  /\ (forall v, named_ok v = true -> run "isNil" [GI v] = GOk [GBool (is_nil v)])
  /\ (nmeth_sound fe nm -> forall from name, named_ok from = true -> fn_map_ok from = true ->
        observed_fn (run "FetchFn" [GI from; GStr name]) = Some (fetch_fn fe from name)
        /\ observed_fn (run "FetchFnNil" [GI from; GStr name]) = Some (fetch_fn fe from name)).

Theorem model_runtime_is_source : model_runtime_is_source_statement.
Proof.
  intros fe nm F d run. unfold run, pinterp.
  split; [intros; apply fetch_is_model; assumption|].
  split; [intros; apply slice_is_model; assumption|].
  split; [intros; apply in_is_model; assumption|].
  split; [intros; apply length_is_model; assumption|].
  split; [intros; apply negate_is_model|].
  split; [intros; apply exponent_is_model; assumption|].
  split; [intros lo hi H1 H2 H3; exists (ints_from lo (range_count lo hi));
          split; [apply makeRange_is_model; assumption|apply make_range_ints]|].
  split; [intros; apply toInt_is_model; assumption|].
  split; [intros; apply toInt64_is_model; assumption|].
  split; [intros; apply toFloat64_is_model; assumption|].
  split; [intros; apply isNil_is_model; assumption|].
  intros Hm from name H1 H2. split; [apply FetchFn_is_model|apply FetchFnNil_is_model]; assumption.
Qed.

(* ================================================================== where the side conditions bite *)
(* Without `named_ok` / `not_named` / `str_key_ok` the statements are false of the model: reflect looks at the
   UNDERLYING type of a declared type (a named slice has a length, a named string can be sliced and names a
   field), Sem/Prim.v has cases for named strings only in p_fetch and p_length.  Witnesses, by computation: *)
Definition w_fe : fenv :=
  mkFenv (fun _ => None) (fun _ _ _ => Fail EUser) (fun _ _ _ => None) (fun _ _ => None) (fun x _ => x).
Definition w_run := pinterp w_fe (fun _ => 0) p_equal 10 3 runtime_funs.

Definition length_full_statement : Prop :=
  forall v, w_run "length" [GI v] = of_outcome (p_length v) (fun z => [gint z]).
Lemma length_full_statement_refuted : ~ length_full_statement.
Proof. intro H. specialize (H (VNamed "Ids" (VArr (TNum KInt) [vint 7]))). vm_compute in H. discriminate H. Qed.

Definition slice_full_statement : Prop :=
  forall arr from to, w_run "slice" [GI arr; GI from; GI to] = of_outcome (p_slice arr from to) (fun r => [GI r]).
Lemma slice_full_statement_refuted : ~ slice_full_statement.
Proof. intro H. specialize (H (VNamed "Name" (VStr "abc")) (vint 0) (vint 1)). vm_compute in H. discriminate H. Qed.

Definition fetch_full_statement : Prop :=
  forall from i, w_run "fetch" [GI from; GI i; GBool false] = of_outcome (p_fetch from i false) (fun r => [GI r]).
Lemma fetch_full_statement_refuted : ~ fetch_full_statement.
Proof.
  intro H. specialize (H (VStruct "T" false [("A", vint 1)]) (VNamed "Name" (VStr "A"))).
  vm_compute in H. discriminate H.
Qed.

(* makeRange beyond the size the machine allows (Prim.range_size = None): Go's size wraps to <= 0 and the
   slice is empty, make_range has 2^64 elements; not refutable by computation, excluded by a side condition *)

(* ================================================================== examples (non-vacuity) *)
Definition ex_arr : value := VArr TIface [vint 1; VStr "a"; VNil].
Definition ex_map : value := VMap TString (TNum KInt) [(VStr "a", vint 1)].
Definition ex_ptr : value := VStruct "T" true [("A", vint 1)].

Definition genruntime_examples_statement : Prop :=
     w_run "fetch" [GI ex_arr; GI (vint 1); GBool false] = GOk [GI (VStr "a")]
  /\ w_run "fetch" [GI ex_map; GI VNil; GBool false] = GFail ENilDeref
  /\ w_run "fetch" [GI ex_map; GI (VStr "zz"); GBool false] = GOk [GI (vint 0)]
  /\ w_run "fetch" [GI ex_ptr; GI (VStr "B"); GBool true] = GOk [GI VNil]
  /\ w_run "slice" [GI ex_arr; GI (vint 1); GI (vint 10)] = GOk [GI (VArr TIface [VStr "a"; VNil])]
  /\ w_run "slice" [GI ex_arr; GI (vint (-1)); GI (vint 2)] = GFail EIndexRange
  /\ w_run "in" [GI (VStr "A"); GI ex_ptr] = GOk [GBool true]
  /\ w_run "in" [GI VNil; GI ex_map] = GFail ENotIn
  /\ w_run "in" [GI VNil; GI ex_arr] = GOk [GBool true]
  /\ w_run "makeRange" [gint 3; gint 6] = GOk [GInts [3; 4; 5; 6]]
  /\ (named_ok ex_arr = true /\ named_ok ex_map = true /\ named_ok ex_ptr = true /\ not_named ex_arr = true
      /\ num_ok (vint 1) = true /\ str_key_ok (VStr "A") = true /\ len_ok ex_arr /\ (3 < 10)%nat
      /\ in_int 3 /\ in_int 6 /\ 6 - 3 + 1 <= max_int).

Example genruntime_examples : genruntime_examples_statement.
Proof.
  unfold genruntime_examples_statement.
  repeat (split; [vm_compute; reflexivity|]).
  unfold len_ok, ex_arr, in_int, min_int, max_int. cbn [List.length]. lia.
Qed.

(* Bridge/BrLexerRoot.v — stage 1 of the lexer bridge, the state function root (see Bridge/BrLexer.v). *)
From Coq Require Import ZArith List Bool String Ascii Lia.
Require Import X.Base.Value X.Syn.Tok X.Lex.Lexer X.Lex.LexRules X.Lex.LexRulesProofs X.gen.GenLexer X.Bridge.BrLexerTac.
Import ListNotations.
Local Open Scope string_scope.
Open Scope Z_scope.

Section Stage1.
Variables ul ud us : Z -> bool.
Variable F : nat.
Variable call : string -> list val -> gst -> res (list val).

Notation sig := (sig_ok ul ud us call F).
Notation fn_ok := (fn_ok ul ud us F call).

Lemma root_bridge :
  sig "next" -> sig "emitEOF" -> sig "IsSpace" -> sig "ignore" -> sig "scanString" -> sig "unescape" -> sig "word" ->
  sig "error" -> sig "emitValue" -> sig "backup" -> sig "peek" -> sig "emit" -> sig "accept" -> sig "IsAlphaNumeric" ->
  fn_ok fn_root.
Proof.
  intros H1 H2 H3 H4 H5 H6 H7 H8 H9 H10 H11 H12 H13 H14 args g T. no_args args T. go. unfold g_root. go.
  repeat case_step.
  all: reflexivity.
Qed.
End Stage1.

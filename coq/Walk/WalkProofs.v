(* Walk/WalkProofs.v — generic theorems about the walker model, for ALL trees and ALL visitors
   (induction on esize; no depth bound).  Everything is stated against the reference notions of
   Walk.v, which are written from Ast.children.  `table_ok tbl` (the table equals the reference
   table at every kind) is what Bridge/BrC10.v establishes for the table regenerated from
   ast/visitor.go. *)
From Coq Require Import ZArith Bool List String Lia Permutation Floats.
Require Import X.Base.Num X.Base.Value X.Syn.Ast X.Walk.Walk.
Import ListNotations.
Local Open Scope nat_scope.

(* ------------------------------------------------------------------ trees: size, induction, fold *)
Lemma esize_children e : esize e = S (lsize (children e)).
Proof.
  destruct e; cbn [esize children lsize opt_list app]; try lia; try reflexivity.
  destruct from, to; cbn [opt_list app lsize]; lia.
Qed.

Lemma in_lsize x l : In x l -> esize x <= lsize l.
Proof. induction l as [|y r IH]; cbn [In lsize]; [tauto|]. intros [->|H]; [lia|]. specialize (IH H). lia. Qed.

Lemma child_smaller e c : In c (children e) -> esize c < esize e.
Proof. intros H. rewrite (esize_children e). pose proof (in_lsize _ _ H). lia. Qed.

Lemma esize_pos e : 1 <= esize e.
Proof. rewrite esize_children. lia. Qed.

(* induction over trees through the reference `children` *)
Lemma expr_children_ind (P : expr -> Prop) :
  (forall e, (forall c, In c (children e) -> P c) -> P e) -> forall e, P e.
Proof.
  intros H. assert (G : forall n e, esize e <= n -> P e).
  { induction n as [|n IH]; intros e Hn.
    - pose proof (esize_pos e). lia.
    - apply H. intros c Hc. apply IH. pose proof (child_smaller _ _ Hc). lia. }
  intros e. exact (G (esize e) e (le_n _)).
Qed.

Lemma go_map {A} (f : expr -> list A -> A) l :
  (fix go (l : list expr) : list A := match l with [] => [] | x :: r => tree_fold f x :: go r end) l
  = map (tree_fold f) l.
Proof. induction l as [|x r IH]; [reflexivity|]. cbn [map]. rewrite <- IH. reflexivity. Qed.

Lemma tree_fold_eq {A} (f : expr -> list A -> A) e :
  tree_fold f e = f e (map (tree_fold f) (children e)).
Proof.
  destruct e; cbn [tree_fold children map opt_list app]; rewrite ?go_map; try reflexivity.
  destruct from, to; reflexivity.
Qed.

Lemma spec_events_eq e :
  spec_events e = EvEnter e :: List.concat (map spec_events (children e)) ++ [EvExit e].
Proof. unfold spec_events. exact (tree_fold_eq _ e). Qed.
Lemma preorder_eq e : preorder e = e :: List.concat (map preorder (children e)).
Proof. unfold preorder. exact (tree_fold_eq _ e). Qed.
Lemma postorder_eq e : postorder e = List.concat (map postorder (children e)) ++ [e].
Proof. unfold postorder. exact (tree_fold_eq _ e). Qed.
Lemma map_tree_eq f e : map_tree f e = f (set_children e (map (map_tree f) (children e))).
Proof. unfold map_tree. exact (tree_fold_eq _ e). Qed.
Lemma ref_traverse_eq {St} (x : xvisitor St) e s :
  ref_traverse x e s =
  x_exit x (fst (thread (map (ref_traverse x) (children e)) (x_enter x s e)))
           (set_children e (snd (thread (map (ref_traverse x) (children e)) (x_enter x s e)))).
Proof. unfold ref_traverse. exact (f_equal (fun g => g s) (tree_fold_eq _ e)). Qed.

(* ------------------------------------------------------------------ set_children is characterised by two laws *)
Lemma set_children_id e : set_children e (children e) = e.
Proof. destruct e; try reflexivity. destruct from, to; reflexivity. Qed.

Lemma children_set_children e cs :
  List.length cs = List.length (children e) -> children (set_children e cs) = cs.
Proof.
  destruct e; cbn [children set_children List.length];
    try (destruct cs as [|c1 [|c2 [|c3 [|c4 cs]]]]; cbn; intros; try discriminate; reflexivity);
    try (intros; reflexivity).
  destruct from, to; destruct cs as [|c1 [|c2 [|c3 [|c4 cs]]]]; cbn; intros; try discriminate; reflexivity.
Qed.

Lemma nkind_set_children e cs : nkind_of (set_children e cs) = nkind_of e.
Proof. destruct e; reflexivity. Qed.
Lemma ann_set_children e cs : ann_of (set_children e cs) = ann_of e.
Proof. destruct e; reflexivity. Qed.

(* ------------------------------------------------------------------ the reference table is the slot structure of Ast.children *)
Lemma ref_slots_children e :
  flat_map (fun sl => slot_get e (fst sl)) (ref_slots (nkind_of e)) = children e.
Proof.
  destruct e; cbn [nkind_of ref_slots flat_map slot_get fst children app opt_list]; rewrite ?app_nil_r; try reflexivity.
Qed.

Lemma ref_slots_modes_fit e f :
  In (f, Single) (ref_slots (nkind_of e)) -> List.length (slot_get e f) = 1.
Proof.
  destruct e; cbn [nkind_of ref_slots In]; intros H;
    repeat (destruct H as [H|H]; [inversion H; subst; reflexivity|]); contradiction.
Qed.

Definition table_ok (tbl : table) : Prop := forall k, tbl k = ref_slots k.

Lemma ref_table_ok : table_ok ref_slots.
Proof. intros k. reflexivity. Qed.

(* ------------------------------------------------------------------ heart: table-driven slot walking = walking `children` in order *)
Definition lift_l {St} (e : expr) (r : lres St) : wres St :=
  match r with LDone s cs => WDone s (set_children e cs) | LPanic => WPanic | LOutOfFuel => WOutOfFuel end.

Ltac split_rec :=
  repeat match goal with
         | |- context[match ?rec ?s ?c with WDone _ _ => _ | WPanic => _ | WOutOfFuel => _ end] =>
             destruct (rec s c); cbn
         | |- context[match walk_list ?rec ?s ?l with LDone _ _ => _ | LPanic => _ | LOutOfFuel => _ end] =>
             destruct (walk_list rec s l); cbn
         end.

Lemma walk_slots_ref {St} (rec : St -> expr -> wres St) s e :
  walk_slots rec (ref_slots (nkind_of e)) s e = lift_l e (walk_list rec s (children e)).
Proof.
  destruct e; try reflexivity;
    try (cbn; split_rec; reflexivity).
  destruct from, to; cbn; split_rec; reflexivity.
Qed.

(* the one-step law, for every visitor (replacing at Enter, at Exit, or both) and every tree:
   Enter on the node; then every child of the ENTERED node (reference `children`), left to
   right; then Exit on the node with the walked children; the result is what Exit returns *)
Lemma walk_step {St} n tbl (v : visitor St) s e : table_ok tbl ->
  walk (S n) tbl v s e =
  match walk_list (walk n tbl v) (fst (v_enter v s e)) (children (snd (v_enter v s e))) with
  | LDone s2 cs =>
      WDone (fst (v_exit v s2 (set_children (snd (v_enter v s e)) cs)))
            (snd (v_exit v s2 (set_children (snd (v_enter v s e)) cs)))
  | LPanic => WPanic
  | LOutOfFuel => WOutOfFuel
  end.
Proof.
  intros H. cbn [walk]. rewrite H, walk_slots_ref.
  destruct (walk_list _ _ _); reflexivity.
Qed.

Lemma walk_list_length {St} (rec : St -> expr -> wres St) l : forall s s' l',
  walk_list rec s l = LDone s' l' -> List.length l' = List.length l.
Proof.
  induction l as [|c r IH]; cbn [walk_list]; intros s s' l' H.
  - inversion H. reflexivity.
  - destruct (rec s c) as [s1 c'| |]; try discriminate.
    destruct (walk_list rec s1 r) as [s2 r'| |] eqn:E; try discriminate.
    inversion H; subst. cbn. f_equal. eapply IH. exact E.
Qed.

(* ------------------------------------------------------------------ visitors that do not replace at Enter: the walker IS the reference traversal *)
Lemma walk_list_thread {St} (rec : St -> expr -> wres St) (g : expr -> St -> St * expr) l :
  (forall c, In c l -> forall s, rec s c = WDone (fst (g c s)) (snd (g c s))) ->
  forall s, walk_list rec s l = LDone (fst (thread (map g l) s)) (snd (thread (map g l) s)).
Proof.
  induction l as [|c r IH]; intros H s; [reflexivity|].
  cbn [walk_list map thread]. rewrite (H c (or_introl eq_refl)).
  rewrite IH by (intros c' Hc'; apply H; right; exact Hc'). reflexivity.
Qed.

Theorem walk_is_ref_traverse {St} tbl (x : xvisitor St) : table_ok tbl ->
  forall e n s, esize e <= n ->
  walk n tbl (to_visitor x) s e = WDone (fst (ref_traverse x e s)) (snd (ref_traverse x e s)).
Proof.
  intros Hok e. induction e as [e IH] using expr_children_ind. intros n s Hn.
  destruct n as [|n]; [pose proof (esize_pos e); lia|].
  rewrite walk_step by exact Hok. cbn [to_visitor v_enter v_exit fst snd].
  rewrite (walk_list_thread _ (ref_traverse x)).
  - rewrite (ref_traverse_eq x e s). reflexivity.
  - intros c Hc s'. apply IH; [exact Hc|]. pose proof (child_smaller _ _ Hc). lia.
Qed.

(* ------------------------------------------------------------------ C10_events: the recording visitor sees exactly spec_events *)
Lemma thread_log (g : expr -> list event -> list event * expr) (h : expr -> list event) cs :
  (forall c, In c cs -> forall l, g c l = (l ++ h c, c)) ->
  forall l, thread (map g cs) l = (l ++ List.concat (map h cs), cs).
Proof.
  induction cs as [|c r IH]; intros H l; cbn [map thread List.concat].
  - rewrite app_nil_r. reflexivity.
  - rewrite (H c (or_introl eq_refl)). cbn [fst snd].
    rewrite IH by (intros c' Hc'; apply H; right; exact Hc'). cbn [fst snd].
    rewrite <- app_assoc. reflexivity.
Qed.

Lemma ref_traverse_logger e : forall l, ref_traverse xlogger e l = (l ++ spec_events e, e).
Proof.
  induction e as [e IH] using expr_children_ind. intros l.
  rewrite ref_traverse_eq. rewrite (thread_log _ spec_events) by exact IH.
  cbn [fst snd xlogger x_enter x_exit]. rewrite set_children_id.
  rewrite (spec_events_eq e). rewrite <- !app_assoc. reflexivity.
Qed.

Theorem walk_logger_events tbl : table_ok tbl ->
  forall e n l, esize e <= n -> walk n tbl logger l e = WDone (l ++ spec_events e) e.
Proof.
  intros Hok e n l Hn. change logger with (to_visitor xlogger).
  rewrite (walk_is_ref_traverse tbl xlogger Hok e n l Hn). rewrite ref_traverse_logger. reflexivity.
Qed.

(* ------------------------------------------------------------------ what spec_events says: every node exactly once, in order *)
Lemma enters_app a b : enters (a ++ b) = enters a ++ enters b.
Proof. unfold enters. apply flat_map_app. Qed.
Lemma exits_app a b : exits (a ++ b) = exits a ++ exits b.
Proof. unfold exits. apply flat_map_app. Qed.

Lemma enters_cons_enter e l : enters (EvEnter e :: l) = e :: enters l.
Proof. reflexivity. Qed.
Lemma enters_cons_exit e l : enters (EvExit e :: l) = enters l.
Proof. reflexivity. Qed.
Lemma exits_cons_enter e l : exits (EvEnter e :: l) = exits l.
Proof. reflexivity. Qed.
Lemma exits_cons_exit e l : exits (EvExit e :: l) = e :: exits l.
Proof. reflexivity. Qed.

Lemma enters_concat ls : enters (List.concat ls) = List.concat (map enters ls).
Proof. induction ls as [|a r IH]; [reflexivity|]. cbn [List.concat map]. rewrite enters_app, IH. reflexivity. Qed.
Lemma exits_concat ls : exits (List.concat ls) = List.concat (map exits ls).
Proof. induction ls as [|a r IH]; [reflexivity|]. cbn [List.concat map]. rewrite exits_app, IH. reflexivity. Qed.

Lemma map_ext_in' {A B} (f g : A -> B) l : (forall x, In x l -> f x = g x) -> map f l = map g l.
Proof. induction l as [|a r IH]; intros H; [reflexivity|]. cbn. rewrite (H a (or_introl eq_refl)), IH; [reflexivity|]. intros; apply H; right; assumption. Qed.

Theorem spec_enters_preorder e : enters (spec_events e) = preorder e.
Proof.
  induction e as [e IH] using expr_children_ind.
  rewrite spec_events_eq, preorder_eq.
  rewrite enters_cons_enter, enters_app, enters_concat, map_map, enters_cons_exit. cbn [enters flat_map].
  rewrite app_nil_r. rewrite (map_ext_in' _ preorder _ IH). reflexivity.
Qed.

Theorem spec_exits_postorder e : exits (spec_events e) = postorder e.
Proof.
  induction e as [e IH] using expr_children_ind.
  rewrite spec_events_eq, postorder_eq.
  rewrite exits_cons_enter, exits_app, exits_concat, map_map, exits_cons_exit. cbn [exits flat_map].
  rewrite (map_ext_in' _ postorder _ IH). reflexivity.
Qed.

Lemma length_concat_map {A} (f : A -> nat) (g : A -> list expr) l :
  (forall x, In x l -> List.length (g x) = f x) ->
  List.length (List.concat (map g l)) = fold_right (fun x acc => f x + acc) 0 l.
Proof.
  induction l as [|a r IH]; intros H; [reflexivity|]. cbn [map List.concat fold_right].
  rewrite app_length, (H a (or_introl eq_refl)), IH; [reflexivity|]. intros; apply H; right; assumption.
Qed.

Lemma lsize_fold l : lsize l = fold_right (fun x acc => esize x + acc) 0 l.
Proof. induction l as [|a r IH]; [reflexivity|]. cbn [lsize fold_right]. rewrite IH. reflexivity. Qed.

(* the number of nodes is esize: no node is missing from, none occurs twice in, the pre-order *)
Theorem preorder_length e : List.length (preorder e) = esize e.
Proof.
  induction e as [e IH] using expr_children_ind.
  rewrite preorder_eq, esize_children. cbn [List.length]. f_equal.
  rewrite (length_concat_map esize preorder _ IH). symmetry. apply lsize_fold.
Qed.

Lemma perm_concat_map (f g : expr -> list expr) l :
  (forall x, In x l -> Permutation (f x) (g x)) ->
  Permutation (List.concat (map f l)) (List.concat (map g l)).
Proof.
  induction l as [|a r IH]; intros H; [constructor|]. cbn [map List.concat].
  apply Permutation_app; [apply H; left; reflexivity|apply IH; intros; apply H; right; assumption].
Qed.

Theorem pre_post_permutation e : Permutation (preorder e) (postorder e).
Proof.
  induction e as [e IH] using expr_children_ind.
  rewrite preorder_eq, postorder_eq.
  eapply Permutation_trans; [|apply Permutation_cons_append].
  constructor. apply perm_concat_map. exact IH.
Qed.

Lemma loc_eq_dec (a b : loc) : {a = b} + {a <> b}.
Proof. decide equality; apply Z.eq_dec. Qed.

(* with pairwise distinct locations as node identities: every node of the tree is entered exactly
   once and exited exactly once *)
Theorem spec_events_exactly_once e :
  NoDup (map loc_of (preorder e)) ->
  forall x, In x (preorder e) ->
    count_occ loc_eq_dec (map loc_of (enters (spec_events e))) (loc_of x) = 1 /\
    count_occ loc_eq_dec (map loc_of (exits (spec_events e))) (loc_of x) = 1.
Proof.
  intros ND x Hx. rewrite spec_enters_preorder, spec_exits_postorder.
  assert (P : Permutation (map loc_of (preorder e)) (map loc_of (postorder e)))
    by (apply Permutation_map, pre_post_permutation).
  split.
  - apply NoDup_count_occ'; [exact ND|]. apply in_map. exact Hx.
  - apply NoDup_count_occ'; [eapply Permutation_NoDup; [exact P|exact ND]|].
    apply in_map. eapply Permutation_in; [apply pre_post_permutation|exact Hx].
Qed.

(* ------------------------------------------------------------------ replacing visitors *)
(* (a) any visitor that does not replace at Enter (arbitrary replacements at Exit, arbitrary
       state): Enter is called on exactly the nodes of the ORIGINAL tree, in pre-order *)
Lemma walk_list_enters {St} (rec : St * list event -> expr -> wres (St * list event)) cs :
  (forall c, In c cs -> forall s l s' l' c', rec (s, l) c = WDone (s', l') c' -> enters l' = enters l ++ preorder c) ->
  forall s l s' l' cs', walk_list rec (s, l) cs = LDone (s', l') cs' ->
    enters l' = enters l ++ List.concat (map preorder cs).
Proof.
  induction cs as [|c r IH]; intros H s l s' l' cs' E; cbn [walk_list] in E.
  - inversion E; subst. cbn. rewrite app_nil_r. reflexivity.
  - destruct (rec (s, l) c) as [[s1 l1] c1| |] eqn:E1; try discriminate.
    destruct (walk_list rec (s1, l1) r) as [[s2 l2] r'| |] eqn:E2; try discriminate.
    inversion E; subst. cbn [map List.concat].
    rewrite (IH (fun c' Hc' => H c' (or_intror Hc')) _ _ _ _ _ E2).
    rewrite (H c (or_introl eq_refl) _ _ _ _ _ E1). rewrite app_assoc. reflexivity.
Qed.

Theorem walk_enters_original {St} tbl (v : visitor St) : table_ok tbl ->
  (forall s e, snd (v_enter v s e) = e) ->
  forall n e s l s' l' e', walk n tbl (instrument v) (s, l) e = WDone (s', l') e' ->
    enters l' = enters l ++ preorder e.
Proof.
  intros Hok Hen. induction n as [|n IH]; intros e s l s' l' e' E; [discriminate|].
  rewrite walk_step in E by exact Hok. cbn [instrument v_enter v_exit fst snd] in E.
  rewrite Hen in E.
  destruct (walk_list _ _ _) as [[s2 l2] cs| |] eqn:EL; try discriminate.
  inversion E; subst. rewrite enters_app. cbn [enters flat_map app]. rewrite app_nil_r.
  rewrite (walk_list_enters _ (children e) (fun c _ => IH c) _ _ _ _ _ EL).
  rewrite enters_app. cbn [enters flat_map app]. rewrite preorder_eq, <- app_assoc. reflexivity.
Qed.

(* (b) any visitor that does not replace at Exit (arbitrary replacements at Enter, arbitrary
       state): Exit is called on exactly the nodes of the RESULTING tree, in post-order *)
Lemma walk_list_exits {St} (rec : St * list event -> expr -> wres (St * list event)) cs :
  (forall c, In c cs -> forall s l s' l' c', rec (s, l) c = WDone (s', l') c' -> exits l' = exits l ++ postorder c') ->
  forall s l s' l' cs', walk_list rec (s, l) cs = LDone (s', l') cs' ->
    exits l' = exits l ++ List.concat (map postorder cs').
Proof.
  induction cs as [|c r IH]; intros H s l s' l' cs' E; cbn [walk_list] in E.
  - inversion E; subst. cbn. rewrite app_nil_r. reflexivity.
  - destruct (rec (s, l) c) as [[s1 l1] c1| |] eqn:E1; try discriminate.
    destruct (walk_list rec (s1, l1) r) as [[s2 l2] r'| |] eqn:E2; try discriminate.
    inversion E; subst. cbn [map List.concat].
    rewrite (IH (fun c' Hc' => H c' (or_intror Hc')) _ _ _ _ _ E2).
    rewrite (H c (or_introl eq_refl) _ _ _ _ _ E1). rewrite app_assoc. reflexivity.
Qed.

Theorem walk_exits_result {St} tbl (v : visitor St) : table_ok tbl ->
  (forall s e, snd (v_exit v s e) = e) ->
  forall n e s l s' l' e', walk n tbl (instrument v) (s, l) e = WDone (s', l') e' ->
    exits l' = exits l ++ postorder e'.
Proof.
  intros Hok Hex. induction n as [|n IH]; intros e s l s' l' e' E; [discriminate|].
  rewrite walk_step in E by exact Hok. cbn [instrument v_enter v_exit fst snd] in E.
  destruct (walk_list _ _ _) as [[s2 l2] cs| |] eqn:EL; try discriminate.
  cbn [fst snd] in E. rewrite Hex in E. inversion E; subst.
  rewrite exits_app. cbn [exits flat_map app].
  rewrite (walk_list_exits _ _ (fun c _ => IH c) _ _ _ _ _ EL).
  rewrite exits_app. cbn [exits flat_map app]. rewrite app_nil_r.
  rewrite (postorder_eq (set_children _ cs)).
  rewrite children_set_children by (eapply walk_list_length; exact EL).
  rewrite <- app_assoc. reflexivity.
Qed.

(* (c) visitors that do not replace at Enter: the identities (phase, kind, location) of all events
       are those of spec_events of the original tree, whatever is replaced at Exit *)
Lemma ev_id_exit_set_children e cs : ev_id (EvExit (set_children e cs)) = ev_id (EvExit e).
Proof. unfold ev_id, loc_of. cbn [ev_is_enter ev_node]. rewrite nkind_set_children, ann_set_children. reflexivity. Qed.

Lemma thread_ids {St} (x : xvisitor St) cs :
  (forall c, In c cs -> forall s l,
      map ev_id (snd (fst (ref_traverse (xinstrument x) c (s, l)))) = map ev_id l ++ map ev_id (spec_events c)) ->
  forall s l,
    map ev_id (snd (fst (thread (map (ref_traverse (xinstrument x)) cs) (s, l)))) =
    map ev_id l ++ map ev_id (List.concat (map spec_events cs)).
Proof.
  induction cs as [|c r IH]; intros H s l; cbn [map thread List.concat fst snd].
  - rewrite app_nil_r. reflexivity.
  - destruct (ref_traverse (xinstrument x) c (s, l)) as [[s1 l1] c1] eqn:E1. cbn [fst snd].
    rewrite (IH (fun c' Hc' => H c' (or_intror Hc')) s1 l1).
    pose proof (H c (or_introl eq_refl) s l) as H1. rewrite E1 in H1. cbn [fst snd] in H1.
    rewrite H1, map_app, app_assoc. reflexivity.
Qed.

Theorem ref_traverse_event_ids {St} (x : xvisitor St) e : forall s l,
  map ev_id (snd (fst (ref_traverse (xinstrument x) e (s, l)))) = map ev_id l ++ map ev_id (spec_events e).
Proof.
  induction e as [e IH] using expr_children_ind. intros s l.
  rewrite ref_traverse_eq. cbn [xinstrument x_enter x_exit fst snd].
  destruct (thread _ _) as [[s2 l2] cs] eqn:ET. cbn [fst snd].
  pose proof (thread_ids x (children e) IH (x_enter x s e) (l ++ [EvEnter e])) as HT.
  cbn [xinstrument x_enter x_exit] in HT. rewrite ET in HT. cbn [fst snd] in HT.
  rewrite map_app, HT, spec_events_eq. cbn [map]. rewrite !map_app. cbn [map].
  rewrite ev_id_exit_set_children. rewrite <- !app_assoc. reflexivity.
Qed.

(* ------------------------------------------------------------------ C10_replace_effective *)
Lemma thread_pure (f : expr -> expr) cs :
  (forall c, In c cs -> forall s, ref_traverse (pure_exit f) c s = (s, map_tree f c)) ->
  forall s, thread (map (ref_traverse (pure_exit f)) cs) s = (s, map (map_tree f) cs).
Proof.
  induction cs as [|c r IH]; intros H s; [reflexivity|]. cbn [map thread].
  rewrite (H c (or_introl eq_refl)). cbn [fst snd].
  rewrite IH by (intros c' Hc'; apply H; right; exact Hc'). reflexivity.
Qed.

Lemma ref_traverse_pure f e : forall s, ref_traverse (pure_exit f) e s = (s, map_tree f e).
Proof.
  induction e as [e IH] using expr_children_ind. intros s.
  rewrite ref_traverse_eq. cbn [pure_exit x_enter x_exit].
  rewrite (thread_pure f _ IH). cbn [fst snd]. rewrite (map_tree_eq f e). reflexivity.
Qed.

(* a replacement function applied at Exit: the walker returns the tree with the function applied
   at EVERY position, bottom-up *)
Theorem walk_pure_exit_map_tree tbl f : table_ok tbl ->
  forall e n s, esize e <= n -> walk n tbl (to_visitor (pure_exit f)) s e = WDone s (map_tree f e).
Proof.
  intros Hok e n s Hn. rewrite (walk_is_ref_traverse tbl _ Hok e n s Hn), ref_traverse_pure. reflexivity.
Qed.

(* positions *)
Lemma children_map_tree_unchanged f e :
  f (set_children e (map (map_tree f) (children e))) = set_children e (map (map_tree f) (children e)) ->
  children (map_tree f e) = map (map_tree f) (children e).
Proof.
  intros H. rewrite map_tree_eq, H. apply children_set_children. apply map_length.
Qed.

(* the visitor "replace every node that satisfies m by (a Patch of) t" *)
Definition replace_marked (m : expr -> bool) (t : expr) (x : expr) : expr := if m x then patch x t else x.

(* a marked node at ANY position of the tree (path through any child slot of any node kind:
   sliced or indexed operand, closure body, argument, map key or value, branch, ...) is replaced
   in the result *)
Theorem replace_at_any_position m t :
  (forall x, m x = true -> children x = []) ->
  forall p e x, subterm_at p e = Some x -> m x = true ->
    subterm_at p (map_tree (replace_marked m t) e) = Some (patch x t).
Proof.
  intros Hleaf. induction p as [|i q IH]; intros e x Hs Hm; cbn [subterm_at] in *.
  - inversion Hs; subst. rewrite map_tree_eq, (Hleaf x Hm). cbn [map].
    pose proof (set_children_id x) as Hid. rewrite (Hleaf x Hm) in Hid. rewrite Hid.
    unfold replace_marked. rewrite Hm. reflexivity.
  - destruct (nth_error (children e) i) as [c|] eqn:En; [|discriminate].
    rewrite children_map_tree_unchanged.
    + rewrite nth_error_map, En. cbn [option_map]. apply IH; assumption.
    + destruct (m (set_children e (map (map_tree (replace_marked m t)) (children e)))) eqn:Em;
        [|unfold replace_marked at 1; rewrite Em; reflexivity].
      exfalso. apply Hleaf in Em. rewrite children_set_children in Em by apply map_length.
      destruct (children e); [destruct i; discriminate|discriminate].
Qed.

Lemma existsb_concat {A} (m : A -> bool) ls : existsb m (List.concat ls) = existsb (existsb m) ls.
Proof. induction ls as [|a r IH]; [reflexivity|]. cbn [List.concat existsb]. rewrite existsb_app, IH. reflexivity. Qed.

Lemma exists_node_eq m e : exists_node m e = m e || existsb (exists_node m) (children e).
Proof.
  unfold exists_node. rewrite preorder_eq. cbn [existsb]. f_equal.
  rewrite existsb_concat. induction (children e) as [|c r IH]; [reflexivity|]. cbn [map existsb]. rewrite IH. reflexivity.
Qed.

Lemma existsb_false_in {A} (g : A -> bool) l : (forall c, In c l -> g c = false) -> existsb g l = false.
Proof. induction l as [|a r IH]; intros H; [reflexivity|]. cbn. rewrite (H a (or_introl eq_refl)), IH; [reflexivity|]. intros; apply H; right; assumption. Qed.

(* after the walk no node that the replacement function eliminates is left anywhere in the tree *)
Theorem no_marked_node_remains m f :
  (forall x, (forall c, In c (children x) -> exists_node m c = false) -> exists_node m (f x) = false) ->
  forall e, exists_node m (map_tree f e) = false.
Proof.
  intros H. induction e as [e IH] using expr_children_ind.
  rewrite map_tree_eq. apply H. intros c Hc.
  rewrite children_set_children in Hc by apply map_length.
  apply in_map_iff in Hc. destruct Hc as (c0 & <- & Hc0). apply IH. exact Hc0.
Qed.

Corollary replace_marked_eliminates m t :
  (forall a, exists_node m (set_ann t a) = false) ->
  forall e, exists_node m (map_tree (replace_marked m t) e) = false.
Proof.
  intros Ht. apply no_marked_node_remains. intros x Hc. unfold replace_marked.
  destruct (m x) eqn:Em; [apply Ht|].
  rewrite exists_node_eq, Em. cbn [orb]. apply existsb_false_in. exact Hc.
Qed.

(* ------------------------------------------------------------------ every slot of the table is necessary *)
(* a tree of kind k with a recognisable leaf in every child position: identifier named after the position *)
Definition probe (i : Z) : expr := EInt (at_loc (9%Z, i)) i.
Definition sample_of (k : nkind) : expr :=
  let a := at_loc (1%Z, 0%Z) in
  match k with
  | NkNil => ENil a | NkIdentifier => EIdent a "x" false | NkInteger => EInt a 0%Z | NkFloat => EFloat a 0%float
  | NkBool => EBool a true | NkString => EStr a "" | NkConstant => EConst a VNil | NkPointer => EPointer a
  | NkUnary => EUnary a UMinus (probe 1)
  | NkBinary => EBinary a BAdd (probe 1) (probe 2)
  | NkMatches => EMatches a None (probe 1) (probe 2)
  | NkProperty => EProperty a (probe 1) "p" false
  | NkIndex => EIndex a (probe 1) (probe 2)
  | NkSlice => ESlice a (probe 1) (Some (probe 2)) (Some (probe 3))
  | NkMethod => EMethod a (probe 1) "m" [probe 2; probe 3] false
  | NkFunction => EFunction a "f" [probe 1; probe 2] false
  | NkBuiltin => EBuiltin a BiLen [probe 1; probe 2]
  | NkClosure => EClosure a (probe 1)
  | NkConditional => ECond a (probe 1) (probe 2) (probe 3)
  | NkArray => EArray a [probe 1; probe 2]
  | NkMap => EMap a [probe 1; probe 2]
  | NkPair => EPair a (probe 1) (probe 2)
  end%string.

Definition expr_loc_in (c : expr) (l : list expr) : bool := existsb (fun y => loc_eqb (loc_of y) (loc_of c)) l.

(* the nodes the recording visitor is handed at Enter when the walker uses table tbl *)
Definition entered_by (tbl : table) (e : expr) : list expr :=
  match walk (esize e) tbl logger [] e with WDone l _ => enters l | _ => [] end.

(* some child of the sample tree of kind k is never entered when the slot is left out of the
   table (and is entered with the full table) *)
Definition slot_needed (k : nkind) (sl : slot) : bool :=
  existsb (fun c => negb (expr_loc_in c (entered_by (drop_slot k (fst sl) ref_slots) (sample_of k)))
                    && expr_loc_in c (entered_by ref_slots (sample_of k)))
          (children (sample_of k)).

Lemma all_nkinds_complete k : In k all_nkinds.
Proof. destruct k; cbn; tauto. Qed.

Lemma every_slot_needed_sweep :
  forallb (fun k => forallb (slot_needed k) (ref_slots k)) all_nkinds = true.
Proof. vm_compute. reflexivity. Qed.

Theorem every_slot_necessary k sl : In sl (ref_slots k) ->
  exists e c, nkind_of e = k /\ In c (children e) /\
    expr_loc_in c (entered_by (drop_slot k (fst sl) ref_slots) e) = false /\
    expr_loc_in c (entered_by ref_slots e) = true.
Proof.
  intros Hin.
  pose proof (proj1 (forallb_forall _ _) every_slot_needed_sweep k (all_nkinds_complete k)) as H1.
  pose proof (proj1 (forallb_forall _ _) H1 sl Hin) as H2. unfold slot_needed in H2.
  apply existsb_exists in H2. destruct H2 as (c & Hc & H3).
  apply andb_prop in H3. destruct H3 as [H3 H4]. apply negb_true_iff in H3.
  exists (sample_of k), c. repeat split; try assumption. destruct k; reflexivity.
Qed.

(* the defect the pinned tree had before commit 911c67a (fix: ast.Walk visits the sliced operand):
   the SliceNode case walked From and To only *)
Definition table_before_fix : table := drop_slot NkSlice FNode ref_slots.

Definition slice_witness : expr :=
  ESlice (at_loc (1%Z, 1%Z)) (EIdent (at_loc (1%Z, 0%Z)) "A" false)
         (Some (EInt (at_loc (1%Z, 2%Z)) 1%Z)) (Some (EInt (at_loc (1%Z, 4%Z)) 2%Z)).

(* A[1:2]: with the table of the defective walker three nodes are exited instead of four and the
   identifier A is never entered *)
Theorem skipped_slot_refuted :
  exists e c, In c (preorder e) /\
    match walk (esize e) table_before_fix logger [] e with
    | WDone l _ => List.length (exits l) = 3 /\ esize e = 4 /\ expr_loc_in c (enters l) = false
    | _ => False
    end.
Proof.
  exists slice_witness, (EIdent (at_loc (1%Z, 0%Z)) "A" false). split.
  - vm_compute. right. left. reflexivity.
  - vm_compute. repeat split.
Qed.

(* an unguarded walk of an absent optional child is a panic of the Go walker: the nil guards of
   From and To are necessary too *)
Definition table_unguarded : table :=
  fun k => match k with NkSlice => [(FNode, Single); (FFrom, Single); (FTo, Optional)] | _ => ref_slots k end.

Theorem unguarded_optional_panics :
  walk 5 table_unguarded logger [] (ESlice (at_loc (1%Z, 1%Z)) (EIdent (at_loc (1%Z, 0%Z)) "A" false) None None) = WPanic.
Proof. vm_compute. reflexivity. Qed.

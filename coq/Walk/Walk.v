(* Walk/Walk.v — executable model of ast.Walk (ast/visitor.go) and ast.Patch (ast/node.go).

   The Go walker is   Enter(node); switch n := node.(type) { case *XNode: w.walk(&n.F) ... ; Exit(node) }.
   Which fields are walked, in which order and under which nil-guard is a TABLE (per node kind a
   list of slots); the translator regenerates that table from ast/visitor.go (coq/gen/GenWalk.v).
   The model below is parametric in the table.  Visitors are state-passing records; mutation
   through `*Node` is "return the new node".  Enter may replace the node BEFORE the children are
   selected (the Go type switch is on the node after Enter); Exit replaces after the children.
   An Enter that keeps enlarging the tree makes the Go walker recurse for ever, hence fuel (one
   unit per nesting level) with an explicit out-of-fuel outcome.

   Also here (definitions only, no proofs): the REFERENCE notions the theorems are stated with,
   all written from `Ast.children` (every Node-typed slot in source order): generic tree fold,
   `spec_events`, `preorder`, `postorder`, `set_children`, `map_tree`, `ref_traverse`, paths.

   Modelling assumptions: a visitor changes the tree only through the *Node it is handed (it may
   return any tree for that position); trees, not DAGs (a node shared by two parents is two
   occurrences). *)
From Coq Require Import ZArith Bool List String.
Require Import X.Base.Num X.Base.Value X.Syn.Ast.
Import ListNotations.

(* ------------------------------------------------------------------ slots *)
(* the Node / []Node typed field names that occur in ast/node.go *)
Inductive field :=
| FNode | FLeft | FRight | FIndex | FFrom | FTo | FArguments | FCond | FExp1 | FExp2
| FNodes | FPairs | FKey | FValue
| FOther (name : string).

(* how the walker treats the field:  w.walk(&n.F)  |  if n.F != nil { w.walk(&n.F) }  |  for i := range n.F { w.walk(&n.F[i]) } *)
Inductive smode := Single | Optional | Many.

Definition slot := (field * smode)%type.
Definition table := nkind -> list slot.

Definition field_idx (f : field) : Z :=
  match f with
  | FNode => 0 | FLeft => 1 | FRight => 2 | FIndex => 3 | FFrom => 4 | FTo => 5 | FArguments => 6
  | FCond => 7 | FExp1 => 8 | FExp2 => 9 | FNodes => 10 | FPairs => 11 | FKey => 12 | FValue => 13
  | FOther _ => 14
  end%Z.
Definition field_eqb (a b : field) : bool :=
  match a, b with
  | FOther s, FOther s' => String.eqb s s'
  | _, _ => Z.eqb (field_idx a) (field_idx b)
  end.
Definition smode_eqb (a b : smode) : bool :=
  match a, b with Single, Single | Optional, Optional | Many, Many => true | _, _ => false end.
Definition slot_eqb (a b : slot) : bool := field_eqb (fst a) (fst b) && smode_eqb (snd a) (snd b).

(* the nodes currently held by field f of node e (a nil Node field holds none) *)
Definition slot_get (e : expr) (f : field) : list expr :=
  match e with
  | EUnary _ _ x => match f with FNode => [x] | _ => [] end
  | EBinary _ _ l r => match f with FLeft => [l] | FRight => [r] | _ => [] end
  | EMatches _ _ l r => match f with FLeft => [l] | FRight => [r] | _ => [] end
  | EProperty _ x _ _ => match f with FNode => [x] | _ => [] end
  | EIndex _ x i => match f with FNode => [x] | FIndex => [i] | _ => [] end
  | ESlice _ x fr to => match f with FNode => [x] | FFrom => opt_list fr | FTo => opt_list to | _ => [] end
  | EMethod _ x _ args _ => match f with FNode => [x] | FArguments => args | _ => [] end
  | EFunction _ _ args _ => match f with FArguments => args | _ => [] end
  | EBuiltin _ _ args => match f with FArguments => args | _ => [] end
  | EClosure _ x => match f with FNode => [x] | _ => [] end
  | ECond _ c x y => match f with FCond => [c] | FExp1 => [x] | FExp2 => [y] | _ => [] end
  | EArray _ es => match f with FNodes => es | _ => [] end
  | EMap _ ps => match f with FPairs => ps | _ => [] end
  | EPair _ k v => match f with FKey => [k] | FValue => [v] | _ => [] end
  | _ => []
  end.

Definition hd_or (d : expr) (l : list expr) : expr := match l with y :: _ => y | [] => d end.
Definition hd_opt (l : list expr) : option expr := match l with y :: _ => Some y | [] => None end.

(* store the (walked) nodes back into field f *)
Definition slot_set (e : expr) (f : field) (l : list expr) : expr :=
  match e with
  | EUnary a o x => match f with FNode => EUnary a o (hd_or x l) | _ => e end
  | EBinary a o x y => match f with FLeft => EBinary a o (hd_or x l) y | FRight => EBinary a o x (hd_or y l) | _ => e end
  | EMatches a re x y => match f with FLeft => EMatches a re (hd_or x l) y | FRight => EMatches a re x (hd_or y l) | _ => e end
  | EProperty a x n s => match f with FNode => EProperty a (hd_or x l) n s | _ => e end
  | EIndex a x i => match f with FNode => EIndex a (hd_or x l) i | FIndex => EIndex a x (hd_or i l) | _ => e end
  | ESlice a x fr to =>
      match f with
      | FNode => ESlice a (hd_or x l) fr to
      | FFrom => ESlice a x (hd_opt l) to
      | FTo => ESlice a x fr (hd_opt l)
      | _ => e
      end
  | EMethod a x n args s => match f with FNode => EMethod a (hd_or x l) n args s | FArguments => EMethod a x n l s | _ => e end
  | EFunction a n args fa => match f with FArguments => EFunction a n l fa | _ => e end
  | EBuiltin a b args => match f with FArguments => EBuiltin a b l | _ => e end
  | EClosure a x => match f with FNode => EClosure a (hd_or x l) | _ => e end
  | ECond a c x y =>
      match f with
      | FCond => ECond a (hd_or c l) x y | FExp1 => ECond a c (hd_or x l) y | FExp2 => ECond a c x (hd_or y l)
      | _ => e
      end
  | EArray a es => match f with FNodes => EArray a l | _ => e end
  | EMap a ps => match f with FPairs => EMap a l | _ => e end
  | EPair a k v => match f with FKey => EPair a (hd_or k l) v | FValue => EPair a k (hd_or v l) | _ => e end
  | _ => e
  end.

(* ------------------------------------------------------------------ visitors, Patch *)
Record visitor (St : Type) := mkVisitor {
  v_enter : St -> expr -> St * expr;
  v_exit : St -> expr -> St * expr
}.
Arguments mkVisitor {St}. Arguments v_enter {St}. Arguments v_exit {St}.

(* ast.Patch(node, newNode): the new node receives the old node's type annotation and location *)
Definition patch (old new : expr) : expr := set_ann new (ann_of old).

(* ------------------------------------------------------------------ the walker *)
Inductive wres (St : Type) := WDone (s : St) (e : expr) | WPanic | WOutOfFuel.
Arguments WDone {St}. Arguments WPanic {St}. Arguments WOutOfFuel {St}.
Inductive lres (St : Type) := LDone (s : St) (l : list expr) | LPanic | LOutOfFuel.
Arguments LDone {St}. Arguments LPanic {St}. Arguments LOutOfFuel {St}.

(* left to right over the nodes of one field / over a list of children *)
Fixpoint walk_list {St} (rec : St -> expr -> wres St) (s : St) (l : list expr) : lres St :=
  match l with
  | [] => LDone s []
  | c :: r =>
      match rec s c with
      | WDone s1 c' =>
          match walk_list rec s1 r with
          | LDone s2 r' => LDone s2 (c' :: r')
          | LPanic => LPanic
          | LOutOfFuel => LOutOfFuel
          end
      | WPanic => LPanic
      | WOutOfFuel => LOutOfFuel
      end
  end.

(* w.walk(&n.F) without nil guard on a nil field: Enter receives a nil node and the type switch
   falls into `default: panic` *)
Definition mode_panics (m : smode) (present : list expr) : bool :=
  match m, present with Single, [] => true | _, _ => false end.

Fixpoint walk_slots {St} (rec : St -> expr -> wres St) (sl : list slot) (s : St) (e : expr) : wres St :=
  match sl with
  | [] => WDone s e
  | (f, m) :: rest =>
      if mode_panics m (slot_get e f) then WPanic else
      match walk_list rec s (slot_get e f) with
      | LDone s' cs' => walk_slots rec rest s' (slot_set e f cs')
      | LPanic => WPanic
      | LOutOfFuel => WOutOfFuel
      end
  end.

Fixpoint walk {St} (n : nat) (tbl : table) (v : visitor St) (s : St) (e : expr) {struct n} : wres St :=
  match n with
  | O => WOutOfFuel
  | S n' =>
      let se := v_enter v s e in
      match walk_slots (walk n' tbl v) (tbl (nkind_of (snd se))) (fst se) (snd se) with
      | WDone s2 e2 => let sx := v_exit v s2 e2 in WDone (fst sx) (snd sx)
      | WPanic => WPanic
      | WOutOfFuel => WOutOfFuel
      end
  end.

(* ------------------------------------------------------------------ events *)
(* what an instrumenting visitor records: the node it was handed, at Enter and at Exit *)
Inductive event := EvEnter (e : expr) | EvExit (e : expr).

Definition ev_node (x : event) : expr := match x with EvEnter e | EvExit e => e end.
Definition ev_is_enter (x : event) : bool := match x with EvEnter _ => true | EvExit _ => false end.
(* identity of an event as observable on the Go side: phase, node kind, location *)
Definition ev_id (x : event) : bool * nkind * loc := (ev_is_enter x, nkind_of (ev_node x), loc_of (ev_node x)).

Definition enters (l : list event) : list expr :=
  flat_map (fun x => match x with EvEnter e => [e] | EvExit _ => [] end) l.
Definition exits (l : list event) : list expr :=
  flat_map (fun x => match x with EvExit e => [e] | EvEnter _ => [] end) l.

(* the visitor that only records *)
Definition logger : visitor (list event) :=
  mkVisitor (fun l e => (l ++ [EvEnter e], e)) (fun l e => (l ++ [EvExit e], e)).

(* any visitor, with recording added in front of its Enter and Exit *)
Definition instrument {St} (v : visitor St) : visitor (St * list event) :=
  mkVisitor
    (fun sl e => let r := v_enter v (fst sl) e in ((fst r, snd sl ++ [EvEnter e]), snd r))
    (fun sl e => let r := v_exit v (fst sl) e in ((fst r, snd sl ++ [EvExit e]), snd r)).

(* ------------------------------------------------------------------ reference notions *)
(* REFERENCE table: the slot structure of Ast.children — every Node-typed slot of the kind in
   declaration order; From/To of a slice may be absent (tied to `children` for all trees by
   WalkProofs.ref_slots_children) *)
Definition ref_slots (k : nkind) : list slot :=
  match k with
  | NkUnary | NkProperty | NkClosure => [(FNode, Single)]
  | NkBinary | NkMatches => [(FLeft, Single); (FRight, Single)]
  | NkIndex => [(FNode, Single); (FIndex, Single)]
  | NkSlice => [(FNode, Single); (FFrom, Optional); (FTo, Optional)]
  | NkMethod => [(FNode, Single); (FArguments, Many)]
  | NkFunction | NkBuiltin => [(FArguments, Many)]
  | NkConditional => [(FCond, Single); (FExp1, Single); (FExp2, Single)]
  | NkArray => [(FNodes, Many)]
  | NkMap => [(FPairs, Many)]
  | NkPair => [(FKey, Single); (FValue, Single)]
  | _ => []
  end.

(* what a struct declaration can say about a slot: Node or []Node (no nil-guard information) *)
Definition decl_of (sl : slot) : slot :=
  match sl with (f, Optional) => (f, Single) | _ => sl end.

Definition refill (o : option expr) (l : list expr) : option expr * list expr :=
  match o with
  | None => (None, l)
  | Some x => match l with y :: r => (Some y, r) | [] => (Some x, []) end
  end.

(* the node with its children (in the order of Ast.children) replaced *)
Definition set_children (e : expr) (cs : list expr) : expr :=
  match e with
  | EUnary a o x => EUnary a o (hd_or x cs)
  | EBinary a o l r => EBinary a o (hd_or l cs) (hd_or r (tl cs))
  | EMatches a re l r => EMatches a re (hd_or l cs) (hd_or r (tl cs))
  | EProperty a x n s => EProperty a (hd_or x cs) n s
  | EIndex a x i => EIndex a (hd_or x cs) (hd_or i (tl cs))
  | ESlice a x fr to =>
      let r1 := refill fr (tl cs) in
      let r2 := refill to (snd r1) in
      ESlice a (hd_or x cs) (fst r1) (fst r2)
  | EMethod a x n args s => EMethod a (hd_or x cs) n (tl cs) s
  | EFunction a n _ fa => EFunction a n cs fa
  | EBuiltin a b _ => EBuiltin a b cs
  | EClosure a x => EClosure a (hd_or x cs)
  | ECond a c x y => ECond a (hd_or c cs) (hd_or x (tl cs)) (hd_or y (tl (tl cs)))
  | EArray a _ => EArray a cs
  | EMap a _ => EMap a cs
  | EPair a k v => EPair a (hd_or k cs) (hd_or v (tl cs))
  | _ => e
  end.

(* generic bottom-up fold over a tree; WalkProofs.tree_fold_eq:
     tree_fold f e = f e (map (tree_fold f) (children e)) *)
Fixpoint tree_fold {A : Type} (f : expr -> list A -> A) (e : expr) : A :=
  let fix go (l : list expr) : list A := match l with [] => [] | x :: r => tree_fold f x :: go r end in
  f e
    (match e with
     | ENil _ | EIdent _ _ _ | EInt _ _ | EFloat _ _ | EBool _ _ | EStr _ _ | EConst _ _ | EPointer _ => []
     | EUnary _ _ x | EProperty _ x _ _ | EClosure _ x => [tree_fold f x]
     | EBinary _ _ l r | EMatches _ _ l r | EIndex _ l r | EPair _ l r => [tree_fold f l; tree_fold f r]
     | ESlice _ x fr to =>
         tree_fold f x ::
           (match fr with Some y => [tree_fold f y] | None => [] end) ++
           (match to with Some y => [tree_fold f y] | None => [] end)
     | EMethod _ x _ args _ => tree_fold f x :: go args
     | EFunction _ _ args _ | EBuiltin _ _ args | EArray _ args | EMap _ args => go args
     | ECond _ c x y => [tree_fold f c; tree_fold f x; tree_fold f y]
     end).

(* SPECIFICATION of the event stream: enter the parent, then the children left to right (each
   with its whole subtree), then exit the parent *)
Definition spec_events : expr -> list event :=
  tree_fold (fun e rs => EvEnter e :: List.concat rs ++ [EvExit e]).

(* all nodes (sub-trees) of a tree: parents first / children first *)
Definition preorder : expr -> list expr := tree_fold (fun e rs => e :: List.concat rs).
Definition postorder : expr -> list expr := tree_fold (fun e rs => List.concat rs ++ [e]).

(* REFERENCE for replacement at Exit by a pure function: apply f at every position, bottom-up *)
Definition map_tree (f : expr -> expr) : expr -> expr :=
  tree_fold (fun e rs => f (set_children e rs)).

(* visitors whose Enter does not replace (all visitors of the library itself are of this form) *)
Record xvisitor (St : Type) := mkX {
  x_enter : St -> expr -> St;
  x_exit : St -> expr -> St * expr
}.
Arguments mkX {St}. Arguments x_enter {St}. Arguments x_exit {St}.

Definition to_visitor {St} (x : xvisitor St) : visitor St :=
  mkVisitor (fun s e => (x_enter x s e, e)) (x_exit x).

(* thread a state through the traversals of the children, left to right *)
Fixpoint thread {St} (rs : list (St -> St * expr)) (s : St) : St * list expr :=
  match rs with
  | [] => (s, [])
  | r :: rest => let a := r s in let b := thread rest (fst a) in (fst b, snd a :: snd b)
  end.

(* REFERENCE traversal for such visitors, by structural recursion over the tree: state through
   Enter, through the children in source order, then Exit on the node with the replaced children *)
Definition ref_traverse {St} (x : xvisitor St) : expr -> St -> St * expr :=
  tree_fold (fun e rs s =>
    let b := thread rs (x_enter x s e) in
    x_exit x (fst b) (set_children e (snd b))).

Definition pure_exit (f : expr -> expr) : xvisitor unit := mkX (fun s _ => s) (fun s e => (s, f e)).
Definition xlogger : xvisitor (list event) :=
  mkX (fun l e => l ++ [EvEnter e]) (fun l e => (l ++ [EvExit e], e)).
Definition xinstrument {St} (x : xvisitor St) : xvisitor (St * list event) :=
  mkX (fun sl e => (x_enter x (fst sl) e, snd sl ++ [EvEnter e]))
      (fun sl e => let r := x_exit x (fst sl) e in ((fst r, snd sl ++ [EvExit e]), snd r)).

(* positions: a path selects a child by its index in Ast.children at every level *)
Fixpoint subterm_at (p : list nat) (e : expr) : option expr :=
  match p with
  | [] => Some e
  | i :: q => match nth_error (children e) i with Some c => subterm_at q c | None => None end
  end.

(* does some node of the tree satisfy m *)
Definition exists_node (m : expr -> bool) (e : expr) : bool := existsb m (preorder e).

Definition nkind_eqb (a b : nkind) : bool :=
  match a, b with
  | NkNil, NkNil | NkIdentifier, NkIdentifier | NkInteger, NkInteger | NkFloat, NkFloat | NkBool, NkBool
  | NkString, NkString | NkConstant, NkConstant | NkUnary, NkUnary | NkBinary, NkBinary
  | NkMatches, NkMatches | NkProperty, NkProperty | NkIndex, NkIndex | NkSlice, NkSlice
  | NkMethod, NkMethod | NkFunction, NkFunction | NkBuiltin, NkBuiltin | NkClosure, NkClosure
  | NkPointer, NkPointer | NkConditional, NkConditional | NkArray, NkArray | NkMap, NkMap
  | NkPair, NkPair => true
  | _, _ => false
  end.

(* a table with one slot of one kind left out (what a forgotten w.walk(&n.F) is) *)
Definition drop_slot (k : nkind) (f : field) (tbl : table) : table :=
  fun k' => if nkind_eqb k k' then filter (fun x => negb (field_eqb (fst x) f)) (tbl k') else tbl k'.
